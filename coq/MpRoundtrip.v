(* MpRoundtrip.v — C01 at the MsgPack value level: what a WriteValue overload emits, the matching
   ReadValue overload reads back as the same value, whatever follows it in the buffer.
   Composition of the writer theorems (MpWriter.v) with the reader agreement theorems (MpTyped.v). *)
From BS Require Import Base MpSpec MpModel MpLemmas MpWriter MpReader MpTyped.
From Coq Require Import ZifyBool ZifyN ZifyNat.
Local Open Scope N_scope.

Lemma dec1_decode bytes rest : dec1 bytes rest = decode (bytes ++ rest).
Proof. reflexivity. Qed.

Lemma read_int_of_decode o t data z r : decode data = Some (MInt z, r) -> in_range t z = true ->
  read_int o t data = ROk z r.
Proof.
  intros H Hr. pose proof (read_int_agrees o t data) as A. unfold int_spec in A. rewrite H in A.
  rewrite A. unfold convert_int. rewrite Hr. reflexivity.
Qed.

(* every unsigned writer overload into every integer target able to hold the value *)
Theorem rt_u64 o t v rest : v < 18446744073709551616 -> in_range t (Z.of_N v) = true ->
  read_int o t (wr_u64 v ++ rest) = ROk (Z.of_N v) rest.
Proof. intros Hv Hr. apply read_int_of_decode; [|exact Hr]. rewrite <- dec1_decode. apply wr_u64_ok. exact Hv. Qed.
Theorem rt_u32 o t v rest : v < 4294967296 -> in_range t (Z.of_N v) = true ->
  read_int o t (wr_u32 v ++ rest) = ROk (Z.of_N v) rest.
Proof. intros Hv Hr. apply read_int_of_decode; [|exact Hr]. rewrite <- dec1_decode. apply wr_u32_ok. exact Hv. Qed.
Theorem rt_u16 o t v rest : v < 65536 -> in_range t (Z.of_N v) = true ->
  read_int o t (wr_u16 v ++ rest) = ROk (Z.of_N v) rest.
Proof. intros Hv Hr. apply read_int_of_decode; [|exact Hr]. rewrite <- dec1_decode. apply wr_u16_ok. exact Hv. Qed.
Theorem rt_u8 o t v rest : v < 256 -> in_range t (Z.of_N v) = true ->
  read_int o t (wr_u8 v ++ rest) = ROk (Z.of_N v) rest.
Proof. intros Hv Hr. apply read_int_of_decode; [|exact Hr]. rewrite <- dec1_decode. apply wr_u8_ok. exact Hv. Qed.

Theorem rt_i64 o t z rest : (-9223372036854775808 <= z < 9223372036854775808)%Z -> in_range t z = true ->
  read_int o t (wr_i64 z ++ rest) = ROk z rest.
Proof. intros Hz Hr. apply read_int_of_decode; [|exact Hr]. rewrite <- dec1_decode. apply wr_i64_ok. exact Hz. Qed.
Theorem rt_i32 o t z rest : (-2147483648 <= z < 2147483648)%Z -> in_range t z = true ->
  read_int o t (wr_i32 z ++ rest) = ROk z rest.
Proof. intros Hz Hr. apply read_int_of_decode; [|exact Hr]. rewrite <- dec1_decode. apply wr_i32_ok. exact Hz. Qed.
Theorem rt_i16 o t z rest : (-32768 <= z < 32768)%Z -> in_range t z = true ->
  read_int o t (wr_i16 z ++ rest) = ROk z rest.
Proof. intros Hz Hr. apply read_int_of_decode; [|exact Hr]. rewrite <- dec1_decode. apply wr_i16_ok. exact Hz. Qed.
Theorem rt_i8 o t z rest : (-128 <= z < 128)%Z -> in_range t z = true ->
  read_int o t (wr_i8 z ++ rest) = ROk z rest.
Proof. intros Hz Hr. apply read_int_of_decode; [|exact Hr]. rewrite <- dec1_decode. apply wr_i8_ok. exact Hz. Qed.

(* bool is read through ReadInteger with the target {0,1} *)
Theorem rt_bool o b rest :
  read_int o (mkIty false 1) (wr_bool b ++ rest) = ROk (if b then 1 else 0)%Z rest.
Proof.
  pose proof (read_int_agrees o (mkIty false 1) (wr_bool b ++ rest)) as A. unfold int_spec in A.
  rewrite <- dec1_decode, wr_bool_ok in A. rewrite A. destruct b; reflexivity.
Qed.

Theorem rt_nil o rest : read_nil o (wr_nil ++ rest) = ROk tt rest.
Proof.
  pose proof (read_nil_agrees o (wr_nil ++ rest)) as A. unfold nil_spec in A.
  rewrite <- dec1_decode, wr_nil_ok in A. exact A.
Qed.

Theorem rt_str o s rest out : Forall (fun b => b < 256) (out ++ rest) -> wr_str s = Some out ->
  read_str o (out ++ rest) = ROk s rest.
Proof.
  intros Hb Hw. pose proof (wr_str_ok s rest) as W. rewrite Hw in W. destruct W as [W _].
  pose proof (read_str_agrees o (out ++ rest) Hb) as A. unfold str_spec in A.
  rewrite <- dec1_decode, W in A. exact A.
Qed.

Theorem rt_f32 narrow o bits rest : bits < 2 ^ 32 -> read_f32 narrow o (wr_f32 bits ++ rest) = ROk bits rest.
Proof.
  intros Hb. pose proof (read_f32_agrees narrow o (wr_f32 bits ++ rest)) as A. unfold f32_spec in A.
  rewrite <- dec1_decode, wr_f32_ok in A by exact Hb. exact A.
Qed.
Theorem rt_f64 widen o bits rest : bits < 2 ^ 64 -> read_f64 widen o (wr_f64 bits ++ rest) = ROk bits rest.
Proof.
  intros Hb. pose proof (read_f64_agrees widen o (wr_f64 bits ++ rest)) as A. unfold f64_spec in A.
  rewrite <- dec1_decode, wr_f64_ok in A by exact Hb. exact A.
Qed.
(* a float written as float32 loads into a double target as its exact widening *)
Theorem rt_f32_into_f64 widen o bits rest : bits < 2 ^ 32 ->
  read_f64 widen o (wr_f32 bits ++ rest) = ROk (widen bits) rest.
Proof.
  intros Hb. pose proof (read_f64_agrees widen o (wr_f32 bits ++ rest)) as A. unfold f64_spec in A.
  rewrite <- dec1_decode, wr_f32_ok in A by exact Hb. exact A.
Qed.

