(* MpSave.v — C06 at the scope level: a saved value tree is exactly one well-formed MessagePack object
   from which the reference decoder recovers the denoted data (types, values, order, counts). *)
From BS Require Import Base MpSpec MpModel MpLemmas MpWriter MpSaveModel.
From Coq Require Import ZifyBool ZifyN ZifyNat.
Local Open Scope N_scope.

(* induction principle that goes through the nested lists *)
Section TvInd.
  Variable P : tv -> Prop.
  Hypothesis Hnil : P TNil.
  Hypothesis Hbool : forall b, P (TBool b).
  Hypothesis Hint : forall k z, P (TInt k z).
  Hypothesis Hf32 : forall b, P (TF32 b).
  Hypothesis Hf64 : forall b, P (TF64 b).
  Hypothesis Hstr : forall s, P (TStr s).
  Hypothesis Hbytes : forall s, P (TBytes s).
  Hypothesis Harr : forall l, Forall P l -> P (TArr l).
  Hypothesis Hobj : forall kvs, Forall (fun kv => P (fst kv) /\ P (snd kv)) kvs -> P (TObj kvs).

  Fixpoint tv_ind2 (v : tv) : P v :=
    match v with
    | TNil => Hnil | TBool b => Hbool b | TInt k z => Hint k z | TF32 b => Hf32 b | TF64 b => Hf64 b
    | TStr s => Hstr s | TBytes s => Hbytes s
    | TArr l => Harr l ((fix go (l : list tv) : Forall P l :=
                           match l with [] => Forall_nil _ | x :: t => Forall_cons _ (tv_ind2 x) (go t) end) l)
    | TObj kvs => Hobj kvs ((fix go (l : list (tv * tv)) : Forall (fun kv => P (fst kv) /\ P (snd kv)) l :=
                           match l with
                           | [] => Forall_nil _
                           | (k, x) :: t =>
                               @Forall_cons _ (fun kv => P (fst kv) /\ P (snd kv)) (k, x) t
                                 (conj (tv_ind2 k) (tv_ind2 x)) (go t)
                           end) kvs)
    end.
End TvInd.

(* the list parts of save / wf_tv, named *)
Fixpoint save_list (l : list tv) : option (list N) :=
  match l with [] => Some [] | x :: t => opt_app (save x) (save_list t) end.
Fixpoint save_pairs (l : list (tv * tv)) : option (list N) :=
  match l with [] => Some [] | (k, x) :: t => opt_app (opt_app (save k) (save x)) (save_pairs t) end.

Lemma save_arr l : save (TArr l) = opt_app (wr_array_header (N.of_nat (length l))) (save_list l).
Proof. reflexivity. Qed.
Lemma save_obj l : save (TObj l) = opt_app (wr_map_header (N.of_nat (length l))) (save_pairs l).
Proof. reflexivity. Qed.

Fixpoint wf_list (l : list tv) : Prop := match l with [] => True | x :: t => wf_tv x /\ wf_list t end.
Fixpoint wf_pairs (l : list (tv * tv)) : Prop :=
  match l with [] => True | (k, x) :: t => wf_tv k /\ wf_tv x /\ wf_pairs t end.
Lemma wf_arr l : wf_tv (TArr l) = wf_list l.
Proof. reflexivity. Qed.
Lemma wf_obj l : wf_tv (TObj l) = wf_pairs l.
Proof. reflexivity. Qed.

Lemma opt_app_some a b out : opt_app a b = Some out -> exists x y, a = Some x /\ b = Some y /\ out = x ++ y.
Proof. destruct a as [x|], b as [y|]; cbn; intros H; try discriminate. injection H as <-. eauto. Qed.

(* every encoding is at least one byte long *)
Lemma save_nonempty v b : save v = Some b -> (1 <= length b)%nat.
Proof.
  destruct v; intros H.
  - cbn [save] in H. injection H as <-. cbn. lia.
  - cbn [save] in H. injection H as <-. cbn. lia.
  - cbn [save] in H. injection H as <-. destruct k; cbn [wr_int];
      unfold wr_u64, wr_u32, wr_u16, wr_u8, wr_i64, wr_i32, wr_i16, wr_i8;
      repeat match goal with |- context [if ?c then _ else _] => destruct c end; cbn [length]; lia.
  - cbn [save] in H. injection H as <-. cbn. lia.
  - cbn [save] in H. injection H as <-. cbn. lia.
  - cbn [save] in H. unfold wr_str in H. destruct (wr_str_header _) as [h|] eqn:E; [|discriminate]. injection H as <-.
    unfold wr_str_header in E. repeat match type of E with context [if ?c then _ else _] => destruct c end;
      try discriminate; injection E as <-; cbn [length app]; lia.
  - cbn [save] in H. apply opt_app_some in H. destruct H as [h [y [E [Ey ->]]]].
    unfold wr_bin_header in E. repeat match type of E with context [if ?c then _ else _] => destruct c end;
      try discriminate; injection E as <-; cbn [length app]; lia.
  - rewrite save_arr in H. apply opt_app_some in H. destruct H as [h [y [E [Ey ->]]]].
    unfold wr_array_header in E. repeat match type of E with context [if ?c then _ else _] => destruct c end;
      try discriminate; injection E as <-; cbn [length app]; lia.
  - rewrite save_obj in H. apply opt_app_some in H. destruct H as [h [y [E [Ey ->]]]].
    unfold wr_map_header in E. repeat match type of E with context [if ?c then _ else _] => destruct c end;
      try discriminate; injection E as <-; cbn [length app]; lia.
Qed.

Lemma save_list_length l b : save_list l = Some b -> (length l <= length b)%nat.
Proof.
  revert b. induction l as [|x t IH]; intros b H; cbn [save_list] in H.
  - injection H as <-. cbn. lia.
  - apply opt_app_some in H. destruct H as [bx [bt [Ex [Et ->]]]].
    apply save_nonempty in Ex. apply IH in Et. rewrite app_length. cbn [length]. lia.
Qed.

Lemma save_pairs_length l b : save_pairs l = Some b -> (length l <= length b)%nat.
Proof.
  revert b. induction l as [|[k x] t IH]; intros b H; cbn [save_pairs] in H.
  - injection H as <-. cbn. lia.
  - apply opt_app_some in H. destruct H as [bkx [bt [Ekx [Et ->]]]].
    apply opt_app_some in Ekx. destruct Ekx as [bk [bx [Ek [Ex ->]]]].
    apply save_nonempty in Ek. apply IH in Et. rewrite !app_length. cbn [length]. lia.
Qed.

(* the goal statement, for one value *)
Definition decodes (v : tv) : Prop :=
  wf_tv v -> forall b, save v = Some b -> forall rest f, (length b <= f)%nat ->
  decode_ref (S f) (b ++ rest) = Some (abs v, rest).

Lemma rep_save_list f : forall l, Forall decodes l -> wf_list l -> forall b, save_list l = Some b ->
  forall rest g, (length b <= f)%nat -> (length l <= g)%nat ->
  rep (decode_ref (S f)) g (N.of_nat (length l)) (b ++ rest) = Some (map abs l, rest).
Proof.
  induction l as [|x t IH]; intros HF Hwf b Hs rest g Hf Hg.
  - cbn [save_list] in Hs. injection Hs as <-. destruct g; reflexivity.
  - inversion HF as [|? ? Hx Ht]; subst. destruct Hwf as [Hwx Hwt].
    cbn [save_list] in Hs. apply opt_app_some in Hs. destruct Hs as [bx [bt [Ex [Et ->]]]].
    rewrite app_length in Hf.
    destruct g as [|g]; [cbn [length] in Hg; lia|].
    cbn [rep length]. replace (N.of_nat (S (length t)) =? 0) with false by (symmetry; lia).
    rewrite <- app_assoc. rewrite (Hx Hwx bx Ex (bt ++ rest) f) by lia.
    replace (N.of_nat (S (length t)) - 1) with (N.of_nat (length t)) by lia.
    rewrite (IH Ht Hwt bt Et rest g) by (cbn [length] in Hg; lia). reflexivity.
Qed.

Lemma rep_save_pairs f : forall l, Forall (fun kv => decodes (fst kv) /\ decodes (snd kv)) l -> wf_pairs l ->
  forall b, save_pairs l = Some b ->
  forall rest g, (length b <= f)%nat -> (length l <= g)%nat ->
  rep (step_pair (decode_ref (S f))) g (N.of_nat (length l)) (b ++ rest) =
    Some (map (fun kv => (abs (fst kv), abs (snd kv))) l, rest).
Proof.
  induction l as [|[k x] t IH]; intros HF Hwf b Hs rest g Hf Hg.
  - cbn [save_pairs] in Hs. injection Hs as <-. destruct g; reflexivity.
  - inversion HF as [|? ? [Hk Hx] Ht]; subst. destruct Hwf as [Hwk [Hwx Hwt]]. cbn [fst snd] in *.
    cbn [save_pairs] in Hs. apply opt_app_some in Hs. destruct Hs as [bkx [bt [Ekx [Et ->]]]].
    apply opt_app_some in Ekx. destruct Ekx as [bk [bx [Ek [Ex ->]]]].
    rewrite !app_length in Hf.
    destruct g as [|g]; [cbn [length] in Hg; lia|].
    cbn [rep length]. replace (N.of_nat (S (length t)) =? 0) with false by (symmetry; lia).
    unfold step_pair at 1. rewrite <- !app_assoc.
    rewrite (Hk Hwk bk Ek (bx ++ bt ++ rest) f) by lia.
    rewrite (Hx Hwx bx Ex (bt ++ rest) f) by lia.
    replace (N.of_nat (S (length t)) - 1) with (N.of_nat (length t)) by lia.
    rewrite (IH Ht Hwt bt Et rest g) by (cbn [length] in Hg; lia). reflexivity.
Qed.

Theorem save_decodes_fuel : forall v, decodes v.
Proof.
  apply tv_ind2; unfold decodes.
  - intros _ b H rest f _. injection H as <-. apply (wr_nil_okf f).
  - intros bo _ b H rest f _. injection H as <-. apply (wr_bool_okf f).
  - intros k z Hwf b H rest f _. injection H as <-. cbn [wf_tv] in Hwf. cbn [abs].
    destruct k; cbn [wr_int ikind_range] in *.
    + replace z with (Z.of_N (Z.to_N z)) at 2 by lia. apply (wr_u8_okf f). lia.
    + replace z with (Z.of_N (Z.to_N z)) at 2 by lia. apply (wr_u16_okf f). lia.
    + replace z with (Z.of_N (Z.to_N z)) at 2 by lia. apply (wr_u32_okf f). lia.
    + replace z with (Z.of_N (Z.to_N z)) at 2 by lia. apply (wr_u64_okf f). lia.
    + apply (wr_i8_okf f). lia.
    + apply (wr_i16_okf f). lia.
    + apply (wr_i32_okf f). lia.
    + apply (wr_i64_okf f). lia.
  - intros bits Hwf b H rest f _. injection H as <-. apply (wr_f32_okf f). exact Hwf.
  - intros bits Hwf b H rest f _. injection H as <-. apply (wr_f64_okf f). exact Hwf.
  - intros s _ b H rest f _. cbn [save] in H. pose proof (wr_str_okf f s rest) as W. rewrite H in W. apply W.
  - intros s _ b H rest f _. cbn [save] in H. apply opt_app_some in H. destruct H as [h [y [E [Ey ->]]]].
    injection Ey as <-. pose proof (wr_bin_header_ok (N.of_nat (length s))) as W. rewrite E in W.
    destruct W as [_ [_ W]]. rewrite <- app_assoc, W. unfold bin_body. rewrite take_app. reflexivity.
  - intros l HF Hwf b H rest f Hf. rewrite wf_arr in Hwf. rewrite save_arr in H.
    apply opt_app_some in H. destruct H as [h [y [E [Ey ->]]]].
    pose proof (wr_array_header_ok (N.of_nat (length l))) as W. rewrite E in W. destruct W as [_ [Hl W]].
    rewrite <- app_assoc, W. unfold arr_body. rewrite app_length in Hf.
    assert (Hh : (1 <= length h)%nat).
    { rewrite Hl. unfold shortest_arr_header. repeat match goal with |- context [if ?c then _ else _] => destruct c end; lia. }
    destruct f as [|f]; [lia|].
    pose proof (save_list_length l y Ey) as Hlen.
    rewrite (rep_save_list f l HF Hwf y Ey rest (S f)) by lia. reflexivity.
  - intros l HF Hwf b H rest f Hf. rewrite wf_obj in Hwf. rewrite save_obj in H.
    apply opt_app_some in H. destruct H as [h [y [E [Ey ->]]]].
    pose proof (wr_map_header_ok (N.of_nat (length l))) as W. rewrite E in W. destruct W as [_ [Hl W]].
    rewrite <- app_assoc, W. unfold map_body. rewrite app_length in Hf.
    assert (Hh : (1 <= length h)%nat).
    { rewrite Hl. unfold shortest_arr_header. repeat match goal with |- context [if ?c then _ else _] => destruct c end; lia. }
    destruct f as [|f]; [lia|].
    pose proof (save_pairs_length l y Ey) as Hlen.
    rewrite (rep_save_pairs f l HF Hwf y Ey rest (S f)) by lia. reflexivity.
Qed.

(* C06, typed level: exactly one well-formed object; an independent decoder recovers types, values,
   element order and counts; nothing is left over *)
Theorem save_decodes v b : wf_tv v -> save v = Some b -> decode b = Some (abs v, []).
Proof.
  intros Hwf Hs. unfold decode. pose proof (save_decodes_fuel v Hwf b Hs [] (length b) (Nat.le_refl _)) as H.
  rewrite app_nil_r in H. exact H.
Qed.

(* byte containers are bin, not arrays *)
Example save_bytes_in_array :
  save (TArr [TBytes [1; 2]; TBytes [0x90]]) = Some [0x92; 0xC4; 2; 1; 2; 0xC4; 1; 0x90].
Proof. vm_compute. reflexivity. Qed.
