(* MpSaveModel.v — the write scopes of include/bitserializer/msgpack_archive.h
   (MsgPackWriteRootScope, CMsgPackWriteArrayScope, CMsgPackWriteObjectScope, CMsgPackWriteBinaryScope)
   driven by the generic serialization layer for a value tree: which writer call each kind of value
   turns into, with the declared count of every array / map / binary equal to the number of entries
   written (that is what GetContainerSize / the fields-count visitor hand to Open*Scope).
   No proofs in this file. *)
From BS Require Import Base MpSpec MpModel.
Local Open Scope N_scope.

(* C++ integer type of a value: signedness and size in bytes (1, 2, 4, 8) *)
Inductive ikind := IU8 | IU16 | IU32 | IU64 | IS8 | IS16 | IS32 | IS64.

Inductive tv :=
| TNil
| TBool (b : bool)
| TInt (k : ikind) (z : Z)
| TF32 (bits : N)
| TF64 (bits : N)
| TStr (s : list N)                      (* std::string, UTF-8 bytes *)
| TBytes (s : list N)                    (* byte container: std::vector<char / signed char / unsigned char> *)
| TArr (l : list tv)                     (* any other sequence container *)
| TObj (l : list (tv * tv)).             (* class (string keys) or std::map (string / integer keys) *)

Definition ikind_range (k : ikind) (z : Z) : bool :=
  match k with
  | IU8 => (0 <=? z) && (z <? 256)
  | IU16 => (0 <=? z) && (z <? 65536)
  | IU32 => (0 <=? z) && (z <? 4294967296)
  | IU64 => (0 <=? z) && (z <? 18446744073709551616)
  | IS8 => (-128 <=? z) && (z <? 128)
  | IS16 => (-32768 <=? z) && (z <? 32768)
  | IS32 => (-2147483648 <=? z) && (z <? 2147483648)
  | IS64 => (-9223372036854775808 <=? z) && (z <? 9223372036854775808)
  end%Z.

(* WriteValue overload selected by the static type *)
Definition wr_int (k : ikind) (z : Z) : list N :=
  match k with
  | IU8 => wr_u8 (Z.to_N z) | IU16 => wr_u16 (Z.to_N z) | IU32 => wr_u32 (Z.to_N z) | IU64 => wr_u64 (Z.to_N z)
  | IS8 => wr_i8 z | IS16 => wr_i16 z | IS32 => wr_i32 z | IS64 => wr_i64 z
  end.

Definition opt_app (a b : option (list N)) : option (list N) :=
  match a, b with Some x, Some y => Some (x ++ y) | _, _ => None end.

(* None = SerializationException (OutOfRange: oversize count) *)
Fixpoint save (v : tv) : option (list N) :=
  match v with
  | TNil => Some wr_nil
  | TBool b => Some (wr_bool b)
  | TInt k z => Some (wr_int k z)
  | TF32 bits => Some (wr_f32 bits)
  | TF64 bits => Some (wr_f64 bits)
  | TStr s => wr_str s
  | TBytes s => opt_app (wr_bin_header (N.of_nat (length s))) (Some s)     (* OpenBinaryScope + WriteBinary per byte *)
  | TArr l =>
    let fix save_list (l : list tv) : option (list N) :=
      match l with [] => Some [] | x :: t => opt_app (save x) (save_list t) end in
    opt_app (wr_array_header (N.of_nat (length l))) (save_list l)          (* OpenArrayScope(size) + elements *)
  | TObj kvs =>
    let fix save_pairs (l : list (tv * tv)) : option (list N) :=
      match l with [] => Some [] | (k, x) :: t => opt_app (opt_app (save k) (save x)) (save_pairs t) end in
    opt_app (wr_map_header (N.of_nat (length kvs))) (save_pairs kvs)       (* OpenObjectScope(count) + key, value *)
  end.

(* the data model a value tree denotes (what an independent decoder must recover) *)
Fixpoint abs (v : tv) : mpv :=
  match v with
  | TNil => MNil
  | TBool b => MBool b
  | TInt _ z => MInt z
  | TF32 bits => MF32 bits
  | TF64 bits => MF64 bits
  | TStr s => MStr s
  | TBytes s => MBin s
  | TArr l => MArr (map abs l)
  | TObj kvs => MMap (map (fun kv => (abs (fst kv), abs (snd kv))) kvs)
  end.

(* values the C++ types can hold *)
Fixpoint wf_tv (v : tv) : Prop :=
  match v with
  | TInt k z => ikind_range k z = true
  | TF32 bits => bits < 2 ^ 32
  | TF64 bits => bits < 2 ^ 64
  | TArr l => (fix all (l : list tv) : Prop := match l with [] => True | x :: t => wf_tv x /\ all t end) l
  | TObj kvs => (fix all (l : list (tv * tv)) : Prop :=
                   match l with [] => True | (k, x) :: t => wf_tv k /\ wf_tv x /\ all t end) kvs
  | _ => True
  end.
