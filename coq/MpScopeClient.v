(* MpScopeClient.v — the archive scope classes as a CLIENT of the IMsgPackReader interface (the adaptive
   clients of MpStreamModel.v): the reader operations FindValueByKey / ReadKey / ResetKey / the typed reads /
   OpenObjectScope / the destructors of MpScopeModel.v issue, one after the other, each decision taken from
   the answers seen so far.  Fragment of the history language (frag_reqs): everything, the guarded request only
   around an element load — RGet (any key kind, any target), RObj, RArr with AGet / AObj / AArr / ABin / AEnd /
   ATry (AGet ..), RBin, RVisit, REach with VSkip / VGet / VObj / VArr / VBin / VBinArr (nested to any depth) —
   repeated, absent, out-of-order keys, arrays and byte arrays left partly read included; AThrow / VThrow (the
   caller's own code throws) are admitted, the client stops there; ATry around a request that opens a child scope is
   not (the catch would need the unwinding of the child scopes).
   Proved here: on the string reader the client returns what run_obj_root / run_arr_root returns (whenever that is
   Done .. false); when the model's run ends in an exception (no scope having failed to close) the client's run ends
   in the reader's exception of that class, or stops where the scopes throw themselves; all seeks stay inside the data. *)
From BS Require Import Base MpSpec MpModel MpLemmas MpReader MpTyped MpScopeSpec MpScopeModel MpScopeLemmas MpScopeTyped MpScopeProofs MpScopeRefine.
From BS Require StreamIStream StreamSpec StreamModel StreamBsrProofs MpStreamModel MpStreamProofs.
From Coq Require Import ZifyBool ZifyN ZifyNat.
Local Open Scope N_scope.

Module SM := MpStreamModel.
Module SP := MpStreamProofs.

(* what the client hands back: the tokens, GetPosition() at the end, IsCloseScopeFailed(); None: it met an
   answer the scope classes turn into an exception of their own (unsupported key type, ...) *)
Definition cresult : Type := option (list tok * N * bool).
Notation cl := (SM.client cresult).

(* CMsgPackReadObjectScope's members: mStartPos (a stream position), mSize, mIndex, mCurrentKey *)
Record cscope := mkC { c_start : N; c_size : N; c_index : N; c_key : option skey }.
Definition c_set_key (cst : cscope) (k : option skey) : cscope := mkC (c_start cst) (c_size cst) (c_index cst) k.
Definition c_set_index (cst : cscope) (i : N) : cscope := mkC (c_start cst) (c_size cst) i (c_key cst).
Definition c_on_finish (cst : cscope) : cscope := mkC (c_start cst) (c_size cst) (c_index cst + 1) None.

Definition fail : cl := SM.CRet None.

(* one call: the value and GetPosition() after it / not loaded and GetPosition(); an exception ends the run *)
Definition call (op : SM.rop) (k : SM.rval -> N -> cl) (nk : N -> cl) : cl :=
  SM.CCall op (fun a => match a with SM.AOkAt v p => k v p | SM.ANotAt p => nk p | _ => fail end).

(* ReadKey: ReadValueType, then the typed read of that kind *)
Definition c_read_key (k : skey -> N -> cl) : cl :=
  call SM.RdType (fun v _ =>
    match v with
    | SM.VType TStr => call SM.RdStr (fun v p => match v with SM.VBytes s => k (SKStr s) p | _ => fail end) (fun _ => fail)
    | SM.VType TUInt => call (SM.RdInt u64) (fun v p => match v with SM.VInt z => k (SKU (Z.to_N z)) p | _ => fail end) (fun _ => fail)
    | SM.VType TSInt => call (SM.RdInt s64) (fun v p => match v with SM.VInt z => k (SKS z) p | _ => fail end) (fun _ => fail)
    | SM.VType TDouble => call SM.RdF64 (fun v p => match v with SM.VNum n => k (SKF64 n) p | _ => fail end) (fun _ => fail)
    | SM.VType TFloat => call SM.RdF32 (fun v p => match v with SM.VNum n => k (SKF32 n) p | _ => fail end) (fun _ => fail)
    | SM.VType TTimestamp => call SM.RdTs (fun v p => match v with SM.VTs a b => k (SKTs a b) p | _ => fail end) (fun _ => fail)
    | _ => fail
    end) (fun _ => fail).

(* SkipValue *)
Definition c_skip (k : N -> cl) : cl := call SM.RdSkip (fun _ p => k p) (fun _ => fail).

(* ResetKey *)
Definition c_reset_key (cst : cscope) (p : N) (k : cscope -> N -> cl) : cl :=
  match c_key cst with
  | None => k cst p
  | Some _ => c_skip (fun p' => k (c_on_finish cst) p')
  end.

(* if (mIndex == mSize) SetPosition(mStartPos) *)
Definition c_seek_if (b : bool) (target : N) (p : N) (k : N -> cl) : cl :=
  if b then SM.CCall (SM.RdSetPos target) (fun a => match a with SM.AOkAt _ p' => k p' | _ => fail end)
  else k p.

(* the loop of FindValueByKey *)
Fixpoint c_find_loop (fuel : nat) (q : qkey) (c : N) (cst : cscope) (p : N) (kf : bool -> cscope -> N -> cl) : cl :=
  match fuel with
  | O => fail
  | S f =>
    if c <? c_size cst then
      let wrap := c_index cst =? c_size cst in
      let cst1 := if wrap then c_set_index cst 0 else cst in
      c_seek_if wrap (c_start cst) p (fun _ =>
        c_read_key (fun k p2 =>
          let cst2 := c_set_key cst1 (Some k) in
          if skey_eq k q then kf true cst2 p2
          else c_skip (fun p3 => c_find_loop f q (c + 1) (c_set_index cst2 (c_index cst2 + 1)) p3 kf)))
    else kf false (c_set_key cst None) p
  end.

Definition c_find (n : nat) (q : qkey) (cst : cscope) (p : N) (kf : bool -> cscope -> N -> cl) : cl :=
  match c_key cst with
  | Some k =>
    if skey_eq k q then kf true cst p
    else c_reset_key cst p (fun cst1 p1 => c_find_loop n q 0 cst1 p1 kf)
  | None => c_find_loop n q 0 cst p kf
  end.

(* mMsgPackReader->ReadValue(T&) *)
Definition op_of_target (t : target) : SM.rop :=
  match t with
  | TgInt it => SM.RdInt it | TgNil => SM.RdNil | TgF32 => SM.RdF32 | TgF64 => SM.RdF64 | TgStr => SM.RdStr | TgTs => SM.RdTs
  end.
Definition value_of (t : target) (v : SM.rval) : option value :=
  match t, v with
  | TgInt _, SM.VInt z => Some (VInt z)
  | TgNil, SM.VUnit => Some VNil
  | TgF32, SM.VNum n => Some (VF32 n)
  | TgF64, SM.VNum n => Some (VF64 n)
  | TgStr, SM.VBytes s => Some (VStr s)
  | TgTs, SM.VTs a b => Some (VTs a b)
  | _, _ => None
  end.
Definition c_read_target (t : target) (k : tok -> N -> cl) : cl :=
  call (op_of_target t) (fun v p => match value_of t v with Some x => k (KVal x) p | None => fail end) (fun p => k KFalse p).

(* ~CMsgPackReadObjectScope: ResetKey, then two SkipValue per remaining member *)
Fixpoint c_close_loop (fuel : nat) (c size : N) (p : N) (k : N -> cl) : cl :=
  match fuel with
  | O => fail
  | S f => if c <? size then c_skip (fun _ => c_skip (fun p2 => c_close_loop f (c + 1) size p2 k)) else k p
  end.
Definition c_close_obj (n : nat) (cst : cscope) (p : N) (k : N -> cl) : cl :=
  c_reset_key cst p (fun cst1 p1 => c_close_loop n (c_index cst1) (c_size cst1) p1 k).

(* ~CMsgPackReadArrayScope: one SkipValue per remaining element *)
Fixpoint c_arr_close_loop (fuel : nat) (idx size : N) (p : N) (k : N -> cl) : cl :=
  match fuel with
  | O => fail
  | S f => if idx <? size then c_skip (fun p' => c_arr_close_loop f (idx + 1) size p' k) else k p
  end.
Definition c_close_arr (n : nat) (ast : ascope) (p : N) (k : N -> cl) : cl :=
  c_arr_close_loop n (a_index ast) (a_size ast) p k.

(* VisitKeys after ResetKey and SetPosition(mStartPos): for (mIndex = 0; mIndex < mSize;) { ReadKey(fn); ResetKey(); } *)
Fixpoint c_visit_loop (fuel : nat) (cst : cscope) (p : N) (acc : list key) (k : list tok -> cscope -> N -> cl) : cl :=
  match fuel with
  | O => fail
  | S f =>
    if c_index cst <? c_size cst then
      c_read_key (fun key p1 =>
        c_reset_key (c_set_key cst (Some key)) p1 (fun cst2 p2 => c_visit_loop f cst2 p2 (acc ++ [key_of_skey key]) k))
    else k [KKeys acc] cst p
  end.

(* SerializeValue(key, value) / OpenObjectScope(key) / OpenArrayScope(key); cbody drives the child scope *)
Definition c_do_get (n : nat) (q : qkey) (t : target) (cst : cscope) (p : N) (k : list tok -> cscope -> N -> cl) : cl :=
  c_find n q cst p (fun b cst1 p1 =>
    if b then c_read_target t (fun tk p2 => k [tk] (c_on_finish cst1) p2)
    else k [KFalse] cst1 p1).

Definition c_obj_child (n : nat) (cbody : cscope -> N -> (list tok -> cscope -> N -> cl) -> cl) (kk : list tok -> N -> cl) : cl :=
  call SM.RdMap
    (fun v p2 => match v with
                 | SM.VNum sz => cbody (mkC p2 sz 0 None) p2 (fun toks ccst p3 => c_close_obj n ccst p3 (fun p4 => kk (KOpen :: toks ++ [KClose]) p4))
                 | _ => fail
                 end)
    (fun p2 => kk [KNone] p2).

Definition c_arr_child (n : nat) (cbody : ascope -> N -> (list tok -> ascope -> N -> cl) -> cl) (kk : list tok -> N -> cl) : cl :=
  call SM.RdArr
    (fun v p2 => match v with
                 | SM.VNum sz => cbody (mkA sz 0) p2 (fun toks cast p3 => c_close_arr n cast p3 (fun p4 => kk (KOpen :: toks ++ [KClose]) p4))
                 | _ => fail
                 end)
    (fun p2 => kk [KNone] p2).

Definition c_do_obj (n : nat) (cbody : cscope -> N -> (list tok -> cscope -> N -> cl) -> cl) (q : qkey) (cst : cscope) (p : N)
    (k : list tok -> cscope -> N -> cl) : cl :=
  c_find n q cst p (fun b cst1 p1 =>
    if b then c_obj_child n cbody (fun toks p4 => k toks (c_on_finish cst1) p4) else k [KNone] cst1 p1).

Definition c_do_arr (n : nat) (cbody : ascope -> N -> (list tok -> ascope -> N -> cl) -> cl) (q : qkey) (cst : cscope) (p : N)
    (k : list tok -> cscope -> N -> cl) : cl :=
  c_find n q cst p (fun b cst1 p1 =>
    if b then c_arr_child n cbody (fun toks p4 => k toks (c_on_finish cst1) p4) else k [KNone] cst1 p1).

(* CMsgPackReadBinaryScope: cnt times SerializeValue(char&) = CheckEnd (no reader call), ReadBinary *)
Fixpoint c_bin_reads (cnt : nat) (ast : ascope) (p : N) (k : list tok -> ascope -> N -> cl) : cl :=
  match cnt with
  | O => k [] ast p
  | S m =>
    if a_index ast =? a_size ast then fail
    else call SM.RdByte
           (fun v p' => match v with
                        | SM.VNum b => c_bin_reads m (mkA (a_size ast) (a_index ast + 1)) p' (fun t a p'' => k (KByte b :: t) a p'')
                        | _ => fail
                        end)
           (fun _ => fail)
  end.

(* ~CMsgPackReadBinaryScope: for (; mIndex < mSize; ++mIndex) ReadBinary() *)
Fixpoint c_bin_close_loop (fuel : nat) (idx size : N) (p : N) (k : N -> cl) : cl :=
  match fuel with
  | O => fail
  | S f => if idx <? size then call SM.RdByte (fun _ p' => c_bin_close_loop f (idx + 1) size p' k) (fun _ => fail) else k p
  end.
Definition c_close_bin (n : nat) (ast : ascope) (p : N) (k : N -> cl) : cl :=
  c_bin_close_loop n (a_index ast) (a_size ast) p k.

(* OpenBinaryScope: ReadValueType; a binary: its size, cnt byte loads, the destructor; anything else: declined *)
Definition c_bin_open (n cnt : nat) (kopen : list tok -> N -> cl) (knot : N -> cl) (kother : cl) : cl :=
  call SM.RdType
    (fun v _ => match v with
                | SM.VType TBin =>
                  call SM.RdBin
                    (fun v2 p2 => match v2 with
                                  | SM.VNum sz => c_bin_reads cnt (mkA sz 0) p2 (fun toks bast p3 =>
                                                    c_close_bin n bast p3 (fun p4 => kopen (KOpen :: toks ++ [KClose]) p4))
                                  | _ => fail
                                  end)
                    (fun p2 => knot p2)
                | SM.VType _ => kother
                | _ => fail
                end)
    (fun _ => fail).

(* OpenBinaryScope(key) and the byte loads; kdecl: the optional came back empty (the caller may fall back to the array scope) *)
Definition c_do_bin_gen (n cnt : nat) (q : qkey) (cst : cscope) (p : N)
    (k kdecl : list tok -> cscope -> N -> cl) : cl :=
  c_find n q cst p (fun b cst1 p1 =>
    if b then c_bin_open n cnt (fun toks p4 => k toks (c_on_finish cst1) p4) (fun p2 => kdecl [KNone] (c_on_finish cst1) p2) (kdecl [KNone] cst1 p1)
    else kdecl [KNone] cst1 p1).
Definition c_do_bin (n cnt : nat) (q : qkey) (cst : cscope) (p : N) (k : list tok -> cscope -> N -> cl) : cl :=
  c_do_bin_gen n cnt q cst p k k.

(* the requests of the fragment; n bounds the loops (the member counts come from the document) *)
Fixpoint c_req (n : nat) (r : req) (cst : cscope) (p : N) (k : list tok -> cscope -> N -> cl) {struct r} : cl :=
  match r with
  | RGet q t => c_do_get n q t cst p k
  | RObj q body => c_do_obj n (c_reqs n body) q cst p k
  | RArr q body => c_do_arr n (c_areqs n body) q cst p k
  | RBin q cnt => c_do_bin n cnt q cst p k
  | RVisit =>
    c_reset_key cst p (fun cst1 p1 =>
      c_seek_if true (c_start cst1) p1 (fun p' => c_visit_loop n (c_set_index cst1 0) p' [] k))
  | REach acts =>
    c_reset_key cst p (fun cst1 p1 =>
      c_seek_if true (c_start cst1) p1 (fun p' => c_vacts n acts (c_set_index cst1 0) p' k))
  end
with c_reqs (n : nat) (l : reqs) (cst : cscope) (p : N) (k : list tok -> cscope -> N -> cl) {struct l} : cl :=
  match l with
  | RNil => k [] cst p
  | RCons r l' => c_req n r cst p (fun t1 cst1 p1 => c_reqs n l' cst1 p1 (fun t2 cst2 p2 => k (t1 ++ t2) cst2 p2))
  end
(* the array scope: CheckEnd (no reader call), then the read; no "No more items" in an error-free history *)
with c_areq (n : nat) (a : areq) (ast : ascope) (p : N) (k : list tok -> ascope -> N -> cl) {struct a} : cl :=
  let next := mkA (a_size ast) (a_index ast + 1) in
  match a with
  | AEnd => k [KIsEnd (a_index ast =? a_size ast)] ast p
  | AGet t =>
    if a_index ast =? a_size ast then fail
    else c_read_target t (fun tk p2 => k [tk] next p2)
  | AObj body =>
    if a_index ast =? a_size ast then fail
    else c_obj_child n (c_reqs n body) (fun toks p4 => k toks next p4)
  | AArr body =>
    if a_index ast =? a_size ast then fail
    else c_arr_child n (c_areqs n body) (fun toks p4 => k toks next p4)
  | ABin cnt =>
    if a_index ast =? a_size ast then fail
    else c_bin_open n cnt (fun toks p4 => k toks next p4) (fun p2 => k [KNone] next p2) (k [KNone] ast p)
  | ATry (AGet t) =>      (* try { load the next element } catch (OutOfRange): CheckEnd failed on THIS array: caught, nothing moved *)
    if a_index ast =? a_size ast then k [KCaught] ast p
    else c_read_target t (fun tk p2 => k [tk] next p2)
  | _ => fail
  end
with c_areqs (n : nat) (l : areqs) (ast : ascope) (p : N) (k : list tok -> ascope -> N -> cl) {struct l} : cl :=
  match l with
  | ANil => k [] ast p
  | ACons a l' => c_areq n a ast p (fun t1 ast1 p1 => c_areqs n l' ast1 p1 (fun t2 ast2 p2 => k (t1 ++ t2) ast2 p2))
  end
(* what a VisitKeys callback does with (a copy of) the visited key q *)
with c_vact (n : nat) (a : vact) (q : qkey) (cst : cscope) (p : N) (k : list tok -> cscope -> N -> cl) {struct a} : cl :=
  match a with
  | VSkip => k [] cst p
  | VGet t => c_do_get n q t cst p k
  | VObj body => c_do_obj n (c_reqs n body) q cst p k
  | VArr body => c_do_arr n (c_areqs n body) q cst p k
  | VBin cnt => c_do_bin n cnt q cst p k
  | VBinArr cnt body =>
    c_do_bin_gen n cnt q cst p k (fun t1 cst1 p1 => c_do_arr n (c_areqs n body) q cst1 p1 (fun t2 cst2 p2 => k (t1 ++ t2) cst2 p2))
  | _ => fail
  end
(* for (mIndex = 0; mIndex < mSize;) { ReadKey(fn); ResetKey(); } with fn = the i-th action *)
with c_vacts (n : nat) (acts : vacts) (cst : cscope) (p : N) (k : list tok -> cscope -> N -> cl) {struct acts} : cl :=
  match acts with
  | VANil => c_visit_loop n cst p [] (fun _ cst' p' => k [] cst' p')
  | VACons a acts' =>
    if c_index cst <? c_size cst then
      c_read_key (fun key p1 =>
        c_vact n a (qkey_of_skey key) (c_set_key cst (Some key)) p1 (fun t1 cst2 p2 =>
          c_reset_key cst2 p2 (fun cst3 p3 =>
            c_vacts n acts' cst3 p3 (fun t2 cst4 p4 => k (t1 ++ t2) cst4 p4))))
    else k [] cst p
  end.

(* MsgPackReadRootScope::OpenObjectScope, the history, the scope's destruction *)
Definition scope_client (n : nat) (h : reqs) : cl :=
  c_obj_child n (c_reqs n h) (fun toks p4 => SM.CRet (Some (toks, p4, false))).

(* MsgPackReadRootScope::OpenArrayScope, the history, the scope's destruction *)
Definition scope_client_arr (n : nat) (h : areqs) : cl :=
  c_arr_child n (c_areqs n h) (fun toks p4 => SM.CRet (Some (toks, p4, false))).

(* the fragment (AThrow / VThrow = the caller's own code throws: admitted, the client stops there with None; an
   error-free history never executes one) *)
Fixpoint frag_req (r : req) : bool :=
  match r with
  | RGet _ _ => true | RObj _ body => frag_reqs body | RArr _ body => frag_areqs body | RBin _ _ => true | RVisit => true
  | REach acts => frag_vacts acts
  end
with frag_reqs (l : reqs) : bool :=
  match l with RNil => true | RCons r l' => frag_req r && frag_reqs l' end
with frag_areq (a : areq) : bool :=
  match a with AGet _ => true | AObj body => frag_reqs body | AArr body => frag_areqs body | ABin _ => true | AEnd => true | AThrow _ => true
  | ATry (AGet _) => true | ATry _ => false end
with frag_areqs (l : areqs) : bool :=
  match l with ANil => true | ACons a l' => frag_areq a && frag_areqs l' end
with frag_vact (a : vact) : bool :=
  match a with
  | VSkip => true | VThrow _ => true | VGet _ => true | VObj body => frag_reqs body | VArr body => frag_areqs body | VBin _ => true
  | VBinArr _ body => frag_areqs body
  end
with frag_vacts (l : vacts) : bool :=
  match l with VANil => true | VACons a l' => frag_vact a && frag_vacts l' end.

(* what a run of the client against the string reader ends in: the client's result, or the reader's exception of
   class e (the run ends there; what the unwinding destructors do is not part of it), or the model's fuel *)
Inductive obs := ORet (a : cresult) | OErr (e : err) | OFuel.

Section ClientProofs.
  Variable narrow : N -> option N.
  Variable widen : N -> N.
  Variable o : opts.
  Variable data : list N.

  Definition pos (d : list N) : N := N.of_nat (length data - length d).
  Definition cs_of (st : oscope) : cscope := mkC (pos (o_start st)) (o_size st) (o_index st) (o_key st).
  Notation Suf := (SP.Suffix data).
  Fixpoint SND (c : cl) (d : list N) : obs :=
    match c with
    | SM.CRet a => ORet a
    | SM.CCall op k =>
      match SM.str_op narrow widen data o op d with
      | ROk v r => SND (k (SM.AOkAt v (N.of_nat (length data - length r)))) r
      | RNot r => SND (k (SM.ANotAt (N.of_nat (length data - length r)))) r
      | RErr e => OErr e
      | RFuel => OFuel
      end
    end.
  Definition OKS (c : cl) (d : list N) : Prop := SM.client_seeks_ok narrow widen data o c d = true.
  Definition Lpos (p : N) : Prop := p <= N.of_nat (length data).

  Lemma pos_le d : Lpos (pos d).
  Proof. unfold Lpos, pos. lia. Qed.

  Lemma suf_len d : Suf d -> (length d <= length data)%nat.
  Proof. intros [pre H]. rewrite H, app_length. lia. Qed.

  Lemma suf_skipn d : Suf d -> skipn (N.to_nat (pos d)) data = d.
  Proof.
    intros [pre H]. unfold pos. rewrite Nat2N.id. rewrite H. rewrite app_length.
    replace (length pre + length d - length d)%nat with (length pre + 0)%nat by lia.
    rewrite skipn_app. rewrite Nat.add_0_r, skipn_all, Nat.sub_diag. reflexivity.
  Qed.

  (* ---------- SND is what str_client does ---------- *)
  Lemma SND_spec (c : cl) : forall t d,
    match SND c d with
    | ORet a => snd (SM.str_client narrow widen data o c t d) = Some a
    | OErr e => exists tr op, SM.str_client narrow widen data o c t d = (t ++ tr ++ [(op, SM.AErrOf e)], None)
    | OFuel => snd (SM.str_client narrow widen data o c t d) = None
    end.
  Proof.
    induction c as [a|op k IH]; intros t d; [reflexivity|].
    cbn [SND SM.str_client]. destruct (SM.str_op narrow widen data o op d) as [v r|r|e|].
    - specialize (IH (SM.AOkAt v (N.of_nat (length data - length r))) (t ++ [(op, SM.AOkAt v (N.of_nat (length data - length r)))]) r).
      cbv zeta. destruct (SND _ r); try exact IH. destruct IH as [tr [op' E]]. exists ((op, SM.AOkAt v (N.of_nat (length data - length r))) :: tr), op'.
      rewrite E, <- app_assoc. reflexivity.
    - specialize (IH (SM.ANotAt (N.of_nat (length data - length r))) (t ++ [(op, SM.ANotAt (N.of_nat (length data - length r)))]) r).
      cbv zeta. destruct (SND _ r); try exact IH. destruct IH as [tr [op' E]]. exists ((op, SM.ANotAt (N.of_nat (length data - length r))) :: tr), op'.
      rewrite E, <- app_assoc. reflexivity.
    - exists [], op. reflexivity.
    - reflexivity.
  Qed.

  Lemma SND_ccall op k d :
    SND (SM.CCall op k) d =
    match SM.str_op narrow widen data o op d with
    | ROk v r => SND (k (SM.AOkAt v (pos r))) r
    | RNot r => SND (k (SM.ANotAt (pos r))) r
    | RErr e => OErr e
    | RFuel => OFuel
    end.
  Proof. reflexivity. Qed.

  Lemma SND_call op k nk d :
    SND (call op k nk) d =
    match SM.str_op narrow widen data o op d with
    | ROk v r => SND (k v (pos r)) r
    | RNot r => SND (nk (pos r)) r
    | RErr e => OErr e
    | RFuel => OFuel
    end.
  Proof. unfold call. rewrite SND_ccall. destruct (SM.str_op narrow widen data o op d); reflexivity. Qed.

  Section WithReader.
    (* the hypotheses of the mpstream family's reader theorem; used for one fact: the string reader, started at a
       suffix of the data, stops at a suffix of the data *)
    Variable K : nat.
    Hypothesis HK : (8 <= K)%nat.
    Hypothesis Hfit : StreamBsrProofs.fits_streamoff data.
    Hypothesis Hb : SP.bytes_ok data.

    Lemma str_op_suffix op d : Suf d -> SM.rop_ok data op = true ->
      match SM.str_op narrow widen data o op d with ROk _ r => Suf r | RNot r => Suf r | _ => True end.
    Proof.
      intros HS Hok.
      pose proof (SP.wp_op K data HK Hfit Hb narrow widen (S (length d)) o op d HS (Nat.lt_succ_diag_r _) Hok) as W.
      destruct (SP.on_memr K data HK Hfit _ _ _ W) as [a [m' [_ HP]]].
      unfold SP.post in HP. destruct (SM.str_op narrow widen data o op d); tauto.
    Qed.

    (* ---------- the helpers, success direction ---------- *)
    Lemma skip_sim d r k : Suf d -> skip_at d = AOk r -> SND (c_skip k) d = SND (k (pos r)) r /\ Suf r.
    Proof.
      intros HS H. unfold c_skip. rewrite SND_call.
      pose proof (str_op_suffix SM.RdSkip d HS eq_refl) as HSf. cbn [SM.str_op] in *.
      pose proof (skip_at_value d) as F. rewrite H in F. cbn [forget] in F. rewrite <- F in *. split; [reflexivity | exact HSf].
    Qed.

    Lemma read_key_sim d key r k : Suf d -> read_key narrow widen o d = KOk key r ->
      SND (c_read_key k) d = SND (k key (pos r)) r /\ Suf r.
    Proof.
      intros HS. unfold read_key, c_read_key. rewrite SND_call. cbn [SM.str_op].
      destruct (read_value_type d) as [ty|e] eqn:HT; [|discriminate].
      destruct ty; try discriminate; intros H; rewrite SND_call;
        match goal with |- context [SM.str_op _ _ _ _ ?op d] => pose proof (str_op_suffix op d HS eq_refl) as HSf end;
        cbn [SM.str_op] in *;
        match goal with H : key_read _ ?rd = _ |- _ => destruct rd as [v0 r0|r0|e0|] end;
        cbn [key_read SM.rres_map] in *; try discriminate; injection H as <- <-; (split; [reflexivity | exact HSf]).
    Qed.

    Lemma reset_key_sim st d st' d' k : Suf d -> reset_key st d = Go st' d' ->
      SND (c_reset_key (cs_of st) (pos d) k) d = SND (k (cs_of st') (pos d')) d' /\ Suf d' /\ o_start st' = o_start st.
    Proof.
      intros HS. unfold reset_key, c_reset_key. cbn [cs_of c_key]. destruct (o_key st).
      - destruct (skip_at d) as [r|e p|] eqn:Hsk; try discriminate. intros H. injection H as <- <-.
        destruct (skip_sim d r (fun p' => k (c_on_finish (cs_of st)) p') HS Hsk) as [E S']. rewrite E. auto.
      - intros H. injection H as <- <-. auto.
    Qed.

    Lemma seek_sim (b : bool) s d k : Suf s -> Suf d ->
      SND (c_seek_if b (pos s) (pos d) k) d = SND (k (pos (if b then s else d))) (if b then s else d).
    Proof.
      intros Hs Hd. destruct b; [|reflexivity]. unfold c_seek_if. rewrite SND_ccall. cbn [SM.str_op].
      pose proof (pos_le s) as L. unfold Lpos in L. apply N.leb_le in L. rewrite L. rewrite (suf_skipn s Hs). reflexivity.
    Qed.

    Lemma find_loop_sim : forall f n q c st d b st' d' kf, (f <= n)%nat -> Suf (o_start st) -> Suf d ->
      find_loop narrow widen o f q c st d = Go (b, st') d' ->
      SND (c_find_loop n q c (cs_of st) (pos d) kf) d = SND (kf b (cs_of st') (pos d')) d' /\ Suf d' /\ o_start st' = o_start st.
    Proof.
      induction f as [|f IH]; intros n q c st d b st' d' kf Hn Hs Hd H; [discriminate|].
      destruct n as [|n]; [lia|]. cbn [find_loop c_find_loop] in *. cbn [cs_of c_size c_index c_start].
      destruct (c <? o_size st); [|injection H as <- <- <-; auto].
      rewrite (seek_sim _ (o_start st) d _ Hs Hd).
      set (w := o_index st =? o_size st) in *.
      assert (Hd1 : Suf (if w then o_start st else d)) by (destruct w; assumption).
      set (d1 := if w then o_start st else d) in *.
      assert (E1 : (if w then c_set_index (cs_of st) 0 else cs_of st) = cs_of (if w then set_index st 0 else st)) by (destruct w; reflexivity).
      rewrite E1.
      assert (Hs1 : o_start (if w then set_index st 0 else st) = o_start st) by (destruct w; reflexivity).
      set (st1 := if w then set_index st 0 else st) in *.
      destruct (read_key narrow widen o d1) as [k r2|e [|]| |] eqn:HK1; try discriminate.
      destruct (read_key_sim d1 k r2
        (fun k0 p2 => if skey_eq k0 q then kf true (c_set_key (cs_of st1) (Some k0)) p2
                      else c_skip (fun p3 => c_find_loop n q (c + 1)
                             (c_set_index (c_set_key (cs_of st1) (Some k0)) (c_index (c_set_key (cs_of st1) (Some k0)) + 1)) p3 kf))
        Hd1 HK1) as [E2 Hr2].
      rewrite E2. destruct (skey_eq k q).
      - injection H as <- <- <-. split; [reflexivity|]. split; [exact Hr2 | exact Hs1].
      - destruct (skip_at r2) as [r3|e p|] eqn:Hsk; try discriminate.
        destruct (skip_sim r2 r3 (fun p3 => c_find_loop n q (c + 1)
                             (c_set_index (c_set_key (cs_of st1) (Some k)) (c_index (c_set_key (cs_of st1) (Some k)) + 1)) p3 kf) Hr2 Hsk) as [E3 Hr3].
        rewrite E3.
        destruct (IH n q (c + 1) (set_index (set_key st1 (Some k)) (o_index (set_key st1 (Some k)) + 1)) r3 b st' d' kf) as [E4 [S4 O4]];
          [lia | cbn [set_index set_key o_start]; rewrite Hs1; exact Hs | exact Hr3 | exact H |].
        split; [exact E4|]. split; [exact S4|]. rewrite O4. cbn [set_index set_key o_start]. exact Hs1.
    Qed.

    Lemma find_sim n q st d b st' d' kf : (length data < n)%nat -> Suf (o_start st) -> Suf d ->
      find_value_by_key narrow widen o q st d = Go (b, st') d' ->
      SND (c_find n q (cs_of st) (pos d) kf) d = SND (kf b (cs_of st') (pos d')) d' /\ Suf d' /\ o_start st' = o_start st.
    Proof.
      intros Hn Hs Hd. unfold find_value_by_key, c_find. cbn [cs_of c_key].
      destruct (o_key st) as [k|] eqn:Hk.
      - destruct (skey_eq k q).
        + intros H. injection H as <- <- <-. auto.
        + destruct (reset_key st d) as [st1 d1|e s p| |] eqn:HR; try discriminate. intros H.
          destruct (reset_key_sim st d st1 d1 (fun cst1 p1 => c_find_loop n q 0 cst1 p1 kf) Hd HR) as [E1 [S1 O1]].
          rewrite E1.
          destruct (find_loop_sim (S (length (o_start st1))) n q 0 st1 d1 b st' d' kf) as [E2 [S2 O2]];
            [rewrite O1; pose proof (suf_len _ Hs); lia | rewrite O1; exact Hs | exact S1 | exact H |].
          split; [exact E2|]. split; [exact S2|]. congruence.
      - intros H. apply (find_loop_sim (S (length (o_start st))) n q 0 st d b st' d' kf); [pose proof (suf_len _ Hs); lia | exact Hs | exact Hd | exact H].
    Qed.

    Lemma read_target_sim t d k : Suf d ->
      match read_target narrow widen o t d with
      | ROk v r => SND (c_read_target t k) d = SND (k (KVal v) (pos r)) r /\ Suf r
      | RNot r => SND (c_read_target t k) d = SND (k KFalse (pos r)) r /\ Suf r
      | _ => True
      end.
    Proof.
      intros HS. unfold c_read_target. rewrite SND_call.
      pose proof (str_op_suffix (op_of_target t) d HS) as HSf.
      destruct t; cbn [op_of_target SM.str_op read_target SM.rop_ok] in *; specialize (HSf eq_refl).
      - destruct (read_int o t d); cbn [map_rres SM.rres_map value_of] in *; auto.
      - destruct (read_nil o d); cbn [map_rres SM.rres_map value_of] in *; auto.
      - destruct (read_f32 narrow o d); cbn [map_rres SM.rres_map value_of] in *; auto.
      - destruct (read_f64 widen o d); cbn [map_rres SM.rres_map value_of] in *; auto.
      - destruct (read_str o d); cbn [map_rres SM.rres_map value_of] in *; auto.
      - destruct (read_ts o d) as [[a b] r0|r0|e|]; cbn [map_rres SM.rres_map value_of fst snd] in *; auto.
    Qed.

    Lemma close_loop_sim : forall f n c size d r k, (f <= n)%nat -> Suf d ->
      close_loop f c size d = CDone r false ->
      SND (c_close_loop n c size (pos d) k) d = SND (k (pos r)) r /\ Suf r.
    Proof.
      induction f as [|f IH]; intros n c size d r k Hn Hd H; [discriminate|].
      destruct n as [|n]; [lia|]. cbn [close_loop c_close_loop] in *.
      destruct (c <? size); [|injection H as <-; auto].
      destruct (skip_at d) as [r1|e p|] eqn:H1; try discriminate.
      destruct (skip_at r1) as [r2|e p|] eqn:H2; try discriminate.
      destruct (skip_sim d r1 (fun _ => c_skip (fun p2 => c_close_loop n (c + 1) size p2 k)) Hd H1) as [E1 S1]. rewrite E1.
      destruct (skip_sim r1 r2 (fun p2 => c_close_loop n (c + 1) size p2 k) S1 H2) as [E2 S2]. rewrite E2.
      apply IH; [lia | exact S2 | exact H].
    Qed.

    Lemma close_obj_sim n st d r k : (length data < n)%nat -> Suf d ->
      close_obj st d = CDone r false ->
      SND (c_close_obj n (cs_of st) (pos d) k) d = SND (k (pos r)) r /\ Suf r.
    Proof.
      intros Hn Hd. unfold close_obj, c_close_obj.
      destruct (reset_key st d) as [st1 d1|e s [p|]| |] eqn:HR; try discriminate. intros H.
      destruct (reset_key_sim st d st1 d1 (fun cst1 p1 => c_close_loop n (c_index cst1) (c_size cst1) p1 k) Hd HR) as [E1 [S1 _]].
      rewrite E1. cbn [cs_of c_index c_size].
      apply close_loop_sim with (3 := H); [pose proof (suf_len _ S1); lia | exact S1].
    Qed.

    Lemma arr_close_loop_sim : forall f n idx size d r k, (f <= n)%nat -> Suf d ->
      arr_close_loop f idx size d = CDone r false ->
      SND (c_arr_close_loop n idx size (pos d) k) d = SND (k (pos r)) r /\ Suf r.
    Proof.
      induction f as [|f IH]; intros n idx size d r k Hn Hd H; [discriminate|].
      destruct n as [|n]; [lia|]. cbn [arr_close_loop c_arr_close_loop] in *.
      destruct (idx <? size); [|injection H as <-; auto].
      destruct (skip_at d) as [r1|e p|] eqn:H1; try discriminate.
      destruct (skip_sim d r1 (fun p' => c_arr_close_loop n (idx + 1) size p' k) Hd H1) as [E1 S1]. rewrite E1.
      apply IH; [lia | exact S1 | exact H].
    Qed.

    Lemma close_arr_sim n st d r k : (length data < n)%nat -> Suf d ->
      close_arr st d = CDone r false ->
      SND (c_close_arr n st (pos d) k) d = SND (k (pos r)) r /\ Suf r.
    Proof.
      intros Hn Hd H. unfold close_arr in H. unfold c_close_arr.
      apply arr_close_loop_sim with (3 := H); [pose proof (suf_len _ Hd); lia | exact Hd].
    Qed.

    Lemma visit_loop_sim : forall f n st d acc toks st' d' k, (f <= n)%nat -> Suf d ->
      visit_loop narrow widen o f st d acc = (toks, Go st' d') ->
      SND (c_visit_loop n (cs_of st) (pos d) acc k) d = SND (k toks (cs_of st') (pos d')) d' /\ Suf d' /\ o_start st' = o_start st.
    Proof.
      induction f as [|f IH]; intros n st d acc toks st' d' k Hn Hd H; [discriminate|].
      destruct n as [|n]; [lia|]. cbn [visit_loop c_visit_loop] in *. cbn [cs_of c_index c_size].
      destruct (o_index st <? o_size st); [|injection H as <- <- <-; auto].
      destruct (read_key narrow widen o d) as [key r1|e [|]| |] eqn:HK1; try discriminate.
      destruct (read_key_sim d key r1
        (fun key p1 => c_reset_key (c_set_key (cs_of st) (Some key)) p1
           (fun cst2 p2 => c_visit_loop n cst2 p2 (acc ++ [key_of_skey key]) k)) Hd HK1) as [E1 S1].
      rewrite E1.
      destruct (reset_key (set_key st (Some key)) r1) as [st2 r2|e s p| |] eqn:HR; try discriminate.
      destruct (reset_key_sim (set_key st (Some key)) r1 st2 r2
        (fun cst2 p2 => c_visit_loop n cst2 p2 (acc ++ [key_of_skey key]) k) S1 HR) as [E2 [S2 O2]].
      change (cs_of (set_key st (Some key))) with (c_set_key (cs_of st) (Some key)) in E2. rewrite E2.
      destruct (IH n st2 r2 (acc ++ [key_of_skey key]) toks st' d' k) as [E3 [S3 O3]]; [lia | exact S2 | exact H |].
      split; [exact E3|]. split; [exact S3|]. rewrite O3, O2. reflexivity.
    Qed.

    (* ---------- the binary scope ---------- *)
    Lemma bin_reads_sim : forall cnt st d toks st' d' k, Suf d ->
      bin_reads cnt st d = (toks, Go st' d') ->
      SND (c_bin_reads cnt st (pos d) k) d = SND (k toks st' (pos d')) d' /\ Suf d'.
    Proof.
      induction cnt as [|m IH]; intros st d toks st' d' k Hd.
      - cbn [bin_reads c_bin_reads]. intros H. injection H as <- <- <-. auto.
      - cbn [bin_reads c_bin_reads]. destruct (a_index st =? a_size st); [discriminate|].
        rewrite SND_call. pose proof (str_op_suffix SM.RdByte d Hd eq_refl) as HS. cbn [SM.str_op] in *.
        destruct (read_binary d) as [b r|r|e|]; cbn [SM.rres_map] in *; try discriminate.
        destruct (bin_reads m (mkA (a_size st) (a_index st + 1)) r) as [t oc] eqn:HB.
        intros H. injection H as <- ->.
        apply (IH _ r t st' d' (fun t a p'' => k (KByte b :: t) a p'') HS HB).
    Qed.

    Lemma bin_close_loop_sim : forall m n idx size d x r k, N.to_nat (size - idx) = m -> (m < n)%nat -> Suf d ->
      take (size - idx) d = Some (x, r) ->
      SND (c_bin_close_loop n idx size (pos d) k) d = SND (k (pos r)) r /\ Suf r.
    Proof.
      induction m as [|m IH]; intros n idx size d x r k Hm Hn Hd HT; destruct n as [|n]; try lia; cbn [c_bin_close_loop].
      - assert (E : idx <? size = false) by lia. rewrite E.
        apply take_some in HT. destruct HT as [-> HL]. assert (x = []) by (destruct x; [reflexivity | cbn [length] in HL; lia]). subst x.
        cbn [app] in *. auto.
      - assert (E : idx <? size = true) by lia. rewrite E.
        apply take_some in HT. destruct HT as [-> HL]. destruct x as [|b x']; [cbn [length] in HL; lia|].
        rewrite SND_call. pose proof (str_op_suffix SM.RdByte ((b :: x') ++ r) Hd eq_refl) as HS. cbn [SM.str_op app read_binary SM.rres_map] in *.
        apply (IH n (idx + 1) size (x' ++ r) x' r k); [lia | lia | exact HS |].
        apply take_app_n. cbn [length] in HL. lia.
    Qed.

    Lemma close_bin_sim n st d r k : (length data < n)%nat -> Suf d ->
      close_bin st d = CDone r false ->
      SND (c_close_bin n st (pos d) k) d = SND (k (pos r)) r /\ Suf r.
    Proof.
      intros Hn Hd. unfold close_bin, c_close_bin.
      destruct (take (a_size st - a_index st) d) as [[x r0]|] eqn:HT; [|discriminate]. intros H. injection H as <-.
      apply (bin_close_loop_sim (N.to_nat (a_size st - a_index st)) n (a_index st) (a_size st) d x r0 k eq_refl); [|exact Hd | exact HT].
      pose proof (suf_len _ Hd). apply take_some in HT. destruct HT as [E HL]. rewrite E, app_length in H. lia.
    Qed.

    Lemma bin_child_sim n cnt {P : Type} (notify : P -> P) (pst pst' : P) r2 sz toks d' kopen :
      (length data < n)%nat -> Suf r2 ->
      with_child (after_child_bin notify pst) (plain (bin_reads cnt (mkA sz 0) r2)) = (toks, Go pst' d', false) ->
      pst' = notify pst /\
      SND (c_bin_reads cnt (mkA sz 0) (pos r2) (fun toks bast p3 => c_close_bin n bast p3 (fun p4 => kopen (KOpen :: toks ++ [KClose]) p4))) r2 =
      SND (kopen toks (pos d')) d' /\ Suf d'.
    Proof.
      intros Hn HS. destruct (bin_reads cnt (mkA sz 0) r2) as [t oc] eqn:HB.
      unfold with_child, plain. cbn [fst snd]. unfold after_child_bin, after_child.
      destruct oc as [bst rest|e bst [rest|]| |].
      - destruct (close_bin bst rest) as [r f|] eqn:HC; [|discriminate].
        intros H. injection H as <- <- <- Hfl. cbn [orb] in Hfl. subst f.
        split; [reflexivity|].
        destruct (bin_reads_sim cnt (mkA sz 0) r2 t bst rest
          (fun toks bast p3 => c_close_bin n bast p3 (fun p4 => kopen (KOpen :: toks ++ [KClose]) p4)) HS HB) as [E2 S2].
        rewrite E2. apply (close_bin_sim n bst rest r (fun p4 => kopen (KOpen :: t ++ [KClose]) p4) Hn S2 HC).
      - destruct (close_bin bst rest); discriminate.
      - discriminate.
      - discriminate.
      - discriminate.
    Qed.

    (* ReadValueType, then the size, the byte loads and the destructor; or declined *)
    Lemma bin_open_sim n cnt {P : Type} (notify : P -> P) (pst perr pother pst' : P) r1 toks d' (declined : bool) kopen knot kother :
      (length data < n)%nat -> Suf r1 ->
      match read_value_type r1 with
      | inr e => (([], Raise (SE e) perr (Some r1), false), false)
      | inl TBin =>
        match read_bin_size o r1 with
        | ROk sz r2 => (with_child (after_child_bin notify pst) (plain (bin_reads cnt (mkA sz 0) r2)), false)
        | RNot r2 => (([KNone], Go (notify pst) r2, false), true)
        | RErr e => (([], raise_typed e perr r1, false), false)
        | RFuel => (([], NoFuel, false), false)
        end
      | inl _ => (([KNone], Go pother r1, false), true)
      end = ((toks, Go pst' d', false), declined) ->
      Suf d' /\
      ((declined = false /\ pst' = notify pst /\ SND (c_bin_open n cnt kopen knot kother) r1 = SND (kopen toks (pos d')) d') \/
       (declined = true /\ toks = [KNone] /\ pst' = notify pst /\ SND (c_bin_open n cnt kopen knot kother) r1 = SND (knot (pos d')) d') \/
       (declined = true /\ toks = [KNone] /\ pst' = pother /\ d' = r1 /\ SND (c_bin_open n cnt kopen knot kother) r1 = SND kother r1)).
    Proof.
      intros Hn HS. unfold c_bin_open. rewrite SND_call. cbn [SM.str_op].
      destruct (read_value_type r1) as [ty|e] eqn:HT; [|discriminate].
      destruct ty; try (intros H; injection H as <- <- <- <-; split; [exact HS|]; right; right; auto).
      rewrite SND_call. pose proof (str_op_suffix SM.RdBin r1 HS eq_refl) as HS2. cbn [SM.str_op] in *.
      destruct (read_bin_size o r1) as [sz r2|r2|e|]; cbn [SM.rres_map] in *; try discriminate.
      - intros H. injection H as H <-.
        destruct (bin_child_sim n cnt notify pst pst' r2 sz toks d' kopen Hn HS2 H) as [-> [E S]].
        split; [exact S|]. left. auto.
      - intros H. injection H as <- <- <- <-. split; [exact HS2|]. right. left. auto.
    Qed.

    (* ---------- requests ---------- *)
    Definition req_sim (n : nat) (r : req) : Prop :=
      frag_req r = true -> forall st d toks st' d' k, Suf (o_start st) -> Suf d ->
      run_req narrow widen o r st d = (toks, Go st' d', false) ->
      SND (c_req n r (cs_of st) (pos d) k) d = SND (k toks (cs_of st') (pos d')) d' /\ Suf d' /\ Suf (o_start st').
    Definition reqs_sim (n : nat) (l : reqs) : Prop :=
      frag_reqs l = true -> forall st d toks st' d' k, Suf (o_start st) -> Suf d ->
      run_reqs narrow widen o l st d = (toks, Go st' d', false) ->
      SND (c_reqs n l (cs_of st) (pos d) k) d = SND (k toks (cs_of st') (pos d')) d' /\ Suf d' /\ Suf (o_start st').
    Definition areq_sim (n : nat) (a : areq) : Prop :=
      frag_areq a = true -> forall st d toks st' d' k, Suf d ->
      run_areq narrow widen o a st d = (toks, Go st' d', false) ->
      SND (c_areq n a st (pos d) k) d = SND (k toks st' (pos d')) d' /\ Suf d'.
    Definition areqs_sim (n : nat) (l : areqs) : Prop :=
      frag_areqs l = true -> forall st d toks st' d' k, Suf d ->
      run_areqs narrow widen o l st d = (toks, Go st' d', false) ->
      SND (c_areqs n l st (pos d) k) d = SND (k toks st' (pos d')) d' /\ Suf d'.
    Definition vact_sim (n : nat) (a : vact) : Prop :=
      frag_vact a = true -> forall q st d toks st' d' k, Suf (o_start st) -> Suf d ->
      run_vact narrow widen o a q st d = (toks, Go st' d', false) ->
      SND (c_vact n a q (cs_of st) (pos d) k) d = SND (k toks (cs_of st') (pos d')) d' /\ Suf d' /\ Suf (o_start st').
    Definition vacts_sim (n : nat) (l : vacts) : Prop :=
      frag_vacts l = true -> forall st d toks st' d' k, Suf (o_start st) -> Suf d ->
      run_vacts narrow widen o l st d = (toks, Go st' d', false) ->
      SND (c_vacts n l (cs_of st) (pos d) k) d = SND (k toks (cs_of st') (pos d')) d' /\ Suf d' /\ Suf (o_start st').

    (* a child object scope: the size read, the body, then its destructor, then the parent is notified *)
    Lemma obj_child_sim n body {P : Type} (notify : P -> P) (pst perr pst' : P) r1 toks d' kk :
      (length data < n)%nat -> reqs_sim n body -> frag_reqs body = true -> Suf r1 ->
      match read_map_size o r1 with
      | ROk sz r2 => with_child (after_child_obj notify pst) (run_reqs narrow widen o body (mkO r2 sz 0 None) r2)
      | RNot r2 => ([KNone], Go (notify pst) r2, false)
      | RErr e => ([], raise_typed e perr r1, false)
      | RFuel => ([], NoFuel, false)
      end = (toks, Go pst' d', false) ->
      pst' = notify pst /\ SND (c_obj_child n (c_reqs n body) kk) r1 = SND (kk toks (pos d')) d' /\ Suf d'.
    Proof.
      intros Hn IHb Hf HS1. unfold c_obj_child. rewrite SND_call.
      pose proof (str_op_suffix SM.RdMap r1 HS1 eq_refl) as HS. cbn [SM.str_op] in *.
      destruct (read_map_size o r1) as [sz r2|r2|e|]; cbn [SM.rres_map] in *; try discriminate.
      2:{ intros H. injection H as <- <- <-. auto. }
      unfold with_child.
      destruct (run_reqs narrow widen o body (mkO r2 sz 0 None) r2) as [[t oc] f1] eqn:HB.
      unfold after_child_obj, after_child.
      destruct oc as [cst rest|e cst [rest|]| |].
      - destruct (close_obj cst rest) as [r f|] eqn:HC; [|discriminate].
        intros H. injection H as <- <- <- Hfl. apply orb_false_elim in Hfl. destruct Hfl as [-> ->].
        split; [reflexivity|].
        destruct (IHb Hf (mkO r2 sz 0 None) r2 t cst rest
          (fun toks ccst p3 => c_close_obj n ccst p3 (fun p4 => kk (KOpen :: toks ++ [KClose]) p4)) HS HS HB) as [E2 [S2 _]].
        change (cs_of (mkO r2 sz 0 None)) with (mkC (pos r2) sz 0 None) in E2. rewrite E2.
        apply (close_obj_sim n cst rest r (fun p4 => kk (KOpen :: t ++ [KClose]) p4) Hn S2 HC).
      - destruct (close_obj cst rest); discriminate.
      - discriminate.
      - discriminate.
      - discriminate.
    Qed.

    Lemma arr_child_sim n body {P : Type} (notify : P -> P) (pst perr pst' : P) r1 toks d' kk :
      (length data < n)%nat -> areqs_sim n body -> frag_areqs body = true -> Suf r1 ->
      match read_array_size o r1 with
      | ROk sz r2 => with_child (after_child_arr notify pst) (run_areqs narrow widen o body (mkA sz 0) r2)
      | RNot r2 => ([KNone], Go (notify pst) r2, false)
      | RErr e => ([], raise_typed e perr r1, false)
      | RFuel => ([], NoFuel, false)
      end = (toks, Go pst' d', false) ->
      pst' = notify pst /\ SND (c_arr_child n (c_areqs n body) kk) r1 = SND (kk toks (pos d')) d' /\ Suf d'.
    Proof.
      intros Hn IHb Hf HS1. unfold c_arr_child. rewrite SND_call.
      pose proof (str_op_suffix SM.RdArr r1 HS1 eq_refl) as HS. cbn [SM.str_op] in *.
      destruct (read_array_size o r1) as [sz r2|r2|e|]; cbn [SM.rres_map] in *; try discriminate.
      2:{ intros H. injection H as <- <- <-. auto. }
      unfold with_child.
      destruct (run_areqs narrow widen o body (mkA sz 0) r2) as [[t oc] f1] eqn:HB.
      unfold after_child_arr, after_child.
      destruct oc as [cst rest|e cst [rest|]| |].
      - destruct (close_arr cst rest) as [r f|] eqn:HC; [|discriminate].
        intros H. injection H as <- <- <- Hfl. apply orb_false_elim in Hfl. destruct Hfl as [-> ->].
        split; [reflexivity|].
        destruct (IHb Hf (mkA sz 0) r2 t cst rest
          (fun toks cast p3 => c_close_arr n cast p3 (fun p4 => kk (KOpen :: toks ++ [KClose]) p4)) HS HB) as [E2 S2].
        rewrite E2.
        apply (close_arr_sim n cst rest r (fun p4 => kk (KOpen :: t ++ [KClose]) p4) Hn S2 HC).
      - destruct (close_arr cst rest); discriminate.
      - discriminate.
      - discriminate.
      - discriminate.
    Qed.

    (* the keyed operations *)
    Lemma do_get_sim n q t st d toks st' d' k : (length data < n)%nat -> Suf (o_start st) -> Suf d ->
      do_get narrow widen o (find_value_by_key narrow widen o) q t st d = (toks, Go st' d', false) ->
      SND (c_do_get n q t (cs_of st) (pos d) k) d = SND (k toks (cs_of st') (pos d')) d' /\ Suf d' /\ Suf (o_start st').
    Proof.
      intros Hn Hs Hd. unfold do_get, lift_find, c_do_get.
      destruct (find_value_by_key narrow widen o q st d) as [[[|] st1] r1|e [b0 st1] p| |] eqn:HF; try discriminate.
      - destruct (find_sim n q st d true st1 r1
          (fun b cst1 p1 => if b then c_read_target t (fun tk p2 => k [tk] (c_on_finish cst1) p2) else k [KFalse] cst1 p1) Hn Hs Hd HF) as [E1 [S1 O1]].
        rewrite E1.
        pose proof (read_target_sim t r1 (fun tk p2 => k [tk] (c_on_finish (cs_of st1)) p2) S1) as RT.
        destruct (read_target narrow widen o t r1) as [v r2|r2|e|]; try discriminate.
        + intros H. injection H as <- <- <-. destruct RT as [E2 S2]. rewrite E2. split; [reflexivity|]. split; [exact S2|].
          cbn [on_finish_child o_start]. rewrite O1. exact Hs.
        + intros H. injection H as <- <- <-. destruct RT as [E2 S2]. rewrite E2. split; [reflexivity|]. split; [exact S2|].
          cbn [on_finish_child o_start]. rewrite O1. exact Hs.
      - destruct (find_sim n q st d false st1 r1
          (fun b cst1 p1 => if b then c_read_target t (fun tk p2 => k [tk] (c_on_finish cst1) p2) else k [KFalse] cst1 p1) Hn Hs Hd HF) as [E1 [S1 O1]].
        rewrite E1. intros H. injection H as <- <- <-. split; [reflexivity|]. split; [exact S1|]. rewrite O1. exact Hs.
    Qed.

    Lemma do_obj_sim n body q st d toks st' d' k : (length data < n)%nat -> reqs_sim n body -> frag_reqs body = true ->
      Suf (o_start st) -> Suf d ->
      do_obj o (find_value_by_key narrow widen o) (run_reqs narrow widen o body) q st d = (toks, Go st' d', false) ->
      SND (c_do_obj n (c_reqs n body) q (cs_of st) (pos d) k) d = SND (k toks (cs_of st') (pos d')) d' /\ Suf d' /\ Suf (o_start st').
    Proof.
      intros Hn IHb Hf Hs Hd. unfold do_obj, lift_find, c_do_obj.
      destruct (find_value_by_key narrow widen o q st d) as [[[|] st1] r1|e [b0 st1] p| |] eqn:HF; try discriminate.
      - match goal with |- _ -> SND (c_find n q _ _ ?kf) d = _ /\ _ =>
          destruct (find_sim n q st d true st1 r1 kf Hn Hs Hd HF) as [E1 [S1 O1]] end.
        rewrite E1. intros H.
        destruct (obj_child_sim n body on_finish_child st1 st1 st' r1 toks d'
          (fun toks p4 => k toks (c_on_finish (cs_of st1)) p4) Hn IHb Hf S1 H) as [-> [E2 S2]].
        rewrite E2. split; [reflexivity|]. split; [exact S2|]. cbn [on_finish_child o_start]. rewrite O1. exact Hs.
      - match goal with |- _ -> SND (c_find n q _ _ ?kf) d = _ /\ _ =>
          destruct (find_sim n q st d false st1 r1 kf Hn Hs Hd HF) as [E1 [S1 O1]] end.
        rewrite E1. intros H. injection H as <- <- <-. split; [reflexivity|]. split; [exact S1|]. rewrite O1. exact Hs.
    Qed.

    Lemma do_arr_sim n body q st d toks st' d' k : (length data < n)%nat -> areqs_sim n body -> frag_areqs body = true ->
      Suf (o_start st) -> Suf d ->
      do_arr o (find_value_by_key narrow widen o) (run_areqs narrow widen o body) q st d = (toks, Go st' d', false) ->
      SND (c_do_arr n (c_areqs n body) q (cs_of st) (pos d) k) d = SND (k toks (cs_of st') (pos d')) d' /\ Suf d' /\ Suf (o_start st').
    Proof.
      intros Hn IHb Hf Hs Hd. unfold do_arr, lift_find, c_do_arr.
      destruct (find_value_by_key narrow widen o q st d) as [[[|] st1] r1|e [b0 st1] p| |] eqn:HF; try discriminate.
      - match goal with |- _ -> SND (c_find n q _ _ ?kf) d = _ /\ _ =>
          destruct (find_sim n q st d true st1 r1 kf Hn Hs Hd HF) as [E1 [S1 O1]] end.
        rewrite E1. intros H.
        destruct (arr_child_sim n body on_finish_child st1 st1 st' r1 toks d'
          (fun toks p4 => k toks (c_on_finish (cs_of st1)) p4) Hn IHb Hf S1 H) as [-> [E2 S2]].
        rewrite E2. split; [reflexivity|]. split; [exact S2|]. cbn [on_finish_child o_start]. rewrite O1. exact Hs.
      - match goal with |- _ -> SND (c_find n q _ _ ?kf) d = _ /\ _ =>
          destruct (find_sim n q st d false st1 r1 kf Hn Hs Hd HF) as [E1 [S1 O1]] end.
        rewrite E1. intros H. injection H as <- <- <-. split; [reflexivity|]. split; [exact S1|]. rewrite O1. exact Hs.
    Qed.

    Lemma do_bin_gen_sim n cnt q st d toks st' d' (declined : bool) k kdecl : (length data < n)%nat -> Suf (o_start st) -> Suf d ->
      do_bin_gen o (find_value_by_key narrow widen o) cnt q st d = ((toks, Go st' d', false), declined) ->
      SND (c_do_bin_gen n cnt q (cs_of st) (pos d) k kdecl) d = SND ((if declined then kdecl else k) toks (cs_of st') (pos d')) d'
      /\ Suf d' /\ Suf (o_start st').
    Proof.
      intros Hn Hs Hd. unfold do_bin_gen, c_do_bin_gen.
      destruct (find_value_by_key narrow widen o q st d) as [[[|] st1] r1|e [b0 st1] p| |] eqn:HF; try discriminate.
      - match goal with |- _ -> SND (c_find n q _ _ ?kf) d = _ /\ _ =>
          destruct (find_sim n q st d true st1 r1 kf Hn Hs Hd HF) as [E1 [S1 O1]] end.
        rewrite E1. intros H.
        destruct (bin_open_sim n cnt on_finish_child st1 st1 st1 st' r1 toks d' declined
          (fun toks p4 => k toks (c_on_finish (cs_of st1)) p4) (fun p2 => kdecl [KNone] (c_on_finish (cs_of st1)) p2)
          (kdecl [KNone] (cs_of st1) (pos r1)) Hn S1 H) as [S2 [[-> [-> E]] | [[-> [-> [-> E]]] | [-> [-> [-> [-> E]]]]]]];
          rewrite E; (split; [reflexivity|]); (split; [exact S2 || exact S1|]); cbn [on_finish_child o_start]; rewrite ?O1; exact Hs.
      - match goal with |- _ -> SND (c_find n q _ _ ?kf) d = _ /\ _ =>
          destruct (find_sim n q st d false st1 r1 kf Hn Hs Hd HF) as [E1 [S1 O1]] end.
        rewrite E1. intros H. injection H as <- <- <- <-. split; [reflexivity|]. split; [exact S1|]. rewrite O1. exact Hs.
    Qed.

    Lemma do_bin_sim n cnt q st d toks st' d' k : (length data < n)%nat -> Suf (o_start st) -> Suf d ->
      do_bin o (find_value_by_key narrow widen o) cnt q st d = (toks, Go st' d', false) ->
      SND (c_do_bin n cnt q (cs_of st) (pos d) k) d = SND (k toks (cs_of st') (pos d')) d' /\ Suf d' /\ Suf (o_start st').
    Proof.
      intros Hn Hs Hd. unfold do_bin, c_do_bin.
      destruct (do_bin_gen o (find_value_by_key narrow widen o) cnt q st d) as [r dec] eqn:HG. cbn [fst]. intros ->.
      destruct (do_bin_gen_sim n cnt q st d toks st' d' dec k k Hn Hs Hd HG) as [E R]. split; [|exact R].
      rewrite E. destruct dec; reflexivity.
    Qed.

    Lemma run_areq_bin cnt st d : run_areq narrow widen o (ABin cnt) st d =
      if a_index st =? a_size st then ([], Raise SERange st (Some d), false)
      else match read_value_type d with
           | inr e => ([], Raise (SE e) st (Some d), false)
           | inl TBin =>
             match read_bin_size o d with
             | ROk sz r => with_child (after_child_bin (fun s => s) (mkA (a_size st) (a_index st + 1))) (plain (bin_reads cnt (mkA sz 0) r))
             | RNot r => ([KNone], Go (mkA (a_size st) (a_index st + 1)) r, false)
             | RErr e => ([], raise_typed e st d, false)
             | RFuel => ([], NoFuel, false)
             end
           | inl _ => ([KNone], Go st d, false)
           end.
    Proof. reflexivity. Qed.
    Lemma c_areq_bin n cnt ast p k : c_areq n (ABin cnt) ast p k =
      if a_index ast =? a_size ast then fail
      else c_bin_open n cnt (fun toks p4 => k toks (mkA (a_size ast) (a_index ast + 1)) p4)
             (fun p2 => k [KNone] (mkA (a_size ast) (a_index ast + 1)) p2) (k [KNone] ast p).
    Proof. reflexivity. Qed.
    Lemma run_vact_binarr cnt body q st d : run_vact narrow widen o (VBinArr cnt body) q st d =
      match do_bin_gen o (find_value_by_key narrow widen o) cnt q st d with
      | (r, true) => seq_res r (do_arr o (find_value_by_key narrow widen o) (run_areqs narrow widen o body) q)
      | (r, false) => r
      end.
    Proof. reflexivity. Qed.

    Lemma run_req_visit st d : run_req narrow widen o RVisit st d =
      match reset_key st d with
      | Go st1 _ => plain (visit_loop narrow widen o (S (length (o_start st1))) (set_index st1 0) (o_start st1) [])
      | other => ([], other, false)
      end.
    Proof. reflexivity. Qed.
    Lemma run_req_each acts st d : run_req narrow widen o (REach acts) st d =
      match reset_key st d with
      | Go st1 _ => run_vacts narrow widen o acts (set_index st1 0) (o_start st1)
      | other => ([], other, false)
      end.
    Proof. reflexivity. Qed.
    Lemma run_reqs_cons r l st d : run_reqs narrow widen o (RCons r l) st d =
      match run_req narrow widen o r st d with
      | (t1, Go st1 r1, f1) => let '(t2, oc, f2) := run_reqs narrow widen o l st1 r1 in (t1 ++ t2, oc, f1 || f2)
      | failed => failed
      end.
    Proof. reflexivity. Qed.
    Lemma run_areqs_cons a l st d : run_areqs narrow widen o (ACons a l) st d =
      match run_areq narrow widen o a st d with
      | (t1, Go st1 r1, f1) => let '(t2, oc, f2) := run_areqs narrow widen o l st1 r1 in (t1 ++ t2, oc, f1 || f2)
      | failed => failed
      end.
    Proof. reflexivity. Qed.
    Lemma run_areq_get t st d : run_areq narrow widen o (AGet t) st d =
      if a_index st =? a_size st then ([], Raise SERange st (Some d), false)
      else match read_target narrow widen o t d with
           | ROk v r => ([KVal v], Go (mkA (a_size st) (a_index st + 1)) r, false)
           | RNot r => ([KFalse], Go (mkA (a_size st) (a_index st + 1)) r, false)
           | RErr e => ([], raise_typed e st d, false)
           | RFuel => ([], NoFuel, false)
           end.
    Proof. reflexivity. Qed.
    Lemma run_areq_obj body st d : run_areq narrow widen o (AObj body) st d =
      if a_index st =? a_size st then ([], Raise SERange st (Some d), false)
      else match read_map_size o d with
           | ROk n r => with_child (after_child_obj (fun s => s) (mkA (a_size st) (a_index st + 1))) (run_reqs narrow widen o body (mkO r n 0 None) r)
           | RNot r => ([KNone], Go (mkA (a_size st) (a_index st + 1)) r, false)
           | RErr e => ([], raise_typed e st d, false)
           | RFuel => ([], NoFuel, false)
           end.
    Proof. reflexivity. Qed.
    Lemma run_areq_arr body st d : run_areq narrow widen o (AArr body) st d =
      if a_index st =? a_size st then ([], Raise SERange st (Some d), false)
      else match read_array_size o d with
           | ROk n r => with_child (after_child_arr (fun s => s) (mkA (a_size st) (a_index st + 1))) (run_areqs narrow widen o body (mkA n 0) r)
           | RNot r => ([KNone], Go (mkA (a_size st) (a_index st + 1)) r, false)
           | RErr e => ([], raise_typed e st d, false)
           | RFuel => ([], NoFuel, false)
           end.
    Proof. reflexivity. Qed.
    Lemma run_areq_try_get t st d : run_areq narrow widen o (ATry (AGet t)) st d =
      if a_index st =? a_size st then ([KCaught], Go st d, false)
      else match read_target narrow widen o t d with
           | ROk v r => ([KVal v], Go (mkA (a_size st) (a_index st + 1)) r, false)
           | RNot r => ([KFalse], Go (mkA (a_size st) (a_index st + 1)) r, false)
           | RErr e => ([], raise_typed e st d, false)
           | RFuel => ([], NoFuel, false)
           end.
    Proof.
      change (run_areq narrow widen o (ATry (AGet t)) st d) with
        (match run_areq narrow widen o (AGet t) st d with
         | (t0, Raise SERange st' (Some r'), f) => (t0 ++ [KCaught], Go st' r', f)
         | other => other
         end).
      rewrite run_areq_get. destruct (a_index st =? a_size st); [reflexivity|].
      destruct (read_target narrow widen o t d); reflexivity.
    Qed.
    Lemma c_areq_try_get n t ast p k : c_areq n (ATry (AGet t)) ast p k =
      if a_index ast =? a_size ast then k [KCaught] ast p
      else c_read_target t (fun tk p2 => k [tk] (mkA (a_size ast) (a_index ast + 1)) p2).
    Proof. reflexivity. Qed.
    Lemma run_vacts_nil st d : run_vacts narrow widen o VANil st d =
      match visit_loop narrow widen o (S (length (o_start st))) st d [] with (_, oc) => ([], oc, false) end.
    Proof. reflexivity. Qed.
    Lemma run_vacts_cons a acts st d : run_vacts narrow widen o (VACons a acts) st d =
      if o_index st <? o_size st then
        match read_key narrow widen o d with
        | KOk k r1 =>
          match run_vact narrow widen o a (qkey_of_skey k) (set_key st (Some k)) r1 with
          | (t1, Go st2 r2, f1) =>
            match reset_key st2 r2 with
            | Go st3 r3 => let '(t2, oc, f2) := run_vacts narrow widen o acts st3 r3 in (t1 ++ t2, oc, f1 || f2)
            | other => (t1, other, f1)
            end
          | failed => failed
          end
        | KRaise e true => ([], Raise (SE e) st (Some d), false)
        | KRaise e false => ([], Raise (SE e) (set_key st (Some slot_written)) None, false)
        | KStale => ([], Stale, false)
        | KFuel => ([], NoFuel, false)
        end
      else ([], Go st d, false).
    Proof. reflexivity. Qed.

    Lemma c_req_visit n cst p k : c_req n RVisit cst p k =
      c_reset_key cst p (fun cst1 p1 =>
        c_seek_if true (c_start cst1) p1 (fun p' => c_visit_loop n (c_set_index cst1 0) p' [] k)).
    Proof. reflexivity. Qed.
    Lemma c_req_each n acts cst p k : c_req n (REach acts) cst p k =
      c_reset_key cst p (fun cst1 p1 =>
        c_seek_if true (c_start cst1) p1 (fun p' => c_vacts n acts (c_set_index cst1 0) p' k)).
    Proof. reflexivity. Qed.
    Lemma c_reqs_cons n r l cst p k : c_reqs n (RCons r l) cst p k =
      c_req n r cst p (fun t1 cst1 p1 => c_reqs n l cst1 p1 (fun t2 cst2 p2 => k (t1 ++ t2) cst2 p2)).
    Proof. reflexivity. Qed.
    Lemma c_areqs_cons n a l ast p k : c_areqs n (ACons a l) ast p k =
      c_areq n a ast p (fun t1 ast1 p1 => c_areqs n l ast1 p1 (fun t2 ast2 p2 => k (t1 ++ t2) ast2 p2)).
    Proof. reflexivity. Qed.
    Lemma c_areq_get n t ast p k : c_areq n (AGet t) ast p k =
      if a_index ast =? a_size ast then fail
      else c_read_target t (fun tk p2 => k [tk] (mkA (a_size ast) (a_index ast + 1)) p2).
    Proof. reflexivity. Qed.
    Lemma c_areq_obj n body ast p k : c_areq n (AObj body) ast p k =
      if a_index ast =? a_size ast then fail
      else c_obj_child n (c_reqs n body) (fun toks p4 => k toks (mkA (a_size ast) (a_index ast + 1)) p4).
    Proof. reflexivity. Qed.
    Lemma c_areq_arr n body ast p k : c_areq n (AArr body) ast p k =
      if a_index ast =? a_size ast then fail
      else c_arr_child n (c_areqs n body) (fun toks p4 => k toks (mkA (a_size ast) (a_index ast + 1)) p4).
    Proof. reflexivity. Qed.
    Lemma c_vacts_nil n cst p k : c_vacts n VANil cst p k = c_visit_loop n cst p [] (fun _ cst' p' => k [] cst' p').
    Proof. reflexivity. Qed.
    Lemma c_vacts_cons n a acts cst p k : c_vacts n (VACons a acts) cst p k =
      if c_index cst <? c_size cst then
        c_read_key (fun key p1 =>
          c_vact n a (qkey_of_skey key) (c_set_key cst (Some key)) p1 (fun t1 cst2 p2 =>
            c_reset_key cst2 p2 (fun cst3 p3 =>
              c_vacts n acts cst3 p3 (fun t2 cst4 p4 => k (t1 ++ t2) cst4 p4))))
      else k [] cst p.
    Proof. reflexivity. Qed.

    Lemma programs_sim n : (length data < n)%nat ->
      (forall r, req_sim n r) /\ (forall l, reqs_sim n l) /\ (forall a, areq_sim n a) /\ (forall l, areqs_sim n l)
      /\ (forall a, vact_sim n a) /\ (forall l, vacts_sim n l).
    Proof.
      intros Hn.
      apply program_mutind; try (intros; intros Hf; discriminate Hf).
      - (* RGet *)
        intros q t _ st d toks st' d' k Hs Hd. apply (do_get_sim n q t st d toks st' d' k Hn Hs Hd).
      - (* RObj *)
        intros q body IHb Hf st d toks st' d' k Hs Hd. apply (do_obj_sim n body q st d toks st' d' k Hn IHb Hf Hs Hd).
      - (* RArr *)
        intros q body IHb Hf st d toks st' d' k Hs Hd. apply (do_arr_sim n body q st d toks st' d' k Hn IHb Hf Hs Hd).
      - (* RBin *)
        intros q cnt _ st d toks st' d' k Hs Hd. apply (do_bin_sim n cnt q st d toks st' d' k Hn Hs Hd).
      - (* RVisit *)
        intros _ st d toks st' d' k Hs Hd. rewrite run_req_visit, c_req_visit.
        destruct (reset_key st d) as [st1 d1|e s p| |] eqn:HR; try discriminate.
        destruct (reset_key_sim st d st1 d1
          (fun cst1 p1 => c_seek_if true (c_start cst1) p1 (fun p' => c_visit_loop n (c_set_index cst1 0) p' [] k)) Hd HR) as [E1 [S1 O1]].
        rewrite E1. cbn [cs_of c_start].
        assert (Hs1 : Suf (o_start st1)) by (rewrite O1; exact Hs).
        rewrite (seek_sim true (o_start st1) d1 _ Hs1 S1).
        unfold plain. destruct (visit_loop narrow widen o (S (length (o_start st1))) (set_index st1 0) (o_start st1) []) as [t oc] eqn:HV.
        cbn [fst snd]. intros H. injection H as <- ->.
        destruct (visit_loop_sim (S (length (o_start st1))) n (set_index st1 0) (o_start st1) [] t st' d' k) as [E2 [S2 O2]];
          [pose proof (suf_len _ Hs1); lia | exact Hs1 | exact HV |].
        change (cs_of (set_index st1 0)) with (c_set_index (cs_of st1) 0) in E2.
        split; [exact E2|]. split; [exact S2|]. rewrite O2. cbn [set_index o_start]. exact Hs1.
      - (* REach *)
        intros acts IHa Hf st d toks st' d' k Hs Hd. cbn [frag_req] in Hf. rewrite run_req_each, c_req_each.
        destruct (reset_key st d) as [st1 d1|e s p| |] eqn:HR; try discriminate.
        destruct (reset_key_sim st d st1 d1
          (fun cst1 p1 => c_seek_if true (c_start cst1) p1 (fun p' => c_vacts n acts (c_set_index cst1 0) p' k)) Hd HR) as [E1 [S1 O1]].
        rewrite E1. cbn [cs_of c_start].
        assert (Hs1 : Suf (o_start st1)) by (rewrite O1; exact Hs).
        rewrite (seek_sim true (o_start st1) d1 _ Hs1 S1).
        intros H.
        apply (IHa Hf (set_index st1 0) (o_start st1) toks st' d' k Hs1 Hs1 H).
      - (* RNil *)
        intros _ st d toks st' d' k Hs Hd H. cbn [run_reqs] in H. injection H as <- <- <-. cbn [c_reqs]. auto.
      - (* RCons *)
        intros r IHr l IHl Hf st d toks st' d' k Hs Hd. cbn [frag_reqs] in Hf. apply andb_true_iff in Hf. destruct Hf as [Hf1 Hf2].
        rewrite run_reqs_cons, c_reqs_cons.
        destruct (run_req narrow widen o r st d) as [[t1 oc1] f1] eqn:H1.
        destruct oc1 as [st1 r1|e s p| |]; try discriminate.
        destruct (run_reqs narrow widen o l st1 r1) as [[t2 oc2] f2] eqn:H2.
        intros H. injection H as <- -> Hfl. apply orb_false_elim in Hfl. destruct Hfl as [-> ->].
        destruct (IHr Hf1 st d t1 st1 r1 (fun t1 cst1 p1 => c_reqs n l cst1 p1 (fun t2 cst2 p2 => k (t1 ++ t2) cst2 p2)) Hs Hd H1) as [E1 [S1 O1]].
        rewrite E1.
        apply (IHl Hf2 st1 r1 t2 st' d' (fun t2 cst2 p2 => k (t1 ++ t2) cst2 p2) O1 S1 H2).
      - (* AGet *)
        intros t _ st d toks st' d' k Hd. rewrite run_areq_get, c_areq_get.
        destruct (a_index st =? a_size st); [discriminate|].
        pose proof (read_target_sim t d (fun tk p2 => k [tk] (mkA (a_size st) (a_index st + 1)) p2) Hd) as RT.
        destruct (read_target narrow widen o t d) as [v r2|r2|e|]; try discriminate;
          intros H; injection H as <- <- <-; exact RT.
      - (* AObj *)
        intros body IHb Hf st d toks st' d' k Hd. rewrite run_areq_obj, c_areq_obj. cbn [frag_areq] in Hf.
        destruct (a_index st =? a_size st); [discriminate|]. intros H.
        destruct (obj_child_sim n body (fun s : ascope => s) (mkA (a_size st) (a_index st + 1)) st st' d toks d'
          (fun toks p4 => k toks (mkA (a_size st) (a_index st + 1)) p4) Hn IHb Hf Hd H) as [-> [E2 S2]].
        rewrite E2. split; [reflexivity | exact S2].
      - (* AArr *)
        intros body IHb Hf st d toks st' d' k Hd. rewrite run_areq_arr, c_areq_arr. cbn [frag_areq] in Hf.
        destruct (a_index st =? a_size st); [discriminate|]. intros H.
        destruct (arr_child_sim n body (fun s : ascope => s) (mkA (a_size st) (a_index st + 1)) st st' d toks d'
          (fun toks p4 => k toks (mkA (a_size st) (a_index st + 1)) p4) Hn IHb Hf Hd H) as [-> [E2 S2]].
        rewrite E2. split; [reflexivity | exact S2].
      - (* ABin *)
        intros cnt _ st d toks st' d' k Hd. rewrite run_areq_bin, c_areq_bin.
        destruct (a_index st =? a_size st); [discriminate|]. intros H.
        assert (H' : match read_value_type d with
                     | inr e => (([], Raise (SE e) st (Some d), false), false)
                     | inl TBin =>
                       match read_bin_size o d with
                       | ROk sz r2 => (with_child (after_child_bin (fun s : ascope => s) (mkA (a_size st) (a_index st + 1))) (plain (bin_reads cnt (mkA sz 0) r2)), false)
                       | RNot r2 => (([KNone], Go (mkA (a_size st) (a_index st + 1)) r2, false), true)
                       | RErr e => (([], raise_typed e st d, false), false)
                       | RFuel => (([], NoFuel, false), false)
                       end
                     | inl _ => (([KNone], Go st d, false), true)
                     end = ((toks, Go st' d', false),
                            match read_value_type d with
                            | inl TBin => match read_bin_size o d with RNot _ => true | _ => false end
                            | inl _ => true | inr _ => false end)).
        { destruct (read_value_type d) as [ty|e]; [|discriminate H].
          destruct ty; try (rewrite H; reflexivity). destruct (read_bin_size o d); try discriminate H; rewrite H; reflexivity. }
        destruct (bin_open_sim n cnt (fun s : ascope => s) (mkA (a_size st) (a_index st + 1)) st st st' d toks d' _
          (fun toks p4 => k toks (mkA (a_size st) (a_index st + 1)) p4) (fun p2 => k [KNone] (mkA (a_size st) (a_index st + 1)) p2)
          (k [KNone] st (pos d)) Hn Hd H') as [S2 [[_ [-> E]] | [[_ [-> [-> E]]] | [_ [-> [-> [-> E]]]]]]];
          rewrite E; (split; [reflexivity | exact S2 || exact Hd]).
      - (* AEnd *)
        intros _ st d toks st' d' k Hd H. cbn [run_areq] in H. injection H as <- <- <-. cbn [c_areq]. auto.
      - (* ATry *)
        intros a _ Hf st d toks st' d' k Hd. destruct a; try discriminate Hf.
        rewrite run_areq_try_get, c_areq_try_get.
        destruct (a_index st =? a_size st); [intros H; injection H as <- <- <-; auto|].
        pose proof (read_target_sim t d (fun tk p2 => k [tk] (mkA (a_size st) (a_index st + 1)) p2) Hd) as RT.
        destruct (read_target narrow widen o t d) as [v r2|r2|e|]; try discriminate;
          intros H; injection H as <- <- <-; exact RT.
      - (* AThrow *)
        intros e _ st d toks st' d' k Hd H. cbn [run_areq] in H. discriminate H.
      - (* ANil *)
        intros _ st d toks st' d' k Hd H. cbn [run_areqs] in H. injection H as <- <- <-. cbn [c_areqs]. auto.
      - (* ACons *)
        intros a IHa l IHl Hf st d toks st' d' k Hd. cbn [frag_areqs] in Hf. apply andb_true_iff in Hf. destruct Hf as [Hf1 Hf2].
        rewrite run_areqs_cons, c_areqs_cons.
        destruct (run_areq narrow widen o a st d) as [[t1 oc1] f1] eqn:H1.
        destruct oc1 as [st1 r1|e s p| |]; try discriminate.
        destruct (run_areqs narrow widen o l st1 r1) as [[t2 oc2] f2] eqn:H2.
        intros H. injection H as <- -> Hfl. apply orb_false_elim in Hfl. destruct Hfl as [-> ->].
        destruct (IHa Hf1 st d t1 st1 r1 (fun t1 ast1 p1 => c_areqs n l ast1 p1 (fun t2 ast2 p2 => k (t1 ++ t2) ast2 p2)) Hd H1) as [E1 S1].
        rewrite E1.
        apply (IHl Hf2 st1 r1 t2 st' d' (fun t2 ast2 p2 => k (t1 ++ t2) ast2 p2) S1 H2).
      - (* VSkip *)
        intros _ q st d toks st' d' k Hs Hd H. cbn [run_vact] in H. injection H as <- <- <-. cbn [c_vact]. auto.
      - (* VThrow *)
        intros e _ q st d toks st' d' k Hs Hd H. cbn [run_vact] in H. discriminate H.
      - (* VGet *)
        intros t _ q st d toks st' d' k Hs Hd. apply (do_get_sim n q t st d toks st' d' k Hn Hs Hd).
      - (* VObj *)
        intros body IHb Hf q st d toks st' d' k Hs Hd. apply (do_obj_sim n body q st d toks st' d' k Hn IHb Hf Hs Hd).
      - (* VArr *)
        intros body IHb Hf q st d toks st' d' k Hs Hd. apply (do_arr_sim n body q st d toks st' d' k Hn IHb Hf Hs Hd).
      - (* VBin *)
        intros cnt _ q st d toks st' d' k Hs Hd. apply (do_bin_sim n cnt q st d toks st' d' k Hn Hs Hd).
      - (* VBinArr *)
        intros cnt body IHb Hf q st d toks st' d' k Hs Hd. cbn [frag_vact] in Hf. rewrite run_vact_binarr.
        change (c_vact n (VBinArr cnt body) q (cs_of st) (pos d) k) with
          (c_do_bin_gen n cnt q (cs_of st) (pos d) k
             (fun t1 cst1 p1 => c_do_arr n (c_areqs n body) q cst1 p1 (fun t2 cst2 p2 => k (t1 ++ t2) cst2 p2))).
        destruct (do_bin_gen o (find_value_by_key narrow widen o) cnt q st d) as [[[t1 oc1] f1] dec] eqn:HG.
        destruct dec.
        + unfold seq_res. destruct oc1 as [st1 r1|e s0 p| |]; try discriminate.
          destruct (do_arr o (find_value_by_key narrow widen o) (run_areqs narrow widen o body) q st1 r1) as [[t2 oc2] f2] eqn:HA.
          intros H. injection H as <- -> Hfl. apply orb_false_elim in Hfl. destruct Hfl as [-> ->].
          destruct (do_bin_gen_sim n cnt q st d t1 st1 r1 true k
            (fun t1 cst1 p1 => c_do_arr n (c_areqs n body) q cst1 p1 (fun t2 cst2 p2 => k (t1 ++ t2) cst2 p2)) Hn Hs Hd HG) as [E1 [S1 O1]].
          rewrite E1.
          apply (do_arr_sim n body q st1 r1 t2 st' d' (fun t2 cst2 p2 => k (t1 ++ t2) cst2 p2) Hn IHb Hf O1 S1 HA).
        + intros H. injection H as -> -> ->.
          apply (do_bin_gen_sim n cnt q st d toks st' d' false k _ Hn Hs Hd HG).
      - (* VANil *)
        intros _ st d toks st' d' k Hs Hd. rewrite run_vacts_nil, c_vacts_nil.
        destruct (visit_loop narrow widen o (S (length (o_start st))) st d []) as [t oc] eqn:HV.
        intros H. injection H as <- ->.
        destruct (visit_loop_sim (S (length (o_start st))) n st d [] t st' d' (fun _ cst' p' => k [] cst' p')) as [E2 [S2 O2]];
          [pose proof (suf_len _ Hs); lia | exact Hd | exact HV |].
        split; [exact E2|]. split; [exact S2|]. rewrite O2. exact Hs.
      - (* VACons *)
        intros a IHa acts IHl Hf st d toks st' d' k Hs Hd. cbn [frag_vacts] in Hf. apply andb_true_iff in Hf. destruct Hf as [Hf1 Hf2].
        rewrite run_vacts_cons, c_vacts_cons. cbn [cs_of c_index c_size].
        destruct (o_index st <? o_size st); [|intros H; injection H as <- <- <-; auto].
        destruct (read_key narrow widen o d) as [key r1|e [|]| |] eqn:HK1; try discriminate.
        match goal with |- _ -> SND (c_read_key ?kf) d = _ /\ _ =>
          destruct (read_key_sim d key r1 kf Hd HK1) as [E1 S1] end.
        rewrite E1.
        destruct (run_vact narrow widen o a (qkey_of_skey key) (set_key st (Some key)) r1) as [[t1 oc1] f1] eqn:H1.
        destruct oc1 as [st2 r2|e s p| |]; try discriminate.
        destruct (reset_key st2 r2) as [st3 r3|e s p| |] eqn:HR; try discriminate.
        destruct (run_vacts narrow widen o acts st3 r3) as [[t2 oc2] f2] eqn:H2.
        intros H. injection H as <- -> Hfl. apply orb_false_elim in Hfl. destruct Hfl as [-> ->].
        destruct (IHa Hf1 (qkey_of_skey key) (set_key st (Some key)) r1 t1 st2 r2
          (fun t1 cst2 p2 => c_reset_key cst2 p2 (fun cst3 p3 => c_vacts n acts cst3 p3 (fun t2 cst4 p4 => k (t1 ++ t2) cst4 p4)))
          Hs S1 H1) as [E2 [S2 O2]].
        change (cs_of (set_key st (Some key))) with (c_set_key (cs_of st) (Some key)) in E2. rewrite E2.
        destruct (reset_key_sim st2 r2 st3 r3 (fun cst3 p3 => c_vacts n acts cst3 p3 (fun t2 cst4 p4 => k (t1 ++ t2) cst4 p4)) S2 HR) as [E3 [S3 O3]].
        rewrite E3.
        apply (IHl Hf2 st3 r3 t2 st' d' (fun t2 cst4 p4 => k (t1 ++ t2) cst4 p4)); [rewrite O3; exact O2 | exact S3 | exact H2].
    Qed.

    (* ================= histories that END IN AN EXCEPTION =================
       EC se c d: the client's run from d ends where the scope model raises se: in the READER's exception of that class
       (se = SE e, the run ends with AErrOf e), or — for the exceptions the scope classes and their callers raise
       themselves, without a reader call: "No more items to load" (SERange), "Unsupported key type", the caller's own
       throw — with the client stopping (result None).  Flag false throughout: no scope failed to close before the
       exception nor while it propagated (a destructor that cannot skip its rest swallows that error in C++ and
       goes on; the client's run would end there) *)
    Definition EC (se : serr) (c : cl) (d : list N) : Prop :=
      SND c d = ORet None \/ exists e, se = SE e /\ SND c d = OErr e.

    Lemma skip_fail d e p k : skip_at d = AErr e p -> SND (c_skip k) d = OErr e.
    Proof.
      intros H. unfold c_skip. rewrite SND_call. cbn [SM.str_op].
      pose proof (skip_at_value d) as F. rewrite H in F. cbn [forget] in F. rewrite <- F. reflexivity.
    Qed.

    Lemma read_key_fail d e c k : read_key narrow widen o d = KRaise e c -> EC (SE e) (c_read_key k) d.
    Proof.
      unfold read_key, c_read_key, EC. rewrite SND_call. cbn [SM.str_op].
      destruct (read_value_type d) as [ty|e0] eqn:HT.
      - destruct ty; intros H; try (injection H as <- _; left; reflexivity);
          rewrite SND_call; cbn [SM.str_op];
          match type of H with key_read _ ?rd = _ => destruct rd as [v0 r0|r0|e1|] end;
          cbn [key_read SM.rres_map] in *; try discriminate; injection H as <- _; right; eexists; split; reflexivity.
      - intros H. injection H as <- _. right. eexists. split; reflexivity.
    Qed.

    Lemma reset_fail st d se s p p0 k : reset_key st d = Raise se s p -> EC se (c_reset_key (cs_of st) p0 k) d.
    Proof.
      unfold reset_key, c_reset_key. cbn [cs_of c_key]. destruct (o_key st); [|discriminate].
      destruct (skip_at d) as [r|e p1|] eqn:Hsk; try discriminate. intros H. assert (se = SE e) by congruence. subst se.
      right. exists e. split; [reflexivity|]. exact (skip_fail d e p1 _ Hsk).
    Qed.

    Lemma find_loop_fail : forall f n q c st d se x p kf, (f <= n)%nat -> Suf (o_start st) -> Suf d ->
      find_loop narrow widen o f q c st d = Raise se x p ->
      EC se (c_find_loop n q c (cs_of st) (pos d) kf) d.
    Proof.
      induction f as [|f IH]; intros n q c st d se x p kf Hn Hs Hd H; [discriminate|].
      destruct n as [|n]; [lia|]. cbn [find_loop c_find_loop] in *. cbn [cs_of c_size c_index c_start].
      destruct (c <? o_size st); [|discriminate]. unfold EC.
      rewrite (seek_sim _ (o_start st) d _ Hs Hd).
      set (w := o_index st =? o_size st) in *.
      assert (Hd1 : Suf (if w then o_start st else d)) by (destruct w; assumption).
      set (d1 := if w then o_start st else d) in *.
      assert (E1 : (if w then c_set_index (cs_of st) 0 else cs_of st) = cs_of (if w then set_index st 0 else st)) by (destruct w; reflexivity).
      rewrite E1.
      assert (Hs1 : o_start (if w then set_index st 0 else st) = o_start st) by (destruct w; reflexivity).
      set (st1 := if w then set_index st 0 else st) in *.
      destruct (read_key narrow widen o d1) as [k r2|e cl0| |] eqn:HK1; try discriminate.
      - destruct (read_key_sim d1 k r2
          (fun k0 p2 => if skey_eq k0 q then kf true (c_set_key (cs_of st1) (Some k0)) p2
                        else c_skip (fun p3 => c_find_loop n q (c + 1)
                               (c_set_index (c_set_key (cs_of st1) (Some k0)) (c_index (c_set_key (cs_of st1) (Some k0)) + 1)) p3 kf))
          Hd1 HK1) as [E2 Hr2].
        rewrite E2. destruct (skey_eq k q); [discriminate|].
        destruct (skip_at r2) as [r3|e p1|] eqn:Hsk; try discriminate.
        + destruct (skip_sim r2 r3 (fun p3 => c_find_loop n q (c + 1)
                               (c_set_index (c_set_key (cs_of st1) (Some k)) (c_index (c_set_key (cs_of st1) (Some k)) + 1)) p3 kf) Hr2 Hsk) as [E3 Hr3].
          rewrite E3.
          apply (IH n q (c + 1) (set_index (set_key st1 (Some k)) (o_index (set_key st1 (Some k)) + 1)) r3 se x p kf);
            [lia | cbn [set_index set_key o_start]; rewrite Hs1; exact Hs | exact Hr3 | exact H].
        + assert (se = SE e) by congruence. subst se. right. exists e. split; [reflexivity|]. exact (skip_fail r2 e p1 _ Hsk).
      - assert (se = SE e) by (destruct cl0; congruence). subst se. exact (read_key_fail d1 e cl0 _ HK1).
    Qed.

    Lemma find_fail n q st d se x p kf : (length data < n)%nat -> Suf (o_start st) -> Suf d ->
      find_value_by_key narrow widen o q st d = Raise se x p ->
      EC se (c_find n q (cs_of st) (pos d) kf) d.
    Proof.
      intros Hn Hs Hd. unfold find_value_by_key, c_find. cbn [cs_of c_key].
      destruct (o_key st) as [k|] eqn:Hk.
      - destruct (skey_eq k q); [discriminate|].
        destruct (reset_key st d) as [st1 d1|e s p1| |] eqn:HR; try discriminate.
        + intros H.
          destruct (reset_key_sim st d st1 d1 (fun cst1 p1 => c_find_loop n q 0 cst1 p1 kf) Hd HR) as [E1 [S1 O1]].
          unfold EC. rewrite E1.
          apply (find_loop_fail (S (length (o_start st1))) n q 0 st1 d1 se x p kf);
            [rewrite O1; pose proof (suf_len _ Hs); lia | rewrite O1; exact Hs | exact S1 | exact H].
        + intros H. assert (se = e) by congruence. subst se. exact (reset_fail st d e s p1 (pos d) _ HR).
      - intros H. apply (find_loop_fail (S (length (o_start st))) n q 0 st d se x p kf); [pose proof (suf_len _ Hs); lia | exact Hs | exact Hd | exact H].
    Qed.

    Lemma read_target_err t d e : read_target narrow widen o t d = RErr e -> SM.str_op narrow widen data o (op_of_target t) d = RErr e.
    Proof.
      destruct t; cbn [op_of_target SM.str_op read_target].
      - destruct (read_int o t d); cbn [map_rres SM.rres_map]; congruence.
      - destruct (read_nil o d); cbn [map_rres SM.rres_map]; congruence.
      - destruct (read_f32 narrow o d); cbn [map_rres SM.rres_map]; congruence.
      - destruct (read_f64 widen o d); cbn [map_rres SM.rres_map]; congruence.
      - destruct (read_str o d); cbn [map_rres SM.rres_map]; congruence.
      - destruct (read_ts o d); cbn [map_rres SM.rres_map]; congruence.
    Qed.

    Lemma read_target_fail t d e k : read_target narrow widen o t d = RErr e -> SND (c_read_target t k) d = OErr e.
    Proof. intros H. unfold c_read_target. rewrite SND_call, (read_target_err t d e H). reflexivity. Qed.

    Definition req_fail (n : nat) (r : req) : Prop :=
      frag_req r = true -> forall st d toks se st' p k, Suf (o_start st) -> Suf d ->
      run_req narrow widen o r st d = (toks, Raise se st' p, false) -> EC se (c_req n r (cs_of st) (pos d) k) d.
    Definition reqs_fail (n : nat) (l : reqs) : Prop :=
      frag_reqs l = true -> forall st d toks se st' p k, Suf (o_start st) -> Suf d ->
      run_reqs narrow widen o l st d = (toks, Raise se st' p, false) -> EC se (c_reqs n l (cs_of st) (pos d) k) d.
    Definition areq_fail (n : nat) (a : areq) : Prop :=
      frag_areq a = true -> forall st d toks se st' p k, Suf d ->
      run_areq narrow widen o a st d = (toks, Raise se st' p, false) -> EC se (c_areq n a st (pos d) k) d.
    Definition areqs_fail (n : nat) (l : areqs) : Prop :=
      frag_areqs l = true -> forall st d toks se st' p k, Suf d ->
      run_areqs narrow widen o l st d = (toks, Raise se st' p, false) -> EC se (c_areqs n l st (pos d) k) d.
    Definition vact_fail (n : nat) (a : vact) : Prop :=
      frag_vact a = true -> forall q st d toks se st' p k, Suf (o_start st) -> Suf d ->
      run_vact narrow widen o a q st d = (toks, Raise se st' p, false) -> EC se (c_vact n a q (cs_of st) (pos d) k) d.
    Definition vacts_fail (n : nat) (l : vacts) : Prop :=
      frag_vacts l = true -> forall st d toks se st' p k, Suf (o_start st) -> Suf d ->
      run_vacts narrow widen o l st d = (toks, Raise se st' p, false) -> EC se (c_vacts n l (cs_of st) (pos d) k) d.

    Lemma do_get_fail n q t st d toks se st' p fl k : (length data < n)%nat -> Suf (o_start st) -> Suf d ->
      do_get narrow widen o (find_value_by_key narrow widen o) q t st d = (toks, Raise se st' p, fl) ->
      EC se (c_do_get n q t (cs_of st) (pos d) k) d.
    Proof.
      intros Hn Hs Hd. unfold do_get, lift_find, c_do_get.
      destruct (find_value_by_key narrow widen o q st d) as [[[|] st1] r1|e [b0 st1] p0| |] eqn:HF; try discriminate.
      - match goal with |- _ -> EC se (c_find n q _ _ ?kf) d => destruct (find_sim n q st d true st1 r1 kf Hn Hs Hd HF) as [E1 [S1 O1]] end.
        unfold EC. rewrite E1.
        destruct (read_target narrow widen o t r1) as [v r2|r2|e|] eqn:HR; try discriminate.
        intros H. assert (se = SE e) by (unfold raise_typed in H; congruence). subst se.
        right. exists e. split; [reflexivity|]. exact (read_target_fail t r1 e _ HR).
      - intros H. assert (se = e) by congruence. subst se. exact (find_fail n q st d e (b0, st1) p0 _ Hn Hs Hd HF).
    Qed.

    Lemma obj_child_fail n body {P : Type} (notify : P -> P) (pst perr pst' : P) r1 toks se p kk :
      (length data < n)%nat -> reqs_fail n body -> frag_reqs body = true -> Suf r1 ->
      match read_map_size o r1 with
      | ROk sz r2 => with_child (after_child_obj notify pst) (run_reqs narrow widen o body (mkO r2 sz 0 None) r2)
      | RNot r2 => ([KNone], Go (notify pst) r2, false)
      | RErr e => ([], raise_typed e perr r1, false)
      | RFuel => ([], NoFuel, false)
      end = (toks, Raise se pst' p, false) ->
      EC se (c_obj_child n (c_reqs n body) kk) r1.
    Proof.
      intros Hn IHb Hf HS1. unfold c_obj_child, EC. rewrite SND_call.
      pose proof (str_op_suffix SM.RdMap r1 HS1 eq_refl) as HS. cbn [SM.str_op] in *.
      destruct (read_map_size o r1) as [sz r2|r2|e|]; cbn [SM.rres_map] in *; try discriminate.
      2:{ intros H. assert (se = SE e) by (unfold raise_typed in H; congruence). subst se. right. exists e. split; reflexivity. }
      unfold with_child.
      destruct (run_reqs narrow widen o body (mkO r2 sz 0 None) r2) as [[t oc] f1] eqn:HB.
      unfold after_child_obj, after_child.
      destruct oc as [cst rest|e cst [rest|]| |].
      - destruct (close_obj cst rest); discriminate.
      - destruct (close_obj cst rest) as [r f|]; [|discriminate]. intros H.
        assert (se = e) by congruence. assert (Hfl : f1 || f = false) by congruence. subst se.
        apply orb_false_elim in Hfl. destruct Hfl as [-> _].
        exact (IHb Hf (mkO r2 sz 0 None) r2 t e cst (Some rest) _ HS HS HB).
      - intros H. assert (se = e) by congruence. assert (Hfl : f1 || false = false) by congruence. subst se.
        rewrite orb_false_r in Hfl. subst f1.
        exact (IHb Hf (mkO r2 sz 0 None) r2 t e cst None _ HS HS HB).
      - discriminate.
      - discriminate.
    Qed.

    Lemma arr_child_fail n body {P : Type} (notify : P -> P) (pst perr pst' : P) r1 toks se p kk :
      (length data < n)%nat -> areqs_fail n body -> frag_areqs body = true -> Suf r1 ->
      match read_array_size o r1 with
      | ROk sz r2 => with_child (after_child_arr notify pst) (run_areqs narrow widen o body (mkA sz 0) r2)
      | RNot r2 => ([KNone], Go (notify pst) r2, false)
      | RErr e => ([], raise_typed e perr r1, false)
      | RFuel => ([], NoFuel, false)
      end = (toks, Raise se pst' p, false) ->
      EC se (c_arr_child n (c_areqs n body) kk) r1.
    Proof.
      intros Hn IHb Hf HS1. unfold c_arr_child, EC. rewrite SND_call.
      pose proof (str_op_suffix SM.RdArr r1 HS1 eq_refl) as HS. cbn [SM.str_op] in *.
      destruct (read_array_size o r1) as [sz r2|r2|e|]; cbn [SM.rres_map] in *; try discriminate.
      2:{ intros H. assert (se = SE e) by (unfold raise_typed in H; congruence). subst se. right. exists e. split; reflexivity. }
      unfold with_child.
      destruct (run_areqs narrow widen o body (mkA sz 0) r2) as [[t oc] f1] eqn:HB.
      unfold after_child_arr, after_child.
      destruct oc as [cst rest|e cst [rest|]| |].
      - destruct (close_arr cst rest); discriminate.
      - destruct (close_arr cst rest) as [r f|]; [|discriminate]. intros H.
        assert (se = e) by congruence. assert (Hfl : f1 || f = false) by congruence. subst se.
        apply orb_false_elim in Hfl. destruct Hfl as [-> _].
        exact (IHb Hf (mkA sz 0) r2 t e cst (Some rest) _ HS HB).
      - intros H. assert (se = e) by congruence. assert (Hfl : f1 || false = false) by congruence. subst se.
        rewrite orb_false_r in Hfl. subst f1.
        exact (IHb Hf (mkA sz 0) r2 t e cst None _ HS HB).
      - discriminate.
      - discriminate.
    Qed.

    Lemma do_obj_fail n body q st d toks se st' p k : (length data < n)%nat -> reqs_fail n body -> frag_reqs body = true ->
      Suf (o_start st) -> Suf d ->
      do_obj o (find_value_by_key narrow widen o) (run_reqs narrow widen o body) q st d = (toks, Raise se st' p, false) ->
      EC se (c_do_obj n (c_reqs n body) q (cs_of st) (pos d) k) d.
    Proof.
      intros Hn IHb Hf Hs Hd. unfold do_obj, lift_find, c_do_obj.
      destruct (find_value_by_key narrow widen o q st d) as [[[|] st1] r1|e [b0 st1] p0| |] eqn:HF; try discriminate.
      - match goal with |- _ -> EC se (c_find n q _ _ ?kf) d => destruct (find_sim n q st d true st1 r1 kf Hn Hs Hd HF) as [E1 [S1 O1]] end.
        intros H. unfold EC. rewrite E1.
        exact (obj_child_fail n body on_finish_child st1 st1 st' r1 toks se p _ Hn IHb Hf S1 H).
      - intros H. assert (se = e) by congruence. subst se. exact (find_fail n q st d e (b0, st1) p0 _ Hn Hs Hd HF).
    Qed.

    Lemma do_arr_fail n body q st d toks se st' p k : (length data < n)%nat -> areqs_fail n body -> frag_areqs body = true ->
      Suf (o_start st) -> Suf d ->
      do_arr o (find_value_by_key narrow widen o) (run_areqs narrow widen o body) q st d = (toks, Raise se st' p, false) ->
      EC se (c_do_arr n (c_areqs n body) q (cs_of st) (pos d) k) d.
    Proof.
      intros Hn IHb Hf Hs Hd. unfold do_arr, lift_find, c_do_arr.
      destruct (find_value_by_key narrow widen o q st d) as [[[|] st1] r1|e [b0 st1] p0| |] eqn:HF; try discriminate.
      - match goal with |- _ -> EC se (c_find n q _ _ ?kf) d => destruct (find_sim n q st d true st1 r1 kf Hn Hs Hd HF) as [E1 [S1 O1]] end.
        intros H. unfold EC. rewrite E1.
        exact (arr_child_fail n body on_finish_child st1 st1 st' r1 toks se p _ Hn IHb Hf S1 H).
      - intros H. assert (se = e) by congruence. subst se. exact (find_fail n q st d e (b0, st1) p0 _ Hn Hs Hd HF).
    Qed.

    Lemma bin_reads_fail : forall cnt st d toks se st' p k, Suf d ->
      bin_reads cnt st d = (toks, Raise se st' p) -> EC se (c_bin_reads cnt st (pos d) k) d.
    Proof.
      induction cnt as [|m IH]; intros st d toks se st' p k Hd; cbn [bin_reads c_bin_reads]; [discriminate|].
      destruct (a_index st =? a_size st); [intros _; left; reflexivity|].
      unfold EC. rewrite SND_call. pose proof (str_op_suffix SM.RdByte d Hd eq_refl) as HS. cbn [SM.str_op] in *.
      destruct (read_binary d) as [b r|r|e|]; cbn [SM.rres_map] in *; try discriminate.
      - destruct (bin_reads m (mkA (a_size st) (a_index st + 1)) r) as [t oc] eqn:HB.
        intros H. assert (oc = Raise se st' p) by congruence. subst oc.
        exact (IH _ r t se st' p _ HS HB).
      - intros H. assert (se = SE e) by congruence. subst se. right. exists e. split; reflexivity.
    Qed.

    Lemma bin_child_fail cnt {P : Type} (notify : P -> P) (pst pst' : P) r2 sz toks se p k0 : Suf r2 ->
      with_child (after_child_bin notify pst) (plain (bin_reads cnt (mkA sz 0) r2)) = (toks, Raise se pst' p, false) ->
      EC se (c_bin_reads cnt (mkA sz 0) (pos r2) k0) r2.
    Proof.
      intros HS. destruct (bin_reads cnt (mkA sz 0) r2) as [t oc] eqn:HB.
      unfold with_child, plain. cbn [fst snd]. unfold after_child_bin, after_child.
      destruct oc as [bst rest|e bst [rest|]| |].
      - destruct (close_bin bst rest); discriminate.
      - destruct (close_bin bst rest); [|discriminate]. intros H. assert (se = e) by congruence. subst se.
        exact (bin_reads_fail cnt (mkA sz 0) r2 t e bst (Some rest) _ HS HB).
      - intros H. assert (se = e) by congruence. subst se.
        exact (bin_reads_fail cnt (mkA sz 0) r2 t e bst None _ HS HB).
      - discriminate.
      - discriminate.
    Qed.

    Lemma bin_open_fail n cnt {P : Type} (notify : P -> P) (pst perr pother pst' : P) r1 toks se p kopen knot kother : Suf r1 ->
      fst (match read_value_type r1 with
           | inr e => (([], Raise (SE e) perr (Some r1), false), false)
           | inl TBin =>
             match read_bin_size o r1 with
             | ROk sz r2 => (with_child (after_child_bin notify pst) (plain (bin_reads cnt (mkA sz 0) r2)), false)
             | RNot r2 => (([KNone], Go (notify pst) r2, false), true)
             | RErr e => (([], raise_typed e perr r1, false), false)
             | RFuel => (([], NoFuel, false), false)
             end
           | inl _ => (([KNone], Go pother r1, false), true)
           end) = (toks, Raise se pst' p, false) ->
      EC se (c_bin_open n cnt kopen knot kother) r1.
    Proof.
      intros HS. unfold c_bin_open, EC. rewrite SND_call. cbn [SM.str_op].
      destruct (read_value_type r1) as [ty|e] eqn:HT.
      2:{ cbn [fst]. intros H. assert (se = SE e) by congruence. subst se. right. exists e. split; reflexivity. }
      destruct ty; cbn [fst]; try discriminate.
      rewrite SND_call. pose proof (str_op_suffix SM.RdBin r1 HS eq_refl) as HS2. cbn [SM.str_op] in *.
      destruct (read_bin_size o r1) as [sz r2|r2|e|]; cbn [SM.rres_map fst] in *; try discriminate.
      - intros H. exact (bin_child_fail cnt notify pst pst' r2 sz toks se p _ HS2 H).
      - intros H. assert (se = SE e) by (unfold raise_typed in H; congruence). subst se. right. exists e. split; reflexivity.
    Qed.

    Lemma do_bin_gen_fail n cnt q st d toks se st' p (declined : bool) k kdecl : (length data < n)%nat -> Suf (o_start st) -> Suf d ->
      do_bin_gen o (find_value_by_key narrow widen o) cnt q st d = ((toks, Raise se st' p, false), declined) ->
      EC se (c_do_bin_gen n cnt q (cs_of st) (pos d) k kdecl) d.
    Proof.
      intros Hn Hs Hd. unfold do_bin_gen, c_do_bin_gen.
      destruct (find_value_by_key narrow widen o q st d) as [[[|] st1] r1|e [b0 st1] p0| |] eqn:HF; try discriminate.
      - match goal with |- _ -> EC se (c_find n q _ _ ?kf) d => destruct (find_sim n q st d true st1 r1 kf Hn Hs Hd HF) as [E1 [S1 O1]] end.
        intros H. unfold EC. rewrite E1.
        apply (bin_open_fail n cnt on_finish_child st1 st1 st1 st' r1 toks se p _ _ _ S1). exact (f_equal fst H).
      - intros H. assert (se = e) by congruence. subst se. exact (find_fail n q st d e (b0, st1) p0 _ Hn Hs Hd HF).
    Qed.

    Lemma do_bin_fail n cnt q st d toks se st' p k : (length data < n)%nat -> Suf (o_start st) -> Suf d ->
      do_bin o (find_value_by_key narrow widen o) cnt q st d = (toks, Raise se st' p, false) ->
      EC se (c_do_bin n cnt q (cs_of st) (pos d) k) d.
    Proof.
      intros Hn Hs Hd. unfold do_bin, c_do_bin.
      destruct (do_bin_gen o (find_value_by_key narrow widen o) cnt q st d) as [r dec] eqn:HG. cbn [fst]. intros ->.
      exact (do_bin_gen_fail n cnt q st d toks se st' p dec k k Hn Hs Hd HG).
    Qed.

    Lemma visit_loop_fail : forall f n st d acc toks se st' p k, (f <= n)%nat -> Suf d ->
      visit_loop narrow widen o f st d acc = (toks, Raise se st' p) ->
      EC se (c_visit_loop n (cs_of st) (pos d) acc k) d.
    Proof.
      induction f as [|f IH]; intros n st d acc toks se st' p k Hn Hd H; [discriminate|].
      destruct n as [|n]; [lia|]. cbn [visit_loop c_visit_loop] in *. cbn [cs_of c_index c_size].
      destruct (o_index st <? o_size st); [|discriminate].
      destruct (read_key narrow widen o d) as [key r1|e cl0| |] eqn:HK1; try discriminate.
      - destruct (read_key_sim d key r1
          (fun key p1 => c_reset_key (c_set_key (cs_of st) (Some key)) p1
             (fun cst2 p2 => c_visit_loop n cst2 p2 (acc ++ [key_of_skey key]) k)) Hd HK1) as [E1 S1].
        unfold EC. rewrite E1.
        destruct (reset_key (set_key st (Some key)) r1) as [st2 r2|e s p0| |] eqn:HR; try discriminate.
        + destruct (reset_key_sim (set_key st (Some key)) r1 st2 r2
            (fun cst2 p2 => c_visit_loop n cst2 p2 (acc ++ [key_of_skey key]) k) S1 HR) as [E2 [S2 O2]].
          change (cs_of (set_key st (Some key))) with (c_set_key (cs_of st) (Some key)) in E2. rewrite E2.
          apply (IH n st2 r2 (acc ++ [key_of_skey key]) toks se st' p k); [lia | exact S2 | exact H].
        + assert (se = e) by congruence. subst se.
          exact (reset_fail (set_key st (Some key)) r1 e s p0 (pos r1) _ HR).
      - assert (se = SE e) by (destruct cl0; congruence). subst se. exact (read_key_fail d e cl0 _ HK1).
    Qed.

    Lemma programs_fail n : (length data < n)%nat ->
      (forall r, req_fail n r) /\ (forall l, reqs_fail n l) /\ (forall a, areq_fail n a) /\ (forall l, areqs_fail n l)
      /\ (forall a, vact_fail n a) /\ (forall l, vacts_fail n l).
    Proof.
      intros Hn. destruct (programs_sim n Hn) as [Sreq [Sreqs [Sareq [Sareqs [Svact Svacts]]]]].
      apply program_mutind.
      - (* RGet *) intros q t _ st d toks se st' p k Hs Hd. apply (do_get_fail n q t st d toks se st' p false k Hn Hs Hd).
      - (* RObj *) intros q body IHb Hf st d toks se st' p k Hs Hd. apply (do_obj_fail n body q st d toks se st' p k Hn IHb Hf Hs Hd).
      - (* RArr *) intros q body IHb Hf st d toks se st' p k Hs Hd. apply (do_arr_fail n body q st d toks se st' p k Hn IHb Hf Hs Hd).
      - (* RBin *) intros q cnt _ st d toks se st' p k Hs Hd. apply (do_bin_fail n cnt q st d toks se st' p k Hn Hs Hd).
      - (* RVisit *)
        intros _ st d toks se st' p k Hs Hd. rewrite run_req_visit, c_req_visit.
        destruct (reset_key st d) as [st1 d1|e s p0| |] eqn:HR; try discriminate.
        + destruct (reset_key_sim st d st1 d1
            (fun cst1 p1 => c_seek_if true (c_start cst1) p1 (fun p' => c_visit_loop n (c_set_index cst1 0) p' [] k)) Hd HR) as [E1 [S1 O1]].
          unfold EC. rewrite E1. cbn [cs_of c_start].
          assert (Hs1 : Suf (o_start st1)) by (rewrite O1; exact Hs).
          rewrite (seek_sim true (o_start st1) d1 _ Hs1 S1).
          unfold plain. destruct (visit_loop narrow widen o (S (length (o_start st1))) (set_index st1 0) (o_start st1) []) as [t oc] eqn:HV.
          cbn [fst snd]. intros H. assert (oc = Raise se st' p) by congruence. subst oc.
          apply (visit_loop_fail (S (length (o_start st1))) n (set_index st1 0) (o_start st1) [] t se st' p k);
            [pose proof (suf_len _ Hs1); lia | exact Hs1 | exact HV].
        + intros H. assert (se = e) by congruence. subst se. exact (reset_fail st d e s p0 (pos d) _ HR).
      - (* REach *)
        intros acts IHa Hf st d toks se st' p k Hs Hd. cbn [frag_req] in Hf. rewrite run_req_each, c_req_each.
        destruct (reset_key st d) as [st1 d1|e s p0| |] eqn:HR; try discriminate.
        + destruct (reset_key_sim st d st1 d1
            (fun cst1 p1 => c_seek_if true (c_start cst1) p1 (fun p' => c_vacts n acts (c_set_index cst1 0) p' k)) Hd HR) as [E1 [S1 O1]].
          unfold EC. rewrite E1. cbn [cs_of c_start].
          assert (Hs1 : Suf (o_start st1)) by (rewrite O1; exact Hs).
          rewrite (seek_sim true (o_start st1) d1 _ Hs1 S1).
          intros H. exact (IHa Hf (set_index st1 0) (o_start st1) toks se st' p k Hs1 Hs1 H).
        + intros H. assert (se = e) by congruence. subst se. exact (reset_fail st d e s p0 (pos d) _ HR).
      - (* RNil *) intros _ st d toks se st' p k Hs Hd H. discriminate H.
      - (* RCons *)
        intros r IHr l IHl Hf st d toks se st' p k Hs Hd. cbn [frag_reqs] in Hf. apply andb_true_iff in Hf. destruct Hf as [Hf1 Hf2].
        rewrite run_reqs_cons, c_reqs_cons.
        destruct (run_req narrow widen o r st d) as [[t1 oc1] f1] eqn:H1.
        destruct oc1 as [st1 r1|e s p0| |]; try discriminate.
        + destruct (run_reqs narrow widen o l st1 r1) as [[t2 oc2] f2] eqn:H2.
          intros H. assert (oc2 = Raise se st' p) by congruence. assert (Hfl : f1 || f2 = false) by congruence. subst oc2.
          apply orb_false_elim in Hfl. destruct Hfl as [-> ->].
          destruct (Sreq r Hf1 st d t1 st1 r1 (fun t1 cst1 p1 => c_reqs n l cst1 p1 (fun t2 cst2 p2 => k (t1 ++ t2) cst2 p2)) Hs Hd H1) as [E1 [S1 O1]].
          unfold EC. rewrite E1. exact (IHl Hf2 st1 r1 t2 se st' p _ O1 S1 H2).
        + intros H. rewrite H in H1. exact (IHr Hf1 st d toks se st' p _ Hs Hd H1).
      - (* AGet *)
        intros t _ st d toks se st' p k Hd. rewrite run_areq_get, c_areq_get.
        destruct (a_index st =? a_size st); [intros _; left; reflexivity|].
        destruct (read_target narrow widen o t d) as [v r2|r2|e|] eqn:HR; try discriminate.
        intros H. assert (se = SE e) by (unfold raise_typed in H; congruence). subst se.
        right. exists e. split; [reflexivity|]. exact (read_target_fail t d e _ HR).
      - (* AObj *)
        intros body IHb Hf st d toks se st' p k Hd. rewrite run_areq_obj, c_areq_obj. cbn [frag_areq] in Hf.
        destruct (a_index st =? a_size st); [intros _; left; reflexivity|]. intros H.
        exact (obj_child_fail n body (fun s : ascope => s) (mkA (a_size st) (a_index st + 1)) st st' d toks se p _ Hn IHb Hf Hd H).
      - (* AArr *)
        intros body IHb Hf st d toks se st' p k Hd. rewrite run_areq_arr, c_areq_arr. cbn [frag_areq] in Hf.
        destruct (a_index st =? a_size st); [intros _; left; reflexivity|]. intros H.
        exact (arr_child_fail n body (fun s : ascope => s) (mkA (a_size st) (a_index st + 1)) st st' d toks se p _ Hn IHb Hf Hd H).
      - (* ABin *)
        intros cnt _ st d toks se st' p k Hd. rewrite run_areq_bin, c_areq_bin.
        destruct (a_index st =? a_size st); [intros _; left; reflexivity|]. intros H.
        apply (bin_open_fail n cnt (fun s : ascope => s) (mkA (a_size st) (a_index st + 1)) st st st' d toks se p _ _ _ Hd).
        rewrite <- H. destruct (read_value_type d) as [ty|e]; [|reflexivity].
        destruct ty; try reflexivity. destruct (read_bin_size o d); reflexivity.
      - (* AEnd *) intros _ st d toks se st' p k Hd H. discriminate H.
      - (* ATry *)
        intros a _ Hf st d toks se st' p k Hd. destruct a; try discriminate Hf.
        rewrite run_areq_try_get, c_areq_try_get.
        destruct (a_index st =? a_size st); [discriminate|].
        destruct (read_target narrow widen o t d) as [v r2|r2|e|] eqn:HR; try discriminate.
        intros H. assert (se = SE e) by (unfold raise_typed in H; congruence). subst se.
        right. exists e. split; [reflexivity|]. exact (read_target_fail t d e _ HR).
      - (* AThrow *) intros e _ st d toks se st' p k Hd _. left. reflexivity.
      - (* ANil *) intros _ st d toks se st' p k Hd H. discriminate H.
      - (* ACons *)
        intros a IHa l IHl Hf st d toks se st' p k Hd. cbn [frag_areqs] in Hf. apply andb_true_iff in Hf. destruct Hf as [Hf1 Hf2].
        rewrite run_areqs_cons, c_areqs_cons.
        destruct (run_areq narrow widen o a st d) as [[t1 oc1] f1] eqn:H1.
        destruct oc1 as [st1 r1|e s p0| |]; try discriminate.
        + destruct (run_areqs narrow widen o l st1 r1) as [[t2 oc2] f2] eqn:H2.
          intros H. assert (oc2 = Raise se st' p) by congruence. assert (Hfl : f1 || f2 = false) by congruence. subst oc2.
          apply orb_false_elim in Hfl. destruct Hfl as [-> ->].
          destruct (Sareq a Hf1 st d t1 st1 r1 (fun t1 ast1 p1 => c_areqs n l ast1 p1 (fun t2 ast2 p2 => k (t1 ++ t2) ast2 p2)) Hd H1) as [E1 S1].
          unfold EC. rewrite E1. exact (IHl Hf2 st1 r1 t2 se st' p _ S1 H2).
        + intros H. rewrite H in H1. exact (IHa Hf1 st d toks se st' p _ Hd H1).
      - (* VSkip *) intros _ q st d toks se st' p k Hs Hd H. discriminate H.
      - (* VThrow *) intros e _ q st d toks se st' p k Hs Hd _. left. reflexivity.
      - (* VGet *) intros t _ q st d toks se st' p k Hs Hd. apply (do_get_fail n q t st d toks se st' p false k Hn Hs Hd).
      - (* VObj *) intros body IHb Hf q st d toks se st' p k Hs Hd. apply (do_obj_fail n body q st d toks se st' p k Hn IHb Hf Hs Hd).
      - (* VArr *) intros body IHb Hf q st d toks se st' p k Hs Hd. apply (do_arr_fail n body q st d toks se st' p k Hn IHb Hf Hs Hd).
      - (* VBin *) intros cnt _ q st d toks se st' p k Hs Hd. apply (do_bin_fail n cnt q st d toks se st' p k Hn Hs Hd).
      - (* VBinArr *)
        intros cnt body IHb Hf q st d toks se st' p k Hs Hd. cbn [frag_vact] in Hf. rewrite run_vact_binarr.
        change (c_vact n (VBinArr cnt body) q (cs_of st) (pos d) k) with
          (c_do_bin_gen n cnt q (cs_of st) (pos d) k
             (fun t1 cst1 p1 => c_do_arr n (c_areqs n body) q cst1 p1 (fun t2 cst2 p2 => k (t1 ++ t2) cst2 p2))).
        destruct (do_bin_gen o (find_value_by_key narrow widen o) cnt q st d) as [[[t1 oc1] f1] dec] eqn:HG.
        destruct dec.
        + unfold seq_res. destruct oc1 as [st1 r1|e s0 p0| |]; try discriminate.
          * destruct (do_arr o (find_value_by_key narrow widen o) (run_areqs narrow widen o body) q st1 r1) as [[t2 oc2] f2] eqn:HA.
            intros H. assert (oc2 = Raise se st' p) by congruence. assert (Hfl : f1 || f2 = false) by congruence. subst oc2.
            apply orb_false_elim in Hfl. destruct Hfl as [-> ->].
            destruct (do_bin_gen_sim n cnt q st d t1 st1 r1 true k
              (fun t1 cst1 p1 => c_do_arr n (c_areqs n body) q cst1 p1 (fun t2 cst2 p2 => k (t1 ++ t2) cst2 p2)) Hn Hs Hd HG) as [E1 [S1 O1]].
            unfold EC. rewrite E1.
            exact (do_arr_fail n body q st1 r1 t2 se st' p _ Hn IHb Hf O1 S1 HA).
          * intros H. rewrite H in HG. exact (do_bin_gen_fail n cnt q st d toks se st' p true _ _ Hn Hs Hd HG).
        + intros H. rewrite H in HG. exact (do_bin_gen_fail n cnt q st d toks se st' p false _ _ Hn Hs Hd HG).
      - (* VANil *)
        intros _ st d toks se st' p k Hs Hd. rewrite run_vacts_nil, c_vacts_nil.
        destruct (visit_loop narrow widen o (S (length (o_start st))) st d []) as [t oc] eqn:HV.
        intros H. assert (oc = Raise se st' p) by congruence. subst oc.
        apply (visit_loop_fail (S (length (o_start st))) n st d [] t se st' p _); [pose proof (suf_len _ Hs); lia | exact Hd | exact HV].
      - (* VACons *)
        intros a IHa acts IHl Hf st d toks se st' p k Hs Hd. cbn [frag_vacts] in Hf. apply andb_true_iff in Hf. destruct Hf as [Hf1 Hf2].
        rewrite run_vacts_cons, c_vacts_cons. cbn [cs_of c_index c_size].
        destruct (o_index st <? o_size st); [|discriminate].
        destruct (read_key narrow widen o d) as [key r1|e cl0| |] eqn:HK1; try discriminate.
        + match goal with |- _ -> EC se (c_read_key ?kf) d => destruct (read_key_sim d key r1 kf Hd HK1) as [E1 S1] end.
          destruct (run_vact narrow widen o a (qkey_of_skey key) (set_key st (Some key)) r1) as [[t1 oc1] f1] eqn:H1.
          destruct oc1 as [st2 r2|e s p0| |]; try discriminate.
          * destruct (reset_key st2 r2) as [st3 r3|e s p0| |] eqn:HR; try discriminate.
            -- destruct (run_vacts narrow widen o acts st3 r3) as [[t2 oc2] f2] eqn:H2.
               intros H. assert (oc2 = Raise se st' p) by congruence. assert (Hfl : f1 || f2 = false) by congruence. subst oc2.
               apply orb_false_elim in Hfl. destruct Hfl as [-> ->].
               destruct (Svact a Hf1 (qkey_of_skey key) (set_key st (Some key)) r1 t1 st2 r2
                 (fun t1 cst2 p2 => c_reset_key cst2 p2 (fun cst3 p3 => c_vacts n acts cst3 p3 (fun t2 cst4 p4 => k (t1 ++ t2) cst4 p4)))
                 Hs S1 H1) as [E2 [S2 O2]].
               change (cs_of (set_key st (Some key))) with (c_set_key (cs_of st) (Some key)) in E2.
               destruct (reset_key_sim st2 r2 st3 r3 (fun cst3 p3 => c_vacts n acts cst3 p3 (fun t2 cst4 p4 => k (t1 ++ t2) cst4 p4)) S2 HR) as [E3 [S3 O3]].
               unfold EC. rewrite E1, E2, E3.
               apply (IHl Hf2 st3 r3 t2 se st' p _); [rewrite O3; exact O2 | exact S3 | exact H2].
            -- intros H. assert (se = e) by congruence. assert (f1 = false) by congruence. subst se f1.
               destruct (Svact a Hf1 (qkey_of_skey key) (set_key st (Some key)) r1 t1 st2 r2
                 (fun t1 cst2 p2 => c_reset_key cst2 p2 (fun cst3 p3 => c_vacts n acts cst3 p3 (fun t2 cst4 p4 => k (t1 ++ t2) cst4 p4)))
                 Hs S1 H1) as [E2 [S2 O2]].
               change (cs_of (set_key st (Some key))) with (c_set_key (cs_of st) (Some key)) in E2.
               unfold EC. rewrite E1, E2. exact (reset_fail st2 r2 e s p0 (pos r2) _ HR).
          * intros H. rewrite H in H1. unfold EC. rewrite E1.
            exact (IHa Hf1 (qkey_of_skey key) (set_key st (Some key)) r1 toks se st' p _ Hs S1 H1).
        + intros H. assert (se = SE e) by (destruct cl0; congruence). subst se. exact (read_key_fail d e cl0 _ HK1).
    Qed.

    (* the root scope's run before finish_root *)
    Definition obj_root_res (h : reqs) : res unit :=
      match read_map_size o data with
      | ROk sz body => with_child (after_child_obj (fun u : unit => u) tt) (run_reqs narrow widen o h (mkO body sz 0 None) body)
      | RNot r => ([KNone], Go tt r, false)
      | RErr e => ([], raise_typed e tt data, false)
      | RFuel => ([], NoFuel, false)
      end.
    Definition arr_root_res (h : areqs) : res unit :=
      match read_array_size o data with
      | ROk sz body => with_child (after_child_arr (fun u : unit => u) tt) (run_areqs narrow widen o h (mkA sz 0) body)
      | RNot r => ([KNone], Go tt r, false)
      | RErr e => ([], raise_typed e tt data, false)
      | RFuel => ([], NoFuel, false)
      end.

    Lemma obj_root_res_final h : run_obj_root narrow widen o data h = finish_root (obj_root_res h).
    Proof. unfold run_obj_root, obj_root_res. destruct (read_map_size o data); reflexivity. Qed.
    Lemma arr_root_res_final h : run_arr_root narrow widen o data h = finish_root (arr_root_res h).
    Proof. unfold run_arr_root, arr_root_res. destruct (read_array_size o data); reflexivity. Qed.

    Lemma EC_run se c : EC se c data ->
      snd (SM.str_client_run narrow widen data o c) = Some None \/
      exists e tr op, se = SE e /\ SM.str_client_run narrow widen data o c = (tr ++ [(op, SM.AErrOf e)], None).
    Proof.
      intros [E | [e [-> E]]]; pose proof (SND_spec c [] data) as SP0; rewrite E in SP0; unfold SM.str_client_run.
      - left. exact SP0.
      - right. destruct SP0 as [tr [op E0]]. exists e, tr, op. split; [reflexivity | exact E0].
    Qed.

    Lemma scope_client_fail n h toks se u p : (length data < n)%nat -> frag_reqs h = true ->
      obj_root_res h = (toks, Raise se u p, false) -> EC se (scope_client n h) data.
    Proof.
      intros Hn Hf H. destruct (programs_fail n Hn) as [_ [Fr _]].
      exact (obj_child_fail n h (fun u : unit => u) tt tt u data toks se p _ Hn (Fr h) Hf (SP.suffix_data data) H).
    Qed.

    Lemma scope_client_arr_fail n h toks se u p : (length data < n)%nat -> frag_areqs h = true ->
      arr_root_res h = (toks, Raise se u p, false) -> EC se (scope_client_arr n h) data.
    Proof.
      intros Hn Hf H. destruct (programs_fail n Hn) as [_ [_ [_ [Fa _]]]].
      exact (arr_child_fail n h (fun u : unit => u) tt tt u data toks se p _ Hn (Fa h) Hf (SP.suffix_data data) H).
    Qed.

    (* the client form and the direct model coincide *)
    Lemma scope_client_run n h toks rest : (length data < n)%nat -> frag_reqs h = true ->
      run_obj_root narrow widen o data h = Done toks rest false ->
      snd (SM.str_client_run narrow widen data o (scope_client n h)) = Some (Some (toks, pos rest, false)).
    Proof.
      intros Hn Hf Hrun. unfold SM.str_client_run.
      pose proof (SND_spec (scope_client n h) [] data) as SP0.
      cut (SND (scope_client n h) data = ORet (Some (toks, pos rest, false))); [intros E0; rewrite E0 in SP0; exact SP0|]. clear SP0.
      destruct (programs_sim n Hn) as [_ [Hreqs _]].
      assert (HW : match read_map_size o data with
                   | ROk sz r2 => with_child (after_child_obj (fun u : unit => u) tt) (run_reqs narrow widen o h (mkO r2 sz 0 None) r2)
                   | RNot r2 => ([KNone], Go tt r2, false)
                   | RErr e => ([], raise_typed e tt data, false)
                   | RFuel => ([], NoFuel, false)
                   end = (toks, Go tt rest, false)).
      { unfold run_obj_root in Hrun. destruct (read_map_size o data) as [sz body|r|e|]; try discriminate.
        - destruct (with_child (after_child_obj (fun u : unit => u) tt) (run_reqs narrow widen o h (mkO body sz 0 None) body)) as [[t oc] fl].
          destruct oc as [[] r|e u p| |]; cbn [finish_root] in Hrun; try discriminate. injection Hrun as -> -> ->. reflexivity.
        - injection Hrun as <- <-. reflexivity. }
      destruct (obj_child_sim n h (fun u : unit => u) tt tt tt data toks rest
        (fun toks p4 => SM.CRet (Some (toks, p4, false))) Hn (Hreqs h) Hf (SP.suffix_data data) HW) as [_ [E2 _]].
      unfold scope_client. rewrite E2. reflexivity.
    Qed.
    Lemma scope_client_arr_run n h toks rest : (length data < n)%nat -> frag_areqs h = true ->
      run_arr_root narrow widen o data h = Done toks rest false ->
      snd (SM.str_client_run narrow widen data o (scope_client_arr n h)) = Some (Some (toks, pos rest, false)).
    Proof.
      intros Hn Hf Hrun. unfold SM.str_client_run.
      pose proof (SND_spec (scope_client_arr n h) [] data) as SP0.
      cut (SND (scope_client_arr n h) data = ORet (Some (toks, pos rest, false))); [intros E0; rewrite E0 in SP0; exact SP0|]. clear SP0.
      destruct (programs_sim n Hn) as [_ [_ [_ [Hareqs _]]]].
      assert (HW : match read_array_size o data with
                   | ROk sz r2 => with_child (after_child_arr (fun u : unit => u) tt) (run_areqs narrow widen o h (mkA sz 0) r2)
                   | RNot r2 => ([KNone], Go tt r2, false)
                   | RErr e => ([], raise_typed e tt data, false)
                   | RFuel => ([], NoFuel, false)
                   end = (toks, Go tt rest, false)).
      { unfold run_arr_root in Hrun. destruct (read_array_size o data) as [sz body|r|e|]; try discriminate.
        - destruct (with_child (after_child_arr (fun u : unit => u) tt) (run_areqs narrow widen o h (mkA sz 0) body)) as [[t oc] fl].
          destruct oc as [[] r|e u p| |]; cbn [finish_root] in Hrun; try discriminate. injection Hrun as -> -> ->. reflexivity.
        - injection Hrun as <- <-. reflexivity. }
      destruct (arr_child_sim n h (fun u : unit => u) tt tt tt data toks rest
        (fun toks p4 => SM.CRet (Some (toks, p4, false))) Hn (Hareqs h) Hf (SP.suffix_data data) HW) as [_ [E2 _]].
      unfold scope_client_arr. rewrite E2. reflexivity.
    Qed.
  End WithReader.

  (* ---------- every seek lies inside the data ---------- *)
  Lemma OKS_fail d : OKS fail d.
  Proof. reflexivity. Qed.

  Lemma OKS_ccall op k d : SM.rop_ok data op = true ->
    (forall v r, OKS (k (SM.AOkAt v (pos r))) r) -> (forall r, OKS (k (SM.ANotAt (pos r))) r) -> OKS (SM.CCall op k) d.
  Proof.
    intros H1 H2 H3. unfold OKS. cbn [SM.client_seeks_ok]. rewrite H1. cbn [andb].
    destruct (SM.str_op narrow widen data o op d); try reflexivity; [apply H2 | apply H3].
  Qed.

  Lemma OKS_call op k nk d : SM.rop_ok data op = true ->
    (forall v p d', Lpos p -> OKS (k v p) d') -> (forall p d', Lpos p -> OKS (nk p) d') -> OKS (call op k nk) d.
  Proof.
    intros H1 H2 H3. unfold call. apply OKS_ccall; [exact H1 | |]; intros; [apply H2 | apply H3]; apply pos_le.
  Qed.

  Lemma oks_skip k d : (forall p d', Lpos p -> OKS (k p) d') -> OKS (c_skip k) d.
  Proof. intros H. unfold c_skip. apply OKS_call; [reflexivity | |]; intros; [apply H; assumption | apply OKS_fail]. Qed.

  Lemma oks_read_key k d : (forall key p d', Lpos p -> OKS (k key p) d') -> OKS (c_read_key k) d.
  Proof.
    intros H. unfold c_read_key. apply OKS_call; [reflexivity | | intros; apply OKS_fail].
    intros v p d' _. destruct v; try apply OKS_fail. destruct t; try apply OKS_fail;
      (apply OKS_call; [reflexivity | | intros; apply OKS_fail]; intros v p0 d0 Hp; destruct v; try apply OKS_fail; apply H; exact Hp).
  Qed.

  Lemma oks_reset cst p k d : Lpos p -> (forall cst' p' d', c_start cst' = c_start cst -> Lpos p' -> OKS (k cst' p') d') ->
    OKS (c_reset_key cst p k) d.
  Proof.
    intros Hp H. unfold c_reset_key. destruct (c_key cst).
    - apply oks_skip. intros p' d' Hp'. apply H; [reflexivity | exact Hp'].
    - apply H; [reflexivity | exact Hp].
  Qed.

  Lemma oks_seek_if b tg p k d : Lpos tg -> Lpos p -> (forall p' d', Lpos p' -> OKS (k p') d') -> OKS (c_seek_if b tg p k) d.
  Proof.
    intros Ht Hp H. unfold c_seek_if. destruct b; [|apply H; exact Hp].
    apply OKS_ccall; [cbn [SM.rop_ok]; apply N.leb_le; exact Ht | | intros; apply OKS_fail].
    intros v r. apply H. apply pos_le.
  Qed.

  Lemma oks_find_loop : forall f q c cst p kf d, Lpos (c_start cst) -> Lpos p ->
    (forall b cst' p' d', c_start cst' = c_start cst -> Lpos p' -> OKS (kf b cst' p') d') ->
    OKS (c_find_loop f q c cst p kf) d.
  Proof.
    induction f as [|f IH]; intros q c cst p kf d Hc Hp H; [apply OKS_fail|].
    cbn [c_find_loop]. destruct (c <? c_size cst); [|apply H; [reflexivity | exact Hp]].
    apply oks_seek_if; [exact Hc | exact Hp |]. intros _ d1 _.
    assert (E : c_start (if c_index cst =? c_size cst then c_set_index cst 0 else cst) = c_start cst) by (destruct (c_index cst =? c_size cst); reflexivity).
    apply oks_read_key. intros key p2 d2 Hp2. destruct (skey_eq key q).
    - apply H; [cbn [c_set_key c_start]; exact E | exact Hp2].
    - apply oks_skip. intros p3 d3 Hp3. apply IH; [cbn [c_set_index c_set_key c_start]; rewrite E; exact Hc | exact Hp3 |].
      intros b cst' p' d' Hs Hp'. apply H; [rewrite Hs; cbn [c_set_index c_set_key c_start]; exact E | exact Hp'].
  Qed.

  Lemma oks_find n q cst p kf d : Lpos (c_start cst) -> Lpos p ->
    (forall b cst' p' d', c_start cst' = c_start cst -> Lpos p' -> OKS (kf b cst' p') d') ->
    OKS (c_find n q cst p kf) d.
  Proof.
    intros Hc Hp H. unfold c_find. destruct (c_key cst) as [k|] eqn:Hk.
    - destruct (skey_eq k q); [apply H; [reflexivity | exact Hp]|].
      apply oks_reset; [exact Hp|]. intros cst' p' d' Hs Hp'. apply oks_find_loop; [rewrite Hs; exact Hc | exact Hp' |].
      intros b cst2 p2 d2 Hs2 Hp2. apply H; [congruence | exact Hp2].
    - apply oks_find_loop; assumption.
  Qed.

  Lemma oks_read_target t k d : (forall tk p d', Lpos p -> OKS (k tk p) d') -> OKS (c_read_target t k) d.
  Proof.
    intros H. unfold c_read_target. apply OKS_call; [destruct t; reflexivity | |].
    - intros v p d' Hp. destruct (value_of t v); [apply H; exact Hp | apply OKS_fail].
    - intros p d' Hp. apply H; exact Hp.
  Qed.

  Lemma oks_close_loop : forall f c size p k d, Lpos p -> (forall p' d', Lpos p' -> OKS (k p') d') -> OKS (c_close_loop f c size p k) d.
  Proof.
    induction f as [|f IH]; intros c size p k d Hp H; [apply OKS_fail|].
    cbn [c_close_loop]. destruct (c <? size); [|apply H; exact Hp].
    apply oks_skip. intros _ d1 _. apply oks_skip. intros p2 d2 Hp2. apply IH; assumption.
  Qed.

  Lemma oks_close_obj n cst p k d : Lpos p -> (forall p' d', Lpos p' -> OKS (k p') d') -> OKS (c_close_obj n cst p k) d.
  Proof.
    intros Hp H. unfold c_close_obj. apply oks_reset; [exact Hp|]. intros cst' p' d' _ Hp'. apply oks_close_loop; assumption.
  Qed.

  Lemma oks_arr_close_loop : forall f idx size p k d, Lpos p -> (forall p' d', Lpos p' -> OKS (k p') d') -> OKS (c_arr_close_loop f idx size p k) d.
  Proof.
    induction f as [|f IH]; intros idx size p k d Hp H; [apply OKS_fail|].
    cbn [c_arr_close_loop]. destruct (idx <? size); [|apply H; exact Hp].
    apply oks_skip. intros p2 d2 Hp2. apply IH; assumption.
  Qed.

  Lemma oks_close_arr n ast p k d : Lpos p -> (forall p' d', Lpos p' -> OKS (k p') d') -> OKS (c_close_arr n ast p k) d.
  Proof. intros Hp H. unfold c_close_arr. apply oks_arr_close_loop; assumption. Qed.

  Lemma oks_visit_loop : forall f cst p acc k d, Lpos p ->
    (forall toks cst' p' d', c_start cst' = c_start cst -> Lpos p' -> OKS (k toks cst' p') d') ->
    OKS (c_visit_loop f cst p acc k) d.
  Proof.
    induction f as [|f IH]; intros cst p acc k d Hp H; [apply OKS_fail|].
    cbn [c_visit_loop]. destruct (c_index cst <? c_size cst); [|apply H; [reflexivity | exact Hp]].
    apply oks_read_key. intros key p1 d1 Hp1. apply oks_reset; [exact Hp1|].
    intros cst2 p2 d2 Hs2 Hp2. apply IH; [exact Hp2|]. intros toks cst' p' d' Hs' Hp'. apply H; [|exact Hp'].
    rewrite Hs', Hs2. reflexivity.
  Qed.

  Lemma oks_bin_reads : forall cnt ast p k d, Lpos p -> (forall toks ast' p' d', Lpos p' -> OKS (k toks ast' p') d') -> OKS (c_bin_reads cnt ast p k) d.
  Proof.
    induction cnt as [|m IH]; intros ast p k d Hp H; cbn [c_bin_reads]; [apply H; exact Hp|].
    destruct (a_index ast =? a_size ast); [apply OKS_fail|].
    apply OKS_call; [reflexivity | | intros; apply OKS_fail].
    intros v p' d' Hp'. destruct v; try apply OKS_fail. apply IH; [exact Hp'|]. intros; apply H; assumption.
  Qed.

  Lemma oks_bin_close_loop : forall f idx size p k d, Lpos p -> (forall p' d', Lpos p' -> OKS (k p') d') -> OKS (c_bin_close_loop f idx size p k) d.
  Proof.
    induction f as [|f IH]; intros idx size p k d Hp H; [apply OKS_fail|].
    cbn [c_bin_close_loop]. destruct (idx <? size); [|apply H; exact Hp].
    apply OKS_call; [reflexivity | | intros; apply OKS_fail]. intros v p' d' Hp'. apply IH; assumption.
  Qed.

  Lemma oks_bin_open n cnt kopen knot kother d : (forall toks p' d', Lpos p' -> OKS (kopen toks p') d') ->
    (forall p' d', Lpos p' -> OKS (knot p') d') -> (forall d', OKS kother d') -> OKS (c_bin_open n cnt kopen knot kother) d.
  Proof.
    intros H1 H2 H3. unfold c_bin_open. apply OKS_call; [reflexivity | | intros; apply OKS_fail].
    intros v p1 d1 _. destruct v; try apply OKS_fail. destruct t; try apply H3.
    apply OKS_call; [reflexivity | |].
    - intros v2 p2 d2 Hp2. destruct v2; try apply OKS_fail. apply oks_bin_reads; [exact Hp2|].
      intros toks bast p3 d3 Hp3. unfold c_close_bin. apply oks_bin_close_loop; [exact Hp3|]. intros p4 d4 Hp4. apply H1; exact Hp4.
    - intros p2 d2 Hp2. apply H2; exact Hp2.
  Qed.

  Lemma oks_do_bin_gen n cnt q cst p k kdecl d : Lpos (c_start cst) -> Lpos p ->
    (forall toks cst' p' d', Lpos (c_start cst') -> Lpos p' -> OKS (k toks cst' p') d') ->
    (forall toks cst' p' d', Lpos (c_start cst') -> Lpos p' -> OKS (kdecl toks cst' p') d') ->
    OKS (c_do_bin_gen n cnt q cst p k kdecl) d.
  Proof.
    intros Hc Hp H1 H2. unfold c_do_bin_gen. apply oks_find; [exact Hc | exact Hp |].
    intros b cst' p' d' Hs Hp'. destruct b.
    - apply oks_bin_open.
      + intros toks p4 d4 Hp4. apply H1; [cbn [c_on_finish c_start]; rewrite Hs; exact Hc | exact Hp4].
      + intros p2 d2 Hp2. apply H2; [cbn [c_on_finish c_start]; rewrite Hs; exact Hc | exact Hp2].
      + intros d2. apply H2; [rewrite Hs; exact Hc | exact Hp'].
    - apply H2; [rewrite Hs; exact Hc | exact Hp'].
  Qed.

  Definition req_oks (n : nat) (r : req) : Prop :=
    forall cst p k d, Lpos (c_start cst) -> Lpos p ->
    (forall toks cst' p' d', Lpos (c_start cst') -> Lpos p' -> OKS (k toks cst' p') d') -> OKS (c_req n r cst p k) d.
  Definition reqs_oks (n : nat) (l : reqs) : Prop :=
    forall cst p k d, Lpos (c_start cst) -> Lpos p ->
    (forall toks cst' p' d', Lpos (c_start cst') -> Lpos p' -> OKS (k toks cst' p') d') -> OKS (c_reqs n l cst p k) d.
  Definition areq_oks (n : nat) (a : areq) : Prop :=
    forall ast p k d, Lpos p ->
    (forall toks ast' p' d', Lpos p' -> OKS (k toks ast' p') d') -> OKS (c_areq n a ast p k) d.
  Definition areqs_oks (n : nat) (l : areqs) : Prop :=
    forall ast p k d, Lpos p ->
    (forall toks ast' p' d', Lpos p' -> OKS (k toks ast' p') d') -> OKS (c_areqs n l ast p k) d.
  Definition vact_oks (n : nat) (a : vact) : Prop :=
    forall q cst p k d, Lpos (c_start cst) -> Lpos p ->
    (forall toks cst' p' d', Lpos (c_start cst') -> Lpos p' -> OKS (k toks cst' p') d') -> OKS (c_vact n a q cst p k) d.
  Definition vacts_oks (n : nat) (l : vacts) : Prop :=
    forall cst p k d, Lpos (c_start cst) -> Lpos p ->
    (forall toks cst' p' d', Lpos (c_start cst') -> Lpos p' -> OKS (k toks cst' p') d') -> OKS (c_vacts n l cst p k) d.

  Lemma oks_obj_child n body kk d : reqs_oks n body -> (forall toks p' d', Lpos p' -> OKS (kk toks p') d') ->
    OKS (c_obj_child n (c_reqs n body) kk) d.
  Proof.
    intros IHb H. unfold c_obj_child. apply OKS_call; [reflexivity | |].
    - intros v p2 d2 Hp2. destruct v; try apply OKS_fail.
      apply IHb; [exact Hp2 | exact Hp2 |]. intros toks ccst p3 d3 _ Hp3.
      apply oks_close_obj; [exact Hp3|]. intros p4 d4 Hp4. apply H; exact Hp4.
    - intros p2 d2 Hp2. apply H; exact Hp2.
  Qed.

  Lemma oks_arr_child n body kk d : areqs_oks n body -> (forall toks p' d', Lpos p' -> OKS (kk toks p') d') ->
    OKS (c_arr_child n (c_areqs n body) kk) d.
  Proof.
    intros IHb H. unfold c_arr_child. apply OKS_call; [reflexivity | |].
    - intros v p2 d2 Hp2. destruct v; try apply OKS_fail.
      apply IHb; [exact Hp2 |]. intros toks cast p3 d3 Hp3.
      apply oks_close_arr; [exact Hp3|]. intros p4 d4 Hp4. apply H; exact Hp4.
    - intros p2 d2 Hp2. apply H; exact Hp2.
  Qed.

  Lemma oks_do_get n q t cst p k d : Lpos (c_start cst) -> Lpos p ->
    (forall toks cst' p' d', Lpos (c_start cst') -> Lpos p' -> OKS (k toks cst' p') d') -> OKS (c_do_get n q t cst p k) d.
  Proof.
    intros Hc Hp H. unfold c_do_get. apply oks_find; [exact Hc | exact Hp |].
    intros b cst' p' d' Hs Hp'. destruct b.
    - apply oks_read_target. intros tk p2 d2 Hp2. apply H; [cbn [c_on_finish c_start]; rewrite Hs; exact Hc | exact Hp2].
    - apply H; [rewrite Hs; exact Hc | exact Hp'].
  Qed.

  Lemma oks_do_obj n body q cst p k d : reqs_oks n body -> Lpos (c_start cst) -> Lpos p ->
    (forall toks cst' p' d', Lpos (c_start cst') -> Lpos p' -> OKS (k toks cst' p') d') -> OKS (c_do_obj n (c_reqs n body) q cst p k) d.
  Proof.
    intros IHb Hc Hp H. unfold c_do_obj. apply oks_find; [exact Hc | exact Hp |].
    intros b cst' p' d' Hs Hp'. destruct b.
    - apply (oks_obj_child n body (fun toks p4 => k toks (c_on_finish cst') p4) d' IHb).
      intros toks p4 d4 Hp4. apply H; [cbn [c_on_finish c_start]; rewrite Hs; exact Hc | exact Hp4].
    - apply H; [rewrite Hs; exact Hc | exact Hp'].
  Qed.

  Lemma oks_do_arr n body q cst p k d : areqs_oks n body -> Lpos (c_start cst) -> Lpos p ->
    (forall toks cst' p' d', Lpos (c_start cst') -> Lpos p' -> OKS (k toks cst' p') d') -> OKS (c_do_arr n (c_areqs n body) q cst p k) d.
  Proof.
    intros IHb Hc Hp H. unfold c_do_arr. apply oks_find; [exact Hc | exact Hp |].
    intros b cst' p' d' Hs Hp'. destruct b.
    - apply (oks_arr_child n body (fun toks p4 => k toks (c_on_finish cst') p4) d' IHb).
      intros toks p4 d4 Hp4. apply H; [cbn [c_on_finish c_start]; rewrite Hs; exact Hc | exact Hp4].
    - apply H; [rewrite Hs; exact Hc | exact Hp'].
  Qed.

  Lemma programs_oks n : (forall r, req_oks n r) /\ (forall l, reqs_oks n l) /\ (forall a, areq_oks n a) /\ (forall l, areqs_oks n l)
                 /\ (forall a, vact_oks n a) /\ (forall l, vacts_oks n l).
  Proof.
    apply program_mutind;
      try (intros; intros cst p k d _ _ _; apply OKS_fail); try (intros; intros ast p k d _ _; apply OKS_fail);
      try (intros; intros q cst p k d _ _ _; apply OKS_fail).
    - (* RGet *) intros q t cst p k d. apply oks_do_get.
    - (* RObj *) intros q body IHb cst p k d. apply (oks_do_obj n body q cst p k d IHb).
    - (* RArr *) intros q body IHb cst p k d. apply (oks_do_arr n body q cst p k d IHb).
    - (* RBin *)
      intros q cnt cst p k d Hc Hp H. change (c_req n (RBin q cnt) cst p k) with (c_do_bin_gen n cnt q cst p k k).
      apply oks_do_bin_gen; assumption.
    - (* RVisit *)
      intros cst p k d Hc Hp H. cbn [c_req]. apply oks_reset; [exact Hp|]. intros cst1 p1 d1 Hs1 Hp1.
      apply oks_seek_if; [rewrite Hs1; exact Hc | exact Hp1 |]. intros p' d' Hp'.
      apply oks_visit_loop; [exact Hp'|]. intros toks cst' p2 d2 Hs2 Hp2. apply H; [|exact Hp2].
      rewrite Hs2. cbn [c_set_index c_start]. rewrite Hs1. exact Hc.
    - (* REach *)
      intros acts IHa cst p k d Hc Hp H.
      change (c_req n (REach acts) cst p k) with
        (c_reset_key cst p (fun cst1 p1 =>
          c_seek_if true (c_start cst1) p1 (fun p' => c_vacts n acts (c_set_index cst1 0) p' k))).
      apply oks_reset; [exact Hp|]. intros cst1 p1 d1 Hs1 Hp1.
      apply oks_seek_if; [rewrite Hs1; exact Hc | exact Hp1 |]. intros p' d' Hp'.
      apply IHa; [cbn [c_set_index c_start]; rewrite Hs1; exact Hc | exact Hp' | exact H].
    - (* RNil *)
      intros cst p k d Hc Hp H. cbn [c_reqs]. apply H; assumption.
    - (* RCons *)
      intros r IHr l IHl cst p k d Hc Hp H.
      change (c_reqs n (RCons r l) cst p k) with
        (c_req n r cst p (fun t1 cst1 p1 => c_reqs n l cst1 p1 (fun t2 cst2 p2 => k (t1 ++ t2) cst2 p2))).
      apply IHr; [exact Hc | exact Hp |]. intros t1 cst1 p1 d1 Hc1 Hp1.
      apply IHl; [exact Hc1 | exact Hp1 |]. intros t2 cst2 p2 d2 Hc2 Hp2. apply H; assumption.
    - (* AGet *)
      intros t ast p k d Hp H. cbn [c_areq]. destruct (a_index ast =? a_size ast); [apply OKS_fail|].
      apply oks_read_target. intros tk p2 d2 Hp2. apply H; exact Hp2.
    - (* AObj *)
      intros body IHb ast p k d Hp H.
      change (c_areq n (AObj body) ast p k) with
        (if a_index ast =? a_size ast then fail
         else c_obj_child n (c_reqs n body) (fun toks p4 => k toks (mkA (a_size ast) (a_index ast + 1)) p4)).
      destruct (a_index ast =? a_size ast); [apply OKS_fail|].
      apply (oks_obj_child n body (fun toks p4 => k toks (mkA (a_size ast) (a_index ast + 1)) p4) d IHb). intros toks p4 d4 Hp4. apply H; exact Hp4.
    - (* AArr *)
      intros body IHb ast p k d Hp H.
      change (c_areq n (AArr body) ast p k) with
        (if a_index ast =? a_size ast then fail
         else c_arr_child n (c_areqs n body) (fun toks p4 => k toks (mkA (a_size ast) (a_index ast + 1)) p4)).
      destruct (a_index ast =? a_size ast); [apply OKS_fail|].
      apply (oks_arr_child n body (fun toks p4 => k toks (mkA (a_size ast) (a_index ast + 1)) p4) d IHb). intros toks p4 d4 Hp4. apply H; exact Hp4.
    - (* ABin *)
      intros cnt ast p k d Hp H.
      change (c_areq n (ABin cnt) ast p k) with
        (if a_index ast =? a_size ast then fail
         else c_bin_open n cnt (fun toks p4 => k toks (mkA (a_size ast) (a_index ast + 1)) p4)
                (fun p2 => k [KNone] (mkA (a_size ast) (a_index ast + 1)) p2) (k [KNone] ast p)).
      destruct (a_index ast =? a_size ast); [apply OKS_fail|].
      apply oks_bin_open; [intros; apply H; assumption | intros; apply H; assumption | intros; apply H; exact Hp].
    - (* AEnd *)
      intros ast p k d Hp H. cbn [c_areq]. apply H; exact Hp.
    - (* ATry *)
      intros a _ ast p k d Hp H. destruct a; try apply OKS_fail.
      change (c_areq n (ATry (AGet t)) ast p k) with
        (if a_index ast =? a_size ast then k [KCaught] ast p
         else c_read_target t (fun tk p2 => k [tk] (mkA (a_size ast) (a_index ast + 1)) p2)).
      destruct (a_index ast =? a_size ast); [apply H; exact Hp|].
      apply oks_read_target. intros tk p2 d2 Hp2. apply H; exact Hp2.
    - (* ANil *)
      intros ast p k d Hp H. cbn [c_areqs]. apply H; exact Hp.
    - (* ACons *)
      intros a IHa l IHl ast p k d Hp H.
      change (c_areqs n (ACons a l) ast p k) with
        (c_areq n a ast p (fun t1 ast1 p1 => c_areqs n l ast1 p1 (fun t2 ast2 p2 => k (t1 ++ t2) ast2 p2))).
      apply IHa; [exact Hp |]. intros t1 ast1 p1 d1 Hp1.
      apply IHl; [exact Hp1 |]. intros t2 ast2 p2 d2 Hp2. apply H; assumption.
    - (* VSkip *)
      intros q cst p k d Hc Hp H. cbn [c_vact]. apply H; assumption.
    - (* VGet *) intros t q cst p k d. apply oks_do_get.
    - (* VObj *) intros body IHb q cst p k d. apply (oks_do_obj n body q cst p k d IHb).
    - (* VArr *) intros body IHb q cst p k d. apply (oks_do_arr n body q cst p k d IHb).
    - (* VBin *)
      intros cnt q cst p k d Hc Hp H. change (c_vact n (VBin cnt) q cst p k) with (c_do_bin_gen n cnt q cst p k k).
      apply oks_do_bin_gen; assumption.
    - (* VBinArr *)
      intros cnt body IHb q cst p k d Hc Hp H.
      change (c_vact n (VBinArr cnt body) q cst p k) with
        (c_do_bin_gen n cnt q cst p k
           (fun t1 cst1 p1 => c_do_arr n (c_areqs n body) q cst1 p1 (fun t2 cst2 p2 => k (t1 ++ t2) cst2 p2))).
      apply oks_do_bin_gen; [exact Hc | exact Hp | exact H |].
      intros t1 cst1 p1 d1 Hc1 Hp1. apply (oks_do_arr n body q cst1 p1 _ d1 IHb Hc1 Hp1).
      intros t2 cst2 p2 d2 Hc2 Hp2. apply H; assumption.
    - (* VANil *)
      intros cst p k d Hc Hp H. cbn [c_vacts]. apply oks_visit_loop; [exact Hp|].
      intros toks cst' p' d' Hs' Hp'. apply H; [rewrite Hs'; exact Hc | exact Hp'].
    - (* VACons *)
      intros a IHa acts IHl cst p k d Hc Hp H.
      change (c_vacts n (VACons a acts) cst p k) with
        (if c_index cst <? c_size cst then
          c_read_key (fun key p1 =>
            c_vact n a (qkey_of_skey key) (c_set_key cst (Some key)) p1 (fun t1 cst2 p2 =>
              c_reset_key cst2 p2 (fun cst3 p3 =>
                c_vacts n acts cst3 p3 (fun t2 cst4 p4 => k (t1 ++ t2) cst4 p4))))
        else k [] cst p).
      destruct (c_index cst <? c_size cst); [|apply H; assumption].
      apply oks_read_key. intros key p1 d1 Hp1.
      apply IHa; [exact Hc | exact Hp1 |]. intros t1 cst2 p2 d2 Hc2 Hp2.
      apply oks_reset; [exact Hp2|]. intros cst3 p3 d3 Hs3 Hp3.
      apply IHl; [rewrite Hs3; exact Hc2 | exact Hp3 |]. intros t2 cst4 p4 d4 Hc4 Hp4. apply H; assumption.
  Qed.

  (* every SetPosition goes to an mStartPos, which is a GetPosition() answer: inside the data, whatever the data *)
  Lemma scope_client_seeks_ok n h d : SM.client_seeks_ok narrow widen data o (scope_client n h) d = true.
  Proof.
    change (OKS (scope_client n h) d). unfold scope_client.
    destruct (programs_oks n) as [_ [Hq _]].
    apply (oks_obj_child n h (fun toks p4 => SM.CRet (Some (toks, p4, false))) d (Hq h)). intros; reflexivity.
  Qed.
  Lemma scope_client_arr_seeks_ok n h d : SM.client_seeks_ok narrow widen data o (scope_client_arr n h) d = true.
  Proof.
    change (OKS (scope_client_arr n h) d). unfold scope_client_arr.
    destruct (programs_oks n) as [_ [_ [_ [Hq _]]]].
    apply (oks_arr_child n h (fun toks p4 => SM.CRet (Some (toks, p4, false))) d (Hq h)). intros; reflexivity.
  Qed.
End ClientProofs.
