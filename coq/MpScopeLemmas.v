(* MpScopeLemmas.v — facts about the reference decoder and the reader model that the scope proofs
   use as their interface: the decoder does not depend on its fuel, what it leaves is a suffix,
   member / element layouts of decoded maps and arrays, ReadValueType on a decoded value, the typed
   reads against typed_spec, the timestamp read, key equality. *)
From BS Require Import Base MpSpec MpModel MpLemmas MpReader MpTyped MpScopeSpec MpScopeModel.
From Coq Require Import ZifyBool ZifyN ZifyNat.
Local Open Scope N_scope.
Ltac Zify.zify_post_hook ::= Z.div_mod_to_equations.

Definition byte (b : N) : Prop := b < 256.
Definition bytes (d : list N) : Prop := Forall byte d.

(* ---------- the decoder does not depend on its fuel ---------- *)
Lemma rep_indep {A} (s1 s2 : list N -> option (A * list N)) (L : nat) :
  (forall d, (length d <= L)%nat -> s1 d = s2 d) ->
  (forall d v r, s1 d = Some (v, r) -> (length r < length d)%nat) ->
  forall g1 g2 cnt d, (length d <= L)%nat -> (length d < g1)%nat -> (length d < g2)%nat ->
  rep s1 g1 cnt d = rep s2 g2 cnt d.
Proof.
  intros Heq Hprog. induction g1 as [|g1 IH]; intros g2 cnt d HL H1 H2; [lia|].
  destruct g2 as [|g2]; [lia|]. cbn [rep]. destruct (cnt =? 0); [reflexivity|].
  rewrite <- (Heq d HL). destruct (s1 d) as [[v r]|] eqn:E; [|reflexivity].
  apply Hprog in E. rewrite (IH g2 (cnt - 1) r) by lia. reflexivity.
Qed.

Lemma step_pair_eq {A} (s1 s2 : list N -> option (A * list N)) (L : nat) :
  (forall d, (length d <= L)%nat -> s1 d = s2 d) ->
  (forall d v r, s1 d = Some (v, r) -> (length r < length d)%nat) ->
  forall d, (length d <= L)%nat -> step_pair s1 d = step_pair s2 d.
Proof.
  intros Heq Hprog d HL. unfold step_pair. rewrite <- (Heq d HL).
  destruct (s1 d) as [[k r]|] eqn:E; [|reflexivity]. apply Hprog in E.
  rewrite <- (Heq r) by lia. reflexivity.
Qed.

Lemma step_pair_progress {A} (s : list N -> option (A * list N)) :
  (forall d v r, s d = Some (v, r) -> (length r < length d)%nat) ->
  forall d v r, step_pair s d = Some (v, r) -> (length r < length d)%nat.
Proof.
  intros Hs d v r H. unfold step_pair in H.
  destruct (s d) as [[k r1]|] eqn:E1; [|discriminate].
  destruct (s r1) as [[x r2]|] eqn:E2; [|discriminate].
  injection H as _ <-. apply Hs in E1. apply Hs in E2. lia.
Qed.

Lemma decode_by_indep f f' h d :
  (forall d', (length d' <= length d)%nat -> decode_ref f d' = decode_ref f' d') ->
  (length d < f)%nat -> (length d < f')%nat ->
  decode_by f h d = decode_by f' h d.
Proof.
  intros Heq Hf Hf'.
  assert (Hrep : forall cnt d', (length d' <= length d)%nat ->
            rep (decode_ref f) f cnt d' = rep (decode_ref f') f' cnt d').
  { intros cnt d' Hd'. apply (rep_indep _ _ (length d)); try lia; [exact Heq | apply decode_progress]. }
  assert (Hrep2 : forall cnt d', (length d' <= length d)%nat ->
            rep (step_pair (decode_ref f)) f cnt d' = rep (step_pair (decode_ref f')) f' cnt d').
  { intros cnt d' Hd'. apply (rep_indep _ _ (length d)); try lia.
    - intros d0 H0. apply (step_pair_eq _ _ (length d)); [exact Heq | apply decode_progress | exact H0].
    - apply step_pair_progress. apply decode_progress. }
  destruct h; cbn [decode_by]; try reflexivity.
  - rewrite Hrep by lia. reflexivity.
  - rewrite Hrep2 by lia. reflexivity.
  - unfold take_len. destruct (take klen d) as [[lb r]|] eqn:E; cbn [bind]; [|reflexivity].
    apply take_length in E. rewrite Hrep by lia. reflexivity.
  - unfold take_len. destruct (take klen d) as [[lb r]|] eqn:E; cbn [bind]; [|reflexivity].
    apply take_length in E. rewrite Hrep2 by lia. reflexivity.
Qed.

Lemma decode_fuel_indep : forall f f' d, (length d < f)%nat -> (length d < f')%nat ->
  decode_ref f d = decode_ref f' d.
Proof.
  induction f as [|f IH]; intros f' d Hf Hf'; [lia|].
  destruct f' as [|f']; [lia|].
  destruct d as [|b d]; [reflexivity|]. rewrite !decode_ref_by. cbn [length] in Hf, Hf'.
  apply decode_by_indep; try lia.
  intros d' Hd'. apply IH; lia.
Qed.

Lemma decode_of_ref f d v r : (length d < f)%nat -> decode_ref f d = Some (v, r) -> decode d = Some (v, r).
Proof. intros Hf H. unfold decode. rewrite <- H. apply decode_fuel_indep; lia. Qed.

(* ---------- what the decoder leaves is a suffix of its input ---------- *)
Definition suffix_of (r d : list N) : Prop := exists x, d = x ++ r.

Lemma suffix_refl d : suffix_of d d. Proof. exists []. reflexivity. Qed.
Lemma suffix_trans a b c : suffix_of a b -> suffix_of b c -> suffix_of a c.
Proof. intros [x ->] [y ->]. exists (y ++ x). apply app_assoc. Qed.
Lemma suffix_cons b r d : suffix_of r d -> suffix_of r (b :: d).
Proof. intros [x ->]. exists (b :: x). reflexivity. Qed.
Lemma take_suffix k d s r : take k d = Some (s, r) -> suffix_of r d.
Proof. intros H. apply take_some in H. destruct H as [-> _]. exists s. reflexivity. Qed.
Lemma suffix_bytes r d : suffix_of r d -> bytes d -> bytes r.
Proof. intros [x ->] H. apply Forall_app in H. apply H. Qed.

Lemma rep_suffix {A} (step : list N -> option (A * list N)) :
  (forall d v r, step d = Some (v, r) -> suffix_of r d) ->
  forall g cnt d vs r, rep step g cnt d = Some (vs, r) -> suffix_of r d.
Proof.
  intros Hs. induction g as [|g IH]; intros cnt d vs r H; cbn [rep] in H.
  - destruct (cnt =? 0); [injection H as _ <-; apply suffix_refl | discriminate].
  - destruct (cnt =? 0); [injection H as _ <-; apply suffix_refl|].
    destruct (step d) as [[v r1]|] eqn:E1; [|discriminate].
    destruct (rep step g (cnt - 1) r1) as [[vs' r2]|] eqn:E2; [|discriminate].
    injection H as _ <-. apply Hs in E1. apply IH in E2. eapply suffix_trans; eassumption.
Qed.

Lemma step_pair_suffix {A} (step : list N -> option (A * list N)) :
  (forall d v r, step d = Some (v, r) -> suffix_of r d) ->
  forall d v r, step_pair step d = Some (v, r) -> suffix_of r d.
Proof.
  intros Hs d v r H. unfold step_pair in H.
  destruct (step d) as [[k r1]|] eqn:E1; [|discriminate].
  destruct (step r1) as [[x r2]|] eqn:E2; [|discriminate].
  injection H as _ <-. apply Hs in E1. apply Hs in E2. eapply suffix_trans; eassumption.
Qed.

Ltac suffix_solve :=
  first [ assumption | apply suffix_refl
        | eapply suffix_trans; [eassumption|]; suffix_solve ].

Ltac take_cases_suffix :=
  repeat match goal with
  | H : context [take_len ?k ?d] |- _ => unfold take_len in H
  | H : context [match take ?k ?d with _ => _ end] |- _ =>
      let E := fresh "ET" in destruct (take k d) as [[? ?]|] eqn:E; cbn [bind] in H; [apply take_suffix in E|]
  | H : context [bind (take ?k ?d) _] |- _ =>
      let E := fresh "ET" in destruct (take k d) as [[? ?]|] eqn:E; cbn [bind] in H; [apply take_suffix in E|]
  end.

Lemma decode_by_suffix f :
  (forall d v r, decode_ref f d = Some (v, r) -> suffix_of r d) ->
  forall h d v r, decode_by f h d = Some (v, r) -> suffix_of r d.
Proof.
  intros IH h d v r H.
  pose proof (rep_suffix (decode_ref f) IH) as Hrep.
  pose proof (rep_suffix (step_pair (decode_ref f)) (step_pair_suffix _ IH)) as Hrep2.
  destruct h; cbn [decode_by] in H; unfold ext_dec in H; take_cases_suffix; try discriminate.
  all: try (injection H as _ <-; suffix_solve).
  all: repeat match goal with
       | H : context [bind (rep ?s ?g ?c ?dd) _] |- _ =>
           let E := fresh "ER" in destruct (rep s g c dd) as [[? ?]|] eqn:E; cbn [bind] in H; [|discriminate]
       end.
  all: try (injection H as _ <-).
  all: try (apply Hrep in ER; suffix_solve).
  all: try (apply Hrep2 in ER; suffix_solve).
Qed.

Lemma decode_ref_suffix f : forall d v r, decode_ref f d = Some (v, r) -> suffix_of r d.
Proof.
  induction f as [|f IH]; intros d v r H; [discriminate|].
  destruct d as [|b d]; [discriminate|]. rewrite decode_ref_by in H.
  apply decode_by_suffix in H; [apply suffix_cons; exact H | exact IH].
Qed.

Lemma decode_suffix d v r : decode d = Some (v, r) -> suffix_of r d.
Proof. apply decode_ref_suffix. Qed.

Lemma decode_bytes d v r : decode d = Some (v, r) -> bytes d -> bytes r.
Proof. intros H. apply suffix_bytes. eapply decode_suffix; eassumption. Qed.

Lemma decode_shorter d v r : decode d = Some (v, r) -> (length r < length d)%nat.
Proof. apply decode_progress. Qed.
