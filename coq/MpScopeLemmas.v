(* MpScopeLemmas.v — facts about the reference decoder and the reader model that the scope proofs
   use as their interface: the decoder does not depend on its fuel, what it leaves is a suffix,
   member / element layouts of decoded maps and arrays, ReadValueType on a decoded value, the typed
   reads against typed_spec, the timestamp read, key equality. *)
From BS Require Import Base MpSpec MpModel MpLemmas MpReader MpTyped MpScopeSpec MpScopeModel.
From Coq Require Import ZifyBool ZifyN ZifyNat.
Local Open Scope N_scope.
Ltac Zify.zify_post_hook ::= Z.div_mod_to_equations.

Definition byte (b : N) : Prop := b < 256.
Definition bytes (d : list N) : Prop := Forall byte d.

(* ---------- the decoder does not depend on its fuel ---------- *)
Lemma rep_indep {A} (s1 s2 : list N -> option (A * list N)) (L : nat) :
  (forall d, (length d <= L)%nat -> s1 d = s2 d) ->
  (forall d v r, s1 d = Some (v, r) -> (length r < length d)%nat) ->
  forall g1 g2 cnt d, (length d <= L)%nat -> (length d < g1)%nat -> (length d < g2)%nat ->
  rep s1 g1 cnt d = rep s2 g2 cnt d.
Proof.
  intros Heq Hprog. induction g1 as [|g1 IH]; intros g2 cnt d HL H1 H2; [lia|].
  destruct g2 as [|g2]; [lia|]. cbn [rep]. destruct (cnt =? 0); [reflexivity|].
  rewrite <- (Heq d HL). destruct (s1 d) as [[v r]|] eqn:E; [|reflexivity].
  apply Hprog in E. rewrite (IH g2 (cnt - 1) r) by lia. reflexivity.
Qed.

Lemma step_pair_eq {A} (s1 s2 : list N -> option (A * list N)) (L : nat) :
  (forall d, (length d <= L)%nat -> s1 d = s2 d) ->
  (forall d v r, s1 d = Some (v, r) -> (length r < length d)%nat) ->
  forall d, (length d <= L)%nat -> step_pair s1 d = step_pair s2 d.
Proof.
  intros Heq Hprog d HL. unfold step_pair. rewrite <- (Heq d HL).
  destruct (s1 d) as [[k r]|] eqn:E; [|reflexivity]. apply Hprog in E.
  rewrite <- (Heq r) by lia. reflexivity.
Qed.

Lemma step_pair_progress {A} (s : list N -> option (A * list N)) :
  (forall d v r, s d = Some (v, r) -> (length r < length d)%nat) ->
  forall d v r, step_pair s d = Some (v, r) -> (length r < length d)%nat.
Proof.
  intros Hs d v r H. unfold step_pair in H.
  destruct (s d) as [[k r1]|] eqn:E1; [|discriminate].
  destruct (s r1) as [[x r2]|] eqn:E2; [|discriminate].
  injection H as _ <-. apply Hs in E1. apply Hs in E2. lia.
Qed.

Lemma decode_by_indep f f' h d :
  (forall d', (length d' <= length d)%nat -> decode_ref f d' = decode_ref f' d') ->
  (length d < f)%nat -> (length d < f')%nat ->
  decode_by f h d = decode_by f' h d.
Proof.
  intros Heq Hf Hf'.
  assert (Hrep : forall cnt d', (length d' <= length d)%nat ->
            rep (decode_ref f) f cnt d' = rep (decode_ref f') f' cnt d').
  { intros cnt d' Hd'. apply (rep_indep _ _ (length d)); try lia; [exact Heq | apply decode_progress]. }
  assert (Hrep2 : forall cnt d', (length d' <= length d)%nat ->
            rep (step_pair (decode_ref f)) f cnt d' = rep (step_pair (decode_ref f')) f' cnt d').
  { intros cnt d' Hd'. apply (rep_indep _ _ (length d)); try lia.
    - intros d0 H0. apply (step_pair_eq _ _ (length d)); [exact Heq | apply decode_progress | exact H0].
    - apply step_pair_progress. apply decode_progress. }
  destruct h; cbn [decode_by]; try reflexivity.
  - rewrite Hrep by lia. reflexivity.
  - rewrite Hrep2 by lia. reflexivity.
  - unfold take_len. destruct (take klen d) as [[lb r]|] eqn:E; cbn [bind]; [|reflexivity].
    apply take_length in E. rewrite Hrep by lia. reflexivity.
  - unfold take_len. destruct (take klen d) as [[lb r]|] eqn:E; cbn [bind]; [|reflexivity].
    apply take_length in E. rewrite Hrep2 by lia. reflexivity.
Qed.

Lemma decode_fuel_indep : forall f f' d, (length d < f)%nat -> (length d < f')%nat ->
  decode_ref f d = decode_ref f' d.
Proof.
  induction f as [|f IH]; intros f' d Hf Hf'; [lia|].
  destruct f' as [|f']; [lia|].
  destruct d as [|b d]; [reflexivity|]. rewrite !decode_ref_by. cbn [length] in Hf, Hf'.
  apply decode_by_indep; try lia.
  intros d' Hd'. apply IH; lia.
Qed.

Lemma decode_of_ref f d v r : (length d < f)%nat -> decode_ref f d = Some (v, r) -> decode d = Some (v, r).
Proof. intros Hf H. unfold decode. rewrite <- H. apply decode_fuel_indep; lia. Qed.

(* ---------- what the decoder leaves is a suffix of its input ---------- *)
Definition suffix_of (r d : list N) : Prop := exists x, d = x ++ r.

Lemma suffix_refl d : suffix_of d d. Proof. exists []. reflexivity. Qed.
Lemma suffix_trans a b c : suffix_of a b -> suffix_of b c -> suffix_of a c.
Proof. intros [x ->] [y ->]. exists (y ++ x). apply app_assoc. Qed.
Lemma suffix_cons b r d : suffix_of r d -> suffix_of r (b :: d).
Proof. intros [x ->]. exists (b :: x). reflexivity. Qed.
Lemma take_suffix k d s r : take k d = Some (s, r) -> suffix_of r d.
Proof. intros H. apply take_some in H. destruct H as [-> _]. exists s. reflexivity. Qed.
Lemma suffix_bytes r d : suffix_of r d -> bytes d -> bytes r.
Proof. intros [x ->] H. apply Forall_app in H. apply H. Qed.

Lemma rep_suffix {A} (step : list N -> option (A * list N)) :
  (forall d v r, step d = Some (v, r) -> suffix_of r d) ->
  forall g cnt d vs r, rep step g cnt d = Some (vs, r) -> suffix_of r d.
Proof.
  intros Hs. induction g as [|g IH]; intros cnt d vs r H; cbn [rep] in H.
  - destruct (cnt =? 0); [injection H as _ <-; apply suffix_refl | discriminate].
  - destruct (cnt =? 0); [injection H as _ <-; apply suffix_refl|].
    destruct (step d) as [[v r1]|] eqn:E1; [|discriminate].
    destruct (rep step g (cnt - 1) r1) as [[vs' r2]|] eqn:E2; [|discriminate].
    injection H as _ <-. apply Hs in E1. apply IH in E2. eapply suffix_trans; eassumption.
Qed.

Lemma step_pair_suffix {A} (step : list N -> option (A * list N)) :
  (forall d v r, step d = Some (v, r) -> suffix_of r d) ->
  forall d v r, step_pair step d = Some (v, r) -> suffix_of r d.
Proof.
  intros Hs d v r H. unfold step_pair in H.
  destruct (step d) as [[k r1]|] eqn:E1; [|discriminate].
  destruct (step r1) as [[x r2]|] eqn:E2; [|discriminate].
  injection H as _ <-. apply Hs in E1. apply Hs in E2. eapply suffix_trans; eassumption.
Qed.

Ltac suffix_solve :=
  first [ assumption | apply suffix_refl
        | eapply suffix_trans; [eassumption|]; suffix_solve ].

Ltac take_cases_suffix :=
  repeat match goal with
  | H : context [take_len ?k ?d] |- _ => unfold take_len in H
  | H : context [match take ?k ?d with _ => _ end] |- _ =>
      let E := fresh "ET" in destruct (take k d) as [[? ?]|] eqn:E; cbn [bind] in H; [apply take_suffix in E|]
  | H : context [bind (take ?k ?d) _] |- _ =>
      let E := fresh "ET" in destruct (take k d) as [[? ?]|] eqn:E; cbn [bind] in H; [apply take_suffix in E|]
  end.

Lemma decode_by_suffix f :
  (forall d v r, decode_ref f d = Some (v, r) -> suffix_of r d) ->
  forall h d v r, decode_by f h d = Some (v, r) -> suffix_of r d.
Proof.
  intros IH h d v r H.
  pose proof (rep_suffix (decode_ref f) IH) as Hrep.
  pose proof (rep_suffix (step_pair (decode_ref f)) (step_pair_suffix _ IH)) as Hrep2.
  destruct h; cbn [decode_by] in H; unfold ext_dec in H; take_cases_suffix; try discriminate.
  all: try (injection H as _ <-; suffix_solve).
  all: repeat match goal with
       | H : context [bind (rep ?s ?g ?c ?dd) _] |- _ =>
           let E := fresh "ER" in destruct (rep s g c dd) as [[? ?]|] eqn:E; cbn [bind] in H; [|discriminate]
       end.
  all: try (injection H as _ <-).
  all: try (apply Hrep in ER; suffix_solve).
  all: try (apply Hrep2 in ER; suffix_solve).
Qed.

Lemma decode_ref_suffix f : forall d v r, decode_ref f d = Some (v, r) -> suffix_of r d.
Proof.
  induction f as [|f IH]; intros d v r H; [discriminate|].
  destruct d as [|b d]; [discriminate|]. rewrite decode_ref_by in H.
  apply decode_by_suffix in H; [apply suffix_cons; exact H | exact IH].
Qed.

Lemma decode_suffix d v r : decode d = Some (v, r) -> suffix_of r d.
Proof. apply decode_ref_suffix. Qed.

Lemma decode_bytes d v r : decode d = Some (v, r) -> bytes d -> bytes r.
Proof. intros H. apply suffix_bytes. eapply decode_suffix; eassumption. Qed.

Lemma decode_shorter d v r : decode d = Some (v, r) -> (length r < length d)%nat.
Proof. apply decode_progress. Qed.

(* ---------- member / element layout of a decoded container ---------- *)
Inductive olayout : list N -> list (mpv * mpv) -> list N -> Prop :=
| OL_nil p : olayout p [] p
| OL_cons p k pv v p' kvs r :
    decode p = Some (k, pv) -> decode pv = Some (v, p') -> olayout p' kvs r -> olayout p ((k, v) :: kvs) r.

Inductive alayout : list N -> list mpv -> list N -> Prop :=
| AL_nil p : alayout p [] p
| AL_cons p v p' vs r : decode p = Some (v, p') -> alayout p' vs r -> alayout p (v :: vs) r.

Lemma rep_alayout f : forall g cnt d vs r, (length d < f)%nat ->
  rep (decode_ref f) g cnt d = Some (vs, r) -> alayout d vs r /\ cnt = N.of_nat (length vs).
Proof.
  induction g as [|g IH]; intros cnt d vs r Hf H; cbn [rep] in H.
  - destruct (cnt =? 0) eqn:E0; [|discriminate]. injection H as <- <-. split; [constructor | cbn; lia].
  - destruct (cnt =? 0) eqn:E0.
    { injection H as <- <-. split; [constructor | cbn; lia]. }
    destruct (decode_ref f d) as [[v r1]|] eqn:E1; [|discriminate].
    destruct (rep (decode_ref f) g (cnt - 1) r1) as [[vs' r2]|] eqn:E2; [|discriminate].
    injection H as <- <-.
    pose proof (decode_progress _ _ _ _ E1) as Hp.
    apply IH in E2; [|lia]. destruct E2 as [HL Hc].
    split; [econstructor; [eapply decode_of_ref; eassumption | exact HL] | cbn [length]; lia].
Qed.

Lemma rep_olayout f : forall g cnt d kvs r, (length d < f)%nat ->
  rep (step_pair (decode_ref f)) g cnt d = Some (kvs, r) -> olayout d kvs r /\ cnt = N.of_nat (length kvs).
Proof.
  induction g as [|g IH]; intros cnt d kvs r Hf H; cbn [rep] in H.
  - destruct (cnt =? 0) eqn:E0; [|discriminate]. injection H as <- <-. split; [constructor | cbn; lia].
  - destruct (cnt =? 0) eqn:E0.
    { injection H as <- <-. split; [constructor | cbn; lia]. }
    destruct (step_pair (decode_ref f) d) as [[[k v] r1]|] eqn:E1; [|discriminate].
    destruct (rep (step_pair (decode_ref f)) g (cnt - 1) r1) as [[kvs' r2]|] eqn:E2; [|discriminate].
    injection H as <- <-.
    unfold step_pair in E1.
    destruct (decode_ref f d) as [[k0 pv]|] eqn:Ek; [|discriminate].
    destruct (decode_ref f pv) as [[v0 p']|] eqn:Ev; [|discriminate].
    injection E1 as <- <- <-.
    pose proof (decode_progress _ _ _ _ Ek) as Hp1. pose proof (decode_progress _ _ _ _ Ev) as Hp2.
    apply IH in E2; [|lia]. destruct E2 as [HL Hc].
    split; [|cbn [length]; lia].
    econstructor; [eapply decode_of_ref; [|eassumption]; lia | eapply decode_of_ref; [|eassumption]; lia | exact HL].
Qed.

Lemma olayout_app p kvs1 p1 kvs2 r : olayout p kvs1 p1 -> olayout p1 kvs2 r -> olayout p (kvs1 ++ kvs2) r.
Proof. induction 1; intros H2; [exact H2 | cbn; econstructor; eauto]. Qed.

Lemma olayout_snoc p kvs1 pk k pv v p' :
  olayout p kvs1 pk -> decode pk = Some (k, pv) -> decode pv = Some (v, p') -> olayout p (kvs1 ++ [(k, v)]) p'.
Proof. intros H1 Hk Hv. eapply olayout_app; [exact H1|]. econstructor; eauto. constructor. Qed.

Lemma olayout_suffix p kvs r : olayout p kvs r -> suffix_of r p.
Proof.
  induction 1; [apply suffix_refl|].
  apply decode_suffix in H. apply decode_suffix in H0. eapply suffix_trans; [eassumption|]. eapply suffix_trans; eassumption.
Qed.

Lemma olayout_length p kvs r : olayout p kvs r -> (2 * length kvs + length r <= length p)%nat.
Proof.
  induction 1; [cbn; lia|]. apply decode_shorter in H. apply decode_shorter in H0. cbn [length]. lia.
Qed.

Lemma alayout_suffix p vs r : alayout p vs r -> suffix_of r p.
Proof. induction 1; [apply suffix_refl|]. apply decode_suffix in H. eapply suffix_trans; eassumption. Qed.

Lemma alayout_nil p r : alayout p [] r -> p = r.
Proof. inversion 1; reflexivity. Qed.

(* ---------- the first byte ---------- *)
Definition scalar (v : mpv) : bool :=
  match v with MNil | MBool _ | MInt _ | MF32 _ | MF64 _ => true | _ => false end.

Lemma classify_scalar b :
  match classify b with
  | HVal v => scalar v = true
  | HNum k mk => forall x, scalar (mk x) = true
  | _ => True
  end.
Proof. unfold classify. split_first_byte b; try exact I; try reflexivity; intros; reflexivity. Qed.

Lemma decode_classify b d0 : decode (b :: d0) = decode_by (length (b :: d0)) (classify b) d0.
Proof. unfold decode. apply decode_ref_by. Qed.

Ltac by_class H Ec b :=
  destruct (classify b) eqn:Ec; cbn [decode_by] in H; unfold ext_dec, take_len in H;
  repeat match type of H with
  | context [bind (take ?k ?d) _] =>
      let ET := fresh "ET" in destruct (take k d) as [[? ?]|] eqn:ET; cbn [bind] in H
  | context [bind (rep ?s ?g ?c ?d) _] =>
      let ER := fresh "ER" in destruct (rep s g c d) as [[? ?]|] eqn:ER; cbn [bind] in H
  end; try discriminate H; injection H as <- <-.

Lemma decode_nonempty d v r : decode d = Some (v, r) -> exists b d0, d = b :: d0.
Proof. destruct d as [|b d0]; [discriminate | intros _; eauto]. Qed.

Section Containers.
  Variable o : opts.

  Definition not_this {A} (v : mpv) (r : list N) : rres A := if is_nil v then RNot r else mismatch_outcome o r.

  Ltac other_case A Hdec Sc :=
    unfold other_spec in A; rewrite Hdec in A;
    first [ exact A
          | match goal with |- match ?v with _ => _ end => destruct v; try discriminate Sc; try (specialize (Sc 0); discriminate Sc); exact A end ].

  Lemma read_map_size_on d v r : bytes d -> decode d = Some (v, r) ->
    match v with
    | MMap kvs => exists body, read_map_size o d = ROk (N.of_nat (length kvs)) body /\ olayout body kvs r /\ suffix_of body d
    | _ => read_map_size o d = not_this v r
    end.
  Proof.
    intros Hb Hdec. destruct (decode_nonempty _ _ _ Hdec) as [b [d0 ->]].
    pose proof (read_map_size_agrees o _ Hb) as A. unfold map_spec in A.
    pose proof (classify_scalar b) as Sc.
    pose proof Hdec as H. rewrite decode_classify in H. unfold not_this.
    by_class H Ec b; rewrite ?Ec in A, Sc.
    all: try (other_case A Hdec Sc).
    - (* HNum *) unfold other_spec in A. rewrite Hdec in A. specialize (Sc (be_val l)).
      destruct (mk (be_val l)); try discriminate Sc; exact A.
    - (* HMap *) apply rep_olayout in ER; [|cbn [length]; lia]. destruct ER as [HL ->].
      exists d0. split; [exact A | split; [exact HL | apply suffix_cons, suffix_refl]].
    - (* HLenMap *) unfold take_len in A. rewrite ET in A. cbn [bind] in A.
      pose proof (take_suffix _ _ _ _ ET) as Hsuf.
      apply take_length in ET. apply rep_olayout in ER; [|cbn [length]; lia]. destruct ER as [HL Hn].
      exists l0. rewrite <- Hn. split; [exact A | split; [exact HL | apply suffix_cons; exact Hsuf]].
  Qed.

  Lemma read_array_size_on d v r : bytes d -> decode d = Some (v, r) ->
    match v with
    | MArr vs => exists body, read_array_size o d = ROk (N.of_nat (length vs)) body /\ alayout body vs r /\ suffix_of body d
    | _ => read_array_size o d = not_this v r
    end.
  Proof.
    intros Hb Hdec. destruct (decode_nonempty _ _ _ Hdec) as [b [d0 ->]].
    pose proof (read_array_size_agrees o _ Hb) as A. unfold array_spec in A.
    pose proof (classify_scalar b) as Sc.
    pose proof Hdec as H. rewrite decode_classify in H. unfold not_this.
    by_class H Ec b; rewrite ?Ec in A, Sc.
    all: try (other_case A Hdec Sc).
    - unfold other_spec in A. rewrite Hdec in A. specialize (Sc (be_val l)).
      destruct (mk (be_val l)); try discriminate Sc; exact A.
    - apply rep_alayout in ER; [|cbn [length]; lia]. destruct ER as [HL ->].
      exists d0. split; [exact A | split; [exact HL | apply suffix_cons, suffix_refl]].
    - unfold take_len in A. rewrite ET in A. cbn [bind] in A.
      pose proof (take_suffix _ _ _ _ ET) as Hsuf.
      apply take_length in ET. apply rep_alayout in ER; [|cbn [length]; lia]. destruct ER as [HL Hn].
      exists l0. rewrite <- Hn. split; [exact A | split; [exact HL | apply suffix_cons; exact Hsuf]].
  Qed.

  Lemma read_bin_size_on d v r : decode d = Some (v, r) ->
    match v with
    | MBin s => exists body, read_bin_size o d = ROk (N.of_nat (length s)) body /\ body = s ++ r
    | _ => read_bin_size o d = not_this v r
    end.
  Proof.
    intros Hdec. destruct (decode_nonempty _ _ _ Hdec) as [b [d0 ->]].
    pose proof (read_bin_size_agrees o (b :: d0)) as A. unfold bin_spec in A.
    pose proof (classify_scalar b) as Sc.
    pose proof Hdec as H. rewrite decode_classify in H. unfold not_this.
    by_class H Ec b; rewrite ?Ec in A, Sc.
    all: try (other_case A Hdec Sc).
    - unfold other_spec in A. rewrite Hdec in A. specialize (Sc (be_val l)).
      destruct (mk (be_val l)); try discriminate Sc; exact A.
    - unfold take_len in A. rewrite ET in A. cbn [bind] in A.
      apply take_some in ET0. destruct ET0 as [-> Hn]. exists (l1 ++ l2). rewrite Hn. split; [exact A | reflexivity].
  Qed.
End Containers.

(* ---------- ReadValueType on a decoded value ---------- *)
Lemma be_val_bound s : bytes s -> be_val s < 256 ^ N.of_nat (length s).
Proof.
  induction s as [|x l IH] using rev_ind; intros Hb.
  - cbn. lia.
  - apply Forall_app in Hb. destruct Hb as [Hl Hx]. inversion Hx as [|? ? Hx0 _]; subst.
    specialize (IH Hl). rewrite be_val_snoc, app_length. cbn [length].
    replace (N.of_nat (length l + 1)) with (N.of_nat (length l) + 1) by lia.
    rewrite N.pow_add_r. change (256 ^ 1) with 256. unfold byte in Hx0.
    set (P := 256 ^ N.of_nat (length l)) in *. clearbody P. lia.
Qed.

Lemma take_be_val_bound k d s r : bytes d -> take k d = Some (s, r) -> be_val s < 256 ^ k.
Proof.
  intros Hb H. apply take_some in H. destruct H as [-> Hk]. apply Forall_app in Hb. destruct Hb as [Hs _].
  rewrite <- Hk. apply be_val_bound. exact Hs.
Qed.

Lemma to_signed8_range v : v < 256 -> (-128 <= to_signed 8 v < 128)%Z.
Proof. intros H. unfold to_signed. change (2 ^ (8 - 1)) with 128. change (2 ^ 8) with 256. destruct (v <? 128) eqn:E; lia. Qed.
Lemma to_signed16_range v : v < 65536 -> (-32768 <= to_signed 16 v < 32768)%Z.
Proof. intros H. unfold to_signed. change (2 ^ (16 - 1)) with 32768. change (2 ^ 16) with 65536. destruct (v <? 32768) eqn:E; lia. Qed.
Lemma to_signed32_range v : v < 4294967296 -> (-2147483648 <= to_signed 32 v < 2147483648)%Z.
Proof. intros H. unfold to_signed. change (2 ^ (32 - 1)) with 2147483648. change (2 ^ 32) with 4294967296. destruct (v <? 2147483648) eqn:E; lia. Qed.
Lemma to_signed64_range v : v < 18446744073709551616 -> (-9223372036854775808 <= to_signed 64 v < 9223372036854775808)%Z.
Proof.
  intros H. unfold to_signed. change (2 ^ (64 - 1)) with 9223372036854775808. change (2 ^ 64) with 18446744073709551616.
  destruct (v <? 9223372036854775808) eqn:E; lia.
Qed.

Definition has_type (v : mpv) (t : vtype) : Prop :=
  match v with
  | MNil => t = TNil
  | MBool _ => t = TBool
  | MInt z => (t = TUInt /\ (0 <= z < 18446744073709551616)%Z) \/ (t = TSInt /\ (-9223372036854775808 <= z < 9223372036854775808)%Z)
  | MF32 _ => t = TFloat
  | MF64 _ => t = TDouble
  | MStr _ => t = TStr
  | MBin _ => t = TBin
  | MArr _ => t = TArr
  | MMap _ => t = TMap
  | MExt ty _ => t = if ty =? 255 then TTimestamp else TExt
  end.

Lemma value_type_sound_m b r1 : bytes r1 -> b < 256 ->
  match decode (b :: r1) with
  | Some (v, r) => exists t, read_value_type (b :: r1) = inl t /\ has_type v t
  | None => True
  end.
Proof.
  intros Hb Hb0.
  unfold decode. cbn [length]. rewrite decode_ref_by.
  unfold read_value_type. unfold classify.
  split_first_byte b; try lia.
  all: match goal with
       | |- match ?X with _ => _ end =>
           let E := fresh "E" in destruct X as [[? ?]|] eqn:E; [|exact I];
           decode_shapes_eq E
       end.
  all: repeat match goal with
       | ET : take ?k ?d = Some (?s, _) |- _ =>
           lazymatch goal with
           | _ : be_val s < _ |- _ => fail
           | _ => first [ pose proof (take_be_val_bound k d s _ Hb ET) | idtac ]
           end
       end.
  all: change (256 ^ 1) with 256 in *; change (256 ^ 2) with 65536 in *;
       change (256 ^ 4) with 4294967296 in *; change (256 ^ 8) with 18446744073709551616 in *.
  all: try match goal with
       | H : be_val ?l < 256 |- context [to_signed 8 (be_val ?l)] => pose proof (to_signed8_range _ H)
       | H : be_val ?l < 65536 |- context [to_signed 16 (be_val ?l)] => pose proof (to_signed16_range _ H)
       | H : be_val ?l < 4294967296 |- context [to_signed 32 (be_val ?l)] => pose proof (to_signed32_range _ H)
       | H : be_val ?l < 18446744073709551616 |- context [to_signed 64 (be_val ?l)] => pose proof (to_signed64_range _ H)
       end.
  all: try (unfold byte_meta; resolve_b_tests b;
            repeat match goal with H : (?x =? ?c) = false |- _ => rewrite H; clear H end;
            cbn [N.ltb N.leb N.eqb Pos.eqb N.compare Pos.compare Pos.compare_cont negb m_ty vtype_eqb];
            eexists; split; [reflexivity|]; cbn [has_type];
            first [ reflexivity | left; split; [reflexivity | lia] | right; split; [reflexivity | lia] ]).
  all: first
    [ match goal with
      | H : take ?kl ?rr = Some (_, ?l0), H1 : take 1 ?l0 = Some _ |- context [read_ext_family (?B :: ?rr)] =>
          let c := fresh "c" in let Hx := fresh "Hx" in
          assert (Hkl : kl <> 0) by discriminate;
          destruct (ext_family_len B kl rr _ _ _ _ eq_refl Hkl H H1) as [c [-> Hx]];
          rewrite Hx; destruct (c =? 255) eqn:Ec
      end
    | match goal with
      | H1 : take 1 ?rr = Some _ |- context [read_ext_family (?B :: ?rr)] =>
          let c := fresh "c" in let Hx := fresh "Hx" in
          match eval cbv in (m_fixed (byte_meta B)) with
          | ?n => assert (Hn : n <> 0) by discriminate;
                  destruct (ext_family_fix B n rr _ _ eq_refl Hn H1) as [c [-> Hx]];
                  rewrite Hx; destruct (c =? 255) eqn:Ec
          end
      end ].
  all: cbn [byte_meta N.ltb N.leb N.eqb Pos.eqb N.compare Pos.compare Pos.compare_cont m_ty vtype_eqb x_vt].
  all: eexists; split; [reflexivity|]; cbn [has_type].
  all: change (be_val [c]) with c; rewrite Ec; reflexivity.
Qed.

Lemma value_type_sound d v r : bytes d -> decode d = Some (v, r) ->
  exists t, read_value_type d = inl t /\ has_type v t.
Proof.
  intros Hb H. destruct (decode_nonempty _ _ _ H) as [b [d0 ->]].
  inversion Hb as [|? ? Hb0 Hb1]; subst.
  pose proof (value_type_sound_m b d0 Hb1 Hb0) as A. rewrite H in A. exact A.
Qed.

(* ---------- ReadValue(CBinTimestamp&) ---------- *)
Lemma land_34 v : N.land v 0x00000003FFFFFFFF = v mod 2 ^ 34.
Proof. change 0x00000003FFFFFFFF with (N.ones 34). apply land_mask. Qed.

Lemma read_ts_core o d vt off n pre l1 s r :
  read_ext_family d = inl (Some (mkExt vt off n 255)) ->
  take off d = Some (pre, l1) -> take n l1 = Some (s, r) -> bytes s ->
  read_ts o d = match ts_lib s with Some (a, b) => ROk (a, b) r | None => RErr EParse end.
Proof.
  intros HF HT HS Hb. unfold read_ts. rewrite HF. cbn [x_code x_off x_size].
  change (255 =? 0xFF) with true. cbn iota. rewrite HT.
  pose proof HS as HS'. apply take_some in HS'. destruct HS' as [Hl1 Hlen].
  pose proof (be_val_bound s Hb) as Hv. rewrite Hlen in Hv.
  unfold ts_lib. rewrite Hlen.
  destruct (n =? 4) eqn:E4.
  { apply N.eqb_eq in E4. rewrite E4 in HS. unfold get_value. rewrite HS. reflexivity. }
  destruct (n =? 8) eqn:E8.
  { apply N.eqb_eq in E8. rewrite E8 in HS, Hv. unfold get_value. rewrite HS.
    change (256 ^ 8) with 18446744073709551616 in Hv.
    rewrite land_34, shiftr_div. set (v := be_val s) in *. clearbody v.
    assert (Hq : v / 2 ^ 34 < 1073741824) by (change (2 ^ 34) with 17179869184; lia).
    replace ((v / 2 ^ 34) mod 2 ^ 32) with (v / 2 ^ 34) by (change (2 ^ 32) with 4294967296; lia).
    unfold to_signed. change (2 ^ (32 - 1)) with 2147483648.
    replace (v / 2 ^ 34 <? 2147483648) with true by (symmetry; lia). reflexivity. }
  destruct (n =? 12) eqn:E12.
  { apply N.eqb_eq in E12. rewrite E12 in HS. unfold get_value.
    destruct (take 8 l1) as [[s1 r2]|] eqn:T8.
    2:{ apply (take_add_none 8 4) in T8. change (8 + 4) with 12 in T8. congruence. }
    pose proof (take_add 8 4 _ _ _ T8) as T12. change (8 + 4) with 12 in T12. rewrite HS in T12.
    destruct (take 4 r2) as [[s2 r']|] eqn:T4; [|discriminate].
    assert (Es : s = s1 ++ s2) by congruence. assert (Er : r = r') by congruence. rewrite Es, Er.
    apply take_some in T8. destruct T8 as [_ L8].
    replace 8%nat with (length s1) by lia.
    rewrite firstn_app_exact, skipn_app_exact. reflexivity. }
  reflexivity.
Qed.

Lemma read_ts_other o d x :
  read_ext_family d = inl x ->
  match x with Some e => (x_code e =? 0xFF) = false | None => True end ->
  read_ts o d = mismatch_via_type o d.
Proof. intros HF Hx. unfold read_ts. rewrite HF. destruct x as [e|]; [rewrite Hx|]; reflexivity. Qed.

Definition ts_result (o : opts) (v : mpv) (r : list N) : rres (Z * Z) :=
  match v with
  | MExt ty s => if ty =? 255
                 then match ts_lib s with Some (a, b) => ROk (a, b) r | None => RErr EParse end
                 else mismatch_outcome o r
  | MNil => RNot r
  | _ => mismatch_outcome o r
  end.

Lemma read_ts_m o b r1 : bytes r1 -> b < 256 ->
  match decode (b :: r1) with
  | Some (v, r) => read_ts o (b :: r1) = ts_result o v r
  | None => True
  end.
Proof.
  intros Hb Hb0.
  pose proof (@mismatch_via_type_agrees (Z * Z) o (b :: r1)) as HM.
  unfold decode in *. cbn [length] in *. rewrite decode_ref_by in *. unfold classify in *.
  split_first_byte b; try lia.
  all: match goal with
       | |- match ?X with _ => _ end =>
           let E := fresh "E" in destruct X as [[? ?]|] eqn:E; [|exact I];
           decode_shapes_eq E
       end.
  all: cbn [ts_result is_nil] in *.
  (* first bytes outside the ext family *)
  all: try (rewrite (read_ts_other o _ None); [exact HM | | exact I];
            unfold read_ext_family, byte_meta; resolve_b_tests b;
            repeat match goal with H : (?x =? ?c) = false |- _ => rewrite H; clear H end;
            reflexivity).
  (* ext 8/16/32 *)
  all: try match goal with
      | H : take ?kl ?rr = Some (_, ?l0), H1 : take 1 ?l0 = Some _ |- context [read_ts _ (?B :: ?rr)] =>
          let c := fresh "c" in let Hx := fresh "Hx" in
          assert (Hkl : kl <> 0) by discriminate;
          destruct (ext_family_len B kl rr _ _ _ _ eq_refl Hkl H H1) as [c [-> Hx]];
          change (be_val [c]) with c; destruct (c =? 255) eqn:Ec;
          [ apply N.eqb_eq in Ec; rewrite Ec in Hx, H1;
            match goal with
            | HP : take _ ?p = Some (?s, _) |- context [ts_lib ?s] =>
                eapply (read_ts_core o _ _ _ _ _ p s); [exact Hx | | exact HP | ];
                [ apply take_some in H; destruct H as [-> HlA]; apply take_some in H1; destruct H1 as [-> HlB];
                  rewrite app_comm_cons, app_assoc; apply take_app_n; rewrite app_length; cbn [length] in *; lia
                | apply take_suffix in H; apply take_suffix in H1;
                  pose proof (suffix_bytes _ _ H1 (suffix_bytes _ _ H Hb)) as Hbp;
                  apply take_some in HP; destruct HP as [HP _]; rewrite HP in Hbp; apply Forall_app in Hbp; apply Hbp ]
            end
          | rewrite (read_ts_other o _ _ Hx); [exact HM | exact Ec] ]
      end.
  (* fixext 1..16 *)
  all: match goal with
      | H1 : take 1 ?rr = Some _ |- context [read_ts _ (?B :: ?rr)] =>
          let c := fresh "c" in let Hx := fresh "Hx" in
          match eval cbv in (m_fixed (byte_meta B)) with
          | ?n => assert (Hn : n <> 0) by discriminate;
                  destruct (ext_family_fix B n rr _ _ eq_refl Hn H1) as [c [-> Hx]];
                  change (be_val [c]) with c; destruct (c =? 255) eqn:Ec;
                  [ apply N.eqb_eq in Ec; rewrite Ec in Hx, H1;
                    match goal with
                    | HP : take _ ?p = Some (?s, _) |- context [ts_lib ?s] =>
                        eapply (read_ts_core o _ _ _ _ _ p s); [exact Hx | | exact HP | ];
                        [ apply take_some in H1; destruct H1 as [-> HlB];
                          rewrite app_comm_cons; apply take_app_n; cbn [length] in *; lia
                        | apply take_suffix in H1;
                          pose proof (suffix_bytes _ _ H1 Hb) as Hbp;
                          apply take_some in HP; destruct HP as [HP _]; rewrite HP in Hbp; apply Forall_app in Hbp; apply Hbp ]
                    end
                  | rewrite (read_ts_other o _ _ Hx); [exact HM | exact Ec] ]
          end
      end.
Qed.

Lemma read_ts_on o d v r : bytes d -> decode d = Some (v, r) -> read_ts o d = ts_result o v r.
Proof.
  intros Hb H. destruct (decode_nonempty _ _ _ H) as [b [d0 ->]].
  inversion Hb as [|? ? Hb0 Hb1]; subst.
  pose proof (read_ts_m o b d0 Hb1 Hb0) as A. rewrite H in A. exact A.
Qed.

