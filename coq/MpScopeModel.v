(* MpScopeModel.v — executable mirror of the MsgPack read scopes of
   include/bitserializer/msgpack_archive.h: CVariableKey::operator==, CMsgPackReadObjectScope
   (ReadKey, FindValueByKey, ResetKey, SerializeValue(key,..), OpenArrayScope/OpenObjectScope/
   OpenBinaryScope(key,..), OnFinishChildScope, VisitKeys, the destructor), CMsgPackReadArrayScope,
   CMsgPackReadBinaryScope, and of the way MsgPackReadRootScope opens the first scope.
   The reader is the one of MpModel.v: a position is the suffix of the input that starts there; the
   scope keeps mStartPos as that suffix, so SetPosition(mStartPos) puts it back.
   Exceptions are explicit: [Raise e st pos] carries the scope state at the throw and the reader
   position when the code determines it (needed because the scopes are destroyed during unwinding and
   their destructors read).  Since 0863f96 / 49f9936 the destructors skip what was not read inside
   try { } catch (...) { } — the array and binary scopes too — so a failing skip just stops there
   (the reader stays where SkipValue threw: [skip_at] keeps that position); since 3580349 the
   ResetKey() call of ~CMsgPackReadObjectScope stands inside the guard as well, so no destructor of
   these scopes lets an exception escape: there is no terminate outcome any more.  Since 8d03f7f a
   destructor whose skip failed sets the reader's flag mCloseScopeFailed (the boolean carried next to
   every outcome below: "some scope closed so far could not skip its rest"), and
   MsgPackReadRootScope::Finalize() throws ParsingException when it is set.  No proofs in this file. *)
From BS Require Import Base MpSpec MpModel MpScopeSpec.
Local Open Scope N_scope.

(* ---------- CVariableKey ---------- *)
(* the tuple slot written last: string_view / uint64_t / int64_t / float / double / CBinTimestamp *)
Inductive skey :=
| SKStr (s : list N)
| SKU (u : N)
| SKS (z : Z)
| SKF32 (bits : N)
| SKF64 (bits : N)
| SKTs (secs nanos : Z).

(* operator==(const T& value): integral T against the uint64_t / int64_t slot, otherwise same slot
   and operator== of the slot type *)
Definition skey_eq (k : skey) (q : qkey) : bool :=
  match q, k with
  | QU v, SKU u => u =? v                                              (* value >= 0 && ref == value *)
  | QU v, SKS s => (v <=? 0x7FFFFFFFFFFFFFFF) && (s =? Z.of_N v)%Z     (* value <= INT64_MAX && ref == int64_t(value) *)
  | QS v, SKU u => (0 <=? v)%Z && (u =? Z.to_N v)                      (* value >= 0 && ref == uint64_t(value) *)
  | QS v, SKS s => (s =? v)%Z
  | QStr t, SKStr s => bytes_eqb s t
  | QF32 b, SKF32 a => ieee_eq32 a b
  | QF64 b, SKF64 a => ieee_eq64 a b
  | QTs s n, SKTs s' n' => (s' =? s)%Z && (n' =? n)%Z
  | _, _ => false
  end.

Definition key_of_skey (k : skey) : key :=
  match k with
  | SKStr s => KStr s
  | SKU u => KInt (Z.of_N u)
  | SKS z => KInt z
  | SKF32 b => KF32 b
  | SKF64 b => KF64 b
  | SKTs s n => KTs s n
  end.

(* the C++ object a VisitKeys callback is handed: a REFERENCE to the tuple slot that is current *)
Definition qkey_of_skey (k : skey) : qkey :=
  match k with
  | SKStr s => QStr s | SKU u => QU u | SKS z => QS z | SKF32 b => QF32 b | SKF64 b => QF64 b | SKTs s n => QTs s n
  end.

Definition u64 : ity := mkIty false 64.
Definition s64 : ity := mkIty true 64.

(* ---------- scope states ---------- *)
Record oscope := mkO { o_start : list N; o_size : N; o_index : N; o_key : option skey }.
Record ascope := mkA { a_size : N; a_index : N }.

(* ---------- SkipValueImpl with the reader position at the throw ---------- *)
(* same function as MpModel.skip_impl; mPos is advanced through a reference, so an exception leaves it
   behind the first byte of the (innermost) value that could not be skipped, or where it was when
   there is no byte at all *)
Inductive ares := AOk (rest : list N) | AErr (e : err) (at_throw : list N) | AFuel.

Fixpoint skip_rep_at (step : list N -> ares) (g : nat) (cnt : N) (rest : list N) : ares :=
  if cnt =? 0 then AOk rest else
  match g with
  | O => AFuel
  | S g' => match step rest with
            | AOk r => skip_rep_at step g' (cnt - 1) r
            | e => e
            end
  end.

Fixpoint skip_at_impl (fuel : nat) (rest : list N) {struct fuel} : ares :=
  match fuel with
  | O => AFuel
  | S f =>
    match rest with
    | [] => AErr EParse rest
    | b :: r1 =>
      let m := byte_meta b in
      if vtype_eqb (m_ty m) TUnknown then AErr EParse r1 else
      let hdr : option (N * N) :=
        if negb (m_fixed m =? 0) then Some (m_data m, m_fixed m)
        else if negb (m_ext m =? 0) then
          match get_value (m_ext m) r1 with
          | Some (v, _) => Some (m_data m + m_ext m, v)
          | None => None
          end
        else Some (m_data m, 0) in
      match hdr with
      | None => AErr EParse r1
      | Some (size0, ext0) =>
        let size := if is_sized (m_ty m) then size0 + ext0 else size0 in
        let ext := if is_sized (m_ty m) then 0 else ext0 in
        match take size r1 with
        | None => AErr EParse r1
        | Some (_, r2) =>
          if ext =? 0 then AOk r2
          else match m_ty m with
               | TMap => skip_rep_at (skip_at_impl f) f (2 * ext) r2
               | TArr => skip_rep_at (skip_at_impl f) f ext r2
               | _ => AOk r2
               end
        end
      end
    end
  end.

Definition skip_at (rest : list N) : ares := skip_at_impl (S (length rest)) rest.

Inductive out (S : Type) :=
| Go (s : S) (rest : list N)                            (* returned normally *)
| Raise (e : serr) (s : S) (pos : option (list N))      (* threw; pos = None: position not determined *)
| NoFuel
| Stale.                                                (* ReadKey: ReadValue returned false (slot keeps old content) *)
Arguments Go {S}. Arguments Raise {S}. Arguments NoFuel {S}. Arguments Stale {S}.

(* what a destructor leaves: the reader position (no exception escapes it) and whether its catch (...) block
   was entered, i.e. SetCloseScopeFailed() called *)
Inductive cres := CDone (rest : list N) (failed : bool) | CFuel.

(* reader position at the throw of a typed read that started at [rest]: a mismatch is thrown before
   anything is consumed, an overflow after the whole (scalar) value, "No more values to read" at the
   end of the input without moving; other parsing errors are thrown at various points inside the value *)
Definition epos (e : err) (rest : list N) : option (list N) :=
  match e with
  | EMismatch => Some rest
  | EOverflow => match skip_value rest with SOk r => Some r | _ => None end
  | EParse => match rest with [] => Some [] | _ => None end
  | _ => None
  end.

Section Scopes.
  Variable narrow : N -> option N.
  Variable widen : N -> N.
  Variable o : opts.

  (* mMsgPackReader->ReadValue(T&) *)
  Definition map_rres {A B} (f : A -> B) (r : rres A) : rres B :=
    match r with ROk v rest => ROk (f v) rest | RNot rest => RNot rest | RErr e => RErr e | RFuel => RFuel end.

  Definition read_target (t : target) (rest : list N) : rres value :=
    match t with
    | TgInt it => map_rres VInt (read_int o it rest)
    | TgNil => map_rres (fun _ => VNil) (read_nil o rest)
    | TgF32 => map_rres VF32 (read_f32 narrow o rest)
    | TgF64 => map_rres VF64 (read_f64 widen o rest)
    | TgStr => map_rres VStr (read_str o rest)
    | TgTs => map_rres (fun p => VTs (fst p) (snd p)) (read_ts o rest)
    end.

  (* ---------- ReadKey ---------- *)
  Inductive kres := KOk (k : skey) (rest : list N) | KRaise (e : err) (clean : bool) | KStale | KFuel.

  Definition key_read {A} (mk : A -> skey) (r : rres A) : kres :=
    match r with
    | ROk v rest => KOk (mk v) rest
    | RNot _ => KStale
    | RErr e => KRaise e false
    | RFuel => KFuel
    end.

  Definition read_key (rest : list N) : kres :=
    match read_value_type rest with
    | inr e => KRaise e true                                   (* thrown by ReadValueType: nothing moved *)
    | inl TStr => key_read SKStr (read_str o rest)
    | inl TUInt => key_read (fun z => SKU (Z.to_N z)) (read_int o u64 rest)
    | inl TSInt => key_read SKS (read_int o s64 rest)
    | inl TDouble => key_read SKF64 (read_f64 widen o rest)
    | inl TFloat => key_read SKF32 (read_f32 narrow o rest)
    | inl TTimestamp => key_read (fun p => SKTs (fst p) (snd p)) (read_ts o rest)
    | inl _ => KRaise EParse true                              (* "Unsupported key type" *)
    end.

  Definition set_key (st : oscope) (k : option skey) : oscope := mkO (o_start st) (o_size st) (o_index st) k.
  Definition set_index (st : oscope) (i : N) : oscope := mkO (o_start st) (o_size st) i (o_key st).

  (* OnFinishChildScope: mCurrentKey.Reset(); ++mIndex *)
  Definition on_finish_child (st : oscope) : oscope := mkO (o_start st) (o_size st) (o_index st + 1) None.

  (* ResetKey *)
  Definition reset_key (st : oscope) (rest : list N) : out oscope :=
    match o_key st with
    | None => Go st rest
    | Some _ =>
      match skip_at rest with
      | AOk r => Go (on_finish_child st) r
      | AErr e p => Raise (SE e) (set_key st None) (Some p)
      | AFuel => NoFuel
      end
    end.

  (* a ReadValue that threw inside ReadKey: GetValueRef has already made the slot current *)
  Definition slot_written : skey := SKU 0.

  (* the loop of FindValueByKey: for (c = 0; c < mSize; ++c) *)
  Fixpoint find_loop (fuel : nat) (q : qkey) (c : N) (st : oscope) (rest : list N) : out (bool * oscope) :=
    match fuel with
    | O => NoFuel
    | S f =>
      if c <? o_size st then
        let st1 := if o_index st =? o_size st then set_index st 0 else st in
        let rest1 := if o_index st =? o_size st then o_start st else rest in
        match read_key rest1 with
        | KOk k rest2 =>
          let st2 := set_key st1 (Some k) in
          if skey_eq k q then Go (true, st2) rest2
          else match skip_at rest2 with
               | AOk rest3 => find_loop f q (c + 1) (set_index st2 (o_index st2 + 1)) rest3
               | AErr e p => Raise (SE e) (false, st2) (Some p)
               | AFuel => NoFuel
               end
        | KRaise e true => Raise (SE e) (false, st1) (Some rest1)
        | KRaise e false => Raise (SE e) (false, set_key st1 (Some slot_written)) None
        | KStale => Stale
        | KFuel => NoFuel
        end
      else Go (false, set_key st None) rest
    end.

  Definition find_value_by_key (q : qkey) (st : oscope) (rest : list N) : out (bool * oscope) :=
    let loop st rest := find_loop (S (length (o_start st))) q 0 st rest in
    match o_key st with
    | Some k =>
      if skey_eq k q then Go (true, st) rest
      else match reset_key st rest with
           | Go st1 rest1 => loop st1 rest1
           | Raise e s p => Raise e (false, s) p
           | NoFuel => NoFuel | Stale => Stale
           end
    | None => loop st rest
    end.

  (* ---------- the destructors ---------- *)
  (* try { for (c = mIndex; c < mSize; ++c) { SkipValue(); SkipValue(); ++mIndex; } } catch (...) { SetCloseScopeFailed(); } *)
  Fixpoint close_loop (fuel : nat) (c size : N) (rest : list N) : cres :=
    match fuel with
    | O => CFuel
    | S f =>
      if c <? size then
        match skip_at rest with
        | AOk r1 => match skip_at r1 with
                    | AOk r2 => close_loop f (c + 1) size r2
                    | AErr _ p => CDone p true
                    | AFuel => CFuel
                    end
        | AErr _ p => CDone p true
        | AFuel => CFuel
        end
      else CDone rest false
    end.

  (* ~CMsgPackReadObjectScope: try { ResetKey(); for (...) { SkipValue(); SkipValue(); ++mIndex; } } catch (...) { SetCloseScopeFailed(); } *)
  Definition close_obj (st : oscope) (rest : list N) : cres :=
    match reset_key st rest with
    | Go st1 rest1 => close_loop (S (length rest1)) (o_index st1) (o_size st1) rest1
    | Raise _ _ (Some p) => CDone p true       (* ResetKey's SkipValue threw: swallowed, the reader stays there *)
    | _ => CFuel
    end.

  (* ~CMsgPackReadArrayScope: try { for (; mIndex < mSize; ++mIndex) SkipValue(); } catch (...) { SetCloseScopeFailed(); } *)
  Fixpoint arr_close_loop (fuel : nat) (idx size : N) (rest : list N) : cres :=
    match fuel with
    | O => CFuel
    | S f =>
      if idx <? size then
        match skip_at rest with
        | AOk r => arr_close_loop f (idx + 1) size r
        | AErr _ p => CDone p true
        | AFuel => CFuel
        end
      else CDone rest false
    end.
  Definition close_arr (st : ascope) (rest : list N) : cres :=
    arr_close_loop (S (length rest)) (a_index st) (a_size st) rest.

  (* ~CMsgPackReadBinaryScope: try { for (; mIndex < mSize; ++mIndex) ReadBinary(); } catch (...) { SetCloseScopeFailed(); }
     = the remaining mSize - mIndex bytes are passed, or the reader ends at the end of the input (ReadBinary threw) *)
  Definition close_bin (st : ascope) (rest : list N) : cres :=
    match take (a_size st - a_index st) rest with
    | Some (_, r) => CDone r false
    | None => CDone [] true
    end.

  (* a child scope goes out of scope (normally, or during unwinding); then ~CMsgPackScopeBase notifies the parent.
     The boolean: the destructor set the flag (not tracked when it runs at an undetermined position during
     unwinding: the flag is only ever read by Finalize(), after a normal return) *)
  Definition after_child {C P} (close : C -> list N -> cres) (notify : P -> P) (pst : P) (oc : out C) : out P * bool :=
    match oc with
    | Go cst rest =>
      match close cst rest with
      | CDone r f => (Go (notify pst) r, f)
      | CFuel => (NoFuel, false)
      end
    | Raise e cst (Some rest) =>
      match close cst rest with
      | CDone r f => (Raise e (notify pst) (Some r), f)
      | CFuel => (NoFuel, false)
      end
    | Raise e cst None => (Raise e (notify pst) None, false)
    | NoFuel => (NoFuel, false) | Stale => (Stale, false)
    end.

  Definition after_child_obj {P} := @after_child oscope P close_obj.
  Definition after_child_arr {P} := @after_child ascope P close_arr.
  Definition after_child_bin {P} := @after_child ascope P close_bin.

  Definition is_go {S} (oc : out S) : bool := match oc with Go _ _ => true | _ => false end.

  (* tokens of a child that was opened *)
  Definition wrap_child {S} (toks : list tok) (oc : out S) : list tok :=
    KOpen :: toks ++ (if is_go oc then [KClose] else []).

  (* ---------- CMsgPackReadBinaryScope: n times SerializeValue(char&) ---------- *)
  Fixpoint bin_reads (n : nat) (st : ascope) (rest : list N) : list tok * out ascope :=
    match n with
    | O => ([], Go st rest)
    | S n' =>
      if a_index st =? a_size st then ([], Raise SERange st (Some rest))
      else match read_binary rest with
           | ROk b r =>
             let '(t, oc) := bin_reads n' (mkA (a_size st) (a_index st + 1)) r in (KByte b :: t, oc)
           | RNot r => ([], Stale)
           | RErr e => ([], Raise (SE e) st None)
           | RFuel => ([], NoFuel)
           end
    end.

  Definition raise_typed {S} (e : err) (st : S) (rest : list N) : out S := Raise (SE e) st (epos e rest).

  (* VisitKeys after ResetKey and SetPosition(mStartPos): for (mIndex = 0; mIndex < mSize;) { ReadKey(fn); ResetKey(); } *)
  Fixpoint visit_loop (fuel : nat) (st : oscope) (rest : list N) (acc : list key) : list tok * out oscope :=
    match fuel with
    | O => ([], NoFuel)
    | S f =>
      if o_index st <? o_size st then
        match read_key rest with
        | KOk k r1 =>
          match reset_key (set_key st (Some k)) r1 with
          | Go st2 r2 => visit_loop f st2 r2 (acc ++ [key_of_skey k])
          | other => ([], other)
          end
        | KRaise e true => ([], Raise (SE e) st (Some rest))
        | KRaise e false => ([], Raise (SE e) (set_key st (Some slot_written)) None)
        | KStale => ([], Stale)
        | KFuel => ([], NoFuel)
        end
      else ([KKeys acc], Go st rest)
    end.

  (* tokens, outcome, "a scope closed on the way set the flag" *)
  Definition res (S : Type) : Type := (list tok * out S * bool)%type.

  Definition lift_find (oc : out (bool * oscope)) (k : oscope -> list N -> res oscope)
             (nf : oscope -> list N -> res oscope) : res oscope :=
    match oc with
    | Go (true, st) rest => k st rest
    | Go (false, st) rest => nf st rest
    | Raise e (_, st) p => ([], Raise e st p, false)
    | NoFuel => ([], NoFuel, false) | Stale => ([], Stale, false)
    end.

  (* a child scope: tokens of the child, the parent's outcome after the child's destruction, the flags *)
  Definition with_child {C P} (after : out C -> out P * bool) (r : res C) : res P :=
    let '(t, oc, f1) := r in
    let '(oc2, f2) := after oc in
    (wrap_child t oc, oc2, f1 || f2).

  Definition plain {S} (r : list tok * out S) : res S := (fst r, snd r, false).

  (* ---------- the keyed operations of the object scope ---------- *)
  (* SerializeValue(key, value) *)
  Definition do_get (fnd : qkey -> oscope -> list N -> out (bool * oscope)) (q : qkey) (t : target) (st : oscope) (rest : list N) : res oscope :=
    lift_find (fnd q st rest)
      (fun st1 r1 =>
         let st2 := on_finish_child st1 in                      (* mCurrentKey.Reset(); ++mIndex; *)
         match read_target t r1 with
         | ROk v r2 => ([KVal v], Go st2 r2, false)
         | RNot r2 => ([KFalse], Go st2 r2, false)
         | RErr e => ([], raise_typed e st2 r1, false)
         | RFuel => ([], NoFuel, false)
         end)
      (fun st1 r1 => ([KFalse], Go st1 r1, false)).

  (* OpenObjectScope(key): run_body drives the child scope *)
  Definition do_obj (fnd : qkey -> oscope -> list N -> out (bool * oscope)) (run_body : oscope -> list N -> res oscope) (q : qkey) (st : oscope) (rest : list N) : res oscope :=
    lift_find (fnd q st rest)
      (fun st1 r1 =>
         match read_map_size o r1 with
         | ROk n r2 => with_child (after_child_obj on_finish_child st1) (run_body (mkO r2 n 0 None) r2)
         | RNot r2 => ([KNone], Go (on_finish_child st1) r2, false)
         | RErr e => ([], raise_typed e st1 r1, false)
         | RFuel => ([], NoFuel, false)
         end)
      (fun st1 r1 => ([KNone], Go st1 r1, false)).

  (* OpenArrayScope(key) *)
  Definition do_arr (fnd : qkey -> oscope -> list N -> out (bool * oscope)) (run_body : ascope -> list N -> res ascope) (q : qkey) (st : oscope) (rest : list N) : res oscope :=
    lift_find (fnd q st rest)
      (fun st1 r1 =>
         match read_array_size o r1 with
         | ROk n r2 => with_child (after_child_arr on_finish_child st1) (run_body (mkA n 0) r2)
         | RNot r2 => ([KNone], Go (on_finish_child st1) r2, false)
         | RErr e => ([], raise_typed e st1 r1, false)
         | RFuel => ([], NoFuel, false)
         end)
      (fun st1 r1 => ([KNone], Go st1 r1, false)).

  (* OpenBinaryScope(key), then n byte loads; the boolean: the optional came back empty *)
  Definition do_bin_gen (fnd : qkey -> oscope -> list N -> out (bool * oscope)) (n : nat) (q : qkey) (st : oscope) (rest : list N) : res oscope * bool :=
    match fnd q st rest with
    | Go (true, st1) r1 =>
      match read_value_type r1 with
      | inr e => (([], Raise (SE e) st1 (Some r1), false), false)
      | inl TBin =>
        match read_bin_size o r1 with
        | ROk sz r2 => (with_child (after_child_bin on_finish_child st1) (plain (bin_reads n (mkA sz 0) r2)), false)
        | RNot r2 => (([KNone], Go (on_finish_child st1) r2, false), true)
        | RErr e => (([], raise_typed e st1 r1, false), false)
        | RFuel => (([], NoFuel, false), false)
        end
      | inl _ => (([KNone], Go st1 r1, false), true)            (* nothing consumed, mCurrentKey stays *)
      end
    | Go (false, st1) r1 => (([KNone], Go st1 r1, false), true)
    | Raise e (_, st1) p => (([], Raise e st1 p, false), false)
    | NoFuel => (([], NoFuel, false), false)
    | Stale => (([], Stale, false), false)
    end.
  Definition do_bin (fnd : qkey -> oscope -> list N -> out (bool * oscope)) (n : nat) (q : qkey) (st : oscope) (rest : list N) : res oscope := fst (do_bin_gen fnd n q st rest).

  Definition seq_res {S} (r1 : res S) (k : S -> list N -> res S) : res S :=
    match r1 with
    | (t1, Go st1 rest1, f1) => let '(t2, oc, f2) := k st1 rest1 in (t1 ++ t2, oc, f1 || f2)
    | failed => failed
    end.

  (* ---------- the scopes driven by a program ---------- *)
  Fixpoint run_req (r : req) (st : oscope) (rest : list N) {struct r} : res oscope :=
    match r with
    | RGet q t => do_get find_value_by_key q t st rest
    | RObj q body => do_obj find_value_by_key (run_reqs body) q st rest
    | RArr q body => do_arr find_value_by_key (run_areqs body) q st rest
    | RBin q n => do_bin find_value_by_key n q st rest
    | RVisit =>                                                   (* VisitKeys *)
      match reset_key st rest with
      | Go st1 _ => plain (visit_loop (S (length (o_start st1))) (set_index st1 0) (o_start st1) [])
      | other => ([], other, false)
      end
    | REach acts =>                                               (* VisitKeys with a callback that loads *)
      match reset_key st rest with
      | Go st1 _ => run_vacts acts (set_index st1 0) (o_start st1)
      | other => ([], other, false)
      end
    end
  with run_reqs (l : reqs) (st : oscope) (rest : list N) {struct l} : res oscope :=
    match l with
    | RNil => ([], Go st rest, false)
    | RCons r l' =>
      match run_req r st rest with
      | (t1, Go st1 r1, f1) => let '(t2, oc, f2) := run_reqs l' st1 r1 in (t1 ++ t2, oc, f1 || f2)
      | failed => failed
      end
    end
  with run_areq (a : areq) (st : ascope) (rest : list N) {struct a} : res ascope :=
    let next := mkA (a_size st) (a_index st + 1) in
    match a with
    | AEnd => ([KIsEnd (a_index st =? a_size st)], Go st rest, false)
    | AThrow e => ([], Raise e st (Some rest), false)             (* thrown by the caller's code: nothing moved *)
    | ATry a' =>
      (* try { a' } catch (OutOfRange): whatever raised it and wherever; the scopes between have been destroyed (their
         destructors skip their rest) and have notified their parents, the reader stands where they left it *)
      match run_areq a' st rest with
      | (t, Raise SERange st' (Some r'), f) => (t ++ [KCaught], Go st' r', f)
      | other => other
      end
    | _ =>
      if a_index st =? a_size st then ([], Raise SERange st (Some rest), false)      (* CheckEnd *)
      else
        match a with
        | AGet t =>                                               (* SerializeValue(value); ++mIndex *)
          match read_target t rest with
          | ROk v r => ([KVal v], Go next r, false)
          | RNot r => ([KFalse], Go next r, false)
          | RErr e => ([], raise_typed e st rest, false)
          | RFuel => ([], NoFuel, false)
          end
        | AObj body =>
          match read_map_size o rest with
          | ROk n r => with_child (after_child_obj (fun s => s) next) (run_reqs body (mkO r n 0 None) r)
          | RNot r => ([KNone], Go next r, false)
          | RErr e => ([], raise_typed e st rest, false)
          | RFuel => ([], NoFuel, false)
          end
        | AArr body =>
          match read_array_size o rest with
          | ROk n r => with_child (after_child_arr (fun s => s) next) (run_areqs body (mkA n 0) r)
          | RNot r => ([KNone], Go next r, false)
          | RErr e => ([], raise_typed e st rest, false)
          | RFuel => ([], NoFuel, false)
          end
        | ABin n =>
          match read_value_type rest with
          | inr e => ([], Raise (SE e) st (Some rest), false)
          | inl TBin =>
            match read_bin_size o rest with
            | ROk sz r => with_child (after_child_bin (fun s => s) next) (plain (bin_reads n (mkA sz 0) r))
            | RNot r => ([KNone], Go next r, false)
            | RErr e => ([], raise_typed e st rest, false)
            | RFuel => ([], NoFuel, false)
            end
          | inl _ => ([KNone], Go st rest, false)
          end
        | _ => ([], Go st rest, false)
        end
    end
  with run_areqs (l : areqs) (st : ascope) (rest : list N) {struct l} : res ascope :=
    match l with
    | ANil => ([], Go st rest, false)
    | ACons a l' =>
      match run_areq a st rest with
      | (t1, Go st1 r1, f1) => let '(t2, oc, f2) := run_areqs l' st1 r1 in (t1 ++ t2, oc, f1 || f2)
      | failed => failed
      end
    end
  (* what the callback does with the key q it was handed: since d346324 a COPY of the visited key (VisitKeys), so the
     keyed request is the ordinary one *)
  with run_vact (a : vact) (q : qkey) (st : oscope) (rest : list N) {struct a} : res oscope :=
    match a with
    | VSkip => ([], Go st rest, false)
    | VThrow e => ([], Raise e st (Some rest), false)            (* thrown by the caller's code: nothing moved *)
    | VGet t => do_get find_value_by_key q t st rest
    | VObj body => do_obj find_value_by_key (run_reqs body) q st rest
    | VArr body => do_arr find_value_by_key (run_areqs body) q st rest
    | VBin n => do_bin find_value_by_key n q st rest
    | VBinArr n body =>                                           (* binary scope first, array scope when it is declined *)
      match do_bin_gen find_value_by_key n q st rest with
      | (r, true) => seq_res r (do_arr find_value_by_key (run_areqs body) q)
      | (r, false) => r
      end
    end
  (* for (mIndex = 0; mIndex < mSize;) { ReadKey(fn); ResetKey(); } with fn = the i-th action *)
  with run_vacts (acts : vacts) (st : oscope) (rest : list N) {struct acts} : res oscope :=
    match acts with
    | VANil =>      (* the remaining keys: the callback does nothing *)
      match visit_loop (S (length (o_start st))) st rest [] with (_, oc) => ([], oc, false) end
    | VACons a acts' =>
      if o_index st <? o_size st then
        match read_key rest with
        | KOk k r1 =>
          match run_vact a (qkey_of_skey k) (set_key st (Some k)) r1 with
          | (t1, Go st2 r2, f1) =>
            match reset_key st2 r2 with
            | Go st3 r3 => let '(t2, oc, f2) := run_vacts acts' st3 r3 in (t1 ++ t2, oc, f1 || f2)
            | other => (t1, other, f1)
            end
          | failed => failed
          end
        | KRaise e true => ([], Raise (SE e) st (Some rest), false)
        | KRaise e false => ([], Raise (SE e) (set_key st (Some slot_written)) None, false)
        | KStale => ([], Stale, false)
        | KFuel => ([], NoFuel, false)
        end
      else ([], Go st rest, false)
    end.

  (* ---------- the root: MsgPackReadRootScope::OpenObjectScope / OpenArrayScope, the program, the
     scope's destruction; what is left is the reader position ---------- *)
  Inductive final :=
  | Done (toks : list tok) (rest : list N) (close_failed : bool)   (* close_failed = IsCloseScopeFailed() *)
  | Failed (toks : list tok) (e : serr)
  | FFuel | FStale.

  Definition finish_root {P} (r : res P) : final :=
    match r with
    | (t, Go _ rest, f) => Done t rest f
    | (t, Raise e _ _, _) => Failed t e
    | (_, NoFuel, _) => FFuel
    | (_, Stale, _) => FStale
    end.

  Definition run_obj_root (data : list N) (h : reqs) : final :=
    match read_map_size o data with
    | ROk n body => finish_root (with_child (after_child_obj (fun u : unit => u) tt) (run_reqs h (mkO body n 0 None) body))
    | RNot r => Done [KNone] r false
    | RErr e => Failed [] (SE e)
    | RFuel => FFuel
    end.

  Definition run_arr_root (data : list N) (h : areqs) : final :=
    match read_array_size o data with
    | ROk n body => finish_root (with_child (after_child_arr (fun u : unit => u) tt) (run_areqs h (mkA n 0) body))
    | RNot r => Done [KNone] r false
    | RErr e => Failed [] (SE e)
    | RFuel => FFuel
    end.

  (* LoadObject: the program, then MsgPackReadRootScope::Finalize() when it returned normally *)
  Inductive loaded := LOk (toks : list tok) (rest : list N) | LErr (toks : list tok) (e : serr) | LFuel | LStale.

  Definition finalize (f : final) : loaded :=
    match f with
    | Done toks rest false => LOk toks rest
    | Done toks rest true => LErr toks (SE EParse)          (* "Unexpected end of input archive" *)
    | Failed toks e => LErr toks e
    | FFuel => LFuel | FStale => LStale
    end.

  Definition load_obj (data : list N) (h : reqs) : loaded := finalize (run_obj_root data h).
  Definition load_arr (data : list N) (h : areqs) : loaded := finalize (run_arr_root data h).
End Scopes.
