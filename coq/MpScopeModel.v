(* MpScopeModel.v — executable mirror of the MsgPack read scopes of
   include/bitserializer/msgpack_archive.h: CVariableKey::operator==, CMsgPackReadObjectScope
   (ReadKey, FindValueByKey, ResetKey, SerializeValue(key,..), OpenArrayScope/OpenObjectScope/
   OpenBinaryScope(key,..), OnFinishChildScope, VisitKeys, the destructor), CMsgPackReadArrayScope,
   CMsgPackReadBinaryScope, and of the way MsgPackReadRootScope opens the first scope.
   The reader is the one of MpModel.v: a position is the suffix of the input that starts there; the
   scope keeps mStartPos as that suffix, so SetPosition(mStartPos) puts it back.
   Exceptions are explicit: [Raise e st pos] carries the scope state at the throw and the reader
   position when the code determines it (needed because the scopes are destroyed during unwinding and
   ~CMsgPackReadObjectScope reads: an exception leaving it is std::terminate, outcome [Term]).
   No proofs in this file. *)
From BS Require Import Base MpSpec MpModel MpScopeSpec.
Local Open Scope N_scope.

(* ---------- CVariableKey ---------- *)
(* the tuple slot written last: string_view / uint64_t / int64_t / float / double / CBinTimestamp *)
Inductive skey :=
| SKStr (s : list N)
| SKU (u : N)
| SKS (z : Z)
| SKF32 (bits : N)
| SKF64 (bits : N)
| SKTs (secs nanos : Z).

(* operator==(const T& value): integral T against the uint64_t / int64_t slot, otherwise same slot
   and operator== of the slot type *)
Definition skey_eq (k : skey) (q : qkey) : bool :=
  match q, k with
  | QU v, SKU u => u =? v                                              (* value >= 0 && ref == value *)
  | QU v, SKS s => (v <=? 0x7FFFFFFFFFFFFFFF) && (s =? Z.of_N v)%Z     (* value <= INT64_MAX && ref == int64_t(value) *)
  | QS v, SKU u => (0 <=? v)%Z && (u =? Z.to_N v)                      (* value >= 0 && ref == uint64_t(value) *)
  | QS v, SKS s => (s =? v)%Z
  | QStr t, SKStr s => bytes_eqb s t
  | QF32 b, SKF32 a => ieee_eq32 a b
  | QF64 b, SKF64 a => ieee_eq64 a b
  | QTs s n, SKTs s' n' => (s' =? s)%Z && (n' =? n)%Z
  | _, _ => false
  end.

Definition key_of_skey (k : skey) : key :=
  match k with
  | SKStr s => KStr s
  | SKU u => KInt (Z.of_N u)
  | SKS z => KInt z
  | SKF32 b => KF32 b
  | SKF64 b => KF64 b
  | SKTs s n => KTs s n
  end.

Definition u64 : ity := mkIty false 64.
Definition s64 : ity := mkIty true 64.

(* ---------- scope states ---------- *)
Record oscope := mkO { o_start : list N; o_size : N; o_index : N; o_key : option skey }.
Record ascope := mkA { a_size : N; a_index : N }.

Inductive out (S : Type) :=
| Go (s : S) (rest : list N)                            (* returned normally *)
| Raise (e : serr) (s : S) (pos : option (list N))      (* threw; pos = None: position not determined *)
| Term                                                  (* an exception left a destructor *)
| NoFuel
| Stale.                                                (* ReadKey: ReadValue returned false (slot keeps old content) *)
Arguments Go {S}. Arguments Raise {S}. Arguments Term {S}. Arguments NoFuel {S}. Arguments Stale {S}.

(* reader position at the throw of a typed read that started at [rest]: a mismatch is thrown before
   anything is consumed, an overflow after the whole (scalar) value; parsing errors are thrown at
   various points inside the value *)
Definition epos (e : err) (rest : list N) : option (list N) :=
  match e with
  | EMismatch => Some rest
  | EOverflow => match skip_value rest with SOk r => Some r | _ => None end
  | _ => None
  end.

Section Scopes.
  Variable narrow : N -> option N.
  Variable widen : N -> N.
  Variable o : opts.

  (* mMsgPackReader->ReadValue(T&) *)
  Definition map_rres {A B} (f : A -> B) (r : rres A) : rres B :=
    match r with ROk v rest => ROk (f v) rest | RNot rest => RNot rest | RErr e => RErr e | RFuel => RFuel end.

  Definition read_target (t : target) (rest : list N) : rres value :=
    match t with
    | TgInt it => map_rres VInt (read_int o it rest)
    | TgNil => map_rres (fun _ => VNil) (read_nil o rest)
    | TgF32 => map_rres VF32 (read_f32 narrow o rest)
    | TgF64 => map_rres VF64 (read_f64 widen o rest)
    | TgStr => map_rres VStr (read_str o rest)
    | TgTs => map_rres (fun p => VTs (fst p) (snd p)) (read_ts o rest)
    end.

  (* ---------- ReadKey ---------- *)
  Inductive kres := KOk (k : skey) (rest : list N) | KRaise (e : err) (clean : bool) | KStale | KFuel.

  Definition key_read {A} (mk : A -> skey) (r : rres A) : kres :=
    match r with
    | ROk v rest => KOk (mk v) rest
    | RNot _ => KStale
    | RErr e => KRaise e false
    | RFuel => KFuel
    end.

  Definition read_key (rest : list N) : kres :=
    match read_value_type rest with
    | inr e => KRaise e true                                   (* thrown by ReadValueType: nothing moved *)
    | inl TStr => key_read SKStr (read_str o rest)
    | inl TUInt => key_read (fun z => SKU (Z.to_N z)) (read_int o u64 rest)
    | inl TSInt => key_read SKS (read_int o s64 rest)
    | inl TDouble => key_read SKF64 (read_f64 widen o rest)
    | inl TFloat => key_read SKF32 (read_f32 narrow o rest)
    | inl TTimestamp => key_read (fun p => SKTs (fst p) (snd p)) (read_ts o rest)
    | inl _ => KRaise EParse true                              (* "Unsupported key type" *)
    end.

  Definition set_key (st : oscope) (k : option skey) : oscope := mkO (o_start st) (o_size st) (o_index st) k.
  Definition set_index (st : oscope) (i : N) : oscope := mkO (o_start st) (o_size st) i (o_key st).

  (* OnFinishChildScope: mCurrentKey.Reset(); ++mIndex *)
  Definition on_finish_child (st : oscope) : oscope := mkO (o_start st) (o_size st) (o_index st + 1) None.

  (* ResetKey *)
  Definition reset_key (st : oscope) (rest : list N) : out oscope :=
    match o_key st with
    | None => Go st rest
    | Some _ =>
      match skip_value rest with
      | SOk r => Go (on_finish_child st) r
      | SErr e => Raise (SE e) (set_key st None) None
      | SFuel => NoFuel
      end
    end.

  (* the loop of FindValueByKey: for (c = 0; c < mSize; ++c) *)
  Fixpoint find_loop (fuel : nat) (q : qkey) (c : N) (st : oscope) (rest : list N) : out (bool * oscope) :=
    match fuel with
    | O => NoFuel
    | S f =>
      if c <? o_size st then
        let st1 := if o_index st =? o_size st then set_index st 0 else st in
        let rest1 := if o_index st =? o_size st then o_start st else rest in
        match read_key rest1 with
        | KOk k rest2 =>
          let st2 := set_key st1 (Some k) in
          if skey_eq k q then Go (true, st2) rest2
          else match skip_value rest2 with
               | SOk rest3 => find_loop f q (c + 1) (set_index st2 (o_index st2 + 1)) rest3
               | SErr e => Raise (SE e) (false, st2) None
               | SFuel => NoFuel
               end
        | KRaise e clean => Raise (SE e) (false, st1) (if clean then Some rest1 else None)
        | KStale => Stale
        | KFuel => NoFuel
        end
      else Go (false, set_key st None) rest
    end.

  Definition find_value_by_key (q : qkey) (st : oscope) (rest : list N) : out (bool * oscope) :=
    let loop st rest := find_loop (S (length (o_start st))) q 0 st rest in
    match o_key st with
    | Some k =>
      if skey_eq k q then Go (true, st) rest
      else match reset_key st rest with
           | Go st1 rest1 => loop st1 rest1
           | Raise e s p => Raise e (false, s) p
           | Term => Term | NoFuel => NoFuel | Stale => Stale
           end
    | None => loop st rest
    end.

  (* ---------- the destructor ---------- *)
  Fixpoint close_loop (fuel : nat) (c size : N) (rest : list N) : sres :=
    match fuel with
    | O => SFuel
    | S f =>
      if c <? size then
        match skip_value rest with
        | SOk r1 => match skip_value r1 with
                    | SOk r2 => close_loop f (c + 1) size r2
                    | other => other
                    end
        | other => other
        end
      else SOk rest
    end.

  Definition close_obj (st : oscope) (rest : list N) : sres :=
    match reset_key st rest with
    | Go st1 rest1 => close_loop (S (length rest1)) (o_index st1) (o_size st1) rest1
    | Raise (SE e) _ _ => SErr e
    | Raise SERange _ _ => SErr EInternal
    | _ => SFuel
    end.

  (* a child scope goes out of scope (normally, or during unwinding) *)
  Definition after_child_obj {P} (notify : P -> P) (pst : P) (oc : out oscope) : out P :=
    match oc with
    | Go cst rest =>
      match close_obj cst rest with
      | SOk r => Go (notify pst) r
      | SErr _ => Term
      | SFuel => NoFuel
      end
    | Raise e cst (Some rest) =>
      match close_obj cst rest with
      | SOk r => Raise e (notify pst) (Some r)
      | SErr _ => Term
      | SFuel => NoFuel
      end
    | Raise e _ None => Raise e pst None
    | Term => Term | NoFuel => NoFuel | Stale => Stale
    end.

  (* array and binary scopes have no destructor body of their own *)
  Definition after_child_plain {C P} (notify : P -> P) (pst : P) (oc : out C) : out P :=
    match oc with
    | Go _ rest => Go (notify pst) rest
    | Raise e _ pos => Raise e (notify pst) pos
    | Term => Term | NoFuel => NoFuel | Stale => Stale
    end.

  Definition is_go {S} (oc : out S) : bool := match oc with Go _ _ => true | _ => false end.

  (* tokens of a child that was opened *)
  Definition wrap_child {S} (toks : list tok) (oc : out S) : list tok :=
    KOpen :: toks ++ (if is_go oc then [KClose] else []).

  (* ---------- CMsgPackReadBinaryScope: n times SerializeValue(char&) ---------- *)
  Fixpoint bin_reads (n : nat) (st : ascope) (rest : list N) : list tok * out ascope :=
    match n with
    | O => ([], Go st rest)
    | S n' =>
      if a_index st =? a_size st then ([], Raise SERange st (Some rest))
      else match read_binary rest with
           | ROk b r =>
             let '(t, oc) := bin_reads n' (mkA (a_size st) (a_index st + 1)) r in (KByte b :: t, oc)
           | RNot r => ([], Stale)
           | RErr e => ([], Raise (SE e) st None)
           | RFuel => ([], NoFuel)
           end
    end.

  Definition raise_typed {S} (e : err) (st : S) (rest : list N) : out S := Raise (SE e) st (epos e rest).

  Definition lift_find {S} (oc : out (bool * oscope)) (k : oscope -> list N -> list tok * out S)
             (nf : oscope -> list N -> list tok * out S) (re : serr -> oscope -> option (list N) -> out S) : list tok * out S :=
    match oc with
    | Go (true, st) rest => k st rest
    | Go (false, st) rest => nf st rest
    | Raise e (_, st) p => ([], re e st p)
    | Term => ([], Term) | NoFuel => ([], NoFuel) | Stale => ([], Stale)
    end.

  (* VisitKeys after ResetKey and SetPosition(mStartPos): for (mIndex = 0; mIndex < mSize;) { ReadKey(fn); ResetKey(); } *)
  Fixpoint visit_loop (fuel : nat) (st : oscope) (rest : list N) (acc : list key) : list tok * out oscope :=
    match fuel with
    | O => ([], NoFuel)
    | S f =>
      if o_index st <? o_size st then
        match read_key rest with
        | KOk k r1 =>
          match reset_key (set_key st (Some k)) r1 with
          | Go st2 r2 => visit_loop f st2 r2 (acc ++ [key_of_skey k])
          | other => ([], other)
          end
        | KRaise e clean => ([], Raise (SE e) st (if clean then Some rest else None))
        | KStale => ([], Stale)
        | KFuel => ([], NoFuel)
        end
      else ([KKeys acc], Go st rest)
    end.

  (* ---------- the scopes driven by a program ---------- *)
  Fixpoint run_req (r : req) (st : oscope) (rest : list N) {struct r} : list tok * out oscope :=
    match r with
    | RGet q t =>                                                 (* SerializeValue(key, value) *)
      lift_find (find_value_by_key q st rest)
        (fun st1 r1 =>
           let st2 := on_finish_child st1 in                      (* mCurrentKey.Reset(); ++mIndex; *)
           match read_target t r1 with
           | ROk v r2 => ([KVal v], Go st2 r2)
           | RNot r2 => ([KFalse], Go st2 r2)
           | RErr e => ([], raise_typed e st2 r1)
           | RFuel => ([], NoFuel)
           end)
        (fun st1 r1 => ([KFalse], Go st1 r1))
        (fun e s p => Raise e s p)
    | RObj q body =>                                              (* OpenObjectScope(key) *)
      lift_find (find_value_by_key q st rest)
        (fun st1 r1 =>
           match read_map_size o r1 with
           | ROk n r2 =>
             let '(t, oc) := run_reqs body (mkO r2 n 0 None) r2 in
             (wrap_child t oc, after_child_obj on_finish_child st1 oc)
           | RNot r2 => ([KNone], Go (on_finish_child st1) r2)
           | RErr e => ([], raise_typed e st1 r1)
           | RFuel => ([], NoFuel)
           end)
        (fun st1 r1 => ([KNone], Go st1 r1))
        (fun e s p => Raise e s p)
    | RArr q body =>                                              (* OpenArrayScope(key) *)
      lift_find (find_value_by_key q st rest)
        (fun st1 r1 =>
           match read_array_size o r1 with
           | ROk n r2 =>
             let '(t, oc) := run_areqs body (mkA n 0) r2 in
             (wrap_child t oc, after_child_plain on_finish_child st1 oc)
           | RNot r2 => ([KNone], Go (on_finish_child st1) r2)
           | RErr e => ([], raise_typed e st1 r1)
           | RFuel => ([], NoFuel)
           end)
        (fun st1 r1 => ([KNone], Go st1 r1))
        (fun e s p => Raise e s p)
    | RBin q n =>                                                 (* OpenBinaryScope(key) *)
      lift_find (find_value_by_key q st rest)
        (fun st1 r1 =>
           match read_value_type r1 with
           | inr e => ([], Raise (SE e) st1 (Some r1))
           | inl TBin =>
             match read_bin_size o r1 with
             | ROk sz r2 =>
               let '(t, oc) := bin_reads n (mkA sz 0) r2 in
               (wrap_child t oc, after_child_plain on_finish_child st1 oc)
             | RNot r2 => ([KNone], Go (on_finish_child st1) r2)
             | RErr e => ([], raise_typed e st1 r1)
             | RFuel => ([], NoFuel)
             end
           | inl _ => ([KNone], Go st1 r1)                        (* nothing consumed, mCurrentKey stays *)
           end)
        (fun st1 r1 => ([KNone], Go st1 r1))
        (fun e s p => Raise e s p)
    | RVisit =>                                                   (* VisitKeys *)
      match reset_key st rest with
      | Go st1 _ => visit_loop (S (length (o_start st1))) (set_index st1 0) (o_start st1) []
      | other => ([], other)
      end
    end
  with run_reqs (l : reqs) (st : oscope) (rest : list N) {struct l} : list tok * out oscope :=
    match l with
    | RNil => ([], Go st rest)
    | RCons r l' =>
      match run_req r st rest with
      | (t1, Go st1 r1) => let '(t2, oc) := run_reqs l' st1 r1 in (t1 ++ t2, oc)
      | failed => failed
      end
    end
  with run_areq (a : areq) (st : ascope) (rest : list N) {struct a} : list tok * out ascope :=
    let next := mkA (a_size st) (a_index st + 1) in
    match a with
    | AEnd => ([KIsEnd (a_index st =? a_size st)], Go st rest)
    | _ =>
      if a_index st =? a_size st then ([], Raise SERange st (Some rest))      (* CheckEnd *)
      else
        match a with
        | AGet t =>                                               (* SerializeValue(value); ++mIndex *)
          match read_target t rest with
          | ROk v r => ([KVal v], Go next r)
          | RNot r => ([KFalse], Go next r)
          | RErr e => ([], raise_typed e st rest)
          | RFuel => ([], NoFuel)
          end
        | AObj body =>
          match read_map_size o rest with
          | ROk n r =>
            let '(t, oc) := run_reqs body (mkO r n 0 None) r in
            (wrap_child t oc, after_child_obj (fun s => s) next oc)
          | RNot r => ([KNone], Go next r)
          | RErr e => ([], raise_typed e st rest)
          | RFuel => ([], NoFuel)
          end
        | AArr body =>
          match read_array_size o rest with
          | ROk n r =>
            let '(t, oc) := run_areqs body (mkA n 0) r in
            (wrap_child t oc, after_child_plain (fun s => s) next oc)
          | RNot r => ([KNone], Go next r)
          | RErr e => ([], raise_typed e st rest)
          | RFuel => ([], NoFuel)
          end
        | ABin n =>
          match read_value_type rest with
          | inr e => ([], Raise (SE e) st (Some rest))
          | inl TBin =>
            match read_bin_size o rest with
            | ROk sz r =>
              let '(t, oc) := bin_reads n (mkA sz 0) r in
              (wrap_child t oc, after_child_plain (fun s => s) next oc)
            | RNot r => ([KNone], Go next r)
            | RErr e => ([], raise_typed e st rest)
            | RFuel => ([], NoFuel)
            end
          | inl _ => ([KNone], Go st rest)
          end
        | AEnd => ([], Go st rest)
        end
    end
  with run_areqs (l : areqs) (st : ascope) (rest : list N) {struct l} : list tok * out ascope :=
    match l with
    | ANil => ([], Go st rest)
    | ACons a l' =>
      match run_areq a st rest with
      | (t1, Go st1 r1) => let '(t2, oc) := run_areqs l' st1 r1 in (t1 ++ t2, oc)
      | failed => failed
      end
    end.

  (* ---------- the root: MsgPackReadRootScope::OpenObjectScope / OpenArrayScope, the program, the
     scope's destruction; what is left is the reader position ---------- *)
  Inductive final :=
  | Done (toks : list tok) (rest : list N)
  | Failed (toks : list tok) (e : serr) (clean : bool)   (* clean = false: thrown from inside a value, the unwinding is not followed *)
  | FTerm | FFuel | FStale.

  Definition finish_root_obj (t : list tok) (oc : out oscope) : final :=
    match after_child_obj (fun u : unit => u) tt oc with
    | Go _ r => Done (wrap_child t oc) r
    | Raise e _ (Some _) => Failed (wrap_child t oc) e true
    | Raise e _ None => Failed (wrap_child t oc) e false
    | Term => FTerm | NoFuel => FFuel | Stale => FStale
    end.

  Definition finish_root_arr (t : list tok) (oc : out ascope) : final :=
    match oc with
    | Go _ r => Done (wrap_child t oc) r
    | Raise e _ (Some _) => Failed (wrap_child t oc) e true
    | Raise e _ None => Failed (wrap_child t oc) e false
    | Term => FTerm | NoFuel => FFuel | Stale => FStale
    end.

  Definition root_failed (e : err) (rest : list N) : final :=
    Failed [] (SE e) (match epos e rest with Some _ => true | None => false end).

  Definition run_obj_root (data : list N) (h : reqs) : final :=
    match read_map_size o data with
    | ROk n body => let '(t, oc) := run_reqs h (mkO body n 0 None) body in finish_root_obj t oc
    | RNot r => Done [KNone] r
    | RErr e => root_failed e data
    | RFuel => FFuel
    end.

  Definition run_arr_root (data : list N) (h : areqs) : final :=
    match read_array_size o data with
    | ROk n body => let '(t, oc) := run_areqs h (mkA n 0) body in finish_root_arr t oc
    | RNot r => Done [KNone] r
    | RErr e => root_failed e data
    | RFuel => FFuel
    end.
End Scopes.
