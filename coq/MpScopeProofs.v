(* MpScopeProofs.v — the object scope's cursor invariant, FindValueByKey, the destructor, and the
   refinement of request histories to the association-list specification. *)
From BS Require Import Base MpSpec MpModel MpLemmas MpReader MpTyped MpScopeSpec MpScopeModel MpScopeLemmas MpScopeTyped.
From Coq Require Import ZifyBool ZifyN ZifyNat.
Local Open Scope N_scope.
Ltac Zify.zify_post_hook ::= Z.div_mod_to_equations.

(* ---------- documents ---------- *)
Definition supported (kvs : list (mpv * mpv)) : Prop := Forall (fun kv => keyden (fst kv) <> None) kvs.
Definition keys_of (kvs : list (mpv * mpv)) : list key :=
  flat_map (fun kv => match keyden (fst kv) with Some k => [k] | None => [] end) kvs.

Definition kmatch (q : qkey) (kv : mpv * mpv) : bool :=
  match keyden (fst kv) with Some kk => key_eq kk (key_of_q q) | None => false end.
Definition nomatch (q : qkey) (l : list (mpv * mpv)) : Prop := Forall (fun kv => kmatch q kv = false) l.

Lemma split_first {A} (f : A -> bool) (l : list A) :
  Forall (fun x => f x = false) l \/
  exists lA x lB, l = lA ++ x :: lB /\ Forall (fun x => f x = false) lA /\ f x = true.
Proof.
  induction l as [|a l IH]; [left; constructor|].
  destruct (f a) eqn:Ea.
  - right. exists [], a, l. split; [reflexivity|]. split; [constructor | exact Ea].
  - destruct IH as [IH | [lA [x [lB [-> [HA Hx]]]]]].
    + left. constructor; assumption.
    + right. exists (a :: lA), x, lB. split; [reflexivity|]. split; [constructor; assumption | exact Hx].
Qed.

Lemma lookup_nomatch q l : nomatch q l -> lookup (key_of_q q) l = None.
Proof.
  induction 1 as [|[k v] l Hk _ IH]; [reflexivity|]. cbn [lookup]. unfold kmatch in Hk. cbn [fst] in Hk.
  destruct (keyden k); [rewrite Hk|]; exact IH.
Qed.

Lemma lookup_skip q lA lB : nomatch q lA -> lookup (key_of_q q) (lA ++ lB) = lookup (key_of_q q) lB.
Proof.
  induction 1 as [|[k v] l Hk _ IH]; [reflexivity|]. cbn [lookup app]. unfold kmatch in Hk. cbn [fst] in Hk.
  destruct (keyden k); [rewrite Hk|]; exact IH.
Qed.

Lemma lookup_hit q k v l : kmatch q (k, v) = true -> lookup (key_of_q q) ((k, v) :: l) = Some v.
Proof.
  unfold kmatch. cbn [fst lookup]. destruct (keyden k); [|discriminate]. intros ->. reflexivity.
Qed.

Lemma keys_of_app a b : keys_of (a ++ b) = keys_of a ++ keys_of b.
Proof. unfold keys_of. apply flat_map_app. Qed.

Lemma keys_distinct_app a b : keys_distinct (a ++ b) = true ->
  keys_distinct a = true /\ keys_distinct b = true /\
  forall x y, In x a -> In y b -> key_eq x y = false.
Proof.
  induction a as [|k a IH]; cbn [app keys_distinct]; intros H.
  - split; [reflexivity|]. split; [exact H|]. intros x y [].
  - apply andb_true_iff in H. destruct H as [H1 H2]. apply IH in H2. destruct H2 as [Ha [Hb Hab]].
    rewrite forallb_app in H1. apply andb_true_iff in H1. destruct H1 as [H1a H1b].
    split; [apply andb_true_iff; split; assumption|]. split; [exact Hb|].
    intros x y [<- | Hx] Hy.
    + rewrite forallb_forall in H1b. specialize (H1b y Hy). destruct (key_eq k y); [discriminate | reflexivity].
    + apply Hab; assumption.
Qed.

Lemma in_keys_of kv kk l : In kv l -> keyden (fst kv) = Some kk -> In kk (keys_of l).
Proof.
  intros Hin Hk. unfold keys_of. apply in_flat_map. exists kv. split; [exact Hin|]. rewrite Hk. left. reflexivity.
Qed.

(* with pairwise different keys a matching member is the only one *)
Lemma match_unique q lA km vm lB :
  keys_distinct (keys_of (lA ++ (km, vm) :: lB)) = true -> kmatch q (km, vm) = true ->
  nomatch q lA /\ nomatch q lB.
Proof.
  intros Hd Hm. unfold kmatch in Hm. cbn [fst] in Hm. destruct (keyden km) as [kk|] eqn:Ekm; [|discriminate].
  rewrite keys_of_app in Hd. apply keys_distinct_app in Hd. destruct Hd as [_ [Hd2 Hcross]].
  change ((km, vm) :: lB) with ([(km, vm)] ++ lB) in Hd2, Hcross. rewrite keys_of_app in Hd2, Hcross.
  apply keys_distinct_app in Hd2. destruct Hd2 as [_ [_ Hcross2]].
  assert (Hkk : In kk (keys_of [(km, vm)])) by (eapply in_keys_of; [left; reflexivity | exact Ekm]).
  split; apply Forall_forall; intros [k v] Hin; unfold kmatch; cbn [fst]; destruct (keyden k) as [k'|] eqn:Ek; try reflexivity.
  - destruct (key_eq k' (key_of_q q)) eqn:E; [|reflexivity].
    assert (key_eq k' kk = true) by (eapply key_eq_trans; [exact E | rewrite key_eq_sym; exact Hm]).
    rewrite (Hcross k' kk) in H; [discriminate | eapply in_keys_of; eassumption | apply in_or_app; left; exact Hkk].
  - destruct (key_eq k' (key_of_q q)) eqn:E; [|reflexivity].
    assert (key_eq kk k' = true) by (eapply key_eq_trans; [exact Hm | rewrite key_eq_sym; exact E]).
    rewrite (Hcross2 kk k') in H; [discriminate | exact Hkk | eapply in_keys_of; eassumption].
Qed.

Lemma olayout_split p kA : forall kB r, olayout p (kA ++ kB) r -> exists pA, olayout p kA pA /\ olayout pA kB r.
Proof.
  revert p. induction kA as [|[k v] kA IH]; intros p kB r H.
  - exists p. split; [constructor | exact H].
  - cbn [app] in H. inversion H as [|? ? pv ? p' ? ? Hk Hv Hrest]; subst.
    destruct (IH _ _ _ Hrest) as [pA [H1 H2]]. exists pA. split; [econstructor; eassumption | exact H2].
Qed.

Lemma alayout_nil_o p r : olayout p [] r -> p = r.
Proof. inversion 1; reflexivity. Qed.

Lemma supported_app a b : supported (a ++ b) -> supported a /\ supported b.
Proof. apply Forall_app. Qed.

Section Scope.
  Variable narrow : N -> option N.
  Variable widen : N -> N.
  Variable o : opts.

  Notation find_loop := (find_loop narrow widen o).
  Notation find_value_by_key := (find_value_by_key narrow widen o).
  Notation read_key := (read_key narrow widen o).

  (* ---------- the loop of FindValueByKey over members that do not match ---------- *)
  Lemma scan_nomatch q : forall kA fuel c start size idx key p pA,
    olayout p kA pA -> bytes p -> supported kA -> nomatch q kA ->
    c + N.of_nat (length kA) <= size -> idx + N.of_nat (length kA) <= size ->
    exists key',
      find_loop (length kA + fuel) q c (mkO start size idx key) p =
      find_loop fuel q (c + N.of_nat (length kA)) (mkO start size (idx + N.of_nat (length kA)) key') pA.
  Proof.
    induction kA as [|[k v] kA IH]; intros fuel c start size idx key p pA HL Hb Hs Hn Hc Hi.
    - inversion HL; subst. exists key. cbn [length Nat.add]. rewrite !N.add_0_r. reflexivity.
    - inversion HL as [|? ? pv ? p' ? ? Hk Hv Hrest]; subst.
      inversion Hs as [|? ? Hs0 Hs']; subst. inversion Hn as [|? ? Hn0 Hn']; subst.
      cbn [fst] in Hs0. destruct (keyden k) as [kk|] eqn:Ekk; [|congruence].
      destruct (read_key_on narrow widen o p k pv kk Hb Hk Ekk) as [sk [Hrk [Hsk Hok]]].
      cbn [length] in Hc, Hi |- *. cbn [Nat.add MpScopeModel.find_loop o_size o_index o_start set_index set_key].
      replace (c <? size) with true by (symmetry; lia).
      replace (idx =? size) with false by (symmetry; lia).
      rewrite Hrk. rewrite (skey_eq_spec sk q Hok), Hsk.
      unfold kmatch in Hn0. cbn [fst] in Hn0. rewrite Ekk in Hn0. rewrite Hn0.
      rewrite (skip_at_exact _ _ _ Hv).
      pose proof (decode_bytes _ _ _ Hk Hb) as Hbv. pose proof (decode_bytes _ _ _ Hv Hbv) as Hb'.
      destruct (IH fuel (c + 1) start size (idx + 1) (Some sk) p' pA Hrest Hb' Hs' Hn') as [key' E]; try lia.
      exists key'. unfold set_index, set_key. cbn [o_index o_start o_size o_key]. rewrite E. f_equal; [lia | f_equal; lia].
  Qed.

  Lemma scan_found q kA km vm pv : forall fuel c start size idx key p pA kk,
    olayout p kA pA -> bytes p -> supported kA -> nomatch q kA ->
    decode pA = Some (km, pv) -> keyden km = Some kk -> kmatch q (km, vm) = true ->
    c + N.of_nat (length kA) < size -> idx + N.of_nat (length kA) < size ->
    exists sk,
      find_loop (length kA + S fuel) q c (mkO start size idx key) p =
      Go (true, mkO start size (idx + N.of_nat (length kA)) (Some sk)) pv
      /\ key_of_skey sk = kk /\ skey_ok sk.
  Proof.
    intros fuel c start size idx key p pA kk HL Hb Hs Hn Hk Ekk Hm Hc Hi.
    destruct (scan_nomatch q kA (S fuel) c start size idx key p pA HL Hb Hs Hn) as [key' E]; try lia.
    rewrite E.
    assert (HbA : bytes pA) by (eapply suffix_bytes; [eapply olayout_suffix; exact HL | exact Hb]).
    destruct (read_key_on narrow widen o pA km pv kk HbA Hk Ekk) as [sk [Hrk [Hsk Hok]]].
    exists sk. split; [|split; [exact Hsk | exact Hok]].
    cbn [MpScopeModel.find_loop o_size o_index o_start set_index set_key].
    replace (c + N.of_nat (length kA) <? size) with true by (symmetry; lia).
    replace (idx + N.of_nat (length kA) =? size) with false by (symmetry; lia).
    rewrite Hrk. rewrite (skey_eq_spec sk q Hok), Hsk.
    unfold kmatch in Hm. cbn [fst] in Hm. rewrite Ekk in Hm. rewrite Hm.
    reflexivity.
  Qed.

  Lemma find_loop_wrap fuel q c start size key p : c < size ->
    find_loop fuel q c (mkO start size size key) p = find_loop fuel q c (mkO start size 0 key) start.
  Proof.
    intros Hs. destruct fuel as [|f]; [reflexivity|].
    cbn [MpScopeModel.find_loop o_size o_index o_start set_index set_key].
    replace (c <? size) with true by (symmetry; lia).
    rewrite N.eqb_refl. replace (0 =? size) with false by (symmetry; lia).
    cbn [set_index set_key o_start o_size o_index o_key]. reflexivity.
  Qed.

  Lemma find_loop_exit fuel q c start size idx key p : size <= c ->
    find_loop (S fuel) q c (mkO start size idx key) p = Go (false, mkO start size idx None) p.
  Proof.
    intros Hc. cbn [MpScopeModel.find_loop o_size set_key o_start o_index]. replace (c <? size) with false by (symmetry; lia). reflexivity.
  Qed.

  (* ---------- one document ---------- *)
  Section Doc.
    Variable body : list N.
    Variable kvs : list (mpv * mpv).
    Variable rend : list N.
    Hypothesis Hbody : bytes body.
    Hypothesis Hlay : olayout body kvs rend.
    Hypothesis Hsup : supported kvs.
    Hypothesis Hdist : keys_distinct (keys_of kvs) = true.

    Let size := N.of_nat (length kvs).

    (* the reader stands at the value of member (km, vm), whose key is in mCurrentKey *)
    Inductive at_member : oscope -> list N -> mpv -> list N -> Prop :=
    | AM kvs1 km vm kvs2 pk p pn sk :
        kvs = kvs1 ++ (km, vm) :: kvs2 -> olayout body kvs1 pk ->
        decode pk = Some (km, p) -> decode p = Some (vm, pn) -> olayout pn kvs2 rend ->
        keyden km = Some (key_of_skey sk) -> skey_ok sk ->
        at_member (mkO body size (N.of_nat (length kvs1)) (Some sk)) p vm pn.

    (* the cursor invariant: reader position = start of member mIndex (mCurrentKey empty), or the
       value of member mIndex (mCurrentKey = its key); mIndex <= mSize *)
    Inductive cursor : oscope -> list N -> Prop :=
    | C_at kvs1 kvs2 p :
        kvs = kvs1 ++ kvs2 -> olayout body kvs1 p -> olayout p kvs2 rend ->
        cursor (mkO body size (N.of_nat (length kvs1)) None) p
    | C_key st p vm pn : at_member st p vm pn -> cursor st p.

    Lemma cursor_index st p : cursor st p -> o_index st <= o_size st /\ o_start st = body /\ o_size st = size.
    Proof.
      intros [kvs1 kvs2 p0 E _ _ | st0 p0 vm pn [kvs1 km vm0 kvs2 pk p1 pn0 sk E _ _ _ _ _ _]];
        cbn [o_index o_size o_start]; subst size; rewrite E, app_length; cbn [length]; repeat split; lia.
    Qed.

    Lemma pos_bytes kvs1 p : olayout body kvs1 p -> bytes p.
    Proof. intros H. eapply suffix_bytes; [eapply olayout_suffix; exact H | exact Hbody]. Qed.

    Lemma after_member st p vm pn : at_member st p vm pn -> cursor (on_finish_child st) pn.
    Proof.
      intros [kvs1 km vm0 kvs2 pk p1 pn0 sk E H1 Hk Hv H2 _ _].
      unfold on_finish_child. cbn [o_start o_size o_index].
      replace (N.of_nat (length kvs1) + 1) with (N.of_nat (length (kvs1 ++ [(km, vm0)]))) by (rewrite app_length; cbn [length]; lia).
      apply (C_at (kvs1 ++ [(km, vm0)]) kvs2).
      - rewrite <- app_assoc. exact E.
      - eapply olayout_snoc; eassumption.
      - exact H2.
    Qed.

    Lemma body_length : (2 * length kvs <= length body)%nat.
    Proof. pose proof (olayout_length _ _ _ Hlay). lia. Qed.

    (* FindValueByKey's loop from a cursor without current key *)
    Lemma find_from_at q kvs1 kvs2 p :
      kvs = kvs1 ++ kvs2 -> olayout body kvs1 p -> olayout p kvs2 rend ->
      exists b st' p',
        find_loop (S (length body)) q 0 (mkO body size (N.of_nat (length kvs1)) None) p = Go (b, st') p' /\
        match lookup (key_of_q q) kvs with
        | Some v => b = true /\ exists pn, at_member st' p' v pn
        | None => b = false /\
                  st' = mkO body size (if (length kvs1 =? 0)%nat then size else N.of_nat (length kvs1)) None /\
                  p' = (if (length kvs1 =? 0)%nat then rend else p)
        end.
    Proof.
      intros E H1 H2.
      pose proof body_length as HBL.
      assert (Hlen : length kvs = (length kvs1 + length kvs2)%nat) by (rewrite E, app_length; reflexivity).
      pose proof Hsup as Hsup'. rewrite E in Hsup'. apply supported_app in Hsup'. destruct Hsup' as [Hs1 Hs2].
      pose proof (pos_bytes _ _ H1) as Hbp.
      destruct (split_first (kmatch q) kvs2) as [Hn2 | [kA [[km vm] [kB [E2 [HnA Hm]]]]]].
      2:{ (* found in the part not yet passed *)
        subst kvs2. destruct (olayout_split _ _ _ _ H2) as [pA [HA HB]].
        inversion HB as [|? ? pv ? pn ? ? Hk Hv Hrest]; subst.
        pose proof Hm as Hm'. unfold kmatch in Hm'. cbn [fst] in Hm'. destruct (keyden km) as [kk|] eqn:Ekk; [|discriminate].
        apply supported_app in Hs2. destruct Hs2 as [HsA _].
        rewrite app_length in Hlen. cbn [length] in Hlen.
        destruct (scan_found q kA km vm pv (length body - length kA) 0 body size (N.of_nat (length kvs1)) None p pA kk
                    HA Hbp HsA HnA Hk Ekk Hm) as [sk [Ef [Hsk Hok]]]; try (subst size; lia).
        replace (length kA + S (length body - length kA))%nat with (S (length body)) in Ef by lia.
        eexists _, _, _. split; [exact Ef|].
        assert (Eall : kvs = (kvs1 ++ kA) ++ (km, vm) :: kB) by (rewrite E, app_assoc; reflexivity).
        pose proof Hdist as Hd. rewrite Eall in Hd. destruct (match_unique q _ _ _ _ Hd Hm) as [Hno _].
        assert (Hl : lookup (key_of_q q) kvs = Some vm)
          by (rewrite Eall; rewrite (lookup_skip q _ _ Hno); apply (lookup_hit q km vm kB Hm)).
        rewrite Hl. split; [reflexivity|]. exists pn.
        replace (N.of_nat (length kvs1) + N.of_nat (length kA)) with (N.of_nat (length (kvs1 ++ kA))) by (rewrite app_length; lia).
        eapply (AM (kvs1 ++ kA) km vm kB pA pv pn sk); try eassumption.
        - eapply olayout_app; eassumption.
        - rewrite Hsk. exact Ekk. }
      (* nothing in the part not yet passed: run to the end *)
      destruct (scan_nomatch q kvs2 (S (length body) - length kvs2) 0 body size (N.of_nat (length kvs1)) None p rend
                  H2 Hbp Hs2 Hn2) as [key2 Escan]; try (subst size; lia).
      replace (length kvs2 + (S (length body) - length kvs2))%nat with (S (length body)) in Escan by lia.
      rewrite Escan. clear Escan.
      replace (N.of_nat (length kvs1) + N.of_nat (length kvs2)) with size by (subst size; lia).
      rewrite N.add_0_l.
      destruct (split_first (kmatch q) kvs1) as [Hn1 | [kA [[km vm] [kB [E1 [HnA Hm]]]]]].
      2:{ (* found before the cursor: wrap around *)
        subst kvs1. rewrite app_length in Hlen. cbn [length] in Hlen.
        rewrite find_loop_wrap by (subst size; lia).
        destruct (olayout_split _ _ _ _ H1) as [pA [HA HB]].
        inversion HB as [|? ? pv ? pn ? ? Hk Hv Hrest]; subst.
        pose proof Hm as Hm'. unfold kmatch in Hm'. cbn [fst] in Hm'. destruct (keyden km) as [kk|] eqn:Ekk; [|discriminate].
        apply supported_app in Hs1. destruct Hs1 as [HsA _].
        destruct (scan_found q kA km vm pv (length body - length kvs2 - length kA) (N.of_nat (length kvs2)) body size 0 key2 body pA kk
                    HA Hbody HsA HnA Hk Ekk Hm) as [sk [Ef [Hsk Hok]]]; try (subst size; lia).
        replace (length kA + S (length body - length kvs2 - length kA))%nat with (S (length body) - length kvs2)%nat in Ef by lia.
        eexists _, _, _. split; [exact Ef|].
        assert (Eall : kvs = kA ++ (km, vm) :: (kB ++ kvs2)) by (rewrite E, <- app_assoc; reflexivity).
        pose proof Hdist as Hd. rewrite Eall in Hd. destruct (match_unique q _ _ _ _ Hd Hm) as [Hno _].
        assert (Hl : lookup (key_of_q q) kvs = Some vm)
          by (rewrite Eall; rewrite (lookup_skip q _ _ Hno); apply (lookup_hit q km vm _ Hm)).
        rewrite Hl. split; [reflexivity|]. exists pn. rewrite N.add_0_l.
        eapply (AM kA km vm (kB ++ kvs2) pA pv pn sk); try eassumption.
        - eapply olayout_app; eassumption.
        - rewrite Hsk. exact Ekk. }
      (* the key is absent *)
      assert (Hnone : lookup (key_of_q q) kvs = None).
      { rewrite E. apply lookup_nomatch. apply Forall_app. split; assumption. }
      rewrite Hnone.
      destruct kvs1 as [|kv1 kvs1'].
      - (* started at the first member: the loop ends at the end of the object *)
        cbn [length Nat.eqb] in *. cbn [N.of_nat] in *.
        replace (S (length body) - length kvs2)%nat with (S (length body - length kvs2)) by lia.
        rewrite find_loop_exit by (subst size; lia).
        eexists _, _, _. split; [reflexivity|]. split; [reflexivity|]. split; reflexivity.
      - rewrite find_loop_wrap by (subst size; cbn [length] in *; lia).
        set (k1 := kv1 :: kvs1') in *.
        destruct (scan_nomatch q k1 (S (length body) - length kvs2 - length k1) (N.of_nat (length kvs2)) body size 0 key2 body p
                    H1 Hbody Hs1 Hn1) as [key3 Escan]; try (subst size; lia).
        replace (length k1 + (S (length body) - length kvs2 - length k1))%nat with (S (length body) - length kvs2)%nat in Escan by lia.
        rewrite Escan. clear Escan.
        replace (S (length body) - length kvs2 - length k1)%nat with (S (length body - length kvs2 - length k1)) by lia.
        rewrite find_loop_exit by (subst size; lia).
        eexists _, _, _. split; [reflexivity|]. split; [reflexivity|].
        subst k1. cbn [length Nat.eqb]. rewrite N.add_0_l. split; reflexivity.
    Qed.
  
    Lemma at_member_facts st p vm pn : at_member st p vm pn ->
      decode p = Some (vm, pn) /\ bytes p /\ bytes pn /\ In vm (map snd kvs) /\ exists sk, o_key st = Some sk.
    Proof.
      intros [kvs1 km vm0 kvs2 pk p1 pn0 sk E H1 Hk Hv H2 _ _].
      pose proof (pos_bytes _ _ H1) as Hb. pose proof (decode_bytes _ _ _ Hk Hb) as Hb1.
      split; [exact Hv|]. split; [exact Hb1|]. split; [eapply decode_bytes; eassumption|].
      split; [|eexists; reflexivity].
      rewrite E, map_app. apply in_or_app. right. left. reflexivity.
    Qed.

    Lemma at_member_match q st p vm pn sk : at_member st p vm pn -> o_key st = Some sk -> skey_eq sk q = true ->
      lookup (key_of_q q) kvs = Some vm.
    Proof.
      intros [kvs1 km vm0 kvs2 pk p1 pn0 sk0 E H1 Hk Hv H2 Hkd Hok] Hkey Heq. cbn [o_key] in Hkey. injection Hkey as <-.
      rewrite (skey_eq_spec sk0 q Hok) in Heq.
      assert (Hm : kmatch q (km, vm0) = true) by (unfold kmatch; cbn [fst]; rewrite Hkd; exact Heq).
      pose proof Hdist as Hd. rewrite E in Hd. destruct (match_unique q _ _ _ _ Hd Hm) as [Hno _].
      rewrite E, (lookup_skip q _ _ Hno). apply lookup_hit. exact Hm.
    Qed.

    (* FindValueByKey from any state satisfying the invariant *)
    Lemma find_spec q st p : cursor st p ->
      exists b st' p', find_value_by_key q st p = Go (b, st') p' /\
        match lookup (key_of_q q) kvs with
        | Some v => b = true /\ exists pn, at_member st' p' v pn
        | None => b = false /\ cursor st' p' /\ o_key st' = None
        end.
    Proof.
      assert (Hat : forall kvs1 kvs2 p0, kvs = kvs1 ++ kvs2 -> olayout body kvs1 p0 -> olayout p0 kvs2 rend ->
                exists b st' p', find_loop (S (length body)) q 0 (mkO body size (N.of_nat (length kvs1)) None) p0 = Go (b, st') p' /\
                  match lookup (key_of_q q) kvs with
                  | Some v => b = true /\ exists pn, at_member st' p' v pn
                  | None => b = false /\ cursor st' p' /\ o_key st' = None
                  end).
      { intros kvs1 kvs2 p0 E H1 H2.
        destruct (find_from_at q kvs1 kvs2 p0 E H1 H2) as [b [st' [p' [Ef Hres]]]].
        exists b, st', p'. split; [exact Ef|].
        destruct (lookup (key_of_q q) kvs); [exact Hres|].
        destruct Hres as [-> [-> ->]]. split; [reflexivity|]. split; [|reflexivity].
        destruct kvs1 as [|kv kvs1']; cbn [length Nat.eqb].
        - inversion H1; subst. cbn [app] in *.
          exact (C_at kvs [] rend (eq_sym (app_nil_r kvs)) Hlay (OL_nil rend)).
        - apply (C_at (kv :: kvs1') kvs2 p0); assumption. }
      intros [kvs1 kvs2 p0 E H1 H2 | st0 p0 vm pn HM].
      - unfold MpScopeModel.find_value_by_key. cbn [o_key o_start]. apply (Hat kvs1 kvs2 p0 E H1 H2).
      - destruct (at_member_facts _ _ _ _ HM) as [Hv [Hbp [Hbn [_ [sk Hkey]]]]].
        unfold MpScopeModel.find_value_by_key. rewrite Hkey.
        destruct (skey_eq sk q) eqn:Eq.
        + exists true, st0, p0. split; [reflexivity|].
          rewrite (at_member_match q _ _ _ _ sk HM Hkey Eq). split; [reflexivity|]. exists pn. exact HM.
        + unfold reset_key. rewrite Hkey. rewrite (skip_at_exact _ _ _ Hv).
          pose proof (after_member _ _ _ _ HM) as Hc.
          destruct HM as [kvs1 km vm0 kvs2 pk p1 pn0 sk0 E H1 Hk Hv0 H2 Hkd Hok].
          unfold on_finish_child in *. cbn [o_start o_size o_index] in *.
          replace (N.of_nat (length kvs1) + 1) with (N.of_nat (length (kvs1 ++ [(km, vm0)]))) by (rewrite app_length; cbn [length]; lia).
          apply (Hat (kvs1 ++ [(km, vm0)]) kvs2 pn0).
          * rewrite <- app_assoc. exact E.
          * eapply olayout_snoc; eassumption.
          * exact H2.
    Qed.

    (* ---------- the destructor ---------- *)
    Lemma close_loop_spec : forall kvs2 fuel c p, olayout p kvs2 rend -> (length kvs2 < fuel)%nat ->
      c + N.of_nat (length kvs2) = size -> close_loop fuel c size p = CDone rend false.
    Proof.
      induction kvs2 as [|[k v] kvs2 IH]; intros fuel c p HL Hf Hc; (destruct fuel as [|f]; [cbn [length] in Hf; lia|]); cbn [close_loop].
      - inversion HL; subst. replace (c <? size) with false by (symmetry; cbn [length] in Hc; lia). reflexivity.
      - inversion HL as [|? ? pv ? p' ? ? Hk Hv Hrest]; subst. cbn [length] in Hc, Hf.
        replace (c <? size) with true by (symmetry; lia).
        rewrite (skip_at_exact _ _ _ Hk), (skip_at_exact _ _ _ Hv). apply IH; [exact Hrest | lia | lia].
    Qed.

    Lemma close_spec st p : cursor st p -> close_obj st p = CDone rend false.
    Proof.
      intros [kvs1 kvs2 p0 E H1 H2 | st0 p0 vm pn HM].
      - unfold close_obj, reset_key. cbn [o_key o_index o_size].
        apply (close_loop_spec kvs2); [exact H2 | pose proof (olayout_length _ _ _ H2); lia | subst size; rewrite E, app_length; lia].
      - destruct HM as [kvs1 km vm0 kvs2 pk p1 pn0 sk0 E H1 Hk Hv0 H2 Hkd Hok].
        unfold close_obj, reset_key. cbn [o_key]. rewrite (skip_at_exact _ _ _ Hv0).
        unfold on_finish_child. cbn [o_index o_size o_start].
        apply (close_loop_spec kvs2); [exact H2 | pose proof (olayout_length _ _ _ H2); lia | subst size; rewrite E, app_length; cbn [length]; lia].
    Qed.

    (* ---------- VisitKeys ---------- *)
    Lemma visit_loop_spec : forall kvs2 fuel kvs1 p acc, kvs = kvs1 ++ kvs2 -> olayout body kvs1 p -> olayout p kvs2 rend ->
      (length kvs2 < fuel)%nat ->
      visit_loop narrow widen o fuel (mkO body size (N.of_nat (length kvs1)) None) p acc =
      ([KKeys (acc ++ keys_of kvs2)], Go (mkO body size size None) rend).
    Proof.
      induction kvs2 as [|[k v] kvs2 IH]; intros fuel kvs1 p acc E H1 H2 Hf; (destruct fuel as [|f]; [cbn [length] in Hf; lia|]);
        cbn [visit_loop o_index o_size].
      - pose proof (f_equal (@length _) E) as Hl. rewrite app_length in Hl. cbn [length] in Hl.
        apply alayout_nil_o in H2. rewrite <- H2.
        replace (N.of_nat (length kvs1) <? size) with false by (symmetry; subst size; lia).
        cbn [keys_of flat_map]. rewrite app_nil_r. subst size. replace (length kvs1) with (length kvs) by lia. reflexivity.
      - inversion H2 as [|? ? pv ? p' ? ? Hk Hv Hrest]; subst.
        replace (N.of_nat (length kvs1) <? size) with true by (symmetry; subst size; rewrite app_length; cbn [length]; lia).
        pose proof Hsup as Hs. apply supported_app in Hs. destruct Hs as [_ Hs].
        inversion Hs as [|? ? Hs0 _]; subst. cbn [fst] in Hs0. destruct (keyden k) as [kk|] eqn:Ekk; [|congruence].
        destruct (read_key_on narrow widen o p k pv kk (pos_bytes _ _ H1) Hk Ekk) as [sk [Hrk [Hsk Hok]]].
        rewrite Hrk. unfold reset_key, set_key. cbn [o_key]. rewrite (skip_at_exact _ _ _ Hv).
        unfold on_finish_child. cbn [o_start o_size o_index].
        replace (N.of_nat (length kvs1) + 1) with (N.of_nat (length (kvs1 ++ [(k, v)]))) by (rewrite app_length; cbn [length]; lia).
        rewrite (IH f (kvs1 ++ [(k, v)]) p' (acc ++ [key_of_skey sk])).
        + rewrite Hsk. unfold keys_of. cbn [flat_map fst]. rewrite Ekk. cbn [app]. rewrite <- app_assoc. reflexivity.
        + rewrite <- app_assoc. reflexivity.
        + eapply olayout_snoc; eassumption.
        + exact Hrest.
        + cbn [length] in Hf. lia.
    Qed.
  
    (* ---------- FindValueByKey with the key the VisitKeys callback was handed ---------- *)
    Lemma key_of_qkey_of_skey sk : key_of_q (qkey_of_skey sk) = key_of_skey sk.
    Proof. destruct sk; reflexivity. Qed.

    (* ---------- FindValueByKey with the key the VisitKeys callback was handed (a copy since d346324) ---------- *)
    Lemma irreflexive_absent q : key_eq (key_of_q q) (key_of_q q) = false -> lookup (key_of_q q) kvs = None.
    Proof.
      intros Hq. apply lookup_nomatch. apply Forall_forall. intros [k v] _. unfold kmatch. cbn [fst].
      destruct (keyden k) as [k'|]; [|reflexivity]. destruct (key_eq k' (key_of_q q)) eqn:E; [|reflexivity].
      rewrite (key_eq_trans (key_of_q q) k' (key_of_q q)) in Hq; [discriminate Hq | rewrite key_eq_sym; exact E | exact E].
    Qed.

    (* the key is current: either it equals itself (found at once, nothing moved), or it does not (a NaN float /
       double key): the value is skipped, a full cycle finds nothing and comes back behind that member *)
    Lemma find_current st p vm pn sk : at_member st p vm pn -> o_key st = Some sk ->
      let q := qkey_of_skey sk in
      (find_value_by_key q st p = Go (true, st) p /\ lookup (key_of_q q) kvs = Some vm) \/
      (find_value_by_key q st p = Go (false, on_finish_child st) pn /\
       find_value_by_key q (on_finish_child st) pn = Go (false, on_finish_child st) pn /\
       lookup (key_of_q q) kvs = None).
    Proof.
      intros HM Hkey q.
      destruct (skey_eq sk q) eqn:Eq.
      - left. split; [unfold MpScopeModel.find_value_by_key; rewrite Hkey, Eq; reflexivity|].
        exact (at_member_match q _ _ _ _ sk HM Hkey Eq).
      - right.
        assert (Habs : lookup (key_of_q q) kvs = None).
        { apply irreflexive_absent. subst q. rewrite key_of_qkey_of_skey.
          destruct HM as [kvs1 km vm0 kvs2 pk p1 pn0 sk0 E H1 Hk Hv0 H2 Hkd Hok]. cbn [o_key] in Hkey. injection Hkey as <-.
          rewrite (skey_eq_spec sk0 _ Hok), key_of_qkey_of_skey in Eq. exact Eq. }
        destruct HM as [kvs1 km vm0 kvs2 pk p1 pn0 sk0 E H1 Hk Hv0 H2 Hkd Hok].
        cbn [o_key] in Hkey. injection Hkey as <-.
        unfold MpScopeModel.find_value_by_key at 1. cbn [o_key]. rewrite Eq.
        unfold reset_key. cbn [o_key]. rewrite (skip_at_exact _ _ _ Hv0).
        unfold on_finish_child. cbn [o_start o_size o_index].
        replace (N.of_nat (length kvs1) + 1) with (N.of_nat (length (kvs1 ++ [(km, vm0)]))) by (rewrite app_length; cbn [length]; lia).
        assert (E' : kvs = (kvs1 ++ [(km, vm0)]) ++ kvs2) by (rewrite <- app_assoc; exact E).
        assert (H1' : olayout body (kvs1 ++ [(km, vm0)]) pn0) by (eapply olayout_snoc; eassumption).
        destruct (find_from_at q _ _ _ E' H1' H2) as [b [st' [p' [Ef Hres]]]]. rewrite Habs in Hres. destruct Hres as [-> [-> ->]].
        assert (Hl : (length (kvs1 ++ [(km, vm0)]) =? 0)%nat = false) by (rewrite app_length; cbn [length]; apply Nat.eqb_neq; lia).
        rewrite Hl in Ef.
        split; [exact Ef|]. split; [|exact Habs].
        unfold MpScopeModel.find_value_by_key. cbn [o_key o_start]. exact Ef.
    Qed.
  End Doc.
End Scope.
