(* MpScopeRefine.v — request histories on the scope model refine the association-list specification
   (mutual induction over programs), the root scopes, and the consequences stated in Properties_C03. *)
From BS Require Import Base MpSpec MpModel MpLemmas MpReader MpTyped MpScopeSpec MpScopeModel MpScopeLemmas MpScopeTyped MpScopeProofs.
From Coq Require Import ZifyBool ZifyN ZifyNat.
Local Open Scope N_scope.
Ltac Zify.zify_post_hook ::= Z.div_mod_to_equations.

Scheme req_mind := Induction for req Sort Prop
  with reqs_mind := Induction for reqs Sort Prop
  with areq_mind := Induction for areq Sort Prop
  with areqs_mind := Induction for areqs Sort Prop.
Combined Scheme program_mutind from req_mind, reqs_mind, areq_mind, areqs_mind.

(* ---------- well-formed documents ---------- *)
Lemma doc_ok_map kvs : doc_ok (MMap kvs) = true ->
  supported kvs /\ keys_distinct (keys_of kvs) = true /\ forall v, In v (map snd kvs) -> doc_ok v = true.
Proof.
  cbn [doc_ok]. intros H. apply andb_true_iff in H. destruct H as [H H3]. apply andb_true_iff in H. destruct H as [H1 H2].
  split; [|split].
  - apply Forall_forall. intros kv Hin. rewrite forallb_forall in H1. specialize (H1 kv Hin).
    destruct (keyden (fst kv)); [discriminate | discriminate H1].
  - exact H2.
  - intros v Hin. apply in_map_iff in Hin. destruct Hin as [kv [<- Hin]]. rewrite forallb_forall in H3. apply (H3 kv Hin).
Qed.

Lemma doc_ok_arr vs : doc_ok (MArr vs) = true -> Forall (fun v => doc_ok v = true) vs.
Proof. cbn [doc_ok]. intros H. apply Forall_forall. rewrite forallb_forall in H. exact H. Qed.

Section Refine.
  Variable narrow : N -> option N.
  Variable widen : N -> N.
  Variable o : opts.

  Notation run_req := (run_req narrow widen o).
  Notation run_reqs := (run_reqs narrow widen o).
  Notation run_areq := (run_areq narrow widen o).
  Notation run_areqs := (run_areqs narrow widen o).
  Notation spec_req := (spec_req narrow widen o).
  Notation spec_reqs := (spec_reqs narrow widen o).
  Notation spec_areq := (spec_areq narrow widen o).
  Notation spec_areqs := (spec_areqs narrow widen o).
  Notation all_ok := (Forall (fun v => doc_ok v = true)).

  Definition P_req (r : req) : Prop :=
    forall body kvs rend, bytes body -> olayout body kvs rend -> doc_ok (MMap kvs) = true ->
    forall st p, cursor body kvs rend st p ->
    forall toks, spec_req kvs r = (toks, None, true) ->
    exists st' p', run_req r st p = (toks, Go st' p') /\ cursor body kvs rend st' p'.

  Definition P_reqs (l : reqs) : Prop :=
    forall body kvs rend, bytes body -> olayout body kvs rend -> doc_ok (MMap kvs) = true ->
    forall st p, cursor body kvs rend st p ->
    forall toks, spec_reqs kvs l = (toks, None, true) ->
    exists st' p', run_reqs l st p = (toks, Go st' p') /\ cursor body kvs rend st' p'.

  Definition P_areq (a : areq) : Prop :=
    forall vs rend p, bytes p -> alayout p vs rend -> all_ok vs ->
    forall size idx, idx + N.of_nat (length vs) = size ->
    forall toks vs', spec_areq vs a = ((toks, None, true), vs') ->
    exists idx' p', run_areq a (mkA size idx) p = (toks, Go (mkA size idx') p') /\
      bytes p' /\ alayout p' vs' rend /\ all_ok vs' /\ idx' + N.of_nat (length vs') = size.

  Definition P_areqs (l : areqs) : Prop :=
    forall vs rend p, bytes p -> alayout p vs rend -> all_ok vs ->
    forall size idx, idx + N.of_nat (length vs) = size ->
    forall toks vs', spec_areqs vs l = ((toks, None, true), vs') ->
    exists idx' p', run_areqs l (mkA size idx) p = (toks, Go (mkA size idx') p') /\
      bytes p' /\ alayout p' vs' rend /\ all_ok vs' /\ idx' + N.of_nat (length vs') = size.

  (* ---------- unfolding equations of the mutual fixpoints (stated with the folded names) ---------- *)
  Lemma spec_reqs_cons kvs r l : spec_reqs kvs (RCons r l) =
    match spec_req kvs r with
    | (t1, None, c1) => match spec_reqs kvs l with (t2, e2, c2) => (t1 ++ t2, e2, c1 && c2) end
    | failed => failed
    end.
  Proof. reflexivity. Qed.

  Lemma spec_req_obj kvs q body : spec_req kvs (RObj q body) =
    match lookup (key_of_q q) kvs with
    | None => ([KNone], None, true)
    | Some (MMap kvs') => child (spec_reqs kvs' body) true
    | Some v => not_container o v
    end.
  Proof. reflexivity. Qed.

  Lemma spec_req_arr kvs q body : spec_req kvs (RArr q body) =
    match lookup (key_of_q q) kvs with
    | None => ([KNone], None, true)
    | Some (MArr vs) =>
      match spec_areqs vs body with (r', lft) => child r' (match lft with [] => true | _ => false end) end
    | Some v => not_container o v
    end.
  Proof. reflexivity. Qed.

  Lemma spec_areqs_cons vs a l : spec_areqs vs (ACons a l) =
    match spec_areq vs a with
    | ((t1, None, c1), vs1) =>
      match spec_areqs vs1 l with ((t2, e2, c2), vs2) => ((t1 ++ t2, e2, c1 && c2), vs2) end
    | failed => failed
    end.
  Proof. reflexivity. Qed.

  Lemma spec_areq_obj v vs body : spec_areq (v :: vs) (AObj body) =
    match v with
    | MMap kvs' => (child (spec_reqs kvs' body) true, vs)
    | _ => (not_container o v, vs)
    end.
  Proof. reflexivity. Qed.

  Lemma spec_areq_arr v vs body : spec_areq (v :: vs) (AArr body) =
    match v with
    | MArr vs2 =>
      match spec_areqs vs2 body with (r', lft) => (child r' (match lft with [] => true | _ => false end), vs) end
    | _ => (not_container o v, vs)
    end.
  Proof. reflexivity. Qed.

  Lemma run_reqs_cons r l st rest : run_reqs (RCons r l) st rest =
    match run_req r st rest with
    | (t1, Go st1 r1) => let '(t2, oc) := run_reqs l st1 r1 in (t1 ++ t2, oc)
    | failed => failed
    end.
  Proof. reflexivity. Qed.

  Lemma run_areqs_cons a l st rest : run_areqs (ACons a l) st rest =
    match run_areq a st rest with
    | (t1, Go st1 r1) => let '(t2, oc) := run_areqs l st1 r1 in (t1 ++ t2, oc)
    | failed => failed
    end.
  Proof. reflexivity. Qed.

  Lemma run_req_obj q body st rest : run_req (RObj q body) st rest =
    lift_find (find_value_by_key narrow widen o q st rest)
      (fun st1 r1 =>
         match read_map_size o r1 with
         | ROk n r2 =>
           let '(t, oc) := run_reqs body (mkO r2 n 0 None) r2 in
           (wrap_child t oc, after_child_obj on_finish_child st1 oc)
         | RNot r2 => ([KNone], Go (on_finish_child st1) r2)
         | RErr e => ([], raise_typed e st1 r1)
         | RFuel => ([], NoFuel)
         end)
      (fun st1 r1 => ([KNone], Go st1 r1))
      (fun e s p => Raise e s p).
  Proof. reflexivity. Qed.

  Lemma run_req_arr q body st rest : run_req (RArr q body) st rest =
    lift_find (find_value_by_key narrow widen o q st rest)
      (fun st1 r1 =>
         match read_array_size o r1 with
         | ROk n r2 =>
           let '(t, oc) := run_areqs body (mkA n 0) r2 in
           (wrap_child t oc, after_child_plain on_finish_child st1 oc)
         | RNot r2 => ([KNone], Go (on_finish_child st1) r2)
         | RErr e => ([], raise_typed e st1 r1)
         | RFuel => ([], NoFuel)
         end)
      (fun st1 r1 => ([KNone], Go st1 r1))
      (fun e s p => Raise e s p).
  Proof. reflexivity. Qed.

  Lemma run_areq_obj body size idx rest : (idx =? size) = false -> run_areq (AObj body) (mkA size idx) rest =
    match read_map_size o rest with
    | ROk n r =>
      let '(t, oc) := run_reqs body (mkO r n 0 None) r in
      (wrap_child t oc, after_child_obj (fun s => s) (mkA size (idx + 1)) oc)
    | RNot r => ([KNone], Go (mkA size (idx + 1)) r)
    | RErr e => ([], raise_typed e (mkA size idx) rest)
    | RFuel => ([], NoFuel)
    end.
  Proof. intros H. cbn [MpScopeModel.run_areq a_index a_size]. rewrite H. reflexivity. Qed.

  Lemma run_areq_arr body size idx rest : (idx =? size) = false -> run_areq (AArr body) (mkA size idx) rest =
    match read_array_size o rest with
    | ROk n r =>
      let '(t, oc) := run_areqs body (mkA n 0) r in
      (wrap_child t oc, after_child_plain (fun s => s) (mkA size (idx + 1)) oc)
    | RNot r => ([KNone], Go (mkA size (idx + 1)) r)
    | RErr e => ([], raise_typed e (mkA size idx) rest)
    | RFuel => ([], NoFuel)
    end.
  Proof. intros H. cbn [MpScopeModel.run_areq a_index a_size]. rewrite H. reflexivity. Qed.

  Lemma of_tres_go t toks : of_tres t = (toks, None, true) ->
    (exists x, t = TVal x /\ toks = [KVal x]) \/ (t = TNot /\ toks = [KFalse]).
  Proof.
    destruct t; cbn [of_tres]; intros H; [left | right | discriminate].
    - exists v. split; [reflexivity | congruence].
    - split; [reflexivity | congruence].
  Qed.

  (* SerializeValue(key, value) *)
  Lemma H_get q t : P_req (RGet q t).
  Proof.
    intros body kvs rend Hb HL Hok st p Hc toks Hs.
    destruct (doc_ok_map _ Hok) as [Hsup [Hdist Hvals]].
    destruct (find_spec narrow widen o body kvs rend Hb HL Hsup Hdist q st p Hc) as [b [st1 [p1 [Ef Hres]]]].
    cbn [MpScopeModel.run_req]. rewrite Ef. cbn [MpScopeSpec.spec_req] in Hs.
    destruct (lookup (key_of_q q) kvs) as [v|].
    - destruct Hres as [-> [pn HM]]. cbn [lift_find].
      destruct (at_member_facts body kvs rend Hb _ _ _ _ HM) as [Hv [Hbp _]].
      rewrite (read_target_on narrow widen o t p1 v pn Hbp Hv).
      pose proof (after_member narrow widen body kvs rend _ _ _ _ HM) as Hc'.
      destruct (of_tres_go _ _ Hs) as [[x [-> ->]] | [-> ->]]; cbn [rres_of_tres]; eexists _, _; split; try reflexivity; exact Hc'.
    - destruct Hres as [-> [Hc' _]]. cbn [lift_find]. injection Hs as <-. eexists _, _. split; [reflexivity | exact Hc'].
  Qed.

  Lemma child_go inner complete toks : child inner complete = (toks, None, true) ->
    exists t, inner = (t, None, true) /\ toks = KOpen :: t ++ [KClose] /\ complete = true.
  Proof.
    destruct inner as [[t e] c]. destruct e as [e|]; cbn [child]; intros H; [discriminate|].
    injection H as <- Hc. apply andb_true_iff in Hc. destruct Hc as [-> ->]. exists t. repeat split.
  Qed.

  Lemma not_container_go v toks : not_container o v = (toks, None, true) ->
    toks = [KNone] /\ forall (A : Type) r, @not_this o A v r = RNot r.
  Proof.
    unfold not_container, not_this, mismatch_outcome.
    destruct v; cbn [is_nil]; destruct (o_mismatch o); intros H;
      first [ discriminate H | injection H as <-; split; reflexivity ].
  Qed.

  Lemma H_nil : P_reqs RNil.
  Proof.
    intros body kvs rend Hb HL Hok st p Hc toks Hs. cbn [MpScopeSpec.spec_reqs] in Hs. injection Hs as <-.
    exists st, p. split; [reflexivity | exact Hc].
  Qed.

  Lemma H_cons r l : P_req r -> P_reqs l -> P_reqs (RCons r l).
  Proof.
    intros IHr IHl body kvs rend Hb HL Hok st p Hc toks Hs. rewrite spec_reqs_cons in Hs.
    destruct (spec_req kvs r) as [[t1 e1] c1] eqn:E1. destruct e1 as [e1|]; [discriminate Hs|].
    destruct (spec_reqs kvs l) as [[t2 e2] c2] eqn:E2. injection Hs as <- -> Hcc.
    apply andb_true_iff in Hcc. destruct Hcc as [-> ->].
    destruct (IHr body kvs rend Hb HL Hok st p Hc t1 E1) as [st1 [p1 [R1 Hc1]]].
    destruct (IHl body kvs rend Hb HL Hok st1 p1 Hc1 t2 E2) as [st2 [p2 [R2 Hc2]]].
    exists st2, p2. split; [|exact Hc2]. rewrite run_reqs_cons, R1, R2. reflexivity.
  Qed.

  (* a child object scope: opened at a value that is a map, driven by a program, destroyed *)
  Lemma child_obj_run body_reqs p1 kvs' pn t :
    P_reqs body_reqs -> bytes p1 -> decode p1 = Some (MMap kvs', pn) -> doc_ok (MMap kvs') = true ->
    spec_reqs kvs' body_reqs = (t, None, true) ->
    exists bodyc cst cp,
      read_map_size o p1 = ROk (N.of_nat (length kvs')) bodyc /\
      run_reqs body_reqs (mkO bodyc (N.of_nat (length kvs')) 0 None) bodyc = (t, Go cst cp) /\
      close_obj cst cp = SOk pn.
  Proof.
    intros IH Hbp Hv Hok Hs.
    destruct (read_map_size_on o p1 _ pn Hbp Hv) as [bodyc [Hr [HLc Hsuf]]].
    pose proof (suffix_bytes _ _ Hsuf Hbp) as Hbc.
    assert (Hc0 : cursor bodyc kvs' pn (mkO bodyc (N.of_nat (length kvs')) 0 None) bodyc)
      by (apply (C_at bodyc kvs' pn [] kvs' bodyc); [reflexivity | constructor | exact HLc]).
    destruct (IH bodyc kvs' pn Hbc HLc Hok _ _ Hc0 t Hs) as [cst [cp [Hrun Hcc]]].
    exists bodyc, cst, cp. split; [exact Hr|]. split; [exact Hrun|].
    apply (close_spec narrow widen bodyc kvs' pn). exact Hcc.
  Qed.

  Lemma child_arr_run body_reqs p1 vs pn t :
    P_areqs body_reqs -> bytes p1 -> decode p1 = Some (MArr vs, pn) -> doc_ok (MArr vs) = true ->
    spec_areqs vs body_reqs = ((t, None, true), []) ->
    exists bodyc ast,
      read_array_size o p1 = ROk (N.of_nat (length vs)) bodyc /\
      run_areqs body_reqs (mkA (N.of_nat (length vs)) 0) bodyc = (t, Go ast pn).
  Proof.
    intros IH Hbp Hv Hok Hs.
    destruct (read_array_size_on o p1 _ pn Hbp Hv) as [bodyc [Hr [HLc Hsuf]]].
    pose proof (suffix_bytes _ _ Hsuf Hbp) as Hbc.
    destruct (IH vs pn bodyc Hbc HLc (doc_ok_arr _ Hok) (N.of_nat (length vs)) 0 (N.add_0_l _) t [] Hs)
      as [idx' [p' [Hrun [_ [HL' _]]]]].
    apply alayout_nil in HL'. subst p'.
    exists bodyc, (mkA (N.of_nat (length vs)) idx'). split; [exact Hr | exact Hrun].
  Qed.

  Lemma spec_arr_child_go vs body_reqs toks :
    (match spec_areqs vs body_reqs with (r', lft) => child r' (match lft with [] => true | _ => false end) end) = (toks, None, true) ->
    exists t, spec_areqs vs body_reqs = ((t, None, true), []) /\ toks = KOpen :: t ++ [KClose].
  Proof.
    destruct (spec_areqs vs body_reqs) as [r' lft]. intros H. apply child_go in H. destruct H as [t [-> [-> Hl]]].
    destruct lft; [|discriminate]. exists t. split; reflexivity.
  Qed.

  Lemma bin_reads_all : forall bs size idx r, idx + N.of_nat (length bs) = size ->
    bin_reads (length bs) (mkA size idx) (bs ++ r) = (map KByte bs, Go (mkA size size) r).
  Proof.
    induction bs as [|b bs IH]; intros size idx r H; cbn [length bin_reads map app].
    - cbn [length] in H. replace idx with size by lia. reflexivity.
    - cbn [a_index a_size read_binary]. cbn [length] in H. replace (idx =? size) with false by (symmetry; lia).
      rewrite (IH size (idx + 1) r) by lia. reflexivity.
  Qed.

  Lemma bytes_child_go bs n toks : bytes_child bs n = (toks, None, true) ->
    n = length bs /\ toks = KOpen :: map KByte bs ++ [KClose].
  Proof.
    unfold bytes_child. destruct (n <=? length bs)%nat eqn:E; intros H; [|discriminate].
    injection H as <- Hn. apply Nat.eqb_eq in Hn. subst n. rewrite firstn_all. split; reflexivity.
  Qed.

  Lemma H_obj q body_reqs : P_reqs body_reqs -> P_req (RObj q body_reqs).
  Proof.
    intros IH body kvs rend Hb HL Hok st p Hc toks Hs.
    destruct (doc_ok_map _ Hok) as [Hsup [Hdist Hvals]].
    destruct (find_spec narrow widen o body kvs rend Hb HL Hsup Hdist q st p Hc) as [b [st1 [p1 [Ef Hres]]]].
    rewrite run_req_obj, Ef. rewrite spec_req_obj in Hs.
    destruct (lookup (key_of_q q) kvs) as [v|].
    2:{ destruct Hres as [-> [Hc' _]]. cbn [lift_find]. injection Hs as <-. eexists _, _. split; [reflexivity | exact Hc']. }
    destruct Hres as [-> [pn HM]]. cbn [lift_find].
    destruct (at_member_facts body kvs rend Hb _ _ _ _ HM) as [Hv [Hbp [_ [Hin _]]]].
    pose proof (after_member narrow widen body kvs rend _ _ _ _ HM) as Hc'.
    pose proof (read_map_size_on o p1 v pn Hbp Hv) as Hsz.
    destruct v.
    9:{ (* a map *)
      apply child_go in Hs. destruct Hs as [t [Hs [-> _]]].
      destruct (child_obj_run body_reqs p1 l pn t IH Hbp Hv (Hvals _ Hin) Hs) as [bodyc [cst [cp [Hr [Hrun Hcl]]]]].
      rewrite Hr, Hrun. cbn [after_child_obj wrap_child is_go]. rewrite Hcl.
      eexists _, _. split; [reflexivity | exact Hc']. }
    all: apply not_container_go in Hs; destruct Hs as [-> Hnt]; rewrite Hsz, Hnt;
         eexists _, _; (split; [reflexivity | exact Hc']).
  Qed.

  Lemma H_arr q body_reqs : P_areqs body_reqs -> P_req (RArr q body_reqs).
  Proof.
    intros IH body kvs rend Hb HL Hok st p Hc toks Hs.
    destruct (doc_ok_map _ Hok) as [Hsup [Hdist Hvals]].
    destruct (find_spec narrow widen o body kvs rend Hb HL Hsup Hdist q st p Hc) as [b [st1 [p1 [Ef Hres]]]].
    rewrite run_req_arr, Ef. rewrite spec_req_arr in Hs.
    destruct (lookup (key_of_q q) kvs) as [v|].
    2:{ destruct Hres as [-> [Hc' _]]. cbn [lift_find]. injection Hs as <-. eexists _, _. split; [reflexivity | exact Hc']. }
    destruct Hres as [-> [pn HM]]. cbn [lift_find].
    destruct (at_member_facts body kvs rend Hb _ _ _ _ HM) as [Hv [Hbp [_ [Hin _]]]].
    pose proof (after_member narrow widen body kvs rend _ _ _ _ HM) as Hc'.
    pose proof (read_array_size_on o p1 v pn Hbp Hv) as Hsz.
    destruct v.
    8:{ (* an array *)
      apply spec_arr_child_go in Hs. destruct Hs as [t [Hs ->]].
      destruct (child_arr_run body_reqs p1 l pn t IH Hbp Hv (Hvals _ Hin) Hs) as [bodyc [ast [Hr Hrun]]].
      rewrite Hr, Hrun. cbn [after_child_plain wrap_child is_go].
      eexists _, _. split; [reflexivity | exact Hc']. }
    all: apply not_container_go in Hs; destruct Hs as [-> Hnt]; rewrite Hsz, Hnt;
         eexists _, _; (split; [reflexivity | exact Hc']).
  Qed.

  Lemma has_type_bin v t : has_type v t -> match v with MBin _ => t = TBin | _ => t <> TBin end.
  Proof.
    destruct v; cbn [has_type]; intros H; try (subst t; discriminate); try exact H.
    - destruct H as [[-> _] | [-> _]]; discriminate.
    - subst t. destruct (ty =? 255); discriminate.
  Qed.

  (* OpenBinaryScope(key) *)
  Lemma H_bin q n : P_req (RBin q n).
  Proof.
    intros body kvs rend Hb HL Hok st p Hc toks Hs.
    destruct (doc_ok_map _ Hok) as [Hsup [Hdist Hvals]].
    destruct (find_spec narrow widen o body kvs rend Hb HL Hsup Hdist q st p Hc) as [b [st1 [p1 [Ef Hres]]]].
    cbn [MpScopeModel.run_req]. rewrite Ef. cbn [MpScopeSpec.spec_req] in Hs.
    destruct (lookup (key_of_q q) kvs) as [v|].
    2:{ destruct Hres as [-> [Hc' _]]. cbn [lift_find]. injection Hs as <-. eexists _, _. split; [reflexivity | exact Hc']. }
    destruct Hres as [-> [pn HM]]. cbn [lift_find].
    destruct (at_member_facts body kvs rend Hb _ _ _ _ HM) as [Hv [Hbp _]].
    destruct (value_type_sound p1 v pn Hbp Hv) as [t [Ht HT]]. rewrite Ht.
    pose proof (has_type_bin v t HT) as Hbin.
    pose proof (read_bin_size_on o p1 v pn Hv) as Hsz.
    destruct v.
    7:{ (* a byte array *)
      subst t. destruct Hsz as [bodyc [Hr ->]]. rewrite Hr.
      apply bytes_child_go in Hs. destruct Hs as [-> ->].
      rewrite (bin_reads_all s (N.of_nat (length s)) 0 pn (N.add_0_l _)).
      cbn [after_child_plain wrap_child is_go].
      eexists _, _. split; [reflexivity|]. exact (after_member narrow widen body kvs rend _ _ _ _ HM). }
    all: injection Hs as <-; destruct t; try congruence;
         eexists _, _; (split; [reflexivity | exact (C_key body kvs rend _ _ _ _ HM)]).
  Qed.

  (* VisitKeys *)
  Lemma reset_key_go body kvs rend st p : cursor body kvs rend st p ->
    exists st1 p1, reset_key st p = Go st1 p1 /\ o_start st1 = body /\ o_size st1 = N.of_nat (length kvs) /\ o_key st1 = None.
  Proof.
    intros [kvs1 kvs2 p0 E H1 H2 | st0 p0 vm pn HM].
    - eexists _, _. split; [reflexivity|]. repeat split.
    - destruct HM as [kvs1 km vm0 kvs2 pk p1 pn0 sk0 E H1 Hk Hv0 H2 Hkd Hok].
      unfold reset_key. cbn [o_key]. rewrite (skip_exact _ _ _ Hv0). eexists _, _. split; [reflexivity|]. repeat split.
  Qed.

  Lemma H_visit : P_req RVisit.
  Proof.
    intros body kvs rend Hb HL Hok st p Hc toks Hs.
    destruct (doc_ok_map _ Hok) as [Hsup [Hdist Hvals]].
    cbn [MpScopeSpec.spec_req] in Hs. injection Hs as <-.
    destruct (reset_key_go body kvs rend st p Hc) as [st1 [p1 [Hr [Hst [Hsz Hk]]]]].
    cbn [MpScopeModel.run_req]. rewrite Hr. destruct st1 as [s0 z0 i0 k0]. cbn [o_start o_size o_key] in *. subst s0 z0 k0.
    unfold set_index. cbn [o_start o_size o_key].
    pose proof (olayout_length _ _ _ HL) as Hlen.
    assert (Hf : (length kvs < S (length body))%nat) by lia.
    pose proof (visit_loop_spec narrow widen o body kvs rend Hb HL Hsup Hdist kvs (S (length body)) [] body [] eq_refl (OL_nil body) HL Hf) as Ev.
    cbn [length N.of_nat app] in Ev. rewrite Ev.
    eexists _, _. split; [reflexivity|].
    exact (C_at body kvs rend kvs [] rend (eq_sym (app_nil_r kvs)) HL (OL_nil rend)).
  Qed.

  (* ---------- array scope ---------- *)
  Lemma A_nil : P_areqs ANil.
  Proof.
    intros vs rend p Hb HL Hok size idx Hi toks vs' Hs. cbn [MpScopeSpec.spec_areqs] in Hs. injection Hs as <- <-.
    exists idx, p. split; [reflexivity|]. repeat split; assumption.
  Qed.

  Lemma A_cons a l : P_areq a -> P_areqs l -> P_areqs (ACons a l).
  Proof.
    intros IHa IHl vs rend p Hb HL Hok size idx Hi toks vs' Hs. rewrite spec_areqs_cons in Hs.
    destruct (spec_areq vs a) as [[[t1 e1] c1] vs1] eqn:E1. destruct e1 as [e1|]; [discriminate Hs|].
    destruct (spec_areqs vs1 l) as [[[t2 e2] c2] vs2] eqn:E2. injection Hs as <- -> Hcc <-.
    apply andb_true_iff in Hcc. destruct Hcc as [-> ->].
    destruct (IHa vs rend p Hb HL Hok size idx Hi t1 vs1 E1) as [idx1 [p1 [R1 [Hb1 [HL1 [Hok1 Hi1]]]]]].
    destruct (IHl vs1 rend p1 Hb1 HL1 Hok1 size idx1 Hi1 t2 vs2 E2) as [idx2 [p2 [R2 [Hb2 [HL2 [Hok2 Hi2]]]]]].
    exists idx2, p2. split; [|repeat split; assumption]. rewrite run_areqs_cons, R1, R2. reflexivity.
  Qed.

  Lemma A_end : P_areq AEnd.
  Proof.
    intros vs rend p Hb HL Hok size idx Hi toks vs' Hs. cbn [MpScopeSpec.spec_areq] in Hs. injection Hs as <- <-.
    exists idx, p. split; [|repeat split; assumption].
    cbn [MpScopeModel.run_areq a_index a_size]. destruct vs; cbn [length] in Hi; do 3 f_equal; lia.
  Qed.

  Ltac array_step vs Hs HL Hok Hi v vs0 p' Hv HL' Hokv Hok' Hne :=
    destruct vs as [|v vs0]; [cbn [MpScopeSpec.spec_areq] in Hs; discriminate Hs|];
    inversion HL as [|? ? p' ? ? Hv HL']; subst;
    inversion Hok as [|? ? Hokv Hok']; subst;
    cbn [length] in Hi;
    assert (Hne : (_ =? _) = false) by (apply N.eqb_neq; intros ->; lia).

  Lemma A_get t : P_areq (AGet t).
  Proof.
    intros vs rend p Hb HL Hok size idx Hi toks vs' Hs.
    destruct vs as [|v vs0]; [cbn [MpScopeSpec.spec_areq] in Hs; discriminate Hs|].
    inversion HL as [|? ? p' ? ? Hv HL']; subst. inversion Hok as [|? ? Hokv Hok']; subst. cbn [length] in *.
    cbn [MpScopeSpec.spec_areq] in Hs. injection Hs as Hs <-.
    cbn [MpScopeModel.run_areq a_index a_size]. replace (idx =? idx + N.of_nat (S (length vs0))) with false by (symmetry; lia).
    rewrite (read_target_on narrow widen o t p v p' Hb Hv).
    pose proof (decode_bytes _ _ _ Hv Hb) as Hb'.
    destruct (of_tres_go _ _ Hs) as [[x [-> ->]] | [-> ->]]; cbn [rres_of_tres];
      exists (idx + 1), p'; (split; [reflexivity | repeat split; try assumption; lia]).
  Qed.

  Lemma A_obj body_reqs : P_reqs body_reqs -> P_areq (AObj body_reqs).
  Proof.
    intros IH vs rend p Hb HL Hok size idx Hi toks vs' Hs.
    destruct vs as [|v vs0]; [cbn [MpScopeSpec.spec_areq] in Hs; discriminate Hs|].
    inversion HL as [|? ? p' ? ? Hv HL']; subst. inversion Hok as [|? ? Hokv Hok']; subst. cbn [length] in *.
    rewrite spec_areq_obj in Hs.
    rewrite run_areq_obj by (apply N.eqb_neq; cbn [length]; lia).
    pose proof (decode_bytes _ _ _ Hv Hb) as Hb'.
    pose proof (read_map_size_on o p v p' Hb Hv) as Hsz.
    destruct v.
    9:{ injection Hs as Hs <-. apply child_go in Hs. destruct Hs as [t [Hs [-> _]]].
        destruct (child_obj_run body_reqs p l p' t IH Hb Hv Hokv Hs) as [bodyc [cst [cp [Hr [Hrun Hcl]]]]].
        rewrite Hr, Hrun. cbn [after_child_obj wrap_child is_go]. rewrite Hcl.
        exists (idx + 1), p'. split; [reflexivity | repeat split; try assumption; lia]. }
    all: pose proof (f_equal snd Hs) as Hs2; apply (f_equal fst) in Hs; cbn [fst snd] in Hs, Hs2; subst vs';
         apply not_container_go in Hs; destruct Hs as [-> Hnt]; rewrite Hsz, Hnt;
         exists (idx + 1), p'; (split; [reflexivity | repeat split; try assumption; lia]).
  Qed.

  Lemma A_arr body_reqs : P_areqs body_reqs -> P_areq (AArr body_reqs).
  Proof.
    intros IH vs rend p Hb HL Hok size idx Hi toks vs' Hs.
    destruct vs as [|v vs0]; [cbn [MpScopeSpec.spec_areq] in Hs; discriminate Hs|].
    inversion HL as [|? ? p' ? ? Hv HL']; subst. inversion Hok as [|? ? Hokv Hok']; subst. cbn [length] in *.
    rewrite spec_areq_arr in Hs.
    rewrite run_areq_arr by (apply N.eqb_neq; cbn [length]; lia).
    pose proof (decode_bytes _ _ _ Hv Hb) as Hb'.
    pose proof (read_array_size_on o p v p' Hb Hv) as Hsz.
    destruct v.
    8:{ destruct (spec_areqs l body_reqs) as [r' lft] eqn:Er. injection Hs as Hs <-.
        apply child_go in Hs. destruct Hs as [t [-> [-> Hl]]]. destruct lft; [|discriminate].
        destruct (child_arr_run body_reqs p l p' t IH Hb Hv Hokv Er) as [bodyc [ast [Hr Hrun]]].
        rewrite Hr, Hrun. cbn [after_child_plain wrap_child is_go].
        exists (idx + 1), p'. split; [reflexivity | repeat split; try assumption; lia]. }
    all: pose proof (f_equal snd Hs) as Hs2; apply (f_equal fst) in Hs; cbn [fst snd] in Hs, Hs2; subst vs';
         apply not_container_go in Hs; destruct Hs as [-> Hnt]; rewrite Hsz, Hnt;
         exists (idx + 1), p'; (split; [reflexivity | repeat split; try assumption; lia]).
  Qed.

  Lemma A_bin n : P_areq (ABin n).
  Proof.
    intros vs rend p Hb HL Hok size idx Hi toks vs' Hs.
    destruct vs as [|v vs0]; [cbn [MpScopeSpec.spec_areq] in Hs; discriminate Hs|].
    inversion HL as [|? ? p' ? ? Hv HL']; subst. inversion Hok as [|? ? Hokv Hok']; subst. cbn [length] in *.
    cbn [MpScopeSpec.spec_areq] in Hs.
    cbn [MpScopeModel.run_areq a_index a_size]. replace (idx =? idx + N.of_nat (S (length vs0))) with false by (symmetry; lia).
    pose proof (decode_bytes _ _ _ Hv Hb) as Hb'.
    destruct (value_type_sound p v p' Hb Hv) as [t [Ht HT]]. rewrite Ht.
    pose proof (has_type_bin v t HT) as Hbin.
    pose proof (read_bin_size_on o p v p' Hv) as Hsz.
    destruct v.
    7:{ subst t. destruct Hsz as [bodyc [Hr ->]]. rewrite Hr. injection Hs as Hs <-.
        apply bytes_child_go in Hs. destruct Hs as [-> ->].
        rewrite (bin_reads_all s (N.of_nat (length s)) 0 p' (N.add_0_l _)).
        cbn [after_child_plain wrap_child is_go].
        exists (idx + 1), p'. split; [reflexivity | repeat split; try assumption; lia]. }
    all: injection Hs as <- <-; destruct t; try congruence;
         exists idx, p; (split; [reflexivity | repeat split; try assumption; try (constructor; assumption); cbn [length]; lia]).
  Qed.

  (* ---------- all programs ---------- *)
  Theorem programs_refine :
    (forall r, P_req r) /\ (forall l, P_reqs l) /\ (forall a, P_areq a) /\ (forall l, P_areqs l).
  Proof.
    apply program_mutind.
    - exact H_get.
    - exact H_obj.
    - exact H_arr.
    - exact H_bin.
    - exact H_visit.
    - exact H_nil.
    - intros r Hr l Hl. exact (H_cons r l Hr Hl).
    - exact A_get.
    - exact A_obj.
    - exact A_arr.
    - exact A_bin.
    - exact A_end.
    - exact A_nil.
    - intros a Ha l Hl. exact (A_cons a l Ha Hl).
  Qed.
End Refine.

(* ---------- the root scopes ---------- *)
Section Roots.
  Variable narrow : N -> option N.
  Variable widen : N -> N.
  Variable o : opts.

  Lemma obj_root_refines data kvs rest h toks :
    bytes data -> decode data = Some (MMap kvs, rest) -> doc_ok (MMap kvs) = true ->
    spec_reqs narrow widen o kvs h = (toks, None, true) ->
    run_obj_root narrow widen o data h = Done (KOpen :: toks ++ [KClose]) rest.
  Proof.
    intros Hb Hd Hok Hs.
    destruct (programs_refine narrow widen o) as [_ [Hreqs _]].
    destruct (child_obj_run narrow widen o h data kvs rest toks (Hreqs h) Hb Hd Hok Hs) as [bodyc [cst [cp [Hr [Hrun Hcl]]]]].
    unfold run_obj_root. rewrite Hr, Hrun. unfold finish_root_obj. cbn [after_child_obj]. rewrite Hcl. reflexivity.
  Qed.

  Lemma arr_root_refines data vs rest h toks :
    bytes data -> decode data = Some (MArr vs, rest) -> doc_ok (MArr vs) = true ->
    spec_areqs narrow widen o vs h = ((toks, None, true), []) ->
    run_arr_root narrow widen o data h = Done (KOpen :: toks ++ [KClose]) rest.
  Proof.
    intros Hb Hd Hok Hs.
    destruct (programs_refine narrow widen o) as [_ [_ [_ Hareqs]]].
    destruct (child_arr_run narrow widen o h data vs rest toks (Hareqs h) Hb Hd Hok Hs) as [bodyc [ast [Hr Hrun]]].
    unfold run_arr_root. rewrite Hr, Hrun. reflexivity.
  Qed.

  (* the array scope: whatever the element reads and child scopes, mIndex counts the elements consumed
     and the reader stands at the start of element mIndex *)
  Lemma arr_scope_counts data vs rest l toks vs' :
    bytes data -> decode data = Some (MArr vs, rest) -> doc_ok (MArr vs) = true ->
    spec_areqs narrow widen o vs l = ((toks, None, true), vs') ->
    exists body idx p,
      read_array_size o data = ROk (N.of_nat (length vs)) body /\
      run_areqs narrow widen o l (mkA (N.of_nat (length vs)) 0) body = (toks, Go (mkA (N.of_nat (length vs)) idx) p) /\
      idx + N.of_nat (length vs') = N.of_nat (length vs) /\ alayout p vs' rest.
  Proof.
    intros Hb Hd Hok Hs.
    destruct (programs_refine narrow widen o) as [_ [_ [_ Hareqs]]].
    destruct (read_array_size_on o data _ rest Hb Hd) as [body [Hr [HL Hsuf]]].
    pose proof (suffix_bytes _ _ Hsuf Hb) as Hbb.
    destruct (Hareqs l vs rest body Hbb HL (doc_ok_arr _ Hok) (N.of_nat (length vs)) 0 (N.add_0_l _) toks vs' Hs)
      as [idx [p [Hrun [_ [HL' [_ Hi]]]]]].
    exists body, idx, p. repeat split; assumption.
  Qed.

  (* FindValueByKey keeps the invariant; an unsuccessful search from a cursor without current key
     comes back to the member it started from (to the end of the object when it started at member 0) *)
  Lemma find_keeps_cursor body kvs rend q st p :
    bytes body -> olayout body kvs rend -> supported kvs -> keys_distinct (keys_of kvs) = true ->
    cursor body kvs rend st p ->
    exists b st' p', find_value_by_key narrow widen o q st p = Go (b, st') p' /\
      cursor body kvs rend st' p' /\ o_index st' <= o_size st' /\
      (b = true <-> lookup (key_of_q q) kvs <> None).
  Proof.
    intros Hb HL Hsup Hdist Hc.
    destruct (find_spec narrow widen o body kvs rend Hb HL Hsup Hdist q st p Hc) as [b [st' [p' [Ef Hres]]]].
    exists b, st', p'. split; [exact Ef|].
    destruct (lookup (key_of_q q) kvs) as [v|].
    - destruct Hres as [-> [pn HM]].
      assert (Hc' : cursor body kvs rend st' p') by (eapply C_key; exact HM).
      split; [exact Hc'|]. split; [apply (cursor_index _ _ _ _ _ Hc')|]. split; [discriminate | reflexivity].
    - destruct Hres as [-> [Hc' _]]. split; [exact Hc'|]. split; [apply (cursor_index _ _ _ _ _ Hc')|].
      split; [discriminate | congruence].
  Qed.

  Lemma find_absent_cycle body kvs rend q kvs1 kvs2 p :
    bytes body -> olayout body kvs rend -> supported kvs -> keys_distinct (keys_of kvs) = true ->
    kvs = kvs1 ++ kvs2 -> olayout body kvs1 p -> olayout p kvs2 rend ->
    lookup (key_of_q q) kvs = None ->
    let st := mkO body (N.of_nat (length kvs)) (N.of_nat (length kvs1)) None in
    find_value_by_key narrow widen o q st p =
      match kvs1 with
      | [] => Go (false, mkO body (N.of_nat (length kvs)) (N.of_nat (length kvs)) None) rend
      | _ => Go (false, st) p
      end.
  Proof.
    intros Hb HL Hsup Hdist E H1 H2 Hl st.
    destruct (find_from_at narrow widen o body kvs rend Hb HL Hsup Hdist q kvs1 kvs2 p E H1 H2) as [b [st' [p' [Ef Hres]]]].
    rewrite Hl in Hres. destruct Hres as [-> [-> ->]].
    unfold find_value_by_key. subst st. cbn [o_key o_start]. rewrite Ef.
    destruct kvs1; reflexivity.
  Qed.
End Roots.

(* element reads only *)
Fixpoint gets (ts : list target) : areqs :=
  match ts with [] => ANil | t :: ts' => ACons (AGet t) (gets ts') end.

(* ---------- element reads under the Skip policies ---------- *)
(* the one typed read that fails whatever the policy: a timestamp target on a timestamp extension of an invalid size *)
Definition bad_ts (t : target) (v : mpv) : bool :=
  match t, v with
  | TgTs, MExt ty s => (ty =? 255) && (match ts_lib s with None => true | Some _ => false end)
  | _, _ => false
  end.

Definition tok_of_tres (r : tres) : tok := match r with TVal x => KVal x | _ => KFalse end.

Lemma typed_spec_skip narrow widen o t v : o_mismatch o = PSkip -> o_overflow o = PSkip -> bad_ts t v = false ->
  of_tres (typed_spec narrow widen o t v) = ([tok_of_tres (typed_spec narrow widen o t v)], None, true).
Proof.
  intros Hm Ho Hb. destruct t, v; cbn [typed_spec bad_ts] in *; unfold on_mismatch, on_overflow; rewrite ?Hm, ?Ho; try reflexivity.
  all: try (destruct (in_range _ _); reflexivity).
  - destruct (narrow bits); reflexivity.
  - destruct (ty =? 255); [|reflexivity]. cbn [andb] in Hb. destruct (ts_lib s) as [[a b]|]; [reflexivity | discriminate].
Qed.

Lemma gets_spec_skip narrow widen o : o_mismatch o = PSkip -> o_overflow o = PSkip ->
  forall ts vs, (length ts <= length vs)%nat ->
  forallb (fun tv => negb (bad_ts (fst tv) (snd tv))) (combine ts vs) = true ->
  spec_areqs narrow widen o vs (gets ts) =
    ((map (fun tv => tok_of_tres (typed_spec narrow widen o (fst tv) (snd tv))) (combine ts vs), None, true), skipn (length ts) vs).
Proof.
  intros Hm Ho. induction ts as [|t ts IH]; intros vs Hl Hb.
  - reflexivity.
  - destruct vs as [|v vs]; [cbn [length] in Hl; lia|].
    cbn [combine forallb fst snd] in Hb. apply andb_true_iff in Hb. destruct Hb as [Hb1 Hb2].
    cbn [gets]. rewrite spec_areqs_cons. cbn [MpScopeSpec.spec_areq].
    rewrite (typed_spec_skip narrow widen o t v Hm Ho) by (destruct (bad_ts t v); [discriminate | reflexivity]).
    rewrite (IH vs) by (cbn [length] in Hl; try lia; exact Hb2). reflexivity.
Qed.

(* ---------- witnesses of the defects the model mirrors ---------- *)
Definition no_narrow : N -> option N := fun _ => None.
Definition id_widen : N -> N := fun x => x.
Definition skip_all : opts := mkOpts PSkip PSkip.
Definition s32 : ity := mkIty true 32.

(* F14: {"a": [1, 2], "b": 5} followed by 7; the program reads one element of "a", then asks for "b" *)
Definition f14_doc : list N := [0x82; 0xA1; 0x61; 0x92; 0x01; 0x02; 0xA1; 0x62; 0x05; 0x07].
Definition f14_prog : reqs :=
  RCons (RArr (QStr [0x61]) (ACons (AGet (TgInt s32)) ANil)) (RCons (RGet (QStr [0x62]) (TgInt s32)) RNil).

Lemma f14_decodes : decode f14_doc = Some (MMap [(MStr [0x61], MArr [MInt 1; MInt 2]); (MStr [0x62], MInt 5)], [0x07]).
Proof. vm_compute. reflexivity. Qed.
Lemma f14_spec : spec_reqs no_narrow id_widen skip_all [(MStr [0x61], MArr [MInt 1; MInt 2]); (MStr [0x62], MInt 5)] f14_prog =
  ([KOpen; KVal (VInt 1); KClose; KVal (VInt 5)], None, false).
Proof. vm_compute. reflexivity. Qed.
Lemma f14_model : run_obj_root no_narrow id_widen skip_all f14_doc f14_prog =
  Done [KOpen; KOpen; KVal (VInt 1); KClose; KFalse; KClose] [0x07].
Proof. vm_compute. reflexivity. Qed.
Lemma f14_bytes : bytes f14_doc.
Proof. unfold f14_doc. repeat constructor. Qed.

(* F17: a map header announcing one member, and nothing else *)
Lemma f17_model : run_obj_root no_narrow id_widen skip_all [0x81] RNil = FTerm.
Proof. vm_compute. reflexivity. Qed.

(* ---------- the statements of Properties_C03 that the current code falsifies ---------- *)
(* full strength: EVERY history on EVERY well-formed object document is answered as the association
   list answers it, and after the scope is destroyed the reader stands right behind the object *)
Definition C03_mp_refines_statement : Prop :=
  forall narrow widen o data kvs rest h toks c,
    bytes data -> decode data = Some (MMap kvs, rest) -> doc_ok (MMap kvs) = true ->
    spec_reqs narrow widen o kvs h = (toks, None, c) ->
    run_obj_root narrow widen o data h = Done (KOpen :: toks ++ [KClose]) rest.

Lemma mp_refines_refuted : ~ C03_mp_refines_statement.
Proof.
  intros H.
  specialize (H no_narrow id_widen skip_all f14_doc _ _ f14_prog _ _ f14_bytes f14_decodes eq_refl f14_spec).
  rewrite f14_model in H. discriminate H.
Qed.

(* full strength: destroying an object scope never terminates the process *)
Definition C03_close_never_terminates_statement : Prop :=
  forall narrow widen o data h, bytes data -> run_obj_root narrow widen o data h <> FTerm.

Lemma close_truncated_refuted : ~ C03_close_never_terminates_statement.
Proof.
  intros H. apply (H no_narrow id_widen skip_all [0x81] RNil); [repeat constructor | exact f17_model].
Qed.

Lemma close_outside narrow widen o data kvs rest h toks :
  bytes data -> decode data = Some (MMap kvs, rest) -> doc_ok (MMap kvs) = true ->
  spec_reqs narrow widen o kvs h = (toks, None, true) ->
  run_obj_root narrow widen o data h <> FTerm.
Proof. intros Hb Hd Hok Hs. rewrite (obj_root_refines narrow widen o data kvs rest h toks Hb Hd Hok Hs). discriminate. Qed.

Lemma requests_keep_cursor narrow widen o r body kvs rend :
  bytes body -> olayout body kvs rend -> doc_ok (MMap kvs) = true ->
  forall st p, cursor body kvs rend st p ->
  forall toks, spec_req narrow widen o kvs r = (toks, None, true) ->
  exists st' p', run_req narrow widen o r st p = (toks, Go st' p') /\ cursor body kvs rend st' p'.
Proof. exact (proj1 (programs_refine narrow widen o) r body kvs rend). Qed.

Lemma cursor_bounds body kvs rend st p : cursor body kvs rend st p ->
  o_index st <= o_size st /\ o_start st = body /\ o_size st = N.of_nat (length kvs).
Proof. apply cursor_index. Qed.

Lemma arr_scope_counts_skip narrow widen o data vs rest ts :
  o_mismatch o = PSkip -> o_overflow o = PSkip ->
  bytes data -> decode data = Some (MArr vs, rest) -> doc_ok (MArr vs) = true ->
  (length ts <= length vs)%nat ->
  forallb (fun tv => negb (bad_ts (fst tv) (snd tv))) (combine ts vs) = true ->
  exists body p,
    read_array_size o data = ROk (N.of_nat (length vs)) body /\
    run_areqs narrow widen o (gets ts) (mkA (N.of_nat (length vs)) 0) body =
      (map (fun tv => tok_of_tres (typed_spec narrow widen o (fst tv) (snd tv))) (combine ts vs),
       Go (mkA (N.of_nat (length vs)) (N.of_nat (length ts))) p) /\
    alayout p (skipn (length ts) vs) rest.
Proof.
  intros Hm Ho Hb Hd Hok Hl Hnb.
  pose proof (gets_spec_skip narrow widen o Hm Ho ts vs Hl Hnb) as Hs.
  destruct (arr_scope_counts narrow widen o data vs rest (gets ts) _ _ Hb Hd Hok Hs) as [body [idx [p [Hr [Hrun [Hi HL]]]]]].
  exists body, p. split; [exact Hr|]. split; [|exact HL].
  rewrite Hrun. rewrite skipn_length in Hi. do 3 f_equal. lia.
Qed.

(* ---------- examples: the hypotheses are satisfiable, the conclusions non-trivial ---------- *)
(* {"k": 5, 7: {"x": nil}, "arr": [1, "s"], "b": bin(1,2)} followed by 0x2a *)
Definition ex_doc : list N :=
  [0x84; 0xA1; 0x6B; 0x05; 0x07; 0x81; 0xA1; 0x78; 0xC0; 0xA3; 0x61; 0x72; 0x72; 0x92; 0x01; 0xA1; 0x73;
   0xA1; 0x62; 0xC4; 0x02; 0x01; 0x02; 0x2A].
Definition ex_kvs : list (mpv * mpv) :=
  [(MStr [0x6B], MInt 5); (MInt 7, MMap [(MStr [0x78], MNil)]); (MStr [0x61; 0x72; 0x72], MArr [MInt 1; MStr [0x73]]);
   (MStr [0x62], MBin [1; 2])].
(* requests in reverse order, an absent key, a repeated key, VisitKeys, children read to the end *)
Definition ex_prog : reqs :=
  RCons (RBin (QStr [0x62]) 2)
 (RCons (RArr (QStr [0x61; 0x72; 0x72]) (ACons (AGet (TgInt s32)) (ACons (AGet TgStr) (ACons AEnd ANil))))
 (RCons (RGet (QStr [0x7A]) TgStr)
 (RCons (RObj (QU 7) (RCons RVisit RNil))
 (RCons (RGet (QStr [0x6B]) (TgInt s32))
 (RCons (RGet (QStr [0x6B]) TgStr) RNil))))).

Lemma ex_decodes : decode ex_doc = Some (MMap ex_kvs, [0x2A]).
Proof. vm_compute. reflexivity. Qed.
Lemma ex_doc_ok : doc_ok (MMap ex_kvs) = true.
Proof. vm_compute. reflexivity. Qed.
Lemma ex_bytes : bytes ex_doc.
Proof. unfold ex_doc. repeat constructor. Qed.
Lemma ex_spec : spec_reqs no_narrow id_widen skip_all ex_kvs ex_prog =
  ([KOpen; KByte 1; KByte 2; KClose; KOpen; KVal (VInt 1); KVal (VStr [0x73]); KIsEnd true; KClose; KFalse;
    KOpen; KKeys [KStr [0x78]]; KClose; KVal (VInt 5); KFalse], None, true).
Proof. vm_compute. reflexivity. Qed.
Lemma ex_run : run_obj_root no_narrow id_widen skip_all ex_doc ex_prog =
  Done (KOpen :: [KOpen; KByte 1; KByte 2; KClose; KOpen; KVal (VInt 1); KVal (VStr [0x73]); KIsEnd true; KClose; KFalse;
    KOpen; KKeys [KStr [0x78]]; KClose; KVal (VInt 5); KFalse] ++ [KClose]) [0x2A].
Proof. exact (obj_root_refines no_narrow id_widen skip_all ex_doc ex_kvs [0x2A] ex_prog _ ex_bytes ex_decodes ex_doc_ok ex_spec). Qed.

(* [ "x", 2, 3 ] read into three int32 targets under Skip: the first is skipped, the others load from their own bytes *)
Lemma ex_array : run_arr_root no_narrow id_widen skip_all [0x93; 0xA1; 0x78; 0x02; 0x03; 0x07]
    (gets [TgInt s32; TgInt s32; TgInt s32]) =
  Done [KOpen; KFalse; KVal (VInt 2); KVal (VInt 3); KClose] [0x07].
Proof. vm_compute. reflexivity. Qed.

(* ---------- fuel of the destructor on ARBITRARY input ---------- *)
Lemma skip_progress d r : skip_value d = SOk r -> (length r < length d)%nat.
Proof.
  intros H. pose proof (skip_value_agrees d) as A. unfold agrees in A.
  destruct (decode d) as [[v r']|] eqn:E.
  - rewrite H in A. injection A as ->. eapply decode_shorter; eassumption.
  - destruct A as [e A]. congruence.
Qed.

Lemma close_loop_fuel : forall fuel c size rest, (length rest < fuel)%nat -> close_loop fuel c size rest <> SFuel.
Proof.
  induction fuel as [|f IH]; intros c size rest Hf; [lia|]. cbn [close_loop].
  destruct (c <? size); [|discriminate].
  destruct (skip_value rest) as [r1|e|] eqn:E1; [|discriminate | exfalso; exact (skip_value_never_out_of_fuel _ E1)].
  destruct (skip_value r1) as [r2|e|] eqn:E2; [|discriminate | exfalso; exact (skip_value_never_out_of_fuel _ E2)].
  apply IH. apply skip_progress in E1. apply skip_progress in E2. lia.
Qed.

Lemma close_obj_fuel st rest : close_obj st rest <> SFuel.
Proof.
  unfold close_obj, reset_key. destruct (o_key st).
  - destruct (skip_value rest) as [r|e|] eqn:E; [apply close_loop_fuel; lia | discriminate | exfalso; exact (skip_value_never_out_of_fuel _ E)].
  - apply close_loop_fuel. lia.
Qed.
