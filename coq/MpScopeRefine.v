(* MpScopeRefine.v — request histories on the scope model refine the association-list specification
   (mutual induction over programs), the root scopes, and the consequences stated in Properties_C03. *)
From BS Require Import Base MpSpec MpModel MpLemmas MpReader MpTyped MpScopeSpec MpScopeModel MpScopeLemmas MpScopeTyped MpScopeProofs.
From Coq Require Import ZifyBool ZifyN ZifyNat.
Local Open Scope N_scope.
Ltac Zify.zify_post_hook ::= Z.div_mod_to_equations.

Scheme req_mind := Induction for req Sort Prop
  with reqs_mind := Induction for reqs Sort Prop
  with areq_mind := Induction for areq Sort Prop
  with areqs_mind := Induction for areqs Sort Prop
  with vact_mind := Induction for vact Sort Prop
  with vacts_mind := Induction for vacts Sort Prop.
Combined Scheme program_mutind from req_mind, reqs_mind, areq_mind, areqs_mind, vact_mind, vacts_mind.

(* ---------- well-formed documents ---------- *)
Lemma doc_ok_map kvs : doc_ok (MMap kvs) = true ->
  supported kvs /\ keys_distinct (keys_of kvs) = true /\ forall v, In v (map snd kvs) -> doc_ok v = true.
Proof.
  cbn [doc_ok]. intros H. apply andb_true_iff in H. destruct H as [H H3]. apply andb_true_iff in H. destruct H as [H1 H2].
  split; [|split].
  - apply Forall_forall. intros kv Hin. rewrite forallb_forall in H1. specialize (H1 kv Hin).
    destruct (keyden (fst kv)); [discriminate | discriminate H1].
  - exact H2.
  - intros v Hin. apply in_map_iff in Hin. destruct Hin as [kv [<- Hin]]. rewrite forallb_forall in H3. apply (H3 kv Hin).
Qed.

Lemma doc_ok_arr vs : doc_ok (MArr vs) = true -> Forall (fun v => doc_ok v = true) vs.
Proof. cbn [doc_ok]. intros H. apply Forall_forall. rewrite forallb_forall in H. exact H. Qed.

Section Refine.
  Variable narrow : N -> option N.
  Variable widen : N -> N.
  Variable o : opts.

  Notation run_req := (run_req narrow widen o).
  Notation run_reqs := (run_reqs narrow widen o).
  Notation run_areq := (run_areq narrow widen o).
  Notation run_areqs := (run_areqs narrow widen o).
  Notation spec_req := (spec_req narrow widen o).
  Notation spec_reqs := (spec_reqs narrow widen o).
  Notation spec_areq := (spec_areq narrow widen o).
  Notation spec_areqs := (spec_areqs narrow widen o).
  Notation spec_vact := (spec_vact narrow widen o).
  Notation spec_vacts := (spec_vacts narrow widen o).
  Notation run_vact := (run_vact narrow widen o).
  Notation run_vacts := (run_vacts narrow widen o).
  Notation all_ok := (Forall (fun v => doc_ok v = true)).

  Definition P_req (r : req) : Prop :=
    forall body kvs rend, bytes body -> olayout body kvs rend -> doc_ok (MMap kvs) = true ->
    forall st p, cursor body kvs rend st p ->
    forall toks c, spec_req kvs r = (toks, None, c) ->
    exists st' p', run_req r st p = (toks, Go st' p', false) /\ cursor body kvs rend st' p'.

  Definition P_reqs (l : reqs) : Prop :=
    forall body kvs rend, bytes body -> olayout body kvs rend -> doc_ok (MMap kvs) = true ->
    forall st p, cursor body kvs rend st p ->
    forall toks c, spec_reqs kvs l = (toks, None, c) ->
    exists st' p', run_reqs l st p = (toks, Go st' p', false) /\ cursor body kvs rend st' p'.

  Definition P_areq (a : areq) : Prop :=
    forall vs rend p, bytes p -> alayout p vs rend -> all_ok vs ->
    forall size idx, idx + N.of_nat (length vs) = size ->
    forall toks c vs', spec_areq vs a = ((toks, None, c), vs') ->
    exists idx' p', run_areq a (mkA size idx) p = (toks, Go (mkA size idx') p', false) /\
      bytes p' /\ alayout p' vs' rend /\ all_ok vs' /\idx' + N.of_nat (length vs') = size.

  Definition P_areqs (l : areqs) : Prop :=
    forall vs rend p, bytes p -> alayout p vs rend -> all_ok vs ->
    forall size idx, idx + N.of_nat (length vs) = size ->
    forall toks c vs', spec_areqs vs l = ((toks, None, c), vs') ->
    exists idx' p', run_areqs l (mkA size idx) p = (toks, Go (mkA size idx') p', false) /\
      bytes p' /\ alayout p' vs' rend /\ all_ok vs' /\idx' + N.of_nat (length vs') = size.

  (* ---------- unfolding equations of the mutual fixpoints (stated with the folded names) ---------- *)
  Lemma spec_reqs_cons kvs r l : spec_reqs kvs (RCons r l) =
    match spec_req kvs r with
    | (t1, None, c1) => match spec_reqs kvs l with (t2, e2, c2) => (t1 ++ t2, e2, c1 && c2) end
    | failed => failed
    end.
  Proof. reflexivity. Qed.

  Lemma spec_req_obj kvs q body : spec_req kvs (RObj q body) =
    match lookup (key_of_q q) kvs with
    | None => ([KNone], None, true)
    | Some (MMap kvs') => child (spec_reqs kvs' body) true
    | Some v => not_container o v
    end.
  Proof. reflexivity. Qed.

  Lemma spec_req_arr kvs q body : spec_req kvs (RArr q body) =
    match lookup (key_of_q q) kvs with
    | None => ([KNone], None, true)
    | Some (MArr vs) =>
      match spec_areqs vs body with (r', lft) => child r' (match lft with [] => true | _ => false end) end
    | Some v => not_container o v
    end.
  Proof. reflexivity. Qed.

  Lemma spec_areqs_cons vs a l : spec_areqs vs (ACons a l) =
    match spec_areq vs a with
    | ((t1, None, c1), vs1) =>
      match spec_areqs vs1 l with ((t2, e2, c2), vs2) => ((t1 ++ t2, e2, c1 && c2), vs2) end
    | failed => failed
    end.
  Proof. reflexivity. Qed.

  Lemma spec_areq_obj v vs body : spec_areq (v :: vs) (AObj body) =
    match v with
    | MMap kvs' => (child (spec_reqs kvs' body) true, vs)
    | _ => (not_container o v, vs)
    end.
  Proof. reflexivity. Qed.

  Lemma spec_areq_arr v vs body : spec_areq (v :: vs) (AArr body) =
    match v with
    | MArr vs2 =>
      match spec_areqs vs2 body with (r', lft) => (child r' (match lft with [] => true | _ => false end), vs) end
    | _ => (not_container o v, vs)
    end.
  Proof. reflexivity. Qed.

  Lemma run_reqs_cons r l st rest : run_reqs (RCons r l) st rest =
    match run_req r st rest with
    | (t1, Go st1 r1, f1) => let '(t2, oc, f2) := run_reqs l st1 r1 in (t1 ++ t2, oc, f1 || f2)
    | failed => failed
    end.
  Proof. reflexivity. Qed.

  Lemma run_areqs_cons a l st rest : run_areqs (ACons a l) st rest =
    match run_areq a st rest with
    | (t1, Go st1 r1, f1) => let '(t2, oc, f2) := run_areqs l st1 r1 in (t1 ++ t2, oc, f1 || f2)
    | failed => failed
    end.
  Proof. reflexivity. Qed.

  Lemma run_req_obj q body st rest : run_req (RObj q body) st rest = do_obj o (find_value_by_key narrow widen o) (run_reqs body) q st rest.
  Proof. reflexivity. Qed.

  Lemma run_req_arr q body st rest : run_req (RArr q body) st rest = do_arr o (find_value_by_key narrow widen o) (run_areqs body) q st rest.
  Proof. reflexivity. Qed.

  Lemma run_areq_obj body size idx rest : (idx =? size) = false -> run_areq (AObj body) (mkA size idx) rest =
    match read_map_size o rest with
    | ROk n r => with_child (after_child_obj (fun s => s) (mkA size (idx + 1))) (run_reqs body (mkO r n 0 None) r)
    | RNot r => ([KNone], Go (mkA size (idx + 1)) r, false)
    | RErr e => ([], raise_typed e (mkA size idx) rest, false)
    | RFuel => ([], NoFuel, false)
    end.
  Proof. intros H. cbn [MpScopeModel.run_areq a_index a_size]. rewrite H. reflexivity. Qed.

  Lemma run_areq_arr body size idx rest : (idx =? size) = false -> run_areq (AArr body) (mkA size idx) rest =
    match read_array_size o rest with
    | ROk n r => with_child (after_child_arr (fun s => s) (mkA size (idx + 1))) (run_areqs body (mkA n 0) r)
    | RNot r => ([KNone], Go (mkA size (idx + 1)) r, false)
    | RErr e => ([], raise_typed e (mkA size idx) rest, false)
    | RFuel => ([], NoFuel, false)
    end.
  Proof. intros H. cbn [MpScopeModel.run_areq a_index a_size]. rewrite H. reflexivity. Qed.

  Lemma of_tres_go t toks c : of_tres t = (toks, None, c) ->
    (exists x, t = TVal x /\ toks = [KVal x]) \/ (t = TNot /\ toks = [KFalse]).
  Proof.
    destruct t; cbn [of_tres]; intros H; [left | right | discriminate].
    - exists v. split; [reflexivity | congruence].
    - split; [reflexivity | congruence].
  Qed.

  (* ---------- the keyed operations once FindValueByKey has answered ---------- *)
  Section Found.
    Variable body : list N.
    Variable kvs : list (mpv * mpv).
    Variable rend : list N.
    Hypothesis Hb : bytes body.
    Variable fnd : qkey -> oscope -> list N -> out (bool * oscope).

    (* SerializeValue(key, value) *)
    Lemma get_found q t st p st1 p1 v pn toks c :
      fnd q st p = Go (true, st1) p1 -> at_member body kvs rend st1 p1 v pn ->
      of_tres (typed_spec narrow widen o t v) = (toks, None, c) ->
      do_get narrow widen o fnd q t st p = (toks, Go (on_finish_child st1) pn, false).
    Proof.
      intros Ef HM Hs. unfold do_get. rewrite Ef. cbn [lift_find].
      destruct (at_member_facts body kvs rend Hb _ _ _ _ HM) as [Hv [Hbp _]].
      rewrite (read_target_on narrow widen o t p1 v pn Hbp Hv).
      destruct (of_tres_go _ _ _ Hs) as [[x [-> ->]] | [-> ->]]; reflexivity.
    Qed.

    Lemma get_absent q t st p st1 p1 :
      fnd q st p = Go (false, st1) p1 ->
      do_get narrow widen o fnd q t st p = ([KFalse], Go st1 p1, false).
    Proof. intros Ef. unfold do_get. rewrite Ef. reflexivity. Qed.
  End Found.

  Lemma H_get q t : P_req (RGet q t).
  Proof.
    intros body kvs rend Hb HL Hok st p Hc toks c Hs.
    destruct (doc_ok_map _ Hok) as [Hsup [Hdist Hvals]].
    destruct (find_spec narrow widen o body kvs rend Hb HL Hsup Hdist q st p Hc) as [b [st1 [p1 [Ef Hres]]]].
    change (run_req (RGet q t) st p) with (do_get narrow widen o (find_value_by_key narrow widen o) q t st p). cbn [MpScopeSpec.spec_req] in Hs.
    destruct (lookup (key_of_q q) kvs) as [v|].
    - destruct Hres as [-> [pn HM]]. rewrite (get_found body kvs rend Hb (find_value_by_key narrow widen o) q t st p st1 p1 v pn toks c Ef HM Hs).
      eexists _, _. split; [reflexivity|]. exact (after_member narrow widen body kvs rend _ _ _ _ HM).
    - destruct Hres as [-> [Hc' _]]. rewrite (get_absent (find_value_by_key narrow widen o) q t st p st1 p1 Ef). injection Hs as <- _.
      eexists _, _. split; [reflexivity | exact Hc'].
  Qed.

  Lemma child_go inner complete toks c : child inner complete = (toks, None, c) ->
    exists t c', inner = (t, None, c') /\ toks = KOpen :: t ++ [KClose].
  Proof.
    destruct inner as [[t e] c0]. destruct e as [e|]; cbn [child]; intros H; [discriminate|].
    injection H as <- _. exists t, c0. split; reflexivity.
  Qed.

  Lemma not_container_go v toks c : not_container o v = (toks, None, c) ->
    toks = [KNone] /\ forall (A : Type) r, @not_this o A v r = RNot r.
  Proof.
    unfold not_container, not_this, mismatch_outcome.
    destruct v; cbn [is_nil]; destruct (o_mismatch o); intros H;
      first [ discriminate H | injection H as <- _; split; reflexivity ].
  Qed.

  Lemma H_nil : P_reqs RNil.
  Proof.
    intros body kvs rend Hb HL Hok st p Hc toks c Hs. cbn [MpScopeSpec.spec_reqs] in Hs. injection Hs as <- _.
    exists st, p. split; [reflexivity | exact Hc].
  Qed.

  Lemma H_cons r l : P_req r -> P_reqs l -> P_reqs (RCons r l).
  Proof.
    intros IHr IHl body kvs rend Hb HL Hok st p Hc toks c Hs. rewrite spec_reqs_cons in Hs.
    destruct (spec_req kvs r) as [[t1 e1] c1] eqn:E1. destruct e1 as [e1|]; [discriminate Hs|].
    destruct (spec_reqs kvs l) as [[t2 e2] c2] eqn:E2. injection Hs as <- -> _.
    destruct (IHr body kvs rend Hb HL Hok st p Hc t1 c1 E1) as [st1 [p1 [R1 Hc1]]].
    destruct (IHl body kvs rend Hb HL Hok st1 p1 Hc1 t2 c2 E2) as [st2 [p2 [R2 Hc2]]].
    exists st2, p2. split; [|exact Hc2]. rewrite run_reqs_cons, R1, R2. reflexivity.
  Qed.

  (* a child object scope: opened at a value that is a map, driven by a program, destroyed *)
  Lemma child_obj_run body_reqs p1 kvs' pn t c :
    P_reqs body_reqs -> bytes p1 -> decode p1 = Some (MMap kvs', pn) -> doc_ok (MMap kvs') = true ->
    spec_reqs kvs' body_reqs = (t, None, c) ->
    exists bodyc cst cp,
      read_map_size o p1 = ROk (N.of_nat (length kvs')) bodyc /\
      run_reqs body_reqs (mkO bodyc (N.of_nat (length kvs')) 0 None) bodyc = (t, Go cst cp, false) /\
      close_obj cst cp = CDone pn false.
  Proof.
    intros IH Hbp Hv Hok Hs.
    destruct (read_map_size_on o p1 _ pn Hbp Hv) as [bodyc [Hr [HLc Hsuf]]].
    pose proof (suffix_bytes _ _ Hsuf Hbp) as Hbc.
    assert (Hc0 : cursor bodyc kvs' pn (mkO bodyc (N.of_nat (length kvs')) 0 None) bodyc)
      by (apply (C_at bodyc kvs' pn [] kvs' bodyc); [reflexivity | constructor | exact HLc]).
    destruct (IH bodyc kvs' pn Hbc HLc Hok _ _ Hc0 t c Hs) as [cst [cp [Hrun Hcc]]].
    exists bodyc, cst, cp. split; [exact Hr|]. split; [exact Hrun|].
    apply (close_spec narrow widen bodyc kvs' pn). exact Hcc.
  Qed.

  (* ~CMsgPackReadArrayScope: the elements not consumed are skipped *)
  Lemma close_arr_loop_spec : forall vs' fuel idx p rend, alayout p vs' rend -> (length vs' < fuel)%nat ->
    arr_close_loop fuel idx (idx + N.of_nat (length vs')) p = CDone rend false.
  Proof.
    induction vs' as [|v vs' IH]; intros fuel idx p rend HL Hf; (destruct fuel as [|f]; [cbn [length] in Hf; lia|]); cbn [arr_close_loop].
    - inversion HL; subst. replace (idx <? idx + N.of_nat (length (@nil mpv))) with false by (symmetry; cbn [length]; lia). reflexivity.
    - inversion HL as [|? ? p' ? ? Hv HL']; subst. cbn [length] in Hf.
      replace (idx <? idx + N.of_nat (length (v :: vs'))) with true by (symmetry; cbn [length]; lia).
      rewrite (skip_at_exact _ _ _ Hv).
      replace (idx + N.of_nat (length (v :: vs'))) with (idx + 1 + N.of_nat (length vs')) by (cbn [length]; lia).
      apply (IH f (idx + 1) p' rend HL'). lia.
  Qed.

  Lemma alayout_length p vs r : alayout p vs r -> (length vs + length r <= length p)%nat.
  Proof. induction 1; [cbn; lia|]. apply decode_shorter in H. cbn [length]. lia. Qed.

  Lemma close_arr_spec vs' idx size p rend : alayout p vs' rend -> idx + N.of_nat (length vs') = size ->
    close_arr (mkA size idx) p = CDone rend false.
  Proof.
    intros HL Hi. unfold close_arr. cbn [a_index a_size]. rewrite <- Hi.
    apply (close_arr_loop_spec vs'); [exact HL | pose proof (alayout_length _ _ _ HL); lia].
  Qed.

  Lemma child_arr_run body_reqs p1 vs pn t c vs' :
    P_areqs body_reqs -> bytes p1 -> decode p1 = Some (MArr vs, pn) -> doc_ok (MArr vs) = true ->
    spec_areqs vs body_reqs = ((t, None, c), vs') ->
    exists bodyc ast cp,
      read_array_size o p1 = ROk (N.of_nat (length vs)) bodyc /\
      run_areqs body_reqs (mkA (N.of_nat (length vs)) 0) bodyc = (t, Go ast cp, false) /\
      close_arr ast cp = CDone pn false.
  Proof.
    intros IH Hbp Hv Hok Hs.
    destruct (read_array_size_on o p1 _ pn Hbp Hv) as [bodyc [Hr [HLc Hsuf]]].
    pose proof (suffix_bytes _ _ Hsuf Hbp) as Hbc.
    destruct (IH vs pn bodyc Hbc HLc (doc_ok_arr _ Hok) (N.of_nat (length vs)) 0 (N.add_0_l _) t c vs' Hs)
      as [idx' [p' [Hrun [_ [HL' [_ Hi]]]]]].
    exists bodyc, (mkA (N.of_nat (length vs)) idx'), p'. split; [exact Hr|]. split; [exact Hrun|].
    apply (close_arr_spec vs'); assumption.
  Qed.

  Lemma spec_arr_child_go vs body_reqs toks c :
    (match spec_areqs vs body_reqs with (r', lft) => child r' (match lft with [] => true | _ => false end) end) = (toks, None, c) ->
    exists t c' vs', spec_areqs vs body_reqs = ((t, None, c'), vs') /\ toks = KOpen :: t ++ [KClose].
  Proof.
    destruct (spec_areqs vs body_reqs) as [r' lft]. intros H. apply child_go in H. destruct H as [t [c' [-> ->]]].
    exists t, c', lft. split; reflexivity.
  Qed.

  (* n <= |bs| bytes loaded from a byte array, the scope destroyed: the rest of the bytes is passed *)
  Lemma bin_reads_prefix : forall n bs size idx r, (n <= length bs)%nat ->
    bin_reads n (mkA size idx) (bs ++ r) =
      (map KByte (firstn n bs), Go (mkA size (idx + N.of_nat n)) (skipn n bs ++ r)) \/
    idx + N.of_nat (length bs) <> size.
  Proof.
    induction n as [|n IH]; intros bs size idx r Hn.
    - left. cbn [bin_reads firstn skipn map]. rewrite N.add_0_r. reflexivity.
    - destruct bs as [|b bs]; [cbn [length] in Hn; lia|].
      destruct (N.eq_dec (idx + N.of_nat (length (b :: bs))) size) as [Hi|Hi]; [|right; exact Hi]. left.
      cbn [bin_reads a_index a_size app read_binary]. cbn [length] in Hi, Hn.
      replace (idx =? size) with false by (symmetry; lia).
      destruct (IH bs size (idx + 1) r) as [E | E]; [lia | | lia].
      rewrite E. cbn [firstn skipn map]. do 3 f_equal. lia.
  Qed.

  Lemma bin_child_run n bs pn : (n <= length bs)%nat ->
    exists ast cp, bin_reads n (mkA (N.of_nat (length bs)) 0) (bs ++ pn) = (map KByte (firstn n bs), Go ast cp) /\
      close_bin ast cp = CDone pn false.
  Proof.
    intros Hn. destruct (bin_reads_prefix n bs (N.of_nat (length bs)) 0 pn Hn) as [E | E]; [|lia].
    eexists _, _. split; [exact E|].
    unfold close_bin. cbn [a_size a_index].
    rewrite (take_app_n _ (skipn n bs) pn); [reflexivity|]. rewrite skipn_length. lia.
  Qed.

  Lemma bytes_child_go bs n toks c : bytes_child bs n = (toks, None, c) ->
    (n <= length bs)%nat /\ toks = KOpen :: map KByte (firstn n bs) ++ [KClose].
  Proof.
    unfold bytes_child. destruct (n <=? length bs)%nat eqn:E; intros H; [|discriminate].
    injection H as <- _. apply Nat.leb_le in E. split; [exact E | reflexivity].
  Qed.

  Lemma has_type_bin v t : has_type v t -> match v with MBin _ => t = TBin | _ => t <> TBin end.
  Proof.
    destruct v; cbn [has_type]; intros H; try (subst t; discriminate); try exact H.
    - destruct H as [[-> _] | [-> _]]; discriminate.
    - subst t. destruct (ty =? 255); discriminate.
  Qed.

  Definition is_binv (v : mpv) : bool := match v with MBin _ => true | _ => false end.

  Section Found2.
    Variable body : list N.
    Variable kvs : list (mpv * mpv).
    Variable rend : list N.
    Hypothesis Hb : bytes body.
    Variable fnd : qkey -> oscope -> list N -> out (bool * oscope).

    (* OpenObjectScope(key): the value found is v *)
    Lemma obj_found q body_reqs st p st1 p1 v pn toks c :
      P_reqs body_reqs -> doc_ok v = true ->
      fnd q st p = Go (true, st1) p1 -> at_member body kvs rend st1 p1 v pn ->
      (match v with MMap kvs' => child (spec_reqs kvs' body_reqs) true | _ => not_container o v end) = (toks, None, c) ->
      do_obj o fnd (run_reqs body_reqs) q st p = (toks, Go (on_finish_child st1) pn, false).
    Proof.
      intros IH Hokv Ef HM Hs. unfold do_obj. rewrite Ef. cbn [lift_find].
      destruct (at_member_facts body kvs rend Hb _ _ _ _ HM) as [Hv [Hbp _]].
      pose proof (read_map_size_on o p1 v pn Hbp Hv) as Hsz.
      destruct v.
      9:{ apply child_go in Hs. destruct Hs as [t [c' [Hs ->]]].
          destruct (child_obj_run body_reqs p1 l pn t c' IH Hbp Hv Hokv Hs) as [bodyc [cst [cp [Hr [Hrun Hcl]]]]].
          rewrite Hr, Hrun. unfold with_child, after_child_obj, after_child. cbn [wrap_child is_go]. rewrite Hcl. reflexivity. }
      all: apply not_container_go in Hs; destruct Hs as [-> Hnt]; rewrite Hsz, Hnt; reflexivity.
    Qed.

    Lemma obj_absent run_body q st p st1 p1 :
      fnd q st p = Go (false, st1) p1 ->
      do_obj o fnd run_body q st p = ([KNone], Go st1 p1, false).
    Proof. intros Ef. unfold do_obj. rewrite Ef. reflexivity. Qed.

    (* OpenArrayScope(key) *)
    Lemma arr_found q body_reqs st p st1 p1 v pn toks c :
      P_areqs body_reqs -> doc_ok v = true ->
      fnd q st p = Go (true, st1) p1 -> at_member body kvs rend st1 p1 v pn ->
      (match v with
       | MArr vs => match spec_areqs vs body_reqs with (r', lft) => child r' (match lft with [] => true | _ => false end) end
       | _ => not_container o v
       end) = (toks, None, c) ->
      do_arr o fnd (run_areqs body_reqs) q st p = (toks, Go (on_finish_child st1) pn, false).
    Proof.
      intros IH Hokv Ef HM Hs. unfold do_arr. rewrite Ef. cbn [lift_find].
      destruct (at_member_facts body kvs rend Hb _ _ _ _ HM) as [Hv [Hbp _]].
      pose proof (read_array_size_on o p1 v pn Hbp Hv) as Hsz.
      destruct v.
      8:{ apply spec_arr_child_go in Hs. destruct Hs as [t [c' [vs' [Hs ->]]]].
          destruct (child_arr_run body_reqs p1 l pn t c' vs' IH Hbp Hv Hokv Hs) as [bodyc [ast [cp [Hr [Hrun Hcl]]]]].
          rewrite Hr, Hrun. unfold with_child, after_child_arr, after_child. cbn [wrap_child is_go]. rewrite Hcl. reflexivity. }
      all: apply not_container_go in Hs; destruct Hs as [-> Hnt]; rewrite Hsz, Hnt; reflexivity.
    Qed.

    Lemma arr_absent run_body q st p st1 p1 :
      fnd q st p = Go (false, st1) p1 ->
      do_arr o fnd run_body q st p = ([KNone], Go st1 p1, false).
    Proof. intros Ef. unfold do_arr. rewrite Ef. reflexivity. Qed.

    (* OpenBinaryScope(key): a byte array is consumed; anything else is left, the key stays current *)
    Lemma bin_found q n st p st1 p1 v pn toks c :
      fnd q st p = Go (true, st1) p1 -> at_member body kvs rend st1 p1 v pn ->
      (match v with MBin bs => bytes_child bs n | _ => ([KNone], None, true) end) = (toks, None, c) ->
      do_bin_gen o fnd n q st p =
        if is_binv v then ((toks, Go (on_finish_child st1) pn, false), false) else ((toks, Go st1 p1, false), true).
    Proof.
      intros Ef HM Hs. unfold do_bin_gen. rewrite Ef.
      destruct (at_member_facts body kvs rend Hb _ _ _ _ HM) as [Hv [Hbp _]].
      destruct (value_type_sound p1 v pn Hbp Hv) as [t [Ht HT]]. rewrite Ht.
      pose proof (has_type_bin v t HT) as Hbin.
      pose proof (read_bin_size_on o p1 v pn Hv) as Hsz.
      destruct v; cbn [is_binv].
      7:{ subst t. destruct Hsz as [bodyc [Hr ->]]. rewrite Hr.
          apply bytes_child_go in Hs. destruct Hs as [Hn ->].
          destruct (bin_child_run n s pn Hn) as [ast [cp [Hrun Hcl]]]. rewrite Hrun.
          unfold with_child, plain, after_child_bin, after_child. cbn [fst snd wrap_child is_go]. rewrite Hcl. reflexivity. }
      all: injection Hs as <- _; destruct t; try congruence; reflexivity.
    Qed.

    Lemma bin_absent q n st p st1 p1 :
      fnd q st p = Go (false, st1) p1 ->
      do_bin_gen o fnd n q st p = (([KNone], Go st1 p1, false), true).
    Proof. intros Ef. unfold do_bin_gen. rewrite Ef. reflexivity. Qed.
  End Found2.

  Lemma H_obj q body_reqs : P_reqs body_reqs -> P_req (RObj q body_reqs).
  Proof.
    intros IH body kvs rend Hb HL Hok st p Hc toks c Hs.
    destruct (doc_ok_map _ Hok) as [Hsup [Hdist Hvals]].
    destruct (find_spec narrow widen o body kvs rend Hb HL Hsup Hdist q st p Hc) as [b [st1 [p1 [Ef Hres]]]].
    rewrite run_req_obj. rewrite spec_req_obj in Hs.
    destruct (lookup (key_of_q q) kvs) as [v|].
    2:{ destruct Hres as [-> [Hc' _]]. rewrite (obj_absent (find_value_by_key narrow widen o) _ q st p st1 p1 Ef). injection Hs as <- _.
        eexists _, _. split; [reflexivity | exact Hc']. }
    destruct Hres as [-> [pn HM]].
    destruct (at_member_facts body kvs rend Hb _ _ _ _ HM) as [_ [_ [_ [Hin _]]]].
    rewrite (obj_found body kvs rend Hb (find_value_by_key narrow widen o) q body_reqs st p st1 p1 v pn toks c IH (Hvals _ Hin) Ef HM);
      [|destruct v; exact Hs].
    eexists _, _. split; [reflexivity|]. exact (after_member narrow widen body kvs rend _ _ _ _ HM).
  Qed.

  Lemma H_arr q body_reqs : P_areqs body_reqs -> P_req (RArr q body_reqs).
  Proof.
    intros IH body kvs rend Hb HL Hok st p Hc toks c Hs.
    destruct (doc_ok_map _ Hok) as [Hsup [Hdist Hvals]].
    destruct (find_spec narrow widen o body kvs rend Hb HL Hsup Hdist q st p Hc) as [b [st1 [p1 [Ef Hres]]]].
    rewrite run_req_arr. rewrite spec_req_arr in Hs.
    destruct (lookup (key_of_q q) kvs) as [v|].
    2:{ destruct Hres as [-> [Hc' _]]. rewrite (arr_absent (find_value_by_key narrow widen o) _ q st p st1 p1 Ef). injection Hs as <- _.
        eexists _, _. split; [reflexivity | exact Hc']. }
    destruct Hres as [-> [pn HM]].
    destruct (at_member_facts body kvs rend Hb _ _ _ _ HM) as [_ [_ [_ [Hin _]]]].
    rewrite (arr_found body kvs rend Hb (find_value_by_key narrow widen o) q body_reqs st p st1 p1 v pn toks c IH (Hvals _ Hin) Ef HM);
      [|destruct v; exact Hs].
    eexists _, _. split; [reflexivity|]. exact (after_member narrow widen body kvs rend _ _ _ _ HM).
  Qed.

  (* OpenBinaryScope(key) *)
  Lemma H_bin q n : P_req (RBin q n).
  Proof.
    intros body kvs rend Hb HL Hok st p Hc toks c Hs.
    destruct (doc_ok_map _ Hok) as [Hsup [Hdist Hvals]].
    destruct (find_spec narrow widen o body kvs rend Hb HL Hsup Hdist q st p Hc) as [b [st1 [p1 [Ef Hres]]]].
    change (run_req (RBin q n) st p) with (fst (do_bin_gen o (find_value_by_key narrow widen o) n q st p)). cbn [MpScopeSpec.spec_req] in Hs.
    destruct (lookup (key_of_q q) kvs) as [v|].
    2:{ destruct Hres as [-> [Hc' _]]. rewrite (bin_absent (find_value_by_key narrow widen o) q n st p st1 p1 Ef). injection Hs as <- _.
        eexists _, _. split; [reflexivity | exact Hc']. }
    destruct Hres as [-> [pn HM]].
    rewrite (bin_found body kvs rend Hb (find_value_by_key narrow widen o) q n st p st1 p1 v pn toks c Ef HM); [|destruct v; exact Hs].
    destruct (is_binv v); cbn [fst]; eexists _, _; (split; [reflexivity|]).
    - exact (after_member narrow widen body kvs rend _ _ _ _ HM).
    - exact (C_key body kvs rend _ _ _ _ HM).
  Qed.

  (* VisitKeys *)
  Lemma reset_key_go body kvs rend st p : cursor body kvs rend st p ->
    exists st1 p1, reset_key st p = Go st1 p1 /\ o_start st1 = body /\ o_size st1 = N.of_nat (length kvs) /\ o_key st1 = None.
  Proof.
    intros [kvs1 kvs2 p0 E H1 H2 | st0 p0 vm pn HM].
    - eexists _, _. split; [reflexivity|]. repeat split.
    - destruct HM as [kvs1 km vm0 kvs2 pk p1 pn0 sk0 E H1 Hk Hv0 H2 Hkd Hok].
      unfold reset_key. cbn [o_key]. rewrite (skip_at_exact _ _ _ Hv0). eexists _, _. split; [reflexivity|]. repeat split.
  Qed.

  Lemma H_visit : P_req RVisit.
  Proof.
    intros body kvs rend Hb HL Hok st p Hc toks c Hs.
    destruct (doc_ok_map _ Hok) as [Hsup [Hdist Hvals]].
    cbn [MpScopeSpec.spec_req] in Hs. injection Hs as <- _.
    destruct (reset_key_go body kvs rend st p Hc) as [st1 [p1 [Hr [Hst [Hsz Hk]]]]].
    cbn [MpScopeModel.run_req]. rewrite Hr. destruct st1 as [s0 z0 i0 k0]. cbn [o_start o_size o_key] in *. subst s0 z0 k0.
    unfold set_index. cbn [o_start o_size o_key].
    pose proof (olayout_length _ _ _ HL) as Hlen.
    assert (Hf : (length kvs < S (length body))%nat) by lia.
    pose proof (visit_loop_spec narrow widen o body kvs rend Hb HL Hsup Hdist kvs (S (length body)) [] body [] eq_refl (OL_nil body) HL Hf) as Ev.
    cbn [length N.of_nat app] in Ev. rewrite Ev.
    eexists _, _. split; [reflexivity|].
    exact (C_at body kvs rend kvs [] rend (eq_sym (app_nil_r kvs)) HL (OL_nil rend)).
  Qed.

  (* ---------- array scope ---------- *)
  Ltac fin_arr := repeat split; try assumption; try lia.

  Lemma A_nil : P_areqs ANil.
  Proof.
    intros vs rend p Hb HL Hok size idx Hi toks c vs' Hs. cbn [MpScopeSpec.spec_areqs] in Hs. injection Hs as <- _ <-.
    exists idx, p. split; [reflexivity|]. fin_arr.
  Qed.

  Lemma A_cons a l : P_areq a -> P_areqs l -> P_areqs (ACons a l).
  Proof.
    intros IHa IHl vs rend p Hb HL Hok size idx Hi toks c vs' Hs. rewrite spec_areqs_cons in Hs.
    destruct (spec_areq vs a) as [[[t1 e1] c1] vs1] eqn:E1. destruct e1 as [e1|]; [discriminate Hs|].
    destruct (spec_areqs vs1 l) as [[[t2 e2] c2] vs2] eqn:E2. injection Hs as <- -> _ <-.
    destruct (IHa vs rend p Hb HL Hok size idx Hi t1 c1 vs1 E1) as [idx1 [p1 [R1 [Hb1 [HL1 [Hok1 Hi1]]]]]].
    destruct (IHl vs1 rend p1 Hb1 HL1 Hok1 size idx1 Hi1 t2 c2 vs2 E2) as [idx2 [p2 [R2 [Hb2 [HL2 [Hok2 Hi2]]]]]].
    exists idx2, p2. split; [rewrite run_areqs_cons, R1, R2; reflexivity|].
    repeat split; assumption.
  Qed.

  Lemma A_end : P_areq AEnd.
  Proof.
    intros vs rend p Hb HL Hok size idx Hi toks c vs' Hs. cbn [MpScopeSpec.spec_areq] in Hs. injection Hs as <- _ <-.
    exists idx, p. split; [|fin_arr].
    cbn [MpScopeModel.run_areq a_index a_size].
    destruct vs; cbn [length] in Hi; [replace (idx =? size) with true by (symmetry; lia) | replace (idx =? size) with false by (symmetry; lia)]; reflexivity.
  Qed.

  Lemma A_get t : P_areq (AGet t).
  Proof.
    intros vs rend p Hb HL Hok size idx Hi toks c vs' Hs.
    destruct vs as [|v vs0]; [cbn [MpScopeSpec.spec_areq] in Hs; discriminate Hs|].
    inversion HL as [|? ? p' ? ? Hv HL']; subst. inversion Hok as [|? ? Hokv Hok']; subst. cbn [length] in *.
    cbn [MpScopeSpec.spec_areq] in Hs. injection Hs as Hs <-.
    cbn [MpScopeModel.run_areq a_index a_size]. replace (idx =? idx + N.of_nat (S (length vs0))) with false by (symmetry; lia).
    rewrite (read_target_on narrow widen o t p v p' Hb Hv).
    pose proof (decode_bytes _ _ _ Hv Hb) as Hb'.
    destruct (of_tres_go _ _ _ Hs) as [[x [-> ->]] | [-> ->]]; cbn [rres_of_tres];
      exists (idx + 1), p'; (split; [reflexivity | fin_arr]).
  Qed.

  Lemma A_obj body_reqs : P_reqs body_reqs -> P_areq (AObj body_reqs).
  Proof.
    intros IH vs rend p Hb HL Hok size idx Hi toks c vs' Hs.
    destruct vs as [|v vs0]; [cbn [MpScopeSpec.spec_areq] in Hs; discriminate Hs|].
    inversion HL as [|? ? p' ? ? Hv HL']; subst. inversion Hok as [|? ? Hokv Hok']; subst. cbn [length] in *.
    rewrite spec_areq_obj in Hs.
    rewrite run_areq_obj by (apply N.eqb_neq; cbn [length]; lia).
    pose proof (decode_bytes _ _ _ Hv Hb) as Hb'.
    pose proof (read_map_size_on o p v p' Hb Hv) as Hsz.
    destruct v.
    9:{ injection Hs as Hs <-. apply child_go in Hs. destruct Hs as [t [c' [Hs ->]]].
        destruct (child_obj_run body_reqs p l p' t c' IH Hb Hv Hokv Hs) as [bodyc [cst [cp [Hr [Hrun Hcl]]]]].
        rewrite Hr, Hrun. unfold with_child, after_child_obj, after_child. cbn [wrap_child is_go]. rewrite Hcl. cbn [orb].
        exists (idx + 1), p'. split; [reflexivity | fin_arr]. }
    all: pose proof (f_equal snd Hs) as Hs2; apply (f_equal fst) in Hs; cbn [fst snd] in Hs, Hs2; subst vs';
         apply not_container_go in Hs; destruct Hs as [-> Hnt]; rewrite Hsz, Hnt;
         exists (idx + 1), p'; (split; [reflexivity | fin_arr]).
  Qed.

  Lemma A_arr body_reqs : P_areqs body_reqs -> P_areq (AArr body_reqs).
  Proof.
    intros IH vs rend p Hb HL Hok size idx Hi toks c vs' Hs.
    destruct vs as [|v vs0]; [cbn [MpScopeSpec.spec_areq] in Hs; discriminate Hs|].
    inversion HL as [|? ? p' ? ? Hv HL']; subst. inversion Hok as [|? ? Hokv Hok']; subst. cbn [length] in *.
    rewrite spec_areq_arr in Hs.
    rewrite run_areq_arr by (apply N.eqb_neq; cbn [length]; lia).
    pose proof (decode_bytes _ _ _ Hv Hb) as Hb'.
    pose proof (read_array_size_on o p v p' Hb Hv) as Hsz.
    destruct v.
    8:{ destruct (spec_areqs l body_reqs) as [r' lft] eqn:Er. injection Hs as Hs <-.
        apply child_go in Hs. destruct Hs as [t [c' [-> ->]]].
        destruct (child_arr_run body_reqs p l p' t c' lft IH Hb Hv Hokv Er) as [bodyc [ast [cp [Hr [Hrun Hcl]]]]].
        rewrite Hr, Hrun. unfold with_child, after_child_arr, after_child. cbn [wrap_child is_go]. rewrite Hcl. cbn [orb].
        exists (idx + 1), p'. split; [reflexivity | fin_arr]. }
    all: pose proof (f_equal snd Hs) as Hs2; apply (f_equal fst) in Hs; cbn [fst snd] in Hs, Hs2; subst vs';
         apply not_container_go in Hs; destruct Hs as [-> Hnt]; rewrite Hsz, Hnt;
         exists (idx + 1), p'; (split; [reflexivity | fin_arr]).
  Qed.

  Lemma A_bin n : P_areq (ABin n).
  Proof.
    intros vs rend p Hb HL Hok size idx Hi toks c vs' Hs.
    destruct vs as [|v vs0]; [cbn [MpScopeSpec.spec_areq] in Hs; discriminate Hs|].
    inversion HL as [|? ? p' ? ? Hv HL']; subst. inversion Hok as [|? ? Hokv Hok']; subst. cbn [length] in *.
    cbn [MpScopeSpec.spec_areq] in Hs.
    cbn [MpScopeModel.run_areq a_index a_size]. replace (idx =? idx + N.of_nat (S (length vs0))) with false by (symmetry; lia).
    pose proof (decode_bytes _ _ _ Hv Hb) as Hb'.
    destruct (value_type_sound p v p' Hb Hv) as [t [Ht HT]]. rewrite Ht.
    pose proof (has_type_bin v t HT) as Hbin.
    pose proof (read_bin_size_on o p v p' Hv) as Hsz.
    destruct v.
    7:{ subst t. destruct Hsz as [bodyc [Hr ->]]. rewrite Hr. injection Hs as Hs <-.
        apply bytes_child_go in Hs. destruct Hs as [Hn ->].
        destruct (bin_child_run n s p' Hn) as [ast [cp [Hrun Hcl]]]. rewrite Hrun.
        unfold with_child, plain, after_child_bin, after_child. cbn [fst snd wrap_child is_go]. rewrite Hcl. cbn [orb].
        exists (idx + 1), p'. split; [reflexivity | fin_arr]. }
    all: injection Hs as <- _ <-; destruct t; try congruence;
         exists idx, p; (split; [reflexivity | repeat split; try assumption; try (constructor; assumption); try (cbn [length]; lia); try (intros fr HH; exact HH)]).
  Qed.

  (* ---------- try { request } catch (OutOfRange), and a throw by the caller ---------- *)
  Definition guarded (a : areq) : bool := match a with AGet _ | AObj _ | AArr _ | ABin _ => true | _ => false end.

  Lemma spec_areq_try vs a : spec_areq vs (ATry a) =
    match vs, a with
    | [], (AGet _ | AObj _ | AArr _ | ABin _) => (([KCaught], None, true), vs)
    | _, _ => spec_areq vs a
    end.
  Proof. reflexivity. Qed.

  Lemma run_areq_try a st rest : run_areq (ATry a) st rest =
    match run_areq a st rest with
    | (t, Raise SERange st' (Some r'), f) => (t ++ [KCaught], Go st' r', f)
    | other => other
    end.
  Proof. reflexivity. Qed.

  Lemma A_throw e : P_areq (AThrow e).
  Proof. intros vs rend p Hb HL Hok size idx Hi toks c vs' Hs. discriminate Hs. Qed.

  (* an error-free guarded request: either the array is exhausted (the scope's CheckEnd throws before anything moves, the
     caller catches it) or the request itself is error-free, and then nothing is caught *)
  Lemma A_try a : P_areq a -> P_areq (ATry a).
  Proof.
    intros IH vs rend p Hb HL Hok size idx Hi toks c vs' Hs. rewrite spec_areq_try in Hs. rewrite run_areq_try.
    assert (Hcase : (vs = [] /\ guarded a = true /\ toks = [KCaught] /\ vs' = []) \/ spec_areq vs a = ((toks, None, c), vs')).
    { destruct vs; destruct a; try (right; exact Hs); left; injection Hs as <- _ <-; repeat split. }
    destruct Hcase as [[-> [Hg [-> ->]]] | Hs'].
    - cbn [length] in Hi. assert (idx = size) by lia. subst idx.
      exists size, p. split; [|fin_arr].
      destruct a; try discriminate Hg; cbn [MpScopeModel.run_areq a_index a_size]; rewrite N.eqb_refl; reflexivity.
    - destruct (IH vs rend p Hb HL Hok size idx Hi toks c vs' Hs') as [idx' [p' [R H']]]. exists idx', p'. rewrite R.
      split; [reflexivity | exact H'].
  Qed.

  (* ---------- VisitKeys with a callback that loads under the key it is handed ---------- *)
  Definition P_vact (a : vact) : Prop :=
    forall body kvs rend, bytes body -> olayout body kvs rend -> doc_ok (MMap kvs) = true ->
    forall st p vm pn sk, at_member body kvs rend st p vm pn -> o_key st = Some sk ->
    forall toks c, spec_vact kvs (qkey_of_skey sk) a = (toks, None, c) ->
    exists st' p', run_vact a (qkey_of_skey sk) st p = (toks, Go st' p', false) /\
      ((st' = st /\ p' = p) \/ (st' = on_finish_child st /\ p' = pn)).

  Definition P_vacts (acts : vacts) : Prop :=
    forall body kvs rend, bytes body -> olayout body kvs rend -> doc_ok (MMap kvs) = true ->
    forall kvs1 kvs2 p, kvs = kvs1 ++ kvs2 -> olayout body kvs1 p -> olayout p kvs2 rend ->
    forall toks c, spec_vacts kvs kvs2 acts = (toks, None, c) ->
    run_vacts acts (mkO body (N.of_nat (length kvs)) (N.of_nat (length kvs1)) None) p =
      (toks, Go (mkO body (N.of_nat (length kvs)) (N.of_nat (length kvs)) None) rend, false).

  Lemma spec_vact_key kvs q q' a : key_of_q q = key_of_q q' -> spec_vact kvs q a = spec_vact kvs q' a.
  Proof. intros H. destruct a; cbn [MpScopeSpec.spec_vact]; rewrite ?H; reflexivity. Qed.

  Lemma key_of_qkey_of_key k : key_of_q (qkey_of_key k) = k.
  Proof. destruct k; cbn [qkey_of_key key_of_q]; try reflexivity. destruct (0 <=? z)%Z eqn:E; cbn [key_of_q]; f_equal; lia. Qed.

  Lemma spec_vact_obj kvs q body : spec_vact kvs q (VObj body) =
    match lookup (key_of_q q) kvs with
    | None => ([KNone], None, true)
    | Some (MMap kvs') => child (spec_reqs kvs' body) true
    | Some v => not_container o v
    end.
  Proof. reflexivity. Qed.

  Lemma spec_vact_arr kvs q body : spec_vact kvs q (VArr body) =
    match lookup (key_of_q q) kvs with
    | None => ([KNone], None, true)
    | Some (MArr vs) =>
      match spec_areqs vs body with (r', lft) => child r' (match lft with [] => true | _ => false end) end
    | Some v => not_container o v
    end.
  Proof. reflexivity. Qed.

  Lemma spec_vact_binarr kvs q n body : spec_vact kvs q (VBinArr n body) =
    match lookup (key_of_q q) kvs with
    | Some (MBin bs) => bytes_child bs n
    | found =>
      match (match found with
             | None => ([KNone], None, true)
             | Some (MArr vs) =>
               match spec_areqs vs body with (r', lft) => child r' (match lft with [] => true | _ => false end) end
             | Some v => not_container o v
             end) with
      | (t2, e2, c2) => (KNone :: t2, e2, c2)
      end
    end.
  Proof. reflexivity. Qed.

  Lemma spec_vacts_cons kvs k v ms a acts : spec_vacts kvs ((k, v) :: ms) (VACons a acts) =
    match (match keyden k with
           | Some kk => spec_vact kvs (qkey_of_key kk) a
           | None => ([], Some (SE EParse), true)
           end) with
    | (t1, None, c1) => match spec_vacts kvs ms acts with (t2, e2, c2) => (t1 ++ t2, e2, c1 && c2) end
    | failed => failed
    end.
  Proof. reflexivity. Qed.

  Lemma run_vact_obj body q st p : run_vact (VObj body) q st p = do_obj o (find_value_by_key narrow widen o) (run_reqs body) q st p.
  Proof. reflexivity. Qed.
  Lemma run_vact_arr body q st p : run_vact (VArr body) q st p = do_arr o (find_value_by_key narrow widen o) (run_areqs body) q st p.
  Proof. reflexivity. Qed.
  Lemma run_vact_binarr n body q st p : run_vact (VBinArr n body) q st p =
    match do_bin_gen o (find_value_by_key narrow widen o) n q st p with
    | (r, true) => seq_res r (do_arr o (find_value_by_key narrow widen o) (run_areqs body) q)
    | (r, false) => r
    end.
  Proof. reflexivity. Qed.

  Lemma run_vacts_cons a acts st p : run_vacts (VACons a acts) st p =
    if o_index st <? o_size st then
      match read_key narrow widen o p with
      | KOk k r1 =>
        match run_vact a (qkey_of_skey k) (set_key st (Some k)) r1 with
        | (t1, Go st2 r2, f1) =>
          match reset_key st2 r2 with
          | Go st3 r3 => let '(t2, oc, f2) := run_vacts acts st3 r3 in (t1 ++ t2, oc, f1 || f2)
          | other => (t1, other, f1)
          end
        | failed => failed
        end
      | KRaise e true => ([], Raise (SE e) st (Some p), false)
      | KRaise e false => ([], Raise (SE e) (set_key st (Some slot_written)) None, false)
      | KStale => ([], Stale, false)
      | KFuel => ([], NoFuel, false)
      end
    else ([], Go st p, false).
  Proof. reflexivity. Qed.

  Lemma run_req_each acts st p : run_req (REach acts) st p =
    match reset_key st p with
    | Go st1 _ => run_vacts acts (set_index st1 0) (o_start st1)
    | other => ([], other, false)
    end.
  Proof. reflexivity. Qed.

  (* what the current key is good for: found at once, or (a key that does not equal itself: NaN) absent after a full
     cycle that comes back behind the member *)
  Ltac current HM Hkey Hb HL Hok :=
    let Hsup := fresh "Hsup" in let Hdist := fresh "Hdist" in let Hvals := fresh "Hvals" in
    destruct (doc_ok_map _ Hok) as [Hsup [Hdist Hvals]];
    destruct (find_current narrow widen o _ _ _ Hb HL Hsup Hdist _ _ _ _ _ HM Hkey) as [[Ef El] | [Ef [Ef2 El]]].

  Lemma V_skip : P_vact VSkip.
  Proof.
    intros body kvs rend Hb HL Hok st p vm pn sk HM Hkey toks c Hs. cbn [MpScopeSpec.spec_vact] in Hs. injection Hs as <- _.
    exists st, p. split; [reflexivity | left; split; reflexivity].
  Qed.

  Lemma V_throw e : P_vact (VThrow e).
  Proof. intros body kvs rend Hb HL Hok st p vm pn sk HM Hkey toks c Hs. discriminate Hs. Qed.

  Lemma V_get t : P_vact (VGet t).
  Proof.
    intros body kvs rend Hb HL Hok st p vm pn sk HM Hkey toks c Hs. cbn [MpScopeSpec.spec_vact] in Hs.
    change (run_vact (VGet t) (qkey_of_skey sk) st p) with (do_get narrow widen o (find_value_by_key narrow widen o) (qkey_of_skey sk) t st p).
    current HM Hkey Hb HL Hok; rewrite El in Hs.
    - rewrite (get_found body kvs rend Hb (find_value_by_key narrow widen o) _ t st p st p vm pn toks c Ef HM Hs).
      eexists _, _. split; [reflexivity | right; split; reflexivity].
    - rewrite (get_absent (find_value_by_key narrow widen o) _ t st p _ _ Ef). injection Hs as <- _.
      eexists _, _. split; [reflexivity | right; split; reflexivity].
  Qed.

  Lemma V_obj body_reqs : P_reqs body_reqs -> P_vact (VObj body_reqs).
  Proof.
    intros IH body kvs rend Hb HL Hok st p vm pn sk HM Hkey toks c Hs. rewrite spec_vact_obj in Hs. rewrite run_vact_obj.
    current HM Hkey Hb HL Hok; rewrite El in Hs.
    - destruct (at_member_facts body kvs rend Hb _ _ _ _ HM) as [_ [_ [_ [Hin _]]]].
      rewrite (obj_found body kvs rend Hb (find_value_by_key narrow widen o) _ body_reqs st p st p vm pn toks c IH (Hvals _ Hin) Ef HM); [|destruct vm; exact Hs].
      eexists _, _. split; [reflexivity | right; split; reflexivity].
    - rewrite (obj_absent (find_value_by_key narrow widen o) _ _ st p _ _ Ef). injection Hs as <- _.
      eexists _, _. split; [reflexivity | right; split; reflexivity].
  Qed.

  Lemma V_arr body_reqs : P_areqs body_reqs -> P_vact (VArr body_reqs).
  Proof.
    intros IH body kvs rend Hb HL Hok st p vm pn sk HM Hkey toks c Hs. rewrite spec_vact_arr in Hs. rewrite run_vact_arr.
    current HM Hkey Hb HL Hok; rewrite El in Hs.
    - destruct (at_member_facts body kvs rend Hb _ _ _ _ HM) as [_ [_ [_ [Hin _]]]].
      rewrite (arr_found body kvs rend Hb (find_value_by_key narrow widen o) _ body_reqs st p st p vm pn toks c IH (Hvals _ Hin) Ef HM); [|destruct vm; exact Hs].
      eexists _, _. split; [reflexivity | right; split; reflexivity].
    - rewrite (arr_absent (find_value_by_key narrow widen o) _ _ st p _ _ Ef). injection Hs as <- _.
      eexists _, _. split; [reflexivity | right; split; reflexivity].
  Qed.

  Lemma V_bin n : P_vact (VBin n).
  Proof.
    intros body kvs rend Hb HL Hok st p vm pn sk HM Hkey toks c Hs. cbn [MpScopeSpec.spec_vact] in Hs.
    change (run_vact (VBin n) (qkey_of_skey sk) st p) with (fst (do_bin_gen o (find_value_by_key narrow widen o) n (qkey_of_skey sk) st p)).
    current HM Hkey Hb HL Hok; rewrite El in Hs.
    - rewrite (bin_found body kvs rend Hb (find_value_by_key narrow widen o) _ n st p st p vm pn toks c Ef HM); [|destruct vm; exact Hs].
      destruct (is_binv vm); cbn [fst]; eexists _, _; (split; [reflexivity|]); [right | left]; split; reflexivity.
    - rewrite (bin_absent (find_value_by_key narrow widen o) _ n st p _ _ Ef). injection Hs as <- _. cbn [fst].
      eexists _, _. split; [reflexivity | right; split; reflexivity].
  Qed.

  Lemma V_binarr n body_reqs : P_areqs body_reqs -> P_vact (VBinArr n body_reqs).
  Proof.
    intros IH body kvs rend Hb HL Hok st p vm pn sk HM Hkey toks c Hs. rewrite spec_vact_binarr in Hs. rewrite run_vact_binarr.
    current HM Hkey Hb HL Hok; rewrite El in Hs.
    - destruct (at_member_facts body kvs rend Hb _ _ _ _ HM) as [_ [_ [_ [Hin _]]]].
      destruct (is_binv vm) eqn:Hbv.
      + destruct vm; try discriminate Hbv.
        rewrite (bin_found body kvs rend Hb (find_value_by_key narrow widen o) _ n st p st p (MBin s) pn toks c Ef HM Hs). cbn [is_binv].
        eexists _, _. split; [reflexivity | right; split; reflexivity].
      + assert (Hs' : exists t2 c2, (match vm with
                                      | MArr vs => match spec_areqs vs body_reqs with (r', lft) => child r' (match lft with [] => true | _ => false end) end
                                      | _ => not_container o vm
                                      end) = (t2, None, c2) /\ toks = KNone :: t2).
        { destruct vm; try discriminate Hbv;
            match type of Hs with (let (p0, c2) := ?X in _) = _ => destruct X as [[t2 e2] c2] end;
            injection Hs as <- -> _; eexists _, _; (split; reflexivity). }
        destruct Hs' as [t2 [c2 [Hs2 ->]]].
        rewrite (bin_found body kvs rend Hb (find_value_by_key narrow widen o) _ n st p st p vm pn [KNone] true Ef HM) by (destruct vm; try discriminate Hbv; reflexivity).
        rewrite Hbv. unfold seq_res.
        rewrite (arr_found body kvs rend Hb (find_value_by_key narrow widen o) _ body_reqs st p st p vm pn t2 c2 IH (Hvals _ Hin) Ef HM Hs2).
        eexists _, _. split; [reflexivity | right; split; reflexivity].
    - rewrite (bin_absent (find_value_by_key narrow widen o) _ n st p _ _ Ef). unfold seq_res. rewrite (arr_absent (find_value_by_key narrow widen o) _ _ _ _ _ _ Ef2).
      injection Hs as <- _. eexists _, _. split; [reflexivity | right; split; reflexivity].
  Qed.

  Lemma VS_nil : P_vacts VANil.
  Proof.
    intros body kvs rend Hb HL Hok kvs1 kvs2 p E H1 H2 toks c Hs. cbn [MpScopeSpec.spec_vacts] in Hs. injection Hs as <- _.
    destruct (doc_ok_map _ Hok) as [Hsup [Hdist Hvals]].
    cbn [MpScopeModel.run_vacts o_start].
    pose proof (olayout_length _ _ _ HL) as Hlen.
    assert (Hf : (length kvs2 < S (length body))%nat) by (rewrite E, app_length in Hlen; lia).
    rewrite (visit_loop_spec narrow widen o body kvs rend Hb HL Hsup Hdist kvs2 (S (length body)) kvs1 p [] E H1 H2 Hf).
    reflexivity.
  Qed.

  Lemma VS_cons a acts : P_vact a -> P_vacts acts -> P_vacts (VACons a acts).
  Proof.
    intros IHa IH body kvs rend Hb HL Hok kvs1 kvs2 p E H1 H2 toks c Hs.
    destruct (doc_ok_map _ Hok) as [Hsup [Hdist Hvals]].
    rewrite run_vacts_cons. cbn [o_index o_size].
    destruct kvs2 as [|[k v] kvs2].
    - cbn [MpScopeSpec.spec_vacts] in Hs. injection Hs as <- _.
      apply alayout_nil_o in H2. subst p. rewrite app_nil_r in E. subst kvs1.
      rewrite N.ltb_irrefl. reflexivity.
    - rewrite spec_vacts_cons in Hs.
      pose proof (f_equal (@length _) E) as Hlen. rewrite app_length in Hlen. cbn [length] in Hlen.
      replace (N.of_nat (length kvs1) <? N.of_nat (length kvs)) with true by (symmetry; lia).
      inversion H2 as [|? ? pv ? pn ? ? Hk Hv Hrest]; subst.
      pose proof Hsup as Hs2. apply supported_app in Hs2. destruct Hs2 as [_ Hs2].
      inversion Hs2 as [|? ? Hs0 _]; subst. cbn [fst] in Hs0. destruct (keyden k) as [kk|] eqn:Ekk; [|congruence].
      assert (Hbp : bytes p) by (eapply suffix_bytes; [eapply olayout_suffix; exact H1 | exact Hb]).
      destruct (read_key_on narrow widen o p k pv kk Hbp Hk Ekk) as [sk [Hrk [Hsk Hoks]]]. rewrite Hrk.
      destruct (spec_vact (kvs1 ++ (k, v) :: kvs2) (qkey_of_key kk) a) as [[t1 e1] c1] eqn:E1. destruct e1 as [e1|]; [discriminate Hs|].
      destruct (spec_vacts (kvs1 ++ (k, v) :: kvs2) kvs2 acts) as [[t2 e2] c2] eqn:E2. injection Hs as <- -> _.
      rewrite (spec_vact_key _ _ (qkey_of_skey sk)) in E1 by (rewrite key_of_qkey_of_key, key_of_qkey_of_skey, Hsk; reflexivity).
      assert (HM : at_member body (kvs1 ++ (k, v) :: kvs2) rend
                     (set_key (mkO body (N.of_nat (length (kvs1 ++ (k, v) :: kvs2))) (N.of_nat (length kvs1)) None) (Some sk)) pv v pn).
      { unfold set_key. cbn [o_start o_size o_index]. eapply (AM body _ rend kvs1 k v kvs2 p pv pn sk); try eassumption; try reflexivity.
        rewrite Hsk. exact Ekk. }
      destruct (IHa body _ rend Hb HL Hok _ _ _ _ sk HM eq_refl t1 c1 E1) as [st' [p' [Hrun Hpos]]]. rewrite Hrun.
      assert (Hreset : reset_key st' p' = Go (mkO body (N.of_nat (length (kvs1 ++ (k, v) :: kvs2))) (N.of_nat (length (kvs1 ++ [(k, v)]))) None) pn).
      { destruct Hpos as [[-> ->] | [-> ->]]; unfold reset_key, set_key, on_finish_child; cbn [o_key o_start o_size o_index].
        - rewrite (skip_at_exact _ _ _ Hv). do 2 f_equal. rewrite app_length. cbn [length]. lia.
        - do 2 f_equal. rewrite app_length. cbn [length]. lia. }
      rewrite Hreset.
      assert (E' : kvs1 ++ (k, v) :: kvs2 = (kvs1 ++ [(k, v)]) ++ kvs2) by (rewrite <- app_assoc; reflexivity).
      pose proof (IH body _ rend Hb HL Hok (kvs1 ++ [(k, v)]) kvs2 pn E' (olayout_snoc _ _ _ _ _ _ _ H1 Hk Hv) Hrest t2 c2 E2) as Hrest'.
      rewrite Hrest'. reflexivity.
  Qed.

  Lemma H_each acts : P_vacts acts -> P_req (REach acts).
  Proof.
    intros IH body kvs rend Hb HL Hok st p Hc toks c Hs.
    change (spec_req kvs (REach acts)) with (spec_vacts kvs kvs acts) in Hs.
    destruct (reset_key_go body kvs rend st p Hc) as [st1 [p1 [Hr [Hst [Hsz Hk]]]]].
    rewrite run_req_each, Hr. destruct st1 as [s0 z0 i0 k0]. cbn [o_start o_size o_key] in *. subst s0 z0 k0.
    unfold set_index. cbn [o_start o_size o_key].
    pose proof (IH body kvs rend Hb HL Hok [] kvs body eq_refl (OL_nil body) HL toks c Hs) as R. cbn [length N.of_nat] in R.
    rewrite R. eexists _, _. split; [reflexivity|].
    exact (C_at body kvs rend kvs [] rend (eq_sym (app_nil_r kvs)) HL (OL_nil rend)).
  Qed.

  (* ---------- all programs ---------- *)
  Theorem programs_refine :
    (forall r, P_req r) /\ (forall l, P_reqs l) /\ (forall a, P_areq a) /\ (forall l, P_areqs l) /\
    (forall a, P_vact a) /\ (forall l, P_vacts l).
  Proof.
    apply program_mutind.
    - exact H_get.
    - exact H_obj.
    - exact H_arr.
    - exact H_bin.
    - exact H_visit.
    - exact H_each.
    - exact H_nil.
    - intros r Hr l Hl. exact (H_cons r l Hr Hl).
    - exact A_get.
    - exact A_obj.
    - exact A_arr.
    - exact A_bin.
    - exact A_end.
    - exact A_try.
    - exact A_throw.
    - exact A_nil.
    - intros a Ha l Hl. exact (A_cons a l Ha Hl).
    - exact V_skip.
    - exact V_throw.
    - exact V_get.
    - exact V_obj.
    - exact V_arr.
    - exact V_bin.
    - intros n body Hb. exact (V_binarr n body Hb).
    - exact VS_nil.
    - intros a Ha l Hl. exact (VS_cons a l Ha Hl).
  Qed.
End Refine.

(* ---------- the root scopes ---------- *)
Section Roots.
  Variable narrow : N -> option N.
  Variable widen : N -> N.
  Variable o : opts.

  (* EVERY error-free history on EVERY well-formed object document, any trailing data; no scope on the
     way fails to skip its rest (the flag stays clear), so Finalize() has nothing to report *)
  Lemma obj_root_refines data kvs rest h toks c :
    bytes data -> decode data = Some (MMap kvs, rest) -> doc_ok (MMap kvs) = true ->
    spec_reqs narrow widen o kvs h = (toks, None, c) ->
    run_obj_root narrow widen o data h = Done (KOpen :: toks ++ [KClose]) rest false.
  Proof.
    intros Hb Hd Hok Hs.
    destruct (programs_refine narrow widen o) as [_ [Hreqs _]].
    destruct (child_obj_run narrow widen o h data kvs rest toks c (Hreqs h) Hb Hd Hok Hs) as [bodyc [cst [cp [Hr [Hrun Hcl]]]]].
    unfold run_obj_root. rewrite Hr, Hrun. unfold with_child, after_child_obj, after_child. rewrite Hcl. reflexivity.
  Qed.

  (* the same for a root array, read to the end or not *)
  Lemma arr_root_refines data vs rest h toks c vs' :
    bytes data -> decode data = Some (MArr vs, rest) -> doc_ok (MArr vs) = true ->
    spec_areqs narrow widen o vs h = ((toks, None, c), vs') ->
    run_arr_root narrow widen o data h = Done (KOpen :: toks ++ [KClose]) rest false.
  Proof.
    intros Hb Hd Hok Hs.
    destruct (programs_refine narrow widen o) as [_ [_ [_ [Hareqs _]]]].
    destruct (child_arr_run narrow widen o h data vs rest toks c vs' (Hareqs h) Hb Hd Hok Hs) as [bodyc [ast [cp [Hr [Hrun Hcl]]]]].
    unfold run_arr_root. rewrite Hr, Hrun. unfold with_child, after_child_arr, after_child. rewrite Hcl. reflexivity.
  Qed.

  (* LoadObject = the program, then Finalize() *)
  Lemma load_obj_refines data kvs rest h toks c :
    bytes data -> decode data = Some (MMap kvs, rest) -> doc_ok (MMap kvs) = true ->
    spec_reqs narrow widen o kvs h = (toks, None, c) ->
    load_obj narrow widen o data h = LOk (KOpen :: toks ++ [KClose]) rest.
  Proof. intros Hb Hd Hok Hs. unfold load_obj. rewrite (obj_root_refines data kvs rest h toks c Hb Hd Hok Hs). reflexivity. Qed.

  (* a scope that could not skip its rest on the way: whatever the program observed, the load fails *)
  Lemma close_failure_reported_obj data h toks rest :
    run_obj_root narrow widen o data h = Done toks rest true ->
    load_obj narrow widen o data h = LErr toks (SE EParse).
  Proof. intros H. unfold load_obj. rewrite H. reflexivity. Qed.

  Lemma close_failure_reported_arr data h toks rest :
    run_arr_root narrow widen o data h = Done toks rest true ->
    load_arr narrow widen o data h = LErr toks (SE EParse).
  Proof. intros H. unfold load_arr. rewrite H. reflexivity. Qed.

  (* the flag of a child scope: set exactly when its destructor's catch block was entered, and never lost *)
  Lemma with_child_flag {C P} (close : C -> list N -> cres) (notify : P -> P) (pst : P) t cst cp f1 r f2 :
    close cst cp = CDone r f2 ->
    with_child (after_child close notify pst) (t, Go cst cp, f1) = (KOpen :: t ++ [KClose], Go (notify pst) r, f1 || f2).
  Proof. intros H. unfold with_child, after_child. rewrite H. reflexivity. Qed.

  (* the array scope: whatever the element reads and child scopes, mIndex counts the elements consumed
     and the reader stands at the start of element mIndex; the destructor then passes the rest *)
  Lemma arr_scope_counts data vs rest l toks c vs' :
    bytes data -> decode data = Some (MArr vs, rest) -> doc_ok (MArr vs) = true ->
    spec_areqs narrow widen o vs l = ((toks, None, c), vs') ->
    exists body idx p,
      read_array_size o data = ROk (N.of_nat (length vs)) body /\
      run_areqs narrow widen o l (mkA (N.of_nat (length vs)) 0) body = (toks, Go (mkA (N.of_nat (length vs)) idx) p, false) /\
      idx + N.of_nat (length vs') = N.of_nat (length vs) /\ alayout p vs' rest /\
      close_arr (mkA (N.of_nat (length vs)) idx) p = CDone rest false.
  Proof.
    intros Hb Hd Hok Hs.
    destruct (programs_refine narrow widen o) as [_ [_ [_ [Hareqs _]]]].
    destruct (read_array_size_on o data _ rest Hb Hd) as [body [Hr [HL Hsuf]]].
    pose proof (suffix_bytes _ _ Hsuf Hb) as Hbb.
    destruct (Hareqs l vs rest body Hbb HL (doc_ok_arr _ Hok) (N.of_nat (length vs)) 0 (N.add_0_l _) toks c vs' Hs)
      as [idx [p [Hrun [_ [HL' [_ Hi]]]]]].
    exists body, idx, p. repeat split; try assumption. eapply close_arr_spec; eassumption.
  Qed.

  Lemma find_keeps_cursor body kvs rend q st p :
    bytes body -> olayout body kvs rend -> supported kvs -> keys_distinct (keys_of kvs) = true ->
    cursor body kvs rend st p ->
    exists b st' p', find_value_by_key narrow widen o q st p = Go (b, st') p' /\
      cursor body kvs rend st' p' /\ o_index st' <= o_size st' /\
      (b = true <-> lookup (key_of_q q) kvs <> None).
  Proof.
    intros Hb HL Hsup Hdist Hc.
    destruct (find_spec narrow widen o body kvs rend Hb HL Hsup Hdist q st p Hc) as [b [st' [p' [Ef Hres]]]].
    exists b, st', p'. split; [exact Ef|].
    destruct (lookup (key_of_q q) kvs) as [v|].
    - destruct Hres as [-> [pn HM]].
      assert (Hc' : cursor body kvs rend st' p') by (eapply C_key; exact HM).
      split; [exact Hc'|]. split; [apply (cursor_index _ _ _ _ _ Hc')|]. split; [discriminate | reflexivity].
    - destruct Hres as [-> [Hc' _]]. split; [exact Hc'|]. split; [apply (cursor_index _ _ _ _ _ Hc')|].
      split; [discriminate | congruence].
  Qed.

  Lemma find_absent_cycle body kvs rend q kvs1 kvs2 p :
    bytes body -> olayout body kvs rend -> supported kvs -> keys_distinct (keys_of kvs) = true ->
    kvs = kvs1 ++ kvs2 -> olayout body kvs1 p -> olayout p kvs2 rend ->
    lookup (key_of_q q) kvs = None ->
    let st := mkO body (N.of_nat (length kvs)) (N.of_nat (length kvs1)) None in
    find_value_by_key narrow widen o q st p =
      match kvs1 with
      | [] => Go (false, mkO body (N.of_nat (length kvs)) (N.of_nat (length kvs)) None) rend
      | _ => Go (false, st) p
      end.
  Proof.
    intros Hb HL Hsup Hdist E H1 H2 Hl st.
    destruct (find_from_at narrow widen o body kvs rend Hb HL Hsup Hdist q kvs1 kvs2 p E H1 H2) as [b [st' [p' [Ef Hres]]]].
    rewrite Hl in Hres. destruct Hres as [-> [-> ->]].
    unfold find_value_by_key. subst st. cbn [o_key o_start]. rewrite Ef.
    destruct kvs1; reflexivity.
  Qed.

  Lemma requests_keep_cursor r body kvs rend :
    bytes body -> olayout body kvs rend -> doc_ok (MMap kvs) = true ->
    forall st p, cursor body kvs rend st p ->
    forall toks c, spec_req narrow widen o kvs r = (toks, None, c) ->
    exists st' p', run_req narrow widen o r st p = (toks, Go st' p', false) /\ cursor body kvs rend st' p'.
  Proof. exact (proj1 (programs_refine narrow widen o) r body kvs rend). Qed.
End Roots.

Lemma cursor_bounds body kvs rend st p : cursor body kvs rend st p ->
  o_index st <= o_size st /\ o_start st = body /\ o_size st = N.of_nat (length kvs).
Proof. apply cursor_index. Qed.

(* ---------- the destructors on ARBITRARY input: fuel, and where std::terminate is still possible ---------- *)
Lemma close_loop_total : forall fuel c size rest, (length rest < fuel)%nat -> exists r f, close_loop fuel c size rest = CDone r f.
Proof.
  induction fuel as [|f IH]; intros c size rest Hf; [lia|]. cbn [close_loop].
  destruct (c <? size); [|eexists _, _; reflexivity].
  destruct (skip_at rest) as [r1|e p|] eqn:E1; [|eexists _, _; reflexivity | exfalso; exact (skip_at_no_fuel _ E1)].
  destruct (skip_at r1) as [r2|e p|] eqn:E2; [|eexists _, _; reflexivity | exfalso; exact (skip_at_no_fuel _ E2)].
  apply IH. apply skip_at_progress in E1. apply skip_at_progress in E2. lia.
Qed.

Lemma arr_close_loop_total : forall fuel idx size rest, (length rest < fuel)%nat -> exists r f, arr_close_loop fuel idx size rest = CDone r f.
Proof.
  induction fuel as [|f IH]; intros idx size rest Hf; [lia|]. cbn [arr_close_loop].
  destruct (idx <? size); [|eexists _, _; reflexivity].
  destruct (skip_at rest) as [r1|e p|] eqn:E1; [|eexists _, _; reflexivity | exfalso; exact (skip_at_no_fuel _ E1)].
  apply IH. apply skip_at_progress in E1. lia.
Qed.

(* ~CMsgPackReadArrayScope and ~CMsgPackReadBinaryScope: on every state and every input they return *)
Lemma close_arr_total st rest : exists r f, close_arr st rest = CDone r f.
Proof. apply arr_close_loop_total. lia. Qed.
Lemma close_bin_total st rest : exists r f, close_bin st rest = CDone r f.
Proof. unfold close_bin. destruct (take _ rest) as [[x r]|]; eexists _, _; reflexivity. Qed.

(* ~CMsgPackReadObjectScope (ResetKey() inside the try block since 3580349): it returns on EVERY state and input *)
Lemma close_obj_total st rest : exists r f, close_obj st rest = CDone r f.
Proof.
  unfold close_obj, reset_key. destruct (o_key st) as [k|].
  - destruct (skip_at rest) as [r|e p|] eqn:E.
    + apply close_loop_total. lia.
    + eexists _, _. reflexivity.
    + exfalso. exact (skip_at_no_fuel _ E).
  - apply close_loop_total. lia.
Qed.

Definition no_narrow : N -> option N := fun _ => None.
Definition id_widen : N -> N := fun x => x.
Definition skip_all : opts := mkOpts PSkip PSkip.
Definition s32 : ity := mkIty true 32.

(* the witnesses of what 0863f96 had left of F17 (ResetKey() before the try block): an exception now *)
Definition term_doc : list N := [0x81; 0xA1; 0x61].
Definition term_prog : reqs := RCons (RArr (QStr [0x61]) ANil) RNil.
Lemma term_repaired : run_obj_root no_narrow id_widen skip_all term_doc term_prog = Failed [KOpen] (SE EParse).
Proof. vm_compute. reflexivity. Qed.

(* {"a": str8 of 5 bytes, 1 present}: OpenBinaryScope("a") declines and leaves the key current; the
   destructor's ResetKey() cannot skip the truncated string: swallowed, the reader stays behind the header byte *)
Definition term_doc2 : list N := [0x81; 0xA1; 0x61; 0xD9; 0x05; 0x01].
Definition term_prog2 : reqs := RCons (RBin (QStr [0x61]) 1) RNil.
Lemma term_repaired2 : run_obj_root no_narrow id_widen skip_all term_doc2 term_prog2 = Done [KOpen; KNone; KClose] [0x05; 0x01] true.
Proof. vm_compute. reflexivity. Qed.

(* the former witnesses of F17 and F14 *)
Lemma f17_repaired : run_obj_root no_narrow id_widen skip_all [0x81] RNil = Done [KOpen; KClose] [] true.
Proof. vm_compute. reflexivity. Qed.

Definition f14_doc : list N := [0x82; 0xA1; 0x61; 0x92; 0x01; 0x02; 0xA1; 0x62; 0x05; 0x07].
Definition f14_prog : reqs :=
  RCons (RArr (QStr [0x61]) (ACons (AGet (TgInt s32)) ANil)) (RCons (RGet (QStr [0x62]) (TgInt s32)) RNil).
Lemma f14_decodes : decode f14_doc = Some (MMap [(MStr [0x61], MArr [MInt 1; MInt 2]); (MStr [0x62], MInt 5)], [0x07]).
Proof. vm_compute. reflexivity. Qed.
Lemma f14_spec : spec_reqs no_narrow id_widen skip_all [(MStr [0x61], MArr [MInt 1; MInt 2]); (MStr [0x62], MInt 5)] f14_prog =
  ([KOpen; KVal (VInt 1); KClose; KVal (VInt 5)], None, false).
Proof. vm_compute. reflexivity. Qed.
Lemma f14_bytes : bytes f14_doc.
Proof. unfold f14_doc. repeat constructor. Qed.
Lemma f14_repaired : run_obj_root no_narrow id_widen skip_all f14_doc f14_prog =
  Done (KOpen :: [KOpen; KVal (VInt 1); KClose; KVal (VInt 5)] ++ [KClose]) [0x07] false.
Proof. exact (obj_root_refines no_narrow id_widen skip_all f14_doc _ _ f14_prog _ _ f14_bytes f14_decodes eq_refl f14_spec). Qed.

(* ---------- element reads under the Skip policies ---------- *)
Fixpoint gets (ts : list target) : areqs :=
  match ts with [] => ANil | t :: ts' => ACons (AGet t) (gets ts') end.

(* the one typed read that fails whatever the policy: a timestamp target on a timestamp extension of an invalid size *)
Definition bad_ts (t : target) (v : mpv) : bool :=
  match t, v with
  | TgTs, MExt ty s => (ty =? 255) && (match ts_lib s with None => true | Some _ => false end)
  | _, _ => false
  end.

Definition tok_of_tres (r : tres) : tok := match r with TVal x => KVal x | _ => KFalse end.

Lemma typed_spec_skip narrow widen o t v : o_mismatch o = PSkip -> o_overflow o = PSkip -> bad_ts t v = false ->
  of_tres (typed_spec narrow widen o t v) = ([tok_of_tres (typed_spec narrow widen o t v)], None, true).
Proof.
  intros Hm Ho Hb. destruct t, v; cbn [typed_spec bad_ts] in *; unfold on_mismatch, on_overflow; rewrite ?Hm, ?Ho; try reflexivity.
  all: try (destruct (in_range _ _); reflexivity).
  - destruct (narrow bits); reflexivity.
  - destruct (ty =? 255); [|reflexivity]. cbn [andb] in Hb. destruct (ts_lib s) as [[a b]|]; [reflexivity | discriminate].
Qed.

Lemma gets_spec_skip narrow widen o : o_mismatch o = PSkip -> o_overflow o = PSkip ->
  forall ts vs, (length ts <= length vs)%nat ->
  forallb (fun tv => negb (bad_ts (fst tv) (snd tv))) (combine ts vs) = true ->
  spec_areqs narrow widen o vs (gets ts) =
    ((map (fun tv => tok_of_tres (typed_spec narrow widen o (fst tv) (snd tv))) (combine ts vs), None, true), skipn (length ts) vs).
Proof.
  intros Hm Ho. induction ts as [|t ts IH]; intros vs Hl Hb.
  - reflexivity.
  - destruct vs as [|v vs]; [cbn [length] in Hl; lia|].
    cbn [combine forallb fst snd] in Hb. apply andb_true_iff in Hb. destruct Hb as [Hb1 Hb2].
    cbn [gets]. rewrite spec_areqs_cons. cbn [MpScopeSpec.spec_areq].
    rewrite (typed_spec_skip narrow widen o t v Hm Ho) by (destruct (bad_ts t v); [discriminate | reflexivity]).
    rewrite (IH vs) by (cbn [length] in Hl; try lia; exact Hb2). reflexivity.
Qed.

Lemma arr_scope_counts_skip narrow widen o data vs rest ts :
  o_mismatch o = PSkip -> o_overflow o = PSkip ->
  bytes data -> decode data = Some (MArr vs, rest) -> doc_ok (MArr vs) = true ->
  (length ts <= length vs)%nat ->
  forallb (fun tv => negb (bad_ts (fst tv) (snd tv))) (combine ts vs) = true ->
  exists body p,
    read_array_size o data = ROk (N.of_nat (length vs)) body /\
    run_areqs narrow widen o (gets ts) (mkA (N.of_nat (length vs)) 0) body =
      (map (fun tv => tok_of_tres (typed_spec narrow widen o (fst tv) (snd tv))) (combine ts vs),
       Go (mkA (N.of_nat (length vs)) (N.of_nat (length ts))) p, false) /\
    alayout p (skipn (length ts) vs) rest /\
    close_arr (mkA (N.of_nat (length vs)) (N.of_nat (length ts))) p = CDone rest false.
Proof.
  intros Hm Ho Hb Hd Hok Hl Hnb.
  pose proof (gets_spec_skip narrow widen o Hm Ho ts vs Hl Hnb) as Hs.
  destruct (arr_scope_counts narrow widen o data vs rest (gets ts) _ _ _ Hb Hd Hok Hs) as [body [idx [p [Hr [Hrun [Hi [HL Hcl]]]]]]].
  rewrite skipn_length in Hi. assert (idx = N.of_nat (length ts)) by lia. subst idx.
  exists body, p. repeat split; assumption.
Qed.

(* ---------- examples ---------- *)
(* {"k": 5, 7: {"x": nil}, "arr": [1, "s"], "b": bin(1,2)} followed by 0x2a *)
Definition ex_doc : list N :=
  [0x84; 0xA1; 0x6B; 0x05; 0x07; 0x81; 0xA1; 0x78; 0xC0; 0xA3; 0x61; 0x72; 0x72; 0x92; 0x01; 0xA1; 0x73;
   0xA1; 0x62; 0xC4; 0x02; 0x01; 0x02; 0x2A].
Definition ex_kvs : list (mpv * mpv) :=
  [(MStr [0x6B], MInt 5); (MInt 7, MMap [(MStr [0x78], MNil)]); (MStr [0x61; 0x72; 0x72], MArr [MInt 1; MStr [0x73]]);
   (MStr [0x62], MBin [1; 2])].
(* reverse order, a byte array and an array left partly read, an absent key, VisitKeys in a child, a repeated key *)
Definition ex_prog : reqs :=
  RCons (RBin (QStr [0x62]) 1)
 (RCons (RArr (QStr [0x61; 0x72; 0x72]) (ACons (AGet (TgInt s32)) (ACons AEnd ANil)))
 (RCons (RGet (QStr [0x7A]) TgStr)
 (RCons (RObj (QU 7) (RCons RVisit RNil))
 (RCons (RGet (QStr [0x6B]) (TgInt s32))
 (RCons (RGet (QStr [0x6B]) TgStr) RNil))))).

Lemma ex_decodes : decode ex_doc = Some (MMap ex_kvs, [0x2A]).
Proof. vm_compute. reflexivity. Qed.
Lemma ex_doc_ok : doc_ok (MMap ex_kvs) = true.
Proof. vm_compute. reflexivity. Qed.
Lemma ex_bytes : bytes ex_doc.
Proof. unfold ex_doc. repeat constructor. Qed.
Lemma ex_spec : spec_reqs no_narrow id_widen skip_all ex_kvs ex_prog =
  ([KOpen; KByte 1; KClose; KOpen; KVal (VInt 1); KIsEnd false; KClose; KFalse;
    KOpen; KKeys [KStr [0x78]]; KClose; KVal (VInt 5); KFalse], None, false).
Proof. vm_compute. reflexivity. Qed.
Lemma ex_run : run_obj_root no_narrow id_widen skip_all ex_doc ex_prog =
  Done (KOpen :: [KOpen; KByte 1; KClose; KOpen; KVal (VInt 1); KIsEnd false; KClose; KFalse;
    KOpen; KKeys [KStr [0x78]]; KClose; KVal (VInt 5); KFalse] ++ [KClose]) [0x2A] false.
Proof. exact (obj_root_refines no_narrow id_widen skip_all ex_doc ex_kvs [0x2A] ex_prog _ _ ex_bytes ex_decodes ex_doc_ok ex_spec). Qed.

(* [ "x", 2, 3 ] read into two int32 targets under Skip: the first is skipped, the second loads from its own
   bytes, the third element is passed by the destructor *)
Lemma ex_array : run_arr_root no_narrow id_widen skip_all [0x93; 0xA1; 0x78; 0x02; 0x03; 0x07]
    (gets [TgInt s32; TgInt s32]) =
  Done [KOpen; KFalse; KVal (VInt 2); KClose] [0x07] false.
Proof. vm_compute. reflexivity. Qed.

(* {"x": 5, <second member missing>} loaded into a class with member x: the program sees x = 5 and returns
   normally, the scope's destructor cannot skip the announced second member, Finalize() reports it *)
Definition trunc_doc : list N := [0x82; 0xA1; 0x78; 0x05].
Definition trunc_prog : reqs := RCons (RGet (QStr [0x78]) (TgInt s32)) RNil.
Lemma trunc_run : run_obj_root no_narrow id_widen skip_all trunc_doc trunc_prog = Done [KOpen; KVal (VInt 5); KClose] [] true.
Proof. vm_compute. reflexivity. Qed.
Lemma trunc_load : load_obj no_narrow id_widen skip_all trunc_doc trunc_prog = LErr [KOpen; KVal (VInt 5); KClose] (SE EParse).
Proof. vm_compute. reflexivity. Qed.

(* ---------- the former witness of M01 (VisitKeys handed its callback a reference to the key slot; d346324) ---------- *)
(* { NaN (float) : 1, 1.0f : 2 } visited with VisitKeys, an int32 loaded under each key: nothing is found under the NaN key
   (NaN != NaN: the search makes a full cycle and comes back behind that member), 2 under 1.0f *)
Definition nan_doc : list N := [0x82; 0xCA; 0x7F; 0xC0; 0x00; 0x00; 0x01; 0xCA; 0x3F; 0x80; 0x00; 0x00; 0x02].
Definition nan_kvs : list (mpv * mpv) := [(MF32 2143289344, MInt 1); (MF32 1065353216, MInt 2)].
Definition nan_prog : reqs := RCons (REach (VACons (VGet (TgInt s32)) (VACons (VGet (TgInt s32)) VANil))) RNil.
Lemma nan_bytes : bytes nan_doc.
Proof. unfold nan_doc. repeat constructor. Qed.
Lemma nan_decodes : decode nan_doc = Some (MMap nan_kvs, []).
Proof. vm_compute. reflexivity. Qed.
Lemma nan_doc_ok : doc_ok (MMap nan_kvs) = true.
Proof. vm_compute. reflexivity. Qed.
Lemma nan_spec : spec_reqs no_narrow id_widen skip_all nan_kvs nan_prog = ([KFalse; KVal (VInt 2)], None, true).
Proof. vm_compute. reflexivity. Qed.
Lemma nan_run : run_obj_root no_narrow id_widen skip_all nan_doc nan_prog = Done (KOpen :: [KFalse; KVal (VInt 2)] ++ [KClose]) [] false.
Proof. exact (obj_root_refines no_narrow id_widen skip_all nan_doc nan_kvs [] nan_prog _ _ nan_bytes nan_decodes nan_doc_ok nan_spec). Qed.
