(* MpScopeSpec.v — what "loading named fields from a MsgPack object" means, written from the
   documentation of the archive (named fields may be requested in any order, repeatedly, absent keys
   are "not loaded", children may be opened and left, VisitKeys enumerates the keys, arrays deliver
   their elements in order) over the value universe of MpSpec.v.  No cursor, no byte positions:
   an object is an association list, an array is a list; the answer to a request is a lookup followed
   by the typed reading of the value found.  Independent of how the C++ scopes compute.
   (opts / ity / in_range / err are the configuration and error-code types of MpModel.v.) *)
From BS Require Import Base MpSpec MpModel.
Local Open Scope N_scope.

(* ---------- keys ---------- *)
(* the key kinds the archive supports: string, integer, float, double, timestamp *)
Inductive key :=
| KStr (s : list N)
| KInt (z : Z)
| KF32 (bits : N)
| KF64 (bits : N)
| KTs (secs nanos : Z).

Fixpoint bytes_eqb (a b : list N) : bool :=
  match a, b with
  | [], [] => true
  | x :: a', y :: b' => (x =? y) && bytes_eqb a' b'
  | _, _ => false
  end.

(* IEEE 754 equality on bit patterns (C++ operator== on float / double): a NaN equals nothing,
   the two zeros are equal, otherwise the patterns must coincide *)
Definition f32_nan (b : N) : bool := 0x7F800000 <? b mod 2 ^ 31.
Definition f64_nan (b : N) : bool := 0x7FF0000000000000 <? b mod 2 ^ 63.
Definition ieee_eq32 (a b : N) : bool :=
  if f32_nan a || f32_nan b then false
  else if (a mod 2 ^ 31 =? 0) && (b mod 2 ^ 31 =? 0) then true else a =? b.
Definition ieee_eq64 (a b : N) : bool :=
  if f64_nan a || f64_nan b then false
  else if (a mod 2 ^ 63 =? 0) && (b mod 2 ^ 63 =? 0) then true else a =? b.

(* the library's key equality: same kind and equal value (integers: equal as numbers whatever the
   C++ type or the wire format; float and double keys are different kinds) *)
Definition key_eq (a b : key) : bool :=
  match a, b with
  | KStr s, KStr t => bytes_eqb s t
  | KInt x, KInt y => (x =? y)%Z
  | KF32 x, KF32 y => ieee_eq32 x y
  | KF64 x, KF64 y => ieee_eq64 x y
  | KTs s n, KTs s' n' => (s =? s')%Z && (n =? n')%Z
  | _, _ => false
  end.

(* timestamp payload as the library lays it out: 4 bytes = seconds; 8 bytes = nanoseconds(30 bits)
   and seconds(34 bits); 12 bytes = seconds(8) then nanoseconds(4) — the last one is the library's
   field order (known finding F08 of C06/C07: the MessagePack specification has nanoseconds first);
   it is taken as given here so that C03 speaks about the scopes and not about F08 again *)
Definition ts_lib (s : list N) : option (Z * Z) :=
  let n := N.of_nat (length s) in
  if n =? 4 then Some (Z.of_N (be_val s), 0%Z)
  else if n =? 8 then let d := be_val s in Some (Z.of_N (d mod 2 ^ 34), Z.of_N (d / 2 ^ 34))
  else if n =? 12 then Some (to_signed 64 (be_val (firstn 8 s)), to_signed 32 (be_val (skipn 8 s)))
  else None.

(* the key a document value denotes, if it is of a supported key kind *)
Definition keyden (v : mpv) : option key :=
  match v with
  | MStr s => Some (KStr s)
  | MInt z => Some (KInt z)
  | MF32 b => Some (KF32 b)
  | MF64 b => Some (KF64 b)
  | MExt ty s => if ty =? 255 then match ts_lib s with Some (a, b) => Some (KTs a b) | None => None end else None
  | _ => None
  end.

(* the key as the program passes it: a C++ value of one of the supported key types *)
Inductive qkey :=
| QStr (s : list N)           (* std::string *)
| QU (u : N)                  (* uint64_t *)
| QS (z : Z)                  (* int64_t *)
| QF32 (bits : N)             (* float *)
| QF64 (bits : N)             (* double *)
| QTs (secs nanos : Z).       (* CBinTimestamp *)

Definition key_of_q (q : qkey) : key :=
  match q with
  | QStr s => KStr s
  | QU u => KInt (Z.of_N u)
  | QS z => KInt z
  | QF32 b => KF32 b
  | QF64 b => KF64 b
  | QTs s n => KTs s n
  end.

(* a request key denoting a document key *)
Definition qkey_of_key (k : key) : qkey :=
  match k with
  | KStr s => QStr s
  | KInt z => if (0 <=? z)%Z then QU (Z.to_N z) else QS z
  | KF32 b => QF32 b
  | KF64 b => QF64 b
  | KTs s n => QTs s n
  end.

(* first member stored under a key equal to q *)
Fixpoint lookup (q : key) (kvs : list (mpv * mpv)) : option mpv :=
  match kvs with
  | [] => None
  | (k, v) :: t =>
    match keyden k with
    | Some kk => if key_eq kk q then Some v else lookup q t
    | None => lookup q t
    end
  end.

(* ---------- targets and typed reading of a value ---------- *)
Inductive target := TgInt (t : ity) | TgNil | TgF32 | TgF64 | TgStr | TgTs.
Inductive value := VInt (z : Z) | VNil | VF32 (bits : N) | VF64 (bits : N) | VStr (s : list N) | VTs (secs nanos : Z).

Inductive tres := TVal (v : value) | TNot | TErr (e : err).

Definition on_mismatch (o : opts) : tres := match o_mismatch o with PThrow => TErr EMismatch | PSkip => TNot end.
Definition on_overflow (o : opts) : tres := match o_overflow o with PThrow => TErr EOverflow | PSkip => TNot end.

Section Typed.
  (* the C++ double -> float (None = outside the float range) and float -> double conversions *)
  Variable narrow : N -> option N.
  Variable widen : N -> N.

  (* nil is "no value" for every target but nullptr_t (not loaded, never an error); a value of the
     target's kind is delivered (integers and narrowed doubles after the range check, reported per
     overflow policy); anything else is a mismatch, reported per mismatched-types policy *)
  Definition typed_spec (o : opts) (t : target) (v : mpv) : tres :=
    match v with
    | MNil => match t with TgNil => TVal VNil | _ => TNot end
    | MInt z => match t with
                | TgInt it => if in_range it z then TVal (VInt z) else on_overflow o
                | _ => on_mismatch o
                end
    | MBool b => match t with
                 | TgInt it => let z := (if b then 1 else 0)%Z in if in_range it z then TVal (VInt z) else on_overflow o
                 | _ => on_mismatch o
                 end
    | MStr s => match t with TgStr => TVal (VStr s) | _ => on_mismatch o end
    | MF32 b => match t with
                | TgF32 => TVal (VF32 b)
                | TgF64 => TVal (VF64 (widen b))
                | _ => on_mismatch o
                end
    | MF64 b => match t with
                | TgF64 => TVal (VF64 b)
                | TgF32 => match narrow b with Some f => TVal (VF32 f) | None => on_overflow o end
                | _ => on_mismatch o
                end
    | MExt ty s => match t with
                   | TgTs => if ty =? 255
                             then match ts_lib s with Some (a, b) => TVal (VTs a b) | None => TErr EParse end
                             else on_mismatch o
                   | _ => on_mismatch o
                   end
    | MBin _ | MArr _ | MMap _ => on_mismatch o
    end.

  (* ---------- programs ---------- *)
  Inductive serr := SE (e : err) | SERange.   (* SERange: "No more items to load" *)

  (* what a program does with an object scope / an array scope *)
  Inductive req :=
  | RGet (q : qkey) (t : target)          (* load the field q into a target of kind t *)
  | RObj (q : qkey) (body : reqs)         (* open the field q as an object, run body in it, leave it *)
  | RArr (q : qkey) (body : areqs)        (* open the field q as an array, run body, leave it *)
  | RBin (q : qkey) (n : nat)             (* open the field q as a byte array, load n bytes, leave it *)
  | RVisit                                (* enumerate the keys *)
  | REach (acts : vacts)                  (* enumerate the keys; while the i-th key is current, do the i-th action with it *)
  with reqs := RNil | RCons (r : req) (l : reqs)
  with areq :=
  | AGet (t : target)                     (* load the next element *)
  | AObj (body : reqs)
  | AArr (body : areqs)
  | ABin (n : nat)
  | AEnd                                  (* ask whether all elements were loaded *)
  | ATry (a : areq)                       (* try { a } catch (OutOfRange) { }: what the tuple loader does around its components *)
  | AThrow (e : serr)                     (* the caller's own code throws (fixed-size array: count mismatch; tuple: size mismatch) *)
  with areqs := ANil | ACons (a : areq) (l : areqs)
  (* what a VisitKeys callback does with the key it is handed (SerializeMapImpl: convert the key, then load
     the value under that very key): nothing, throw, or one keyed load *)
  with vact :=
  | VSkip
  | VThrow (e : serr)
  | VGet (t : target)
  | VObj (body : reqs)
  | VArr (body : areqs)
  | VBin (n : nat)
  | VBinArr (n : nat) (body : areqs)      (* byte-container target: binary scope and n bytes; if it is declined, the array scope *)
  with vacts := VANil | VACons (a : vact) (l : vacts).   (* actions beyond the list: VSkip *)

  (* what the program observes *)
  Inductive tok :=
  | KVal (v : value)       (* loaded: true + the value *)
  | KFalse                 (* not loaded *)
  | KOpen | KClose         (* child scope opened ... left *)
  | KNone                  (* child scope not opened *)
  | KByte (b : N)
  | KKeys (ks : list key)
  | KIsEnd (b : bool)
  | KCaught.               (* an OutOfRange was caught by the caller (ATry) *)

  (* observations, the error that ended the program if any, and "no array / byte-array child was
     left with elements unread" (the hypothesis of the _outside theorems, finding F14) *)
  Definition spec_res := (list tok * option serr * bool)%type.

  Definition of_tres (r : tres) : spec_res :=
    match r with
    | TVal v => ([KVal v], None, true)
    | TNot => ([KFalse], None, true)
    | TErr e => ([], Some (SE e), true)
    end.

  (* a child that could not be opened as the requested container *)
  Definition not_container (o : opts) (v : mpv) : spec_res :=
    match v with
    | MNil => ([KNone], None, true)
    | _ => match o_mismatch o with PThrow => ([], Some (SE EMismatch), true) | PSkip => ([KNone], None, true) end
    end.

  Definition child (inner : spec_res) (complete : bool) : spec_res :=
    match inner with
    | (t, None, c) => (KOpen :: t ++ [KClose], None, c && complete)
    | (t, Some e, c) => (KOpen :: t, Some e, c)
    end.

  Definition bytes_child (bs : list N) (n : nat) : spec_res :=
    if (n <=? length bs)%nat
    then (KOpen :: map KByte (firstn n bs) ++ [KClose], None, (n =? length bs)%nat)
    else (KOpen :: map KByte bs, Some SERange, true).

  Fixpoint spec_req (o : opts) (kvs : list (mpv * mpv)) (r : req) {struct r} : spec_res :=
    match r with
    | RGet q t =>
      match lookup (key_of_q q) kvs with
      | None => ([KFalse], None, true)
      | Some v => of_tres (typed_spec o t v)
      end
    | RObj q body =>
      match lookup (key_of_q q) kvs with
      | None => ([KNone], None, true)
      | Some (MMap kvs') => child (spec_reqs o kvs' body) true
      | Some v => not_container o v
      end
    | RArr q body =>
      match lookup (key_of_q q) kvs with
      | None => ([KNone], None, true)
      | Some (MArr vs) =>
        match spec_areqs o vs body with (r', lft) => child r' (match lft with [] => true | _ => false end) end
      | Some v => not_container o v
      end
    | RBin q n =>
      match lookup (key_of_q q) kvs with
      | Some (MBin bs) => bytes_child bs n
      | _ => ([KNone], None, true)          (* absent, or not a byte array: nothing is consumed *)
      end
    | RVisit =>
      ([KKeys (flat_map (fun kv => match keyden (fst kv) with Some k => [k] | None => [] end) kvs)], None, true)
    | REach acts => spec_vacts o kvs kvs acts
    end
  with spec_reqs (o : opts) (kvs : list (mpv * mpv)) (l : reqs) {struct l} : spec_res :=
    match l with
    | RNil => ([], None, true)
    | RCons r l' =>
      match spec_req o kvs r with
      | (t1, None, c1) => match spec_reqs o kvs l' with (t2, e2, c2) => (t1 ++ t2, e2, c1 && c2) end
      | failed => failed
      end
    end
  with spec_areq (o : opts) (vs : list mpv) (a : areq) {struct a} : spec_res * list mpv :=
    match a with
    | AEnd => (([KIsEnd (match vs with [] => true | _ => false end)], None, true), vs)
    | AThrow e => (([], Some e, true), vs)
    | ATry a' =>
      (* THE PROPERTY: what is caught is the array's own "no more items" (nothing has moved); an OutOfRange raised
         further inside a' is an error like any other *)
      match vs, a' with
      | [], (AGet _ | AObj _ | AArr _ | ABin _) => (([KCaught], None, true), vs)
      | _, _ => spec_areq o vs a'
      end
    | _ =>
      match vs with
      | [] => (([], Some SERange, true), vs)
      | v :: vs' =>
        match a with
        | AGet t => (of_tres (typed_spec o t v), vs')
        | AObj body =>
          match v with
          | MMap kvs' => (child (spec_reqs o kvs' body) true, vs')
          | _ => (not_container o v, vs')
          end
        | AArr body =>
          match v with
          | MArr vs2 =>
            match spec_areqs o vs2 body with (r', lft) => (child r' (match lft with [] => true | _ => false end), vs') end
          | _ => (not_container o v, vs')
          end
        | ABin n =>
          match v with
          | MBin bs => (bytes_child bs n, vs')
          | _ => (([KNone], None, true), vs)      (* not a byte array: the element stays for the array fallback *)
          end
        | _ => (([], None, true), vs)
        end
      end
    end
  with spec_areqs (o : opts) (vs : list mpv) (l : areqs) {struct l} : spec_res * list mpv :=
    match l with
    | ANil => (([], None, true), vs)
    | ACons a l' =>
      match spec_areq o vs a with
      | ((t1, None, c1), vs1) =>
        match spec_areqs o vs1 l' with ((t2, e2, c2), vs2) => ((t1 ++ t2, e2, c1 && c2), vs2) end
      | failed => failed
      end
    end
  (* the action of a callback, with the key q it was handed: the keyed request of the same kind *)
  with spec_vact (o : opts) (kvs : list (mpv * mpv)) (q : qkey) (a : vact) {struct a} : spec_res :=
    match a with
    | VSkip => ([], None, true)
    | VThrow e => ([], Some e, true)
    | VGet t =>
      match lookup (key_of_q q) kvs with
      | None => ([KFalse], None, true)
      | Some v => of_tres (typed_spec o t v)
      end
    | VObj body =>
      match lookup (key_of_q q) kvs with
      | None => ([KNone], None, true)
      | Some (MMap kvs') => child (spec_reqs o kvs' body) true
      | Some v => not_container o v
      end
    | VArr body =>
      match lookup (key_of_q q) kvs with
      | None => ([KNone], None, true)
      | Some (MArr vs) =>
        match spec_areqs o vs body with (r', lft) => child r' (match lft with [] => true | _ => false end) end
      | Some v => not_container o v
      end
    | VBin n =>
      match lookup (key_of_q q) kvs with
      | Some (MBin bs) => bytes_child bs n
      | _ => ([KNone], None, true)
      end
    | VBinArr n body =>
      match lookup (key_of_q q) kvs with
      | Some (MBin bs) => bytes_child bs n
      | found =>
        match (match found with
               | None => ([KNone], None, true)
               | Some (MArr vs) =>
                 match spec_areqs o vs body with (r', lft) => child r' (match lft with [] => true | _ => false end) end
               | Some v => not_container o v
               end) with
        | (t2, e2, c2) => (KNone :: t2, e2, c2)
        end
      end
    end
  (* the keys in document order (ms = the members not yet visited), the i-th action for the i-th key *)
  with spec_vacts (o : opts) (kvs ms : list (mpv * mpv)) (acts : vacts) {struct acts} : spec_res :=
    match acts with
    | VANil => ([], None, true)
    | VACons a acts' =>
      match ms with
      | [] => ([], None, true)
      | (k, _) :: ms' =>
        match (match keyden k with
               | Some kk => spec_vact o kvs (qkey_of_key kk) a
               | None => ([], Some (SE EParse), true)          (* "Unsupported key type" *)
               end) with
        | (t1, None, c1) => match spec_vacts o kvs ms' acts' with (t2, e2, c2) => (t1 ++ t2, e2, c1 && c2) end
        | failed => failed
        end
      end
    end.
End Typed.

(* ---------- well-formed documents ---------- *)
(* keys of the supported kinds, pairwise different under the library's key equality, at every depth *)
Fixpoint keys_distinct (ks : list key) : bool :=
  match ks with
  | [] => true
  | k :: t => forallb (fun k' => negb (key_eq k k')) t && keys_distinct t
  end.

Fixpoint doc_ok (v : mpv) : bool :=
  match v with
  | MArr l => forallb doc_ok l
  | MMap kvs =>
    forallb (fun kv => match keyden (fst kv) with Some _ => true | None => false end) kvs
    && keys_distinct (flat_map (fun kv => match keyden (fst kv) with Some k => [k] | None => [] end) kvs)
    && forallb (fun kv => doc_ok (snd kv)) kvs
  | _ => true
  end.
