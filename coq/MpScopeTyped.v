(* MpScopeTyped.v — the typed reads, ReadKey and CVariableKey::operator== against the specification
   (typed_spec, keyden, key_eq). *)
From BS Require Import Base MpSpec MpModel MpLemmas MpReader MpTyped MpScopeSpec MpScopeModel MpScopeLemmas.
From Coq Require Import ZifyBool ZifyN ZifyNat.
Local Open Scope N_scope.
Ltac Zify.zify_post_hook ::= Z.div_mod_to_equations.

(* ---------- typed reads and ReadKey against the specification ---------- *)
Definition rres_of_tres (t : tres) (r : list N) : rres value :=
  match t with TVal x => ROk x r | TNot => RNot r | TErr e => RErr e end.

Definition skey_ok (k : skey) : Prop :=
  match k with
  | SKU u => u < 18446744073709551616
  | SKS z => (-9223372036854775808 <= z < 9223372036854775808)%Z
  | _ => True
  end.

Section TypedReads.
  Variable narrow : N -> option N.
  Variable widen : N -> N.
  Variable o : opts.

  Lemma read_target_on t d v r : bytes d -> decode d = Some (v, r) ->
    read_target narrow widen o t d = rres_of_tres (typed_spec narrow widen o t v) r.
  Proof.
    intros Hb H. destruct t; unfold read_target.
    - pose proof (read_int_agrees o t d) as A. unfold int_spec in A. rewrite H in A.
      destruct v; rewrite A; cbn [typed_spec map_rres rres_of_tres]; unfold convert_int, on_overflow, on_mismatch, mismatch_outcome;
        try (destruct (in_range t _)); try (destruct (o_overflow o)); try (destruct (o_mismatch o)); reflexivity.
    - pose proof (read_nil_agrees o d) as A. unfold nil_spec in A. rewrite H in A.
      destruct v; rewrite A; cbn [typed_spec map_rres rres_of_tres]; unfold on_mismatch, mismatch_outcome;
        try (destruct (o_mismatch o)); reflexivity.
    - pose proof (read_f32_agrees narrow o d) as A. unfold f32_spec in A. rewrite H in A.
      destruct v; rewrite A; cbn [typed_spec map_rres rres_of_tres]; unfold on_overflow, on_mismatch, mismatch_outcome;
        try (destruct (narrow bits)); try (destruct (o_overflow o)); try (destruct (o_mismatch o)); reflexivity.
    - pose proof (read_f64_agrees widen o d) as A. unfold f64_spec in A. rewrite H in A.
      destruct v; rewrite A; cbn [typed_spec map_rres rres_of_tres]; unfold on_mismatch, mismatch_outcome;
        try (destruct (o_mismatch o)); reflexivity.
    - pose proof (read_str_agrees o d Hb) as A. unfold str_spec in A. rewrite H in A.
      destruct v; rewrite A; cbn [typed_spec map_rres rres_of_tres]; unfold on_mismatch, mismatch_outcome;
        try (destruct (o_mismatch o)); reflexivity.
    - rewrite (read_ts_on o d v r Hb H). unfold ts_result.
      destruct v; cbn [typed_spec map_rres rres_of_tres]; unfold on_mismatch, mismatch_outcome;
        try (destruct (o_mismatch o)); try reflexivity.
      all: destruct (ty =? 255); [destruct (ts_lib s) as [[a b]|]|]; reflexivity.
  Qed.

  Lemma in_range_u64 z : (0 <= z < 18446744073709551616)%Z -> in_range u64 z = true.
  Proof. intros H. unfold in_range, u64. cbn [i_signed i_bits]. change (2 ^ Z.of_N 64)%Z with 18446744073709551616%Z. lia. Qed.
  Lemma in_range_s64 z : (-9223372036854775808 <= z < 9223372036854775808)%Z -> in_range s64 z = true.
  Proof.
    intros H. unfold in_range, s64. cbn [i_signed i_bits].
    change (2 ^ (Z.of_N 64 - 1))%Z with 9223372036854775808%Z. lia.
  Qed.

  Lemma read_key_on d k r kk : bytes d -> decode d = Some (k, r) -> keyden k = Some kk ->
    exists sk, read_key narrow widen o d = KOk sk r /\ key_of_skey sk = kk /\ skey_ok sk.
  Proof.
    intros Hb H Hk. destruct (value_type_sound d k r Hb H) as [t [Ht HT]].
    unfold read_key. rewrite Ht. destruct k; cbn [keyden] in Hk; try discriminate Hk; cbn [has_type] in HT.
    - (* MInt *) injection Hk as <-. destruct HT as [[-> Hz] | [-> Hz]].
      + pose proof (read_int_agrees o u64 d) as A. unfold int_spec in A. rewrite H in A. rewrite A.
        unfold convert_int. rewrite (in_range_u64 z Hz). cbn [key_read].
        eexists. split; [reflexivity|]. split; [cbn [key_of_skey]; f_equal; lia | cbn [skey_ok]; lia].
      + pose proof (read_int_agrees o s64 d) as A. unfold int_spec in A. rewrite H in A. rewrite A.
        unfold convert_int. rewrite (in_range_s64 z Hz). cbn [key_read].
        eexists. split; [reflexivity|]. split; [reflexivity | exact Hz].
    - (* MF32 *) injection Hk as <-. subst t.
      pose proof (read_f32_agrees narrow o d) as A. unfold f32_spec in A. rewrite H in A. rewrite A. cbn [key_read].
      eexists. split; [reflexivity|]. split; [reflexivity | exact I].
    - injection Hk as <-. subst t.
      pose proof (read_f64_agrees widen o d) as A. unfold f64_spec in A. rewrite H in A. rewrite A. cbn [key_read].
      eexists. split; [reflexivity|]. split; [reflexivity | exact I].
    - injection Hk as <-. subst t.
      pose proof (read_str_agrees o d Hb) as A. unfold str_spec in A. rewrite H in A. rewrite A. cbn [key_read].
      eexists. split; [reflexivity|]. split; [reflexivity | exact I].
    - (* MExt *) destruct (ty =? 255) eqn:Ety; [|discriminate Hk].
      destruct (ts_lib s) as [[a b]|] eqn:Ets; [|discriminate Hk]. injection Hk as <-. subst t.
      rewrite (read_ts_on o d _ r Hb H). unfold ts_result. rewrite Ety, Ets. cbn [key_read fst snd].
      eexists. split; [reflexivity|]. split; [reflexivity | exact I].
  Qed.
End TypedReads.

(* ---------- key equality ---------- *)
Lemma bytes_eqb_eq a : forall b, bytes_eqb a b = true <-> a = b.
Proof.
  induction a as [|x a IH]; intros [|y b]; cbn [bytes_eqb]; split; intros H; try reflexivity; try discriminate.
  - apply andb_true_iff in H. destruct H as [H1 H2]. apply N.eqb_eq in H1. apply IH in H2. subst. reflexivity.
  - injection H as -> ->. apply andb_true_iff. split; [apply N.eqb_refl | apply IH; reflexivity].
Qed.

Lemma bytes_eqb_sym a b : bytes_eqb a b = bytes_eqb b a.
Proof.
  destruct (bytes_eqb a b) eqn:E1, (bytes_eqb b a) eqn:E2; try reflexivity.
  - apply bytes_eqb_eq in E1. subst. assert (bytes_eqb b b = true) by (apply bytes_eqb_eq; reflexivity). congruence.
  - apply bytes_eqb_eq in E2. subst. assert (bytes_eqb a a = true) by (apply bytes_eqb_eq; reflexivity). congruence.
Qed.

Lemma ieee_eq32_sym a b : ieee_eq32 a b = ieee_eq32 b a.
Proof.
  unfold ieee_eq32. rewrite (orb_comm (f32_nan a)). destruct (f32_nan b || f32_nan a); [reflexivity|].
  rewrite (andb_comm (a mod 2 ^ 31 =? 0)). destruct ((b mod 2 ^ 31 =? 0) && (a mod 2 ^ 31 =? 0)); [reflexivity|].
  apply N.eqb_sym.
Qed.
Lemma ieee_eq64_sym a b : ieee_eq64 a b = ieee_eq64 b a.
Proof.
  unfold ieee_eq64. rewrite (orb_comm (f64_nan a)). destruct (f64_nan b || f64_nan a); [reflexivity|].
  rewrite (andb_comm (a mod 2 ^ 63 =? 0)). destruct ((b mod 2 ^ 63 =? 0) && (a mod 2 ^ 63 =? 0)); [reflexivity|].
  apply N.eqb_sym.
Qed.

Lemma ieee_eq32_trans a b c : ieee_eq32 a b = true -> ieee_eq32 b c = true -> ieee_eq32 a c = true.
Proof.
  unfold ieee_eq32. destruct (f32_nan a), (f32_nan b), (f32_nan c); cbn [orb]; try discriminate.
  set (za := a mod 2 ^ 31 =? 0). set (zb := b mod 2 ^ 31 =? 0). set (zc := c mod 2 ^ 31 =? 0).
  intros H1 H2.
  destruct za eqn:Ea, zb eqn:Eb, zc eqn:Ec; cbn [andb] in *; try reflexivity.
  all: try (apply N.eqb_eq in H1); try (apply N.eqb_eq in H2); subst; subst za zb zc; try congruence.
  all: apply N.eqb_refl.
Qed.
Lemma ieee_eq64_trans a b c : ieee_eq64 a b = true -> ieee_eq64 b c = true -> ieee_eq64 a c = true.
Proof.
  unfold ieee_eq64. destruct (f64_nan a), (f64_nan b), (f64_nan c); cbn [orb]; try discriminate.
  set (za := a mod 2 ^ 63 =? 0). set (zb := b mod 2 ^ 63 =? 0). set (zc := c mod 2 ^ 63 =? 0).
  intros H1 H2.
  destruct za eqn:Ea, zb eqn:Eb, zc eqn:Ec; cbn [andb] in *; try reflexivity.
  all: try (apply N.eqb_eq in H1); try (apply N.eqb_eq in H2); subst; subst za zb zc; try congruence.
  all: apply N.eqb_refl.
Qed.

Lemma key_eq_sym a b : key_eq a b = key_eq b a.
Proof.
  destruct a, b; cbn [key_eq]; try reflexivity.
  - apply bytes_eqb_sym.
  - apply Z.eqb_sym.
  - apply ieee_eq32_sym.
  - apply ieee_eq64_sym.
  - rewrite (Z.eqb_sym secs), (Z.eqb_sym nanos). reflexivity.
Qed.

Lemma key_eq_trans a b c : key_eq a b = true -> key_eq b c = true -> key_eq a c = true.
Proof.
  destruct a, b; cbn [key_eq]; try discriminate; destruct c; cbn [key_eq]; try discriminate.
  - intros H1 H2. apply bytes_eqb_eq in H1. apply bytes_eqb_eq in H2. apply bytes_eqb_eq. congruence.
  - intros H1 H2. lia.
  - apply ieee_eq32_trans.
  - apply ieee_eq64_trans.
  - intros H1 H2. lia.
Qed.

Lemma skey_eq_spec sk q : skey_ok sk -> skey_eq sk q = key_eq (key_of_skey sk) (key_of_q q).
Proof.
  intros Hok. destruct q, sk; cbn [skey_eq key_of_skey key_of_q key_eq skey_ok] in *; try reflexivity.
  - lia.
  - destruct (u <=? 9223372036854775807) eqn:E; cbn [andb]; lia.
  - destruct (0 <=? z)%Z eqn:E; cbn [andb]; lia.
Qed.

(* ---------- SkipValue with the position at the throw = SkipValue ---------- *)
Definition forget (a : ares) : sres :=
  match a with AOk r => SOk r | AErr e _ => SErr e | AFuel => SFuel end.

Lemma skip_rep_forget (s1 : list N -> ares) (s2 : list N -> sres) :
  (forall d, forget (s1 d) = s2 d) ->
  forall g cnt d, forget (skip_rep_at s1 g cnt d) = skip_rep s2 g cnt d.
Proof.
  intros H. induction g as [|g IH]; intros cnt d; cbn [skip_rep_at skip_rep]; destruct (cnt =? 0); try reflexivity.
  rewrite <- (H d). destruct (s1 d); cbn [forget]; [apply IH | reflexivity | reflexivity].
Qed.

Lemma skip_at_forget : forall f d, forget (skip_at_impl f d) = skip_impl f d.
Proof.
  induction f as [|f IH]; intros d; [reflexivity|].
  cbn [skip_at_impl skip_impl]. destruct d as [|b r1]; [reflexivity|].
  destruct (vtype_eqb (m_ty (byte_meta b)) TUnknown); [reflexivity|].
  match goal with |- forget (match ?h with _ => _ end) = _ => destruct h as [[size0 ext0]|] end; [|reflexivity].
  destruct (take _ r1) as [[x r2]|]; [|reflexivity].
  destruct (_ =? 0); [reflexivity|].
  destruct (m_ty (byte_meta b)); try reflexivity; apply skip_rep_forget; exact IH.
Qed.

Lemma skip_at_value d : forget (skip_at d) = skip_value d.
Proof. apply skip_at_forget. Qed.

Lemma skip_at_exact d v r : decode d = Some (v, r) -> skip_at d = AOk r.
Proof.
  intros H. pose proof (skip_at_value d) as F. rewrite (skip_exact _ _ _ H) in F.
  destruct (skip_at d); cbn [forget] in F; congruence.
Qed.

Lemma skip_at_no_fuel d : skip_at d <> AFuel.
Proof.
  intros H. pose proof (skip_at_value d) as F. rewrite H in F. cbn [forget] in F.
  exact (skip_value_never_out_of_fuel d (eq_sym F)).
Qed.

Lemma skip_at_progress d r : skip_at d = AOk r -> (length r < length d)%nat.
Proof.
  intros H. pose proof (skip_at_value d) as F. rewrite H in F. cbn [forget] in F.
  pose proof (skip_value_agrees d) as A. unfold agrees in A.
  destruct (decode d) as [[v r']|] eqn:E.
  - rewrite <- F in A. injection A as ->. eapply decode_shorter; eassumption.
  - destruct A as [e A]. congruence.
Qed.
