(* MpSpec.v — the MessagePack format, written from the specification
   (https://github.com/msgpack/msgpack/blob/master/spec.md): value universe, a reference decoder that
   accepts every legal format of every type, and the "most compact format" lengths.
   Independent of the C++ code. *)
From BS Require Import Base.
Local Open Scope N_scope.

Inductive mpv :=
| MNil
| MBool (b : bool)
| MInt (z : Z)                      (* any integer format, value in [-2^63, 2^64) *)
| MF32 (bits : N)                   (* IEEE 754 single, as its bit pattern *)
| MF64 (bits : N)
| MStr (s : list N)
| MBin (s : list N)
| MArr (l : list mpv)
| MMap (l : list (mpv * mpv))
| MExt (ty : N) (s : list N).       (* type byte as unsigned 0..255 (255 = -1 = timestamp) *)

(* big-endian unsigned value of a byte string *)
Definition be_val (l : list N) : N := fold_left (fun a b => a * 256 + b) l 0.

(* big-endian bytes, k of them, of v mod 256^k *)
Fixpoint be_bytes (k : nat) (v : N) : list N :=
  match k with
  | O => []
  | S k' => be_bytes k' (v / 256) ++ [v mod 256]
  end.

(* two's complement reading of a k-byte unsigned value *)
Definition to_signed (bits : N) (v : N) : Z :=
  if v <? 2 ^ (bits - 1) then Z.of_N v else (Z.of_N v - Z.of_N (2 ^ bits))%Z.

Definition take (n : N) (data : list N) : option (list N * list N) :=
  if n <=? N.of_nat (length data) then Some (firstn (N.to_nat n) data, skipn (N.to_nat n) data) else None.

Definition bind {A B} (o : option A) (f : A -> option B) : option B :=
  match o with Some a => f a | None => None end.

(* length-prefixed payload: klen bytes of big-endian length, then that many bytes *)
Definition take_len (klen : N) (data : list N) : option (N * list N) :=
  bind (take klen data) (fun '(lb, r) => Some (be_val lb, r)).

(* cnt repetitions of a one-value step; g bounds the number of repetitions actually performed
   (each consumes at least one byte, so g = length data suffices) *)
Fixpoint rep {A} (step : list N -> option (A * list N)) (g : nat) (cnt : N) (d : list N)
  : option (list A * list N) :=
  if cnt =? 0 then Some ([], d) else
  match g with
  | O => None
  | S g' =>
    match step d with
    | None => None
    | Some (v, r) =>
      match rep step g' (cnt - 1) r with
      | None => None
      | Some (vs, r') => Some (v :: vs, r')
      end
    end
  end.

Definition step_pair {A} (step : list N -> option (A * list N)) (d : list N) : option ((A * A) * list N) :=
  match step d with
  | None => None
  | Some (k, r) => match step r with None => None | Some (v, r') => Some ((k, v), r') end
  end.

(* decode one value; fuel bounds the nesting depth + steps (S (length data) suffices) *)
Fixpoint decode_ref (fuel : nat) (data : list N) {struct fuel} : option (mpv * list N) :=
  match fuel with
  | O => None
  | S f =>
    let arr cnt d := bind (rep (decode_ref f) f cnt d) (fun '(vs, r) => Some (MArr vs, r)) in
    let map cnt d := bind (rep (step_pair (decode_ref f)) f cnt d) (fun '(kvs, r) => Some (MMap kvs, r)) in
    let str n d := bind (take n d) (fun '(s, r) => Some (MStr s, r)) in
    let bin n d := bind (take n d) (fun '(s, r) => Some (MBin s, r)) in
    let uint k d := bind (take k d) (fun '(s, r) => Some (MInt (Z.of_N (be_val s)), r)) in
    let sint k d := bind (take k d) (fun '(s, r) => Some (MInt (to_signed (8 * k) (be_val s)), r)) in
    let ext n d := bind (take 1 d) (fun '(t, r) => bind (take n r) (fun '(s, r') => Some (MExt (be_val t) s, r'))) in
    match data with
    | [] => None
    | b :: d =>
      if b <? 0x80 then Some (MInt (Z.of_N b), d)
      else if b <? 0x90 then map (b - 0x80) d
      else if b <? 0xA0 then arr (b - 0x90) d
      else if b <? 0xC0 then str (b - 0xA0) d
      else if b =? 0xC0 then Some (MNil, d)
      else if b =? 0xC1 then None                                  (* never used *)
      else if b =? 0xC2 then Some (MBool false, d)
      else if b =? 0xC3 then Some (MBool true, d)
      else if b =? 0xC4 then bind (take_len 1 d) (fun '(n, r) => bin n r)
      else if b =? 0xC5 then bind (take_len 2 d) (fun '(n, r) => bin n r)
      else if b =? 0xC6 then bind (take_len 4 d) (fun '(n, r) => bin n r)
      else if b =? 0xC7 then bind (take_len 1 d) (fun '(n, r) => ext n r)
      else if b =? 0xC8 then bind (take_len 2 d) (fun '(n, r) => ext n r)
      else if b =? 0xC9 then bind (take_len 4 d) (fun '(n, r) => ext n r)
      else if b =? 0xCA then bind (take 4 d) (fun '(s, r) => Some (MF32 (be_val s), r))
      else if b =? 0xCB then bind (take 8 d) (fun '(s, r) => Some (MF64 (be_val s), r))
      else if b =? 0xCC then uint 1 d
      else if b =? 0xCD then uint 2 d
      else if b =? 0xCE then uint 4 d
      else if b =? 0xCF then uint 8 d
      else if b =? 0xD0 then sint 1 d
      else if b =? 0xD1 then sint 2 d
      else if b =? 0xD2 then sint 4 d
      else if b =? 0xD3 then sint 8 d
      else if b =? 0xD4 then ext 1 d
      else if b =? 0xD5 then ext 2 d
      else if b =? 0xD6 then ext 4 d
      else if b =? 0xD7 then ext 8 d
      else if b =? 0xD8 then ext 16 d
      else if b =? 0xD9 then bind (take_len 1 d) (fun '(n, r) => str n r)
      else if b =? 0xDA then bind (take_len 2 d) (fun '(n, r) => str n r)
      else if b =? 0xDB then bind (take_len 4 d) (fun '(n, r) => str n r)
      else if b =? 0xDC then bind (take_len 2 d) (fun '(n, r) => arr n r)
      else if b =? 0xDD then bind (take_len 4 d) (fun '(n, r) => arr n r)
      else if b =? 0xDE then bind (take_len 2 d) (fun '(n, r) => map n r)
      else if b =? 0xDF then bind (take_len 4 d) (fun '(n, r) => map n r)
      else Some (MInt (Z.of_N b - 256), d)                         (* negative fixint 0xE0..0xFF *)
    end
  end.

Definition decode (data : list N) : option (mpv * list N) := decode_ref (S (length data)) data.

(* ---- most compact formats (spec: "serializers SHOULD use the format which represents the data in the smallest number of bytes") ---- *)

Definition shortest_int_len (z : Z) : nat :=
  if ((-32 <=? z) && (z <? 128))%Z then 1
  else if ((-128 <=? z) && (z <? 256))%Z then 2
  else if ((-32768 <=? z) && (z <? 65536))%Z then 3
  else if ((-2147483648 <=? z) && (z <? 4294967296))%Z then 5
  else 9.

Definition shortest_str_header (n : N) : nat := if n <? 32 then 1 else if n <? 256 then 2 else if n <? 65536 then 3 else 5.
Definition shortest_bin_header (n : N) : nat := if n <? 256 then 2 else if n <? 65536 then 3 else 5.
Definition shortest_arr_header (n : N) : nat := if n <? 16 then 1 else if n <? 65536 then 3 else 5.

(* ---- Timestamp extension (type -1 = 255) ---- *)
(* value denoted by a timestamp payload: seconds (signed) and nanoseconds *)
Definition ts_of_payload (s : list N) : option (Z * N) :=
  match length s with
  | 4%nat => Some (Z.of_N (be_val s), 0)
  | 8%nat => let d := be_val s in Some (Z.of_N (d mod 2 ^ 34), d / 2 ^ 34)
  | 12%nat => Some (to_signed 64 (be_val (skipn 4 s)), be_val (firstn 4 s))
  | _ => None
  end.

(* the spec's choice of layout for (seconds, nanoseconds), nanoseconds <= 999999999 *)
Definition ts_payload (secs : Z) (nanos : N) : list N :=
  if ((0 <=? secs) && (secs <? 2 ^ 34))%Z then
    if (nanos =? 0) && (secs <? 2 ^ 32)%Z then be_bytes 4 (Z.to_N secs)
    else be_bytes 8 (nanos * 2 ^ 34 + Z.to_N secs)
  else be_bytes 4 nanos ++ be_bytes 8 (Z.to_N (secs mod 2 ^ 64)).
