(* MpStreamModel.v — executable mirror of CMsgPackStreamReader (src/msgpack/msgpack_readers.cpp, second
   half: GetValue / ReadExtSize / SkipValueImpl / HandleMismatchedTypesPolicy / ReadInteger /
   ReadExtFamilyType on a CBinaryStreamReader, and the member functions ReadValueType, the ReadValue
   overloads, ReadArraySize / ReadMapSize / ReadBinarySize / ReadBinary / SkipValue, GetPosition /
   SetPosition / IsEnd).

   The stream reader never sees its input: every access goes through the nine public operations of
   CBinaryStreamReader.  The model keeps that shape.  A function of the stream reader is a PROGRAM
   [prog A] over the operation alphabet [bop] / answer alphabet [bres] of StreamSpec.v (the alphabet
   of the reference in-memory reader [mem_step] and of the chunked reader model [bsr_step]): it
   issues an operation, receives the answer, and goes on.  [interp step p s] runs a program on any
   reader given by its step function: on the chunked model (bsr_step K), or on the in-memory reader.

   What StreamSpec.v offers as the in-memory reader is an ACCEPTOR (mem_step K data m op r = Some m'
   iff answering r is correct) because ReadByChunks may cut as it likes.  The function form
   [memr_step] below (ReadByChunks hands out the whole request) is added here; MpStreamProofs.v
   shows that mem_step accepts each of its answers (memr_sim), and every theorem about the
   programs is proved for ALL answers mem_step accepts, not only for memr_step's.

   Mirrored as it is: where the code peeks and then consumes (PeekByte + GotoNextByte) or consumes at
   once (ReadByte in SkipValueImpl / ReadBinary), 1-byte GetValue through ReadByte and wider ones
   through ReadSolidBlock(sizeof T), ReadExtSize CONSUMING the length field (the string reader only
   looks at it), SkipValueImpl moving over the payload with SkipBytes (a ReadByChunks loop, no seek;
   since fix e491e27 — SetPosition(GetPosition() + size) before) unless size == 0,
   ReadExtFamilyType remembering GetPosition(), consuming the header up to and including the ext
   type byte and seeking back with SeekOrThrow(prevPos), ReadValue(CBinTimestamp) seeking over the
   header with SeekOrThrow, the reader's own SetPosition (since fix 24799d8 a refused seek at these
   three places is SerializationException(InputOutputError): outcome QIO), ReadValue(string_view)
   copying through mBuffer with the ReadByChunks loop.

   Not modelled: the text and the Offset field of the exceptions (the GetPosition() calls made only
   to fill that field are left out; the position at which a call throws is the reader's position
   when the program returns QErr: MpStreamProofs.wp_skip_impl_at states it for SkipValueImpl and
   compares it with the string reader's), mBuffer.reserve(remainingSize) (an allocation, assumed to
   succeed; a 5-byte input asks for 4 GiB: see the report), size_t wrap-around of GetPosition() + size
   (positions are below 2^63 and sizes below 2^33).  Loops get fuel: one unit per nested value / per
   chunk; any fuel above the number of remaining bytes is enough (MpStreamProofs.v).
   No proofs in this file. *)
From BS Require Import Base MpSpec MpModel StreamIStream StreamSpec StreamModel.
Local Open Scope N_scope.

(* ================================================================== programs over a reader *)

Inductive prog (A : Type) : Type :=
| Ret (a : A)
| Bad                                   (* the reader answered with a result of the wrong kind *)
| Op (op : bop) (k : bres -> prog A).
Arguments Ret {A} a.
Arguments Bad {A}.
Arguments Op {A} op k.

Fixpoint pbind {A B} (p : prog A) (f : A -> prog B) : prog B :=
  match p with
  | Ret a => f a
  | Bad => Bad
  | Op op k => Op op (fun r => pbind (k r) f)
  end.

(* run a program on a reader *)
Section Interp.
  Context {S : Type}.
  Variable step : S -> bop -> outcome (bres * S).

  Fixpoint interp {A} (p : prog A) (s : S) : outcome (A * S) :=
    match p with
    | Ret a => Ok (a, s)
    | Bad => Fault
    | Op op k =>
      match step s op with
      | Ok (r, s') => interp (k r) s'
      | Fault => Fault
      end
    end.
End Interp.

(* the in-memory reader of StreamSpec.v as a function (added here; see the header) *)
Definition memr_step (K : nat) (data : list N) (m : mem) (op : bop) : outcome (bres * mem) :=
  let pos := m_pos m in
  let len := length data in
  let at_ p := mkM p (m_failed m) in
  Ok match op with
     | OIsEnd => (RBool (pos =? len)%nat, m)
     | OIsFailed => (RBool (m_failed m), m)
     | OGetPos => (RPos pos, m)
     | OSetPos p => if p <=? N.of_nat len then (RBool true, at_ (N.to_nat p)) else (RBool false, mkM pos true)
     | OPeek => (RByte (nth_error data pos), m)
     | OGoto => (RUnit, at_ (if (pos <? len)%nat then S pos else pos))
     | OReadByte => let o := nth_error data pos in
                    (RByte o, at_ (match o with Some _ => S pos | None => pos end))
     | OSolid n => let l := if (n <=? N.of_nat K) && (N.of_nat pos + n <=? N.of_nat len)
                            then slice data pos (N.to_nat n) else [] in
                   (RBlock l, at_ (pos + length l)%nat)
     | OChunks n => let l := slice data pos (N.to_nat (N.min n (N.of_nat (len - pos)))) in
                    (RBlock l, at_ (pos + length l)%nat)
     end.

(* the calls on mBinaryStreamReader *)
Definition peek_byte {A} (k : option N -> prog A) : prog A :=
  Op OPeek (fun r => match r with RByte o => k o | _ => Bad end).
Definition goto_next {A} (k : prog A) : prog A :=
  Op OGoto (fun r => match r with RUnit => k | _ => Bad end).
Definition read_byte {A} (k : option N -> prog A) : prog A :=
  Op OReadByte (fun r => match r with RByte o => k o | _ => Bad end).
Definition solid_block {A} (n : N) (k : list N -> prog A) : prog A :=
  Op (OSolid n) (fun r => match r with RBlock l => k l | _ => Bad end).
Definition by_chunks {A} (n : N) (k : list N -> prog A) : prog A :=
  Op (OChunks n) (fun r => match r with RBlock l => k l | _ => Bad end).
Definition get_position {A} (k : N -> prog A) : prog A :=
  Op OGetPos (fun r => match r with RPos p => k (N.of_nat p) | _ => Bad end).
Definition set_position {A} (p : N) (k : bool -> prog A) : prog A :=
  Op (OSetPos p) (fun r => match r with RBool b => k b | _ => Bad end).
Definition is_end {A} (k : bool -> prog A) : prog A :=
  Op OIsEnd (fun r => match r with RBool b => k b | _ => Bad end).

(* ================================================================== results *)

(* what a call of the stream reader comes back with: a value (returned true / returned normally),
   "returned false" (value skipped, target untouched), an exception, or the model's loop fuel ran out.
   The position is not part of it: it is the reader's. *)
Inductive sr (A : Type) := QOk (v : A) | QNot | QErr (e : err) | QFuel
                        | QIO.     (* SerializationException(InputOutputError): a seek the stream refused (SeekOrThrow) *)
Arguments QOk {A} v. Arguments QNot {A}. Arguments QErr {A} e. Arguments QFuel {A}. Arguments QIO {A}.

(* sequencing with exception propagation *)
Definition qbind {A B} (p : prog (sr A)) (f : A -> prog (sr B)) : prog (sr B) :=
  pbind p (fun x => match x with
                    | QOk a => f a
                    | QNot => Ret QNot
                    | QErr e => Ret (QErr e)
                    | QFuel => Ret QFuel
                    | QIO => Ret QIO
                    end).

(* ================================================================== the anonymous-namespace helpers *)

(* GetValue<T>(binaryStreamReader, outValue): sizeof(T) == 1 through ReadByte, otherwise
   ReadSolidBlock(sizeof(T)) and the big-endian reading of the block *)
Definition mps_get_value (k : N) : prog (sr N) :=
  if k =? 1 then
    read_byte (fun o => Ret match o with Some b => QOk b | None => QErr EParse end)
  else
    solid_block k (fun l => Ret match l with [] => QErr EParse | _ => QOk (be_val l) end).

(* ReadExtSize(binaryStreamReader, extSizeBytesNum): consumes the length field *)
Definition mps_read_ext_size (n : N) : prog (sr N) :=
  if (n =? 1) || (n =? 2) || (n =? 4) then mps_get_value n else Ret (QErr EInvalidArg).

(* "for (i = 0; i < cnt; ++i) step" *)
Fixpoint mps_skip_rep (step : prog (sr unit)) (g : nat) (cnt : N) : prog (sr unit) :=
  if cnt =? 0 then Ret (QOk tt) else
  match g with
  | O => Ret QFuel
  | S g' => qbind step (fun _ => mps_skip_rep step g' (cnt - 1))
  end.

(* SkipBytes(binaryStreamReader, size) (since fix e491e27): "while (size != 0) { chunk = ReadByChunks(size);
   if (chunk.empty()) return false; size -= chunk.size(); } return true;" *)
Fixpoint mps_skip_bytes (lf : nat) (size : N) : prog (sr bool) :=
  if size =? 0 then Ret (QOk true) else
  match lf with
  | O => Ret QFuel
  | S l =>
    by_chunks size (fun chunk =>
      match chunk with
      | [] => Ret (QOk false)
      | _ => mps_skip_bytes l (size - N.of_nat (length chunk))
      end)
  end.

(* SkipValueImpl(binaryStreamReader).  As in MpModel.skip_impl the two SkipValueImpl calls per map
   entry are 2 * extSize repetitions of one call.  [lf] is the fuel of the SkipBytes loops, [fuel] that of
   the nesting. *)
Fixpoint mps_skip_impl (lf : nat) (fuel : nat) : prog (sr unit) :=
  match fuel with
  | O => Ret QFuel
  | S f =>
    read_byte (fun ob =>
      match ob with
      | None => Ret (QErr EParse)                                (* "No more values to read" *)
      | Some b =>
        let m := byte_meta b in
        if vtype_eqb (m_ty m) TUnknown then Ret (QErr EParse) else    (* 0xC1 *)
        qbind (if negb (m_fixed m =? 0) then Ret (QOk (m_fixed m))
               else if negb (m_ext m =? 0) then mps_read_ext_size (m_ext m)
               else Ret (QOk 0))
          (fun ext0 =>
             let size := if is_sized (m_ty m) then m_data m + ext0 else m_data m in
             let ext := if is_sized (m_ty m) then 0 else ext0 in
             let children :=
               if ext =? 0 then Ret (QOk tt)
               else match m_ty m with
                    | TMap => mps_skip_rep (mps_skip_impl lf f) f (2 * ext)
                    | TArr => mps_skip_rep (mps_skip_impl lf f) f ext
                    | _ => Ret (QOk tt)
                    end in
             if size =? 0 then children                          (* "size == 0 || SkipBytes(reader, size)" *)
             else qbind (mps_skip_bytes lf size) (fun ok =>
                    if ok then children
                    else Ret (QErr EParse)))                     (* "Unexpected end of input archive" *)
      end)
  end.

(* HandleMismatchedTypesPolicy(binaryStreamReader, actualType, policy) followed by "return false" *)
Definition mps_handle_mismatch {A} (fuel : nat) (o : opts) (actual : vtype) : prog (sr A) :=
  if negb (vtype_eqb actual TNil) && (match o_mismatch o with PThrow => true | PSkip => false end)
  then Ret (QErr EMismatch)
  else pbind (mps_skip_impl fuel fuel)
         (fun x => Ret match x with
                       | QOk _ => QNot
                       | QNot => QNot
                       | QErr e => QErr e
                       | QFuel => QFuel
                       | QIO => QIO
                       end).

(* ConvertByPolicy on an integer source (MpModel.convert_int without the position) *)
Definition mps_convert_int (o : opts) (t : ity) (z : Z) : sr Z :=
  if in_range t z then QOk z
  else match o_overflow o with PThrow => QErr EOverflow | PSkip => QNot end.

(* ReadInteger<T>(binaryStreamReader, outValue, options) *)
Definition mps_read_int (fuel : nat) (o : opts) (t : ity) : prog (sr Z) :=
  peek_byte (fun ob =>
    match ob with
    | None => Ret (QErr EParse)
    | Some b =>
      let fixed (k : N) (signed : bool) : prog (sr Z) :=
        goto_next (qbind (mps_get_value k)
                     (fun v => Ret (mps_convert_int o t (if signed then to_signed (8 * k) v else Z.of_N v)))) in
      if (b <? 0x80) || (0xE0 <=? b) then goto_next (Ret (mps_convert_int o t (to_signed 8 b)))
      else if b =? 0xCC then fixed 1 false
      else if b =? 0xCD then fixed 2 false
      else if b =? 0xCE then fixed 4 false
      else if b =? 0xCF then fixed 8 false
      else if b =? 0xD0 then fixed 1 true
      else if b =? 0xD1 then fixed 2 true
      else if b =? 0xD2 then fixed 4 true
      else if b =? 0xD3 then fixed 8 true
      else if b =? 0xC2 then goto_next (Ret (mps_convert_int o t 0))
      else if b =? 0xC3 then goto_next (Ret (mps_convert_int o t 1))
      else mps_handle_mismatch fuel o (m_ty (byte_meta b))
    end).

(* ReadExtFamilyType(binaryStreamReader, extTypeInfo): QOk None = returned false *)
Definition mps_read_ext_family : prog (sr (option extinfo)) :=
  peek_byte (fun ob =>
    match ob with
    | None => Ret (QErr EParse)
    | Some b =>
      let m := byte_meta b in
      if negb (vtype_eqb (m_ty m) TExt) then Ret (QOk None)
      else
        get_position (fun prev =>
        goto_next (
          let finish (off size : N) : prog (sr (option extinfo)) :=
            read_byte (fun oc =>
              match oc with
              | Some c =>
                set_position prev (fun ok =>                      (* SeekOrThrow(binaryStreamReader, prevPos) *)
                  if ok then Ret (QOk (Some (mkExt (if c =? 0xFF then TTimestamp else TExt) off size c)))
                  else Ret QIO)
              | None => Ret (QErr EParse)
              end) in
          if negb (m_fixed m =? 0) then finish (1 + m_data m) (m_fixed m)
          else if negb (m_ext m =? 0) then
            qbind (mps_read_ext_size (m_ext m)) (fun sz => finish (1 + m_data m + m_ext m) sz)
          else Ret (QErr EInternal)))
    end).

(* ================================================================== CMsgPackStreamReader *)

(* ReadValueType() *)
Definition mps_read_value_type : prog (sr vtype) :=
  peek_byte (fun ob =>
    match ob with
    | None => Ret (QErr EParse)
    | Some b =>
      let m := byte_meta b in
      if vtype_eqb (m_ty m) TExt then
        qbind mps_read_ext_family
          (fun x => Ret (QOk match x with Some i => x_vt i | None => TExt end))
      else Ret (QOk (m_ty m))
    end).

(* HandleMismatchedTypesPolicy(mBinaryStreamReader, ReadValueType(), policy); return false *)
Definition mps_mismatch_via_type {A} (fuel : nat) (o : opts) : prog (sr A) :=
  pbind mps_read_value_type
    (fun x => match x with
              | QOk t => mps_handle_mismatch fuel o t
              | QNot => Ret QNot
              | QErr e => Ret (QErr e)
              | QFuel => Ret QFuel
              | QIO => Ret QIO
              end).

(* ReadValue(std::nullptr_t&) *)
Definition mps_read_nil (fuel : nat) (o : opts) : prog (sr unit) :=
  peek_byte (fun ob =>
    match ob with
    | None => Ret (QErr EParse)
    | Some b =>
      if b =? 0xC0 then goto_next (Ret (QOk tt))
      else mps_handle_mismatch fuel o (m_ty (byte_meta b))
    end).

Section Floats.
  Variable narrow : N -> option N.     (* ConvertByPolicy(double, float): None = out of float range *)
  Variable widen : N -> N.             (* static_cast<double>(float) *)

  (* ReadValue(float&) *)
  Definition mps_read_f32 (fuel : nat) (o : opts) : prog (sr N) :=
    peek_byte (fun ob =>
      match ob with
      | None => Ret (QErr EParse)
      | Some b =>
        if b =? 0xCA then goto_next (mps_get_value 4)
        else if b =? 0xCB then
          goto_next (qbind (mps_get_value 8)
                       (fun v => Ret match narrow v with
                                     | Some f => QOk f
                                     | None => match o_overflow o with PThrow => QErr EOverflow | PSkip => QNot end
                                     end))
        else mps_mismatch_via_type fuel o
      end).

  (* ReadValue(double&) *)
  Definition mps_read_f64 (fuel : nat) (o : opts) : prog (sr N) :=
    peek_byte (fun ob =>
      match ob with
      | None => Ret (QErr EParse)
      | Some b =>
        if b =? 0xCB then goto_next (mps_get_value 8)
        else if b =? 0xCA then goto_next (qbind (mps_get_value 4) (fun v => Ret (QOk (widen v))))
        else mps_mismatch_via_type fuel o
      end).
End Floats.

(* "while (remainingSize != 0) { chunk = ReadByChunks(remainingSize); if empty: throw; mBuffer += chunk;
   remainingSize -= chunk.size(); }" *)
Fixpoint mps_read_chunks (fuel : nat) (remaining : N) (acc : list N) : prog (sr (list N)) :=
  if remaining =? 0 then Ret (QOk acc) else
  match fuel with
  | O => Ret QFuel
  | S f =>
    by_chunks remaining (fun chunk =>
      match chunk with
      | [] => Ret (QErr EParse)                                   (* "Unexpected end of input archive" *)
      | _ => mps_read_chunks f (remaining - N.of_nat (length chunk)) (acc ++ chunk)
      end)
  end.

(* ReadValue(std::string_view&) *)
Definition mps_read_str (fuel : nat) (o : opts) : prog (sr (list N)) :=
  peek_byte (fun ob =>
    match ob with
    | None => Ret (QErr EParse)
    | Some b =>
      let body (sz : prog (sr N)) : prog (sr (list N)) :=
        qbind sz (fun n => mps_read_chunks fuel n []) in
      if N.land b 0xE0 =? 0xA0 then goto_next (body (Ret (QOk (N.land b 0x1F))))
      else if b =? 0xD9 then goto_next (body (mps_get_value 1))
      else if b =? 0xDA then goto_next (body (mps_get_value 2))
      else if b =? 0xDB then goto_next (body (mps_get_value 4))
      else mps_mismatch_via_type fuel o
    end).

(* ReadArraySize / ReadMapSize *)
Definition mps_read_size (fuel : nat) (o : opts) (fixtag c16 c32 : N) : prog (sr N) :=
  peek_byte (fun ob =>
    match ob with
    | None => Ret (QErr EParse)
    | Some b =>
      if N.land b 0xF0 =? fixtag then goto_next (Ret (QOk (N.land b 0x0F)))
      else if b =? c16 then goto_next (mps_get_value 2)
      else if b =? c32 then goto_next (mps_get_value 4)
      else mps_mismatch_via_type fuel o
    end).
Definition mps_read_array_size (fuel : nat) (o : opts) := mps_read_size fuel o 0x90 0xDC 0xDD.
Definition mps_read_map_size (fuel : nat) (o : opts) := mps_read_size fuel o 0x80 0xDE 0xDF.

(* ReadBinarySize *)
Definition mps_read_bin_size (fuel : nat) (o : opts) : prog (sr N) :=
  peek_byte (fun ob =>
    match ob with
    | None => Ret (QErr EParse)
    | Some b =>
      if b =? 0xC4 then goto_next (mps_get_value 1)
      else if b =? 0xC5 then goto_next (mps_get_value 2)
      else if b =? 0xC6 then goto_next (mps_get_value 4)
      else mps_mismatch_via_type fuel o
    end).

(* ReadBinary *)
Definition mps_read_binary : prog (sr N) :=
  read_byte (fun o => Ret match o with Some b => QOk b | None => QErr EParse end).

(* ReadValue(CBinTimestamp&) *)
Definition mps_read_ts (fuel : nat) (o : opts) : prog (sr (Z * Z)) :=
  pbind mps_read_ext_family
    (fun r =>
       match r with
       | QErr e => Ret (QErr e)
       | QFuel => Ret QFuel
       | QIO => Ret QIO
       | QNot => Ret QNot
       | QOk None => mps_mismatch_via_type fuel o
       | QOk (Some x) =>
         if x_code x =? 0xFF then
           get_position (fun p =>
           set_position (p + x_off x) (fun ok =>                   (* SeekOrThrow(reader, GetPosition() + DataOffset) *)
             if negb ok then Ret QIO else
             if x_size x =? 4 then
               qbind (mps_get_value 4) (fun v => Ret (QOk (Z.of_N v, 0%Z)))
             else if x_size x =? 8 then
               qbind (mps_get_value 8)
                 (fun v => Ret (QOk (Z.of_N (N.land v 0x00000003FFFFFFFF),
                                     to_signed 32 (N.shiftr v 34 mod 2 ^ 32))))
             else if x_size x =? 12 then
               qbind (mps_get_value 8) (fun s =>
               qbind (mps_get_value 4) (fun n => Ret (QOk (to_signed 64 s, to_signed 32 n))))
             else Ret (QErr EParse)))                              (* "Invalid size of timestamp" *)
         else mps_mismatch_via_type fuel o
       end).

(* SkipValue() *)
Definition mps_skip_value (fuel : nat) : prog (sr unit) := mps_skip_impl fuel fuel.

(* ================================================================== read sequences *)

(* the operations of IMsgPackReader a scope can issue, as one type (the `q` lines of the drivers) *)
Inductive rop :=
| RdInt (t : ity) | RdNil | RdF32 | RdF64 | RdStr | RdArr | RdMap | RdBin | RdByte | RdTs | RdType | RdSkip
| RdSetPos (p : N)                      (* SetPosition(p) *)
| RdIsEnd.                              (* IsEnd() *)

Inductive rval :=
| VInt (z : Z) | VUnit | VNum (n : N) | VBytes (l : list N) | VTs (secs nanos : Z) | VType (t : vtype) | VBool (b : bool).

Definition sr_map {A B} (f : A -> B) (x : sr A) : sr B :=
  match x with QOk a => QOk (f a) | QNot => QNot | QErr e => QErr e | QFuel => QFuel | QIO => QIO end.
Definition pmap {A B} (f : A -> B) (p : prog (sr A)) : prog (sr B) :=
  pbind p (fun x => Ret (sr_map f x)).

(* one answer of a sequence: what the call delivered and GetPosition() after it *)
Inductive ans := AOkAt (v : rval) (pos : N) | ANotAt (pos : N) | AErrOf (e : err) | AFuelOut
             | AIOErr.     (* InputOutputError: a refused seek *)

Section Seq.
  Variable narrow : N -> option N.
  Variable widen : N -> N.

  Definition mps_op (fuel : nat) (o : opts) (op : rop) : prog (sr rval) :=
    match op with
    | RdInt t => pmap VInt (mps_read_int fuel o t)
    | RdNil => pmap (fun _ => VUnit) (mps_read_nil fuel o)
    | RdF32 => pmap VNum (mps_read_f32 narrow fuel o)
    | RdF64 => pmap VNum (mps_read_f64 widen fuel o)
    | RdStr => pmap VBytes (mps_read_str fuel o)
    | RdArr => pmap VNum (mps_read_array_size fuel o)
    | RdMap => pmap VNum (mps_read_map_size fuel o)
    | RdBin => pmap VNum (mps_read_bin_size fuel o)
    | RdByte => pmap VNum mps_read_binary
    | RdTs => pmap (fun x => VTs (fst x) (snd x)) (mps_read_ts fuel o)
    | RdType => pmap VType mps_read_value_type
    | RdSkip => pmap (fun _ => VUnit) (mps_skip_value fuel)
    | RdSetPos p => set_position p (fun ok => Ret (if ok then QOk VUnit else QIO))   (* SetPosition: throws InputOutputError on refusal *)
    | RdIsEnd => is_end (fun b => Ret (QOk (VBool b)))
    end.

  (* a sequence of calls on one reader, GetPosition() after each, stopping at the first exception *)
  Fixpoint mps_seq (fuel : nat) (o : opts) (ops : list rop) : prog (list ans) :=
    match ops with
    | [] => Ret []
    | op :: tl =>
      pbind (mps_op fuel o op) (fun a =>
        match a with
        | QOk v => get_position (fun p => pbind (mps_seq fuel o tl) (fun rest => Ret (AOkAt v p :: rest)))
        | QNot => get_position (fun p => pbind (mps_seq fuel o tl) (fun rest => Ret (ANotAt p :: rest)))
        | QErr e => Ret [AErrOf e]
        | QFuel => Ret [AFuelOut]
        | QIO => Ret [AIOErr]
        end)
    end.

  (* on the in-memory reader and on the chunked reader over a stream *)
  Definition mps_run_mem (K : nat) (data : list N) (fuel : nat) (o : opts) (ops : list rop) : outcome (list ans) :=
    match interp (memr_step K data) (mps_seq fuel o ops) mem_start with
    | Ok (a, _) => Ok a
    | Fault => Fault
    end.

  Definition mps_run_bsr (K : nat) (is0 : istream) (fuel : nat) (o : opts) (ops : list rop) : outcome (list ans) :=
    match interp (bsr_step K) (mps_seq fuel o ops) (bsr_new K is0) with
    | Ok (a, _) => Ok a
    | Fault => Fault
    end.
End Seq.

(* ================================================================== the string reader, same interface *)

(* CMsgPackStringReader answering the same operations at the suffix d of [data] (the functions of
   MpModel.v; SetPosition(p) throws std::invalid_argument beyond the end; IsEnd is mPos == size) *)
Definition rres_map {A B} (f : A -> B) (x : rres A) : rres B :=
  match x with ROk v r => ROk (f v) r | RNot r => RNot r | RErr e => RErr e | RFuel => RFuel end.

Section StrSeq.
  Variable narrow : N -> option N.
  Variable widen : N -> N.
  Variable data : list N.

  Definition str_op (o : opts) (op : rop) (d : list N) : rres rval :=
    match op with
    | RdInt t => rres_map VInt (read_int o t d)
    | RdNil => rres_map (fun _ => VUnit) (read_nil o d)
    | RdF32 => rres_map VNum (read_f32 narrow o d)
    | RdF64 => rres_map VNum (read_f64 widen o d)
    | RdStr => rres_map VBytes (read_str o d)
    | RdArr => rres_map VNum (read_array_size o d)
    | RdMap => rres_map VNum (read_map_size o d)
    | RdBin => rres_map VNum (read_bin_size o d)
    | RdByte => rres_map VNum (read_binary d)
    | RdTs => rres_map (fun x => VTs (fst x) (snd x)) (read_ts o d)
    | RdType => match read_value_type d with inl t => ROk (VType t) d | inr e => RErr e end
    | RdSkip => match skip_value d with SOk r => ROk VUnit r | SErr e => RErr e | SFuel => RFuel end
    | RdSetPos p => if p <=? N.of_nat (length data) then ROk VUnit (skipn (N.to_nat p) data) else RErr EInvalidArg
    | RdIsEnd => ROk (VBool match d with [] => true | _ => false end) d
    end.

  Fixpoint str_seq (o : opts) (ops : list rop) (d : list N) : list ans :=
    match ops with
    | [] => []
    | op :: tl =>
      match str_op o op d with
      | ROk v r => AOkAt v (N.of_nat (length data - length r)) :: str_seq o tl r
      | RNot r => ANotAt (N.of_nat (length data - length r)) :: str_seq o tl r
      | RErr e => [AErrOf e]
      | RFuel => [AFuelOut]
      end
    end.

  Definition str_run (o : opts) (ops : list rop) : list ans := str_seq o ops data.
End StrSeq.

(* the one call whose precondition the two readers treat differently *)
Definition rop_ok (data : list N) (op : rop) : bool :=
  match op with RdSetPos p => p <=? N.of_nat (length data) | _ => true end.

(* ================================================================== adaptive clients of the reader interface *)

(* A deterministic client of IMsgPackReader: it issues an operation, sees the answer (value / not
   loaded / exception class, and GetPosition() after a call that returned), and decides from that what
   to do next.  The archive scope classes are such clients (FindValueByKey reads a key, compares,
   skips or seeks back to mStartPos, ...).  The run ends when the client returns, or at the first
   exception (what the destructors do while an exception propagates is not part of the run). *)
Inductive client (A : Type) : Type :=
| CRet (a : A)
| CCall (op : rop) (k : ans -> client A).
Arguments CRet {A} a.
Arguments CCall {A} op k.

Definition transcript := list (rop * ans).

(* a strategy: from the transcript so far to the next operation, or stop; at most n steps *)
Definition strategy := transcript -> option rop.

Fixpoint client_of (n : nat) (sigma : strategy) (t : transcript) : client unit :=
  match n with
  | O => CRet tt
  | S n' =>
    match sigma t with
    | None => CRet tt
    | Some op => CCall op (fun a => client_of n' sigma (t ++ [(op, a)]))
    end
  end.

Section Client.
  Variable narrow : N -> option N.
  Variable widen : N -> N.

  (* the client driving CMsgPackStreamReader: the transcript and the client's result (None: stopped by an exception) *)
  Fixpoint mps_client {A} (fuel : nat) (o : opts) (c : client A) (t : transcript) : prog (transcript * option A) :=
    match c with
    | CRet a => Ret (t, Some a)
    | CCall op k =>
      pbind (mps_op narrow widen fuel o op) (fun a =>
        match a with
        | QOk v => get_position (fun p => mps_client fuel o (k (AOkAt v p)) (t ++ [(op, AOkAt v p)]))
        | QNot => get_position (fun p => mps_client fuel o (k (ANotAt p)) (t ++ [(op, ANotAt p)]))
        | QErr e => Ret (t ++ [(op, AErrOf e)], None)
        | QFuel => Ret (t ++ [(op, AFuelOut)], None)
        | QIO => Ret (t ++ [(op, AIOErr)], None)
        end)
    end.

  (* the same client driving CMsgPackStringReader over [data], standing at the suffix d *)
  Fixpoint str_client {A} (data : list N) (o : opts) (c : client A) (t : transcript) (d : list N) : transcript * option A :=
    match c with
    | CRet a => (t, Some a)
    | CCall op k =>
      match str_op narrow widen data o op d with
      | ROk v r => let a := AOkAt v (N.of_nat (length data - length r)) in str_client data o (k a) (t ++ [(op, a)]) r
      | RNot r => let a := ANotAt (N.of_nat (length data - length r)) in str_client data o (k a) (t ++ [(op, a)]) r
      | RErr e => (t ++ [(op, AErrOf e)], None)
      | RFuel => (t ++ [(op, AFuelOut)], None)
      end
    end.

  (* every SetPosition the client issues when driven by the string reader lies inside the data (the
     precondition of CMsgPackStringReader::SetPosition; otherwise that run ends in std::invalid_argument) *)
  Fixpoint client_seeks_ok {A} (data : list N) (o : opts) (c : client A) (d : list N) : bool :=
    match c with
    | CRet _ => true
    | CCall op k =>
      rop_ok data op &&
      match str_op narrow widen data o op d with
      | ROk v r => client_seeks_ok data o (k (AOkAt v (N.of_nat (length data - length r)))) r
      | RNot r => client_seeks_ok data o (k (ANotAt (N.of_nat (length data - length r)))) r
      | _ => true
      end
    end.

  Definition mps_client_mem {A} (K : nat) (data : list N) (fuel : nat) (o : opts) (c : client A) : outcome (transcript * option A) :=
    match interp (memr_step K data) (mps_client fuel o c []) mem_start with
    | Ok (a, _) => Ok a
    | Fault => Fault
    end.

  Definition mps_client_bsr {A} (K : nat) (is0 : istream) (fuel : nat) (o : opts) (c : client A) : outcome (transcript * option A) :=
    match interp (bsr_step K) (mps_client fuel o c []) (bsr_new K is0) with
    | Ok (a, _) => Ok a
    | Fault => Fault
    end.

  Definition str_client_run {A} (data : list N) (o : opts) (c : client A) : transcript * option A :=
    str_client data o c [] data.
End Client.

(* the positions a transcript has shown to the client *)
Fixpoint positions (t : transcript) : list N :=
  match t with
  | [] => []
  | (_, AOkAt _ p) :: tl => p :: positions tl
  | (_, ANotAt p) :: tl => p :: positions tl
  | _ :: tl => positions tl
  end.

(* a strategy that seeks only to the start or to positions GetPosition() has returned to it *)
Definition seeks_known (sigma : strategy) : Prop :=
  forall t p, sigma t = Some (RdSetPos p) -> p = 0 \/ In p (positions t).

(* ---- FindValueByKey in miniature: read the map header, remember the position behind it; for each
   member read the key as a string and skip the value unless the key is the wanted one, then read the
   value as int32; at the end seek back to the remembered position (mStartPos) ---- *)
Definition s32 : ity := mkIty true 32.

Fixpoint find_members (n : nat) (key : list N) (start : N) : client (option Z) :=
  match n with
  | O => CCall (RdSetPos start) (fun _ => CRet None)
  | S n' =>
    CCall RdStr (fun a =>
      match a with
      | AOkAt (VBytes s) _ =>
        if list_eqb s key then
          CCall (RdInt s32) (fun a2 =>
            match a2 with
            | AOkAt (VInt z) _ => CCall (RdSetPos start) (fun _ => CRet (Some z))
            | _ => CCall (RdSetPos start) (fun _ => CRet None)
            end)
        else CCall RdSkip (fun _ => find_members n' key start)
      | _ => CRet None
      end)
  end.

(* the member count comes from the document: the loop is bounded by [bound] (the number of bytes) *)
Definition find_by_key (bound : nat) (key : list N) : client (option Z) :=
  CCall RdMap (fun a =>
    match a with
    | AOkAt (VNum n) start => find_members (N.to_nat (N.min n (N.of_nat bound))) key start
    | _ => CRet None
    end).

(* ================================================================== where the reader stands at the end of a run *)

(* the read sequences again, with GetPosition() of the reader after the last call of the run — after an
   exception this is where the reader stands after the throw (the drivers' `p` lines) *)
Definition mps_run_mem_pos (narrow : N -> option N) (widen : N -> N) (K : nat) (data : list N) (fuel : nat)
  (o : opts) (ops : list rop) : outcome (list ans * N) :=
  match interp (memr_step K data) (mps_seq narrow widen fuel o ops) mem_start with
  | Ok (a, m) => Ok (a, N.of_nat (m_pos m))
  | Fault => Fault
  end.

Definition mps_run_bsr_pos (narrow : N -> option N) (widen : N -> N) (K : nat) (is0 : istream) (fuel : nat)
  (o : opts) (ops : list rop) : outcome (list ans * N) :=
  match interp (bsr_step K) (mps_seq narrow widen fuel o ops) (bsr_new K is0) with
  | Ok (a, s) => Ok (a, N.of_nat (bsr_get_position s))
  | Fault => Fault
  end.
