(* MpStreamProofs.v — the MsgPack stream reader (MpStreamModel.v) against the MsgPack string reader
   (MpModel.v): run on ANY reader whose answers the in-memory reference reader of StreamSpec.v
   accepts, positioned at the suffix [d] of the data, each function of the stream reader delivers
   what the string reader's function delivers on [d], and leaves the reader at the suffix the string
   reader stops at.  Then the composition with the CBinaryStreamReader refinement (StreamBsrProofs):
   the same over the chunked reader on a seekable stream, for every chunk size K >= 8.

   Method: [wp p m Q] = every run of program p from reference state m, under every choice of
   answers mem_step accepts, ends in Q.  Each function gets a wp statement whose postcondition is
   the string model's answer ([post]); [interp_wp] carries a wp statement to any reader that the
   reference simulates. *)
From BS Require Import Base MpSpec MpModel MpLemmas MpReader MpTs MpScopeModel MpScopeTyped StreamIStream StreamSpec StreamModel
  StreamLemmas StreamBsrProofs MpStreamModel.
From Coq Require Import ZifyBool ZifyN ZifyNat.
Local Open Scope N_scope.
Ltac Zify.zify_post_hook ::= Z.div_mod_to_equations.

(* ================================================================== facts about MpModel.skip_impl *)

Lemma skip_rep_le (step : list N -> sres) :
  (forall d r, step d = SOk r -> (length r <= length d)%nat) ->
  forall g cnt d r, skip_rep step g cnt d = SOk r -> (length r <= length d)%nat.
Proof.
  intros Hs. induction g as [|g IH]; intros cnt d r H; cbn [skip_rep] in H.
  - destruct (cnt =? 0); [injection H as <-; lia | discriminate].
  - destruct (cnt =? 0); [injection H as <-; lia|].
    destruct (step d) as [r1| |] eqn:E1; try discriminate.
    apply Hs in E1. apply IH in H. lia.
Qed.

Lemma skip_by_le f : (forall d r, skip_impl f d = SOk r -> (length r <= length d)%nat) ->
  forall h d r, skip_by f h d = SOk r -> (length r <= length d)%nat.
Proof.
  intros IH h d r H. pose proof (skip_rep_le (skip_impl f) IH) as Hrep.
  destruct h; cbn [skip_by] in H; unfold get_value in H.
  all: repeat match type of H with
       | context [match take ?k ?dd with _ => _ end] =>
           let E := fresh "ET" in destruct (take k dd) as [[? ?]|] eqn:E; [apply take_length in E|]
       end; try discriminate.
  all: try (injection H as <-; lia).
  all: try (apply Hrep in H; lia).
Qed.

Lemma skip_impl_progress : forall f d r, skip_impl f d = SOk r -> (length r < length d)%nat.
Proof.
  induction f as [|f IH]; intros d r H; [discriminate|].
  destruct d as [|b d]; [discriminate|]. rewrite skip_impl_by in H.
  apply skip_by_le in H; [cbn [length]; lia|].
  intros d' r' H'. apply IH in H'. lia.
Qed.

Lemma skip_rep_mono (s1 s2 : list N -> sres) (bound : nat) :
  (forall d, (length d < bound)%nat -> s2 d = s1 d) ->
  (forall d r, s1 d = SOk r -> (length r < length d)%nat) ->
  (forall d, (length d = 0)%nat -> exists e, s1 d = SErr e) ->
  forall g g' cnt d, (length d < bound)%nat -> (length d < g)%nat -> (g <= g')%nat ->
    skip_rep s2 g' cnt d = skip_rep s1 g cnt d.
Proof.
  intros Heq Hprog Hnil. induction g as [|g IH]; intros g' cnt d Hb Hg Hgg; [lia|].
  destruct g' as [|g']; [lia|]. cbn [skip_rep]. destruct (cnt =? 0); [reflexivity|].
  rewrite (Heq d Hb). destruct (s1 d) as [r| |] eqn:E; try reflexivity.
  pose proof (Hprog d r E) as Hp.
  destruct g as [|g].
  - (* one unit of fuel: d has no byte, so s1 d is an error *)
    assert (L0 : (length d = 0)%nat) by lia. destruct (Hnil d L0) as [e He]. congruence.
  - apply IH; lia.
Qed.

Lemma skip_impl_nil f d : (length d = 0)%nat -> exists e, skip_impl (S f) d = SErr e.
Proof. destruct d; [|cbn; lia]. intros _. exists EParse. reflexivity. Qed.

(* any fuel above the number of remaining bytes gives the same answer *)
Lemma skip_impl_mono : forall f d, (length d < f)%nat -> forall f', (f <= f')%nat ->
  skip_impl f' d = skip_impl f d.
Proof.
  induction f as [|f IH]; intros d Hd f' Hf; [lia|].
  destruct f' as [|f']; [lia|].
  destruct d as [|b d]; [reflexivity|]. rewrite !skip_impl_by. cbn [length] in Hd.
  assert (Hrep : forall cnt r, (length r <= length d)%nat ->
            skip_rep (skip_impl f') f' cnt r = skip_rep (skip_impl f) f cnt r).
  { intros cnt r Hr. destruct f as [|f0]; [lia|].
    apply (skip_rep_mono (skip_impl (S f0)) (skip_impl f') (S f0)).
    - intros d' Hd'. apply IH; lia.
    - apply skip_impl_progress.
    - apply skip_impl_nil.
    - lia.
    - lia.
    - lia. }
  destruct (classify b); cbn [skip_by]; try reflexivity; unfold get_value.
  - apply Hrep. lia.
  - apply Hrep. lia.
  - destruct (take klen d) as [[s r]|] eqn:E; [|reflexivity]. apply take_length in E. apply Hrep. lia.
  - destruct (take klen d) as [[s r]|] eqn:E; [|reflexivity]. apply take_length in E. apply Hrep. lia.
Qed.

Lemma skip_value_fuel f d : (length d < f)%nat -> skip_impl f d = skip_value d.
Proof. intros H. unfold skip_value. apply skip_impl_mono; lia. Qed.


(* ================================================================== facts about the byte-code table *)

(* what the 41 classes of first bytes put into the table, as far as the stream reader depends on it *)
Definition meta_ok (m : meta) : Prop :=
  (m_ext m = 0 \/ m_ext m = 1 \/ m_ext m = 2 \/ m_ext m = 4) /\ m_data m <= 8 /\ m_fixed m <= 31 /\
  (vtype_eqb (m_ty m) TExt = true ->
     m_data m = 1 /\ ((m_fixed m <> 0 /\ m_ext m = 0) \/ (m_fixed m = 0 /\ m_ext m <> 0))).

Lemma byte_meta_ok b : meta_ok (byte_meta b).
Proof.
  unfold meta_ok, byte_meta. split_first_byte b.
  all: cbn [m_ty m_fixed m_data m_ext vtype_eqb].
  all: repeat split; try lia; try discriminate; try (intros _; lia); try (intros _; split; [reflexivity|]; lia).
Qed.

Lemma take_one_nil : take 1 [] = None.
Proof. reflexivity. Qed.

Lemma take_one_cons b r : take 1 (b :: r) = Some ([b], r).
Proof.
  unfold take. cbn [length]. replace (1 <=? N.of_nat (S (length r))) with true by (symmetry; lia). reflexivity.
Qed.

Lemma get_value_one_nil : get_value 1 [] = None.
Proof. reflexivity. Qed.

Lemma get_value_one_cons b r : get_value 1 (b :: r) = Some (b, r).
Proof. unfold get_value. rewrite take_one_cons, be_val_single. reflexivity. Qed.

Lemma forall_take n d s r : Forall (fun b => b < 256) d -> take n d = Some (s, r) ->
  Forall (fun b => b < 256) s /\ Forall (fun b => b < 256) r.
Proof. intros H E. apply take_some in E. destruct E as [-> _]. apply Forall_app in H. exact H. Qed.

Lemma get_value_bound k d v r : Forall (fun b => b < 256) d -> k <= 4 -> get_value k d = Some (v, r) -> v < 0x100000000.
Proof.
  intros H Hk E. unfold get_value in E. destruct (take k d) as [[s r']|] eqn:Et; [|discriminate].
  injection E as <- <-. destruct (forall_take _ _ _ _ H Et) as [Hs _].
  apply take_some in Et. destruct Et as [_ Ls]. pose proof (be_val_bound s Hs) as Hb.
  assert (256 ^ N.of_nat (length s) <= 256 ^ 4) by (apply N.pow_le_mono_r; lia).
  change (256 ^ 4) with 0x100000000 in *. lia.
Qed.

Lemma get_value_suffix_len k d v r : get_value k d = Some (v, r) -> (length d = N.to_nat k + length r)%nat.
Proof.
  unfold get_value. destruct (take k d) as [[s r']|] eqn:Et; [|discriminate].
  intros E. injection E as _ <-. apply take_length in Et. exact Et.
Qed.


(* ================================================================== where SkipValue stands when it throws *)

(* MpScopeModel.skip_at_impl is the string reader's SkipValueImpl with the reader position at the throw
   (the scope destructors go on from there).  The same for the stream reader: since fix e491e27 it moves
   over the payload by reading through it (SkipBytes), so when the payload of any value is cut short it
   stands at the end of the data, not behind the type byte.  Everything else is skip_at_impl. *)
Fixpoint sskip_at_impl (fuel : nat) (rest : list N) {struct fuel} : ares :=
  match fuel with
  | O => AFuel
  | S f =>
    match rest with
    | [] => AErr EParse rest
    | b :: r1 =>
      let m := byte_meta b in
      if vtype_eqb (m_ty m) TUnknown then AErr EParse r1 else
      let hdr : option (N * list N) :=                   (* extSize, and the position after ReadExtSize *)
        if negb (m_fixed m =? 0) then Some (m_fixed m, r1)
        else if negb (m_ext m =? 0) then get_value (m_ext m) r1
        else Some (0, r1) in
      match hdr with
      | None => AErr EParse r1
      | Some (ext0, r2) =>
        let size := if is_sized (m_ty m) then m_data m + ext0 else m_data m in
        let ext := if is_sized (m_ty m) then 0 else ext0 in
        match take size r2 with
        | None => AErr EParse []                           (* SkipBytes has read to the end of the data *)
        | Some (_, r3) =>
          if ext =? 0 then AOk r3
          else match m_ty m with
               | TMap => skip_rep_at (sskip_at_impl f) f (2 * ext) r3
               | TArr => skip_rep_at (sskip_at_impl f) f ext r3
               | _ => AOk r3
               end
        end
      end
    end
  end.

Definition sskip_at (rest : list N) : ares := sskip_at_impl (S (length rest)) rest.

(* ================================================================== suffixes of the data *)

Section Wp.
  Variable K : nat.                    (* the limit of ReadSolidBlock (chunk_size) *)
  Variable data : list N.
  Hypothesis HK : (8 <= K)%nat.        (* GetValue<uint64_t> asks for a solid block of 8 bytes *)
  Hypothesis Hlen : N.of_nat (length data) < 0x8000000000000000.
  Hypothesis Hbytes : Forall (fun b => b < 256) data.     (* C++ char *)

  Definition Suffix (d : list N) : Prop := exists pre, data = pre ++ d.

  (* the reference reader standing at suffix d *)
  Definition st (d : list N) : mem := mkM (length data - length d) false.

  Lemma suffix_len d : Suffix d -> (length d <= length data)%nat.
  Proof. intros [pre E]. rewrite E, app_length. lia. Qed.

  Lemma suffix_skipn d : Suffix d -> skipn (length data - length d) data = d.
  Proof.
    intros [pre E]. rewrite E, app_length. replace (length pre + length d - length d)%nat with (length pre) by lia.
    apply skipn_app_exact.
  Qed.

  Lemma suffix_data : Suffix data.
  Proof. exists []. reflexivity. Qed.

  Lemma suffix_tl b r : Suffix (b :: r) -> Suffix r.
  Proof. intros [pre E]. exists (pre ++ [b]). rewrite <- app_assoc. exact E. Qed.

  Lemma suffix_app s r : Suffix (s ++ r) -> Suffix r.
  Proof. intros [pre E]. exists (pre ++ s). rewrite <- app_assoc. exact E. Qed.

  Lemma suffix_take n d s r : Suffix d -> take n d = Some (s, r) -> Suffix r.
  Proof. intros H E. apply take_some in E. destruct E as [-> _]. eapply suffix_app. exact H. Qed.

  Lemma suffix_bytes d : Suffix d -> Forall (fun b => b < 256) d.
  Proof. intros [pre E]. rewrite E in Hbytes. apply Forall_app in Hbytes. apply Hbytes. Qed.

  Lemma suffix_skipn_data n : Suffix (skipn n data).
  Proof. exists (firstn n data). symmetry. apply firstn_skipn. Qed.

  Lemma suffix_nth d : Suffix d -> nth_error data (length data - length d) = hd_error d.
  Proof.
    intros [pre E]. rewrite E, app_length. replace (length pre + length d - length d)%nat with (length pre) by lia.
    rewrite nth_error_app2 by lia. rewrite Nat.sub_diag. destruct d; reflexivity.
  Qed.

  Lemma suffix_slice d n : Suffix d -> slice data (length data - length d) n = firstn n d.
  Proof. intros H. unfold slice. rewrite (suffix_skipn d H). reflexivity. Qed.

  Lemma st_tl b r : Suffix (b :: r) -> mkM (S (length data - length (b :: r))) false = st r.
  Proof. intros H. apply suffix_len in H. unfold st. cbn [length] in *. f_equal. lia. Qed.

  (* ---------------------------------------------------------------- wp *)

  Fixpoint wp {A} (p : prog A) (m : mem) (Q : A -> mem -> Prop) : Prop :=
    match p with
    | Ret a => Q a m
    | Bad => False
    | Op op k => op_sizet op /\ forall r m', mem_step K data m op r = Some m' -> wp (k r) m' Q
    end.

  Lemma wp_mono {A} (p : prog A) : forall m (Q Q' : A -> mem -> Prop),
    (forall a m', Q a m' -> Q' a m') -> wp p m Q -> wp p m Q'.
  Proof.
    induction p as [a| |op k IH]; intros m Q Q' HQ H; cbn [wp] in *.
    - apply HQ. exact H.
    - exact H.
    - destruct H as [Hw Hk]. split; [exact Hw|]. intros r m' E. eapply IH; [exact HQ | apply Hk; exact E].
  Qed.

  Lemma wp_pbind {A B} (p : prog A) (f : A -> prog B) : forall m Q,
    wp p m (fun a m' => wp (f a) m' Q) -> wp (pbind p f) m Q.
  Proof.
    induction p as [a| |op k IH]; intros m Q H; cbn [wp pbind] in *.
    - exact H.
    - exact H.
    - destruct H as [Hw Hk]. split; [exact Hw|]. intros r m' E. apply IH. apply Hk. exact E.
  Qed.

  Lemma wp_qbind {A B} (p : prog (sr A)) (f : A -> prog (sr B)) m Q :
    wp p m (fun x m' => match x with
                        | QOk a => wp (f a) m' Q
                        | QNot => Q QNot m'
                        | QErr e => Q (QErr e) m'
                        | QFuel => Q QFuel m'
                        | QIO => Q QIO m'
                        end) ->
    wp (qbind p f) m Q.
  Proof.
    intros H. unfold qbind. apply wp_pbind. eapply wp_mono; [|exact H].
    intros [a| |e| |] m' Ha; exact Ha.
  Qed.

  (* ---------------------------------------------------------------- the nine operations at a suffix *)

  Lemma opt_eqb_eq a b : opt_eqb a b = true -> a = b.
  Proof.
    destruct a as [x|], b as [y|]; cbn; try discriminate; try reflexivity.
    intros H. apply N.eqb_eq in H. congruence.
  Qed.

  Lemma list_eqb_eq : forall a b, list_eqb a b = true -> a = b.
  Proof.
    induction a as [|x a IH]; destruct b as [|y b]; cbn; try discriminate; try reflexivity.
    intros H. apply andb_true_iff in H. destruct H as [H1 H2]. apply N.eqb_eq in H1. f_equal; [exact H1 | apply IH; exact H2].
  Qed.

  Lemma wp_peek {A} (k : option N -> prog A) d Q : Suffix d ->
    wp (k (hd_error d)) (st d) Q -> wp (peek_byte k) (st d) Q.
  Proof.
    intros HS H. cbn [wp peek_byte]. split; [exact I|]. intros r m' E.
    unfold mem_step in E. cbn [st m_failed m_pos] in E.
    destruct r; try discriminate E.
    destruct (opt_eqb o (nth_error data (length data - length d))) eqn:Eo; [|discriminate E].
    injection E as <-. apply opt_eqb_eq in Eo. rewrite Eo, (suffix_nth d HS). exact H.
  Qed.

  Lemma wp_goto {A} (k : prog A) d Q : Suffix d ->
    wp k (st (tl d)) Q -> wp (goto_next k) (st d) Q.
  Proof.
    intros HS H. cbn [wp goto_next]. split; [exact I|]. intros r m' E.
    unfold mem_step in E. cbn [st m_failed m_pos] in E.
    destruct r; try discriminate E. injection E as <-.
    pose proof (suffix_len d HS) as Hl.
    destruct d as [|b r].
    - unfold st in H. cbn [length tl] in *. rewrite Nat.sub_0_r in *. rewrite Nat.ltb_irrefl. exact H.
    - replace (length data - length (b :: r) <? length data)%nat with true
        by (symmetry; apply Nat.ltb_lt; cbn [length] in *; lia).
      rewrite (st_tl b r HS). exact H.
  Qed.

  Lemma wp_read_byte {A} (k : option N -> prog A) d Q : Suffix d ->
    wp (k (hd_error d)) (st (tl d)) Q -> wp (read_byte k) (st d) Q.
  Proof.
    intros HS H. cbn [wp read_byte]. split; [exact I|]. intros r m' E.
    unfold mem_step in E. cbn [st m_failed m_pos] in E.
    destruct r; try discriminate E.
    destruct (opt_eqb o (nth_error data (length data - length d))) eqn:Eo; [|discriminate E].
    injection E as <-. apply opt_eqb_eq in Eo. rewrite (suffix_nth d HS) in Eo. subst o.
    destruct d as [|b r]; cbn [hd_error tl] in *.
    - exact H.
    - rewrite (st_tl b r HS). exact H.
  Qed.

  Lemma take_firstn n d s r : take n d = Some (s, r) -> s = firstn (N.to_nat n) d /\ r = skipn (N.to_nat n) d.
  Proof.
    unfold take. destruct (n <=? N.of_nat (length d)); [|discriminate].
    intros H. injection H as <- <-. split; reflexivity.
  Qed.

  Lemma st_take n d s r : Suffix d -> take n d = Some (s, r) ->
    mkM (length data - length d + length s) false = st r.
  Proof.
    intros HS E. pose proof (suffix_len d HS) as Hl. apply take_some in E. destruct E as [-> E].
    unfold st. rewrite app_length in *. f_equal. lia.
  Qed.

  (* ReadSolidBlock(n), n <= chunk_size *)
  Lemma wp_solid {A} (k : list N -> prog A) n d Q : Suffix d -> n <= 8 ->
    (forall s r, take n d = Some (s, r) -> Suffix r -> wp (k s) (st r) Q) ->
    (take n d = None -> wp (k []) (st d) Q) ->
    wp (solid_block n k) (st d) Q.
  Proof.
    intros HS Hn H1 H2. cbn [wp solid_block]. split; [unfold op_sizet, sizet; lia|]. intros r m' E.
    unfold mem_step in E. cbn [st m_failed m_pos] in E.
    destruct r; try discriminate E.
    pose proof (suffix_len d HS) as Hl.
    replace (n <=? N.of_nat K) with true in E by (symmetry; apply N.leb_le; lia). cbn [andb] in E.
    rewrite (suffix_slice d _ HS) in E.
    destruct (take n d) as [[s r]|] eqn:Et.
    - pose proof Et as Et'. apply take_firstn in Et'. destruct Et' as [Es Er].
      pose proof Et as Et2. apply take_some in Et2. destruct Et2 as [Ed Ls].
      replace (N.of_nat (length data - length d) + n <=? N.of_nat (length data)) with true in E
        by (symmetry; apply N.leb_le; rewrite Ed, app_length in *; lia).
      destruct (list_eqb l (firstn (N.to_nat n) d)) eqn:El; [|discriminate E].
      injection E as <-. apply list_eqb_eq in El. rewrite <- Es in El. subst l.
      rewrite (st_take n d s r HS Et). apply (H1 s r eq_refl). eapply suffix_take; eassumption.
    - apply take_none in Et.
      replace (N.of_nat (length data - length d) + n <=? N.of_nat (length data)) with false in E
        by (symmetry; apply N.leb_gt; lia).
      destruct (list_eqb l []) eqn:El; [|discriminate E].
      injection E as <-. apply list_eqb_eq in El. subst l. cbn [length]. rewrite Nat.add_0_r.
      apply H2. reflexivity.
  Qed.

  (* ReadByChunks(n): any non-empty piece of at most n bytes *)
  Lemma wp_chunks {A} (k : list N -> prog A) n d Q : Suffix d -> sizet n ->
    (forall l r, d = l ++ r -> N.of_nat (length l) <= n -> (l = [] -> n = 0 \/ d = []) -> Suffix r ->
       wp (k l) (st r) Q) ->
    wp (by_chunks n k) (st d) Q.
  Proof.
    intros HS Hn H. cbn [wp by_chunks]. split; [exact Hn|]. intros r m' E.
    unfold mem_step in E. cbn [st m_failed m_pos] in E.
    destruct r; try discriminate E.
    rewrite (suffix_slice d _ HS) in E.
    destruct ((N.of_nat (length l) <=? n) && list_eqb l (firstn (length l) d)
              && (negb (length l =? 0)%nat || (n =? 0) || (length data - length d =? length data)%nat)) eqn:Ec;
      [|discriminate E].
    injection E as <-.
    apply andb_true_iff in Ec. destruct Ec as [Ec E3]. apply andb_true_iff in Ec. destruct Ec as [E1 E2].
    apply N.leb_le in E1. apply list_eqb_eq in E2.
    pose proof (suffix_len d HS) as Hl.
    assert (Ed : d = l ++ skipn (length l) d) by (rewrite E2 at 1; symmetry; apply firstn_skipn).
    assert (Hll : (length l <= length d)%nat).
    { rewrite E2. rewrite firstn_length. lia. }
    replace (mkM (length data - length d + length l) false) with (st (skipn (length l) d))
      by (unfold st; rewrite skipn_length; f_equal; lia).
    apply H; try assumption.
    - intros ->. cbn [length Nat.eqb negb orb] in E3. apply orb_true_iff in E3. destruct E3 as [E3|E3].
      + left. apply N.eqb_eq. exact E3.
      + right. apply Nat.eqb_eq in E3. destruct d; [reflexivity | cbn [length] in *; lia].
    - rewrite Ed in HS. eapply suffix_app. exact HS.
  Qed.

  Lemma wp_get_pos {A} (k : N -> prog A) d Q :
    wp (k (N.of_nat (length data - length d))) (st d) Q -> wp (get_position k) (st d) Q.
  Proof.
    intros H. cbn [wp get_position]. split; [exact I|]. intros r m' E.
    unfold mem_step in E. cbn [st m_failed m_pos] in E.
    destruct r; try discriminate E.
    destruct (p =? length data - length d)%nat eqn:Ep; [|discriminate E].
    injection E as <-. apply Nat.eqb_eq in Ep. subst p. exact H.
  Qed.

  Lemma wp_is_end {A} (k : bool -> prog A) d Q : Suffix d ->
    wp (k (match d with [] => true | _ => false end)) (st d) Q -> wp (is_end k) (st d) Q.
  Proof.
    intros HS H. cbn [wp is_end]. split; [exact I|]. intros r m' E.
    unfold mem_step in E. cbn [st m_failed m_pos] in E.
    destruct r; try discriminate E.
    destruct (Bool.eqb b (length data - length d =? length data)%nat) eqn:Eb; [|discriminate E].
    injection E as <-. apply Bool.eqb_prop in Eb. subst b.
    pose proof (suffix_len d HS) as Hl.
    destruct d as [|x r]; cbn [length] in *.
    - rewrite Nat.sub_0_r, Nat.eqb_refl. exact H.
    - replace (length data - S (length r) =? length data)%nat with false by (symmetry; apply Nat.eqb_neq; lia).
      exact H.
  Qed.

  (* SetPosition(p): inside the data it succeeds, beyond the end it is refused and the reference reader
     is "failed" (nothing more may be asked of it) *)
  Lemma wp_set_pos {A} (k : bool -> prog A) p d Q :
    (p <= N.of_nat (length data) -> wp (k true) (st (skipn (N.to_nat p) data)) Q) ->
    (N.of_nat (length data) < p -> sizet p /\ wp (k false) (mkM (length data - length d) true) Q) ->
    wp (set_position p k) (st d) Q.
  Proof.
    intros H1 H2. cbn [wp set_position].
    destruct (N.leb_spec p (N.of_nat (length data))) as [Hp|Hp].
    - split; [unfold op_sizet, sizet; lia|]. intros r m' E.
      unfold mem_step in E. cbn [st m_failed m_pos] in E.
      destruct r; try discriminate E.
      replace (p <=? N.of_nat (length data)) with true in E by (symmetry; apply N.leb_le; exact Hp).
      destruct b; [|discriminate E]. injection E as <-.
      replace (mkM (N.to_nat p) false) with (st (skipn (N.to_nat p) data))
        by (unfold st; rewrite skipn_length; f_equal; lia).
      apply H1. exact Hp.
    - destruct (H2 Hp) as [Hw Hk]. split; [exact Hw|]. intros r m' E.
      unfold mem_step in E. cbn [st m_failed m_pos] in E.
      destruct r; try discriminate E.
      replace (p <=? N.of_nat (length data)) with false in E by (symmetry; apply N.leb_gt; exact Hp).
      destruct b; [discriminate E|]. injection E as <-. exact Hk.
  Qed.

  (* "SetPosition(GetPosition() + size)" *)
  Lemma skipn_forward d n : Suffix d -> (n <= length d)%nat ->
    skipn (length data - length d + n) data = skipn n d.
  Proof.
    intros HS Hn. rewrite <- skipn_skipn. rewrite (suffix_skipn d HS). reflexivity.
  Qed.

  Lemma wp_advance {A} (k : bool -> prog A) size d Q : Suffix d -> size < 0x400000000 ->
    (forall s r, take size d = Some (s, r) -> Suffix r -> wp (k true) (st r) Q) ->
    (take size d = None -> wp (k false) (mkM (length data - length d) true) Q) ->
    wp (get_position (fun p => set_position (p + size) k)) (st d) Q.
  Proof.
    intros HS Hsz H1 H2. apply wp_get_pos. pose proof (suffix_len d HS) as Hl.
    apply wp_set_pos.
    - intros Hp. destruct (take size d) as [[s r]|] eqn:Et.
      + pose proof Et as Et'. apply take_firstn in Et'. destruct Et' as [_ Er].
        pose proof Et as Et2. apply take_some in Et2. destruct Et2 as [Ed Ls].
        replace (N.to_nat (N.of_nat (length data - length d) + size))
          with (length data - length d + N.to_nat size)%nat by lia.
        rewrite skipn_forward by (try assumption; rewrite Ed, app_length; lia).
        rewrite <- Er. apply (H1 s r eq_refl). eapply suffix_take; eassumption.
      + apply take_none in Et. lia.
    - intros Hp. split; [unfold sizet; lia|].
      apply H2. unfold take. replace (size <=? N.of_nat (length d)) with false by (symmetry; apply N.leb_gt; lia).
      reflexivity.
  Qed.

  (* "SetPosition(prevPos)" with a position obtained earlier *)
  Lemma wp_set_back {A} (k : bool -> prog A) d0 d Q : Suffix d0 ->
    wp (k true) (st d0) Q -> wp (set_position (N.of_nat (length data - length d0)) k) (st d) Q.
  Proof.
    intros HS H. apply wp_set_pos.
    - intros _. rewrite Nat2N.id. rewrite (suffix_skipn d0 HS). exact H.
    - intros Hp. lia.
  Qed.


  (* ---------------------------------------------------------------- GetValue / ReadExtSize *)

  Lemma wp_get_value k d (Q : sr N -> mem -> Prop) : Suffix d -> (k = 1 \/ k = 2 \/ k = 4 \/ k = 8) ->
    (forall v r, get_value k d = Some (v, r) -> Suffix r -> Q (QOk v) (st r)) ->
    (get_value k d = None -> Q (QErr EParse) (st d)) ->
    wp (mps_get_value k) (st d) Q.
  Proof.
    intros HS Hk H1 H2. unfold mps_get_value. destruct (N.eqb_spec k 1) as [->|Hk1].
    - apply wp_read_byte; [exact HS|]. destruct d as [|b r]; cbn [hd_error tl wp].
      + apply H2. reflexivity.
      + apply H1; [apply get_value_one_cons | eapply suffix_tl; exact HS].
    - apply wp_solid; [exact HS | lia | |].
      + intros s r Et HSr. cbn [wp]. unfold get_value in H1. specialize (H1 (be_val s) r). rewrite Et in H1.
        apply take_some in Et. destruct Et as [_ Ls].
        destruct s as [|x s]; [cbn [length] in Ls; lia|]. apply H1; [reflexivity | exact HSr].
      + intros Et. cbn [wp]. apply H2. unfold get_value. rewrite Et. reflexivity.
  Qed.

  Lemma wp_read_ext_size n d (Q : sr N -> mem -> Prop) : Suffix d -> (n = 1 \/ n = 2 \/ n = 4) ->
    (forall v r, get_value n d = Some (v, r) -> Suffix r -> Q (QOk v) (st r)) ->
    (get_value n d = None -> Q (QErr EParse) (st d)) ->
    wp (mps_read_ext_size n) (st d) Q.
  Proof.
    intros HS Hn H1 H2. unfold mps_read_ext_size.
    replace ((n =? 1) || (n =? 2) || (n =? 4)) with true by (symmetry; lia).
    apply wp_get_value; try assumption. lia.
  Qed.

  (* ---------------------------------------------------------------- SkipValueImpl *)

  Definition spost (x : sres) (a : sr unit) (m' : mem) : Prop :=
    match x with
    | SOk r => a = QOk tt /\ m' = st r /\ Suffix r
    | SErr e => a = QErr e
    | SFuel => a = QFuel
    end.

  Lemma wp_skip_rep (step : prog (sr unit)) (sstep : list N -> sres) (n : nat) :
    (forall d r, sstep d = SOk r -> (length r <= length d)%nat) ->
    (forall d, Suffix d -> (length d <= n)%nat -> wp step (st d) (spost (sstep d))) ->
    forall g cnt d, Suffix d -> (length d <= n)%nat ->
      wp (mps_skip_rep step g cnt) (st d) (spost (skip_rep sstep g cnt d)).
  Proof.
    intros Hprog Hstep. induction g as [|g IH]; intros cnt d HS Hn; cbn [mps_skip_rep skip_rep].
    - destruct (cnt =? 0); cbn [wp spost]; [auto | reflexivity].
    - destruct (cnt =? 0); [cbn [wp spost]; auto|].
      apply wp_qbind. eapply wp_mono; [|apply Hstep; assumption].
      intros a m' Ha. destruct (sstep d) as [r|e|] eqn:Es; cbn [spost] in Ha.
      + destruct Ha as [-> [-> HSr]]. apply IH; [exact HSr|]. apply Hprog in Es. lia.
      + subst a. reflexivity.
      + subst a. reflexivity.
  Qed.

  (* SkipBytes: the ReadByChunks loop moves over exactly [n] bytes, or reads to the end of the data and
     reports false *)
  Lemma wp_skip_bytes (Q : sr bool -> mem -> Prop) : forall lf n d,
    Suffix d -> sizet n -> (length d < lf)%nat ->
    (forall s r, take n d = Some (s, r) -> Suffix r -> Q (QOk true) (st r)) ->
    (take n d = None -> Q (QOk false) (st [])) ->
    wp (mps_skip_bytes lf n) (st d) Q.
  Proof.
    induction lf as [|lf IH]; intros n d HS Hn Hf H1 H2; [lia|].
    cbn [mps_skip_bytes]. destruct (N.eqb_spec n 0) as [->|Hn0].
    { cbn [wp]. apply (H1 [] d (take_0 d) HS). }
    apply wp_chunks; [exact HS | exact Hn |].
    intros l r Ed Hl Hempty HSr.
    destruct l as [|x l].
    - cbn [wp]. destruct (Hempty eq_refl) as [E|E]; [contradiction|]. cbn [app] in Ed. subst r.
      rewrite E in *. apply H2. unfold take. cbn [length].
      replace (n <=? N.of_nat 0) with false by (symmetry; lia). reflexivity.
    - set (l1 := x :: l) in *.
      assert (Ll : (0 < length l1)%nat) by (subst l1; cbn [length]; lia).
      assert (Et : take (N.of_nat (length l1)) d = Some (l1, r)) by (rewrite Ed; apply take_app).
      pose proof (take_add _ (n - N.of_nat (length l1)) _ _ _ Et) as Hadd.
      replace (N.of_nat (length l1) + (n - N.of_nat (length l1))) with n in Hadd by lia.
      change (wp (mps_skip_bytes lf (n - N.of_nat (length l1))) (st r) Q).
      apply IH.
      + exact HSr.
      + unfold sizet in *. lia.
      + rewrite Ed, app_length in Hf. lia.
      + intros s r' Es HSr'. rewrite Es in Hadd. apply (H1 _ _ Hadd HSr').
      + intros Es. rewrite Es in Hadd. apply H2. exact Hadd.
  Qed.

  (* the part after the header: "if (size == 0 || SkipBytes(reader, size)) children else throw"; after the
     throw the reader stands at the end of the data *)
  Lemma wp_skip_tail (children : prog (sr unit)) lf size d (Q : sr unit -> mem -> Prop) :
    Suffix d -> size < 0x400000000 -> (length d < lf)%nat ->
    (forall s r, take size d = Some (s, r) -> Suffix r -> wp children (st r) Q) ->
    (take size d = None -> Q (QErr EParse) (st [])) ->
    wp (if size =? 0 then children
        else qbind (mps_skip_bytes lf size) (fun ok => if ok then children else Ret (QErr EParse)))
       (st d) Q.
  Proof.
    intros HS Hsz Hf H1 H2. destruct (N.eqb_spec size 0) as [->|Hs0].
    - apply (H1 [] d); [apply take_0 | exact HS].
    - apply wp_qbind. apply wp_skip_bytes; [exact HS | unfold sizet; lia | exact Hf | |].
      + intros s r Et HSr. apply (H1 s r Et HSr).
      + intros Et. cbn [wp]. apply H2. exact Et.
  Qed.

  Lemma take_after_header k x d v r : get_value k d = Some (v, r) ->
    take (k + x) d = match take x r with Some (s', r') => Some (firstn (N.to_nat k) d ++ s', r') | None => None end.
  Proof.
    unfold get_value. destruct (take k d) as [[s r0]|] eqn:Et; [|discriminate].
    intros E. injection E as _ <-. rewrite (take_add _ x _ _ _ Et).
    apply take_firstn in Et. destruct Et as [<- _]. reflexivity.
  Qed.

  Theorem wp_skip_impl lf : forall f d, Suffix d -> (length d < lf)%nat ->
    wp (mps_skip_impl lf f) (st d) (spost (skip_impl f d)).
  Proof.
    induction f as [|f IH]; intros d HS Hlf; [reflexivity|].
    cbn [mps_skip_impl skip_impl]. apply wp_read_byte; [exact HS|].
    destruct d as [|b r1]; cbn [hd_error tl]; [reflexivity|].
    pose proof (suffix_tl _ _ HS) as HS1. cbn [length] in Hlf.
    pose proof (byte_meta_ok b) as [Mext [Mdata [Mfix _]]].
    set (m := byte_meta b) in *.
    destruct (vtype_eqb (m_ty m) TUnknown); [reflexivity|].
    apply wp_qbind.
    (* the children, once the position is behind the value's own bytes *)
    assert (Children : forall ext r2, Suffix r2 -> (length r2 <= length r1)%nat ->
      wp (if ext =? 0 then Ret (QOk tt)
          else match m_ty m with
               | TMap => mps_skip_rep (mps_skip_impl lf f) f (2 * ext)
               | TArr => mps_skip_rep (mps_skip_impl lf f) f ext
               | _ => Ret (QOk tt)
               end) (st r2)
         (spost (if ext =? 0 then SOk r2
                 else match m_ty m with
                      | TMap => skip_rep (skip_impl f) f (2 * ext) r2
                      | TArr => skip_rep (skip_impl f) f ext r2
                      | _ => SOk r2
                      end))).
    { intros ext r2 HS2 Hl2. destruct (ext =? 0); [cbn [wp spost]; auto|].
      assert (Hprog : forall d r, skip_impl f d = SOk r -> (length r <= length d)%nat).
      { intros d0 r0 E0. apply skip_impl_progress in E0. lia. }
      assert (Hstep : forall d0, Suffix d0 -> (length d0 <= length r1)%nat ->
                wp (mps_skip_impl lf f) (st d0) (spost (skip_impl f d0))).
      { intros d0 HS0 Hl0. apply IH; [exact HS0 | lia]. }
      destruct (m_ty m); try (cbn [wp spost]; auto);
        apply (wp_skip_rep _ _ (length r1) Hprog Hstep); assumption. }
    destruct (m_fixed m =? 0) eqn:Efix; cbn [negb].
    - destruct (m_ext m =? 0) eqn:Eext; cbn [negb].
      + (* one byte, or a fixed-width scalar *)
        cbn [wp]. replace (if is_sized (m_ty m) then m_data m + 0 else m_data m) with (m_data m)
          by (destruct (is_sized (m_ty m)); lia).
        replace (if is_sized (m_ty m) then 0 else 0) with 0 by (destruct (is_sized (m_ty m)); reflexivity).
        apply wp_skip_tail; [exact HS1 | lia | lia | |].
        * intros s r2 Et HS2. rewrite Et. apply Children; [exact HS2|]. apply take_length in Et. lia.
        * intros Et. rewrite Et. reflexivity.
      + (* a length field *)
        apply N.eqb_neq in Eext.
        apply wp_read_ext_size; [exact HS1 | lia | |].
        * intros v r2 Eg HS2. rewrite Eg.
          assert (Hk4 : m_ext m <= 4) by lia.
          pose proof (get_value_bound _ _ _ _ (suffix_bytes _ HS1) Hk4 Eg) as Hv.
          pose proof (get_value_suffix_len _ _ _ _ Eg) as Ll.
          set (size := if is_sized (m_ty m) then m_data m + v else m_data m).
          replace (if is_sized (m_ty m) then m_data m + m_ext m + v else m_data m + m_ext m)
            with (m_ext m + size) by (subst size; destruct (is_sized (m_ty m)); lia).
          rewrite (take_after_header _ size _ _ _ Eg).
          apply wp_skip_tail; [exact HS2 | subst size; destruct (is_sized (m_ty m)); lia | lia | |].
          -- intros s r3 Et HS3. rewrite Et. apply Children; [exact HS3|]. apply take_length in Et. lia.
          -- intros Et. rewrite Et. reflexivity.
        * intros Eg. rewrite Eg. reflexivity.
    - (* fixed sequence: fixstr, fixarray, fixmap, fixext *)
      cbn [wp].
      apply wp_skip_tail; [exact HS1 | destruct (is_sized (m_ty m)); lia | lia | |].
      + intros s r2 Et HS2. rewrite Et. apply Children; [exact HS2|]. apply take_length in Et. lia.
      + intros Et. rewrite Et. reflexivity.
  Qed.

  (* ---------------------------------------------------------------- SkipValueImpl, with the position at the throw *)

  Definition apost (x : ares) (a : sr unit) (m' : mem) : Prop :=
    match x with
    | AOk r => a = QOk tt /\ m' = st r /\ Suffix r
    | AErr e r_at => a = QErr e /\ m_pos m' = (length data - length r_at)%nat
    | AFuel => a = QFuel
    end.

  Lemma wp_skip_rep_at (step : prog (sr unit)) (sstep : list N -> ares) :
    (forall d, Suffix d -> wp step (st d) (apost (sstep d))) ->
    forall g cnt d, Suffix d -> wp (mps_skip_rep step g cnt) (st d) (apost (skip_rep_at sstep g cnt d)).
  Proof.
    intros Hstep. induction g as [|g IH]; intros cnt d HS; cbn [mps_skip_rep skip_rep_at].
    - destruct (cnt =? 0); cbn [wp apost]; [auto | reflexivity].
    - destruct (cnt =? 0); [cbn [wp apost]; auto|].
      apply wp_qbind. eapply wp_mono; [|apply Hstep; exact HS].
      intros a m' Ha. destruct (sstep d) as [r|e r_at|]; cbn [apost] in Ha.
      + destruct Ha as [-> [-> HSr]]. apply IH. exact HSr.
      + destruct Ha as [-> Hp]. cbn [apost]. auto.
      + subst a. reflexivity.
  Qed.

  Theorem wp_skip_impl_at lf : (length data < lf)%nat ->
    forall f d, Suffix d -> wp (mps_skip_impl lf f) (st d) (apost (sskip_at_impl f d)).
  Proof.
    intros Hlf. induction f as [|f IH]; intros d HS; [reflexivity|].
    cbn [mps_skip_impl sskip_at_impl]. apply wp_read_byte; [exact HS|].
    destruct d as [|b r1]; cbn [hd_error tl].
    { cbn [wp apost st m_pos]. auto. }
    pose proof (suffix_tl _ _ HS) as HS1.
    pose proof (byte_meta_ok b) as [Mext [Mdata [Mfix _]]].
    set (m := byte_meta b) in *.
    destruct (vtype_eqb (m_ty m) TUnknown); [cbn [wp apost st m_pos]; auto|].
    apply wp_qbind.
    assert (Children : forall ext r2, Suffix r2 ->
      wp (if ext =? 0 then Ret (QOk tt)
          else match m_ty m with
               | TMap => mps_skip_rep (mps_skip_impl lf f) f (2 * ext)
               | TArr => mps_skip_rep (mps_skip_impl lf f) f ext
               | _ => Ret (QOk tt)
               end) (st r2)
         (apost (if ext =? 0 then AOk r2
                 else match m_ty m with
                      | TMap => skip_rep_at (sskip_at_impl f) f (2 * ext) r2
                      | TArr => skip_rep_at (sskip_at_impl f) f ext r2
                      | _ => AOk r2
                      end))).
    { intros ext r2 HS2. destruct (ext =? 0); [cbn [wp apost]; auto|].
      destruct (m_ty m); try (cbn [wp apost]; auto); apply wp_skip_rep_at; auto. }
    assert (Tail : forall ext0 r2, Suffix r2 -> ext0 < 0x100000000 ->
      wp (let size := if is_sized (m_ty m) then m_data m + ext0 else m_data m in
          let ext := if is_sized (m_ty m) then 0 else ext0 in
          let children :=
            if ext =? 0 then Ret (QOk tt)
            else match m_ty m with
                 | TMap => mps_skip_rep (mps_skip_impl lf f) f (2 * ext)
                 | TArr => mps_skip_rep (mps_skip_impl lf f) f ext
                 | _ => Ret (QOk tt)
                 end in
          if size =? 0 then children
          else qbind (mps_skip_bytes lf size) (fun ok => if ok then children else Ret (QErr EParse)))
         (st r2)
         (apost (let size := if is_sized (m_ty m) then m_data m + ext0 else m_data m in
                 let ext := if is_sized (m_ty m) then 0 else ext0 in
                 match take size r2 with
                 | None => AErr EParse []
                 | Some (_, r3) =>
                   if ext =? 0 then AOk r3
                   else match m_ty m with
                        | TMap => skip_rep_at (sskip_at_impl f) f (2 * ext) r3
                        | TArr => skip_rep_at (sskip_at_impl f) f ext r3
                        | _ => AOk r3
                        end
                 end))).
    { intros ext0 r2 HS2 Hext. cbv zeta. pose proof (suffix_len r2 HS2) as Hl2.
      apply wp_skip_tail; [exact HS2 | destruct (is_sized (m_ty m)); lia | lia | |].
      - intros s r3 Et HS3. rewrite Et. apply Children. exact HS3.
      - intros Et. rewrite Et. cbn [apost st m_pos length]. auto. }
    destruct (m_fixed m =? 0) eqn:Efix; cbn [negb].
    - destruct (m_ext m =? 0) eqn:Eext; cbn [negb].
      + cbn [wp]. apply (Tail 0 r1 HS1). lia.
      + apply N.eqb_neq in Eext.
        apply wp_read_ext_size; [exact HS1 | lia | |].
        * intros v r2 Eg HS2. rewrite Eg.
          assert (Hk4 : m_ext m <= 4) by lia.
          pose proof (get_value_bound _ _ _ _ (suffix_bytes _ HS1) Hk4 Eg) as Hv.
          apply (Tail v r2 HS2 Hv).
        * intros Eg. rewrite Eg. cbn [apost st m_pos]. auto.
    - cbn [wp]. apply (Tail (m_fixed m) r1 HS1). lia.
  Qed.

  (* ---------------------------------------------------------------- the typed reads *)

  (* what the string reader's function answers on d, as a statement about the stream reader's answer
     and the state of the reader afterwards *)
  Definition post {A} (x : rres A) (a : sr A) (m' : mem) : Prop :=
    match x with
    | ROk v r => a = QOk v /\ m' = st r /\ Suffix r
    | RNot r => a = QNot /\ m' = st r /\ Suffix r
    | RErr e => a = QErr e
    | RFuel => a = QFuel
    end.

  Lemma wp_handle_mismatch {A} fuel o ty d : Suffix d -> (length d < fuel)%nat ->
    wp (@mps_handle_mismatch A fuel o ty) (st d) (post (handle_mismatch o (inl ty) d)).
  Proof.
    intros HS Hf. unfold mps_handle_mismatch, handle_mismatch.
    destruct (negb (vtype_eqb ty TNil) && match o_mismatch o with PThrow => true | PSkip => false end);
      [reflexivity|].
    apply wp_pbind. rewrite <- (skip_value_fuel fuel d Hf).
    eapply wp_mono; [|apply wp_skip_impl; assumption].
    intros a m' Ha. destruct (skip_impl fuel d) as [r|e|]; cbn [spost] in Ha; cbn [wp post].
    - destruct Ha as [-> [-> HSr]]. auto.
    - subst a. reflexivity.
    - subst a. reflexivity.
  Qed.

  Lemma post_convert_int o t z r : Suffix r -> post (convert_int o t z r) (mps_convert_int o t z) (st r).
  Proof.
    intros HS. unfold convert_int, mps_convert_int. destruct (in_range t z); [cbn; auto|].
    destruct (o_overflow o); cbn; auto.
  Qed.

  Theorem wp_read_int fuel o t d : Suffix d -> (length d < fuel)%nat ->
    wp (mps_read_int fuel o t) (st d) (post (read_int o t d)).
  Proof.
    intros HS Hf. unfold mps_read_int, read_int. apply wp_peek; [exact HS|].
    destruct d as [|b r1]; cbn [hd_error]; [reflexivity|]. cbv beta zeta.
    pose proof (suffix_tl _ _ HS) as HS1.
    assert (Fixed : forall (k : N) (signed : bool), (k = 1 \/ k = 2 \/ k = 4 \/ k = 8) ->
      wp (goto_next (qbind (mps_get_value k)
            (fun v => Ret (mps_convert_int o t (if signed then to_signed (8 * k) v else Z.of_N v)))))
         (st (b :: r1))
         (post match get_value k r1 with
               | None => RErr EParse
               | Some (v, r2) => convert_int o t (if signed then to_signed (8 * k) v else Z.of_N v) r2
               end)).
    { intros k signed Hk. apply wp_goto; [exact HS|]. cbn [tl]. apply wp_qbind.
      apply wp_get_value; [exact HS1 | exact Hk | |].
      - intros v r2 Eg HS2. rewrite Eg. cbn [wp]. apply post_convert_int. exact HS2.
      - intros Eg. rewrite Eg. reflexivity. }
    assert (One : forall z, wp (goto_next (Ret (mps_convert_int o t z))) (st (b :: r1)) (post (convert_int o t z r1))).
    { intros z. apply wp_goto; [exact HS|]. cbn [tl wp]. apply post_convert_int. exact HS1. }
    destruct ((b <? 0x80) || (0xE0 <=? b)); [apply One|].
    repeat match goal with
    | |- context [if (b =? ?c) then _ else _] =>
        destruct (b =? c);
        [first [apply One
               | apply (Fixed 1 false); lia | apply (Fixed 2 false); lia | apply (Fixed 4 false); lia
               | apply (Fixed 8 false); lia | apply (Fixed 1 true); lia | apply (Fixed 2 true); lia
               | apply (Fixed 4 true); lia | apply (Fixed 8 true); lia]|]
    end.
    apply wp_handle_mismatch; assumption.
  Qed.

  Theorem wp_read_nil fuel o d : Suffix d -> (length d < fuel)%nat ->
    wp (mps_read_nil fuel o) (st d) (post (read_nil o d)).
  Proof.
    intros HS Hf. unfold mps_read_nil, read_nil. apply wp_peek; [exact HS|].
    destruct d as [|b r1]; cbn [hd_error]; [reflexivity|].
    destruct (b =? 0xC0).
    - apply wp_goto; [exact HS|]. cbn [tl wp post]. split; [reflexivity|]. split; [reflexivity|].
      eapply suffix_tl; exact HS.
    - apply wp_handle_mismatch; assumption.
  Qed.


  (* ---------------------------------------------------------------- ReadExtFamilyType / ReadValueType *)

  Lemma get_value_nth k d v r c r' : get_value k d = Some (v, r) -> r = c :: r' -> nth_byte d k = Some c.
  Proof.
    unfold get_value. destruct (take k d) as [[s r0]|] eqn:Et; [|discriminate].
    intros E Er. injection E as _ <-. apply take_some in Et. destruct Et as [-> Ls].
    unfold nth_byte. rewrite nth_error_app2 by lia. replace (N.to_nat k - length s)%nat with 0%nat by lia.
    rewrite Er. reflexivity.
  Qed.

  Lemma wp_read_ext_family d (Q : sr (option extinfo) -> mem -> Prop) : Suffix d ->
    (forall x, read_ext_family d = inl x -> Q (QOk x) (st d)) ->
    (forall e, read_ext_family d = inr e -> forall m', Q (QErr e) m') ->
    wp mps_read_ext_family (st d) Q.
  Proof.
    intros HS H1 H2. unfold mps_read_ext_family. apply wp_peek; [exact HS|].
    destruct d as [|b r1]; cbn [hd_error].
    { cbn [wp]. apply H2. reflexivity. }
    pose proof (suffix_tl _ _ HS) as HS1.
    pose proof (byte_meta_ok b) as [Mext [Mdata [Mfix MExt]]].
    unfold read_ext_family in H1, H2. cbv zeta in *.
    set (m := byte_meta b) in *.
    destruct (vtype_eqb (m_ty m) TExt) eqn:Ety; cbn [negb] in *.
    2:{ cbn [wp]. apply H1. reflexivity. }
    destruct (MExt eq_refl) as [Md Mcase]. rewrite Md in *.
    apply wp_get_pos. apply wp_goto; [exact HS|]. cbn [tl].
    destruct Mcase as [[Mf Me]|[Mf Me]].
    - (* fixext *)
      replace (m_fixed m =? 0) with false in * by (symmetry; apply N.eqb_neq; exact Mf). cbn [negb] in *.
      apply wp_read_byte; [exact HS1|].
      destruct r1 as [|c r2]; cbn [hd_error tl].
      + cbn [wp]. apply (H2 EParse). reflexivity.
      + apply wp_set_back; [exact HS|]. cbn [wp]. apply H1.
        cbn [length]. replace (1 + 1 <=? N.of_nat (S (S (length r2)))) with true by (symmetry; lia).
        reflexivity.
    - (* ext 8/16/32 *)
      replace (m_fixed m =? 0) with true in * by (symmetry; apply N.eqb_eq; exact Mf). cbn [negb] in *.
      replace (m_ext m =? 0) with false in * by (symmetry; apply N.eqb_neq; exact Me). cbn [negb] in *.
      apply wp_qbind. apply wp_read_ext_size; [exact HS1 | lia | |].
      + intros sz r2 Eg HS2. rewrite Eg in *.
        pose proof (get_value_suffix_len _ _ _ _ Eg) as Ll.
        apply wp_read_byte; [exact HS2|].
        destruct r2 as [|c r3]; cbn [hd_error tl].
        * cbn [wp]. apply (H2 EParse). cbn [length] in *.
          replace (1 + 1 + m_ext m <=? N.of_nat (S (length r1))) with false by (symmetry; lia).
          reflexivity.
        * apply wp_set_back; [exact HS|]. cbn [wp]. apply H1. cbn [length] in *.
          replace (1 + 1 + m_ext m <=? N.of_nat (S (length r1))) with true by (symmetry; lia).
          rewrite nth_byte_cons. rewrite (get_value_nth _ _ _ _ c r3 Eg eq_refl). reflexivity.
      + intros Eg. rewrite Eg in *. apply (H2 EParse). reflexivity.
  Qed.

  Lemma wp_read_value_type d (Q : sr vtype -> mem -> Prop) : Suffix d ->
    (forall t, read_value_type d = inl t -> Q (QOk t) (st d)) ->
    (forall e, read_value_type d = inr e -> forall m', Q (QErr e) m') ->
    wp mps_read_value_type (st d) Q.
  Proof.
    intros HS H1 H2. unfold mps_read_value_type. apply wp_peek; [exact HS|].
    destruct d as [|b r1]; cbn [hd_error].
    { cbn [wp]. apply H2. reflexivity. }
    unfold read_value_type in H1, H2. cbv zeta in *.
    destruct (vtype_eqb (m_ty (byte_meta b)) TExt).
    - apply wp_qbind. apply wp_read_ext_family; [exact HS| |].
      + intros x Ex. rewrite Ex in *. cbn [wp]. destruct x as [i|]; apply H1; reflexivity.
      + intros e Ee m'. rewrite Ee in *. apply H2. reflexivity.
    - cbn [wp]. apply H1. reflexivity.
  Qed.

  Lemma wp_mismatch_via_type {A} fuel o d : Suffix d -> (length d < fuel)%nat ->
    wp (@mps_mismatch_via_type A fuel o) (st d) (post (mismatch_via_type o d)).
  Proof.
    intros HS Hf. unfold mps_mismatch_via_type, mismatch_via_type. apply wp_pbind.
    apply wp_read_value_type; [exact HS| |].
    - intros t Et. rewrite Et. apply wp_handle_mismatch; assumption.
    - intros e Ee m'. rewrite Ee. reflexivity.
  Qed.


  (* ---------------------------------------------------------------- float / double *)

  Lemma wp_get_value_post {B} k d (f : N -> sr B) (g : N -> list N -> rres B) : Suffix d ->
    (k = 1 \/ k = 2 \/ k = 4 \/ k = 8) ->
    (forall v r, Suffix r -> post (g v r) (f v) (st r)) ->
    wp (qbind (mps_get_value k) (fun v => Ret (f v))) (st d)
       (post match get_value k d with Some (v, r) => g v r | None => RErr EParse end).
  Proof.
    intros HS Hk Hfg. apply wp_qbind. apply wp_get_value; try assumption.
    - intros v r Eg HSr. rewrite Eg. cbn [wp]. apply Hfg. exact HSr.
    - intros Eg. rewrite Eg. reflexivity.
  Qed.

  Lemma wp_get_value_ok k d : Suffix d -> (k = 1 \/ k = 2 \/ k = 4 \/ k = 8) ->
    wp (mps_get_value k) (st d)
       (post match get_value k d with Some (v, r) => ROk v r | None => RErr EParse end).
  Proof.
    intros HS Hk. apply wp_get_value; try assumption.
    - intros v r Eg HSr. rewrite Eg. cbn [post]. auto.
    - intros Eg. rewrite Eg. reflexivity.
  Qed.

  Theorem wp_read_f32 narrow fuel o d : Suffix d -> (length d < fuel)%nat ->
    wp (mps_read_f32 narrow fuel o) (st d) (post (read_f32 narrow o d)).
  Proof.
    intros HS Hf. unfold mps_read_f32, read_f32. apply wp_peek; [exact HS|].
    destruct d as [|b r1]; cbn [hd_error]; [reflexivity|].
    pose proof (suffix_tl _ _ HS) as HS1.
    destruct (b =? 0xCA).
    { apply wp_goto; [exact HS|]. cbn [tl]. apply wp_get_value_ok; [exact HS1 | lia]. }
    destruct (b =? 0xCB).
    { apply wp_goto; [exact HS|]. cbn [tl].
      apply (wp_get_value_post 8 r1
               (fun v => match narrow v with
                         | Some f => QOk f
                         | None => match o_overflow o with PThrow => QErr EOverflow | PSkip => QNot end
                         end)
               (fun v r2 => match narrow v with
                            | Some f => ROk f r2
                            | None => match o_overflow o with PThrow => RErr EOverflow | PSkip => RNot r2 end
                            end)); [exact HS1 | lia |].
      intros v r HSr. destruct (narrow v); [cbn; auto|]. destruct (o_overflow o); cbn; auto. }
    apply wp_mismatch_via_type; assumption.
  Qed.

  Theorem wp_read_f64 widen fuel o d : Suffix d -> (length d < fuel)%nat ->
    wp (mps_read_f64 widen fuel o) (st d) (post (read_f64 widen o d)).
  Proof.
    intros HS Hf. unfold mps_read_f64, read_f64. apply wp_peek; [exact HS|].
    destruct d as [|b r1]; cbn [hd_error]; [reflexivity|].
    pose proof (suffix_tl _ _ HS) as HS1.
    destruct (b =? 0xCB).
    { apply wp_goto; [exact HS|]. cbn [tl]. apply wp_get_value_ok; [exact HS1 | lia]. }
    destruct (b =? 0xCA).
    { apply wp_goto; [exact HS|]. cbn [tl].
      apply (wp_get_value_post 4 r1 (fun v => QOk (widen v)) (fun v r2 => ROk (widen v) r2)); [exact HS1 | lia |].
      intros v r HSr. cbn. auto. }
    apply wp_mismatch_via_type; assumption.
  Qed.

  (* ---------------------------------------------------------------- strings through ReadByChunks *)

  Lemma wp_read_chunks (Q : sr (list N) -> mem -> Prop) : forall fuel n acc d,
    Suffix d -> sizet n -> (length d < fuel)%nat ->
    (forall s r, take n d = Some (s, r) -> Suffix r -> Q (QOk (acc ++ s)) (st r)) ->
    (take n d = None -> forall m', Q (QErr EParse) m') ->
    wp (mps_read_chunks fuel n acc) (st d) Q.
  Proof.
    induction fuel as [|fuel IH]; intros n acc d HS Hn Hf H1 H2; [lia|].
    cbn [mps_read_chunks]. destruct (N.eqb_spec n 0) as [->|Hn0].
    { cbn [wp]. specialize (H1 [] d (take_0 d) HS). rewrite app_nil_r in H1. exact H1. }
    apply wp_chunks; [exact HS | exact Hn |].
    intros l r Ed Hl Hempty HSr.
    destruct l as [|x l].
    - cbn [wp]. apply H2. destruct (Hempty eq_refl) as [E|E]; [contradiction|]. rewrite E. unfold take. cbn [length].
      replace (n <=? N.of_nat 0) with false by (symmetry; lia). reflexivity.
    - set (l1 := x :: l) in *.
      assert (Ll : (0 < length l1)%nat) by (subst l1; cbn [length]; lia).
      assert (Et : take (N.of_nat (length l1)) d = Some (l1, r)) by (rewrite Ed; apply take_app).
      pose proof (take_add _ (n - N.of_nat (length l1)) _ _ _ Et) as Hadd.
      replace (N.of_nat (length l1) + (n - N.of_nat (length l1))) with n in Hadd by lia.
      change (wp (mps_read_chunks fuel (n - N.of_nat (length l1)) (acc ++ l1)) (st r) Q).
      apply IH.
      + exact HSr.
      + unfold sizet in *. lia.
      + rewrite Ed, app_length in Hf. lia.
      + intros s r' Es HSr'. rewrite Es in Hadd. rewrite <- app_assoc. apply (H1 _ _ Hadd HSr').
      + intros Es m'. rewrite Es in Hadd. apply H2. exact Hadd.
  Qed.

  Lemma land_small b c : N.land b c <= c.
  Proof.
    destruct (N.eq_dec c 0) as [->|Hc]; [rewrite N.land_0_r; lia|].
    assert (H : N.land b c < 2 ^ N.size c).
    { rewrite N.land_comm. apply land_lt_pow2. apply N.size_gt. }
    (* finer: every bit of the conjunction is a bit of c *)
    apply N.ldiff_le. apply N.bits_inj. intros i. rewrite N.ldiff_spec, N.land_spec, N.bits_0.
    destruct (N.testbit b i), (N.testbit c i); reflexivity.
  Qed.

  Theorem wp_read_str fuel o d : Suffix d -> (length d < fuel)%nat ->
    wp (mps_read_str fuel o) (st d) (post (read_str o d)).
  Proof.
    intros HS Hf. unfold mps_read_str, read_str. apply wp_peek; [exact HS|].
    destruct d as [|b r1]; cbn [hd_error]; [reflexivity|]. cbv beta zeta.
    pose proof (suffix_tl _ _ HS) as HS1. cbn [length] in Hf.
    (* the body: the length is known, the bytes come through the ReadByChunks loop *)
    assert (Body : forall n r2, Suffix r2 -> (length r2 <= length r1)%nat -> n < 0x100000000 ->
      wp (mps_read_chunks fuel n []) (st r2)
         (post match take n r2 with Some (s, r3) => ROk s r3 | None => RErr EParse end)).
    { intros n r2 HS2 Hl2 Hn. apply wp_read_chunks; [exact HS2 | unfold sizet; lia | lia | |].
      - intros s r3 Et HS3. rewrite Et. cbn. auto.
      - intros Et m'. rewrite Et. reflexivity. }
    assert (Len : forall k, (k = 1 \/ k = 2 \/ k = 4) ->
      wp (goto_next (qbind (mps_get_value k) (fun n => mps_read_chunks fuel n []))) (st (b :: r1))
         (post match get_value k r1 with
               | None => RErr EParse
               | Some (n, r2) => match take n r2 with Some (s, r3) => ROk s r3 | None => RErr EParse end
               end)).
    { intros k Hk. apply wp_goto; [exact HS|]. cbn [tl]. apply wp_qbind.
      apply wp_get_value; [exact HS1 | lia | |].
      - intros n r2 Eg HS2. rewrite Eg.
        assert (Hk4 : k <= 4) by lia.
        pose proof (get_value_bound _ _ _ _ (suffix_bytes _ HS1) Hk4 Eg) as Hn.
        pose proof (get_value_suffix_len _ _ _ _ Eg) as Ll.
        apply Body; [exact HS2 | lia | exact Hn].
      - intros Eg. rewrite Eg. reflexivity. }
    destruct (N.land b 0xE0 =? 0xA0).
    { apply wp_goto; [exact HS|]. cbn [tl]. apply wp_qbind. cbn [wp].
      apply Body; [exact HS1 | lia |]. pose proof (land_small b 0x1F). lia. }
    destruct (b =? 0xD9); [apply Len; lia|].
    destruct (b =? 0xDA); [apply Len; lia|].
    destruct (b =? 0xDB); [apply Len; lia|].
    apply wp_mismatch_via_type; [exact HS | cbn [length]; lia].
  Qed.

  (* ---------------------------------------------------------------- sizes, binary *)

  Lemma wp_read_size fuel o fixtag c16 c32 d : Suffix d -> (length d < fuel)%nat ->
    wp (mps_read_size fuel o fixtag c16 c32) (st d) (post (read_size o 0xF0 fixtag c16 c32 d)).
  Proof.
    intros HS Hf. unfold mps_read_size, read_size. apply wp_peek; [exact HS|].
    destruct d as [|b r1]; cbn [hd_error]; [reflexivity|].
    pose proof (suffix_tl _ _ HS) as HS1.
    destruct (N.land b 0xF0 =? fixtag).
    { apply wp_goto; [exact HS|]. cbn [tl wp post]. auto. }
    destruct (b =? c16).
    { apply wp_goto; [exact HS|]. cbn [tl]. apply wp_get_value_ok; [exact HS1 | lia]. }
    destruct (b =? c32).
    { apply wp_goto; [exact HS|]. cbn [tl]. apply wp_get_value_ok; [exact HS1 | lia]. }
    apply wp_mismatch_via_type; assumption.
  Qed.

  Theorem wp_read_array_size fuel o d : Suffix d -> (length d < fuel)%nat ->
    wp (mps_read_array_size fuel o) (st d) (post (read_array_size o d)).
  Proof. apply wp_read_size. Qed.

  Theorem wp_read_map_size fuel o d : Suffix d -> (length d < fuel)%nat ->
    wp (mps_read_map_size fuel o) (st d) (post (read_map_size o d)).
  Proof. apply wp_read_size. Qed.

  Theorem wp_read_bin_size fuel o d : Suffix d -> (length d < fuel)%nat ->
    wp (mps_read_bin_size fuel o) (st d) (post (read_bin_size o d)).
  Proof.
    intros HS Hf. unfold mps_read_bin_size, read_bin_size. apply wp_peek; [exact HS|].
    destruct d as [|b r1]; cbn [hd_error]; [reflexivity|].
    pose proof (suffix_tl _ _ HS) as HS1.
    destruct (b =? 0xC4).
    { apply wp_goto; [exact HS|]. cbn [tl]. apply wp_get_value_ok; [exact HS1 | lia]. }
    destruct (b =? 0xC5).
    { apply wp_goto; [exact HS|]. cbn [tl]. apply wp_get_value_ok; [exact HS1 | lia]. }
    destruct (b =? 0xC6).
    { apply wp_goto; [exact HS|]. cbn [tl]. apply wp_get_value_ok; [exact HS1 | lia]. }
    apply wp_mismatch_via_type; assumption.
  Qed.

  Theorem wp_read_binary d : Suffix d -> wp mps_read_binary (st d) (post (read_binary d)).
  Proof.
    intros HS. unfold mps_read_binary, read_binary. apply wp_read_byte; [exact HS|].
    destruct d as [|b r]; cbn [hd_error tl wp post]; [reflexivity|].
    split; [reflexivity|]. split; [reflexivity|]. eapply suffix_tl; exact HS.
  Qed.


  (* ---------------------------------------------------------------- timestamps *)

  Lemma ext_family_off d x : read_ext_family d = inl (Some x) ->
    x_off x < 0x400000000 /\ exists s r, take (x_off x) d = Some (s, r).
  Proof.
    intros H. unfold read_ext_family in H. destruct d as [|b r1]; [discriminate|]. cbv zeta in H.
    pose proof (byte_meta_ok b) as [Mext [Mdata [Mfix _]]].
    set (m := byte_meta b) in *.
    destruct (negb (vtype_eqb (m_ty m) TExt)); [discriminate|].
    destruct (negb (m_fixed m =? 0)).
    - destruct (1 + m_data m <=? N.of_nat (length (b :: r1))) eqn:E; [|discriminate].
      destruct (nth_byte (b :: r1) 1) as [c|]; [|discriminate].
      assert (Hx : x = mkExt (if c =? 0xFF then TTimestamp else TExt) (1 + m_data m) (m_fixed m) c) by congruence.
      rewrite Hx. cbn [x_off]. split; [lia|]. unfold take. rewrite E. eauto.
    - destruct (negb (m_ext m =? 0)); [|discriminate].
      destruct (get_value (m_ext m) r1) as [[sz r2]|]; [|discriminate].
      destruct (1 + m_data m + m_ext m <=? N.of_nat (length (b :: r1))) eqn:E; [|discriminate].
      destruct (nth_byte (b :: r1) (1 + m_ext m)) as [c|]; [|discriminate].
      assert (Hx : x = mkExt (if c =? 0xFF then TTimestamp else TExt) (1 + m_data m + m_ext m) sz c) by congruence.
      rewrite Hx. cbn [x_off]. split; [lia|]. unfold take. rewrite E. eauto.
  Qed.

  Theorem wp_read_ts fuel o d : Suffix d -> (length d < fuel)%nat ->
    wp (mps_read_ts fuel o) (st d) (post (read_ts o d)).
  Proof.
    intros HS Hf. unfold mps_read_ts, read_ts. apply wp_pbind.
    apply wp_read_ext_family; [exact HS| |].
    2:{ intros e Ee m'. rewrite Ee. reflexivity. }
    intros x Ex. rewrite Ex. destruct x as [x|]; [|apply wp_mismatch_via_type; assumption].
    destruct (x_code x =? 0xFF); [|apply wp_mismatch_via_type; assumption].
    destruct (ext_family_off d (x) Ex) as [Hoff [s0 [r0 Et0]]].
    apply wp_advance; [exact HS | exact Hoff | |].
    2:{ intros Et. congruence. }
    intros s r1 Et HS1. rewrite Et.
    destruct (x_size x =? 4).
    { apply (wp_get_value_post 4 r1 (fun v => QOk (Z.of_N v, 0%Z)) (fun v r2 => ROk (Z.of_N v, 0%Z) r2));
        [exact HS1 | lia |]. intros v r HSr. cbn. auto. }
    destruct (x_size x =? 8).
    { apply (wp_get_value_post 8 r1
               (fun v => QOk (Z.of_N (N.land v 0x00000003FFFFFFFF), to_signed 32 (N.shiftr v 34 mod 2 ^ 32)))
               (fun v r2 => ROk (Z.of_N (N.land v 0x00000003FFFFFFFF), to_signed 32 (N.shiftr v 34 mod 2 ^ 32)) r2));
        [exact HS1 | lia |]. intros v r HSr. cbn [post]. auto. }
    destruct (x_size x =? 12); [|reflexivity].
    apply wp_qbind. apply wp_get_value; [exact HS1 | lia | |].
    - intros sec r2 Eg HS2. rewrite Eg.
      apply (wp_get_value_post 4 r2 (fun n => QOk (to_signed 64 sec, to_signed 32 n))
               (fun n r3 => ROk (to_signed 64 sec, to_signed 32 n) r3)); [exact HS2 | lia |].
      intros v r HSr. cbn [post]. auto.
    - intros Eg. rewrite Eg. reflexivity.
  Qed.

  Theorem wp_read_value_type_post d : Suffix d ->
    wp mps_read_value_type (st d)
       (post match read_value_type d with inl t => ROk t d | inr e => RErr e end).
  Proof.
    intros HS. apply wp_read_value_type; [exact HS| |].
    - intros t Et. rewrite Et. cbn [post]. auto.
    - intros e Ee m'. rewrite Ee. reflexivity.
  Qed.

  Theorem wp_skip_value fuel d : Suffix d -> (length d < fuel)%nat ->
    wp (mps_skip_value fuel) (st d) (spost (skip_value d)).
  Proof. intros HS Hf. rewrite <- (skip_value_fuel fuel d Hf). apply wp_skip_impl; assumption. Qed.


  (* ---------------------------------------------------------------- one operation, sequences *)

  Lemma wp_pmap {A B} (f : A -> B) (p : prog (sr A)) m (x : rres A) :
    wp p m (post x) -> wp (pmap f p) m (post (rres_map f x)).
  Proof.
    intros H. unfold pmap. apply wp_pbind. eapply wp_mono; [|exact H].
    intros a m' Ha. cbn [wp]. destruct x as [v r|r|e|]; cbn [post rres_map sr_map] in *.
    - destruct Ha as [-> [-> HSr]]. auto.
    - destruct Ha as [-> [-> HSr]]. auto.
    - subst a. reflexivity.
    - subst a. reflexivity.
  Qed.

  Theorem wp_op narrow widen fuel o op d : Suffix d -> (length d < fuel)%nat -> rop_ok data op = true ->
    wp (mps_op narrow widen fuel o op) (st d) (post (str_op narrow widen data o op d)).
  Proof.
    intros HS Hf Hok. destruct op; cbn [mps_op str_op].
    - apply wp_pmap. apply wp_read_int; assumption.
    - apply wp_pmap. apply wp_read_nil; assumption.
    - apply wp_pmap. apply wp_read_f32; assumption.
    - apply wp_pmap. apply wp_read_f64; assumption.
    - apply wp_pmap. apply wp_read_str; assumption.
    - apply wp_pmap. apply wp_read_array_size; assumption.
    - apply wp_pmap. apply wp_read_map_size; assumption.
    - apply wp_pmap. apply wp_read_bin_size; assumption.
    - apply wp_pmap. apply wp_read_binary; assumption.
    - apply wp_pmap. apply wp_read_ts; assumption.
    - pose proof (wp_pmap VType _ _ _ (wp_read_value_type_post d HS)) as H.
      destruct (read_value_type d); exact H.
    - unfold pmap. apply wp_pbind. eapply wp_mono; [|apply wp_skip_value; assumption].
      intros a m' Ha. cbn [wp]. destruct (skip_value d) as [r|e|]; cbn [spost post sr_map] in *.
      + destruct Ha as [-> [-> HSr]]. auto.
      + subst a. reflexivity.
      + subst a. reflexivity.
    - cbn [rop_ok] in Hok. rewrite Hok. apply N.leb_le in Hok. apply wp_set_pos.
      + intros _. cbn [wp post]. split; [reflexivity|]. split; [reflexivity|]. apply suffix_skipn_data.
      + intros Hp. lia.
    - apply wp_is_end; [exact HS|]. cbn [wp post]. auto.
  Qed.

  Theorem wp_seq narrow widen fuel o : (length data < fuel)%nat ->
    forall ops d, Suffix d -> forallb (rop_ok data) ops = true ->
    wp (mps_seq narrow widen fuel o ops) (st d) (fun a _ => a = str_seq narrow widen data o ops d).
  Proof.
    intros Hf. induction ops as [|op tl IH]; intros d HS Hok; [reflexivity|].
    cbn [forallb] in Hok. apply andb_true_iff in Hok. destruct Hok as [Hok1 Hok2].
    cbn [mps_seq str_seq]. apply wp_pbind.
    pose proof (suffix_len d HS) as Hl.
    eapply wp_mono; [|apply wp_op; [exact HS | lia | exact Hok1]].
    intros a m' Ha. destruct (str_op narrow widen data o op d) as [v r|r|e|]; cbn [post] in Ha.
    - destruct Ha as [-> [-> HSr]]. apply wp_get_pos. apply wp_pbind.
      eapply wp_mono; [|apply IH; assumption].
      intros rest m'' ->. reflexivity.
    - destruct Ha as [-> [-> HSr]]. apply wp_get_pos. apply wp_pbind.
      eapply wp_mono; [|apply IH; assumption].
      intros rest m'' ->. reflexivity.
    - subst a. reflexivity.
    - subst a. reflexivity.
  Qed.


  (* ---------------------------------------------------------------- adaptive clients *)

  Theorem wp_client narrow widen fuel o : (length data < fuel)%nat ->
    forall (A : Type) (c : client A) t d, Suffix d -> client_seeks_ok narrow widen data o c d = true ->
    wp (mps_client narrow widen fuel o c t) (st d) (fun a _ => a = str_client narrow widen data o c t d).
  Proof.
    intros Hf A. induction c as [a|op k IH]; intros t d HS Hok; [reflexivity|].
    cbn [client_seeks_ok] in Hok. apply andb_true_iff in Hok. destruct Hok as [Hok1 Hok2].
    cbn [mps_client str_client]. apply wp_pbind.
    pose proof (suffix_len d HS) as Hl.
    eapply wp_mono; [|apply wp_op; [exact HS | lia | exact Hok1]].
    intros a m' Ha. destruct (str_op narrow widen data o op d) as [v r|r|e|]; cbn [post] in Ha.
    - destruct Ha as [-> [-> HSr]]. apply wp_get_pos. cbv zeta. apply IH; assumption.
    - destruct Ha as [-> [-> HSr]]. apply wp_get_pos. cbv zeta. apply IH; assumption.
    - subst a. reflexivity.
    - subst a. reflexivity.
  Qed.

  (* ---------------------------------------------------------------- from the reference to any reader it simulates *)

  Section AnyReader.
    Context {S : Type}.
    Variable step : S -> bop -> outcome (bres * S).
    Variable R : S -> mem -> Prop.
    Hypothesis Hsim : forall s m op, R s m -> op_sizet op ->
      exists r s' m', step s op = Ok (r, s') /\ mem_step K data m op r = Some m' /\ R s' m'.

    Lemma interp_wp {A} (p : prog A) : forall s m Q, R s m -> wp p m Q ->
      exists a s' m', interp step p s = Ok (a, s') /\ Q a m' /\ R s' m'.
    Proof.
      induction p as [a| |op k IH]; intros s m Q HR H; cbn [wp interp] in *.
      - exists a, s, m. auto.
      - contradiction.
      - destruct H as [Hw Hk]. destruct (Hsim s m op HR Hw) as [r [s' [m' [E1 [E2 R']]]]].
        rewrite E1. apply (IH r s' m' Q R'). apply Hk. exact E2.
    Qed.
  End AnyReader.

  (* the in-memory reader as a function: the reference accepts its answers *)
  Definition MemRel (m1 m2 : mem) : Prop :=
    m_failed m2 = false -> m1 = m2 /\ (m_pos m1 <= length data)%nat.

  Lemma memr_sim m1 m2 op : MemRel m1 m2 -> op_sizet op ->
    exists r m1' m2', memr_step K data m1 op = Ok (r, m1') /\ mem_step K data m2 op r = Some m2' /\ MemRel m1' m2'.
  Proof.
    intros HR Hw. unfold memr_step.
    match goal with |- context [Ok ?x] => exists (fst x), (snd x) end.
    destruct (m_failed m2) eqn:F.
    { exists m2. split; [destruct op; try reflexivity; match goal with |- context [if ?c then _ else _] => destruct c end; reflexivity|].
      split; [unfold mem_step; rewrite F; reflexivity|]. unfold MemRel. rewrite F. discriminate. }
    destruct (HR F) as [-> Hp]. clear HR.
    unfold mem_step. rewrite F. destruct m2 as [pos fl]. cbn [m_failed m_pos] in *. subst fl.
    destruct op; cbn [fst snd].
    - eexists. split; [reflexivity|]. rewrite Bool.eqb_reflx. split; [reflexivity|]. intros _. auto.
    - eexists. split; [reflexivity|]. split; [reflexivity|]. intros _. auto.
    - eexists. split; [reflexivity|]. rewrite Nat.eqb_refl. split; [reflexivity|]. intros _. auto.
    - destruct (p <=? N.of_nat (length data)) eqn:Ep; cbn [fst snd]; eexists; (split; [reflexivity|]); (split; [reflexivity|]).
      + intros _. split; [reflexivity|]. cbn [m_pos]. apply N.leb_le in Ep. lia.
      + cbn [MemRel m_failed]. unfold MemRel. cbn [m_failed]. discriminate.
    - eexists. split; [reflexivity|]. rewrite opt_eqb_refl. split; [reflexivity|]. intros _. auto.
    - eexists. split; [reflexivity|]. split; [reflexivity|]. intros _. split; [reflexivity|]. cbn [m_pos].
      destruct (pos <? length data)%nat eqn:E; [apply Nat.ltb_lt in E; lia | lia].
    - eexists. split; [reflexivity|]. rewrite opt_eqb_refl. split; [reflexivity|]. intros _. split; [reflexivity|].
      cbn [m_pos]. destruct (nth_error data pos) eqn:E; [|lia].
      assert (pos < length data)%nat by (apply nth_error_Some; congruence). lia.
    - eexists. split; [reflexivity|]. rewrite list_eqb_refl. split; [reflexivity|]. intros _. split; [reflexivity|].
      cbn [m_pos]. destruct ((n <=? N.of_nat K) && (N.of_nat pos + n <=? N.of_nat (length data))) eqn:E.
      + rewrite slice_length. apply andb_true_iff in E. destruct E as [_ E]. apply N.leb_le in E. lia.
      + cbn [length]. lia.
    - set (k := N.to_nat (N.min n (N.of_nat (length data - pos)))).
      assert (Lk : length (slice data pos k) = k) by (rewrite slice_length; subst k; lia).
      eexists. split; [reflexivity|]. rewrite Lk, list_eqb_refl.
      replace (N.of_nat k <=? n) with true by (symmetry; apply N.leb_le; subst k; lia).
      replace (negb (k =? 0)%nat || (n =? 0) || (pos =? length data)%nat) with true.
      2:{ symmetry. destruct (N.eqb_spec n 0) as [->|Hn]; [rewrite orb_true_r; reflexivity|].
          destruct (Nat.eqb_spec pos (length data)) as [->|Hq]; [rewrite orb_true_r; reflexivity|].
          replace (k =? 0)%nat with false by (symmetry; apply Nat.eqb_neq; subst k; lia). reflexivity. }
      cbn [andb]. split; [reflexivity|]. intros _. split; [reflexivity|]. cbn [m_pos]. subst k. lia.
  Qed.

End Wp.


(* ================================================================== closed statements *)

Definition bytes_ok (data : list N) : Prop := Forall (fun b => b < 256) data.

(* the chunked reader on a seekable stream is a reader the reference simulates *)
Definition BsrRel (K : nat) (data : list N) (s : bsr) (m : mem) : Prop :=
  Rel K data s m /\ is_seekable (b_is s) = true.

Lemma bsr_sim K data : (0 < K)%nat -> fits_streamoff data -> forall s m op, BsrRel K data s m -> op_sizet op ->
  exists r s' m', bsr_step K s op = Ok (r, s') /\ mem_step K data m op r = Some m' /\ BsrRel K data s' m'.
Proof.
  intros HK Hl s m op [HR Hs] Hw.
  destruct (step_refines K HK data Hl s m op HR Hw (fun _ => or_introl Hs)) as [r [s' [m' [E1 [E2 [R' Sk]]]]]].
  exists r, s', m'. split; [exact E1|]. split; [exact E2|]. split; [exact R' | congruence].
Qed.

Lemma st_data data : st data data = mem_start.
Proof. unfold st, mem_start. rewrite Nat.sub_diag. reflexivity. Qed.


(* ---- the two at-throw positions compared ---- *)

(* the value that starts with byte b and goes on with r1 has a complete header but its own bytes are cut short,
   and at least one byte follows b *)
Definition cut_after (b : N) (r1 : list N) : bool :=
  let m := byte_meta b in
  negb (vtype_eqb (m_ty m) TUnknown) && match r1 with [] => false | _ => true end &&
  match (if negb (m_fixed m =? 0) then Some (m_fixed m, r1)
         else if negb (m_ext m =? 0) then get_value (m_ext m) r1
         else Some (0, r1)) with
  | None => false
  | Some (ext0, r2) =>
    match take (if is_sized (m_ty m) then m_data m + ext0 else m_data m) r2 with
    | None => true
    | Some _ => false
    end
  end.

Lemma byte_meta_lenfield b : let m := byte_meta b in
  m_fixed m = 0 -> m_ext m <> 0 -> is_sized (m_ty m) = false -> m_data m = 0.
Proof.
  unfold byte_meta. split_first_byte b.
  all: cbn [m_ty m_fixed m_data m_ext is_sized]; intros; try reflexivity; try discriminate; try lia.
Qed.

(* same outcome; at a throw the stream reader stands where the string reader stands, or — the value's own
   bytes being cut short — at the end of the data *)
Definition at_rel (d : list N) (x y : ares) : Prop :=
  match x, y with
  | AOk r, AOk r' => r = r'
  | AErr e a, AErr e' a' =>
      e = e' /\ (a = a' \/ (a = [] /\ exists pre b, d = pre ++ b :: a' /\ cut_after b a' = true))
  | AFuel, AFuel => True
  | _, _ => False
  end.

Lemma at_rel_lift p d x y : at_rel d x y -> at_rel (p ++ d) x y.
Proof.
  destruct x as [r|e a|], y as [r'|e' a'|]; cbn [at_rel]; try tauto.
  intros [He [H|[Ha [pre [b [Hd Hc]]]]]]; split; try exact He; [left; exact H|].
  right. split; [exact Ha|]. exists (p ++ pre), b. rewrite Hd, app_assoc. auto.
Qed.

Lemma skip_rep_suffix (step : list N -> sres) :
  (forall d r, step d = SOk r -> exists p, d = p ++ r) ->
  forall g cnt d r, skip_rep step g cnt d = SOk r -> exists p, d = p ++ r.
Proof.
  intros Hs. induction g as [|g IH]; intros cnt d r H; cbn [skip_rep] in H.
  - destruct (cnt =? 0); [injection H as <-; exists []; reflexivity | discriminate].
  - destruct (cnt =? 0); [injection H as <-; exists []; reflexivity|].
    destruct (step d) as [r1| |] eqn:E1; try discriminate.
    apply Hs in E1. destruct E1 as [p1 ->]. apply IH in H. destruct H as [p2 ->].
    exists (p1 ++ p2). rewrite app_assoc. reflexivity.
Qed.

Lemma skip_impl_suffix : forall f d r, skip_impl f d = SOk r -> exists p, d = p ++ r.
Proof.
  induction f as [|f IH]; intros d r H; [discriminate|].
  destruct d as [|b d]; [discriminate|]. rewrite skip_impl_by in H.
  pose proof (skip_rep_suffix (skip_impl f) IH) as Hrep.
  assert (G : exists p, d = p ++ r).
  { destruct (classify b); cbn [skip_by] in H; unfold get_value in H.
    all: repeat match type of H with
         | context [match take ?k ?dd with _ => _ end] =>
             let E := fresh "ET" in destruct (take k dd) as [[? ?]|] eqn:E; [apply take_some in E; destruct E as [E _]|]
         end; try discriminate.
    all: try (injection H as <-; eexists; eassumption).
    all: try (apply Hrep in H; exact H).
    all: try (apply Hrep in H; destruct H as [p2 ->]; subst d; eexists; rewrite app_assoc; reflexivity).
    all: try (injection H as <-; exists []; reflexivity). }
  destruct G as [p ->]. exists (b :: p). reflexivity.
Qed.

Lemma skip_at_impl_suffix f d r : skip_at_impl f d = AOk r -> exists p, d = p ++ r.
Proof.
  intros H. pose proof (skip_at_forget f d) as F. rewrite H in F. cbn [forget] in F.
  eapply skip_impl_suffix. symmetry. exact F.
Qed.

Lemma skip_rep_at_rel (s1 s2 : list N -> ares) :
  (forall d, at_rel d (s1 d) (s2 d)) ->
  (forall d r, s2 d = AOk r -> exists p, d = p ++ r) ->
  forall g cnt d, at_rel d (skip_rep_at s1 g cnt d) (skip_rep_at s2 g cnt d).
Proof.
  intros Hrel Hsuf. induction g as [|g IH]; intros cnt d; cbn [skip_rep_at].
  - destruct (cnt =? 0); cbn [at_rel]; auto.
  - destruct (cnt =? 0); [cbn [at_rel]; reflexivity|].
    pose proof (Hrel d) as H. destruct (s1 d) as [r|e a|], (s2 d) as [r'|e' a'|] eqn:E2; cbn [at_rel] in H; try contradiction.
    + subst r'. destruct (Hsuf d r E2) as [p ->]. apply at_rel_lift. apply IH.
    + exact H.
    + exact I.
Qed.

Theorem skip_at_rel : forall f d, at_rel d (sskip_at_impl f d) (skip_at_impl f d).
Proof.
  induction f as [|f IH]; intros d; [exact I|].
  cbn [sskip_at_impl skip_at_impl]. destruct d as [|b r1]; [cbn [at_rel]; auto|].
  pose proof (byte_meta_lenfield b) as Mlf. cbv zeta in Mlf.
  (* when the stream reader stands at the end and the string reader behind b *)
  assert (Cut : forall e, cut_after b r1 = true \/ r1 = [] ->
            at_rel (b :: r1) (AErr e []) (AErr e r1)).
  { intros e [Hc| ->]; cbn [at_rel]; (split; [reflexivity|]); [right | left; reflexivity].
    split; [reflexivity|]. exists [], b. auto. }
  unfold cut_after in Cut. cbv zeta in Cut.
  set (m := byte_meta b) in *.
  destruct (vtype_eqb (m_ty m) TUnknown); [cbn [at_rel]; auto|]. cbn [negb andb] in Cut.
  assert (Children : forall ext r3 p, b :: r1 = p ++ r3 ->
    at_rel (b :: r1)
      (if ext =? 0 then AOk r3
       else match m_ty m with
            | TMap => skip_rep_at (sskip_at_impl f) f (2 * ext) r3
            | TArr => skip_rep_at (sskip_at_impl f) f ext r3
            | _ => AOk r3
            end)
      (if ext =? 0 then AOk r3
       else match m_ty m with
            | TMap => skip_rep_at (skip_at_impl f) f (2 * ext) r3
            | TArr => skip_rep_at (skip_at_impl f) f ext r3
            | _ => AOk r3
            end)).
  { intros ext r3 p Hp. destruct (ext =? 0); [reflexivity|].
    destruct (m_ty m); try reflexivity; rewrite Hp; apply at_rel_lift;
      apply skip_rep_at_rel; try exact IH; apply skip_at_impl_suffix. }
  assert (Nil : forall (X : list N) (c : bool), (match X with [] => false | _ :: _ => true end && c = true \/ X = []) <->
                  (X = [] \/ c = true)).
  { intros X c. destruct X; cbn [andb]; split; intros [H|H]; try discriminate; auto. }
  destruct (m_fixed m =? 0) eqn:Efix; cbn [negb] in *.
  - destruct (m_ext m =? 0) eqn:Eext; cbn [negb] in *.
    + replace (if is_sized (m_ty m) then m_data m + 0 else m_data m) with (m_data m) in *
        by (destruct (is_sized (m_ty m)); lia).
      destruct (take (m_data m) r1) as [[s r3]|] eqn:Et.
      * apply take_some in Et. destruct Et as [Et _]. apply (Children _ r3 (b :: s)). rewrite Et. reflexivity.
      * apply Cut. apply Nil. right. reflexivity.
    + apply N.eqb_eq in Efix. apply N.eqb_neq in Eext.
      destruct (get_value (m_ext m) r1) as [[v r2]|] eqn:Eg; [|cbn [at_rel]; auto].
      set (size := if is_sized (m_ty m) then m_data m + v else m_data m) in *.
      replace (if is_sized (m_ty m) then m_data m + m_ext m + v else m_data m + m_ext m)
        with (m_ext m + size) by (subst size; destruct (is_sized (m_ty m)); lia).
      rewrite (take_after_header _ size _ _ _ Eg).
      destruct (take size r2) as [[s r3]|] eqn:Et.
      * pose proof Eg as Eg'. unfold get_value in Eg'. destruct (take (m_ext m) r1) as [[lb r2']|] eqn:El; [|discriminate].
        assert (r2' = r2) by congruence. subst r2'.
        apply take_some in Et. destruct Et as [Et _]. apply take_some in El. destruct El as [El _].
        apply (Children _ r3 (b :: lb ++ s)). rewrite El, Et. cbn [app]. rewrite <- app_assoc. reflexivity.
      * apply Cut. apply Nil. right. reflexivity.
  - destruct (take (if is_sized (m_ty m) then m_data m + m_fixed m else m_data m) r1) as [[s r3]|] eqn:Et.
    + apply take_some in Et. destruct Et as [Et _]. apply (Children _ r3 (b :: s)). rewrite Et. reflexivity.
    + apply Cut. apply Nil. right. reflexivity.
Qed.

(* the class, decided from the string reader's answer alone: it threw behind the type byte b of a value whose
   header is complete and whose own bytes are cut short, with at least one byte left *)
Definition payload_cut (f : nat) (d : list N) : bool :=
  match skip_at_impl f d with
  | AErr _ r' =>
    match nth_error d (length d - length r' - 1) with
    | Some b => cut_after b r'
    | None => false
    end
  | _ => false
  end.

Theorem skip_throw_outside f d : payload_cut f d = false -> sskip_at_impl f d = skip_at_impl f d.
Proof.
  intros Hc. pose proof (skip_at_rel f d) as H. unfold payload_cut in Hc.
  destruct (sskip_at_impl f d) as [r|e a|], (skip_at_impl f d) as [r'|e' a'|]; cbn [at_rel] in H; try contradiction.
  - congruence.
  - destruct H as [-> [->|[Ha [pre [b [Hd Hcut]]]]]]; [reflexivity|].
    exfalso. rewrite Hd in Hc at 1 2. rewrite app_length in Hc. cbn [length] in Hc.
    replace (length pre + S (length a') - length a' - 1)%nat with (length pre) in Hc by lia.
    rewrite nth_error_app2, Nat.sub_diag in Hc by lia. cbn [nth_error] in Hc.
    rewrite Hcut in Hc. discriminate.
  - reflexivity.
Qed.

Lemma skip_throw_witness :
  sskip_at_impl 10 [0xD9; 5; 0x61] = AErr EParse [] /\ skip_at_impl 10 [0xD9; 5; 0x61] = AErr EParse [5; 0x61] /\
  payload_cut 10 [0xD9; 5; 0x61] = true /\
  sskip_at_impl 10 [0x92; 1; 0xC5; 0; 3; 0x61] = AErr EParse [] /\
  skip_at_impl 10 [0x92; 1; 0xC5; 0; 3; 0x61] = AErr EParse [0; 3; 0x61] /\
  sskip_at_impl 10 [0xCD; 1] = AErr EParse [] /\ skip_at_impl 10 [0xCD; 1] = AErr EParse [1] /\
  (* not in the class: the length field itself is cut, 0xC1, nothing left *)
  sskip_at_impl 10 [0xDA; 1] = skip_at_impl 10 [0xDA; 1] /\ sskip_at_impl 10 [0xC1; 0] = skip_at_impl 10 [0xC1; 0] /\
  sskip_at_impl 10 [0x92] = skip_at_impl 10 [0x92].
Proof. vm_compute. repeat split; reflexivity. Qed.

Theorem skip_throw_same_refuted : ~ (forall f d, sskip_at_impl f d = skip_at_impl f d).
Proof.
  intros H. destruct skip_throw_witness as [W1 [W2 _]]. specialize (H 10%nat [0xD9; 5; 0x61]).
  rewrite W1, W2 in H. discriminate H.
Qed.

Lemma skip_throw_position K data : (8 <= K)%nat -> fits_streamoff data -> bytes_ok data ->
  forall lf f d, (length data < lf)%nat -> Suffix data d ->
  wp K data (mps_skip_impl lf f) (st data d) (apost data (sskip_at_impl f d)).
Proof. intros HK Hl Hb lf f d Hlf HS. apply wp_skip_impl_at; assumption. Qed.

(* ---- a single function: on the in-memory reader, at any suffix ---- *)

Section OnMem.
  Variable K : nat.
  Variable data : list N.
  Hypothesis HK : (8 <= K)%nat.
  Hypothesis Hlen : fits_streamoff data.
  Hypothesis Hbytes : bytes_ok data.

  Lemma memrel_start d : MemRel data (st data d) (st data d).
  Proof. intros _. split; [reflexivity|]. cbn [st m_pos]. lia. Qed.

  Lemma on_memr {A} (p : prog (sr A)) d (x : rres A) : wp K data p (st data d) (post data x) ->
    exists a m', interp (memr_step K data) p (st data d) = Ok (a, m') /\ post data x a m'.
  Proof.
    intros H.
    destruct (interp_wp K data (memr_step K data) (MemRel data) (memr_sim K data HK Hlen) p _ _ _ (memrel_start d) H) as
      [a [s' [m' [E [HQ HR]]]]].
    exists a, s'. split; [exact E|].
    destruct x as [v r|r|e|]; cbn [post] in *; try exact HQ.
    - destruct HQ as [Ha [Hm HSr]]. subst m'. destruct (HR eq_refl) as [-> _]. auto.
    - destruct HQ as [Ha [Hm HSr]]. subst m'. destruct (HR eq_refl) as [-> _]. auto.
  Qed.

  Lemma on_memr_skip (p : prog (sr unit)) d (x : sres) : wp K data p (st data d) (spost data x) ->
    exists a m', interp (memr_step K data) p (st data d) = Ok (a, m') /\ spost data x a m'.
  Proof.
    intros H.
    destruct (interp_wp K data (memr_step K data) (MemRel data) (memr_sim K data HK Hlen) p _ _ _ (memrel_start d) H) as
      [a [s' [m' [E [HQ HR]]]]].
    exists a, s'. split; [exact E|].
    destruct x as [r|e|]; cbn [spost] in *; try exact HQ.
    destruct HQ as [Ha [Hm HSr]]. subst m'. destruct (HR eq_refl) as [-> _]. auto.
  Qed.

  Variable fuel : nat.
  Variable o : opts.
  Variable d : list N.
  Hypothesis HS : Suffix data d.
  Hypothesis Hf : (length d < fuel)%nat.

  Notation run p := (interp (memr_step K data) p (st data d)).

  Theorem mem_skip_value :
    exists a m', run (mps_skip_value fuel) = Ok (a, m') /\ spost data (skip_value d) a m'.
  Proof. apply on_memr_skip. apply wp_skip_value; assumption. Qed.

  Theorem mem_read_int t :
    exists a m', run (mps_read_int fuel o t) = Ok (a, m') /\ post data (read_int o t d) a m'.
  Proof. apply on_memr. apply wp_read_int; assumption. Qed.

  Theorem mem_read_nil :
    exists a m', run (mps_read_nil fuel o) = Ok (a, m') /\ post data (read_nil o d) a m'.
  Proof. apply on_memr. apply wp_read_nil; assumption. Qed.

  Theorem mem_read_f32 narrow :
    exists a m', run (mps_read_f32 narrow fuel o) = Ok (a, m') /\ post data (read_f32 narrow o d) a m'.
  Proof. apply on_memr. apply wp_read_f32; assumption. Qed.

  Theorem mem_read_f64 widen :
    exists a m', run (mps_read_f64 widen fuel o) = Ok (a, m') /\ post data (read_f64 widen o d) a m'.
  Proof. apply on_memr. apply wp_read_f64; assumption. Qed.

  Theorem mem_read_str :
    exists a m', run (mps_read_str fuel o) = Ok (a, m') /\ post data (read_str o d) a m'.
  Proof. apply on_memr. apply wp_read_str; assumption. Qed.

  Theorem mem_read_array_size :
    exists a m', run (mps_read_array_size fuel o) = Ok (a, m') /\ post data (read_array_size o d) a m'.
  Proof. apply on_memr. apply wp_read_array_size; assumption. Qed.

  Theorem mem_read_map_size :
    exists a m', run (mps_read_map_size fuel o) = Ok (a, m') /\ post data (read_map_size o d) a m'.
  Proof. apply on_memr. apply wp_read_map_size; assumption. Qed.

  Theorem mem_read_bin_size :
    exists a m', run (mps_read_bin_size fuel o) = Ok (a, m') /\ post data (read_bin_size o d) a m'.
  Proof. apply on_memr. apply wp_read_bin_size; assumption. Qed.

  Theorem mem_read_binary :
    exists a m', run mps_read_binary = Ok (a, m') /\ post data (read_binary d) a m'.
  Proof. apply on_memr. apply wp_read_binary; assumption. Qed.

  Theorem mem_read_ts :
    exists a m', run (mps_read_ts fuel o) = Ok (a, m') /\ post data (read_ts o d) a m'.
  Proof. apply on_memr. apply wp_read_ts; assumption. Qed.

  Theorem mem_read_value_type :
    exists a m', run mps_read_value_type = Ok (a, m') /\
      post data (match read_value_type d with inl t => ROk t d | inr e => RErr e end) a m'.
  Proof. apply on_memr. apply wp_read_value_type_post; assumption. Qed.
End OnMem.

(* the same, in the uniform shape of Properties_C10mp.v *)
Lemma mem_read_bool K data : (8 <= K)%nat -> fits_streamoff data -> bytes_ok data ->
  forall fuel o d, Suffix data d -> (length d < fuel)%nat ->
  exists a m', interp (memr_step K data) (mps_read_int fuel o (mkIty false 1)) (st data d) = Ok (a, m') /\
               post data (read_int o (mkIty false 1) d) a m'.
Proof. intros HK Hl Hb fuel o d HS Hf. apply mem_read_int; assumption. Qed.

Lemma mem_read_binary_c K data : (8 <= K)%nat -> fits_streamoff data -> bytes_ok data ->
  forall d, Suffix data d ->
  exists a m', interp (memr_step K data) mps_read_binary (st data d) = Ok (a, m') /\ post data (read_binary d) a m'.
Proof. intros HK Hl _ d HS. apply mem_read_binary; assumption. Qed.

Lemma mem_read_value_type_c K data : (8 <= K)%nat -> fits_streamoff data -> bytes_ok data ->
  forall d, Suffix data d ->
  exists a m', interp (memr_step K data) mps_read_value_type (st data d) = Ok (a, m') /\
               post data (match read_value_type d with inl t => ROk t d | inr e => RErr e end) a m'.
Proof. intros HK Hl _ d HS. apply mem_read_value_type; assumption. Qed.

(* ---- read sequences ---- *)

(* over any reader the reference simulates, started in a state related to the reference's start *)
Theorem seq_any_reader (S : Type) (step : S -> bop -> outcome (bres * S)) (R : S -> mem -> Prop)
  K data narrow widen fuel o ops :
  (8 <= K)%nat -> fits_streamoff data -> bytes_ok data -> (length data < fuel)%nat ->
  forallb (rop_ok data) ops = true ->
  (forall s m op, R s m -> op_sizet op ->
     exists r s' m', step s op = Ok (r, s') /\ mem_step K data m op r = Some m' /\ R s' m') ->
  forall s0, R s0 mem_start ->
  exists s', interp step (mps_seq narrow widen fuel o ops) s0 = Ok (str_run narrow widen data o ops, s').
Proof.
  intros HK Hl Hb Hf Hok Hsim s0 HR.
  pose proof (wp_seq K data HK Hl Hb narrow widen fuel o Hf ops data (suffix_data data) Hok) as H.
  rewrite st_data in H.
  destruct (interp_wp K data step R Hsim _ s0 mem_start _ HR H) as [a [s' [m' [E [-> _]]]]].
  exists s'. exact E.
Qed.

(* the in-memory reader *)
Theorem seq_on_memory K data narrow widen fuel o ops :
  (8 <= K)%nat -> fits_streamoff data -> bytes_ok data -> (length data < fuel)%nat ->
  forallb (rop_ok data) ops = true ->
  mps_run_mem narrow widen K data fuel o ops = Ok (str_run narrow widen data o ops).
Proof.
  intros HK Hl Hb Hf Hok. unfold mps_run_mem.
  destruct (seq_any_reader mem (memr_step K data) (MemRel data) K data narrow widen fuel o ops HK Hl Hb Hf Hok
              (memr_sim K data HK Hl) mem_start) as [s' E].
  - intros _. split; [reflexivity|]. cbn. lia.
  - rewrite E. reflexivity.
Qed.

(* C10, MsgPack: CMsgPackStreamReader over CBinaryStreamReader with chunk size K on a seekable stream
   holding [data] answers every sequence of reads as CMsgPackStringReader on [data] *)
Theorem seq_on_chunked_stream K data narrow widen fuel o ops :
  (8 <= K)%nat -> fits_streamoff data -> bytes_ok data -> (length data < fuel)%nat ->
  forallb (rop_ok data) ops = true ->
  mps_run_bsr narrow widen K (stream_of data true) fuel o ops = Ok (str_run narrow widen data o ops).
Proof.
  intros HK Hl Hb Hf Hok. unfold mps_run_bsr.
  assert (HK0 : (0 < K)%nat) by lia.
  destruct (new_rel K HK0 data Hl true) as [HR Hs].
  destruct (seq_any_reader bsr (bsr_step K) (BsrRel K data) K data narrow widen fuel o ops HK Hl Hb Hf Hok
              (bsr_sim K data HK0 Hl) (bsr_new K (stream_of data true))) as [s' E].
  - split; assumption.
  - rewrite E. reflexivity.
Qed.

(* ---- where the hypotheses bite ---- *)

(* chunk sizes below 8: GetValue<uint64_t> asks ReadSolidBlock for more than a chunk, which it refuses *)
Definition no_narrow (x : N) : option N := Some x.
Definition id_widen (x : N) : N := x.
Definition u64doc : list N := [0xCF; 0; 0; 0; 0; 0; 0; 0; 1].
Definition throw_all : opts := mkOpts PThrow PThrow.
Definition skip_all : opts := mkOpts PSkip PSkip.

Lemma small_chunk_witness :
  mps_run_bsr no_narrow id_widen 4 (stream_of u64doc true) 10 throw_all [RdInt (mkIty false 64)] = Ok [AErrOf EParse] /\
  str_run no_narrow id_widen u64doc throw_all [RdInt (mkIty false 64)] = [AOkAt (VInt 1) 9].
Proof. vm_compute. split; reflexivity. Qed.

Theorem seq_small_chunk_refuted :
  ~ (forall K data narrow widen fuel o ops,
       (0 < K)%nat -> fits_streamoff data -> bytes_ok data -> (length data < fuel)%nat ->
       forallb (rop_ok data) ops = true ->
       mps_run_bsr narrow widen K (stream_of data true) fuel o ops = Ok (str_run narrow widen data o ops)).
Proof.
  intros H. destruct small_chunk_witness as [W1 W2].
  specialize (H 4%nat u64doc no_narrow id_widen 10%nat throw_all [RdInt (mkIty false 64)]).
  rewrite W1, W2 in H.
  assert (E : Ok [AErrOf EParse] = Ok [AOkAt (VInt 1) 9]).
  { apply H.
    - lia.
    - unfold fits_streamoff. cbn. lia.
    - unfold bytes_ok, u64doc. repeat constructor.
    - cbn. lia.
    - reflexivity. }
  discriminate E.
Qed.

(* SetPosition beyond the end: the string reader throws std::invalid_argument, the stream reader
   SerializationException(InputOutputError) (since 24799d8; it returned normally before): both throw,
   with different classes *)
Lemma setpos_beyond_witness :
  mps_run_bsr no_narrow id_widen 8 (stream_of [0xC0] true) 10 throw_all [RdSetPos 2] = Ok [AIOErr] /\
  str_run no_narrow id_widen [0xC0] throw_all [RdSetPos 2] = [AErrOf EInvalidArg].
Proof. vm_compute. split; reflexivity. Qed.

Theorem seq_setpos_beyond_refuted :
  ~ (forall K data narrow widen fuel o ops,
       (8 <= K)%nat -> fits_streamoff data -> bytes_ok data -> (length data < fuel)%nat ->
       mps_run_bsr narrow widen K (stream_of data true) fuel o ops = Ok (str_run narrow widen data o ops)).
Proof.
  intros H. destruct setpos_beyond_witness as [W1 W2].
  specialize (H 8%nat [0xC0] no_narrow id_widen 10%nat throw_all [RdSetPos 2]).
  rewrite W1, W2 in H.
  assert (E : Ok [AIOErr] = Ok [AErrOf EInvalidArg]).
  { apply H.
    - lia.
    - unfold fits_streamoff. cbn. lia.
    - unfold bytes_ok. repeat constructor.
    - cbn. lia. }
  discriminate E.
Qed.

(* ---- non-vacuity: values straddling chunk boundaries ---- *)

(* K = 8: the 10 bytes of the str8 run through chunks 1, 2 and 3; the uint16 at offset 15 straddles
   the boundary at 16; the float32 at 21 straddles 24; the timestamp's fixext4 header sits at 26..27
   and is read after a SetPosition back into an earlier chunk (ReadValueType's seek back crosses the
   boundary at 24 as well); the uint64 at 32 fills chunk 5 exactly *)
Definition straddle_doc : list N :=
  [0xA3; 0x61; 0x62; 0x63;  0xD9; 0x0A; 1; 2;  3; 4; 5; 6; 7; 8; 9; 10;  0xCD; 0x01; 0x00;
   0x92; 0x01; 0xC0;  0xCA; 0x3F; 0x80; 0x00; 0x00;  0xD6; 0xFF; 0; 0; 0; 5;  0xCF; 0; 0; 0; 0; 0; 0; 0; 1].
Definition straddle_ops : list rop :=
  [RdStr; RdStr; RdInt (mkIty false 8); RdSkip; RdType; RdF64; RdSetPos 22; RdF32; RdType; RdTs;
   RdInt (mkIty false 64); RdIsEnd; RdNil].

Example straddle_run :
  str_run no_narrow id_widen straddle_doc skip_all straddle_ops =
    [AOkAt (VBytes [0x61; 0x62; 0x63]) 4; AOkAt (VBytes [1; 2; 3; 4; 5; 6; 7; 8; 9; 10]) 16; ANotAt 19;
     AOkAt VUnit 22; AOkAt (VType TFloat) 22; AOkAt (VNum 0x3F800000) 27; AOkAt VUnit 22;
     AOkAt (VNum 0x3F800000) 27; AOkAt (VType TTimestamp) 27; AOkAt (VTs 5 0) 33; AOkAt (VInt 1) 42;
     AOkAt (VBool true) 42; AErrOf EParse] /\
  mps_run_bsr no_narrow id_widen 8 (stream_of straddle_doc true) 100 skip_all straddle_ops =
    Ok (str_run no_narrow id_widen straddle_doc skip_all straddle_ops) /\
  mps_run_bsr no_narrow id_widen 9 (stream_of straddle_doc true) 100 skip_all straddle_ops =
    Ok (str_run no_narrow id_widen straddle_doc skip_all straddle_ops) /\
  mps_run_mem no_narrow id_widen 8 straddle_doc 100 skip_all straddle_ops =
    Ok (str_run no_narrow id_widen straddle_doc skip_all straddle_ops).
Proof. vm_compute. repeat split; reflexivity. Qed.

(* a truncated document: the string's bytes end inside the third chunk *)
Example straddle_truncated :
  mps_run_bsr no_narrow id_widen 8 (stream_of (firstn 13 straddle_doc) true) 100 skip_all [RdStr; RdStr; RdNil] =
    Ok [AOkAt (VBytes [0x61; 0x62; 0x63]) 4; AErrOf EParse] /\
  str_run no_narrow id_widen (firstn 13 straddle_doc) skip_all [RdStr; RdStr; RdNil] =
    [AOkAt (VBytes [0x61; 0x62; 0x63]) 4; AErrOf EParse].
Proof. vm_compute. split; reflexivity. Qed.

(* ---- adaptive clients ---- *)

Theorem client_any_reader (S : Type) (step : S -> bop -> outcome (bres * S)) (R : S -> mem -> Prop)
  K data narrow widen fuel o (A : Type) (c : client A) :
  (8 <= K)%nat -> fits_streamoff data -> bytes_ok data -> (length data < fuel)%nat ->
  client_seeks_ok narrow widen data o c data = true ->
  (forall s m op, R s m -> op_sizet op ->
     exists r s' m', step s op = Ok (r, s') /\ mem_step K data m op r = Some m' /\ R s' m') ->
  forall s0, R s0 mem_start ->
  exists s', interp step (mps_client narrow widen fuel o c []) s0 = Ok (str_client_run narrow widen data o c, s').
Proof.
  intros HK Hl Hb Hf Hok Hsim s0 HR.
  pose proof (wp_client K data HK Hl Hb narrow widen fuel o Hf A c [] data (suffix_data data) Hok) as H.
  rewrite st_data in H.
  destruct (interp_wp K data step R Hsim _ s0 mem_start _ HR H) as [a [s' [m' [E [-> _]]]]].
  exists s'. exact E.
Qed.

(* C10, adaptive form: any deterministic client of the reader interface gets from CMsgPackStreamReader over
   the chunked reader (chunk size K, seekable stream holding data) the transcript and the result it gets
   from CMsgPackStringReader over data *)
Theorem client_on_chunked_stream K data narrow widen fuel o (A : Type) (c : client A) :
  (8 <= K)%nat -> fits_streamoff data -> bytes_ok data -> (length data < fuel)%nat ->
  client_seeks_ok narrow widen data o c data = true ->
  mps_client_bsr narrow widen K (stream_of data true) fuel o c = Ok (str_client_run narrow widen data o c).
Proof.
  intros HK Hl Hb Hf Hok. unfold mps_client_bsr.
  assert (HK0 : (0 < K)%nat) by lia.
  destruct (new_rel K HK0 data Hl true) as [HR Hs].
  destruct (client_any_reader bsr (bsr_step K) (BsrRel K data) K data narrow widen fuel o A c HK Hl Hb Hf Hok
              (bsr_sim K data HK0 Hl) (bsr_new K (stream_of data true))) as [s' E].
  - split; assumption.
  - rewrite E. reflexivity.
Qed.

Theorem client_on_memory K data narrow widen fuel o (A : Type) (c : client A) :
  (8 <= K)%nat -> fits_streamoff data -> bytes_ok data -> (length data < fuel)%nat ->
  client_seeks_ok narrow widen data o c data = true ->
  mps_client_mem narrow widen K data fuel o c = Ok (str_client_run narrow widen data o c).
Proof.
  intros HK Hl Hb Hf Hok. unfold mps_client_mem.
  destruct (client_any_reader mem (memr_step K data) (MemRel data) K data narrow widen fuel o A c HK Hl Hb Hf Hok
              (memr_sim K data HK Hl) mem_start) as [s' E].
  - intros _. split; [reflexivity|]. cbn. lia.
  - rewrite E. reflexivity.
Qed.

(* strategies: the positions a run of the string reader shows never leave the data, so a strategy that
   seeks only to 0 or to positions it was shown (or otherwise inside the data) meets client_seeks_ok *)
Definition seeks_inside (data : list N) (sigma : strategy) : Prop :=
  forall t p, sigma t = Some (RdSetPos p) -> p = 0 \/ In p (positions t) \/ p <= N.of_nat (length data).

Lemma positions_app t1 t2 : positions (t1 ++ t2) = positions t1 ++ positions t2.
Proof.
  induction t1 as [|[op a] t1 IH]; [reflexivity|]. cbn [app positions]. destruct a; cbn [app]; rewrite ?IH; reflexivity.
Qed.

Lemma strategy_seeks_ok narrow widen data o sigma : seeks_inside data sigma ->
  forall n t d, Forall (fun p => p <= N.of_nat (length data)) (positions t) ->
  client_seeks_ok narrow widen data o (client_of n sigma t) d = true.
Proof.
  intros Hs. induction n as [|n IH]; intros t d Ht; [reflexivity|].
  cbn [client_of]. destruct (sigma t) as [op|] eqn:Es; [|reflexivity].
  cbn [client_seeks_ok]. apply andb_true_iff. split.
  - destruct op; try reflexivity. cbn [rop_ok]. apply N.leb_le.
    destruct (Hs t p Es) as [->|[Hin|Hle]]; [lia | | exact Hle].
    rewrite Forall_forall in Ht. apply Ht. exact Hin.
  - assert (Step : forall a, (match a with AOkAt _ p | ANotAt p => p <= N.of_nat (length data) | _ => True end) ->
                     Forall (fun p => p <= N.of_nat (length data)) (positions (t ++ [(op, a)]))).
    { intros a Ha. rewrite positions_app. apply Forall_app. split; [exact Ht|].
      destruct a; cbn [positions]; try constructor; try exact Ha; constructor. }
    destruct (str_op narrow widen data o op d) as [v r|r|e|]; try reflexivity; apply IH; apply Step; lia.
Qed.

Theorem strategy_on_chunked_stream K data narrow widen fuel o n sigma :
  (8 <= K)%nat -> fits_streamoff data -> bytes_ok data -> (length data < fuel)%nat ->
  seeks_inside data sigma ->
  mps_client_bsr narrow widen K (stream_of data true) fuel o (client_of n sigma []) =
    Ok (str_client_run narrow widen data o (client_of n sigma [])).
Proof.
  intros HK Hl Hb Hf Hs. apply client_on_chunked_stream; try assumption.
  apply strategy_seeks_ok; [exact Hs | constructor].
Qed.

Lemma seeks_known_inside data sigma : seeks_known sigma -> seeks_inside data sigma.
Proof. intros H t p E. destruct (H t p E) as [H0|H1]; [left; exact H0 | right; left; exact H1]. Qed.

(* the transcript of a strategy's client is the strategy's own bookkeeping: the run returns what it was fed *)
Lemma str_client_of_transcript narrow widen data o sigma : forall n t d,
  exists t', fst (str_client narrow widen data o (client_of n sigma t) t d) = t ++ t'.
Proof.
  induction n as [|n IH]; intros t d; cbn [client_of].
  - exists []. cbn. rewrite app_nil_r. reflexivity.
  - destruct (sigma t) as [op|]; [|exists []; cbn; rewrite app_nil_r; reflexivity].
    cbn [str_client]. destruct (str_op narrow widen data o op d) as [v r|r|e|]; cbv zeta.
    + destruct (IH (t ++ [(op, AOkAt v (N.of_nat (length data - length r)))]) r) as [t' E].
      rewrite E. eexists. rewrite <- app_assoc. reflexivity.
    + destruct (IH (t ++ [(op, ANotAt (N.of_nat (length data - length r)))]) r) as [t' E].
      rewrite E. eexists. rewrite <- app_assoc. reflexivity.
    + eexists. reflexivity.
    + eexists. reflexivity.
Qed.

(* ---- FindValueByKey in miniature meets the precondition on every document ---- *)

Lemma find_members_seeks_ok narrow widen data o key start : start <= N.of_nat (length data) ->
  forall n d, client_seeks_ok narrow widen data o (find_members n key start) d = true.
Proof.
  intros Hst. assert (Hseek : rop_ok data (RdSetPos start) = true) by (apply N.leb_le; exact Hst).
  induction n as [|n IH]; intros d; cbn [find_members client_seeks_ok].
  - rewrite Hseek. cbn [andb]. destruct (str_op narrow widen data o (RdSetPos start) d); reflexivity.
  - cbn [rop_ok andb].
    assert (Tail : forall (a : ans) d', client_seeks_ok narrow widen data o
              (match a with
               | AOkAt (VBytes s) _ =>
                 if list_eqb s key then
                   CCall (RdInt s32) (fun a2 =>
                     match a2 with
                     | AOkAt (VInt z) _ => CCall (RdSetPos start) (fun _ => CRet (Some z))
                     | _ => CCall (RdSetPos start) (fun _ => CRet None)
                     end)
                 else CCall RdSkip (fun _ => find_members n key start)
               | _ => CRet None
               end) d' = true).
    { intros a d'. destruct a as [v p|p|e| |]; try reflexivity. destruct v; try reflexivity.
      destruct (list_eqb l key).
      - cbn [client_seeks_ok rop_ok andb].
        assert (Fin : forall (r : option Z) d'', client_seeks_ok narrow widen data o (CCall (RdSetPos start) (fun _ => CRet r)) d'' = true).
        { intros r d''. cbn [client_seeks_ok]. rewrite Hseek. cbn [andb].
          destruct (str_op narrow widen data o (RdSetPos start) d''); reflexivity. }
        destruct (str_op narrow widen data o (RdInt s32) d') as [v r|r|e|]; try reflexivity.
        + destruct v; cbv beta iota;
            match goal with |- client_seeks_ok _ _ _ _ (CCall _ (fun _ => CRet ?x)) _ = true => apply (Fin x) end.
        + cbv beta iota. apply (Fin None).
      - cbn [client_seeks_ok rop_ok andb].
        destruct (str_op narrow widen data o RdSkip d') as [v r|r|e|]; try reflexivity; apply IH. }
    destruct (str_op narrow widen data o RdStr d) as [v r|r|e|]; try reflexivity.
    exact (Tail (AOkAt v (N.of_nat (length data - length r))) r).
Qed.

Lemma find_by_key_seeks_ok narrow widen data o bound key :
  client_seeks_ok narrow widen data o (find_by_key bound key) data = true.
Proof.
  unfold find_by_key. cbn [client_seeks_ok rop_ok andb].
  destruct (str_op narrow widen data o RdMap data) as [v r|r|e|]; try reflexivity.
  destruct v; try reflexivity. apply find_members_seeks_ok. lia.
Qed.

Theorem find_by_key_stream_equals_memory K data narrow widen fuel o bound key :
  (8 <= K)%nat -> fits_streamoff data -> bytes_ok data -> (length data < fuel)%nat ->
  mps_client_bsr narrow widen K (stream_of data true) fuel o (find_by_key bound key) =
    Ok (str_client_run narrow widen data o (find_by_key bound key)).
Proof.
  intros HK Hl Hb Hf. apply client_on_chunked_stream; try assumption. apply find_by_key_seeks_ok.
Qed.

(* {"a": 1, "bcdefghij": [1, nil], "k": -70000, "z": 0}: the wanted key is the third member; the int32 value
   straddles the chunk boundary at 24 (K = 8), the final seek goes back to offset 1 in the first chunk *)
Definition find_doc : list N :=
  [0x84; 0xA1; 0x61; 0x01;  0xA9; 0x62; 0x63; 0x64; 0x65; 0x66; 0x67; 0x68; 0x69; 0x6A; 0x92; 0x01; 0xC0;
   0xA1; 0x6B; 0xD2; 0xFF; 0xFE; 0xEE; 0x90;  0xA1; 0x7A; 0x00].

Example find_by_key_run :
  str_client_run no_narrow id_widen find_doc throw_all (find_by_key 27 [0x6B]) =
    ([(RdMap, AOkAt (VNum 4) 1); (RdStr, AOkAt (VBytes [0x61]) 3); (RdSkip, AOkAt VUnit 4);
      (RdStr, AOkAt (VBytes [0x62; 0x63; 0x64; 0x65; 0x66; 0x67; 0x68; 0x69; 0x6A]) 14); (RdSkip, AOkAt VUnit 17);
      (RdStr, AOkAt (VBytes [0x6B]) 19); (RdInt s32, AOkAt (VInt (-70000)) 24); (RdSetPos 1, AOkAt VUnit 1)],
     Some (Some (-70000)%Z)) /\
  mps_client_bsr no_narrow id_widen 8 (stream_of find_doc true) 28 throw_all (find_by_key 27 [0x6B]) =
    Ok (str_client_run no_narrow id_widen find_doc throw_all (find_by_key 27 [0x6B])) /\
  mps_client_mem no_narrow id_widen 8 find_doc 28 throw_all (find_by_key 27 [0x6B]) =
    Ok (str_client_run no_narrow id_widen find_doc throw_all (find_by_key 27 [0x6B])) /\
  snd (str_client_run no_narrow id_widen find_doc throw_all (find_by_key 27 [0x71])) = Some None.
Proof. vm_compute. repeat split; reflexivity. Qed.

(* ================================================================== streams without seek support *)

(* On a stream whose streambuf cannot seek, CBinaryStreamReader::SetPosition(p) works only when p lies in
   the cached window, is the stream position itself, or is beyond the data (op_local of StreamBsrProofs:
   finding F16b).  The MsgPack stream reader calls SetPosition in ReadExtFamilyType (back to prevPos), in
   ReadValue(CBinTimestamp) (forward over the header it has just looked at) and in its own SetPosition;
   a refusal is InputOutputError (fix 24799d8).  SkipValueImpl does not seek any more (fix e491e27).  [prog_seek_free K data p s]: along the run of program p from reader state s, every
   SetPosition issued is local. *)
Fixpoint prog_seek_free {A} (K : nat) (data : list N) (p : prog A) (s : bsr) : bool :=
  match p with
  | Ret _ => true
  | Bad => true
  | Op op k =>
    op_local data s op &&
    match bsr_step K s op with
    | Ok (r, s') => prog_seek_free K data (k r) s'
    | Fault => true
    end
  end.

Lemma interp_wp_nonseek K data : (0 < K)%nat -> fits_streamoff data ->
  forall (A : Type) (p : prog A) s m Q, Rel K data s m -> prog_seek_free K data p s = true -> wp K data p m Q ->
  exists a s' m', interp (bsr_step K) p s = Ok (a, s') /\ Q a m' /\ Rel K data s' m'.
Proof.
  intros HK Hl A. induction p as [a| |op k IH]; intros s m Q HR Hfree H; cbn [wp interp prog_seek_free] in *.
  - exists a, s, m. auto.
  - contradiction.
  - destruct H as [Hw Hk]. apply andb_true_iff in Hfree. destruct Hfree as [Hloc Hrest].
    destruct (step_refines K HK data Hl s m op HR Hw (fun _ => or_intror Hloc)) as [r [s' [m' [E1 [E2 [R' _]]]]]].
    rewrite E1 in *. apply (IH r s' m' Q R' Hrest). apply Hk. exact E2.
Qed.

(* the class, for a list of reads and for an adaptive client: decided by running the stream-reader model
   on the chunked reader model over the non-seekable stream *)
Definition nonseek_ok (narrow : N -> option N) (widen : N -> N) (K : nat) (data : list N) (fuel : nat) (o : opts)
  (ops : list rop) : bool :=
  prog_seek_free K data (mps_seq narrow widen fuel o ops) (bsr_new K (stream_of data false)).

Definition nonseek_client_ok (narrow : N -> option N) (widen : N -> N) (K : nat) (data : list N) (fuel : nat) (o : opts)
  {A} (c : client A) : bool :=
  prog_seek_free K data (mps_client narrow widen fuel o c []) (bsr_new K (stream_of data false)).

Theorem seq_nonseekable_outside K data narrow widen fuel o ops :
  (8 <= K)%nat -> fits_streamoff data -> bytes_ok data -> (length data < fuel)%nat ->
  forallb (rop_ok data) ops = true ->
  nonseek_ok narrow widen K data fuel o ops = true ->
  mps_run_bsr narrow widen K (stream_of data false) fuel o ops = Ok (str_run narrow widen data o ops).
Proof.
  intros HK Hl Hb Hf Hok Hfree. unfold mps_run_bsr.
  assert (HK0 : (0 < K)%nat) by lia.
  destruct (new_rel K HK0 data Hl false) as [HR _].
  pose proof (wp_seq K data HK Hl Hb narrow widen fuel o Hf ops data (suffix_data data) Hok) as H.
  rewrite st_data in H.
  destruct (interp_wp_nonseek K data HK0 Hl _ _ _ _ _ HR Hfree H) as [a [s' [m' [E [-> _]]]]].
  rewrite E. reflexivity.
Qed.

Theorem client_nonseekable_outside K data narrow widen fuel o (A : Type) (c : client A) :
  (8 <= K)%nat -> fits_streamoff data -> bytes_ok data -> (length data < fuel)%nat ->
  client_seeks_ok narrow widen data o c data = true ->
  nonseek_client_ok narrow widen K data fuel o c = true ->
  mps_client_bsr narrow widen K (stream_of data false) fuel o c = Ok (str_client_run narrow widen data o c).
Proof.
  intros HK Hl Hb Hf Hok Hfree. unfold mps_client_bsr.
  assert (HK0 : (0 < K)%nat) by lia.
  destruct (new_rel K HK0 data Hl false) as [HR _].
  pose proof (wp_client K data HK Hl Hb narrow widen fuel o Hf A c [] data (suffix_data data) Hok) as H.
  rewrite st_data in H.
  destruct (interp_wp_nonseek K data HK0 Hl _ _ _ _ _ HR Hfree H) as [a [s' [m' [E [-> _]]]]].
  rewrite E. reflexivity.
Qed.

(* ---- what a refused seek does, K = 8 (since fix 24799d8 the three formerly silent cases end in InputOutputError) ---- *)
Definition u8t : ity := mkIty false 8.
Definition nils (n : nat) : list rop := repeat RdNil n.

(* (1) a fixext4 timestamp whose header straddles the chunk boundary: 0xD6 is the last byte of chunk 1, the
   type byte 0xFF the first of chunk 2.  The seek back of ReadExtFamilyType is refused: InputOutputError
   (before the fix: seconds 0x00050102 instead of 5, no exception). *)
Definition ns_ts_doc : list N := repeat 0xC0 7 ++ [0xD6; 0xFF; 0; 0; 0; 5; 1; 2].
Lemma ns_ts_witness :
  mps_run_bsr no_narrow id_widen 8 (stream_of ns_ts_doc false) 20 throw_all (nils 7 ++ [RdTs]) =
    Ok (map (fun i => AOkAt VUnit (N.of_nat i)) (seq 1 7) ++ [AIOErr]) /\
  str_run no_narrow id_widen ns_ts_doc throw_all (nils 7 ++ [RdTs]) =
    map (fun i => AOkAt VUnit (N.of_nat i)) (seq 1 7) ++ [AOkAt (VTs 5 0) 13] /\
  nonseek_ok no_narrow id_widen 8 ns_ts_doc 20 throw_all (nils 7 ++ [RdTs]) = false /\
  mps_run_bsr no_narrow id_widen 8 (stream_of ns_ts_doc true) 20 throw_all (nils 7 ++ [RdTs]) =
    Ok (str_run no_narrow id_widen ns_ts_doc throw_all (nils 7 ++ [RdTs])).
Proof. vm_compute. repeat split; reflexivity. Qed.

(* (2) ReadValueType on the same header: InputOutputError (before: the right type, reader left inside the value) *)
Lemma ns_type_witness :
  mps_run_bsr no_narrow id_widen 8 (stream_of ns_ts_doc false) 20 skip_all (nils 7 ++ [RdType; RdInt u8t]) =
    Ok (map (fun i => AOkAt VUnit (N.of_nat i)) (seq 1 7) ++ [AIOErr]) /\
  str_run no_narrow id_widen ns_ts_doc skip_all (nils 7 ++ [RdType; RdInt u8t]) =
    map (fun i => AOkAt VUnit (N.of_nat i)) (seq 1 7) ++ [AOkAt (VType TTimestamp) 7; ANotAt 13].
Proof. vm_compute. split; reflexivity. Qed.

(* (3) SkipValue of a value that ends beyond the cached window: fine since fix e491e27 (SkipBytes reads through
   the value; before, the forward SetPosition was refused and SkipValueImpl threw ParsingError) *)
Definition ns_skip_doc : list N := [0xAA; 1; 2; 3; 4; 5; 6; 7; 8; 9; 10; 0x2A].
Lemma ns_skip_witness :
  mps_run_bsr no_narrow id_widen 8 (stream_of ns_skip_doc false) 20 throw_all [RdSkip; RdInt u8t] =
    Ok (str_run no_narrow id_widen ns_skip_doc throw_all [RdSkip; RdInt u8t]) /\
  str_run no_narrow id_widen ns_skip_doc throw_all [RdSkip; RdInt u8t] = [AOkAt VUnit 11; AOkAt (VInt 42) 12] /\
  nonseek_ok no_narrow id_widen 8 ns_skip_doc 20 throw_all [RdSkip; RdInt u8t] = true /\
  (* nested containers and a mismatching target skipped across several chunks *)
  nonseek_ok no_narrow id_widen 8 straddle_doc 100 skip_all [RdSkip; RdSkip; RdNil; RdSkip; RdStr; RdSkip; RdSkip] = true.
Proof. vm_compute. repeat split; reflexivity. Qed.

(* (4) the reader's own SetPosition (the scopes' seek to mStartPos) back across a chunk boundary:
   InputOutputError (before: ignored, reading went on where it was) *)
Definition ns_rewind_doc : list N := [1; 2; 3; 4; 5; 6; 7; 8; 9; 10; 11].
Lemma ns_rewind_witness :
  mps_run_bsr no_narrow id_widen 8 (stream_of ns_rewind_doc false) 20 throw_all
    (repeat (RdInt u8t) 9 ++ [RdSetPos 0; RdInt u8t]) =
    Ok (map (fun i => AOkAt (VInt (Z.of_nat i)) (N.of_nat i)) (seq 1 9) ++ [AIOErr]) /\
  str_run no_narrow id_widen ns_rewind_doc throw_all (repeat (RdInt u8t) 9 ++ [RdSetPos 0; RdInt u8t]) =
    map (fun i => AOkAt (VInt (Z.of_nat i)) (N.of_nat i)) (seq 1 9) ++ [AOkAt VUnit 0; AOkAt (VInt 1) 1].
Proof. vm_compute. split; reflexivity. Qed.

Theorem seq_nonseekable_refuted :
  ~ (forall K data narrow widen fuel o ops,
       (8 <= K)%nat -> fits_streamoff data -> bytes_ok data -> (length data < fuel)%nat ->
       forallb (rop_ok data) ops = true ->
       mps_run_bsr narrow widen K (stream_of data false) fuel o ops = Ok (str_run narrow widen data o ops)).
Proof.
  intros H. destruct ns_ts_witness as [W1 [W2 _]].
  specialize (H 8%nat ns_ts_doc no_narrow id_widen 20%nat throw_all (nils 7 ++ [RdTs])).
  rewrite W1, W2 in H.
  assert (E : Ok (map (fun i => AOkAt VUnit (N.of_nat i)) (seq 1 7) ++ [AIOErr]) =
              Ok (map (fun i => AOkAt VUnit (N.of_nat i)) (seq 1 7) ++ [AOkAt (VTs 5 0) 13])).
  { apply H.
    - lia.
    - unfold fits_streamoff. cbn. lia.
    - unfold bytes_ok, ns_ts_doc. cbn. repeat constructor.
    - cbn. lia.
    - reflexivity. }
  vm_compute in E. discriminate E.
Qed.

(* a document that lies in one chunk, and one read front to back without skipping or type probing across a
   boundary, are in the class *)
Example ns_ok_examples :
  nonseek_ok no_narrow id_widen 8 [0x92; 0xD6; 0xFF; 0; 0; 0; 5] 20 throw_all [RdType; RdSkip; RdSetPos 0; RdArr; RdTs] = true /\
  nonseek_ok no_narrow id_widen 8 ns_skip_doc 20 throw_all [RdStr; RdInt u8t; RdIsEnd] = true /\
  nonseek_ok no_narrow id_widen 8 straddle_doc 100 skip_all
    [RdStr; RdStr; RdInt (mkIty false 16); RdArr; RdInt u8t; RdNil; RdF32] = true.
Proof. vm_compute. repeat split; reflexivity. Qed.

(* ================================================================== no silent difference on a stream without seek support *)

(* Since fix 24799d8 every SetPosition the MsgPack stream reader issues is checked: a refusal ends the call
   in an exception (SkipValueImpl: ParsingError; ReadExtFamilyType, ReadValue(CBinTimestamp), SetPosition:
   InputOutputError; since e491e27 SkipValueImpl does not seek).  [guarded p]: at every SetPosition of
   program p, the continuation for the answer "refused" returns InputOutputError at once. *)
Definition thr {A} (a : sr A) : Prop := a = QErr EParse \/ a = QIO.

Fixpoint guarded {A} (p : prog (sr A)) : Prop :=
  match p with
  | Ret _ => True
  | Bad => True
  | Op op k =>
    (forall r, guarded (k r)) /\
    match op with
    | OSetPos _ => k (RBool false) = Ret QIO
    | _ => True
    end
  end.

Lemma guarded_pbind {A B} (p : prog (sr A)) (f : sr A -> prog (sr B)) :
  guarded p -> (forall a, guarded (f a)) -> f QIO = Ret QIO ->
  guarded (pbind p f).
Proof.
  intros Hp Hf Ht. induction p as [a| |op k IH]; cbn [pbind guarded] in *; [apply Hf | exact I|].
  destruct Hp as [Hk Hop]. split; [intros r; apply IH; apply Hk|].
  destruct op; try exact I. rewrite Hop. cbn [pbind]. exact Ht.
Qed.

Lemma guarded_qbind {A B} (p : prog (sr A)) (f : A -> prog (sr B)) :
  guarded p -> (forall a, guarded (f a)) -> guarded (qbind p f).
Proof.
  intros Hp Hf. unfold qbind. apply guarded_pbind; [exact Hp | |].
  - intros [a| |e| |]; cbn [guarded]; auto.
  - reflexivity.
Qed.

Lemma guarded_pmap {A B} (g : A -> B) (p : prog (sr A)) : guarded p -> guarded (pmap g p).
Proof.
  intros Hp. unfold pmap. apply guarded_pbind; [exact Hp | intros a; exact I |].
  reflexivity.
Qed.

Lemma guarded_peek {A} (k : option N -> prog (sr A)) : (forall o, guarded (k o)) -> guarded (peek_byte k).
Proof. intros H. split; [intros r; destruct r; cbn [guarded]; auto | exact I]. Qed.
Lemma guarded_goto {A} (k : prog (sr A)) : guarded k -> guarded (goto_next k).
Proof. intros H. split; [intros r; destruct r; cbn [guarded]; auto | exact I]. Qed.
Lemma guarded_read_byte {A} (k : option N -> prog (sr A)) : (forall o, guarded (k o)) -> guarded (read_byte k).
Proof. intros H. split; [intros r; destruct r; cbn [guarded]; auto | exact I]. Qed.
Lemma guarded_solid {A} n (k : list N -> prog (sr A)) : (forall l, guarded (k l)) -> guarded (solid_block n k).
Proof. intros H. split; [intros r; destruct r; cbn [guarded]; auto | exact I]. Qed.
Lemma guarded_chunks {A} n (k : list N -> prog (sr A)) : (forall l, guarded (k l)) -> guarded (by_chunks n k).
Proof. intros H. split; [intros r; destruct r; cbn [guarded]; auto | exact I]. Qed.
Lemma guarded_get_pos {A} (k : N -> prog (sr A)) : (forall p, guarded (k p)) -> guarded (get_position k).
Proof. intros H. split; [intros r; destruct r; cbn [guarded]; auto | exact I]. Qed.
Lemma guarded_is_end {A} (k : bool -> prog (sr A)) : (forall b, guarded (k b)) -> guarded (is_end k).
Proof. intros H. split; [intros r; destruct r; cbn [guarded]; auto | exact I]. Qed.
Lemma guarded_set_pos {A} p (k : bool -> prog (sr A)) :
  (forall b, guarded (k b)) -> k false = Ret QIO -> guarded (set_position p k).
Proof. intros H Hf. split; [intros r; destruct r; cbn [guarded]; auto | exact Hf]. Qed.

Lemma guarded_get_value k : guarded (mps_get_value k).
Proof.
  unfold mps_get_value. destruct (k =? 1).
  - apply guarded_read_byte. intros o. exact I.
  - apply guarded_solid. intros l. exact I.
Qed.

Lemma guarded_read_ext_size n : guarded (mps_read_ext_size n).
Proof. unfold mps_read_ext_size. destruct ((n =? 1) || (n =? 2) || (n =? 4)); [apply guarded_get_value | exact I]. Qed.

Lemma guarded_skip_rep step : guarded step -> forall g cnt, guarded (mps_skip_rep step g cnt).
Proof.
  intros Hs. induction g as [|g IH]; intros cnt; cbn [mps_skip_rep]; destruct (cnt =? 0); try exact I.
  apply guarded_qbind; [exact Hs | intros _; apply IH].
Qed.

Lemma guarded_skip_bytes : forall lf n, guarded (mps_skip_bytes lf n).
Proof.
  induction lf as [|lf IH]; intros n; cbn [mps_skip_bytes]; destruct (n =? 0); try exact I.
  apply guarded_chunks. intros [|x l]; [exact I | apply IH].
Qed.

Lemma guarded_skip_impl lf : forall f, guarded (mps_skip_impl lf f).
Proof.
  induction f as [|f IH]; [exact I|]. cbn [mps_skip_impl]. apply guarded_read_byte. intros [b|]; [|exact I].
  destruct (vtype_eqb (m_ty (byte_meta b)) TUnknown); [exact I|].
  apply guarded_qbind.
  - destruct (negb (m_fixed (byte_meta b) =? 0)); [exact I|].
    destruct (negb (m_ext (byte_meta b) =? 0)); [apply guarded_read_ext_size | exact I].
  - intros ext0. cbv zeta.
    assert (Ch : forall ext, guarded (if ext =? 0 then Ret (QOk tt)
                  else match m_ty (byte_meta b) with
                       | TMap => mps_skip_rep (mps_skip_impl lf f) f (2 * ext)
                       | TArr => mps_skip_rep (mps_skip_impl lf f) f ext
                       | _ => Ret (QOk tt)
                       end)).
    { intros ext. destruct (ext =? 0); [exact I|].
      destruct (m_ty (byte_meta b)); try exact I; apply guarded_skip_rep; exact IH. }
    match goal with |- guarded (if ?c then _ else _) => destruct c end; [apply Ch|].
    apply guarded_qbind; [apply guarded_skip_bytes|]. intros [|]; [apply Ch | exact I].
Qed.

Lemma guarded_handle_mismatch {A} fuel o ty : guarded (@mps_handle_mismatch A fuel o ty).
Proof.
  unfold mps_handle_mismatch. match goal with |- guarded (if ?c then _ else _) => destruct c end; [exact I|].
  apply guarded_pbind; [apply guarded_skip_impl | intros a; exact I |].
  reflexivity.
Qed.

Lemma guarded_read_ext_family : guarded mps_read_ext_family.
Proof.
  unfold mps_read_ext_family. apply guarded_peek. intros [b|]; [|exact I].
  destruct (negb (vtype_eqb (m_ty (byte_meta b)) TExt)); [exact I|].
  apply guarded_get_pos. intros prev. apply guarded_goto. cbv zeta.
  assert (Fin : forall off size, guarded (read_byte (fun oc =>
            match oc with
            | Some c => set_position prev (fun ok =>
                          if ok then Ret (QOk (Some (mkExt (if c =? 0xFF then TTimestamp else TExt) off size c))) else Ret QIO)
            | None => Ret (QErr EParse)
            end))).
  { intros off size. apply guarded_read_byte. intros [c|]; [|exact I].
    apply guarded_set_pos; [intros [|]; exact I|]. reflexivity. }
  destruct (negb (m_fixed (byte_meta b) =? 0)); [apply Fin|].
  destruct (negb (m_ext (byte_meta b) =? 0)); [|exact I].
  apply guarded_qbind; [apply guarded_read_ext_size | intros sz; apply Fin].
Qed.

Lemma guarded_read_value_type : guarded mps_read_value_type.
Proof.
  unfold mps_read_value_type. apply guarded_peek. intros [b|]; [|exact I].
  destruct (vtype_eqb (m_ty (byte_meta b)) TExt); [|exact I].
  apply guarded_qbind; [apply guarded_read_ext_family | intros x; exact I].
Qed.

Lemma guarded_mismatch_via_type {A} fuel o : guarded (@mps_mismatch_via_type A fuel o).
Proof.
  unfold mps_mismatch_via_type. apply guarded_pbind; [apply guarded_read_value_type | |].
  - intros [t| |e| |]; try exact I. apply guarded_handle_mismatch.
  - reflexivity.
Qed.

Ltac gd_leaf :=
  first [ exact I
        | apply guarded_handle_mismatch
        | apply guarded_mismatch_via_type
        | apply guarded_get_value
        | apply guarded_goto; first [exact I | apply guarded_get_value
                                    | apply guarded_qbind; [apply guarded_get_value | intros ?; exact I]] ].

Lemma guarded_read_int fuel o t : guarded (mps_read_int fuel o t).
Proof.
  unfold mps_read_int. apply guarded_peek. intros [b|]; [|exact I]. cbv zeta.
  repeat match goal with |- guarded (if ?c then _ else _) => destruct c end; gd_leaf.
Qed.

Lemma guarded_read_nil fuel o : guarded (mps_read_nil fuel o).
Proof.
  unfold mps_read_nil. apply guarded_peek. intros [b|]; [|exact I].
  repeat match goal with |- guarded (if ?c then _ else _) => destruct c end; gd_leaf.
Qed.

Lemma guarded_read_f32 narrow fuel o : guarded (mps_read_f32 narrow fuel o).
Proof.
  unfold mps_read_f32. apply guarded_peek. intros [b|]; [|exact I].
  repeat match goal with |- guarded (if ?c then _ else _) => destruct c end; gd_leaf.
Qed.

Lemma guarded_read_f64 widen fuel o : guarded (mps_read_f64 widen fuel o).
Proof.
  unfold mps_read_f64. apply guarded_peek. intros [b|]; [|exact I].
  repeat match goal with |- guarded (if ?c then _ else _) => destruct c end; gd_leaf.
Qed.

Lemma guarded_read_chunks : forall fuel n acc, guarded (mps_read_chunks fuel n acc).
Proof.
  induction fuel as [|fuel IH]; intros n acc; cbn [mps_read_chunks]; destruct (n =? 0); try exact I.
  apply guarded_chunks. intros [|x l]; [exact I | apply IH].
Qed.

Lemma guarded_read_str fuel o : guarded (mps_read_str fuel o).
Proof.
  unfold mps_read_str. apply guarded_peek. intros [b|]; [|exact I]. cbv zeta.
  repeat match goal with |- guarded (if ?c then _ else _) => destruct c end.
  all: try apply guarded_mismatch_via_type.
  all: apply guarded_goto; apply guarded_qbind; try (intros n; apply guarded_read_chunks); first [exact I | apply guarded_get_value].
Qed.

Lemma guarded_read_size fuel o a b c : guarded (mps_read_size fuel o a b c).
Proof.
  unfold mps_read_size. apply guarded_peek. intros [x|]; [|exact I].
  repeat match goal with |- guarded (if ?c then _ else _) => destruct c end; gd_leaf.
Qed.

Lemma guarded_read_bin_size fuel o : guarded (mps_read_bin_size fuel o).
Proof.
  unfold mps_read_bin_size. apply guarded_peek. intros [x|]; [|exact I].
  repeat match goal with |- guarded (if ?c then _ else _) => destruct c end; gd_leaf.
Qed.

Lemma guarded_read_binary : guarded mps_read_binary.
Proof. unfold mps_read_binary. apply guarded_read_byte. intros o. exact I. Qed.

Lemma guarded_read_ts fuel o : guarded (mps_read_ts fuel o).
Proof.
  unfold mps_read_ts. apply guarded_pbind; [apply guarded_read_ext_family | |].
  - intros [[x|]| |e| |]; try exact I; try apply guarded_mismatch_via_type.
    destruct (x_code x =? 0xFF); [|apply guarded_mismatch_via_type].
    apply guarded_get_pos. intros p. apply guarded_set_pos.
    + intros [|]; cbn [negb]; [|exact I].
      repeat match goal with |- guarded (if ?c then _ else _) => destruct c end; try exact I.
      * apply guarded_qbind; [apply guarded_get_value | intros v; exact I].
      * apply guarded_qbind; [apply guarded_get_value | intros v; exact I].
      * apply guarded_qbind; [apply guarded_get_value|]. intros sec.
        apply guarded_qbind; [apply guarded_get_value | intros v; exact I].
    + reflexivity.
  - reflexivity.
Qed.

Lemma guarded_op narrow widen fuel o op : guarded (mps_op narrow widen fuel o op).
Proof.
  destruct op; cbn [mps_op]; try apply guarded_pmap.
  - apply guarded_read_int.
  - apply guarded_read_nil.
  - apply guarded_read_f32.
  - apply guarded_read_f64.
  - apply guarded_read_str.
  - apply guarded_read_size.
  - apply guarded_read_size.
  - apply guarded_read_bin_size.
  - apply guarded_read_binary.
  - apply guarded_read_ts.
  - apply guarded_read_value_type.
  - apply guarded_skip_impl.
  - apply guarded_set_pos; [intros b; exact I|]. reflexivity.
  - apply guarded_is_end. intros b. exact I.
Qed.

(* a SetPosition that is not local is refused on a stream without seek support *)
Lemma bsr_set_position_nonlocal K data s q :
  is_seekable (b_is s) = false -> setpos_local data s q = false -> fst (bsr_set_position K s q) = false.
Proof.
  intros Hs Hl. unfold setpos_local, in_window in Hl.
  apply orb_false_iff in Hl. destruct Hl as [Hl H3]. apply orb_false_iff in Hl. destruct Hl as [H1 H2].
  unfold bsr_set_position. rewrite H1, H2.
  unfold is_seekg, is_clear, is_sentry, is_good. cbn [is_eof is_fail is_seekable negb andb fst snd].
  rewrite Hs. reflexivity.
Qed.

Lemma interp_pbind {S A B} (step : S -> bop -> outcome (bres * S)) (p : prog A) (f : A -> prog B) : forall s,
  interp step (pbind p f) s = match interp step p s with Ok (a, s1) => interp step (f a) s1 | Fault => Fault end.
Proof.
  induction p as [a| |op k IH]; intros s; cbn [pbind interp]; try reflexivity.
  destruct (step s op) as [[r s']|]; [apply IH | reflexivity].
Qed.

(* run a guarded program on the chunked reader over a non-seekable stream: either every answer was one
   the reference accepts (so a wp statement applies), or a SetPosition was refused and the program
   returned one of the two exceptions *)
Lemma interp_guarded K data : (0 < K)%nat -> fits_streamoff data ->
  forall (A : Type) (p : prog (sr A)) s m Q,
  Rel K data s m -> is_seekable (b_is s) = false -> guarded p -> wp K data p m Q ->
  exists a s', interp (bsr_step K) p s = Ok (a, s') /\
    ((exists m', Q a m' /\ Rel K data s' m' /\ is_seekable (b_is s') = false) \/ thr a).
Proof.
  intros HK Hl A. induction p as [a| |op k IH]; intros s m Q HR Hs Hg H; cbn [wp interp guarded] in *.
  - exists a, s. split; [reflexivity|]. left. exists m. auto.
  - contradiction.
  - destruct H as [Hw Hk]. destruct Hg as [Gk Gop].
    assert (Local : (m_failed m = false -> is_seekable (b_is s) = true \/ op_local data s op = true) ->
              exists a s', (match bsr_step K s op with Ok (r, s'0) => interp (bsr_step K) (k r) s'0 | Fault => Fault end) = Ok (a, s') /\
                ((exists m', Q a m' /\ Rel K data s' m' /\ is_seekable (b_is s') = false) \/ thr a)).
    { intros Hint. destruct (step_refines K HK data Hl s m op HR Hw Hint) as [r [s' [m' [E1 [E2 [R' Sk]]]]]].
      rewrite E1. apply (IH r s' m' Q R'); [congruence | apply Gk | apply Hk; exact E2]. }
    destruct (m_failed m) eqn:F; [apply Local; intros; discriminate|].
    destruct (op_local data s op) eqn:Eloc; [apply Local; intros _; right; reflexivity|].
    destruct op; cbn [op_local] in Eloc; try discriminate Eloc.
    cbn [bsr_step]. pose proof (bsr_set_position_nonlocal K data s p Hs Eloc) as Hb.
    destruct (bsr_set_position K s p) as [b s1]. cbn [fst] in Hb. subst b.
    rewrite Gop. cbn [interp]. exists QIO, s1. split; [reflexivity | right; right; reflexivity].
Qed.

(* ---- sequences and clients ---- *)
Definition exc_ans (a : ans) : Prop := a = AErrOf EParse \/ a = AIOErr.

(* the stream-side answers are the string-side answers, or agree with them up to a point and end there in
   ParsingError / InputOutputError *)
Definition same_or_throws (stream str : list ans) : Prop :=
  stream = str \/ exists pre rest e, str = pre ++ rest /\ stream = pre ++ [e] /\ exc_ans e.

Lemma same_or_throws_cons a l1 l2 : same_or_throws l1 l2 -> same_or_throws (a :: l1) (a :: l2).
Proof.
  intros [->|[pre [rest [e [-> [-> He]]]]]]; [left; reflexivity|].
  right. exists (a :: pre), rest, e. auto.
Qed.

Lemma same_or_throws_first e str : exc_ans e -> same_or_throws [e] str.
Proof. intros He. right. exists [], str, e. auto. Qed.

Section NoSilent.
  Variable K : nat.
  Variable data : list N.
  Hypothesis HK : (8 <= K)%nat.
  Hypothesis Hl : fits_streamoff data.
  Hypothesis Hb : bytes_ok data.
  Variable narrow : N -> option N.
  Variable widen : N -> N.
  Variable fuel : nat.
  Variable o : opts.
  Hypothesis Hf : (length data < fuel)%nat.

  Lemma HK0 : (0 < K)%nat.
  Proof. lia. Qed.

  (* one call *)
  Lemma op_nonseek op d s : Suffix data d -> rop_ok data op = true ->
    Rel K data s (st data d) -> is_seekable (b_is s) = false ->
    exists a s', interp (bsr_step K) (mps_op narrow widen fuel o op) s = Ok (a, s') /\
      ((exists m', post data (str_op narrow widen data o op d) a m' /\ Rel K data s' m' /\ is_seekable (b_is s') = false)
       \/ thr a).
  Proof.
    intros HS Hok HR Hs. pose proof (suffix_len K data HK Hl d HS) as Hlen.
    apply (interp_guarded K data HK0 Hl _ _ s (st data d)); try assumption.
    - apply guarded_op.
    - apply wp_op; try assumption. lia.
  Qed.

  (* GetPosition() after a call that returned *)
  Lemma getpos_nonseek {A} (k : N -> prog A) r s : Rel K data s (st data r) ->
    interp (bsr_step K) (get_position k) s = interp (bsr_step K) (k (N.of_nat (length data - length r))) s.
  Proof.
    intros [_ HR]. destruct (HR eq_refl) as [_ [_ [_ P]]]. cbn [st m_pos] in P.
    cbn [get_position interp bsr_step]. rewrite <- P. reflexivity.
  Qed.

  Theorem seq_nonseek_steps : forall ops d s, Suffix data d -> forallb (rop_ok data) ops = true ->
    Rel K data s (st data d) -> is_seekable (b_is s) = false ->
    exists l s', interp (bsr_step K) (mps_seq narrow widen fuel o ops) s = Ok (l, s') /\
                 same_or_throws l (str_seq narrow widen data o ops d).
  Proof.
    induction ops as [|op tl IH]; intros d s HS Hok HR Hs.
    { exists [], s. split; [reflexivity | left; reflexivity]. }
    cbn [forallb] in Hok. apply andb_true_iff in Hok. destruct Hok as [Hok1 Hok2].
    cbn [mps_seq str_seq]. rewrite interp_pbind.
    destruct (op_nonseek op d s HS Hok1 HR Hs) as [a [s1 [E [[m' [Hp [R1 S1]]]|Ht]]]]; rewrite E.
    - destruct (str_op narrow widen data o op d) as [v r|r|e|]; cbn [post] in Hp.
      + destruct Hp as [-> [-> HSr]]. rewrite (getpos_nonseek _ r s1 R1). rewrite interp_pbind.
        destruct (IH r s1 HSr Hok2 R1 S1) as [l [s2 [E2 H2]]]. rewrite E2. cbn [interp].
        eexists _, s2. split; [reflexivity|]. apply same_or_throws_cons. exact H2.
      + destruct Hp as [-> [-> HSr]]. rewrite (getpos_nonseek _ r s1 R1). rewrite interp_pbind.
        destruct (IH r s1 HSr Hok2 R1 S1) as [l [s2 [E2 H2]]]. rewrite E2. cbn [interp].
        eexists _, s2. split; [reflexivity|]. apply same_or_throws_cons. exact H2.
      + subst a. cbn [interp]. eexists _, s1. split; [reflexivity | left; reflexivity].
      + subst a. cbn [interp]. eexists _, s1. split; [reflexivity | left; reflexivity].
    - destruct Ht as [->| ->]; cbn [interp]; eexists _, s1; (split; [reflexivity|]); apply same_or_throws_first;
        [left | right]; reflexivity.
  Qed.

  (* clients: the transcript is the string-side transcript, or a prefix of it followed by the call that threw *)
  Definition client_same_or_throws {A} (stream str : transcript * option A) : Prop :=
    stream = str \/
    exists pre rest op e, fst str = pre ++ rest /\ stream = (pre ++ [(op, e)], None) /\ exc_ans e.

  Lemma str_client_extends {A} : forall (c : client A) t d,
    exists x, fst (str_client narrow widen data o c t d) = t ++ x.
  Proof.
    induction c as [a|op k IH]; intros t d; cbn [str_client].
    - exists []. cbn. rewrite app_nil_r. reflexivity.
    - destruct (str_op narrow widen data o op d) as [v r|r|e|]; cbv zeta.
      + destruct (IH (AOkAt v (N.of_nat (length data - length r))) (t ++ [(op, AOkAt v (N.of_nat (length data - length r)))]) r) as [x E].
        rewrite E. eexists. rewrite <- app_assoc. reflexivity.
      + destruct (IH (ANotAt (N.of_nat (length data - length r))) (t ++ [(op, ANotAt (N.of_nat (length data - length r)))]) r) as [x E].
        rewrite E. eexists. rewrite <- app_assoc. reflexivity.
      + eexists. reflexivity.
      + eexists. reflexivity.
  Qed.

  Theorem client_nonseek_steps {A} : forall (c : client A) t d s, Suffix data d ->
    client_seeks_ok narrow widen data o c d = true ->
    Rel K data s (st data d) -> is_seekable (b_is s) = false ->
    exists res s', interp (bsr_step K) (mps_client narrow widen fuel o c t) s = Ok (res, s') /\
                   client_same_or_throws res (str_client narrow widen data o c t d).
  Proof.
    induction c as [a|op k IH]; intros t d s HS Hok HR Hs.
    { eexists _, s. split; [reflexivity | left; reflexivity]. }
    cbn [client_seeks_ok] in Hok. apply andb_true_iff in Hok. destruct Hok as [Hok1 Hok2].
    cbn [mps_client]. rewrite interp_pbind.
    assert (Throw : forall e, exc_ans e ->
              client_same_or_throws (A := A) (t ++ [(op, e)], None) (str_client narrow widen data o (CCall op k) t d)).
    { intros e He. right. destruct (str_client_extends (CCall op k) t d) as [x Ex].
      exists t, x, op, e. auto. }
    destruct (op_nonseek op d s HS Hok1 HR Hs) as [a [s1 [E [[m' [Hp [R1 S1]]]|Ht]]]]; rewrite E.
    - cbn [str_client]. revert Hok2 Hp. destruct (str_op narrow widen data o op d) as [v r|r|e|]; intros Hok2 Hp; cbn [post] in Hp.
      + destruct Hp as [-> [-> HSr]]. rewrite (getpos_nonseek _ r s1 R1). cbv zeta. apply IH; assumption.
      + destruct Hp as [-> [-> HSr]]. rewrite (getpos_nonseek _ r s1 R1). cbv zeta. apply IH; assumption.
      + subst a. cbn [interp]. eexists _, s1. split; [reflexivity | left; reflexivity].
      + subst a. cbn [interp]. eexists _, s1. split; [reflexivity | left; reflexivity].
    - destruct Ht as [->| ->]; cbn [interp]; eexists _, s1; (split; [reflexivity|]); apply Throw;
        [left | right]; reflexivity.
  Qed.
End NoSilent.

(* C10 on a stream without seek support: NO SILENT DIFFERENCE.  For every chunk size K >= 8, every data and
   every list of reads, CMsgPackStreamReader over the chunked reader on a non-seekable stream gives the
   answers of CMsgPackStringReader, or gives them up to some call and ends there in ParsingError or
   InputOutputError — never a different value, never a different position. *)
Theorem seq_nonseekable_no_silent K data narrow widen fuel o ops :
  (8 <= K)%nat -> fits_streamoff data -> bytes_ok data -> (length data < fuel)%nat ->
  forallb (rop_ok data) ops = true ->
  exists l, mps_run_bsr narrow widen K (stream_of data false) fuel o ops = Ok l /\
            same_or_throws l (str_run narrow widen data o ops).
Proof.
  intros HK Hl Hb Hf Hok. unfold mps_run_bsr, str_run.
  assert (HK0' : (0 < K)%nat) by lia.
  destruct (new_rel K HK0' data Hl false) as [HR Hs]. rewrite <- (st_data data) in HR.
  destruct (seq_nonseek_steps K data HK Hl Hb narrow widen fuel o Hf ops data _ (suffix_data data) Hok HR Hs) as [l [s' [E H]]].
  exists l. rewrite E. split; [reflexivity | exact H].
Qed.

Theorem client_nonseekable_no_silent K data narrow widen fuel o (A : Type) (c : client A) :
  (8 <= K)%nat -> fits_streamoff data -> bytes_ok data -> (length data < fuel)%nat ->
  client_seeks_ok narrow widen data o c data = true ->
  exists res, mps_client_bsr narrow widen K (stream_of data false) fuel o c = Ok res /\
              client_same_or_throws res (str_client_run narrow widen data o c).
Proof.
  intros HK Hl Hb Hf Hok. unfold mps_client_bsr, str_client_run.
  assert (HK0' : (0 < K)%nat) by lia.
  destruct (new_rel K HK0' data Hl false) as [HR Hs]. rewrite <- (st_data data) in HR.
  destruct (client_nonseek_steps K data HK Hl Hb narrow widen fuel o Hf c [] data _ (suffix_data data) Hok HR Hs) as [res [s' [E H]]].
  exists res. rewrite E. split; [reflexivity | exact H].
Qed.

(* ================================================================== non-seekable streams: the class is exact *)

Lemma psf_pbind {A B} K data (p : prog A) (f : A -> prog B) : forall s,
  prog_seek_free K data (pbind p f) s =
  prog_seek_free K data p s &&
  match interp (bsr_step K) p s with Ok (a, s1) => prog_seek_free K data (f a) s1 | Fault => true end.
Proof.
  induction p as [a| |op k IH]; intros s; cbn [pbind prog_seek_free interp]; try reflexivity.
  destruct (bsr_step K s op) as [[r s']|]; [|rewrite !andb_true_r; reflexivity].
  rewrite IH, andb_assoc. reflexivity.
Qed.

(* a live reference reader dies only by refusing a SetPosition *)
Lemma mem_step_dies K data m op r m' : m_failed m = false -> mem_step K data m op r = Some m' ->
  m_failed m' = true -> exists p, op = OSetPos p /\ r = RBool false.
Proof.
  intros F E D. unfold mem_step in E. rewrite F in E.
  destruct op, r; try discriminate E.
  all: repeat match type of E with
       | context [if ?c then _ else _] => destruct c
       end; try discriminate E; injection E as <-; cbn [m_failed] in D; try congruence.
  all: try (eexists; split; reflexivity).
Qed.

(* run a guarded program on the chunked reader over a non-seekable stream: EITHER every SetPosition of the run
   was local, all answers were accepted by the reference and a wp statement applies, OR one was not and the
   program returned InputOutputError *)
Lemma interp_guarded_exact K data : (0 < K)%nat -> fits_streamoff data ->
  forall (A : Type) (p : prog (sr A)) s m (Q : sr A -> mem -> Prop),
  (forall m', ~ Q QIO m') ->
  Rel K data s m -> m_failed m = false -> is_seekable (b_is s) = false -> guarded p -> wp K data p m Q ->
  exists a s', interp (bsr_step K) p s = Ok (a, s') /\
    ((prog_seek_free K data p s = true /\ exists m', Q a m' /\ Rel K data s' m' /\ is_seekable (b_is s') = false)
     \/ (prog_seek_free K data p s = false /\ a = QIO)).
Proof.
  intros HK Hl A p s m Q HQ. revert s m.
  induction p as [a| |op k IH]; intros s m HR F Hs Hg H; cbn [wp interp guarded prog_seek_free] in *.
  - exists a, s. split; [reflexivity|]. left. split; [reflexivity|]. exists m. auto.
  - contradiction.
  - destruct H as [Hw Hk]. destruct Hg as [Gk Gop].
    destruct (op_local data s op) eqn:Eloc.
    + destruct (step_refines K HK data Hl s m op HR Hw (fun _ => or_intror Eloc)) as [r [s' [m' [E1 [E2 [R' Sk]]]]]].
      rewrite E1. cbn [andb].
      destruct (m_failed m') eqn:F'.
      * exfalso. destruct (mem_step_dies K data m op r m' F E2 F') as [q [-> ->]].
        pose proof (Hk _ _ E2) as Hbad. rewrite Gop in Hbad. cbn [wp] in Hbad. exact (HQ _ Hbad).
      * apply (IH r s' m' R' F'); [congruence | apply Gk | apply Hk; exact E2].
    + destruct op; cbn [op_local] in Eloc; try discriminate Eloc.
      cbn [bsr_step andb]. pose proof (bsr_set_position_nonlocal K data s p Hs Eloc) as Hb.
      destruct (bsr_set_position K s p) as [b s1]. cbn [fst] in Hb. subst b.
      rewrite Gop. cbn [interp]. exists QIO, s1. split; [reflexivity | right; split; reflexivity].
Qed.

Lemma post_not_io {A} data (x : rres A) m' : ~ post data x QIO m'.
Proof. destruct x; cbn [post]; intros H; try discriminate H; destruct H as [H _]; discriminate H. Qed.

Lemma str_seq_no_io narrow widen data o : forall ops d, ~ In AIOErr (str_seq narrow widen data o ops d).
Proof.
  induction ops as [|op tl IH]; intros d; cbn [str_seq]; [intros []|].
  destruct (str_op narrow widen data o op d) as [v r|r|e|]; cbn [In]; intros [H|H]; try discriminate H; try contradiction.
  - exact (IH r H).
  - exact (IH r H).
Qed.

Section Exact.
  Variable K : nat.
  Variable data : list N.
  Hypothesis HK : (8 <= K)%nat.
  Hypothesis Hl : fits_streamoff data.
  Hypothesis Hb : bytes_ok data.
  Variable narrow : N -> option N.
  Variable widen : N -> N.
  Variable fuel : nat.
  Variable o : opts.
  Hypothesis Hf : (length data < fuel)%nat.

  Lemma HK0e : (0 < K)%nat.
  Proof. lia. Qed.

  Lemma op_nonseek_exact op d s : Suffix data d -> rop_ok data op = true ->
    Rel K data s (st data d) -> is_seekable (b_is s) = false ->
    exists a s', interp (bsr_step K) (mps_op narrow widen fuel o op) s = Ok (a, s') /\
      ((prog_seek_free K data (mps_op narrow widen fuel o op) s = true /\
        exists m', post data (str_op narrow widen data o op d) a m' /\ Rel K data s' m' /\ is_seekable (b_is s') = false)
       \/ (prog_seek_free K data (mps_op narrow widen fuel o op) s = false /\ a = QIO)).
  Proof.
    intros HS Hok HR Hs. pose proof (suffix_len K data HK Hl d HS) as Hlen.
    apply (interp_guarded_exact K data HK0e Hl _ _ s (st data d)); try assumption.
    - intros m'. apply post_not_io.
    - reflexivity.
    - apply guarded_op.
    - apply wp_op; try assumption. lia.
  Qed.

  Lemma psf_getpos {A} (k : N -> prog A) r s : Rel K data s (st data r) ->
    prog_seek_free K data (get_position k) s = prog_seek_free K data (k (N.of_nat (length data - length r))) s.
  Proof.
    intros [_ HR]. destruct (HR eq_refl) as [_ [_ [_ P]]]. cbn [st m_pos] in P.
    cbn [get_position prog_seek_free bsr_step op_local andb]. rewrite <- P. reflexivity.
  Qed.

  (* the answers are the string reader's exactly when every SetPosition of the run is local; otherwise they are
     a prefix of them followed by InputOutputError *)
  Theorem seq_nonseek_exact : forall ops d s, Suffix data d -> forallb (rop_ok data) ops = true ->
    Rel K data s (st data d) -> is_seekable (b_is s) = false ->
    exists l s', interp (bsr_step K) (mps_seq narrow widen fuel o ops) s = Ok (l, s') /\
      ((prog_seek_free K data (mps_seq narrow widen fuel o ops) s = true /\ l = str_seq narrow widen data o ops d)
       \/ (prog_seek_free K data (mps_seq narrow widen fuel o ops) s = false /\ exists pre, l = pre ++ [AIOErr])).
  Proof.
    induction ops as [|op tl IH]; intros d s HS Hok HR Hs.
    { exists [], s. split; [reflexivity|]. left. split; reflexivity. }
    cbn [forallb] in Hok. apply andb_true_iff in Hok. destruct Hok as [Hok1 Hok2].
    cbn [mps_seq str_seq]. rewrite interp_pbind, psf_pbind.
    destruct (op_nonseek_exact op d s HS Hok1 HR Hs) as [a [s1 [E [[P1 [m' [Hp [R1 S1]]]]|[P1 ->]]]]]; rewrite E, P1; cbn [andb].
    - destruct (str_op narrow widen data o op d) as [v r|r|e|]; cbn [post] in Hp.
      + destruct Hp as [-> [-> HSr]]. rewrite (getpos_nonseek K data _ r s1 R1), (psf_getpos _ r s1 R1).
        rewrite interp_pbind, psf_pbind.
        destruct (IH r s1 HSr Hok2 R1 S1) as [l [s2 [E2 [[P2 ->]|[P2 [pre ->]]]]]]; rewrite E2, P2; cbn [interp prog_seek_free andb].
        * eexists _, s2. split; [reflexivity|]. left. split; reflexivity.
        * eexists _, s2. split; [reflexivity|]. right. split; [reflexivity|]. eexists (_ :: pre). reflexivity.
      + destruct Hp as [-> [-> HSr]]. rewrite (getpos_nonseek K data _ r s1 R1), (psf_getpos _ r s1 R1).
        rewrite interp_pbind, psf_pbind.
        destruct (IH r s1 HSr Hok2 R1 S1) as [l [s2 [E2 [[P2 ->]|[P2 [pre ->]]]]]]; rewrite E2, P2; cbn [interp prog_seek_free andb].
        * eexists _, s2. split; [reflexivity|]. left. split; reflexivity.
        * eexists _, s2. split; [reflexivity|]. right. split; [reflexivity|]. eexists (_ :: pre). reflexivity.
      + subst a. cbn [interp prog_seek_free]. eexists _, s1. split; [reflexivity|]. left. split; reflexivity.
      + subst a. cbn [interp prog_seek_free]. eexists _, s1. split; [reflexivity|]. left. split; reflexivity.
    - cbn [interp]. eexists _, s1. split; [reflexivity|]. right. split; [reflexivity|]. exists []. reflexivity.
  Qed.
End Exact.

(* C10 on a stream without seek support, exact class: the stream reader's answers are the string reader's IF AND
   ONLY IF no SetPosition of the run leaves the cached window (nonseek_ok); otherwise they are a prefix of them
   followed by InputOutputError *)
Theorem seq_nonseekable_exact K data narrow widen fuel o ops :
  (8 <= K)%nat -> fits_streamoff data -> bytes_ok data -> (length data < fuel)%nat ->
  forallb (rop_ok data) ops = true ->
  (mps_run_bsr narrow widen K (stream_of data false) fuel o ops = Ok (str_run narrow widen data o ops) <->
   nonseek_ok narrow widen K data fuel o ops = true).
Proof.
  intros HK Hl Hb Hf Hok. split; [|apply seq_nonseekable_outside; assumption].
  intros Heq. unfold mps_run_bsr, str_run, nonseek_ok in *.
  assert (HK0' : (0 < K)%nat) by lia.
  destruct (new_rel K HK0' data Hl false) as [HR Hs]. rewrite <- (st_data data) in HR.
  destruct (seq_nonseek_exact K data HK Hl Hb narrow widen fuel o Hf ops data _ (suffix_data data) Hok HR Hs)
    as [l [s' [E [[P _]|[P [pre Hpre]]]]]]; [exact P|].
  exfalso. rewrite E in Heq. injection Heq as Heq.
  apply (str_seq_no_io narrow widen data o ops data). rewrite <- Heq, Hpre. apply in_or_app. right. left. reflexivity.
Qed.

Theorem seq_nonseekable_nonlocal K data narrow widen fuel o ops :
  (8 <= K)%nat -> fits_streamoff data -> bytes_ok data -> (length data < fuel)%nat ->
  forallb (rop_ok data) ops = true ->
  nonseek_ok narrow widen K data fuel o ops = false ->
  exists pre, mps_run_bsr narrow widen K (stream_of data false) fuel o ops = Ok (pre ++ [AIOErr]).
Proof.
  intros HK Hl Hb Hf Hok Hns. unfold mps_run_bsr, nonseek_ok in *.
  assert (HK0' : (0 < K)%nat) by lia.
  destruct (new_rel K HK0' data Hl false) as [HR Hs]. rewrite <- (st_data data) in HR.
  destruct (seq_nonseek_exact K data HK Hl Hb narrow widen fuel o Hf ops data _ (suffix_data data) Hok HR Hs)
    as [l [s' [E [[P _]|[P [pre Hpre]]]]]]; [congruence|].
  exists pre. rewrite E, Hpre. reflexivity.
Qed.

(* ================================================================== clients that only read and skip forward *)

(* no SetPosition anywhere in the program *)
Fixpoint no_setpos {A} (p : prog A) : Prop :=
  match p with
  | Ret _ => True
  | Bad => True
  | Op op k => (match op with OSetPos _ => False | _ => True end) /\ forall r, no_setpos (k r)
  end.

Lemma no_setpos_seek_free {A} K data (p : prog A) : no_setpos p -> forall s, prog_seek_free K data p s = true.
Proof.
  induction p as [a| |op k IH]; intros H s; cbn [prog_seek_free no_setpos] in *; try reflexivity.
  destruct H as [Hop Hk]. destruct op; try contradiction; cbn [op_local andb];
    (destruct (bsr_step K s _) as [[r s']|]; [apply IH; apply Hk | reflexivity]).
Qed.

Lemma no_setpos_pbind {A B} (p : prog A) (f : A -> prog B) : no_setpos p -> (forall a, no_setpos (f a)) -> no_setpos (pbind p f).
Proof.
  intros Hp Hf. induction p as [a| |op k IH]; cbn [pbind no_setpos] in *; [apply Hf | exact I|].
  destruct Hp as [Hop Hk]. split; [exact Hop | intros r; apply IH; apply Hk].
Qed.

Lemma no_setpos_qbind {A B} (p : prog (sr A)) (f : A -> prog (sr B)) : no_setpos p -> (forall a, no_setpos (f a)) -> no_setpos (qbind p f).
Proof. intros Hp Hf. apply no_setpos_pbind; [exact Hp|]. intros [a| |e| |]; cbn [no_setpos]; auto. Qed.

Ltac nsp_prim := split; [exact I | intros r; destruct r; cbn [no_setpos]; auto].
Lemma no_setpos_peek {A} (k : option N -> prog A) : (forall x, no_setpos (k x)) -> no_setpos (peek_byte k).
Proof. intros H. nsp_prim. Qed.
Lemma no_setpos_goto {A} (k : prog A) : no_setpos k -> no_setpos (goto_next k).
Proof. intros H. nsp_prim. Qed.
Lemma no_setpos_read_byte {A} (k : option N -> prog A) : (forall x, no_setpos (k x)) -> no_setpos (read_byte k).
Proof. intros H. nsp_prim. Qed.
Lemma no_setpos_solid {A} n (k : list N -> prog A) : (forall x, no_setpos (k x)) -> no_setpos (solid_block n k).
Proof. intros H. nsp_prim. Qed.
Lemma no_setpos_chunks {A} n (k : list N -> prog A) : (forall x, no_setpos (k x)) -> no_setpos (by_chunks n k).
Proof. intros H. nsp_prim. Qed.
Lemma no_setpos_get_pos {A} (k : N -> prog A) : (forall x, no_setpos (k x)) -> no_setpos (get_position k).
Proof. intros H. nsp_prim. Qed.
Lemma no_setpos_is_end {A} (k : bool -> prog A) : (forall x, no_setpos (k x)) -> no_setpos (is_end k).
Proof. intros H. nsp_prim. Qed.

Lemma no_setpos_get_value k : no_setpos (mps_get_value k).
Proof.
  unfold mps_get_value. destruct (k =? 1).
  - apply no_setpos_read_byte. intros x. exact I.
  - apply no_setpos_solid. intros x. exact I.
Qed.

Lemma no_setpos_read_ext_size n : no_setpos (mps_read_ext_size n).
Proof. unfold mps_read_ext_size. destruct ((n =? 1) || (n =? 2) || (n =? 4)); [apply no_setpos_get_value | exact I]. Qed.

Lemma no_setpos_skip_bytes : forall lf n, no_setpos (mps_skip_bytes lf n).
Proof.
  induction lf as [|lf IH]; intros n; cbn [mps_skip_bytes]; destruct (n =? 0); try exact I.
  apply no_setpos_chunks. intros [|x l]; [exact I | apply IH].
Qed.

Lemma no_setpos_skip_rep step : no_setpos step -> forall g cnt, no_setpos (mps_skip_rep step g cnt).
Proof.
  intros Hs. induction g as [|g IH]; intros cnt; cbn [mps_skip_rep]; destruct (cnt =? 0); try exact I.
  apply no_setpos_qbind; [exact Hs | intros _; apply IH].
Qed.

(* since e491e27: SkipValueImpl never seeks *)
Lemma no_setpos_skip_impl lf : forall f, no_setpos (mps_skip_impl lf f).
Proof.
  induction f as [|f IH]; [exact I|]. cbn [mps_skip_impl]. apply no_setpos_read_byte. intros [b|]; [|exact I].
  destruct (vtype_eqb (m_ty (byte_meta b)) TUnknown); [exact I|].
  apply no_setpos_qbind.
  - destruct (negb (m_fixed (byte_meta b) =? 0)); [exact I|].
    destruct (negb (m_ext (byte_meta b) =? 0)); [apply no_setpos_read_ext_size | exact I].
  - intros ext0. cbv zeta.
    assert (Ch : forall ext, no_setpos (if ext =? 0 then Ret (QOk tt)
                  else match m_ty (byte_meta b) with
                       | TMap => mps_skip_rep (mps_skip_impl lf f) f (2 * ext)
                       | TArr => mps_skip_rep (mps_skip_impl lf f) f ext
                       | _ => Ret (QOk tt)
                       end)).
    { intros ext. destruct (ext =? 0); [exact I|].
      destruct (m_ty (byte_meta b)); try exact I; apply no_setpos_skip_rep; exact IH. }
    match goal with |- no_setpos (if ?c then _ else _) => destruct c end; [apply Ch|].
    apply no_setpos_qbind; [apply no_setpos_skip_bytes|]. intros [|]; [apply Ch | exact I].
Qed.

Lemma no_setpos_handle_mismatch {A} fuel o ty : no_setpos (@mps_handle_mismatch A fuel o ty).
Proof.
  unfold mps_handle_mismatch. match goal with |- no_setpos (if ?c then _ else _) => destruct c end; [exact I|].
  apply no_setpos_pbind; [apply no_setpos_skip_impl | intros a; exact I].
Qed.

Lemma no_setpos_read_int fuel o t : no_setpos (mps_read_int fuel o t).
Proof.
  unfold mps_read_int. apply no_setpos_peek. intros [b|]; [|exact I]. cbv zeta.
  repeat match goal with |- no_setpos (if ?c then _ else _) => destruct c end.
  all: first [ apply no_setpos_handle_mismatch
             | apply no_setpos_goto; first [exact I | apply no_setpos_qbind; [apply no_setpos_get_value | intros v; exact I]] ].
Qed.

Lemma no_setpos_read_nil fuel o : no_setpos (mps_read_nil fuel o).
Proof.
  unfold mps_read_nil. apply no_setpos_peek. intros [b|]; [|exact I].
  destruct (b =? 0xC0); [apply no_setpos_goto; exact I | apply no_setpos_handle_mismatch].
Qed.

(* the operations that never look ahead into an ext header and never seek: every integer / bool target, nil,
   ReadBinary, SkipValue, IsEnd *)
Definition forward_op (op : rop) : bool :=
  match op with RdInt _ | RdNil | RdByte | RdSkip | RdIsEnd => true | _ => false end.

Lemma no_setpos_forward_op narrow widen fuel o op : forward_op op = true -> no_setpos (mps_op narrow widen fuel o op).
Proof.
  destruct op; cbn [forward_op]; try discriminate; intros _; cbn [mps_op]; unfold pmap.
  - apply no_setpos_pbind; [apply no_setpos_read_int | intros a; exact I].
  - apply no_setpos_pbind; [apply no_setpos_read_nil | intros a; exact I].
  - apply no_setpos_pbind; [|intros a; exact I]. unfold mps_read_binary. apply no_setpos_read_byte. intros x. exact I.
  - apply no_setpos_pbind; [apply no_setpos_skip_impl | intros a; exact I].
  - apply no_setpos_is_end. intros b. exact I.
Qed.

Lemma no_setpos_forward_seq narrow widen fuel o : forall ops, forallb forward_op ops = true ->
  no_setpos (mps_seq narrow widen fuel o ops).
Proof.
  induction ops as [|op tl IH]; intros H; [exact I|]. cbn [forallb] in H. apply andb_true_iff in H. destruct H as [H1 H2].
  cbn [mps_seq]. apply no_setpos_pbind; [apply no_setpos_forward_op; exact H1|].
  intros [v| |e| |]; try exact I; apply no_setpos_get_pos; intros p;
    (apply no_setpos_pbind; [apply IH; exact H2 | intros rest; exact I]).
Qed.

Lemma forward_rop_ok data : forall ops, forallb forward_op ops = true -> forallb (rop_ok data) ops = true.
Proof.
  induction ops as [|op tl IH]; intros H; [reflexivity|]. cbn [forallb] in *. apply andb_true_iff in H. destruct H as [H1 H2].
  rewrite (IH H2), andb_true_r. destruct op; try reflexivity; discriminate H1.
Qed.

(* C10 on a stream without seek support: a client that only reads integers / bools / nil / binary bytes, skips
   values and asks IsEnd gets exactly the memory reader's answers — on every byte string, every chunk size >= 8 *)
Theorem forward_nonseekable_equals_memory K data narrow widen fuel o ops :
  (8 <= K)%nat -> fits_streamoff data -> bytes_ok data -> (length data < fuel)%nat ->
  forallb forward_op ops = true ->
  mps_run_bsr narrow widen K (stream_of data false) fuel o ops = Ok (str_run narrow widen data o ops).
Proof.
  intros HK Hl Hb Hf Hfw. apply seq_nonseekable_outside; try assumption.
  - apply forward_rop_ok. exact Hfw.
  - unfold nonseek_ok. apply no_setpos_seek_free. apply no_setpos_forward_seq. exact Hfw.
Qed.

(* ================================================================== clients whose look-ahead never meets an ext value *)

(* ReadValue(float / double / string_view / CBinTimestamp), ReadArraySize / ReadMapSize / ReadBinarySize and
   ReadValueType look at an ext header (and seek back) only when the value in front of them IS of the ext
   family.  [nsp_peek b0 p]: program p issues no SetPosition provided PeekByte answers b0 until something
   is consumed. *)
Fixpoint nsp_peek {A} (b0 : option N) (p : prog A) : Prop :=
  match p with
  | Ret _ => True
  | Bad => True
  | Op op k =>
    match op with
    | OPeek => nsp_peek b0 (k (RByte b0))
    | OSetPos _ => False
    | _ => forall r, no_setpos (k r)
    end
  end.

Lemma no_setpos_nsp_peek {A} b0 (p : prog A) : no_setpos p -> nsp_peek b0 p.
Proof.
  induction p as [a| |op k IH]; intros H; cbn [nsp_peek no_setpos] in *; try exact I.
  destruct H as [Hop Hk]. destruct op; try contradiction; try exact Hk. apply IH. apply Hk.
Qed.

Lemma nsp_peek_pbind {A B} b0 (p : prog A) (f : A -> prog B) :
  nsp_peek b0 p -> (forall a, no_setpos (f a)) -> nsp_peek b0 (pbind p f).
Proof.
  intros Hp Hf. induction p as [a| |op k IH]; cbn [pbind nsp_peek] in *.
  - apply no_setpos_nsp_peek. apply Hf.
  - exact I.
  - destruct op; try contradiction; try (intros r; apply no_setpos_pbind; [apply Hp | exact Hf]).
    apply IH. exact Hp.
Qed.

Definition not_ext (b0 : option N) : Prop :=
  match b0 with Some b => vtype_eqb (m_ty (byte_meta b)) TExt = false | None => True end.

Lemma nsp_read_value_type b0 : not_ext b0 -> nsp_peek b0 mps_read_value_type.
Proof.
  intros H. unfold mps_read_value_type. cbn [peek_byte nsp_peek]. destruct b0 as [b|]; [|exact I].
  cbn [not_ext] in H. rewrite H. exact I.
Qed.

Lemma nsp_mismatch_via_type {A} b0 fuel o : not_ext b0 -> nsp_peek b0 (@mps_mismatch_via_type A fuel o).
Proof.
  intros H. unfold mps_mismatch_via_type. apply nsp_peek_pbind; [apply nsp_read_value_type; exact H|].
  intros [t| |e| |]; try exact I. apply no_setpos_handle_mismatch.
Qed.

Lemma no_setpos_read_chunks : forall fuel n acc, no_setpos (mps_read_chunks fuel n acc).
Proof.
  induction fuel as [|fuel IH]; intros n acc; cbn [mps_read_chunks]; destruct (n =? 0); try exact I.
  apply no_setpos_chunks. intros [|x l]; [exact I | apply IH].
Qed.

Ltac nsp_branches :=
  repeat match goal with |- nsp_peek _ (if ?c then _ else _) => destruct c end;
  first [ apply nsp_mismatch_via_type; assumption
        | apply no_setpos_nsp_peek; apply no_setpos_goto;
          first [ exact I
                | apply no_setpos_get_value
                | apply no_setpos_qbind; [first [apply no_setpos_get_value | exact I] | intros ?; first [exact I | apply no_setpos_read_chunks]] ] ].

Lemma nsp_read_f32 narrow b0 fuel o : not_ext b0 -> nsp_peek b0 (mps_read_f32 narrow fuel o).
Proof. intros H. unfold mps_read_f32. cbn [peek_byte nsp_peek]. destruct b0 as [b|]; [|exact I]. nsp_branches. Qed.

Lemma nsp_read_f64 widen b0 fuel o : not_ext b0 -> nsp_peek b0 (mps_read_f64 widen fuel o).
Proof. intros H. unfold mps_read_f64. cbn [peek_byte nsp_peek]. destruct b0 as [b|]; [|exact I]. nsp_branches. Qed.

Lemma nsp_read_str b0 fuel o : not_ext b0 -> nsp_peek b0 (mps_read_str fuel o).
Proof. intros H. unfold mps_read_str. cbn [peek_byte nsp_peek]. destruct b0 as [b|]; [|exact I]. cbv zeta. nsp_branches. Qed.

Lemma nsp_read_size b0 fuel o x y z : not_ext b0 -> nsp_peek b0 (mps_read_size fuel o x y z).
Proof. intros H. unfold mps_read_size. cbn [peek_byte nsp_peek]. destruct b0 as [b|]; [|exact I]. nsp_branches. Qed.

Lemma nsp_read_bin_size b0 fuel o : not_ext b0 -> nsp_peek b0 (mps_read_bin_size fuel o).
Proof. intros H. unfold mps_read_bin_size. cbn [peek_byte nsp_peek]. destruct b0 as [b|]; [|exact I]. nsp_branches. Qed.

Lemma nsp_read_ts b0 fuel o : not_ext b0 -> nsp_peek b0 (mps_read_ts fuel o).
Proof.
  intros H. unfold mps_read_ts, mps_read_ext_family. cbn [peek_byte pbind nsp_peek]. destruct b0 as [b|]; [|exact I].
  cbn [not_ext] in H. rewrite H. cbn [negb pbind]. apply nsp_mismatch_via_type. exact H.
Qed.

(* forward_op, or a look-ahead operation *)
Definition lookahead_op (op : rop) : bool :=
  match op with RdF32 | RdF64 | RdStr | RdArr | RdMap | RdBin | RdTs | RdType => true | _ => false end.

Lemma nsp_op narrow widen fuel o op b0 : forward_op op = true \/ (lookahead_op op = true /\ not_ext b0) ->
  nsp_peek b0 (mps_op narrow widen fuel o op).
Proof.
  intros [H|[H Hn]].
  - apply no_setpos_nsp_peek. apply no_setpos_forward_op. exact H.
  - destruct op; cbn [lookahead_op] in H; try discriminate H; cbn [mps_op]; unfold pmap;
      (apply nsp_peek_pbind; [|intros a; exact I]).
    + apply nsp_read_f32. exact Hn.
    + apply nsp_read_f64. exact Hn.
    + apply nsp_read_str. exact Hn.
    + apply nsp_read_size. exact Hn.
    + apply nsp_read_size. exact Hn.
    + apply nsp_read_bin_size. exact Hn.
    + apply nsp_read_ts. exact Hn.
    + apply nsp_read_value_type. exact Hn.
Qed.

(* on the chunked reader standing at suffix d, PeekByte answers the first byte of d and moves nothing *)
Lemma nsp_peek_seek_free K data : (8 <= K)%nat -> fits_streamoff data ->
  forall (A : Type) (p : prog A) d s, Suffix data d -> Rel K data s (st data d) ->
  nsp_peek (hd_error d) p -> prog_seek_free K data p s = true.
Proof.
  intros HK Hl A. assert (HK0' : (0 < K)%nat) by lia.
  induction p as [a| |op k IH]; intros d s HS HR H; cbn [prog_seek_free nsp_peek] in *; try reflexivity.
  destruct op; try contradiction; cbn [op_local andb];
    try (destruct (bsr_step K s _) as [[r s']|]; [apply no_setpos_seek_free; apply H | reflexivity]).
  (* OPeek *)
  destruct (step_refines K HK0' data Hl s (st data d) OPeek HR I (fun _ => or_intror eq_refl)) as [r [s' [m' [E1 [E2 [R' _]]]]]].
  rewrite E1. unfold mem_step in E2. cbn [st m_failed m_pos] in E2.
  destruct r; try discriminate E2.
  destruct (opt_eqb o (nth_error data (length data - length d))) eqn:Eo; [|discriminate E2].
  injection E2 as <-. apply opt_eqb_eq in Eo. rewrite (suffix_nth K data HK Hl d HS) in Eo. subst o.
  apply (IH _ d s' HS R' H).
Qed.

(* the class, decided on the string reader's run, independent of the chunk size and of the stream: no SetPosition
   call, and no look-ahead call in front of an ext-family value *)
Definition first_not_ext (d : list N) : bool :=
  match d with b :: _ => negb (vtype_eqb (m_ty (byte_meta b)) TExt) | [] => true end.

Fixpoint lookahead_free (narrow : N -> option N) (widen : N -> N) (data : list N) (o : opts) (ops : list rop) (d : list N) : bool :=
  match ops with
  | [] => true
  | op :: tl =>
    (forward_op op || (lookahead_op op && first_not_ext d)) &&
    match str_op narrow widen data o op d with
    | ROk _ r => lookahead_free narrow widen data o tl r
    | RNot r => lookahead_free narrow widen data o tl r
    | _ => true
    end
  end.

Lemma lookahead_rop_ok op : forward_op op || lookahead_op op = true -> forall data, rop_ok data op = true.
Proof. destruct op; cbn; intros H data; try reflexivity; discriminate H. Qed.

Section Look.
  Variable K : nat.
  Variable data : list N.
  Hypothesis HK : (8 <= K)%nat.
  Hypothesis Hl : fits_streamoff data.
  Hypothesis Hb : bytes_ok data.
  Variable narrow : N -> option N.
  Variable widen : N -> N.
  Variable fuel : nat.
  Variable o : opts.
  Hypothesis Hf : (length data < fuel)%nat.

  Theorem lookahead_free_steps : forall ops d s, Suffix data d ->
    lookahead_free narrow widen data o ops d = true ->
    Rel K data s (st data d) -> is_seekable (b_is s) = false ->
    prog_seek_free K data (mps_seq narrow widen fuel o ops) s = true.
  Proof.
    induction ops as [|op tl IH]; intros d s HS Hla HR Hs; [reflexivity|].
    cbn [lookahead_free] in Hla. apply andb_true_iff in Hla. destruct Hla as [Hop Hrest].
    assert (Hok : rop_ok data op = true).
    { apply lookahead_rop_ok. apply orb_true_iff in Hop. destruct Hop as [H|H]; [rewrite H; reflexivity|].
      apply andb_true_iff in H. destruct H as [H _]. rewrite H. apply orb_true_r. }
    assert (Hnsp : prog_seek_free K data (mps_op narrow widen fuel o op) s = true).
    { apply (nsp_peek_seek_free K data HK Hl _ _ d s HS HR). apply nsp_op.
      apply orb_true_iff in Hop. destruct Hop as [H|H]; [left; exact H|]. right.
      apply andb_true_iff in H. destruct H as [H1 H2]. split; [exact H1|].
      destruct d as [|b r]; cbn [hd_error not_ext first_not_ext] in *; [exact I|]. apply negb_true_iff. exact H2. }
    cbn [mps_seq]. rewrite psf_pbind, Hnsp. cbn [andb].
    destruct (op_nonseek_exact K data HK Hl Hb narrow widen fuel o Hf op d s HS Hok HR Hs)
      as [a [s1 [E [[_ [m' [Hp [R1 S1]]]]|[P1 _]]]]]; [|congruence].
    rewrite E. revert Hrest Hp. destruct (str_op narrow widen data o op d) as [v r|r|e|]; intros Hrest Hp; cbn [post] in Hp.
    - destruct Hp as [-> [-> HSr]]. rewrite (psf_getpos K data _ r s1 R1), psf_pbind.
      rewrite (IH r s1 HSr Hrest R1 S1). cbn [andb].
      destruct (interp (bsr_step K) (mps_seq narrow widen fuel o tl) s1) as [[l s2]|]; reflexivity.
    - destruct Hp as [-> [-> HSr]]. rewrite (psf_getpos K data _ r s1 R1), psf_pbind.
      rewrite (IH r s1 HSr Hrest R1 S1). cbn [andb].
      destruct (interp (bsr_step K) (mps_seq narrow widen fuel o tl) s1) as [[l s2]|]; reflexivity.
    - subst a. reflexivity.
    - subst a. reflexivity.
  Qed.
End Look.

(* C10 on a stream without seek support: a client that never calls SetPosition and whose look-ahead calls
   (ReadValueType, ReadValue(float / double / string_view / CBinTimestamp), ReadArraySize / ReadMapSize /
   ReadBinarySize) never stand in front of an ext-family value gets exactly the memory reader's answers —
   whatever the chunk size >= 8; in particular every document without ext values read without rewinding *)
Theorem lookahead_nonseekable_equals_memory K data narrow widen fuel o ops :
  (8 <= K)%nat -> fits_streamoff data -> bytes_ok data -> (length data < fuel)%nat ->
  forallb (rop_ok data) ops = true ->
  lookahead_free narrow widen data o ops data = true ->
  mps_run_bsr narrow widen K (stream_of data false) fuel o ops = Ok (str_run narrow widen data o ops).
Proof.
  intros HK Hl Hb Hf Hok Hla. apply seq_nonseekable_outside; try assumption.
  unfold nonseek_ok. assert (HK0' : (0 < K)%nat) by lia.
  destruct (new_rel K HK0' data Hl false) as [HR Hs]. rewrite <- (st_data data) in HR.
  apply (lookahead_free_steps K data HK Hl Hb narrow widen fuel o Hf ops data _ (suffix_data data) Hla HR Hs).
Qed.

Example lookahead_examples :
  (* a document without ext values, every kind of call, across the chunks of K = 8 *)
  lookahead_free no_narrow id_widen straddle_doc skip_all
    [RdType; RdStr; RdStr; RdInt (mkIty false 16); RdArr; RdInt u8t; RdNil; RdType; RdF64] straddle_doc = true /\
  mps_run_bsr no_narrow id_widen 8 (stream_of straddle_doc false) 100 skip_all
    [RdType; RdStr; RdStr; RdInt (mkIty false 16); RdArr; RdInt u8t; RdNil; RdType; RdF64] =
    Ok [AOkAt (VType TStr) 0; AOkAt (VBytes [0x61; 0x62; 0x63]) 4; AOkAt (VBytes [1; 2; 3; 4; 5; 6; 7; 8; 9; 10]) 16;
        AOkAt (VInt 256) 19; AOkAt (VNum 2) 20; AOkAt (VInt 1) 21; AOkAt VUnit 22; AOkAt (VType TFloat) 22;
        AOkAt (VNum 0x3F800000) 27] /\
  (* a look-ahead call in front of a timestamp: not in the class (and the header straddles a chunk: InputOutputError) *)
  lookahead_free no_narrow id_widen ns_ts_doc throw_all (nils 7 ++ [RdTs]) ns_ts_doc = false.
Proof. vm_compute. repeat split; reflexivity. Qed.

(* ---- adaptive clients that only read and skip forward ---- *)
Fixpoint client_forward {A} (c : client A) : Prop :=
  match c with
  | CRet _ => True
  | CCall op k => forward_op op = true /\ forall a, client_forward (k a)
  end.

Lemma no_setpos_forward_client narrow widen fuel o {A} : forall (c : client A) t, client_forward c ->
  no_setpos (mps_client narrow widen fuel o c t).
Proof.
  induction c as [a|op k IH]; intros t H; [exact I|]. cbn [client_forward] in H. destruct H as [H1 H2].
  cbn [mps_client]. apply no_setpos_pbind; [apply no_setpos_forward_op; exact H1|].
  intros [v| |e| |]; try exact I; apply no_setpos_get_pos; intros p; apply IH; apply H2.
Qed.

Lemma forward_client_seeks_ok narrow widen data o {A} : forall (c : client A) d, client_forward c ->
  client_seeks_ok narrow widen data o c d = true.
Proof.
  induction c as [a|op k IH]; intros d H; [reflexivity|]. cbn [client_forward] in H. destruct H as [H1 H2].
  cbn [client_seeks_ok]. apply andb_true_iff. split.
  - destruct op; try reflexivity; discriminate H1.
  - destruct (str_op narrow widen data o op d) as [v r|r|e|]; try reflexivity; apply IH; apply H2.
Qed.

(* every adaptive client that only issues forward_op calls (decisions may depend on everything it has seen) gets
   from a non-seekable stream the transcript and the result it gets from memory *)
Theorem forward_client_nonseekable_equals_memory K data narrow widen fuel o (A : Type) (c : client A) :
  (8 <= K)%nat -> fits_streamoff data -> bytes_ok data -> (length data < fuel)%nat ->
  client_forward c ->
  mps_client_bsr narrow widen K (stream_of data false) fuel o c = Ok (str_client_run narrow widen data o c).
Proof.
  intros HK Hl Hb Hf Hfw. apply client_nonseekable_outside; try assumption.
  - apply forward_client_seeks_ok. exact Hfw.
  - unfold nonseek_client_ok. apply no_setpos_seek_free. apply no_setpos_forward_client. exact Hfw.
Qed.
