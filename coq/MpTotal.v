(* MpTotal.v — C02 for the MsgPack reader model: every read terminates within its fuel and ends at a
   suffix of its input (no read outside the buffer), on every byte string. *)
From BS Require Import Base MpSpec MpModel MpLemmas MpReader MpTyped.
From Coq Require Import ZifyBool ZifyN ZifyNat.
Local Open Scope N_scope.

Definition rres_total {A} (r : rres A) : Prop := r <> RFuel.

Lemma skip_in_bounds d r : skip_value d = SOk r -> (length r <= length d)%nat.
Proof.
  intros H. pose proof (skip_value_agrees d) as A. unfold agrees in A.
  destruct (decode d) as [[v r']|] eqn:E.
  - rewrite H in A. injection A as ->. unfold decode in E. apply decode_progress in E. lia.
  - destruct A as [e A]. rewrite H in A. discriminate.
Qed.

Lemma convert_int_total o t z r : rres_total (convert_int o t z r).
Proof. unfold rres_total, convert_int. destruct (in_range t z); [discriminate|]. destruct (o_overflow o); discriminate. Qed.

Lemma mismatch_outcome_total {A} o r : rres_total (@mismatch_outcome A o r).
Proof. unfold rres_total, mismatch_outcome. destruct (o_mismatch o); discriminate. Qed.

Lemma read_int_total o t d : rres_total (read_int o t d).
Proof.
  pose proof (read_int_agrees o t d) as H. unfold int_spec in H.
  destruct (decode d) as [[v r]|].
  - destruct v; try (rewrite H; first [apply convert_int_total | apply mismatch_outcome_total | discriminate]).
  - destruct H as [e ->]. discriminate.
Qed.

Lemma read_nil_total o d : rres_total (read_nil o d).
Proof.
  pose proof (read_nil_agrees o d) as H. unfold nil_spec in H.
  destruct (decode d) as [[v r]|].
  - destruct v; rewrite H; first [apply mismatch_outcome_total | discriminate].
  - destruct H as [e ->]. discriminate.
Qed.

Lemma read_str_total o d : Forall (fun b => b < 256) d -> rres_total (read_str o d).
Proof.
  intros Hb. pose proof (read_str_agrees o d Hb) as H. unfold str_spec in H.
  destruct (decode d) as [[v r]|].
  - destruct v; rewrite H; first [apply mismatch_outcome_total | discriminate].
  - destruct H as [e ->]. discriminate.
Qed.
