(* MpTs.v — ReadValue(CBinTimestamp&) of the string reader against the reference decoder. *)
From BS Require Import Base MpSpec MpModel MpLemmas MpReader MpTyped.
From Coq Require Import ZifyBool ZifyN ZifyNat.
Local Open Scope N_scope.
Ltac Zify.zify_post_hook ::= Z.div_mod_to_equations.

(* what the reader delivers for a timestamp payload.  For the 96-bit layout it mirrors the writer
   (finding F08): seconds from the first eight payload bytes, nanoseconds from the last four *)
Definition ts_read_value (p : list N) : option (Z * Z) :=
  match length p with
  | 4%nat => Some (Z.of_N (be_val p), 0%Z)
  | 8%nat => Some (Z.of_N (N.land (be_val p) 0x00000003FFFFFFFF), to_signed 32 (N.shiftr (be_val p) 34 mod 2 ^ 32))
  | 12%nat => Some (to_signed 64 (be_val (firstn 8 p)), to_signed 32 (be_val (skipn 8 p)))
  | _ => None
  end.

Definition ts_spec (o : opts) (data : list N) (res : rres (Z * Z)) : Prop :=
  match decode data with
  | Some (MExt ty p, r) =>
      if ty =? 0xFF then
        match ts_read_value p with
        | Some v => res = ROk v r
        | None => res = RErr EParse
        end
      else res = mismatch_outcome o r
  | Some (MNil, r) => res = RNot r
  | Some (_, r) => res = mismatch_outcome o r
  | None => exists e, res = RErr e
  end.

Lemma read_ext_family_nonext b r1 : vtype_eqb (m_ty (byte_meta b)) TExt = false ->
  read_ext_family (b :: r1) = inl None.
Proof. intros H. unfold read_ext_family. rewrite H. reflexivity. Qed.

Lemma take_split k m d p r : take (k + m) d = Some (p, r) ->
  take k d = Some (firstn (N.to_nat k) p, skipn (N.to_nat k) p ++ r) /\
  take m (skipn (N.to_nat k) p ++ r) = Some (skipn (N.to_nat k) p, r).
Proof.
  intros H. apply take_some in H. destruct H as [-> Hl].
  assert (Hk : (N.to_nat k <= length p)%nat) by lia.
  rewrite <- (firstn_skipn (N.to_nat k) p) at 1. rewrite <- app_assoc. split.
  - apply take_app_n. rewrite firstn_length. lia.
  - apply take_app_n. rewrite skipn_length. lia.
Qed.

(* the payload part of ReadValue(CBinTimestamp&), once positioned after the type byte *)
Definition ts_body (size : N) (r1 : list N) : rres (Z * Z) :=
  if size =? 4 then
    match get_value 4 r1 with Some (v, r2) => ROk (Z.of_N v, 0%Z) r2 | None => RErr EParse end
  else if size =? 8 then
    match get_value 8 r1 with
    | Some (v, r2) => ROk (Z.of_N (N.land v 0x00000003FFFFFFFF), to_signed 32 (N.shiftr v 34 mod 2 ^ 32)) r2
    | None => RErr EParse
    end
  else if size =? 12 then
    match get_value 8 r1 with
    | None => RErr EParse
    | Some (s, r2) =>
      match get_value 4 r2 with
      | None => RErr EParse
      | Some (n, r3) => ROk (to_signed 64 s, to_signed 32 n) r3
      end
    end
  else RErr EParse.

Lemma ts_body_ok size l3 p r : take size l3 = Some (p, r) ->
  ts_body size l3 = match ts_read_value p with Some v => ROk v r | None => RErr EParse end.
Proof.
  intros H. pose proof (take_some _ _ _ _ H) as [El Hl]. unfold ts_body, ts_read_value, get_value.
  destruct (size =? 4) eqn:E4.
  { apply N.eqb_eq in E4. rewrite E4 in *. rewrite H. replace (length p) with 4%nat by lia. reflexivity. }
  destruct (size =? 8) eqn:E8.
  { apply N.eqb_eq in E8. rewrite E8 in *. rewrite H. replace (length p) with 8%nat by lia. reflexivity. }
  destruct (size =? 12) eqn:E12.
  { apply N.eqb_eq in E12. rewrite E12 in *. replace (length p) with 12%nat by lia.
    change 12 with (8 + 4) in H. destruct (take_split 8 4 _ _ _ H) as [H8 H4].
    rewrite H8, H4. reflexivity. }
  apply N.eqb_neq in E4, E8, E12.
  destruct (length p) as [|[|[|[|[|[|[|[|[|[|[|[|[|n]]]]]]]]]]]]] eqn:EL; try reflexivity; lia.
Qed.

Lemma ts_body_none size l3 : take size l3 = None -> exists e, ts_body size l3 = RErr e.
Proof.
  intros H. unfold ts_body, get_value.
  destruct (size =? 4) eqn:E4.
  { apply N.eqb_eq in E4. rewrite E4 in *. rewrite H. eexists; reflexivity. }
  destruct (size =? 8) eqn:E8.
  { apply N.eqb_eq in E8. rewrite E8 in *. rewrite H. eexists; reflexivity. }
  destruct (size =? 12) eqn:E12; [|eexists; reflexivity].
  apply N.eqb_eq in E12. rewrite E12 in *.
  destruct (take 8 l3) as [[s r2]|] eqn:H8; [|eexists; reflexivity].
  destruct (take 4 r2) as [[n r3]|] eqn:H4; [|eexists; reflexivity].
  exfalso. pose proof (take_add 8 4 _ _ _ H8) as HA. rewrite H4 in HA. change (8 + 4) with 12 in HA. rewrite HA in H. discriminate.
Qed.

Lemma be_val_single c : be_val [c] = c.
Proof. unfold be_val. cbn. lia. Qed.

Lemma take_cons_succ k b d : take (1 + k) (b :: d) =
  match take k d with Some (s, r) => Some (b :: s, r) | None => None end.
Proof.
  change (b :: d) with ([b] ++ d). rewrite (take_add 1 k ([b] ++ d) [b] d); [|apply (take_app_n 1 [b]); reflexivity].
  destruct (take k d) as [[s r]|]; reflexivity.
Qed.

(* read_ts on an ext first byte, in terms of the same takes the reference decoder performs *)
Lemma read_ts_ext_len o b kl r1 : byte_meta b = mkMeta TExt 0 1 kl -> kl <> 0 ->
  read_ts o (b :: r1) =
    match take kl r1 with
    | None => RErr EParse
    | Some (lb, l0) =>
      match take 1 l0 with
      | None => RErr EParse
      | Some (t, l3) => if be_val t =? 0xFF then ts_body (be_val lb) l3 else mismatch_via_type o (b :: r1)
      end
    end.
Proof.
  intros Hm Hk. unfold read_ts.
  destruct (take kl r1) as [[lb l0]|] eqn:E1.
  2:{ unfold read_ext_family. rewrite Hm. cbn [m_ty m_fixed m_data m_ext vtype_eqb negb N.eqb].
      replace (kl =? 0) with false by (symmetry; lia). cbn [negb]. unfold get_value. rewrite E1. reflexivity. }
  destruct (take 1 l0) as [[t l3]|] eqn:E2.
  2:{ unfold read_ext_family. rewrite Hm. cbn [m_ty m_fixed m_data m_ext vtype_eqb negb N.eqb].
      replace (kl =? 0) with false by (symmetry; lia). cbn [negb]. unfold get_value. rewrite E1.
      apply take_length in E1. apply take_none in E2. cbn [length].
      match goal with |- context [if ?c then _ else _] => replace c with false by (symmetry; lia) end. reflexivity. }
  destruct (ext_family_len b kl r1 lb l0 t l3 Hm Hk E1 E2) as [c [-> Hx]]. rewrite Hx.
  cbn [x_code x_off x_size]. rewrite be_val_single.
  destruct (c =? 255) eqn:Ec; [|reflexivity].
  (* position after the header: 1 + kl + 1 bytes *)
  replace (2 + kl) with (1 + (kl + 1)) by lia. rewrite take_cons_succ.
  rewrite (take_add kl 1 r1 lb l0 E1), E2. unfold ts_body. reflexivity.
Qed.

Lemma read_ts_ext_fix o b n r1 : byte_meta b = mkMeta TExt n 1 0 -> n <> 0 ->
  read_ts o (b :: r1) =
    match take 1 r1 with
    | None => RErr EParse
    | Some (t, l3) => if be_val t =? 0xFF then ts_body n l3 else mismatch_via_type o (b :: r1)
    end.
Proof.
  intros Hm Hn. unfold read_ts.
  destruct (take 1 r1) as [[t l3]|] eqn:E2.
  2:{ unfold read_ext_family. rewrite Hm. cbn [m_ty m_fixed m_data m_ext vtype_eqb negb N.add].
      replace (n =? 0) with false by (symmetry; lia). cbn [negb].
      apply take_none in E2. cbn [length].
      match goal with |- context [if ?c then _ else _] => replace c with false by (symmetry; lia) end. reflexivity. }
  destruct (ext_family_fix b n r1 t l3 Hm Hn E2) as [c [-> Hx]]. rewrite Hx.
  cbn [x_code x_off x_size]. rewrite be_val_single.
  destruct (c =? 255) eqn:Ec; [|reflexivity].
  change 2 with (1 + 1). rewrite take_cons_succ, E2. unfold ts_body. reflexivity.
Qed.

Lemma read_ts_nonext o b r1 : vtype_eqb (m_ty (byte_meta b)) TExt = false ->
  read_ts o (b :: r1) = mismatch_via_type o (b :: r1).
Proof. intros H. unfold read_ts. rewrite read_ext_family_nonext by exact H. reflexivity. Qed.

Ltac ext_takes :=
  repeat match goal with
  | |- context [match take ?k ?d with _ => _ end] =>
      let E := fresh "XT" in destruct (take k d) as [[? ?]|] eqn:E; cbn [bind] in *
  | |- context [bind (take ?k ?d) _] =>
      let E := fresh "XT" in destruct (take k d) as [[? ?]|] eqn:E; cbn [bind] in *
  end.

Ltac ext_finish HM :=
  cbn [decode_by] in *; unfold ext_dec, take_len in *; ext_takes;
  try (eexists; reflexivity);
  match goal with
  | |- context [if (be_val ?t =? 255) then _ else _] =>
      let Ec := fresh "XEc" in destruct (be_val t =? 255) eqn:Ec
  | _ => idtac
  end;
  cbn [is_nil] in *;
  first
  [ exact HM
  | match goal with
    | H : take ?n ?l = Some (?p, ?r) |- context [ts_body ?n ?l] =>
        rewrite (ts_body_ok n l p r H); destruct (ts_read_value p); reflexivity
    | H : take ?n ?l = None |- context [ts_body ?n ?l] => apply ts_body_none; exact H
    end ].

Theorem read_ts_agrees o data : ts_spec o data (read_ts o data).
Proof.
  unfold ts_spec. destruct data as [|b r1].
  { cbn. exists EParse. reflexivity. }
  pose proof (@mismatch_via_type_agrees (Z * Z) o (b :: r1)) as HM.
  unfold decode in *. cbn [length] in *. rewrite decode_ref_by in *.
  unfold classify in *.
  split_first_byte b; try lia.
  all: try (rewrite read_ts_nonext in * by
              (unfold byte_meta; resolve_b_tests b;
               repeat match goal with H : (?x =? ?c) = false |- _ => rewrite H; clear H end;
               reflexivity);
            match goal with
            | |- match ?X with _ => _ end =>
                let E := fresh "E" in
                destruct X as [[? ?]|] eqn:E;
                [ decode_shapes E; cbn [is_nil] in *; first [ exact HM | rewrite HM; reflexivity ]
                | exact HM ]
            end).
  (* the eight ext first bytes *)
  all: match goal with |- context [read_ts ?O (?B :: ?R)] =>
         let kl := eval cbv in (m_ext (byte_meta B)) in
         let n := eval cbv in (m_fixed (byte_meta B)) in
         match kl with
         | 0 => rewrite (read_ts_ext_fix O B n R eq_refl ltac:(discriminate)) in *
         | _ => rewrite (read_ts_ext_len O B kl R eq_refl ltac:(discriminate)) in *
         end
       end.
  all: ext_finish HM.
Qed.

(* timestamp 32 and 64 are read as the specification lays them out *)
Lemma be_val_bound l : Forall (fun b => b < 256) l -> be_val l < 256 ^ N.of_nat (length l).
Proof.
  induction l as [|b l IH] using rev_ind; intros H.
  - cbn. lia.
  - apply Forall_app in H. destruct H as [Hl Hb]. inversion Hb as [|? ? Hb0 _]; subst.
    rewrite be_val_snoc, app_length. cbn [length]. specialize (IH Hl).
    replace (N.of_nat (length l + 1)) with (N.succ (N.of_nat (length l))) by lia.
    rewrite N.pow_succ_r'. lia.
Qed.

Lemma ts_read_32_64_spec p : Forall (fun b => b < 256) p -> (length p = 4 \/ length p = 8)%nat ->
  match ts_read_value p, ts_of_payload p with
  | Some (s, n), Some (s', n') => s = s' /\ n = Z.of_N n'
  | _, _ => False
  end.
Proof.
  intros Hb [H|H]; unfold ts_read_value, ts_of_payload; rewrite H.
  - split; reflexivity.
  - pose proof (be_val_bound p Hb) as B. rewrite H in B. change (256 ^ N.of_nat 8) with (2 ^ 64) in B.
    split.
    + change 0x00000003FFFFFFFF with (N.ones 34). rewrite land_mask. reflexivity.
    + rewrite shiftr_div. set (v := be_val p) in *.
      assert (Hq : v / 2 ^ 34 < 2 ^ 30).
      { apply N.div_lt_upper_bound; [cbn; discriminate|]. change (2 ^ 34 * 2 ^ 30) with (2 ^ 64). exact B. }
      assert (P30 : 2 ^ 30 = 1073741824) by reflexivity. rewrite P30 in Hq.
      rewrite N.mod_small by (change (2 ^ 32) with 4294967296; lia).
      unfold to_signed. change (2 ^ (32 - 1)) with 2147483648.
      replace (v / 2 ^ 34 <? 2147483648) with true by (symmetry; lia). reflexivity.
Qed.

Example ts96_refuted :
  let p := [0; 0; 0; 5; 255; 255; 255; 255; 255; 255; 255; 255] in
  ts_of_payload p = Some ((-1)%Z, 5) /\ ts_read_value p = Some (25769803775%Z, (-1)%Z).
Proof. split; vm_compute; reflexivity. Qed.
