(* MpTyped.v — every typed ReadValue overload of the string reader against the reference decoder. *)
From BS Require Import Base MpSpec MpModel MpLemmas MpReader.
From Coq Require Import ZifyBool ZifyN ZifyNat.
Local Open Scope N_scope.
Ltac Zify.zify_post_hook ::= Z.div_mod_to_equations.

(* ---- the other ReadValue overloads ---- *)
Ltac read_cases o b r1 A :=
  pose proof (@mismatch_via_type_agrees A o (b :: r1)) as HM;
  unfold decode in *; cbn [length] in *; rewrite decode_ref_by in *;
  unfold classify in *;
  split_first_byte b; try lia;
  cbn [orb N.ltb N.leb N.eqb Pos.eqb N.compare Pos.compare Pos.compare_cont negb N.land Pos.land N.succ_double N.double] in *;
  resolve_b_tests b.

Ltac finish_read2 HM :=
  unfold get_value;
  match goal with
  | |- match ?X with _ => _ end =>
      let E := fresh "E" in
      destruct X as [[? ?]|] eqn:E;
      [ decode_shapes E; cbn [N.mul Pos.mul bind is_nil] in *;
        first [ reflexivity | rewrite HM; reflexivity | idtac ]
      | first [ exact HM
              | decode_shapes E; cbn [bind]; first [eexists; reflexivity | exact HM | idtac] ] ]
  end.

Ltac resolve_ranges :=
  repeat match goal with
  | |- context [if ((?c1 <=? ?x) && (?x <? ?c2)) then _ else _] =>
      first [ replace ((c1 <=? x) && (x <? c2)) with true by (symmetry; lia)
            | replace ((c1 <=? x) && (x <? c2)) with false by (symmetry; lia) ]
  | |- context [if ((?c1 <=? ?x) && ?t) then _ else _] =>
      first [ replace (c1 <=? x) with true by (symmetry; lia)
            | replace (c1 <=? x) with false by (symmetry; lia) ]; cbn [andb]
  end.

Definition nil_spec (o : opts) (data : list N) (res : rres unit) : Prop :=
  match decode data with
  | Some (MNil, r) => res = ROk tt r
  | Some (_, r) => res = mismatch_outcome o r
  | None => exists e, res = RErr e
  end.

Theorem read_nil_agrees o data : nil_spec o data (read_nil o data).
Proof.
  unfold nil_spec. destruct data as [|b r1].
  { cbn. exists EParse. reflexivity. }
  pose proof (@handle_mismatch_agrees unit o (m_ty (byte_meta b)) (b :: r1)) as HM.
  unfold decode in *. cbn [length] in *. rewrite decode_ref_by in *.
  unfold read_nil. unfold classify, byte_meta in *.
  split_first_byte b; try lia.
  all: cbn [orb N.ltb N.leb N.eqb Pos.eqb N.compare Pos.compare Pos.compare_cont negb m_ty vtype_eqb] in *.
  all: resolve_b_tests b.
  all: finish_read2 HM.
Qed.

Definition str_spec (o : opts) (data : list N) (res : rres (list N)) : Prop :=
  match decode data with
  | Some (MStr s, r) => res = ROk s r
  | Some (MNil, r) => res = RNot r
  | Some (_, r) => res = mismatch_outcome o r
  | None => exists e, res = RErr e
  end.

(* masks used by ReadValue(string_view&) / ReadArraySize / ReadMapSize, for every byte value *)
Definition mask_facts (b : N) : bool :=
  Bool.eqb (N.land b 0xE0 =? 0xA0) ((0xA0 <=? b) && (b <? 0xC0)) &&
  Bool.eqb (N.land b 0xF0 =? 0x90) ((0x90 <=? b) && (b <? 0xA0)) &&
  Bool.eqb (N.land b 0xF0 =? 0x80) ((0x80 <=? b) && (b <? 0x90)) &&
  (if (0xA0 <=? b) && (b <? 0xC0) then N.land b 0x1F =? b - 0xA0 else true) &&
  (if (0x90 <=? b) && (b <? 0xA0) then N.land b 0x0F =? b - 0x90 else true) &&
  (if (0x80 <=? b) && (b <? 0x90) then N.land b 0x0F =? b - 0x80 else true).

Lemma mask_facts_all : all_below 8 mask_facts = true.
Proof. vm_compute. reflexivity. Qed.

Lemma mask_E0 b : b < 256 -> (N.land b 0xE0 =? 0xA0) = ((0xA0 <=? b) && (b <? 0xC0)).
Proof.
  intros H. pose proof (all_below_spec 8 _ mask_facts_all b H) as F. unfold mask_facts in F.
  repeat (apply andb_true_iff in F; destruct F as [F ?]). apply Bool.eqb_prop in F. exact F.
Qed.
Lemma mask_F0_90 b : b < 256 -> (N.land b 0xF0 =? 0x90) = ((0x90 <=? b) && (b <? 0xA0)).
Proof.
  intros H. pose proof (all_below_spec 8 _ mask_facts_all b H) as F. unfold mask_facts in F.
  repeat (apply andb_true_iff in F; destruct F as [F ?]).
  match goal with X : Bool.eqb (N.land b 0xF0 =? 0x90) _ = true |- _ => apply Bool.eqb_prop in X; exact X end.
Qed.
Lemma mask_F0_80 b : b < 256 -> (N.land b 0xF0 =? 0x80) = ((0x80 <=? b) && (b <? 0x90)).
Proof.
  intros H. pose proof (all_below_spec 8 _ mask_facts_all b H) as F. unfold mask_facts in F.
  repeat (apply andb_true_iff in F; destruct F as [F ?]).
  match goal with X : Bool.eqb (N.land b 0xF0 =? 0x80) _ = true |- _ => apply Bool.eqb_prop in X; exact X end.
Qed.
Lemma mask_1F b : 0xA0 <= b < 0xC0 -> N.land b 0x1F = b - 0xA0.
Proof.
  intros H. assert (Hb : b < 256) by lia.
  pose proof (all_below_spec 8 _ mask_facts_all b Hb) as F. unfold mask_facts in F.
  repeat (apply andb_true_iff in F; destruct F as [F ?]).
  match goal with X : (if (0xA0 <=? b) && (b <? 0xC0) then _ else _) = true |- _ =>
    replace ((0xA0 <=? b) && (b <? 0xC0)) with true in X by (symmetry; lia); apply N.eqb_eq in X; exact X end.
Qed.
Lemma mask_0F_90 b : 0x90 <= b < 0xA0 -> N.land b 0x0F = b - 0x90.
Proof.
  intros H. assert (Hb : b < 256) by lia.
  pose proof (all_below_spec 8 _ mask_facts_all b Hb) as F. unfold mask_facts in F.
  repeat (apply andb_true_iff in F; destruct F as [F ?]).
  match goal with X : (if (0x90 <=? b) && (b <? 0xA0) then _ else _) = true |- _ =>
    replace ((0x90 <=? b) && (b <? 0xA0)) with true in X by (symmetry; lia); apply N.eqb_eq in X; exact X end.
Qed.
Lemma mask_0F_80 b : 0x80 <= b < 0x90 -> N.land b 0x0F = b - 0x80.
Proof.
  intros H. assert (Hb : b < 256) by lia.
  pose proof (all_below_spec 8 _ mask_facts_all b Hb) as F. unfold mask_facts in F.
  repeat (apply andb_true_iff in F; destruct F as [F ?]).
  match goal with X : (if (0x80 <=? b) && (b <? 0x90) then _ else _) = true |- _ =>
    replace ((0x80 <=? b) && (b <? 0x90)) with true in X by (symmetry; lia); apply N.eqb_eq in X; exact X end.
Qed.

Theorem read_str_agrees o data : Forall (fun b => b < 256) data -> str_spec o data (read_str o data).
Proof.
  intros Hb. unfold str_spec. destruct data as [|b r1].
  { cbn. exists EParse. reflexivity. }
  inversion Hb as [|? ? Hb0 _]; subst. clear Hb.
  unfold read_str. rewrite mask_E0 by exact Hb0.
  read_cases o b r1 (list N).
  all: resolve_ranges.
  all: rewrite ?mask_1F by lia.
  all: finish_read2 HM.
Qed.

(* ---- array / map / binary headers: the count delivered and the position reached are those at
   which the reference decoder starts reading the elements (decode_by ... (HArr n) etc.) ---- *)
Definition other_spec {A} (o : opts) (data : list N) (res : rres A) : Prop :=
  match decode data with
  | Some (v, r) => res = if is_nil v then RNot r else mismatch_outcome o r
  | None => exists e, res = RErr e
  end.

Definition array_spec (o : opts) (data : list N) (res : rres N) : Prop :=
  match data with
  | [] => res = RErr EParse
  | b :: d =>
    match classify b with
    | HArr n => res = ROk n d
    | HLenArr kl => match take_len kl d with Some (n, r) => res = ROk n r | None => res = RErr EParse end
    | _ => other_spec o data res
    end
  end.

Definition map_spec (o : opts) (data : list N) (res : rres N) : Prop :=
  match data with
  | [] => res = RErr EParse
  | b :: d =>
    match classify b with
    | HMap n => res = ROk n d
    | HLenMap kl => match take_len kl d with Some (n, r) => res = ROk n r | None => res = RErr EParse end
    | _ => other_spec o data res
    end
  end.

Definition bin_spec (o : opts) (data : list N) (res : rres N) : Prop :=
  match data with
  | [] => res = RErr EParse
  | b :: d =>
    match classify b with
    | HLenBin kl => match take_len kl d with Some (n, r) => res = ROk n r | None => res = RErr EParse end
    | _ => other_spec o data res
    end
  end.

Ltac size_cases o b r1 :=
  pose proof (@mismatch_via_type_agrees N o (b :: r1)) as HM;
  unfold other_spec, decode in *; cbn [length] in *; rewrite decode_ref_by in *;
  unfold classify in *;
  split_first_byte b; try lia;
  cbn [orb N.ltb N.leb N.eqb Pos.eqb N.compare Pos.compare Pos.compare_cont negb] in *;
  resolve_b_tests b; resolve_ranges.

Ltac finish_size HM :=
  unfold get_value, take_len;
  first
  [ reflexivity
  | match goal with
    | |- match take ?k ?d with _ => _ end => destruct (take k d) as [[? ?]|]; cbn [bind]; reflexivity
    end
  | match goal with
    | |- match ?X with _ => _ end =>
        let E := fresh "E" in
        destruct X as [[? ?]|] eqn:E;
        [ decode_shapes E; cbn [is_nil] in *; first [ reflexivity | rewrite HM; reflexivity | idtac ]
        | first [ exact HM | decode_shapes E; cbn [bind]; first [eexists; reflexivity | exact HM | idtac] ] ]
    end ].

Theorem read_array_size_agrees o data : Forall (fun b => b < 256) data ->
  array_spec o data (read_array_size o data).
Proof.
  intros Hb. unfold array_spec. destruct data as [|b r1]; [reflexivity|].
  inversion Hb as [|? ? Hb0 _]; subst. clear Hb.
  unfold read_array_size, read_size. rewrite mask_F0_90 by exact Hb0.
  size_cases o b r1.
  all: rewrite ?mask_0F_90 by lia.
  all: finish_size HM.
Qed.

Theorem read_map_size_agrees o data : Forall (fun b => b < 256) data ->
  map_spec o data (read_map_size o data).
Proof.
  intros Hb. unfold map_spec. destruct data as [|b r1]; [reflexivity|].
  inversion Hb as [|? ? Hb0 _]; subst. clear Hb.
  unfold read_map_size, read_size. rewrite mask_F0_80 by exact Hb0.
  size_cases o b r1.
  all: rewrite ?mask_0F_80 by lia.
  all: finish_size HM.
Qed.

Theorem read_bin_size_agrees o data : bin_spec o data (read_bin_size o data).
Proof.
  unfold bin_spec. destruct data as [|b r1]; [reflexivity|].
  unfold read_bin_size.
  size_cases o b r1.
  all: finish_size HM.
Qed.

(* ---- floating targets ---- *)
Section FloatReads.
  Variable narrow : N -> option N.
  Variable widen : N -> N.

  Definition f32_spec (o : opts) (data : list N) (res : rres N) : Prop :=
    match decode data with
    | Some (MF32 bits, r) => res = ROk bits r
    | Some (MF64 bits, r) =>
        res = match narrow bits with
              | Some f => ROk f r
              | None => match o_overflow o with PThrow => RErr EOverflow | PSkip => RNot r end
              end
    | Some (MNil, r) => res = RNot r
    | Some (_, r) => res = mismatch_outcome o r
    | None => exists e, res = RErr e
    end.

  Definition f64_spec (o : opts) (data : list N) (res : rres N) : Prop :=
    match decode data with
    | Some (MF64 bits, r) => res = ROk bits r
    | Some (MF32 bits, r) => res = ROk (widen bits) r
    | Some (MNil, r) => res = RNot r
    | Some (_, r) => res = mismatch_outcome o r
    | None => exists e, res = RErr e
    end.

  Theorem read_f32_agrees o data : f32_spec o data (read_f32 narrow o data).
  Proof.
    unfold f32_spec. destruct data as [|b r1].
    { cbn. exists EParse. reflexivity. }
    unfold read_f32. read_cases o b r1 N.
    all: finish_read2 HM.
  Qed.

  Theorem read_f64_agrees o data : f64_spec o data (read_f64 widen o data).
  Proof.
    unfold f64_spec. destruct data as [|b r1].
    { cbn. exists EParse. reflexivity. }
    unfold read_f64. read_cases o b r1 N.
    all: finish_read2 HM.
  Qed.
End FloatReads.



(* ---- corollaries used by Properties_C05 ---- *)
Lemma skip_exact d v r : decode d = Some (v, r) -> skip_value d = SOk r.
Proof.
  intros H. pose proof (skip_value_agrees d) as A. unfold agrees in A. rewrite H in A. exact A.
Qed.

Lemma overflow_consumes_one o t data z r :
  decode data = Some (MInt z, r) -> in_range t z = false -> o_overflow o = PSkip ->
  read_int o t data = RNot r.
Proof.
  intros H Hr Ho. pose proof (read_int_agrees o t data) as A. unfold int_spec in A.
  rewrite H in A. rewrite A. unfold convert_int. rewrite Hr, Ho. reflexivity.
Qed.

Lemma mismatch_consumes_one (A : Type) o data :
  match decode data with
  | Some (v, r) => @mismatch_via_type A o data = if is_nil v then RNot r else mismatch_outcome o r
  | None => exists e, @mismatch_via_type A o data = RErr e
  end.
Proof. exact (@mismatch_via_type_agrees A o data). Qed.

Example skip_example :
  read_int (mkOpts PSkip PSkip) (mkIty true 32) [0x92; 0xA1; 0x78; 0x02; 0x03] = RNot [0x03].
Proof. vm_compute. reflexivity. Qed.

Example decode_example :
  decode [0x93; 0xCD; 0x01; 0x00; 0xA2; 0x61; 0x62; 0x81; 0xD9; 0x01; 0x6B; 0xC0; 0x07] =
    Some (MArr [MInt 256; MStr [0x61; 0x62]; MMap [(MStr [0x6B], MNil)]], [0x07]).
Proof. vm_compute. reflexivity. Qed.
