(* MpWriter.v — C06 at the value level: what the writer model emits is read back by the reference
   decoder as the same value, in the most compact format (with the exact defect class where not). *)
From BS Require Import Base MpSpec MpModel MpLemmas.
From Coq Require Import ZifyBool ZifyN ZifyNat.
Local Open Scope N_scope.
Ltac Zify.zify_post_hook ::= Z.div_mod_to_equations.

Ltac if_lia :=
  repeat match goal with
  | |- context [if ?b then _ else _] =>
    first [ replace b with true by (symmetry; lia) | replace b with false by (symmetry; lia) ]
  end.

(* ---- the reference decoder on each first byte (closed conditions are decided by conversion) ---- *)
Lemma dec_fixpos f b d : b < 0x80 -> decode_ref (S f) (b :: d) = Some (MInt (Z.of_N b), d).
Proof. intros H. cbn [decode_ref]. if_lia. reflexivity. Qed.

Lemma dec_fixneg f b d : 0xE0 <= b < 256 -> decode_ref (S f) (b :: d) = Some (MInt (Z.of_N b - 256), d).
Proof. intros H. cbn [decode_ref]. if_lia. reflexivity. Qed.

Definition dec_uint_body (k : N) (d : list N) :=
  bind (take k d) (fun '(s, r) => Some (MInt (Z.of_N (be_val s)), r)).
Definition dec_sint_body (k : N) (d : list N) :=
  bind (take k d) (fun '(s, r) => Some (MInt (to_signed (8 * k) (be_val s)), r)).

Lemma dec_CC f d : decode_ref (S f) (0xCC :: d) = dec_uint_body 1 d. Proof. reflexivity. Qed.
Lemma dec_CD f d : decode_ref (S f) (0xCD :: d) = dec_uint_body 2 d. Proof. reflexivity. Qed.
Lemma dec_CE f d : decode_ref (S f) (0xCE :: d) = dec_uint_body 4 d. Proof. reflexivity. Qed.
Lemma dec_CF f d : decode_ref (S f) (0xCF :: d) = dec_uint_body 8 d. Proof. reflexivity. Qed.
Lemma dec_D0 f d : decode_ref (S f) (0xD0 :: d) = dec_sint_body 1 d. Proof. reflexivity. Qed.
Lemma dec_D1 f d : decode_ref (S f) (0xD1 :: d) = dec_sint_body 2 d. Proof. reflexivity. Qed.
Lemma dec_D2 f d : decode_ref (S f) (0xD2 :: d) = dec_sint_body 4 d. Proof. reflexivity. Qed.
Lemma dec_D3 f d : decode_ref (S f) (0xD3 :: d) = dec_sint_body 8 d. Proof. reflexivity. Qed.
Lemma dec_CA f d : decode_ref (S f) (0xCA :: d) = bind (take 4 d) (fun '(s, r) => Some (MF32 (be_val s), r)). Proof. reflexivity. Qed.
Lemma dec_CB f d : decode_ref (S f) (0xCB :: d) = bind (take 8 d) (fun '(s, r) => Some (MF64 (be_val s), r)). Proof. reflexivity. Qed.
Lemma dec_C0 f d : decode_ref (S f) (0xC0 :: d) = Some (MNil, d). Proof. reflexivity. Qed.
Lemma dec_C2 f d : decode_ref (S f) (0xC2 :: d) = Some (MBool false, d). Proof. reflexivity. Qed.
Lemma dec_C3 f d : decode_ref (S f) (0xC3 :: d) = Some (MBool true, d). Proof. reflexivity. Qed.

Lemma dec_uint_bytes k v rest : v < 256 ^ N.of_nat k ->
  dec_uint_body (N.of_nat k) (be_bytes k v ++ rest) = Some (MInt (Z.of_N v), rest).
Proof.
  intros Hv. unfold dec_uint_body. rewrite take_app_n by (rewrite be_bytes_length; reflexivity).
  cbn [bind]. rewrite be_val_bytes by exact Hv. reflexivity.
Qed.

Lemma dec_sint_bytes k z rest : (0 < k)%nat ->
  (- 2 ^ (Z.of_N (8 * N.of_nat k) - 1) <= z < 2 ^ (Z.of_N (8 * N.of_nat k) - 1))%Z ->
  dec_sint_body (N.of_nat k) (be_bytes k (twos (8 * N.of_nat k) z) ++ rest) = Some (MInt z, rest).
Proof.
  intros Hk Hz. unfold dec_sint_body. rewrite take_app_n by (rewrite be_bytes_length; reflexivity).
  cbn [bind]. rewrite be_val_bytes.
  - unfold twos. rewrite to_signed_twos by (try exact Hz; lia). reflexivity.
  - unfold twos. replace (256 ^ N.of_nat k) with (2 ^ (8 * N.of_nat k)).
    + apply twos_bound.
    + change 256 with (2 ^ 8). rewrite <- N.pow_mul_r. reflexivity.
Qed.

(* ---- unsigned integers: every WriteValue(uintN_t) ---- *)
(* the reference decoder on bytes ++ rest with an arbitrary positive fuel: scalars, strings and headers do not consume fuel *)
Definition decf (f : nat) (bytes rest : list N) := decode_ref (S f) (bytes ++ rest).
(* ... and with the fuel of [decode] *)
Definition dec1 (bytes rest : list N) := decf (length (bytes ++ rest)) bytes rest.

Lemma be_bytes_1 v : v < 256 -> be_bytes 1 v = [v].
Proof. intros H. cbn. rewrite N.mod_small by lia. reflexivity. Qed.

Lemma wr_u8_okf f v rest : v < 256 ->
  decf f (wr_u8 v) rest = Some (MInt (Z.of_N v), rest) /\ length (wr_u8 v) = shortest_int_len (Z.of_N v).
Proof.
  intros Hv. unfold decf, wr_u8, shortest_int_len. destruct (128 <=? v) eqn:E.
  - rewrite <- (be_bytes_1 v Hv). cbn [app]. rewrite dec_CC. change 1 with (N.of_nat 1) at 1.
    rewrite dec_uint_bytes by (cbn; lia).
    split; [reflexivity|]. if_lia. cbn [length]. rewrite be_bytes_length. reflexivity.
  - cbn [app]. rewrite dec_fixpos by lia. split; [reflexivity|]. if_lia. reflexivity.
Qed.
Lemma wr_u8_ok v rest : v < 256 ->
  dec1 (wr_u8 v) rest = Some (MInt (Z.of_N v), rest) /\ length (wr_u8 v) = shortest_int_len (Z.of_N v).
Proof. exact (wr_u8_okf _ v rest). Qed.

Lemma wr_u16_okf f v rest : v < 65536 ->
  decf f (wr_u16 v) rest = Some (MInt (Z.of_N v), rest) /\ length (wr_u16 v) = shortest_int_len (Z.of_N v).
Proof.
  intros Hv. unfold wr_u16. destruct (255 <? v) eqn:E; [|apply (wr_u8_okf f); lia].
  unfold decf, shortest_int_len. cbn [app]. rewrite dec_CD. change 2 with (N.of_nat 2) at 1.
  rewrite dec_uint_bytes by (cbn; lia). split; [reflexivity|].
  if_lia. cbn [length]. rewrite be_bytes_length. reflexivity.
Qed.
Lemma wr_u16_ok v rest : v < 65536 ->
  dec1 (wr_u16 v) rest = Some (MInt (Z.of_N v), rest) /\ length (wr_u16 v) = shortest_int_len (Z.of_N v).
Proof. exact (wr_u16_okf _ v rest). Qed.

Lemma wr_u32_okf f v rest : v < 4294967296 ->
  decf f (wr_u32 v) rest = Some (MInt (Z.of_N v), rest) /\ length (wr_u32 v) = shortest_int_len (Z.of_N v).
Proof.
  intros Hv. unfold wr_u32. destruct (65535 <? v) eqn:E; [|apply (wr_u16_okf f); lia].
  unfold decf, shortest_int_len. cbn [app]. rewrite dec_CE. change 4 with (N.of_nat 4) at 1.
  rewrite dec_uint_bytes by (cbn; lia). split; [reflexivity|].
  if_lia. cbn [length]. rewrite be_bytes_length. reflexivity.
Qed.
Lemma wr_u32_ok v rest : v < 4294967296 ->
  dec1 (wr_u32 v) rest = Some (MInt (Z.of_N v), rest) /\ length (wr_u32 v) = shortest_int_len (Z.of_N v).
Proof. exact (wr_u32_okf _ v rest). Qed.

Lemma wr_u64_okf f v rest : v < 18446744073709551616 ->
  decf f (wr_u64 v) rest = Some (MInt (Z.of_N v), rest) /\ length (wr_u64 v) = shortest_int_len (Z.of_N v).
Proof.
  intros Hv. unfold wr_u64. destruct (4294967295 <? v) eqn:E; [|apply (wr_u32_okf f); lia].
  unfold decf, shortest_int_len. cbn [app]. rewrite dec_CF. change 8 with (N.of_nat 8) at 1.
  rewrite dec_uint_bytes by (cbn; lia). split; [reflexivity|].
  if_lia. cbn [length]. rewrite be_bytes_length. reflexivity.
Qed.
Lemma wr_u64_ok v rest : v < 18446744073709551616 ->
  dec1 (wr_u64 v) rest = Some (MInt (Z.of_N v), rest) /\ length (wr_u64 v) = shortest_int_len (Z.of_N v).
Proof. exact (wr_u64_okf _ v rest). Qed.

(* ---- signed integers: every WriteValue(intN_t) ---- *)
(* F09: a signed C++ type never uses the uint family, so these values are one format too wide *)
Definition signed_not_shortest (z : Z) : bool :=
  (((128 <=? z) && (z <? 256)) || ((32768 <=? z) && (z <? 65536)) || ((2147483648 <=? z) && (z <? 4294967296)))%Z.

Lemma twos8_nonneg z : (0 <= z < 256)%Z -> twos 8 z = Z.to_N z.
Proof. intros H. unfold twos. change (2 ^ Z.of_N 8)%Z with 256%Z. rewrite Z.mod_small by lia. reflexivity. Qed.
Lemma twos8_neg z : (-256 < z < 0)%Z -> twos 8 z = Z.to_N (z + 256).
Proof.
  intros H. unfold twos. change (2 ^ Z.of_N 8)%Z with 256%Z.
  replace (z mod 256)%Z with (z + 256)%Z; [reflexivity|]. apply Z.mod_unique with (q := (-1)%Z); lia.
Qed.

Lemma wr_i8_okf f z rest : (-128 <= z < 128)%Z ->
  decf f (wr_i8 z) rest = Some (MInt z, rest) /\ length (wr_i8 z) = shortest_int_len z.
Proof.
  intros Hz. unfold decf, wr_i8, shortest_int_len. destruct (-32 <=? z)%Z eqn:E.
  - cbn [app]. destruct (Z.ltb_spec z 0) as [Hneg|Hnn].
    + rewrite twos8_neg by lia. rewrite dec_fixneg by lia. rewrite Z2N.id by lia.
      replace (z + 256 - 256)%Z with z by lia. split; [reflexivity|]. if_lia. reflexivity.
    + rewrite twos8_nonneg by lia. rewrite dec_fixpos by lia. rewrite Z2N.id by lia.
      split; [reflexivity|]. if_lia. reflexivity.
  - assert (Hb : [twos 8 z] = be_bytes 1 (twos (8 * N.of_nat 1) z)).
    { symmetry. apply be_bytes_1. apply (twos_bound 8 z). }
    rewrite Hb. cbn [app]. rewrite dec_D0. change 1 with (N.of_nat 1) at 1.
    rewrite dec_sint_bytes by (cbn; lia). split; [reflexivity|].
    if_lia. cbn [length]. rewrite be_bytes_length. reflexivity.
Qed.
Lemma wr_i8_ok z rest : (-128 <= z < 128)%Z ->
  dec1 (wr_i8 z) rest = Some (MInt z, rest) /\ length (wr_i8 z) = shortest_int_len z.
Proof. exact (wr_i8_okf _ z rest). Qed.

Lemma wr_i16_okf f z rest : (-32768 <= z < 32768)%Z ->
  decf f (wr_i16 z) rest = Some (MInt z, rest) /\
  (signed_not_shortest z = false -> length (wr_i16 z) = shortest_int_len z).
Proof.
  intros Hz. unfold wr_i16. destruct ((z <? -128) || (127 <? z))%Z eqn:E.
  - unfold decf. cbn [app]. rewrite dec_D1. change 2 with (N.of_nat 2) at 1.
    change (twos 16 z) with (twos (8 * N.of_nat 2) z).
    rewrite dec_sint_bytes by (cbn; lia). split; [reflexivity|].
    unfold signed_not_shortest, shortest_int_len. intros Hd. cbn [length]. rewrite be_bytes_length. if_lia. reflexivity.
  - destruct (wr_i8_okf f z rest) as [H1 H2]; [lia|]. split; [exact H1 | intros _; exact H2].
Qed.
Lemma wr_i16_ok z rest : (-32768 <= z < 32768)%Z ->
  dec1 (wr_i16 z) rest = Some (MInt z, rest) /\
  (signed_not_shortest z = false -> length (wr_i16 z) = shortest_int_len z).
Proof. exact (wr_i16_okf _ z rest). Qed.

Lemma wr_i32_okf f z rest : (-2147483648 <= z < 2147483648)%Z ->
  decf f (wr_i32 z) rest = Some (MInt z, rest) /\
  (signed_not_shortest z = false -> length (wr_i32 z) = shortest_int_len z).
Proof.
  intros Hz. unfold wr_i32. destruct ((z <? -32768) || (32767 <? z))%Z eqn:E.
  - unfold decf. cbn [app]. rewrite dec_D2. change 4 with (N.of_nat 4) at 1.
    change (twos 32 z) with (twos (8 * N.of_nat 4) z).
    rewrite dec_sint_bytes by (cbn; lia). split; [reflexivity|].
    unfold signed_not_shortest, shortest_int_len. intros Hd. cbn [length]. rewrite be_bytes_length. if_lia. reflexivity.
  - apply (wr_i16_okf f). lia.
Qed.
Lemma wr_i32_ok z rest : (-2147483648 <= z < 2147483648)%Z ->
  dec1 (wr_i32 z) rest = Some (MInt z, rest) /\
  (signed_not_shortest z = false -> length (wr_i32 z) = shortest_int_len z).
Proof. exact (wr_i32_okf _ z rest). Qed.

Lemma wr_i64_okf f z rest : (-9223372036854775808 <= z < 9223372036854775808)%Z ->
  decf f (wr_i64 z) rest = Some (MInt z, rest) /\
  (signed_not_shortest z = false -> length (wr_i64 z) = shortest_int_len z).
Proof.
  intros Hz. unfold wr_i64. destruct ((z <? -2147483648) || (2147483647 <? z))%Z eqn:E.
  - unfold decf. cbn [app]. rewrite dec_D3. change 8 with (N.of_nat 8) at 1.
    change (twos 64 z) with (twos (8 * N.of_nat 8) z).
    rewrite dec_sint_bytes by (cbn; lia). split; [reflexivity|].
    unfold signed_not_shortest, shortest_int_len. intros Hd. cbn [length]. rewrite be_bytes_length. if_lia. reflexivity.
  - apply (wr_i32_okf f). lia.
Qed.
Lemma wr_i64_ok z rest : (-9223372036854775808 <= z < 9223372036854775808)%Z ->
  dec1 (wr_i64 z) rest = Some (MInt z, rest) /\
  (signed_not_shortest z = false -> length (wr_i64 z) = shortest_int_len z).
Proof. exact (wr_i64_okf _ z rest). Qed.

(* the defect class is exact: inside it the signed writers are one format too wide *)
Lemma wr_i64_not_shortest z : (-9223372036854775808 <= z < 9223372036854775808)%Z ->
  signed_not_shortest z = true -> (shortest_int_len z < length (wr_i64 z))%nat.
Proof.
  intros Hz Hd. unfold signed_not_shortest in Hd. unfold wr_i64, wr_i32, wr_i16, shortest_int_len.
  destruct ((z <? -2147483648) || (2147483647 <? z))%Z eqn:E1.
  { cbn [length]. rewrite be_bytes_length. if_lia. lia. }
  destruct ((z <? -32768) || (32767 <? z))%Z eqn:E2.
  { cbn [length]. rewrite be_bytes_length. if_lia. lia. }
  destruct ((z <? -128) || (127 <? z))%Z eqn:E3.
  { cbn [length]. rewrite be_bytes_length. if_lia. lia. }
  lia.
Qed.

Example wr_i16_200 : wr_i16 200 = [0xD1; 0x00; 0xC8] /\ shortest_int_len 200 = 2%nat.
Proof. split; vm_compute; reflexivity. Qed.

(* ---- floats: CA / CB + big-endian IEEE bits, for every bit pattern ---- *)
Lemma wr_f32_okf f bits rest : bits < 2 ^ 32 -> decf f (wr_f32 bits) rest = Some (MF32 bits, rest).
Proof.
  intros H. unfold decf, wr_f32. cbn [app]. rewrite dec_CA.
  rewrite take_app_n by (rewrite be_bytes_length; reflexivity). cbn [bind].
  rewrite be_val_bytes by (cbn; lia). reflexivity.
Qed.
Lemma wr_f32_ok bits rest : bits < 2 ^ 32 -> dec1 (wr_f32 bits) rest = Some (MF32 bits, rest).
Proof. exact (wr_f32_okf _ bits rest). Qed.
Lemma wr_f64_okf f bits rest : bits < 2 ^ 64 -> decf f (wr_f64 bits) rest = Some (MF64 bits, rest).
Proof.
  intros H. unfold decf, wr_f64. cbn [app]. rewrite dec_CB.
  rewrite take_app_n by (rewrite be_bytes_length; reflexivity). cbn [bind].
  rewrite be_val_bytes by (cbn; lia). reflexivity.
Qed.
Lemma wr_f64_ok bits rest : bits < 2 ^ 64 -> dec1 (wr_f64 bits) rest = Some (MF64 bits, rest).
Proof. exact (wr_f64_okf _ bits rest). Qed.

Lemma wr_nil_okf f rest : decf f wr_nil rest = Some (MNil, rest).
Proof. reflexivity. Qed.
Lemma wr_nil_ok rest : dec1 wr_nil rest = Some (MNil, rest).
Proof. exact (wr_nil_okf _ rest). Qed.
Lemma wr_bool_okf f b rest : decf f (wr_bool b) rest = Some (MBool b, rest).
Proof. destruct b; reflexivity. Qed.
Lemma wr_bool_ok b rest : dec1 (wr_bool b) rest = Some (MBool b, rest).
Proof. exact (wr_bool_okf _ b rest). Qed.

(* ---- strings, binaries, array and map headers ---- *)
Definition str_body (n : N) (d : list N) := bind (take n d) (fun '(s, r) => Some (MStr s, r)).
Definition bin_body (n : N) (d : list N) := bind (take n d) (fun '(s, r) => Some (MBin s, r)).
Definition arr_body (f : nat) (n : N) (d : list N) :=
  bind (rep (decode_ref f) f n d) (fun '(vs, r) => Some (MArr vs, r)).
Definition map_body (f : nat) (n : N) (d : list N) :=
  bind (rep (step_pair (decode_ref f)) f n d) (fun '(kvs, r) => Some (MMap kvs, r)).

Lemma dec_fixstr f b d : 0xA0 <= b < 0xC0 -> decode_ref (S f) (b :: d) = str_body (b - 0xA0) d.
Proof. intros H. cbn [decode_ref]. if_lia. reflexivity. Qed.
Lemma dec_fixarr f b d : 0x90 <= b < 0xA0 -> decode_ref (S f) (b :: d) = arr_body f (b - 0x90) d.
Proof. intros H. cbn [decode_ref]. if_lia. reflexivity. Qed.
Lemma dec_fixmap f b d : 0x80 <= b < 0x90 -> decode_ref (S f) (b :: d) = map_body f (b - 0x80) d.
Proof. intros H. cbn [decode_ref]. if_lia. reflexivity. Qed.
Lemma dec_D9 f d : decode_ref (S f) (0xD9 :: d) = bind (take_len 1 d) (fun '(n, r) => str_body n r). Proof. reflexivity. Qed.
Lemma dec_DA f d : decode_ref (S f) (0xDA :: d) = bind (take_len 2 d) (fun '(n, r) => str_body n r). Proof. reflexivity. Qed.
Lemma dec_DB f d : decode_ref (S f) (0xDB :: d) = bind (take_len 4 d) (fun '(n, r) => str_body n r). Proof. reflexivity. Qed.
Lemma dec_C4 f d : decode_ref (S f) (0xC4 :: d) = bind (take_len 1 d) (fun '(n, r) => bin_body n r). Proof. reflexivity. Qed.
Lemma dec_C5 f d : decode_ref (S f) (0xC5 :: d) = bind (take_len 2 d) (fun '(n, r) => bin_body n r). Proof. reflexivity. Qed.
Lemma dec_C6 f d : decode_ref (S f) (0xC6 :: d) = bind (take_len 4 d) (fun '(n, r) => bin_body n r). Proof. reflexivity. Qed.
Lemma dec_DC f d : decode_ref (S f) (0xDC :: d) = bind (take_len 2 d) (fun '(n, r) => arr_body f n r). Proof. reflexivity. Qed.
Lemma dec_DD f d : decode_ref (S f) (0xDD :: d) = bind (take_len 4 d) (fun '(n, r) => arr_body f n r). Proof. reflexivity. Qed.
Lemma dec_DE f d : decode_ref (S f) (0xDE :: d) = bind (take_len 2 d) (fun '(n, r) => map_body f n r). Proof. reflexivity. Qed.
Lemma dec_DF f d : decode_ref (S f) (0xDF :: d) = bind (take_len 4 d) (fun '(n, r) => map_body f n r). Proof. reflexivity. Qed.

Lemma lor_tag n tag k : tag = (tag / 2 ^ k) * 2 ^ k -> n < 2 ^ k -> N.lor n tag = tag + n.
Proof. intros Ht Hn. rewrite N.lor_comm, Ht. rewrite lor_add by exact Hn. reflexivity. Qed.

(* the header emitted for a length n is read by the reference decoder as "n units follow",
   and is the shortest header able to carry n; lengths >= 2^32 are refused *)
Lemma wr_str_header_ok n : 
  match wr_str_header n with
  | Some h => n < 2 ^ 32 /\ length h = shortest_str_header n /\
              forall f d, decode_ref (S f) (h ++ d) = str_body n d
  | None => 2 ^ 32 <= n
  end.
Proof.
  unfold wr_str_header, shortest_str_header.
  destruct (n <? 32) eqn:E1.
  { rewrite (lor_tag n 0xA0 5) by (reflexivity || (cbn; lia)).
    split; [cbn; lia|]. split; [reflexivity|]. intros f d. cbn [app].
    rewrite dec_fixstr by lia. f_equal. lia. }
  destruct (n <=? 255) eqn:E2.
  { split; [cbn; lia|]. split; [if_lia; reflexivity|]. intros f d.
    rewrite <- (be_bytes_1 n) by lia. cbn [app]. rewrite dec_D9. change 1 with (N.of_nat 1) at 1.
    rewrite take_len_app by (cbn; lia). reflexivity. }
  destruct (n <=? 65535) eqn:E3.
  { split; [cbn; lia|]. split; [if_lia; cbn [length]; rewrite be_bytes_length; reflexivity|]. intros f d.
    cbn [app]. rewrite dec_DA. change 2 with (N.of_nat 2) at 1.
    rewrite take_len_app by (cbn; lia). reflexivity. }
  destruct (n <=? 4294967295) eqn:E4.
  { split; [cbn; lia|]. split; [if_lia; cbn [length]; rewrite be_bytes_length; reflexivity|]. intros f d.
    cbn [app]. rewrite dec_DB. change 4 with (N.of_nat 4) at 1.
    rewrite take_len_app by (cbn; lia). reflexivity. }
  cbn; lia.
Qed.

Lemma wr_str_okf f s rest :
  match wr_str s with
  | Some out => decf f out rest = Some (MStr s, rest) /\
                length out = (shortest_str_header (N.of_nat (length s)) + length s)%nat
  | None => 2 ^ 32 <= N.of_nat (length s)
  end.
Proof.
  unfold wr_str. pose proof (wr_str_header_ok (N.of_nat (length s))) as H.
  destruct (wr_str_header (N.of_nat (length s))) as [h|]; [|exact H].
  destruct H as [_ [Hl Hd]]. split.
  - unfold decf. rewrite <- app_assoc. rewrite Hd. unfold str_body. rewrite take_app. reflexivity.
  - rewrite app_length, Hl. reflexivity.
Qed.
Lemma wr_str_ok s rest :
  match wr_str s with
  | Some out => dec1 out rest = Some (MStr s, rest) /\
                length out = (shortest_str_header (N.of_nat (length s)) + length s)%nat
  | None => 2 ^ 32 <= N.of_nat (length s)
  end.
Proof.
  destruct (wr_str s) as [out|] eqn:E.
  - pose proof (wr_str_okf (length (out ++ rest)) s rest) as H. rewrite E in H. exact H.
  - pose proof (wr_str_okf 0 s rest) as H. rewrite E in H. exact H.
Qed.

Lemma wr_bin_header_ok n :
  match wr_bin_header n with
  | Some h => n < 2 ^ 32 /\ length h = shortest_bin_header n /\
              forall f d, decode_ref (S f) (h ++ d) = bin_body n d
  | None => 2 ^ 32 <= n
  end.
Proof.
  unfold wr_bin_header, shortest_bin_header.
  destruct (n <=? 255) eqn:E2.
  { split; [cbn; lia|]. split; [if_lia; reflexivity|]. intros f d.
    rewrite <- (be_bytes_1 n) by lia. cbn [app]. rewrite dec_C4. change 1 with (N.of_nat 1) at 1.
    rewrite take_len_app by (cbn; lia). reflexivity. }
  destruct (n <=? 65535) eqn:E3.
  { split; [cbn; lia|]. split; [if_lia; cbn [length]; rewrite be_bytes_length; reflexivity|]. intros f d.
    cbn [app]. rewrite dec_C5. change 2 with (N.of_nat 2) at 1.
    rewrite take_len_app by (cbn; lia). reflexivity. }
  destruct (n <=? 4294967295) eqn:E4.
  { split; [cbn; lia|]. split; [if_lia; cbn [length]; rewrite be_bytes_length; reflexivity|]. intros f d.
    cbn [app]. rewrite dec_C6. change 4 with (N.of_nat 4) at 1.
    rewrite take_len_app by (cbn; lia). reflexivity. }
  cbn; lia.
Qed.

Lemma wr_array_header_ok n :
  match wr_array_header n with
  | Some h => n < 2 ^ 32 /\ length h = shortest_arr_header n /\
              forall f d, decode_ref (S f) (h ++ d) = arr_body f n d
  | None => 2 ^ 32 <= n
  end.
Proof.
  unfold wr_array_header, shortest_arr_header.
  destruct (n <? 16) eqn:E1.
  { rewrite (lor_tag n 0x90 4) by (reflexivity || (cbn; lia)).
    split; [cbn; lia|]. split; [reflexivity|]. intros f d. cbn [app].
    rewrite dec_fixarr by lia. f_equal. lia. }
  destruct (n <=? 65535) eqn:E3.
  { split; [cbn; lia|]. split; [if_lia; cbn [length]; rewrite be_bytes_length; reflexivity|]. intros f d.
    cbn [app]. rewrite dec_DC. change 2 with (N.of_nat 2) at 1.
    rewrite take_len_app by (cbn; lia). reflexivity. }
  destruct (n <=? 4294967295) eqn:E4.
  { split; [cbn; lia|]. split; [if_lia; cbn [length]; rewrite be_bytes_length; reflexivity|]. intros f d.
    cbn [app]. rewrite dec_DD. change 4 with (N.of_nat 4) at 1.
    rewrite take_len_app by (cbn; lia). reflexivity. }
  cbn; lia.
Qed.

Lemma wr_map_header_ok n :
  match wr_map_header n with
  | Some h => n < 2 ^ 32 /\ length h = shortest_arr_header n /\
              forall f d, decode_ref (S f) (h ++ d) = map_body f n d
  | None => 2 ^ 32 <= n
  end.
Proof.
  unfold wr_map_header, shortest_arr_header.
  destruct (n <? 16) eqn:E1.
  { rewrite (lor_tag n 0x80 4) by (reflexivity || (cbn; lia)).
    split; [cbn; lia|]. split; [reflexivity|]. intros f d. cbn [app].
    rewrite dec_fixmap by lia. f_equal. lia. }
  destruct (n <=? 65535) eqn:E3.
  { split; [cbn; lia|]. split; [if_lia; cbn [length]; rewrite be_bytes_length; reflexivity|]. intros f d.
    cbn [app]. rewrite dec_DE. change 2 with (N.of_nat 2) at 1.
    rewrite take_len_app by (cbn; lia). reflexivity. }
  destruct (n <=? 4294967295) eqn:E4.
  { split; [cbn; lia|]. split; [if_lia; cbn [length]; rewrite be_bytes_length; reflexivity|]. intros f d.
    cbn [app]. rewrite dec_DF. change 4 with (N.of_nat 4) at 1.
    rewrite take_len_app by (cbn; lia). reflexivity. }
  cbn; lia.
Qed.

(* ---- Timestamp extension ---- *)
Definition ext_body (n : N) (d : list N) :=
  bind (take 1 d) (fun '(t, r) => bind (take n r) (fun '(s, r') => Some (MExt (be_val t) s, r'))).
Lemma dec_D6 f d : decode_ref (S f) (0xD6 :: d) = ext_body 4 d. Proof. reflexivity. Qed.
Lemma dec_D7 f d : decode_ref (S f) (0xD7 :: d) = ext_body 8 d. Proof. reflexivity. Qed.
Lemma dec_C7 f d : decode_ref (S f) (0xC7 :: d) = bind (take_len 1 d) (fun '(n, r) => ext_body n r). Proof. reflexivity. Qed.

Lemma ext_body_ok ty p rest : ty < 256 ->
  ext_body (N.of_nat (length p)) (ty :: p ++ rest) = Some (MExt ty p, rest).
Proof.
  intros Ht. unfold ext_body. change (ty :: p ++ rest) with ([ty] ++ (p ++ rest)).
  rewrite (take_app_n 1 [ty]) by reflexivity. cbn [bind]. rewrite take_app. cbn [bind].
  unfold be_val. cbn. reflexivity.
Qed.

Lemma land_high32 x : x < 2 ^ 64 -> (N.land x 0xFFFFFFFF00000000 =? 0) = (x <? 2 ^ 32).
Proof.
  intros Hx. rewrite (N.div_mod x (2 ^ 32)) at 1 by (cbn; discriminate).
  rewrite (N.mul_comm (2 ^ 32)). change 0xFFFFFFFF00000000 with (N.ones 32 * 2 ^ 32 + 0).
  rewrite land_split by (try (apply N.mod_upper_bound; cbn; discriminate); cbn; lia).
  rewrite N.land_0_r, land_mask, N.add_0_r.
  assert (Hd : x / 2 ^ 32 < 2 ^ 32).
  { apply N.div_lt_upper_bound; [cbn; discriminate|]. change (2 ^ 32 * 2 ^ 32) with (2 ^ 64). exact Hx. }
  rewrite N.mod_small by exact Hd.
  assert (H32 : 2 ^ 32 = 4294967296) by reflexivity. rewrite H32 in *.
  destruct (x <? 4294967296) eqn:E.
  - apply N.eqb_eq. replace (x / 4294967296) with 0; [reflexivity|]. symmetry. apply N.div_small. lia.
  - apply N.eqb_neq. intros Hc. assert (x / 4294967296 = 0) by lia.
    apply N.div_small_iff in H; [lia | discriminate].
Qed.

Lemma take_len_1 b r : b < 256 -> take_len 1 (b :: r) = Some (b, r).
Proof.
  intros Hb. change (b :: r) with ([b] ++ r). rewrite <- (be_bytes_1 b Hb).
  change 1 with (N.of_nat 1) at 1. apply take_len_app. cbn. lia.
Qed.

Definition ts_in_range (secs nanos : Z) : Prop :=
  (- 2 ^ 63 <= secs < 2 ^ 63)%Z /\ (0 <= nanos <= 999999999)%Z.

(* what the writer emits for a timestamp, as seen by the reference decoder *)
Definition wr_ts_payload (secs nanos : Z) : list N :=
  if ((0 <=? secs) && (secs <? 2 ^ 34))%Z then ts_payload secs (Z.to_N nanos)
  else be_bytes 8 (twos 64 secs) ++ be_bytes 4 (Z.to_N nanos).        (* F08: seconds before nanoseconds *)

Lemma twos64_nonneg z : (0 <= z < 2 ^ 64)%Z -> twos 64 z = Z.to_N z.
Proof. intros H. unfold twos. rewrite Z.mod_small by exact H. reflexivity. Qed.
Lemma twos32_nonneg z : (0 <= z < 2 ^ 32)%Z -> twos 32 z = Z.to_N z.
Proof. intros H. unfold twos. rewrite Z.mod_small by exact H. reflexivity. Qed.

Lemma wr_ts_okf f secs nanos rest : ts_in_range secs nanos ->
  decf f (wr_ts secs nanos) rest = Some (MExt 255 (wr_ts_payload secs nanos), rest).
Proof.
  intros [Hs Hn]. unfold decf, wr_ts, wr_ts_payload.
  assert (P34 : (2 ^ 34 = 17179869184)%Z) by reflexivity.
  assert (P63 : (2 ^ 63 = 9223372036854775808)%Z) by reflexivity.
  assert (P64 : (2 ^ 64 = 18446744073709551616)%Z) by reflexivity.
  rewrite (twos64_nonneg nanos) by lia.
  set (ns := Z.to_N nanos). assert (Hns : ns <= 999999999) by (subst ns; lia).
  set (us := twos 64 secs).
  assert (Hus : us < 2 ^ 64) by (apply twos_bound).
  rewrite shiftr_div.
  destruct ((0 <=? secs) && (secs <? 2 ^ 34))%Z eqn:E.
  - assert (Eus : us = Z.to_N secs) by (subst us; apply twos64_nonneg; lia).
    assert (Hlt : us < 2 ^ 34) by (rewrite Eus; change (2 ^ 34) with 17179869184; lia).
    replace (us / 2 ^ 34 =? 0) with true by (symmetry; apply N.eqb_eq; apply N.div_small; exact Hlt).
    rewrite shiftl_mul, lor_add by exact Hlt.
    assert (Hd : ns * 2 ^ 34 + us < 2 ^ 64).
    { change (2 ^ 34) with 17179869184 in *. change (2 ^ 64) with 18446744073709551616. lia. }
    rewrite N.mod_small by exact Hd. rewrite land_high32 by exact Hd.
    unfold ts_payload. rewrite E. rewrite <- Eus.
    destruct (ns * 2 ^ 34 + us <? 2 ^ 32) eqn:E2.
    + assert (ns = 0 /\ us < 2 ^ 32).
      { change (2 ^ 34) with 17179869184 in *. change (2 ^ 32) with 4294967296 in *. lia. }
      destruct H as [-> Hu32]. replace ((0 =? 0) && (secs <? 2 ^ 32)%Z) with true.
      2:{ symmetry. change (2 ^ 32)%Z with 4294967296%Z. change (2 ^ 32) with 4294967296 in Hu32. cbn [N.eqb andb]. lia. }
      rewrite N.mul_0_l, N.add_0_l. rewrite N.mod_small by exact Hu32.
      cbn [app]. rewrite dec_D6. change 4 with (N.of_nat (length (be_bytes 4 us))) at 1.
      apply ext_body_ok. lia.
    + replace ((ns =? 0) && (secs <? 2 ^ 32)%Z) with false.
      2:{ symmetry. change (2 ^ 34) with 17179869184 in *. change (2 ^ 32) with 4294967296 in *.
          change (2 ^ 32)%Z with 4294967296%Z. destruct (ns =? 0) eqn:E0; [|reflexivity]. cbn [andb]. lia. }
      cbn [app]. rewrite dec_D7. change 8 with (N.of_nat (length (be_bytes 8 (ns * 2 ^ 34 + us)))) at 1.
      apply ext_body_ok. lia.
  - assert (Hge : 2 ^ 34 <= us).
    { subst us. unfold twos. change (2 ^ Z.of_N 64)%Z with (2 ^ 64)%Z. rewrite P64.
      change (2 ^ 34) with 17179869184. destruct (Z.ltb_spec secs 0) as [Hneg|Hnn].
      - replace (secs mod 18446744073709551616)%Z with (secs + 18446744073709551616)%Z
          by (apply Z.mod_unique with (q := (-1)%Z); lia). lia.
      - rewrite Z.mod_small by lia. lia. }
    replace (us / 2 ^ 34 =? 0) with false.
    2:{ symmetry. apply N.eqb_neq. intros Hc. apply N.div_small_iff in Hc; [lia | cbn; discriminate]. }
    rewrite (twos32_nonneg nanos) by (change (2 ^ 32)%Z with 4294967296%Z; lia). fold ns.
    cbn [app]. rewrite dec_C7.
    rewrite take_len_1 by lia. cbn [bind].
    replace 12 with (N.of_nat (length (be_bytes 8 us ++ be_bytes 4 ns))).
    + apply ext_body_ok. lia.
    + rewrite app_length, !be_bytes_length. reflexivity.
Qed.
Lemma wr_ts_ok secs nanos rest : ts_in_range secs nanos ->
  dec1 (wr_ts secs nanos) rest = Some (MExt 255 (wr_ts_payload secs nanos), rest).
Proof. exact (wr_ts_okf _ secs nanos rest). Qed.

(* inside [0, 2^34) seconds the layout is the spec's; outside (timestamp 96) the two fields are swapped *)
Lemma wr_ts_spec_outside secs nanos : (0 <= secs < 2 ^ 34)%Z ->
  wr_ts_payload secs nanos = ts_payload secs (Z.to_N nanos).
Proof. intros H. unfold wr_ts_payload. replace ((0 <=? secs) && (secs <? 2 ^ 34))%Z with true by (symmetry; lia). reflexivity. Qed.

Example wr_ts_96_refuted :
  ts_in_range (-1) 5 /\ wr_ts_payload (-1) 5 <> ts_payload (-1) 5 /\
  ts_of_payload (wr_ts_payload (-1) 5) <> Some ((-1)%Z, 5).
Proof. split; [unfold ts_in_range; lia|]. split; vm_compute; discriminate. Qed.
