(* NumFloatModel.v — the floating-point branches of Convert::Detail::To(arith -> arith)
   (include/bitserializer/conversion_detail/convert_fundamental.h lines 20-66) over IEEE binary32 /
   binary64 as formalised by Flocq (IEEE754.Binary): static_cast<float/double>(integer) rounds to
   nearest-even (binary_normalize mode_NE), static_cast<integer>(float) truncates and is UNDEFINED when
   the truncated value is not representable ([conv.fpint]) — an explicit CUB outcome here,
   double -> float rounds to nearest-even, float -> double is exact.
   Section parameters are the format (prec, emax); instantiated for float and double at the end.
   No proofs in this file (the two instance terms are computations). *)
From Coq Require Import ZArith Reals.
From Flocq Require Import Core BinarySingleNaN Binary Bits.
From BS Require Import Base NumSpec NumModel.
Local Open Scope Z_scope.

(* std::numeric_limits<S>::digits: value bits without the sign bit *)
Definition digits_of (S : ity) : Z := if signed_of S then bits_of S - 1 else bits_of S.

Section Format.
  Variable prec emax : Z.
  Context (prec_gt_0_ : Prec_gt_0 prec).
  Context (prec_lt_emax_ : Prec_lt_emax prec emax).

  Notation fl := (Binary.binary_float prec emax).

  (* static_cast<F>(z) for an integer z *)
  Definition of_int (z : Z) : fl := Binary.binary_normalize prec emax _ _ mode_NE z 0 false.

  (* static_cast<S>(x): bool is "x != 0"; an integer type takes the truncated value, undefined
     behaviour (None) when that is outside the type or x is not finite *)
  Definition to_int_cast (S : ity) (x : fl) : option Z :=
    match S with
    | TBool => Some (match x with Binary.B754_zero _ _ _ => 0 | _ => 1 end)
    | _ =>
      if Binary.is_finite prec emax x then
        let m := Binary.Btrunc prec emax x in
        if in_rangeb S m then Some m else None
      else None
    end.

  (* value < limit for two values of F *)
  Definition flt (a b : fl) : bool :=
    match Binary.Bcompare prec emax a b with Some Lt => true | _ => false end.

  (* Convert::Detail::To(const S&, F&): S integer / bool / char, F floating (after fix 30e94fb).
     bool source: the bool branch (cast, cast back, compare).  Other sources:
       result = value < std::ldexp(F(1), numeric_limits<S>::digits) && static_cast<S>(value) == sourceValue
     with && short-circuit, so the cast back is only evaluated below 2^digits. *)
  Definition conv_int_fp (S : ity) (z : Z) : cres fl :=
    let value := of_int z in                                  (* auto value = static_cast<TTarget>(sourceValue) *)
    if is_bool S then
      match to_int_cast S value with
      | None => CUB
      | Some back => if eq_c S back S z then COk value else COutOfRange
      end
    else if flt value (of_int (2 ^ digits_of S)) then          (* 2^digits is exactly representable *)
      match to_int_cast S value with                           (* static_cast<TSource>(value) *)
      | None => CUB
      | Some back => if eq_c S back S z then COk value else COutOfRange
      end
    else COutOfRange.
End Format.

Definition prec32_gt_0 : Prec_gt_0 24 := eq_refl.
Definition prec64_gt_0 : Prec_gt_0 53 := eq_refl.
Definition prec32_lt_emax : Prec_lt_emax 24 128 := eq_refl.
Definition prec64_lt_emax : Prec_lt_emax 53 1024 := eq_refl.

Definition of_int32 : Z -> binary32 := of_int 24 128 prec32_gt_0 prec32_lt_emax.
Definition of_int64 : Z -> binary64 := of_int 53 1024 prec64_gt_0 prec64_lt_emax.
Definition conv_int_f32 : ity -> Z -> cres binary32 := conv_int_fp 24 128 prec32_gt_0 prec32_lt_emax.
Definition conv_int_f64 : ity -> Z -> cres binary64 := conv_int_fp 53 1024 prec64_gt_0 prec64_lt_emax.

(* floating source, integer / bool target: throw std::invalid_argument, whatever the value *)
Definition conv_fp_int {A} (x : A) (T : ity) : cres Z := CInvalidArgument.

(* static_cast<double>(float): exact; NaN stays NaN (payload not modelled: answers print NaN as NAN) *)
Definition widen (x : binary32) : binary64 :=
  match x with
  | Binary.B754_zero _ _ s => Binary.B754_zero 53 1024 s
  | Binary.B754_infinity _ _ s => Binary.B754_infinity 53 1024 s
  | Binary.B754_nan _ _ _ _ _ => proj1_sig default_nan_pl64
  | Binary.B754_finite _ _ s m e _ =>
    Binary.binary_normalize 53 1024 prec64_gt_0 prec64_lt_emax mode_NE (cond_Zopp s (Zpos m)) e s
  end.

(* static_cast<float>(double) for a value inside the float range *)
Definition narrow (x : binary64) : binary32 :=
  match x with
  | Binary.B754_zero _ _ s => Binary.B754_zero 24 128 s
  | Binary.B754_infinity _ _ s => Binary.B754_infinity 24 128 s
  | Binary.B754_nan _ _ _ _ _ => proj1_sig default_nan_pl32
  | Binary.B754_finite _ _ s m e _ =>
    Binary.binary_normalize 24 128 prec32_gt_0 prec32_lt_emax mode_NE (cond_Zopp s (Zpos m)) e s
  end.

(* std::numeric_limits<float>::max(), lowest() *)
Definition flt_max : binary32 := b32_of_bits 0x7f7fffff.
Definition flt_lowest : binary32 := b32_of_bits 0xff7fffff.

Definition fge (a b : binary64) : bool :=
  match Binary.Bcompare 53 1024 a b with Some Gt | Some Eq => true | _ => false end.
Definition fle (a b : binary64) : bool :=
  match Binary.Bcompare 53 1024 a b with Some Lt | Some Eq => true | _ => false end.

(* Convert::Detail::To(const double&, float&): sizeof(float) > sizeof(double) is false, so the range
   test decides; the float limits are converted to double for the comparison *)
Definition conv_f64_f32 (x : binary64) : cres binary32 :=
  if fge x (widen flt_lowest) && fle x (widen flt_max) then COk (narrow x) else COutOfRange.

(* Convert::Detail::To(const float&, double&): sizeof(double) > sizeof(float) *)
Definition conv_f32_f64 (x : binary32) : cres binary64 := COk (widen x).
