(* NumFloatProofs.v — C04, floating-point half: integer -> float/double accepts exactly the exactly
   representable integers (or hits undefined behaviour next to the top of the 32/64-bit types),
   double -> float rounds to nearest inside the float range and rejects everything else,
   float -> double is exact.  Flocq brings in the standard real-number axioms. *)
From Coq Require Import ZArith Reals Lia Lra.
From Flocq Require Import Core BinarySingleNaN Binary Bits.
From BS Require Import Base NumSpec NumModel NumLemmas NumProofs NumFloatModel.
Local Open Scope Z_scope.

Section Format.
  Variable prec emax : Z.
  Context (prec_gt_0_ : Prec_gt_0 prec).
  Context (prec_lt_emax_ : Prec_lt_emax prec emax).
  Hypothesis Hemax : 64 < emax.

  Notation fl := (Binary.binary_float prec emax).
  Notation emin := (SpecFloat.emin prec emax).
  Notation fexp := (SpecFloat.fexp prec emax).
  Notation fmt := (generic_format radix2 fexp).
  Notation rnd := (round radix2 fexp ZnearestE).
  Notation B2R := (Binary.B2R prec emax).
  Notation of_int := (of_int prec emax prec_gt_0_ prec_lt_emax_).
  Notation conv_int_fp := (conv_int_fp prec emax prec_gt_0_ prec_lt_emax_).

  Lemma prec_pos : 0 < prec.
  Proof. exact prec_gt_0_. Qed.

  Lemma emin_neg : emin <= 0.
  Proof. unfold SpecFloat.emin. pose proof prec_pos. unfold Prec_lt_emax in prec_lt_emax_. lia. Qed.

  Lemma fexp_FLT : fexp = FLT_exp emin prec.
  Proof. reflexivity. Qed.

  Instance fexp_valid : Valid_exp fexp := FLT_exp_valid emin prec.

  Lemma IZR_F2R z : IZR z = F2R (Float radix2 z 0).
  Proof. unfold F2R. cbn. rewrite Rmult_1_r. reflexivity. Qed.

  (* small integers are representable *)
  Lemma small_int_fmt z : Z.abs z < 2 ^ prec -> fmt (IZR z).
  Proof.
    intros H. rewrite fexp_FLT. apply generic_format_FLT.
    apply (FLT_spec radix2 emin prec (IZR z) (Float radix2 z 0)).
    - apply IZR_F2R.
    - cbn. exact H.
    - cbn. apply emin_neg.
  Qed.

  (* a representable number of magnitude >= 2^prec is an integer *)
  Lemma big_fmt_int r : fmt r -> (bpow radix2 prec <= Rabs r)%R -> exists k, r = IZR k.
  Proof.
    intros Hf Hb. rewrite fexp_FLT in Hf. apply FLT_format_generic in Hf; [|exact prec_gt_0_].
    destruct Hf as [[m e] Hr Hm He]. cbn in Hm, He.
    destruct (Z_lt_le_dec e 0) as [Hneg|Hpos].
    - exfalso. rewrite Hr in Hb. unfold F2R in Hb. cbn [Fnum Fexp] in Hb.
      rewrite Rabs_mult in Hb. rewrite (Rabs_pos_eq (bpow radix2 e)) in Hb by apply bpow_ge_0.
      assert (H1 : (Rabs (IZR m) < bpow radix2 prec)%R).
      { rewrite <- abs_IZR. rewrite <- IZR_Zpower by (pose proof prec_pos; lia). apply IZR_lt. exact Hm. }
      assert (H2 : (bpow radix2 e <= 1)%R).
      { change 1%R with (bpow radix2 0). apply bpow_le. lia. }
      assert (H3 : (0 <= Rabs (IZR m))%R) by apply Rabs_pos.
      assert (H4 : (0 < bpow radix2 e)%R) by apply bpow_gt_0.
      nra.
    - exists (m * 2 ^ e). rewrite Hr. unfold F2R. cbn [Fnum Fexp]. rewrite mult_IZR.
      rewrite <- (IZR_Zpower radix2 e) by exact Hpos. reflexivity.
  Qed.

  Lemma Ztrunc_abs_le r : (IZR (Z.abs (Ztrunc r)) <= Rabs r)%R.
  Proof.
    rewrite <- Ztrunc_abs. rewrite Ztrunc_floor by apply Rabs_pos. apply Zfloor_lb.
  Qed.

  (* if the rounded value truncates back to z, the rounding was exact *)
  Lemma trunc_back_exact z : Ztrunc (rnd (IZR z)) = z -> rnd (IZR z) = IZR z.
  Proof.
    intros Ht. set (r := rnd (IZR z)) in *.
    assert (Hf : fmt r) by (apply generic_format_round; auto with typeclass_instances).
    destruct (Rle_or_lt (bpow radix2 prec) (Rabs r)) as [Hb|Hs].
    - destruct (big_fmt_int r Hf Hb) as [k Hk]. rewrite Hk in Ht. rewrite Ztrunc_IZR in Ht. congruence.
    - assert (Hz : Z.abs z < 2 ^ prec).
      { apply lt_IZR. rewrite <- Ht. eapply Rle_lt_trans; [apply Ztrunc_abs_le|].
        change (2 ^ prec) with (Zpower radix2 prec). rewrite (IZR_Zpower radix2 prec) by (pose proof prec_pos; lia). exact Hs. }
      apply round_generic; auto with typeclass_instances. apply small_int_fmt. exact Hz.
  Qed.

  (* ---------- static_cast<F>(z) ---------- *)

  Lemma pow64_fmt : fmt (bpow radix2 64).
  Proof.
    apply generic_format_bpow. unfold SpecFloat.fexp. pose proof prec_pos. pose proof emin_neg. lia.
  Qed.

  Lemma of_int_correct z : Z.abs z <= 2 ^ 64 ->
    B2R (of_int z) = rnd (IZR z) /\ Binary.is_finite prec emax (of_int z) = true.
  Proof.
    intros Hz. unfold NumFloatModel.of_int.
    pose proof (Binary.binary_normalize_correct prec emax prec_gt_0_ prec_lt_emax_ mode_NE z 0 false) as H.
    rewrite <- IZR_F2R in H. cbn [round_mode] in H.
    rewrite Rlt_bool_true in H.
    - destruct H as [H1 [H2 _]]. split; assumption.
    - apply Rle_lt_trans with (bpow radix2 64).
      + apply abs_round_le_generic; auto with typeclass_instances.
        * apply pow64_fmt.
        * rewrite <- abs_IZR. rewrite <- (IZR_Zpower radix2 64) by lia. apply IZR_le. exact Hz.
      + apply bpow_lt. exact Hemax.
  Qed.

  Lemma range_abs64 S z : in_range S z -> Z.abs z <= 2 ^ 64.
  Proof. unfold in_range, lo, hi. destruct S; cbn; lia. Qed.

  Lemma Btrunc_rnd z : Z.abs z <= 2 ^ 64 -> Binary.Btrunc prec emax (of_int z) = Ztrunc (rnd (IZR z)).
  Proof.
    intros Hz. destruct (of_int_correct z Hz) as [HR _].
    apply eq_IZR. rewrite Binary.Btrunc_correct by exact prec_lt_emax_. rewrite round_FIX_IZR. rewrite HR. reflexivity.
  Qed.

  Lemma fgt0_correct x : Binary.is_finite prec emax x = true ->
    fgt0 prec emax x = true <-> (0 < B2R x)%R.
  Proof.
    intros Hf. unfold fgt0. rewrite Binary.Bcompare_correct by (try exact Hf; reflexivity).
    cbn [Binary.B2R]. destruct (Rcompare_spec (B2R x) 0); split; intros; try discriminate; try lra; reflexivity.
  Qed.

  Lemma flt0_correct x : Binary.is_finite prec emax x = true ->
    flt0 prec emax x = true <-> (B2R x < 0)%R.
  Proof.
    intros Hf. unfold flt0. rewrite Binary.Bcompare_correct by (try exact Hf; reflexivity).
    cbn [Binary.B2R]. destruct (Rcompare_spec (B2R x) 0); split; intros; try discriminate; try lra; reflexivity.
  Qed.

  Lemma of_int_zero_iff z : Z.abs z <= 2 ^ 64 -> Z.abs z < 2 ^ prec ->
    (match of_int z with Binary.B754_zero _ _ _ => 0 | _ => 1 end) = (if z =? 0 then 0 else 1).
  Proof.
    intros Hz Hs. destruct (of_int_correct z Hz) as [HR HF].
    rewrite round_generic in HR by (auto with typeclass_instances; apply small_int_fmt; exact Hs).
    destruct (Z.eqb_spec z 0) as [->|Hnz].
    - reflexivity.
    - destruct (of_int z) as [s|s| |s m e B]; try discriminate; [|reflexivity].
      exfalso. cbn in HR. apply Hnz. apply eq_IZR. symmetry. exact HR.
  Qed.

  (* ---------- T_C04_int_to_fp: whatever is accepted is exact ---------- *)

  Theorem int_to_fp_exact S z v : in_range S z -> conv_int_fp S z = COk v ->
    B2R v = IZR z /\ Binary.is_finite prec emax v = true.
  Proof.
    intros Hr H. pose proof (range_abs64 S z Hr) as Hz.
    destruct (of_int_correct z Hz) as [HR HF].
    unfold NumFloatModel.conv_int_fp in H.
    destruct (to_int_cast prec emax S (of_int z)) as [back|] eqn:Ec; [|discriminate].
    destruct (is_bool S) eqn:Eb.
    - (* bool: 0 and 1 are representable whatever the test says *)
      destruct (eq_c S back S z); [|discriminate].
      assert (v = of_int z) by congruence. subst v. split; [|exact HF].
      rewrite HR. apply round_generic; auto with typeclass_instances. apply small_int_fmt.
      destruct S; try discriminate. unfold in_range, lo, hi in Hr. cbn in Hr.
      assert (2 ^ 1 <= 2 ^ prec) by (apply Z.pow_le_mono_r; pose proof prec_pos; lia). lia.
    - destruct (eq_c S back S z && negb (fgt0 prec emax (of_int z) && lt0 S z || flt0 prec emax (of_int z) && gt0 S z)) eqn:Et; [|discriminate].
      assert (v = of_int z) by congruence. subst v. split; [|exact HF].
      apply andb_true_iff in Et. destruct Et as [Eeq _].
      assert (Hback : in_range S back /\ back = Binary.Btrunc prec emax (of_int z)).
      { unfold to_int_cast in Ec. destruct S; try discriminate; rewrite HF in Ec;
          match type of Ec with (if ?c then _ else _) = _ => destruct c eqn:Erange; [|discriminate] end;
          (split; [apply in_rangeb_spec; congruence | congruence]). }
      destruct Hback as [Hbr Hbt].
      rewrite (eq_c_same S back z Hbr Hr) in Eeq. apply Z.eqb_eq in Eeq.
      rewrite HR. apply trunc_back_exact. rewrite <- Btrunc_rnd by exact Hz. congruence.
  Qed.

  (* ... and every exactly representable integer is accepted: no UB, no refusal *)
  Theorem int_to_fp_complete S z : in_range S z -> fmt (IZR z) -> conv_int_fp S z = COk (of_int z).
  Proof.
    intros Hr Hf. pose proof (range_abs64 S z Hr) as Hz.
    destruct (of_int_correct z Hz) as [HR HF].
    rewrite round_generic in HR by (auto with typeclass_instances).
    assert (Ht : Binary.Btrunc prec emax (of_int z) = z).
    { rewrite Btrunc_rnd by exact Hz. rewrite round_generic by (auto with typeclass_instances). apply Ztrunc_IZR. }
    unfold NumFloatModel.conv_int_fp.
    destruct (is_bool S) eqn:Eb.
    - destruct S; try discriminate. unfold to_int_cast.
      unfold in_range, lo, hi in Hr. cbn in Hr.
      assert (Hs : Z.abs z < 2 ^ prec).
      { assert (2 ^ 1 <= 2 ^ prec) by (apply Z.pow_le_mono_r; pose proof prec_pos; lia). lia. }
      rewrite (of_int_zero_iff z Hz Hs). cbn [is_bool].
      rewrite eq_c_same; [| |unfold in_range, lo, hi; cbn; lia].
      + destruct (Z.eqb_spec z 0); [subst; reflexivity|]. assert (z = 1) by lia. subst. reflexivity.
      + unfold in_range, lo, hi. cbn. destruct (z =? 0); lia.
    - assert (Ec : to_int_cast prec emax S (of_int z) = Some z).
      { apply in_rangeb_spec in Hr. unfold to_int_cast. destruct S; try discriminate; rewrite HF, Ht, Hr; reflexivity. }
      rewrite Ec. rewrite (eq_c_same S z z Hr Hr), Z.eqb_refl. cbn [andb].
      rewrite (gt0_exact S z Hr), (lt0_exact S z Hr).
      destruct (fgt0 prec emax (of_int z)) eqn:Eg.
      + apply (fgt0_correct _ HF) in Eg. rewrite HR in Eg. apply lt_IZR in Eg.
        destruct (flt0 prec emax (of_int z)) eqn:El.
        * apply (flt0_correct _ HF) in El. rewrite HR in El. apply lt_IZR in El. lia.
        * replace (z <? 0) with false by lia. reflexivity.
      + destruct (flt0 prec emax (of_int z)) eqn:El.
        * apply (flt0_correct _ HF) in El. rewrite HR in El. apply lt_IZR in El.
          replace (0 <? z) with false by lia. reflexivity.
        * reflexivity.
  Qed.

  (* the class on which the cast back is undefined: the rounded value does not fit the source type *)
  Definition ub_class (S : ity) (z : Z) : bool :=
    negb (is_bool S) && negb (in_rangeb S (Binary.Btrunc prec emax (of_int z))).

  Theorem int_to_fp_ub_iff S z : in_range S z -> (conv_int_fp S z = CUB <-> ub_class S z = true).
  Proof.
    intros Hr. pose proof (range_abs64 S z Hr) as Hz. destruct (of_int_correct z Hz) as [_ HF].
    unfold NumFloatModel.conv_int_fp, ub_class, to_int_cast.
    destruct S; cbn [is_bool negb andb]; rewrite ?HF;
      try (destruct (in_rangeb _ (Binary.Btrunc prec emax (of_int z))); cbn [negb];
           split; intros H; try discriminate; try reflexivity;
           repeat match type of H with context [if ?c then _ else _] => destruct c end; discriminate).
    split; intros H; [|discriminate].
    repeat match type of H with context [if ?c then _ else _] => destruct c end; discriminate.
  Qed.

  (* outside that class a non-representable integer is refused with out_of_range *)
  Theorem int_to_fp_reject_outside S z : in_range S z -> ub_class S z = false -> ~ fmt (IZR z) ->
    conv_int_fp S z = COutOfRange.
  Proof.
    intros Hr Hub Hnf.
    destruct (conv_int_fp S z) as [v| | | |] eqn:E; try reflexivity.
    - exfalso. destruct (int_to_fp_exact S z v Hr E) as [HR _]. apply Hnf. rewrite <- HR.
      apply Binary.generic_format_B2R.
    - exfalso. unfold NumFloatModel.conv_int_fp in E.
      destruct (to_int_cast prec emax S (of_int z)); [|discriminate].
      destruct (is_bool S); repeat match type of E with context [if ?c then _ else _] => destruct c end; discriminate.
    - exfalso. unfold NumFloatModel.conv_int_fp in E.
      destruct (to_int_cast prec emax S (of_int z)); [|discriminate].
      destruct (is_bool S); repeat match type of E with context [if ?c then _ else _] => destruct c end; discriminate.
    - exfalso. apply (int_to_fp_ub_iff S z Hr) in E. congruence.
  Qed.
End Format.

(* ---------- the two concrete formats ---------- *)

#[local] Existing Instance prec32_gt_0.
#[local] Existing Instance prec64_gt_0.
#[local] Existing Instance prec32_lt_emax.
#[local] Existing Instance prec64_lt_emax.
#[local] Instance fexp32_valid : Valid_exp (SpecFloat.fexp 24 128) := FLT_exp_valid (SpecFloat.emin 24 128) 24.
#[local] Instance fexp64_valid : Valid_exp (SpecFloat.fexp 53 1024) := FLT_exp_valid (SpecFloat.emin 53 1024) 53.

Notation B2R32 := (Binary.B2R 24 128).
Notation B2R64 := (Binary.B2R 53 1024).
Notation fmt32 := (generic_format radix2 (SpecFloat.fexp 24 128)).
Notation fmt64 := (generic_format radix2 (SpecFloat.fexp 53 1024)).
Notation rnd32 := (round radix2 (SpecFloat.fexp 24 128) ZnearestE).

Definition int_to_f32_exact := int_to_fp_exact 24 128 prec32_gt_0 prec32_lt_emax eq_refl.
Definition int_to_f64_exact := int_to_fp_exact 53 1024 prec64_gt_0 prec64_lt_emax eq_refl.
Definition int_to_f32_complete := int_to_fp_complete 24 128 prec32_gt_0 prec32_lt_emax eq_refl.
Definition int_to_f64_complete := int_to_fp_complete 53 1024 prec64_gt_0 prec64_lt_emax eq_refl.
Definition int_to_f32_ub_iff := int_to_fp_ub_iff 24 128 prec32_gt_0 prec32_lt_emax eq_refl.
Definition int_to_f64_ub_iff := int_to_fp_ub_iff 53 1024 prec64_gt_0 prec64_lt_emax eq_refl.
Definition int_to_f32_reject_outside := int_to_fp_reject_outside 24 128 prec32_gt_0 prec32_lt_emax eq_refl.
Definition int_to_f64_reject_outside := int_to_fp_reject_outside 53 1024 prec64_gt_0 prec64_lt_emax eq_refl.

Definition ub_class32 := ub_class 24 128 prec32_gt_0 prec32_lt_emax.
Definition ub_class64 := ub_class 53 1024 prec64_gt_0 prec64_lt_emax.

(* the undefined behaviour is reachable: the largest values of the 32/64-bit types *)
Lemma ub_witness_f32 : in_range TU64 (2 ^ 64 - 1) /\ conv_int_f32 TU64 (2 ^ 64 - 1) = CUB /\ ub_class32 TU64 (2 ^ 64 - 1) = true.
Proof. split; [unfold in_range; vm_compute; split; discriminate|]. split; vm_compute; reflexivity. Qed.

Lemma ub_witness_f64 : in_range TI64 (2 ^ 63 - 1) /\ conv_int_f64 TI64 (2 ^ 63 - 1) = CUB /\ ub_class64 TI64 (2 ^ 63 - 1) = true.
Proof. split; [unfold in_range; vm_compute; split; discriminate|]. split; vm_compute; reflexivity. Qed.

Lemma ub_witness_i32_f32 : in_range TI32 (2 ^ 31 - 1) /\ conv_int_f32 TI32 (2 ^ 31 - 1) = CUB.
Proof. split; [unfold in_range; vm_compute; split; discriminate|]. vm_compute; reflexivity. Qed.

(* 8/16-bit sources (and 32-bit into double) never reach it *)
Lemma no_ub_small_f32 S z : (bits_of S <= 16) -> in_range S z -> ub_class32 S z = false.
Proof.
  intros Hb Hr.
  assert (Hs : Z.abs z < 2 ^ 24) by (unfold in_range, lo, hi in Hr; destruct S; cbn in *; lia).
  assert (Hf : fmt32 (IZR z)) by (apply (small_int_fmt 24 128 prec32_gt_0 prec32_lt_emax); exact Hs).
  destruct (ub_class32 S z) eqn:E; [|reflexivity].
  apply (int_to_f32_ub_iff S z Hr) in E. rewrite (int_to_f32_complete S z Hr Hf) in E. discriminate.
Qed.

Lemma no_ub_le32_f64 S z : (bits_of S <= 32) -> in_range S z -> ub_class64 S z = false.
Proof.
  intros Hb Hr.
  assert (Hs : Z.abs z < 2 ^ 53) by (unfold in_range, lo, hi in Hr; destruct S; cbn in *; lia).
  assert (Hf : fmt64 (IZR z)) by (apply (small_int_fmt 53 1024 prec64_gt_0 prec64_lt_emax); exact Hs).
  destruct (ub_class64 S z) eqn:E; [|reflexivity].
  apply (int_to_f64_ub_iff S z Hr) in E. rewrite (int_to_f64_complete S z Hr Hf) in E. discriminate.
Qed.

(* ---------- float -> double ---------- *)

Lemma fmt32_fmt64 r : fmt32 r -> fmt64 r.
Proof.
  intros H. apply (FLT_format_generic radix2 (SpecFloat.emin 24 128) 24) in H.
  destruct H as [f Hr Hm He].
  apply (generic_format_FLT radix2 (SpecFloat.emin 53 1024) 53).
  apply (FLT_spec radix2 _ 53 r f); [exact Hr | |].
  - eapply Z.lt_trans; [exact Hm|]. reflexivity.
  - eapply Z.le_trans; [|exact He]. unfold SpecFloat.emin. lia.
Qed.

Theorem widen_exact x : Binary.is_finite 24 128 x = true ->
  B2R64 (widen x) = B2R32 x /\ Binary.is_finite 53 1024 (widen x) = true.
Proof.
  intros Hf. destruct x as [s|s| |s m e B]; try discriminate.
  - split; reflexivity.
  - unfold widen.
    pose proof (Binary.binary_normalize_correct 53 1024 prec64_gt_0 prec64_lt_emax mode_NE (cond_Zopp s (Zpos m)) e s) as H.
    cbn [round_mode] in H.
    assert (Hfmt : fmt64 (F2R (Float radix2 (cond_Zopp s (Z.pos m)) e))).
    { apply fmt32_fmt64. apply (Binary.generic_format_B2R 24 128 (Binary.B754_finite 24 128 s m e B)). }
    rewrite round_generic in H by (auto with typeclass_instances).
    rewrite Rlt_bool_true in H.
    + destruct H as [H1 [H2 _]]. split; [exact H1 | exact H2].
    + apply Rlt_trans with (bpow radix2 128).
      * apply (Binary.abs_B2R_lt_emax 24 128 (Binary.B754_finite 24 128 s m e B)).
      * apply bpow_lt. lia.
Qed.

Theorem f32_to_f64 x : exists y, conv_f32_f64 x = COk y /\
  (Binary.is_finite 24 128 x = true -> B2R64 y = B2R32 x /\ Binary.is_finite 53 1024 y = true) /\
  (Binary.is_nan 24 128 x = true -> Binary.is_nan 53 1024 y = true) /\
  (forall s, x = Binary.B754_infinity 24 128 s -> y = Binary.B754_infinity 53 1024 s).
Proof.
  exists (widen x). split; [reflexivity|]. split; [apply widen_exact|]. split.
  - destruct x; try discriminate. reflexivity.
  - intros s ->. reflexivity.
Qed.

(* ---------- double -> float ---------- *)

Lemma flt_max_finite : Binary.is_finite 24 128 flt_max = true /\ Binary.is_finite 24 128 flt_lowest = true.
Proof. split; vm_compute; reflexivity. Qed.

Lemma fge_correct a b : Binary.is_finite 53 1024 a = true -> Binary.is_finite 53 1024 b = true ->
  fge a b = true <-> (B2R64 b <= B2R64 a)%R.
Proof.
  intros Ha Hb. unfold fge. rewrite Binary.Bcompare_correct by assumption.
  destruct (Rcompare_spec (B2R64 a) (B2R64 b)); split; intros; try discriminate; try lra; reflexivity.
Qed.

Lemma fle_correct a b : Binary.is_finite 53 1024 a = true -> Binary.is_finite 53 1024 b = true ->
  fle a b = true <-> (B2R64 a <= B2R64 b)%R.
Proof.
  intros Ha Hb. unfold fle. rewrite Binary.Bcompare_correct by assumption.
  destruct (Rcompare_spec (B2R64 a) (B2R64 b)); split; intros; try discriminate; try lra; reflexivity.
Qed.

Definition in_float_range (x : binary64) : Prop :=
  Binary.is_finite 53 1024 x = true /\ (B2R32 flt_lowest <= B2R64 x <= B2R32 flt_max)%R.

Lemma range_test_correct x : fge x (widen flt_lowest) && fle x (widen flt_max) = true <-> in_float_range x.
Proof.
  destruct flt_max_finite as [Fm Fl].
  destruct (widen_exact flt_max Fm) as [Em Fm'], (widen_exact flt_lowest Fl) as [El Fl'].
  unfold in_float_range. rewrite <- Em, <- El.
  destruct (Binary.is_finite 53 1024 x) eqn:Hf.
  - rewrite andb_true_iff, (fge_correct x _ Hf Fl'), (fle_correct x _ Hf Fm'). tauto.
  - split; [|intros [H _]; discriminate].
    intros H. exfalso. destruct x as [s|s|s pl Hpl|s m e B]; try discriminate Hf.
    all: try destruct s; vm_compute in H; discriminate H.
Qed.

Theorem f64_to_f32_accept x y : conv_f64_f32 x = COk y ->
  in_float_range x /\ B2R32 y = rnd32 (B2R64 x) /\ Binary.is_finite 24 128 y = true.
Proof.
  unfold conv_f64_f32. intros H.
  destruct (fge x (widen flt_lowest) && fle x (widen flt_max)) eqn:Et; [|discriminate].
  apply range_test_correct in Et. split; [exact Et|].
  assert (y = narrow x) by congruence. subst y.
  destruct Et as [Hf [Hlo Hhi]].
  destruct x as [s|s|s pl Hpl|s m e B]; try discriminate.
  - cbn. rewrite round_0 by (auto with typeclass_instances). split; reflexivity.
  - unfold narrow.
    pose proof (Binary.binary_normalize_correct 24 128 prec32_gt_0 prec32_lt_emax mode_NE (cond_Zopp s (Zpos m)) e s) as H1.
    cbn [round_mode] in H1. cbn [Binary.B2R] in Hlo, Hhi |- *.
    set (r := F2R (Float radix2 (cond_Zopp s (Z.pos m)) e)) in *.
    assert (Hup : (rnd32 r <= B2R32 flt_max)%R).
    { apply round_le_generic; auto with typeclass_instances; try exact Hhi. apply Binary.generic_format_B2R. }
    assert (Hdn : (B2R32 flt_lowest <= rnd32 r)%R).
    { apply round_ge_generic; auto with typeclass_instances; try exact Hlo. apply Binary.generic_format_B2R. }
    pose proof (Binary.abs_B2R_lt_emax 24 128 flt_max) as Bm.
    pose proof (Binary.abs_B2R_lt_emax 24 128 flt_lowest) as Bl.
    rewrite Rlt_bool_true in H1.
    + destruct H1 as [E1 [E2 _]]. split; assumption.
    + apply Rabs_lt. apply Rabs_lt_inv in Bm. apply Rabs_lt_inv in Bl. lra.
Qed.

Theorem f64_to_f32_total x :
  (exists y, conv_f64_f32 x = COk y /\ in_float_range x) \/ (conv_f64_f32 x = COutOfRange /\ ~ in_float_range x).
Proof.
  unfold conv_f64_f32.
  destruct (fge x (widen flt_lowest) && fle x (widen flt_max)) eqn:Et.
  - left. eexists. split; [reflexivity|]. apply range_test_correct. exact Et.
  - right. split; [reflexivity|]. intros H. apply range_test_correct in H. congruence.
Qed.

Example flt_max_bits : bits_of_b64 (widen flt_max) = 0x47efffffe0000000 /\ bits_of_b64 (widen flt_lowest) = 0xc7efffffe0000000.
Proof. split; vm_compute; reflexivity. Qed.

Example f64_to_f32_tie : option_map bits_of_b32 (match conv_f64_f32 (b64_of_bits 0x3ff0000010000000) with COk y => Some y | _ => None end) = Some 0x3f800000.
Proof. vm_compute. reflexivity. Qed.
