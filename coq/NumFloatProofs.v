(* NumFloatProofs.v — C04, floating-point half: integer -> float/double accepts exactly the exactly
   representable integers (or hits undefined behaviour next to the top of the 32/64-bit types),
   double -> float rounds to nearest inside the float range and rejects everything else,
   float -> double is exact.  Flocq brings in the standard real-number axioms. *)
From Coq Require Import ZArith Reals Lia Lra.
From Flocq Require Import Core BinarySingleNaN Binary Bits.
From BS Require Import Base NumSpec NumModel NumLemmas NumProofs NumFloatModel.
Local Open Scope Z_scope.

Section Format.
  Variable prec emax : Z.
  Context (prec_gt_0_ : Prec_gt_0 prec).
  Context (prec_lt_emax_ : Prec_lt_emax prec emax).
  Hypothesis Hemax : 64 < emax.

  Notation fl := (Binary.binary_float prec emax).
  Notation emin := (SpecFloat.emin prec emax).
  Notation fexp := (SpecFloat.fexp prec emax).
  Notation fmt := (generic_format radix2 fexp).
  Notation rnd := (round radix2 fexp ZnearestE).
  Notation B2R := (Binary.B2R prec emax).
  Notation of_int := (of_int prec emax prec_gt_0_ prec_lt_emax_).
  Notation conv_int_fp := (conv_int_fp prec emax prec_gt_0_ prec_lt_emax_).

  Lemma prec_pos : 0 < prec.
  Proof. exact prec_gt_0_. Qed.

  Lemma emin_neg : emin <= 0.
  Proof. unfold SpecFloat.emin. pose proof prec_pos. unfold Prec_lt_emax in prec_lt_emax_. lia. Qed.

  Lemma fexp_FLT : fexp = FLT_exp emin prec.
  Proof. reflexivity. Qed.

  Instance fexp_valid : Valid_exp fexp := FLT_exp_valid emin prec.

  Lemma IZR_F2R z : IZR z = F2R (Float radix2 z 0).
  Proof. unfold F2R. cbn. rewrite Rmult_1_r. reflexivity. Qed.

  (* small integers are representable *)
  Lemma small_int_fmt z : Z.abs z < 2 ^ prec -> fmt (IZR z).
  Proof.
    intros H. rewrite fexp_FLT. apply generic_format_FLT.
    apply (FLT_spec radix2 emin prec (IZR z) (Float radix2 z 0)).
    - apply IZR_F2R.
    - cbn. exact H.
    - cbn. apply emin_neg.
  Qed.

  (* a representable number of magnitude >= 2^prec is an integer *)
  Lemma big_fmt_int r : fmt r -> (bpow radix2 prec <= Rabs r)%R -> exists k, r = IZR k.
  Proof.
    intros Hf Hb. rewrite fexp_FLT in Hf. apply FLT_format_generic in Hf; [|exact prec_gt_0_].
    destruct Hf as [[m e] Hr Hm He]. cbn in Hm, He.
    destruct (Z_lt_le_dec e 0) as [Hneg|Hpos].
    - exfalso. rewrite Hr in Hb. unfold F2R in Hb. cbn [Fnum Fexp] in Hb.
      rewrite Rabs_mult in Hb. rewrite (Rabs_pos_eq (bpow radix2 e)) in Hb by apply bpow_ge_0.
      assert (H1 : (Rabs (IZR m) < bpow radix2 prec)%R).
      { rewrite <- abs_IZR. rewrite <- IZR_Zpower by (pose proof prec_pos; lia). apply IZR_lt. exact Hm. }
      assert (H2 : (bpow radix2 e <= 1)%R).
      { change 1%R with (bpow radix2 0). apply bpow_le. lia. }
      assert (H3 : (0 <= Rabs (IZR m))%R) by apply Rabs_pos.
      assert (H4 : (0 < bpow radix2 e)%R) by apply bpow_gt_0.
      nra.
    - exists (m * 2 ^ e). rewrite Hr. unfold F2R. cbn [Fnum Fexp]. rewrite mult_IZR.
      rewrite <- (IZR_Zpower radix2 e) by exact Hpos. reflexivity.
  Qed.

  Lemma Ztrunc_abs_le r : (IZR (Z.abs (Ztrunc r)) <= Rabs r)%R.
  Proof.
    rewrite <- Ztrunc_abs. rewrite Ztrunc_floor by apply Rabs_pos. apply Zfloor_lb.
  Qed.

  (* if the rounded value truncates back to z, the rounding was exact *)
  Lemma trunc_back_exact z : Ztrunc (rnd (IZR z)) = z -> rnd (IZR z) = IZR z.
  Proof.
    intros Ht. set (r := rnd (IZR z)) in *.
    assert (Hf : fmt r) by (apply generic_format_round; auto with typeclass_instances).
    destruct (Rle_or_lt (bpow radix2 prec) (Rabs r)) as [Hb|Hs].
    - destruct (big_fmt_int r Hf Hb) as [k Hk]. rewrite Hk in Ht. rewrite Ztrunc_IZR in Ht. congruence.
    - assert (Hz : Z.abs z < 2 ^ prec).
      { apply lt_IZR. rewrite <- Ht. eapply Rle_lt_trans; [apply Ztrunc_abs_le|].
        change (2 ^ prec) with (Zpower radix2 prec). rewrite (IZR_Zpower radix2 prec) by (pose proof prec_pos; lia). exact Hs. }
      apply round_generic; auto with typeclass_instances. apply small_int_fmt. exact Hz.
  Qed.

  (* ---------- static_cast<F>(z) ---------- *)

  Lemma pow64_fmt : fmt (bpow radix2 64).
  Proof.
    apply generic_format_bpow. unfold SpecFloat.fexp. pose proof prec_pos. pose proof emin_neg. lia.
  Qed.

  Lemma of_int_correct z : Z.abs z <= 2 ^ 64 ->
    B2R (of_int z) = rnd (IZR z) /\ Binary.is_finite prec emax (of_int z) = true.
  Proof.
    intros Hz. unfold NumFloatModel.of_int.
    pose proof (Binary.binary_normalize_correct prec emax prec_gt_0_ prec_lt_emax_ mode_NE z 0 false) as H.
    rewrite <- IZR_F2R in H. cbn [round_mode] in H.
    rewrite Rlt_bool_true in H.
    - destruct H as [H1 [H2 _]]. split; assumption.
    - apply Rle_lt_trans with (bpow radix2 64).
      + apply abs_round_le_generic; auto with typeclass_instances.
        * apply pow64_fmt.
        * rewrite <- abs_IZR. rewrite <- (IZR_Zpower radix2 64) by lia. apply IZR_le. exact Hz.
      + apply bpow_lt. exact Hemax.
  Qed.

  Lemma range_abs64 S z : in_range S z -> Z.abs z <= 2 ^ 64.
  Proof. unfold in_range, lo, hi. destruct S; cbn; lia. Qed.

  Lemma Btrunc_rnd z : Z.abs z <= 2 ^ 64 -> Binary.Btrunc prec emax (of_int z) = Ztrunc (rnd (IZR z)).
  Proof.
    intros Hz. destruct (of_int_correct z Hz) as [HR _].
    apply eq_IZR. rewrite Binary.Btrunc_correct by exact prec_lt_emax_. rewrite round_FIX_IZR. rewrite HR. reflexivity.
  Qed.

  Lemma flt_correct a b : Binary.is_finite prec emax a = true -> Binary.is_finite prec emax b = true ->
    flt prec emax a b = true <-> (B2R a < B2R b)%R.
  Proof.
    intros Ha Hb. unfold flt. rewrite Binary.Bcompare_correct by assumption.
    destruct (Rcompare_spec (B2R a) (B2R b)); split; intros; try discriminate; try lra; reflexivity.
  Qed.

  Lemma of_int_zero_iff z : Z.abs z <= 2 ^ 64 -> Z.abs z < 2 ^ prec ->
    (match of_int z with Binary.B754_zero _ _ _ => 0 | _ => 1 end) = (if z =? 0 then 0 else 1).
  Proof.
    intros Hz Hs. destruct (of_int_correct z Hz) as [HR HF].
    rewrite round_generic in HR by (auto with typeclass_instances; apply small_int_fmt; exact Hs).
    destruct (Z.eqb_spec z 0) as [->|Hnz].
    - reflexivity.
    - destruct (of_int z) as [s|s| |s m e B]; try discriminate; [|reflexivity].
      exfalso. cbn in HR. apply Hnz. apply eq_IZR. symmetry. exact HR.
  Qed.

  (* the limit std::ldexp(F(1), digits) *)
  Lemma limit_correct k : 0 <= k <= 64 ->
    B2R (of_int (2 ^ k)) = IZR (2 ^ k) /\ Binary.is_finite prec emax (of_int (2 ^ k)) = true.
  Proof.
    intros Hk.
    assert (Hp : 0 < 2 ^ k <= 2 ^ 64) by (split; [apply Z.pow_pos_nonneg; lia | apply Z.pow_le_mono_r; lia]).
    destruct (of_int_correct (2 ^ k) ltac:(lia)) as [HR HF]. split; [|exact HF].
    rewrite HR. apply round_generic; auto with typeclass_instances.
    change (2 ^ k) with (Zpower radix2 k). rewrite (IZR_Zpower radix2 k) by lia.
    apply generic_format_bpow. unfold SpecFloat.fexp. pose proof prec_pos. pose proof emin_neg. lia.
  Qed.

  Lemma neg_pow_fmt j : 0 <= j <= 64 -> fmt (IZR (- 2 ^ j)).
  Proof.
    intros Hj. rewrite opp_IZR. apply generic_format_opp.
    change (2 ^ j) with (Zpower radix2 j). rewrite (IZR_Zpower radix2 j) by lia.
    apply generic_format_bpow. unfold SpecFloat.fexp. pose proof prec_pos. pose proof emin_neg. lia.
  Qed.

  (* shape of the non-bool types: [lo, hi] = [0 or -2^digits, 2^digits - 1] *)
  Lemma type_shape S : is_bool S = false ->
    0 <= digits_of S <= 64 /\ hi S + 1 = 2 ^ digits_of S /\ (lo S = 0 \/ lo S = - 2 ^ digits_of S).
  Proof. destruct S; try discriminate; intros _; cbn; repeat split; try lia; (left; reflexivity) || (right; reflexivity). Qed.

  (* below the limit the cast back is defined: the truncated value is inside the source type *)
  Lemma cast_back_defined S z : is_bool S = false -> in_range S z ->
    flt prec emax (of_int z) (of_int (2 ^ digits_of S)) = true ->
    to_int_cast prec emax S (of_int z) = Some (Ztrunc (rnd (IZR z))) /\ in_range S (Ztrunc (rnd (IZR z))).
  Proof.
    intros Hb Hr Hlt. pose proof (range_abs64 S z Hr) as Hz.
    destruct (of_int_correct z Hz) as [HR HF].
    destruct (type_shape S Hb) as [Hk [Hhi Hlo]].
    destruct (limit_correct (digits_of S) Hk) as [LR LF].
    apply (flt_correct _ _ HF LF) in Hlt. rewrite HR, LR in Hlt.
    assert (Hin : in_range S (Ztrunc (rnd (IZR z)))).
    { unfold in_range. split.
      - assert (Hdn : (IZR (lo S) <= rnd (IZR z))%R).
        { apply round_ge_generic; auto with typeclass_instances; [|apply IZR_le; apply Hr].
          destruct Hlo as [->| ->]; [apply generic_format_0 | apply neg_pow_fmt; exact Hk]. }
        apply Ztrunc_le in Hdn. rewrite Ztrunc_IZR in Hdn. exact Hdn.
      - destruct (Rle_or_lt 0 (rnd (IZR z))) as [Hpos|Hneg].
        + assert (IZR (Ztrunc (rnd (IZR z))) < IZR (2 ^ digits_of S))%R.
          { eapply Rle_lt_trans; [|exact Hlt]. rewrite Ztrunc_floor by exact Hpos. apply Zfloor_lb. }
          apply lt_IZR in H. lia.
        + assert (Ztrunc (rnd (IZR z)) <= 0).
          { replace 0 with (Ztrunc 0) by apply (Ztrunc_IZR 0). apply Ztrunc_le. lra. }
          assert (0 < 2 ^ digits_of S) by (apply Z.pow_pos_nonneg; lia). lia. }
    split; [|exact Hin].
    unfold to_int_cast. rewrite HF, (Btrunc_rnd z Hz).
    apply in_rangeb_spec in Hin. rewrite Hin. destruct S; try discriminate; reflexivity.
  Qed.

  (* ---------- T_C04_int_to_fp ---------- *)

  (* whatever is accepted is exact *)
  Theorem int_to_fp_exact S z v : in_range S z -> conv_int_fp S z = COk v ->
    B2R v = IZR z /\ Binary.is_finite prec emax v = true.
  Proof.
    intros Hr H. pose proof (range_abs64 S z Hr) as Hz.
    destruct (of_int_correct z Hz) as [HR HF].
    unfold NumFloatModel.conv_int_fp in H.
    destruct (is_bool S) eqn:Eb.
    - (* bool: 0 and 1 are representable whatever the test says *)
      destruct (to_int_cast prec emax S (of_int z)) as [back|]; [|discriminate].
      destruct (eq_c S back S z); [|discriminate].
      assert (v = of_int z) by congruence. subst v. split; [|exact HF].
      rewrite HR. apply round_generic; auto with typeclass_instances. apply small_int_fmt.
      destruct S; try discriminate. unfold in_range, lo, hi in Hr. cbn in Hr.
      assert (2 ^ 1 <= 2 ^ prec) by (apply Z.pow_le_mono_r; pose proof prec_pos; lia). lia.
    - destruct (flt prec emax (of_int z) (of_int (2 ^ digits_of S))) eqn:El; [|discriminate].
      destruct (cast_back_defined S z Eb Hr El) as [Ec Hin]. rewrite Ec in H.
      destruct (eq_c S (Ztrunc (rnd (IZR z))) S z) eqn:Eeq; [|discriminate].
      assert (v = of_int z) by congruence. subst v. split; [|exact HF].
      rewrite (eq_c_same S _ z Hin Hr) in Eeq. apply Z.eqb_eq in Eeq.
      rewrite HR. apply trunc_back_exact. exact Eeq.
  Qed.

  (* every exactly representable integer is accepted *)
  Theorem int_to_fp_complete S z : in_range S z -> fmt (IZR z) -> conv_int_fp S z = COk (of_int z).
  Proof.
    intros Hr Hf. pose proof (range_abs64 S z Hr) as Hz.
    destruct (of_int_correct z Hz) as [HR HF].
    rewrite round_generic in HR by (auto with typeclass_instances).
    unfold NumFloatModel.conv_int_fp.
    destruct (is_bool S) eqn:Eb.
    - destruct S; try discriminate. unfold to_int_cast.
      unfold in_range, lo, hi in Hr. cbn in Hr.
      assert (Hs : Z.abs z < 2 ^ prec).
      { assert (2 ^ 1 <= 2 ^ prec) by (apply Z.pow_le_mono_r; pose proof prec_pos; lia). lia. }
      rewrite (of_int_zero_iff z Hz Hs).
      rewrite eq_c_same; [| |unfold in_range, lo, hi; cbn; lia].
      + destruct (Z.eqb_spec z 0); [subst; reflexivity|]. assert (z = 1) by lia. subst. reflexivity.
      + unfold in_range, lo, hi. cbn. destruct (z =? 0); lia.
    - destruct (type_shape S Eb) as [Hk [Hhi _]].
      destruct (limit_correct (digits_of S) Hk) as [LR LF].
      assert (El : flt prec emax (of_int z) (of_int (2 ^ digits_of S)) = true).
      { apply (flt_correct _ _ HF LF). rewrite HR, LR. apply IZR_lt. unfold in_range in Hr. lia. }
      rewrite El. destruct (cast_back_defined S z Eb Hr El) as [Ec _]. rewrite Ec.
      rewrite round_generic by (auto with typeclass_instances). rewrite Ztrunc_IZR.
      rewrite (eq_c_same S z z Hr Hr), Z.eqb_refl. reflexivity.
  Qed.

  (* FULL STRENGTH, second half: an integer that is not exactly representable is out_of_range *)
  Theorem int_to_fp_reject S z : in_range S z -> ~ fmt (IZR z) -> conv_int_fp S z = COutOfRange.
  Proof.
    intros Hr Hnf.
    destruct (is_bool S) eqn:Eb.
    { exfalso. apply Hnf. apply small_int_fmt. destruct S; try discriminate.
      unfold in_range, lo, hi in Hr. cbn in Hr.
      assert (2 ^ 1 <= 2 ^ prec) by (apply Z.pow_le_mono_r; pose proof prec_pos; lia). lia. }
    destruct (conv_int_fp S z) as [v| | | |] eqn:E; try reflexivity; exfalso.
    - destruct (int_to_fp_exact S z v Hr E) as [HR _]. apply Hnf. rewrite <- HR. apply Binary.generic_format_B2R.
    - unfold NumFloatModel.conv_int_fp in E. rewrite Eb in E.
      destruct (flt prec emax (of_int z) (of_int (2 ^ digits_of S))) eqn:El; [|discriminate].
      destruct (cast_back_defined S z Eb Hr El) as [Ec _]. rewrite Ec in E.
      destruct (eq_c S (Ztrunc (rnd (IZR z))) S z); discriminate.
    - unfold NumFloatModel.conv_int_fp in E. rewrite Eb in E.
      destruct (flt prec emax (of_int z) (of_int (2 ^ digits_of S))) eqn:El; [|discriminate].
      destruct (cast_back_defined S z Eb Hr El) as [Ec _]. rewrite Ec in E.
      destruct (eq_c S (Ztrunc (rnd (IZR z))) S z); discriminate.
    - unfold NumFloatModel.conv_int_fp in E. rewrite Eb in E.
      destruct (flt prec emax (of_int z) (of_int (2 ^ digits_of S))) eqn:El; [|discriminate].
      destruct (cast_back_defined S z Eb Hr El) as [Ec _]. rewrite Ec in E.
      destruct (eq_c S (Ztrunc (rnd (IZR z))) S z); discriminate.
  Qed.

  (* no undefined behaviour is left: the outcome is always a value or out_of_range *)
  Theorem int_to_fp_total S z : in_range S z ->
    conv_int_fp S z = COk (of_int z) \/ conv_int_fp S z = COutOfRange.
  Proof.
    intros Hr. pose proof (range_abs64 S z Hr) as Hz.
    unfold NumFloatModel.conv_int_fp.
    destruct (is_bool S) eqn:Eb.
    - destruct S; try discriminate. cbn [to_int_cast]. destruct (eq_c TBool _ TBool z); [left|right]; reflexivity.
    - destruct (flt prec emax (of_int z) (of_int (2 ^ digits_of S))) eqn:El; [|right; reflexivity].
      destruct (cast_back_defined S z Eb Hr El) as [Ec _]. rewrite Ec.
      destruct (eq_c S (Ztrunc (rnd (IZR z))) S z); [left|right]; reflexivity.
  Qed.
End Format.

(* ---------- the two concrete formats ---------- *)

#[local] Existing Instance prec32_gt_0.
#[local] Existing Instance prec64_gt_0.
#[local] Existing Instance prec32_lt_emax.
#[local] Existing Instance prec64_lt_emax.
#[local] Instance fexp32_valid : Valid_exp (SpecFloat.fexp 24 128) := FLT_exp_valid (SpecFloat.emin 24 128) 24.
#[local] Instance fexp64_valid : Valid_exp (SpecFloat.fexp 53 1024) := FLT_exp_valid (SpecFloat.emin 53 1024) 53.

Notation B2R32 := (Binary.B2R 24 128).
Notation B2R64 := (Binary.B2R 53 1024).
Notation fmt32 := (generic_format radix2 (SpecFloat.fexp 24 128)).
Notation fmt64 := (generic_format radix2 (SpecFloat.fexp 53 1024)).
Notation rnd32 := (round radix2 (SpecFloat.fexp 24 128) ZnearestE).

Definition int_to_f32_exact := int_to_fp_exact 24 128 prec32_gt_0 prec32_lt_emax eq_refl.
Definition int_to_f64_exact := int_to_fp_exact 53 1024 prec64_gt_0 prec64_lt_emax eq_refl.
Definition int_to_f32_complete := int_to_fp_complete 24 128 prec32_gt_0 prec32_lt_emax eq_refl.
Definition int_to_f64_complete := int_to_fp_complete 53 1024 prec64_gt_0 prec64_lt_emax eq_refl.
Definition int_to_f32_reject := int_to_fp_reject 24 128 prec32_gt_0 prec32_lt_emax eq_refl.
Definition int_to_f64_reject := int_to_fp_reject 53 1024 prec64_gt_0 prec64_lt_emax eq_refl.
Definition int_to_f32_total := int_to_fp_total 24 128 prec32_gt_0 prec32_lt_emax eq_refl.
Definition int_to_f64_total := int_to_fp_total 53 1024 prec64_gt_0 prec64_lt_emax eq_refl.

(* the former undefined-behaviour inputs (rounded value 2^31 / 2^32 / 2^63 / 2^64) are now refused *)
Lemma top_values_refused :
  conv_int_f32 TU64 (2 ^ 64 - 1) = COutOfRange /\ conv_int_f64 TU64 (2 ^ 64 - 1) = COutOfRange /\
  conv_int_f32 TI64 (2 ^ 63 - 1) = COutOfRange /\ conv_int_f64 TI64 (2 ^ 63 - 1) = COutOfRange /\
  conv_int_f32 TU32 (2 ^ 32 - 1) = COutOfRange /\ conv_int_f32 TI32 (2 ^ 31 - 1) = COutOfRange.
Proof. repeat split; vm_compute; reflexivity. Qed.

Lemma top_values_accepted :
  option_map bits_of_b32 (match conv_int_f32 TU64 (2 ^ 64 - 2 ^ 40) with COk v => Some v | _ => None end) = Some 0x5f7fffff /\
  option_map bits_of_b64 (match conv_int_f64 TI64 (- 2 ^ 63) with COk v => Some v | _ => None end) = Some 0xc3e0000000000000.
Proof. split; vm_compute; reflexivity. Qed.

(* ---------- float -> double ---------- *)

Lemma fmt32_fmt64 r : fmt32 r -> fmt64 r.
Proof.
  intros H. apply (FLT_format_generic radix2 (SpecFloat.emin 24 128) 24) in H.
  destruct H as [f Hr Hm He].
  apply (generic_format_FLT radix2 (SpecFloat.emin 53 1024) 53).
  apply (FLT_spec radix2 _ 53 r f); [exact Hr | |].
  - eapply Z.lt_trans; [exact Hm|]. reflexivity.
  - eapply Z.le_trans; [|exact He]. unfold SpecFloat.emin. lia.
Qed.

Theorem widen_exact x : Binary.is_finite 24 128 x = true ->
  B2R64 (widen x) = B2R32 x /\ Binary.is_finite 53 1024 (widen x) = true.
Proof.
  intros Hf. destruct x as [s|s| |s m e B]; try discriminate.
  - split; reflexivity.
  - unfold widen.
    pose proof (Binary.binary_normalize_correct 53 1024 prec64_gt_0 prec64_lt_emax mode_NE (cond_Zopp s (Zpos m)) e s) as H.
    cbn [round_mode] in H.
    assert (Hfmt : fmt64 (F2R (Float radix2 (cond_Zopp s (Z.pos m)) e))).
    { apply fmt32_fmt64. apply (Binary.generic_format_B2R 24 128 (Binary.B754_finite 24 128 s m e B)). }
    rewrite round_generic in H by (auto with typeclass_instances).
    rewrite Rlt_bool_true in H.
    + destruct H as [H1 [H2 _]]. split; [exact H1 | exact H2].
    + apply Rlt_trans with (bpow radix2 128).
      * apply (Binary.abs_B2R_lt_emax 24 128 (Binary.B754_finite 24 128 s m e B)).
      * apply bpow_lt. lia.
Qed.

Theorem f32_to_f64 x : exists y, conv_f32_f64 x = COk y /\
  (Binary.is_finite 24 128 x = true -> B2R64 y = B2R32 x /\ Binary.is_finite 53 1024 y = true) /\
  (Binary.is_nan 24 128 x = true -> Binary.is_nan 53 1024 y = true) /\
  (forall s, x = Binary.B754_infinity 24 128 s -> y = Binary.B754_infinity 53 1024 s).
Proof.
  exists (widen x). split; [reflexivity|]. split; [apply widen_exact|]. split.
  - destruct x; try discriminate. reflexivity.
  - intros s ->. reflexivity.
Qed.

(* ---------- double -> float ---------- *)

Lemma flt_max_finite : Binary.is_finite 24 128 flt_max = true /\ Binary.is_finite 24 128 flt_lowest = true.
Proof. split; vm_compute; reflexivity. Qed.

Lemma fge_correct a b : Binary.is_finite 53 1024 a = true -> Binary.is_finite 53 1024 b = true ->
  fge a b = true <-> (B2R64 b <= B2R64 a)%R.
Proof.
  intros Ha Hb. unfold fge. rewrite Binary.Bcompare_correct by assumption.
  destruct (Rcompare_spec (B2R64 a) (B2R64 b)); split; intros; try discriminate; try lra; reflexivity.
Qed.

Lemma fle_correct a b : Binary.is_finite 53 1024 a = true -> Binary.is_finite 53 1024 b = true ->
  fle a b = true <-> (B2R64 a <= B2R64 b)%R.
Proof.
  intros Ha Hb. unfold fle. rewrite Binary.Bcompare_correct by assumption.
  destruct (Rcompare_spec (B2R64 a) (B2R64 b)); split; intros; try discriminate; try lra; reflexivity.
Qed.

Definition in_float_range (x : binary64) : Prop :=
  Binary.is_finite 53 1024 x = true /\ (B2R32 flt_lowest <= B2R64 x <= B2R32 flt_max)%R.

Lemma range_test_correct x : fge x (widen flt_lowest) && fle x (widen flt_max) = true <-> in_float_range x.
Proof.
  destruct flt_max_finite as [Fm Fl].
  destruct (widen_exact flt_max Fm) as [Em Fm'], (widen_exact flt_lowest Fl) as [El Fl'].
  unfold in_float_range. rewrite <- Em, <- El.
  destruct (Binary.is_finite 53 1024 x) eqn:Hf.
  - rewrite andb_true_iff, (fge_correct x _ Hf Fl'), (fle_correct x _ Hf Fm'). tauto.
  - split; [|intros [H _]; discriminate].
    intros H. exfalso. destruct x as [s|s|s pl Hpl|s m e B]; try discriminate Hf.
    all: try destruct s; vm_compute in H; discriminate H.
Qed.

Theorem f64_to_f32_accept x y : conv_f64_f32 x = COk y ->
  in_float_range x /\ B2R32 y = rnd32 (B2R64 x) /\ Binary.is_finite 24 128 y = true.
Proof.
  unfold conv_f64_f32. intros H.
  destruct (fge x (widen flt_lowest) && fle x (widen flt_max)) eqn:Et; [|discriminate].
  apply range_test_correct in Et. split; [exact Et|].
  assert (y = narrow x) by congruence. subst y.
  destruct Et as [Hf [Hlo Hhi]].
  destruct x as [s|s|s pl Hpl|s m e B]; try discriminate.
  - cbn. rewrite round_0 by (auto with typeclass_instances). split; reflexivity.
  - unfold narrow.
    pose proof (Binary.binary_normalize_correct 24 128 prec32_gt_0 prec32_lt_emax mode_NE (cond_Zopp s (Zpos m)) e s) as H1.
    cbn [round_mode] in H1. cbn [Binary.B2R] in Hlo, Hhi |- *.
    set (r := F2R (Float radix2 (cond_Zopp s (Z.pos m)) e)) in *.
    assert (Hup : (rnd32 r <= B2R32 flt_max)%R).
    { apply round_le_generic; auto with typeclass_instances; try exact Hhi. apply Binary.generic_format_B2R. }
    assert (Hdn : (B2R32 flt_lowest <= rnd32 r)%R).
    { apply round_ge_generic; auto with typeclass_instances; try exact Hlo. apply Binary.generic_format_B2R. }
    pose proof (Binary.abs_B2R_lt_emax 24 128 flt_max) as Bm.
    pose proof (Binary.abs_B2R_lt_emax 24 128 flt_lowest) as Bl.
    rewrite Rlt_bool_true in H1.
    + destruct H1 as [E1 [E2 _]]. split; assumption.
    + apply Rabs_lt. apply Rabs_lt_inv in Bm. apply Rabs_lt_inv in Bl. lra.
Qed.

Theorem f64_to_f32_total x :
  (exists y, conv_f64_f32 x = COk y /\ in_float_range x) \/ (conv_f64_f32 x = COutOfRange /\ ~ in_float_range x).
Proof.
  unfold conv_f64_f32.
  destruct (fge x (widen flt_lowest) && fle x (widen flt_max)) eqn:Et.
  - left. eexists. split; [reflexivity|]. apply range_test_correct. exact Et.
  - right. split; [reflexivity|]. intros H. apply range_test_correct in H. congruence.
Qed.

Example flt_max_bits : bits_of_b64 (widen flt_max) = 0x47efffffe0000000 /\ bits_of_b64 (widen flt_lowest) = 0xc7efffffe0000000.
Proof. split; vm_compute; reflexivity. Qed.

Example f64_to_f32_tie : option_map bits_of_b32 (match conv_f64_f32 (b64_of_bits 0x3ff0000010000000) with COk y => Some y | _ => None end) = Some 0x3f800000.
Proof. vm_compute. reflexivity. Qed.

Lemma fp_to_int_invalid (x : binary64) T : conv_fp_int x T = CInvalidArgument.
Proof. reflexivity. Qed.
