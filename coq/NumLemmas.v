(* NumLemmas.v — arithmetic of two's-complement wrapping for SYMBOLIC bit widths, and the exactness
   of the cast-and-compare-back + sign test of Convert::Detail::To(integer -> integer). *)
From BS Require Import Base NumSpec NumModel.
From Coq Require Import ZifyBool ZifyN ZifyNat.
Ltac Zify.zify_post_hook ::= Z.div_mod_to_equations.
Local Open Scope Z_scope.

(* ---------- wrap with opaque moduli: M = 2 * H ---------- *)

Definition wrapg (H : Z) (sg : bool) (z : Z) : Z :=
  if sg then (z + H) mod (2 * H) - H else z mod (2 * H).

Lemma wrap_wrapg bits sg z : 1 <= bits -> wrap bits sg z = wrapg (2 ^ (bits - 1)) sg z.
Proof.
  intros Hb. unfold wrap, wrapg.
  replace (2 ^ bits) with (2 * 2 ^ (bits - 1)).
  - reflexivity.
  - rewrite <- Z.pow_succ_r by lia. f_equal. lia.
Qed.

Definition glo (H : Z) (sg : bool) : Z := if sg then - H else 0.
Definition ghi (H : Z) (sg : bool) : Z := if sg then H - 1 else 2 * H - 1.

Lemma int_lo_g sg bits : 1 <= bits -> int_lo sg bits = glo (2 ^ (bits - 1)) sg.
Proof. intros; unfold int_lo, glo. reflexivity. Qed.

Lemma int_hi_g sg bits : 1 <= bits -> int_hi sg bits = ghi (2 ^ (bits - 1)) sg.
Proof.
  intros Hb; unfold int_hi, ghi. destruct sg; [reflexivity|].
  replace (2 ^ bits) with (2 * 2 ^ (bits - 1)); [reflexivity|].
  rewrite <- Z.pow_succ_r by lia. f_equal. lia.
Qed.

(* wrapg z = z - k * (2H) for some k, and lies in the range *)
Lemma wrapg_char H sg z : 1 <= H ->
  exists k, wrapg H sg z = z - k * (2 * H) /\ glo H sg <= wrapg H sg z <= ghi H sg.
Proof.
  intros HH. unfold wrapg, glo, ghi. destruct sg.
  - exists ((z + H) / (2 * H)).
    pose proof (Z.div_mod (z + H) (2 * H) ltac:(lia)) as E.
    pose proof (Z.mod_pos_bound (z + H) (2 * H) ltac:(lia)) as B.
    set (q := (z + H) / (2 * H)) in *. set (r := (z + H) mod (2 * H)) in *. clearbody q r.
    split; nia.
  - exists (z / (2 * H)).
    pose proof (Z.div_mod z (2 * H) ltac:(lia)) as E.
    pose proof (Z.mod_pos_bound z (2 * H) ltac:(lia)) as B.
    set (q := z / (2 * H)) in *. set (r := z mod (2 * H)) in *. clearbody q r.
    split; nia.
Qed.

Lemma wrapg_id H sg z : 1 <= H -> glo H sg <= z <= ghi H sg -> wrapg H sg z = z.
Proof.
  intros HH Hr. destruct (wrapg_char H sg z HH) as [k [E B]].
  rewrite E in *. clear E. unfold glo, ghi in *.
  assert (k = 0); [|subst; lia].
  destruct sg; nia.
Qed.

(* the heart of C04 for integers: compare-back plus the sign test accept exactly the representable
   values, whatever the two widths and signednesses are *)
Lemma core_exact Hs ss Ht ts z :
  1 <= Hs -> 1 <= Ht -> (Hs <= Ht \/ Ht <= Hs) ->
  glo Hs ss <= z <= ghi Hs ss ->
  let v := wrapg Ht ts z in
  let back := wrapg Hs ss v in
  ((back =? z) && negb (((0 <? v) && (z <? 0)) || ((v <? 0) && (0 <? z))))
  = ((glo Ht ts <=? z) && (z <=? ghi Ht ts))
  /\ (glo Ht ts <= z <= ghi Ht ts -> v = z).
Proof.
  intros HHs HHt Hord Hz v back.
  assert (Hid : glo Ht ts <= z <= ghi Ht ts -> v = z) by (intros; apply wrapg_id; assumption).
  split; [|exact Hid].
  destruct ((glo Ht ts <=? z) && (z <=? ghi Ht ts)) eqn:ER.
  - assert (Ev : v = z) by (apply Hid; lia).
    subst back. rewrite Ev. rewrite (wrapg_id Hs ss z HHs Hz). lia.
  - (* not representable: the test must fail *)
    destruct (wrapg_char Ht ts z HHt) as [k [Ek Bk]]. fold v in Ek, Bk.
    destruct (wrapg_char Hs ss v HHs) as [j [Ej Bj]]. fold back in Ej, Bj.
    apply andb_false_iff.
    destruct (Z.eqb_spec back z) as [Eb|Nb]; [right|left; reflexivity].
    apply negb_false_iff.
    (* back = z: v - z = j * 2Hs, and v - z = - k * 2Ht *)
    assert (Hvz : v <> z) by (intros E; rewrite E in Bk; lia).
    unfold glo, ghi in *.
    destruct (Z.ltb_spec 0 v), (Z.ltb_spec z 0), (Z.ltb_spec v 0), (Z.ltb_spec 0 z); cbn; try reflexivity; exfalso.
    all: destruct Hord as [Ho|Ho].
    all: try (assert (k = 0) by (destruct ss, ts; nia); subst k; lia).
    all: try (assert (j = 0) by (destruct ss, ts; nia); subst j; lia).
Qed.
