(* NumModel.v — executable mirror of
     include/bitserializer/conversion_detail/convert_fundamental.h
       Convert::Detail::To(arith -> arith)            (lines 20-66, integer / bool / char types)
       Convert::Detail::To(string_view -> integer)    (lines 71-115)
       Convert::Detail::To(string_view -> bool)       (lines 120-172)
       Convert::Detail::To(integer -> string)         (lines 179-200)
       Convert::Detail::To(bool -> string)            (lines 206-217)
     include/bitserializer/serialization_detail/archive_base.h
       Detail::ConvertByPolicy                        (lines 114-165)
   Every C++ cast that can wrap is an explicit [wrap]; comparisons go through the usual arithmetic
   conversions; exceptions are explicit outcomes.  std::from_chars / std::to_chars for integers are
   MODELLED from the C++ standard ([charconv.from.chars], [charconv.to.chars]) — they are not
   BitSerializer code and are validated by their own correspondence op (stdfc / stdtc).
   The floating-point half is in NumFloatModel.v.  No proofs in this file. *)
From BS Require Import Base UtfSpec UtfModel NumSpec.
Local Open Scope Z_scope.

(* ================= integer -> integer / bool / char ================= *)

(* conversion of the integer z to an integer type of the given width: value modulo 2^bits
   (C++20 [conv.integral]; GCC documents the same for C++17) *)
Definition wrap (bits : Z) (sg : bool) (z : Z) : Z :=
  if sg then (z + 2 ^ (bits - 1)) mod 2 ^ bits - 2 ^ (bits - 1) else z mod 2 ^ bits.

(* static_cast<T>(x) for an integer x: bool is "x != 0" *)
Definition cast (T : ity) (z : Z) : Z :=
  match T with
  | TBool => if z =? 0 then 0 else 1
  | _ => wrap (bits_of T) (signed_of T) z
  end.

(* integral promotion: everything narrower than int becomes int *)
Definition promote (t : ity) : bool * Z :=
  if bits_of t <? 32 then (true, 32) else (signed_of t, bits_of t).

(* usual arithmetic conversions between two promoted types (only int/unsigned/long/unsigned long
   remain on LP64): the wider one; equal width: unsigned wins *)
Definition common (a b : bool * Z) : bool * Z :=
  let (sa, ba) := a in let (sb, bb) := b in
  if ba =? bb then (sa && sb, ba) else if bb <? ba then a else b.

Definition to_common (c : bool * Z) (z : Z) : Z := wrap (snd c) (fst c) z.

(* x == y, x < y for x of type ta and y of type tb *)
Definition eq_c (ta : ity) (x : Z) (tb : ity) (y : Z) : bool :=
  let c := common (promote ta) (promote tb) in to_common c x =? to_common c y.
Definition lt_c (ta : ity) (x : Z) (tb : ity) (y : Z) : bool :=
  let c := common (promote ta) (promote tb) in to_common c x <? to_common c y.

(* the literal 0 has type int *)
Definition gt0 (t : ity) (x : Z) : bool := lt_c TI32 0 t x.      (* x > 0 *)
Definition lt0 (t : ity) (x : Z) : bool := lt_c t x TI32 0.      (* x < 0 *)

(* Convert::Detail::To(const TSource&, TTarget&) for TSource, TTarget integer / bool / char.
   z is the source value (in the range of S). *)
Definition conv (S T : ity) (z : Z) : cres Z :=
  if ity_eqb S T then COk z                                         (* std::is_same_v: plain copy *)
  else if is_bool S || is_bool T then
    let value := cast T z in                                        (* auto value = static_cast<TTarget>(sourceValue) *)
    if eq_c S (cast S value) S z then COk value else COutOfRange    (* static_cast<TSource>(value) == sourceValue *)
  else
    let value := cast T z in
    let result := eq_c S (cast S value) S z
                  && negb ((gt0 T value && lt0 S z) || (lt0 T value && gt0 S z)) in
    if result then COk value else COutOfRange.

(* ================= ConvertByPolicy ================= *)

(* convertible = Convert::IsConvertible<TSource, TTarget>() (a compile-time constant; true for every
   pair of arithmetic types and for string -> arithmetic); r = outcome of Convert::To<TTarget>(source)
   when convertible.  The non-convertible branch throws MismatchedTypes inside the try block; the
   handler "catch (const SerializationException&) { throw; }" (fix 76c37b6) lets it through unchanged. *)
Definition convert_by_policy {A} (convertible : bool) (r : cres A) (old : A) (mism ovf : pol) : load_res A :=
  if convertible then
    match r with
    | COk v => Loaded v
    | CInvalidArgument => match mism with PThrow => Raised EMismatchedTypes | PSkip => NotLoaded old end
    | COutOfRange => match ovf with PThrow => Raised EOverflow | PSkip => NotLoaded old end
    | COther => Raised EParsingError                       (* catch (...) *)
    | CUB => LoadUB
    end
  else
    match mism with PThrow => Raised EMismatchedTypes | PSkip => NotLoaded old end.

(* loading an integer of type S into a target of type T holding [old] *)
Definition load_int (S T : ity) (z old : Z) (mism ovf : pol) : load_res Z :=
  convert_by_policy true (conv S T z) old mism ovf.

(* ================= text -> integer ================= *)

(* the blank-skipping for loop: advance while it != end and it[0] is 0x20 or 0x09 *)
Fixpoint m_skip_blanks (s : list N) : list N :=
  match s with
  | u :: t => if ((u =? 0x20) || (u =? 0x09))%N then m_skip_blanks t else s
  | [] => []
  end.

(* ---- std::from_chars(first, last, value) for an integer type, base 10: MODELLED ----
   [charconv.from.chars]: pattern = optional '-' (only if the type is signed) followed by a non-empty
   digit sequence; no '+', no blanks.  No match: ec = invalid_argument, ptr = first, value unmodified.
   Otherwise ptr = first character not matching; if the parsed value is not representable:
   ec = result_out_of_range, value unmodified. *)
Inductive errc := EcOk | EcInvalidArgument | EcResultOutOfRange.
Record fc_result := mkFc { fc_ec : errc; fc_ptr : nat; fc_val : option Z }.

Definition from_chars_int (T : ity) (s : list N) : fc_result :=
  let '(neg, s1, off) :=
    match s with
    | u :: t => if (u =? 45)%N && signed_of T then (true, t, 1%nat) else (false, s, 0%nat)
    | [] => (false, s, 0%nat)
    end in
  let (ds, _) := span_digits s1 in
  match ds with
  | [] => mkFc EcInvalidArgument 0 None
  | _ =>
    let v := if neg then - dec_value ds else dec_value ds in
    if in_rangeb T v then mkFc EcOk (off + length ds) (Some v)
    else mkFc EcResultOutOfRange (off + length ds) None
  end.

(* std::isdigit as GCC compiles it: the builtin is folded to (unsigned)(c - '0') <= 9, so the answer
   is "48 <= unit <= 57" whatever the character type.  Formally the argument must be representable as
   unsigned char or be EOF; see isdigit_arg_ok. *)
Definition isdigit_c (u : N) : bool := ((48 <=? u) && (u <=? 57))%N.

(* the validateResult lambda; str = the string from_chars ran on, rc.ptr as offset into it *)
Definition validate (rc : fc_result) (str : list N) : cres Z :=
  match fc_ec rc with
  | EcResultOutOfRange => COutOfRange
  | EcInvalidArgument => CInvalidArgument
  | EcOk =>
    match fc_val rc with
    | None => COther
    | Some v =>
      (* rc.ptr + 1 < end && rc.ptr[0] == '.' && std::isdigit(rc.ptr[1]) *)
      match skipn (fc_ptr rc) str with
      | c :: d :: _ => if (c =? 46)%N && isdigit_c d then CInvalidArgument else COk v
      | _ => COk v
      end
    end
  end.

(* default error mark of Utf8::Encode: u8"☐" *)
Definition mark8 : list N := [0xE2; 0x98; 0x90]%N.
Definition mark_of (w : width) : list N := match w with W8 => mark8 | _ => [0x2610%N] end.

(* Convert::Detail::To(std::basic_string_view<TSym>, T&), T an integer type other than bool.
   w = width of TSym (wchar_t is the 32-bit case: its units are read through uint32_t). *)
Definition parse_num (T : ity) (w : width) (s : list N) : cres Z :=
  let it := m_skip_blanks s in
  match w with
  | W8 => validate (from_chars_int T it) it
  | _ =>
    let utf8 := r_out (transcode w W8 Skip mark8 it []) in      (* Utf8::Encode(it, end, utf8Str) *)
    validate (from_chars_int T utf8) utf8
  end.

(* ================= text -> bool ================= *)

(* c == 'x' || c == 'X' *)
Definition either (c l u : N) : bool := ((c =? l) || (c =? u))%N.

(* size >= 4 && (startIt[0] == 't' || startIt[0] == 'T') && ... *)
Definition m_is_true (it : list N) : bool :=
  match it with
  | c0 :: c1 :: c2 :: c3 :: _ => either c0 116 84 && either c1 114 82 && either c2 117 85 && either c3 101 69
  | _ => false
  end.
(* size >= 5 && (startIt[0] == 'f' || startIt[0] == 'F') && ... *)
Definition m_is_false (it : list N) : bool :=
  match it with
  | c0 :: c1 :: c2 :: c3 :: c4 :: _ =>
    either c0 102 70 && either c1 97 65 && either c2 108 76 && either c3 115 83 && either c4 101 69
  | _ => false
  end.

Definition parse_bool (s : list N) : cres bool :=
  let it := m_skip_blanks s in
  match it with
  | [] => CInvalidArgument                                           (* size >= 1 fails *)
  | c0 :: t =>
    if isdigit_c c0 then
      let next_ok := match t with [] => true | c1 :: _ => negb (isdigit_c c1) end in
      if (c0 =? 49)%N && next_ok then COk true
      else if (c0 =? 48)%N && next_ok then COk false
      else COutOfRange
    else if m_is_true it then COk true
    else if m_is_false it then COk false
    else CInvalidArgument
  end.

(* arguments handed to std::isdigit, as int values, in evaluation order (for the formal-UB note) *)
Definition unit_as_int (w : width) (u : N) : Z :=
  match w with
  | W8 => if (u <? 128)%N then Z.of_N u else Z.of_N u - 256                 (* char is signed *)
  | W16 => Z.of_N u
  | W32 => if (u <? 2147483648)%N then Z.of_N u else Z.of_N u - 4294967296   (* char32_t -> int / wchar_t *)
  end.
Definition isdigit_arg_ok (a : Z) : bool := (-1 <=? a) && (a <=? 255).      (* unsigned char or EOF *)

Definition parse_bool_isdigit_args (w : width) (s : list N) : list Z :=
  match m_skip_blanks s with
  | [] => []
  | c0 :: t =>
    unit_as_int w c0 ::
    match t with
    | c1 :: _ => if (isdigit_c c0 && ((c0 =? 49) || (c0 =? 48)))%N then [unit_as_int w c1] else []
    | [] => []
    end
  end.

(* the argument of the isdigit call in validateResult: a char of the (narrowed) string *)
Definition parse_num_isdigit_args (T : ity) (w : width) (s : list N) : list Z :=
  let it := m_skip_blanks s in
  let str := match w with W8 => it | _ => r_out (transcode w W8 Skip mark8 it []) end in
  let rc := from_chars_int T str in
  match fc_ec rc with
  | EcOk => match skipn (fc_ptr rc) str with
            | c :: d :: _ => if (c =? 46)%N then [unit_as_int W8 d] else []
            | _ => []
            end
  | _ => []
  end.

(* ================= integer / bool -> text ================= *)

(* ---- std::to_chars(first, last, value) for an integer type, base 10: MODELLED ----
   [charconv.to.chars]: digits without redundant leading zeros, '-' first if negative; if the text
   does not fit: ec = value_too_large (None here) *)
Definition to_chars_int (cap : nat) (z : Z) : option (list N) :=
  match to_dec z with
  | Some s => if (length s <=? cap)%nat then Some s else None
  | None => None
  end.

(* Convert::Detail::To(const T&, std::basic_string<TSym>& out); out0 = prior content of out *)
Definition to_text (T : ity) (w : width) (z : Z) (out0 : list N) : cres (list N) :=
  match T with
  | TBool => COk (out0 ++ bool_text (negb (z =? 0)))
  | _ =>
    match to_chars_int 42 z with                                       (* char buf[42] *)
    | None => COther                                                   (* "insufficient buffer size" *)
    | Some buf =>
      match w with
      | W8 => COk (out0 ++ buf)                                        (* out.append(buf, rc.ptr) *)
      | _ => COk (r_out (transcode W8 w Skip (mark_of w) buf out0))    (* Utf8::Decode(buf, rc.ptr, out) *)
      end
    end
  end.
