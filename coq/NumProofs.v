(* NumProofs.v — C04 for the integer / bool / char types: the conversion table theorem, the policy
   theorem and their composition. *)
From BS Require Import Base NumSpec NumModel NumLemmas.
From Coq Require Import ZifyBool ZifyN ZifyNat.
Ltac Zify.zify_post_hook ::= Z.div_mod_to_equations.
Local Open Scope Z_scope.

Lemma bits_ge1 t : 1 <= bits_of t.
Proof. destruct t; cbn; lia. Qed.

Lemma pow_half_ge1 b : 1 <= b -> 1 <= 2 ^ (b - 1).
Proof. intros. assert (0 < 2 ^ (b - 1)) by (apply Z.pow_pos_nonneg; lia). lia. Qed.

Lemma lo_g t : lo t = glo (2 ^ (bits_of t - 1)) (signed_of t).
Proof. unfold lo. apply int_lo_g. apply bits_ge1. Qed.
Lemma hi_g t : hi t = ghi (2 ^ (bits_of t - 1)) (signed_of t).
Proof. unfold hi. apply int_hi_g. apply bits_ge1. Qed.

Lemma wrap_id bits sg z : 1 <= bits -> int_lo sg bits <= z <= int_hi sg bits -> wrap bits sg z = z.
Proof.
  intros Hb Hr. rewrite wrap_wrapg by exact Hb. apply wrapg_id.
  - apply pow_half_ge1; exact Hb.
  - rewrite <- int_lo_g, <- int_hi_g by exact Hb. exact Hr.
Qed.

Lemma wrap_range bits sg z : 1 <= bits -> int_lo sg bits <= wrap bits sg z <= int_hi sg bits.
Proof.
  intros Hb. rewrite wrap_wrapg, int_lo_g, int_hi_g by exact Hb.
  destruct (wrapg_char (2 ^ (bits - 1)) sg z (pow_half_ge1 bits Hb)) as [k [_ B]]. exact B.
Qed.

(* ---------- comparisons through the usual arithmetic conversions are exact ---------- *)

(* the common type of two operand types holds every value of both whenever a negative value is
   not converted to unsigned; in this function that never happens: *)
Lemma to_common_id (ta tb : ity) z :
  (in_range ta z \/ in_range tb z) -> (0 <= z \/ fst (common (promote ta) (promote tb)) = true) ->
  to_common (common (promote ta) (promote tb)) z = z.
Proof.
  intros Hr Hs. unfold to_common. apply wrap_id.
  - destruct ta, tb; cbn; lia.
  - unfold in_range, lo, hi in Hr.
    destruct ta, tb; cbn in *; lia.
Qed.

Lemma eq_c_same S x y : in_range S x -> in_range S y -> eq_c S x S y = (x =? y).
Proof.
  intros Hx Hy. unfold eq_c.
  rewrite !to_common_id; try reflexivity; try (left; assumption).
  - unfold in_range, lo, hi in Hy. destruct S; cbn in *; lia.
  - unfold in_range, lo, hi in Hx. destruct S; cbn in *; lia.
Qed.

Lemma gt0_exact T x : in_range T x -> gt0 T x = (0 <? x).
Proof.
  intros Hx. unfold gt0, lt_c.
  rewrite (to_common_id TI32 T x); [|right; exact Hx|unfold in_range, lo, hi in Hx; destruct T; cbn in *; lia].
  rewrite (to_common_id TI32 T 0); [reflexivity| |left; lia].
  left. unfold in_range, lo, hi. cbn. lia.
Qed.

Lemma lt0_exact T x : in_range T x -> lt0 T x = (x <? 0).
Proof.
  intros Hx. unfold lt0, lt_c.
  rewrite (to_common_id T TI32 x); [|left; exact Hx|unfold in_range, lo, hi in Hx; destruct T; cbn in *; lia].
  rewrite (to_common_id T TI32 0); [reflexivity| |left; lia].
  right. unfold in_range, lo, hi. cbn. lia.
Qed.

Lemma cast_range T z : in_range T (cast T z).
Proof.
  unfold in_range, lo, hi. destruct T; cbn [cast]; try (apply wrap_range; cbn; lia).
  destruct (z =? 0); cbn; lia.
Qed.

Lemma cast_id T z : in_range T z -> cast T z = z.
Proof.
  intros H. unfold in_range, lo, hi in H.
  destruct T; cbn [cast]; try (apply wrap_id; [cbn; lia | exact H]).
  cbn in H. destruct (Z.eqb_spec z 0); lia.
Qed.

Lemma width_order a b : 2 ^ (bits_of a - 1) <= 2 ^ (bits_of b - 1) \/ 2 ^ (bits_of b - 1) <= 2 ^ (bits_of a - 1).
Proof.
  destruct (Z.le_ge_cases (bits_of a) (bits_of b)); [left|right];
  apply Z.pow_le_mono_r; pose proof (bits_ge1 a); pose proof (bits_ge1 b); lia.
Qed.

(* ---------- T_C04_int_conv ---------- *)

Theorem conv_exact S T z : in_range S z -> conv S T z = conv_spec T z.
Proof.
  intros Hz. unfold conv, conv_spec.
  destruct (ity_eqb S T) eqn:Eeq.
  { assert (S = T) by (destruct S, T; (reflexivity || discriminate)). subst T.
    apply in_rangeb_spec in Hz. rewrite Hz. reflexivity. }
  destruct (is_bool S || is_bool T) eqn:Eb.
  - (* the bool branch *)
    pose proof (cast_range T z) as Hv.
    rewrite eq_c_same by (try apply cast_range; assumption).
    destruct (is_bool S) eqn:ES.
    + (* bool -> T: 0 and 1 are in every type *)
      destruct S; try discriminate. unfold in_range, lo, hi in Hz. cbn in Hz.
      assert (HT : in_range T z) by (unfold in_range, lo, hi; destruct T; cbn; lia).
      rewrite (cast_id T z HT). rewrite (cast_id TBool z) by (unfold in_range, lo, hi; cbn; lia).
      rewrite Z.eqb_refl. apply in_rangeb_spec in HT. rewrite HT. reflexivity.
    + (* S -> bool *)
      destruct T; try discriminate. cbn [cast].
      unfold in_rangeb, lo, hi. cbn [signed_of bits_of int_lo int_hi].
      destruct (Z.eqb_spec z 0) as [->|Hnz].
      * rewrite (cast_id S 0) by (unfold in_range, lo, hi in *; destruct S; cbn in *; lia). reflexivity.
      * rewrite (cast_id S 1) by (unfold in_range, lo, hi in *; destruct S; cbn in *; lia).
        destruct (Z.eqb_spec 1 z) as [<-|Hn1]; [reflexivity|].
        destruct (0 <=? z) eqn:E0; destruct (z <=? 2 ^ 1 - 1) eqn:E1; cbn; try reflexivity. lia.
  - (* the general integer branch *)
    apply orb_false_iff in Eb. destruct Eb as [EbS EbT].
    assert (Ecast : cast T z = wrap (bits_of T) (signed_of T) z) by (destruct T; (discriminate || reflexivity)).
    assert (EcastS : forall x, cast S x = wrap (bits_of S) (signed_of S) x) by (intros; destruct S; (discriminate || reflexivity)).
    pose proof (cast_range T z) as Hv.
    rewrite eq_c_same by (try apply cast_range; assumption).
    rewrite (gt0_exact T), (lt0_exact T) by exact Hv.
    rewrite (gt0_exact S), (lt0_exact S) by exact Hz.
    rewrite EcastS, Ecast. rewrite !wrap_wrapg by apply bits_ge1.
    unfold in_range in Hz. rewrite lo_g, hi_g in Hz.
    destruct (core_exact (2 ^ (bits_of S - 1)) (signed_of S) (2 ^ (bits_of T - 1)) (signed_of T) z
                (pow_half_ge1 _ (bits_ge1 S)) (pow_half_ge1 _ (bits_ge1 T)) (width_order S T) Hz) as [Htest Hid].
    cbv zeta in Htest, Hid.
    unfold in_rangeb. rewrite lo_g, hi_g.
    rewrite Htest.
    destruct ((glo (2 ^ (bits_of T - 1)) (signed_of T) <=? z) && (z <=? ghi (2 ^ (bits_of T - 1)) (signed_of T))) eqn:ER.
    + rewrite Hid by lia. reflexivity.
    + reflexivity.
Qed.

(* never a truncated, wrapped or sign-changed value: whatever comes out is the source value *)
Corollary conv_never_alters S T z v : in_range S z -> conv S T z = COk v -> v = z /\ in_range T z.
Proof.
  intros Hz H. rewrite conv_exact in H by exact Hz. unfold conv_spec in H.
  destruct (in_rangeb T z) eqn:E; [|discriminate].
  assert (v = z) by congruence. subst v. split; [reflexivity|].
  apply in_rangeb_spec. exact E.
Qed.

Corollary conv_total S T z : in_range S z -> conv S T z = COk z \/ conv S T z = COutOfRange.
Proof.
  intros Hz. rewrite conv_exact by exact Hz. unfold conv_spec. destruct (in_rangeb T z); [left|right]; reflexivity.
Qed.

(* ---------- ConvertByPolicy ---------- *)

Theorem policy_exact {A} (r : cres A) old mism ovf :
  convert_by_policy true r old mism ovf = policy_spec r old mism ovf.
Proof. destruct r; reflexivity. Qed.

(* a source of another kind: MismatchedTypes or "not loaded" per MismatchedTypesPolicy *)
Theorem policy_other_kind_exact {A} (r : cres A) old mism ovf :
  convert_by_policy false r old mism ovf = policy_spec_other_kind old mism.
Proof. destruct mism; reflexivity. Qed.

(* composition: integer of type S loaded into a T holding old *)
Theorem load_int_exact S T z old mism ovf : in_range S z ->
  load_int S T z old mism ovf =
    if in_rangeb T z then Loaded z
    else match ovf with PThrow => Raised EOverflow | PSkip => NotLoaded old end.
Proof.
  intros Hz. unfold load_int. rewrite policy_exact, conv_exact by exact Hz.
  unfold conv_spec. destruct (in_rangeb T z); reflexivity.
Qed.

Example conv_example_wrap_detected : conv TI32 TU8 300 = COutOfRange /\ wrap 8 false 300 = 44.
Proof. split; vm_compute; reflexivity. Qed.

Example conv_example_sign_test_needed :
  (* int32 -1 -> uint32: the cast back alone would accept 4294967295 *)
  cast TU32 (-1) = 4294967295 /\ cast TI32 4294967295 = -1 /\ conv TI32 TU32 (-1) = COutOfRange.
Proof. repeat split; vm_compute; reflexivity. Qed.

Example load_example_skip : load_int TI64 TI8 (-129) 5 PThrow PSkip = NotLoaded 5.
Proof. vm_compute. reflexivity. Qed.
