(* NumSpec.v — what C04 / C16 mean, written from the C++ standard's vocabulary and the property
   statements only: integer types as (signed, bits) descriptors with their value ranges, the
   mathematical meaning of a conversion, decimal text of an integer, the leading-literal grammar of
   the C16 statement, bool literals.  Nothing here mentions how BitSerializer computes. *)
From BS Require Import Base.
Local Open Scope Z_scope.

(* ---------- integer types (LP64, char is signed: x86-64 Linux / GCC) ---------- *)

Inductive ity := TBool | TChar | TI8 | TU8 | TI16 | TU16 | TI32 | TU32 | TI64 | TU64.

Definition ity_eqb (a b : ity) : bool :=
  match a, b with
  | TBool, TBool | TChar, TChar | TI8, TI8 | TU8, TU8 | TI16, TI16 | TU16, TU16
  | TI32, TI32 | TU32, TU32 | TI64, TI64 | TU64, TU64 => true
  | _, _ => false
  end.

Definition is_bool (t : ity) : bool := match t with TBool => true | _ => false end.

Definition signed_of (t : ity) : bool :=
  match t with TChar | TI8 | TI16 | TI32 | TI64 => true | _ => false end.

(* number of value bits; bool is the unsigned 1-bit range {0,1} *)
Definition bits_of (t : ity) : Z :=
  match t with
  | TBool => 1 | TChar | TI8 | TU8 => 8 | TI16 | TU16 => 16 | TI32 | TU32 => 32 | TI64 | TU64 => 64
  end.

(* value range of a (signed, bits) descriptor: two's complement / plain binary *)
Definition int_lo (sg : bool) (b : Z) : Z := if sg then - 2 ^ (b - 1) else 0.
Definition int_hi (sg : bool) (b : Z) : Z := if sg then 2 ^ (b - 1) - 1 else 2 ^ b - 1.

Definition lo (t : ity) : Z := int_lo (signed_of t) (bits_of t).
Definition hi (t : ity) : Z := int_hi (signed_of t) (bits_of t).

Definition in_range (t : ity) (z : Z) : Prop := lo t <= z <= hi t.
Definition in_rangeb (t : ity) (z : Z) : bool := (lo t <=? z) && (z <=? hi t).

Lemma in_rangeb_spec t z : in_rangeb t z = true <-> in_range t z.
Proof. unfold in_rangeb, in_range. rewrite andb_true_iff, !Z.leb_le. tauto. Qed.

(* ---------- outcomes of a conversion ---------- *)

(* COutOfRange = std::out_of_range, CInvalidArgument = std::invalid_argument, COther = any other
   exception (std::runtime_error), CUB = the C++ abstract machine has undefined behaviour *)
Inductive cres (A : Type) : Type :=
| COk (v : A) | COutOfRange | CInvalidArgument | COther | CUB.
Arguments COk {A} v.
Arguments COutOfRange {A}.
Arguments CInvalidArgument {A}.
Arguments COther {A}.
Arguments CUB {A}.

(* the mathematical meaning of converting the number z to the integer type T *)
Definition conv_spec (T : ity) (z : Z) : cres Z := if in_rangeb T z then COk z else COutOfRange.

(* ---------- loading under the two policies ---------- *)

Inductive pol := PSkip | PThrow.
Inductive serr := EOverflow | EMismatchedTypes | EParsingError.

(* what the caller observes: return value true + new target, return value false + target untouched,
   or a SerializationException; UB is propagated *)
Inductive load_res (A : Type) : Type :=
| Loaded (v : A) | NotLoaded (old : A) | Raised (e : serr) | LoadUB.
Arguments Loaded {A} v.
Arguments NotLoaded {A} old.
Arguments Raised {A} e.
Arguments LoadUB {A}.

(* C04: success stores the value; out_of_range follows OverflowNumberPolicy, invalid_argument follows
   MismatchedTypesPolicy: the error, or "not loaded" with the target left as it was *)
Definition policy_spec {A} (r : cres A) (old : A) (mism ovf : pol) : load_res A :=
  match r with
  | COk v => Loaded v
  | COutOfRange => match ovf with PThrow => Raised EOverflow | PSkip => NotLoaded old end
  | CInvalidArgument => match mism with PThrow => Raised EMismatchedTypes | PSkip => NotLoaded old end
  | COther => Raised EParsingError
  | CUB => LoadUB
  end.

(* a value of another kind altogether (no conversion exists between the two types) *)
Definition policy_spec_other_kind {A} (old : A) (mism : pol) : load_res A :=
  match mism with PThrow => Raised EMismatchedTypes | PSkip => NotLoaded old end.

(* ---------- decimal text ---------- *)
(* strings are lists of code units (N); '0' = 48, '-' = 45, '.' = 46, ' ' = 32, TAB = 9 *)

Definition is_digit (u : N) : bool := ((48 <=? u) && (u <=? 57))%N.
Definition digit_val (u : N) : Z := Z.of_N u - 48.

(* value of a digit string, most significant digit first *)
Definition dec_value (ds : list N) : Z := fold_left (fun a d => 10 * a + digit_val d) ds 0.

(* digits of a non-negative number, most significant first, no redundant leading zero.
   Fuel: one unit per digit; None = out of fuel *)
Fixpoint dec_digits (fuel : nat) (n : Z) : option (list N) :=
  match fuel with
  | O => None
  | S f =>
    if n <? 10 then Some [Z.to_N (48 + n)]
    else match dec_digits f (n / 10) with
         | Some l => Some (l ++ [Z.to_N (48 + n mod 10)])
         | None => None
         end
  end.

(* a number below 2^k has at most k decimal digits *)
Definition dec_fuel (n : Z) : nat := S (Z.to_nat (Z.log2 n)).

(* minimal decimal text of z: '-' for negative numbers, no '+', no leading zeros *)
Definition to_dec (z : Z) : option (list N) :=
  if z <? 0 then match dec_digits (dec_fuel (- z)) (- z) with Some l => Some (45%N :: l) | None => None end
  else dec_digits (dec_fuel z) z.

(* ---------- the leading numeric literal of a string (C16) ---------- *)

Definition is_blank (u : N) : bool := ((u =? 32) || (u =? 9))%N.

Fixpoint skip_blanks (s : list N) : list N :=
  match s with
  | u :: t => if is_blank u then skip_blanks t else s
  | [] => []
  end.

(* longest prefix of decimal digits and what follows it *)
Fixpoint span_digits (s : list N) : list N * list N :=
  match s with
  | u :: t => if is_digit u then let (d, r) := span_digits t in (u :: d, r) else ([], s)
  | [] => ([], [])
  end.

(* "a fraction follows": '.' and at least one digit *)
Definition frac_follows (rest : list N) : bool :=
  match rest with
  | c :: d :: _ => (c =? 46)%N && is_digit d
  | _ => false
  end.

(* literal := '-'? digit+ ; the result is its value and whether a fraction follows it.
   A leading '+' is not part of the grammar (as in JSON and in the C++ [charconv] pattern). *)
Definition leading_literal (s : list N) : option (Z * bool) :=
  let (neg, s1) := match s with
                   | u :: t => if (u =? 45)%N then (true, t) else (false, s)
                   | [] => (false, s)
                   end in
  let (ds, rest) := span_digits s1 in
  match ds with
  | [] => None
  | _ => Some (if neg then - dec_value ds else dec_value ds, frac_follows rest)
  end.

(* C16: "returns the value of its leading numeric literal (after optional blanks) if the target can
   represent it, throws out_of_range if it cannot, and invalid_argument if there is no literal or a
   fractional literal is given for an integer target".
   Where both clauses apply (a fractional literal whose integer part is already outside the target,
   e.g. "999.5" for int8) the statement does not say which exception wins; this reading lets the range
   win.  The other order is examined separately (classify_frac_first). *)
Definition classify_core (T : ity) (s : list N) : cres Z :=
  match leading_literal s with
  | None => CInvalidArgument
  | Some (z, frac) => if in_rangeb T z then (if frac then CInvalidArgument else COk z) else COutOfRange
  end.
Definition classify_spec (T : ity) (s : list N) : cres Z := classify_core T (skip_blanks s).

Definition classify_frac_first (T : ity) (s : list N) : cres Z :=
  match leading_literal (skip_blanks s) with
  | None => CInvalidArgument
  | Some (z, frac) => if frac then CInvalidArgument else if in_rangeb T z then COk z else COutOfRange
  end.

(* ---------- bool literals ---------- *)

(* case-insensitive prefix test against a list of (lower, upper) letters *)
Fixpoint ci_prefix (pat : list (N * N)) (s : list N) : bool :=
  match pat with
  | [] => true
  | (l, u) :: p => match s with
                   | c :: t => ((c =? l) || (c =? u))%N && ci_prefix p t
                   | [] => false
                   end
  end.

Definition pat_true : list (N * N) := [(116, 84); (114, 82); (117, 85); (101, 69)]%N.
Definition pat_false : list (N * N) := [(102, 70); (97, 65); (108, 76); (115, 83); (101, 69)]%N.

(* C16 / the documentation of Convert: after blanks, the digit string "1" is true and "0" is false
   (a digit string is the maximal run of digits), every other digit string is out of range; otherwise
   a text beginning with true / false in any letter case; anything else is not a boolean *)
Definition bool_spec (s : list N) : cres bool :=
  let t := skip_blanks s in
  let (ds, _) := span_digits t in
  match ds with
  | [d] => if (d =? 49)%N then COk true else if (d =? 48)%N then COk false else COutOfRange
  | _ :: _ :: _ => COutOfRange
  | [] => if ci_prefix pat_true t then COk true
          else if ci_prefix pat_false t then COk false else CInvalidArgument
  end.

Definition bool_text (b : bool) : list N :=
  if b then [116; 114; 117; 101]%N else [102; 97; 108; 115; 101]%N.
