(* NumTextLemmas.v — facts about decimal text (spec level): digits, values, the literal scanner, and
   the "same up to the first non-ASCII unit" relation used for the narrowing / width arguments. *)
From BS Require Import Base UtfSpec NumSpec NumModel.
From Coq Require Import ZifyBool ZifyN ZifyNat.
Ltac Zify.zify_post_hook ::= Z.div_mod_to_equations.
Local Open Scope Z_scope.

Definition digits (l : list N) : Prop := Forall (fun u => is_digit u = true) l.

Lemma m_skip_blanks_eq s : m_skip_blanks s = skip_blanks s.
Proof. induction s as [|u t IH]; [reflexivity|]. cbn. unfold is_blank. rewrite IH. reflexivity. Qed.

Lemma isdigit_c_eq u : isdigit_c u = is_digit u.
Proof. reflexivity. Qed.

(* ---------- dec_value / dec_digits ---------- *)

Lemma dec_value_snoc l d : dec_value (l ++ [d]) = 10 * dec_value l + digit_val d.
Proof. unfold dec_value. rewrite fold_left_app. reflexivity. Qed.

Lemma digit_char n : 0 <= n < 10 -> is_digit (Z.to_N (48 + n)) = true /\ digit_val (Z.to_N (48 + n)) = n.
Proof. intros H. unfold is_digit, digit_val. split; lia. Qed.

Lemma dec_digits_ok fuel : forall n l, 0 <= n -> dec_digits fuel n = Some l ->
  dec_value l = n /\ digits l /\ l <> [] /\
  (forall k, 1 <= k -> n < 10 ^ k -> Z.of_nat (length l) <= k).
Proof.
  induction fuel as [|f IH]; intros n l Hn H; [discriminate|].
  cbn [dec_digits] in H. destruct (Z.ltb_spec n 10) as [Hlt|Hge].
  - assert (El : l = [Z.to_N (48 + n)]) by congruence. subst l.
    destruct (digit_char n ltac:(lia)) as [D V].
    repeat split.
    + unfold dec_value. cbn [fold_left]. rewrite V. lia.
    + constructor; [exact D | constructor].
    + discriminate.
    + intros k Hk _. cbn. lia.
  - destruct (dec_digits f (n / 10)) as [l'|] eqn:E; [|discriminate].
    assert (El : l = l' ++ [Z.to_N (48 + n mod 10)]) by congruence. subst l.
    assert (Hq : 0 <= n / 10) by (apply Z.div_pos; lia).
    destruct (IH (n / 10) l' Hq E) as [V [D [NE L]]].
    assert (Hm : 0 <= n mod 10 < 10) by (apply Z.mod_pos_bound; lia).
    destruct (digit_char (n mod 10) Hm) as [D1 V1].
    repeat split.
    + rewrite dec_value_snoc, V, V1. pose proof (Z.div_mod n 10 ltac:(lia)). lia.
    + apply Forall_app. split; [exact D | constructor; [exact D1 | constructor]].
    + destruct l'; discriminate.
    + intros k Hk Hnk. rewrite app_length. cbn [length].
      assert (Hk2 : 2 <= k).
      { destruct (Z.eq_dec k 1) as [->|]; [|lia]. change (10 ^ 1) with 10 in Hnk. lia. }
      assert (Hq2 : n / 10 < 10 ^ (k - 1)).
      { apply Z.div_lt_upper_bound; [lia|]. rewrite <- Z.pow_succ_r by lia. replace (Z.succ (k - 1)) with k by lia. exact Hnk. }
      specialize (L (k - 1) ltac:(lia) Hq2). lia.
Qed.

Lemma dec_digits_fuel fuel : forall n, 0 <= n < 2 ^ Z.of_nat fuel -> (1 <= fuel)%nat -> dec_digits fuel n <> None.
Proof.
  induction fuel as [|f IH]; intros n Hn Hf; [lia|].
  cbn [dec_digits]. destruct (Z.ltb_spec n 10) as [Hlt|Hge]; [discriminate|].
  assert (Hq : 0 <= n / 10 < 2 ^ Z.of_nat f).
  { split; [apply Z.div_pos; lia|].
    apply Z.div_lt_upper_bound; [lia|].
    rewrite Nat2Z.inj_succ, Z.pow_succ_r in Hn by lia.
    assert (0 < 2 ^ Z.of_nat f) by (apply Z.pow_pos_nonneg; lia). lia. }
  assert (Hf1 : (1 <= f)%nat).
  { destruct f; [|lia]. cbn in Hq. assert (1 <= n / 10) by (apply Z.div_le_lower_bound; lia). lia. }
  specialize (IH (n / 10) Hq Hf1).
  destruct (dec_digits f (n / 10)); [discriminate | congruence].
Qed.

Lemma dec_fuel_enough n : 0 <= n -> dec_digits (dec_fuel n) n <> None.
Proof.
  intros Hn. apply dec_digits_fuel; [|unfold dec_fuel; lia].
  split; [exact Hn|]. unfold dec_fuel. rewrite Nat2Z.inj_succ.
  destruct (Z.eq_dec n 0) as [->|Hnz].
  - cbn. lia.
  - rewrite Z2Nat.id by apply Z.log2_nonneg.
    pose proof (Z.log2_spec n ltac:(lia)). lia.
Qed.

(* fuel_suffices for the decimal text *)
Lemma to_dec_total z : to_dec z <> None.
Proof.
  unfold to_dec. destruct (Z.ltb_spec z 0).
  - pose proof (dec_fuel_enough (- z) ltac:(lia)) as HF. destruct (dec_digits (dec_fuel (- z)) (- z)); [discriminate | congruence].
  - apply dec_fuel_enough. lia.
Qed.

Lemma to_dec_nonneg z s : 0 <= z -> to_dec z = Some s ->
  dec_value s = z /\ digits s /\ s <> [] /\ (forall k, 1 <= k -> z < 10 ^ k -> Z.of_nat (length s) <= k).
Proof.
  intros Hz H. unfold to_dec in H. destruct (Z.ltb_spec z 0); [lia|].
  eapply dec_digits_ok; eassumption.
Qed.

Lemma to_dec_neg z s : z < 0 -> to_dec z = Some s ->
  exists l, s = 45%N :: l /\ dec_value l = - z /\ digits l /\ l <> [] /\
            (forall k, 1 <= k -> - z < 10 ^ k -> Z.of_nat (length l) <= k).
Proof.
  intros Hz H. unfold to_dec in H. destruct (Z.ltb_spec z 0); [|lia].
  destruct (dec_digits (dec_fuel (- z)) (- z)) as [l|] eqn:E; [|discriminate].
  exists l. split; [congruence|]. eapply dec_digits_ok; [|exact E]. lia.
Qed.

(* ---------- span_digits ---------- *)

Definition no_digit_head (r : list N) : Prop := match r with [] => True | u :: _ => is_digit u = false end.

Lemma span_digits_all l r : digits l -> no_digit_head r -> span_digits (l ++ r) = (l, r).
Proof.
  intros Hl Hr. induction Hl as [|u l Hu _ IH].
  - cbn. destruct r as [|x r']; [reflexivity|]. cbn in *. rewrite Hr. reflexivity.
  - cbn. rewrite Hu, IH. reflexivity.
Qed.

Lemma span_digits_digits l : digits l -> span_digits l = (l, []).
Proof. intros H. rewrite <- (app_nil_r l) at 1. apply span_digits_all; [exact H | exact I]. Qed.

Lemma span_digits_inv s : forall d r, span_digits s = (d, r) -> s = d ++ r /\ digits d /\ no_digit_head r.
Proof.
  induction s as [|u t IH]; intros d r H.
  - cbn in H. assert (d = []) by congruence. assert (r = []) by congruence. subst.
    repeat split; constructor.
  - cbn in H. destruct (is_digit u) eqn:Eu.
    + destruct (span_digits t) as [d' r'] eqn:E.
      assert (d = u :: d') by congruence. assert (r = r') by congruence. subst.
      destruct (IH d' r' eq_refl) as [-> [Hd Hr]].
      repeat split; [constructor; assumption | exact Hr].
    + assert (d = []) by congruence. assert (r = u :: t) by congruence. subst.
      repeat split; [constructor | exact Eu].
Qed.

Lemma span_digits_nil_iff s : fst (span_digits s) = [] <-> no_digit_head s.
Proof.
  destruct s as [|u t]; cbn; [tauto|]. destruct (is_digit u); [|tauto].
  destruct (span_digits t). cbn. split; [discriminate | discriminate].
Qed.

Lemma skip_blanks_head s : match s with [] => True | u :: _ => is_blank u = false end -> skip_blanks s = s.
Proof. destruct s as [|u t]; [reflexivity|]. cbn. intros ->. reflexivity. Qed.

Lemma digit_not_blank u : is_digit u = true -> is_blank u = false.
Proof. unfold is_digit, is_blank. lia. Qed.

Lemma digit_not_minus u : is_digit u = true -> (u =? 45)%N = false.
Proof. unfold is_digit. lia. Qed.

(* the decimal text of z reads back as the literal z with no fraction *)
Lemma leading_literal_to_dec z s : to_dec z = Some s -> leading_literal s = Some (z, false) /\ skip_blanks s = s.
Proof.
  intros H. destruct (Z.ltb_spec z 0) as [Hneg|Hpos].
  - destruct (to_dec_neg z s Hneg H) as [l [-> [V [D [NE _]]]]].
    split; [|reflexivity].
    unfold leading_literal. cbn [N.eqb Pos.eqb].
    rewrite (span_digits_digits l D).
    destruct l as [|x l']; [congruence|]. rewrite V. cbn [frac_follows]. f_equal. f_equal. lia.
  - destruct (to_dec_nonneg z s Hpos H) as [V [D [NE _]]].
    destruct s as [|x s']; [congruence|].
    assert (Hx : is_digit x = true) by (inversion D; assumption).
    split.
    + unfold leading_literal. rewrite (digit_not_minus x Hx).
      rewrite (span_digits_digits (x :: s') D).
      rewrite V. reflexivity.
    + apply skip_blanks_head. apply digit_not_blank. exact Hx.
Qed.

(* ---------- "equal as far as ASCII goes" ---------- *)

Local Open Scope N_scope.

Definition stops (x : list N) : Prop := match x with [] => True | u :: _ => 0x80 <= u end.

Inductive sim : list N -> list N -> Prop :=
| sim_stop a b : stops a -> stops b -> sim a b
| sim_cons c a b : c < 0x80 -> sim a b -> sim (c :: a) (c :: b).

Lemma sim_refl a : sim a a.
Proof.
  induction a as [|c a IH]; [apply sim_stop; exact I|].
  destruct (N.ltb_spec c 0x80); [apply sim_cons; assumption | apply sim_stop; cbn; lia].
Qed.

Lemma sim_sym a b : sim a b -> sim b a.
Proof. induction 1; [apply sim_stop; assumption | apply sim_cons; assumption]. Qed.

Lemma sim_trans a b : sim a b -> forall c, sim b c -> sim a c.
Proof.
  induction 1 as [a b Ha Hb|x a b Hx Hab IH]; intros c Hbc.
  - inversion Hbc as [? ? Hb' Hc|y b' c' Hy Hbc']; subst.
    + apply sim_stop; assumption.
    + cbn in Hb. lia.
  - inversion Hbc as [? ? Hb' Hc|y b' c' Hy Hbc']; subst.
    + cbn in Hb'. lia.
    + apply sim_cons; [assumption | apply IH; assumption].
Qed.

Lemma sim_app_stop a b r : sim a b -> stops r -> sim (a ++ r) b.
Proof.
  intros H Hr. induction H as [a b Ha Hb|c a b Hc _ IH].
  - apply sim_stop; [|exact Hb]. destruct a; [exact Hr | exact Ha].
  - cbn. apply sim_cons; assumption.
Qed.

(* head of a list under sim *)
Lemma sim_cases a b : sim a b ->
  (stops a /\ stops b) \/ (exists c a' b', c < 0x80 /\ a = c :: a' /\ b = c :: b' /\ sim a' b').
Proof. destruct 1 as [a b Ha Hb|c a b Hc H]; [left; tauto | right; exists c, a, b; tauto]. Qed.

Lemma stops_head_not x t (p : N -> bool) : stops (x :: t) -> (forall u, p u = true -> u < 0x80) -> p x = false.
Proof. cbn. intros Hx Hp. destruct (p x) eqn:E; [|reflexivity]. specialize (Hp x E). lia. Qed.

Lemma is_digit_ascii u : is_digit u = true -> u < 0x80.
Proof. unfold is_digit. lia. Qed.
Lemma is_blank_ascii u : is_blank u = true -> u < 0x80.
Proof. unfold is_blank. lia. Qed.

Lemma stops_no_digit a : stops a -> no_digit_head a.
Proof. destruct a as [|x t]; [tauto|]. intros H. cbn. apply (stops_head_not x t is_digit H is_digit_ascii). Qed.

Lemma sim_skip_blanks a b : sim a b -> sim (skip_blanks a) (skip_blanks b).
Proof.
  induction 1 as [a b Ha Hb|c a b Hc H IH].
  - rewrite !skip_blanks_head; [apply sim_stop; assumption | |].
    + destruct b as [|x t]; [exact I|]. apply (stops_head_not x t is_blank Hb is_blank_ascii).
    + destruct a as [|x t]; [exact I|]. apply (stops_head_not x t is_blank Ha is_blank_ascii).
  - cbn. destruct (is_blank c); [exact IH | apply sim_cons; assumption].
Qed.

Lemma sim_span a b : sim a b ->
  fst (span_digits a) = fst (span_digits b) /\ sim (snd (span_digits a)) (snd (span_digits b)).
Proof.
  induction 1 as [a b Ha Hb|c a b Hc H IH].
  - pose proof (stops_no_digit a Ha) as Na. pose proof (stops_no_digit b Hb) as Nb.
    assert (Ea : span_digits a = ([], a)).
    { destruct a as [|x t]; [reflexivity|]. cbn in *. rewrite Na. reflexivity. }
    assert (Eb : span_digits b = ([], b)).
    { destruct b as [|x t]; [reflexivity|]. cbn in *. rewrite Nb. reflexivity. }
    rewrite Ea, Eb. cbn. split; [reflexivity | apply sim_stop; assumption].
  - cbn. destruct (is_digit c).
    + destruct (span_digits a) as [da ra], (span_digits b) as [db rb]. cbn in *.
      destruct IH as [E S]. split; [f_equal; exact E | exact S].
    + cbn. split; [reflexivity | apply sim_cons; assumption].
Qed.

Lemma sim_frac a b : sim a b -> frac_follows a = frac_follows b.
Proof.
  intros H. destruct (sim_cases a b H) as [[Ha Hb]|[c [a' [b' [Hc [-> [-> H']]]]]]].
  - assert (Fa : frac_follows a = false).
    { destruct a as [|x [|y t]]; try reflexivity. cbn in *. destruct (N.eqb_spec x 46); [lia | reflexivity]. }
    assert (Fb : frac_follows b = false).
    { destruct b as [|x [|y t]]; try reflexivity. cbn in *. destruct (N.eqb_spec x 46); [lia | reflexivity]. }
    congruence.
  - destruct (sim_cases a' b' H') as [[Ha Hb]|[d [a'' [b'' [Hd [-> [-> _]]]]]]]; [|reflexivity].
    assert (Fa : frac_follows (c :: a') = false).
    { destruct a' as [|y t]; [reflexivity|]. cbn [frac_follows]. rewrite (stops_head_not y t is_digit Ha is_digit_ascii). apply andb_false_r. }
    assert (Fb : frac_follows (c :: b') = false).
    { destruct b' as [|y t]; [reflexivity|]. cbn [frac_follows]. rewrite (stops_head_not y t is_digit Hb is_digit_ascii). apply andb_false_r. }
    congruence.
Qed.

Definition split_minus (s : list N) : bool * list N :=
  match s with
  | u :: t => if (u =? 45)%N then (true, t) else (false, s)
  | [] => (false, s)
  end.

Lemma leading_literal_unfold s :
  leading_literal s =
    let (ds, rest) := span_digits (snd (split_minus s)) in
    match ds with
    | [] => None
    | _ => Some (if fst (split_minus s) then (- dec_value ds)%Z else dec_value ds, frac_follows rest)
    end.
Proof.
  unfold leading_literal, split_minus. destruct s as [|u t]; [reflexivity|].
  destruct (u =? 45)%N; reflexivity.
Qed.

Lemma sim_split_minus a b : sim a b ->
  fst (split_minus a) = fst (split_minus b) /\ sim (snd (split_minus a)) (snd (split_minus b)).
Proof.
  intros H. destruct (sim_cases a b H) as [[Ha Hb]|[c [a' [b' [Hc [-> [-> H']]]]]]].
  - assert (Ea : split_minus a = (false, a)).
    { destruct a as [|x t]; [reflexivity|]. cbn in *. destruct (N.eqb_spec x 45); [lia | reflexivity]. }
    assert (Eb : split_minus b = (false, b)).
    { destruct b as [|x t]; [reflexivity|]. cbn in *. destruct (N.eqb_spec x 45); [lia | reflexivity]. }
    rewrite Ea, Eb. cbn. split; [reflexivity | exact H].
  - cbn. destruct (c =? 45); cbn; split; try reflexivity; assumption.
Qed.

Lemma sim_leading_literal a b : sim a b -> leading_literal a = leading_literal b.
Proof.
  intros H. rewrite !leading_literal_unfold.
  destruct (sim_split_minus a b H) as [E1 S1]. rewrite E1.
  destruct (sim_span _ _ S1) as [E2 S2].
  destruct (span_digits (snd (split_minus a))) as [da ra].
  destruct (span_digits (snd (split_minus b))) as [db rb]. cbn in E2, S2. subst db.
  rewrite (sim_frac _ _ S2). reflexivity.
Qed.

Lemma sim_ci_prefix pat : (forall l u, In (l, u) pat -> l < 0x80 /\ u < 0x80) ->
  forall a b, sim a b -> ci_prefix pat a = ci_prefix pat b.
Proof.
  induction pat as [|[l u] p IH]; intros Hp a b H; [reflexivity|].
  destruct (Hp l u (or_introl eq_refl)) as [Hl Hu].
  assert (Hp' : forall l u, In (l, u) p -> l < 0x80 /\ u < 0x80) by (intros; apply Hp; right; assumption).
  destruct (sim_cases a b H) as [[Ha Hb]|[c [a' [b' [Hc [-> [-> H']]]]]]].
  - assert (Fa : ci_prefix ((l, u) :: p) a = false).
    { destruct a as [|x t]; [reflexivity|]. cbn in *. destruct (N.eqb_spec x l); [lia|]. destruct (N.eqb_spec x u); [lia | reflexivity]. }
    assert (Fb : ci_prefix ((l, u) :: p) b = false).
    { destruct b as [|x t]; [reflexivity|]. cbn in *. destruct (N.eqb_spec x l); [lia|]. destruct (N.eqb_spec x u); [lia | reflexivity]. }
    congruence.
  - cbn. rewrite (IH Hp' a' b' H'). reflexivity.
Qed.

(* ---------- code points vs units ---------- *)

Lemma enc_ascii w c : c < 0x80 -> enc w c = [c].
Proof.
  intros H. destruct w; cbn [enc]; [unfold enc8 | unfold enc16 | reflexivity].
  - destruct (N.ltb_spec c 0x80); [reflexivity | lia].
  - destruct (N.ltb_spec c 0x10000); [reflexivity | lia].
Qed.

Lemma enc_nonascii w c : 0x80 <= c -> stops (enc w c) /\ enc w c <> [].
Proof.
  intros H. destruct w; cbn [enc]; [unfold enc8 | unfold enc16 | unfold enc32].
  - destruct (N.ltb_spec c 0x80); [lia|].
    destruct (c <? 0x800); [|destruct (c <? 0x10000)]; (split; [unfold stops; lia | discriminate]).
  - destruct (N.ltb_spec c 0x10000); (split; [unfold stops; lia | discriminate]).
  - split; [unfold stops; lia | discriminate].
Qed.

Lemma stops_app a r : stops a -> a <> [] -> stops (a ++ r).
Proof. destruct a; [congruence | cbn; tauto]. Qed.

Lemma sim_encs w1 w2 cps : sim (encs w1 cps) (encs w2 cps).
Proof.
  induction cps as [|c cps IH]; [apply sim_stop; exact I|].
  change (encs w1 (c :: cps)) with (enc w1 c ++ encs w1 cps).
  change (encs w2 (c :: cps)) with (enc w2 c ++ encs w2 cps).
  destruct (N.ltb_spec c 0x80) as [Hc|Hc].
  - rewrite !enc_ascii by exact Hc. cbn. apply sim_cons; assumption.
  - destruct (enc_nonascii w1 c Hc), (enc_nonascii w2 c Hc). apply sim_stop; apply stops_app; assumption.
Qed.

Lemma encs_ascii w l : Forall (fun u => u < 0x80) l -> encs w l = l.
Proof.
  induction 1 as [|c l Hc _ IH]; [reflexivity|].
  change (encs w (c :: l)) with (enc w c ++ encs w l). rewrite enc_ascii, IH by exact Hc. reflexivity.
Qed.
