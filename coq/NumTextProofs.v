(* NumTextProofs.v — C16 for integers and bool: classification of every input string, round trip of
   the decimal text, independence of the string width, the bool parser. *)
From BS Require Import Base UtfSpec UtfModel UtfLemmas UtfProofs NumSpec NumModel NumTextLemmas.
From Coq Require Import ZifyBool ZifyN ZifyNat.
Ltac Zify.zify_post_hook ::= Z.div_mod_to_equations.
Local Open Scope Z_scope.

(* ---------- the defect class: '-' digit for an unsigned target ---------- *)

(* std::from_chars refuses '-' for unsigned types, so "-0" / "-5" are reported as "not a number"
   (invalid_argument) instead of 0 / out_of_range *)
Definition minus_unsigned (T : ity) (it : list N) : bool :=
  negb (signed_of T) && match it with
                        | c :: d :: _ => (c =? 45)%N && is_digit d
                        | _ => false
                        end.

Definition parse_core (T : ity) (it : list N) : cres Z := validate (from_chars_int T it) it.

Lemma skipn_span t ds rest : span_digits t = (ds, rest) -> skipn (length ds) t = rest.
Proof. intros H. apply span_digits_inv in H. destruct H as [-> _]. apply skipn_app_exact. Qed.

Lemma validate_ok v n str :
  validate (mkFc EcOk n (Some v)) str = if frac_follows (skipn n str) then CInvalidArgument else COk v.
Proof.
  unfold validate. cbn [fc_ec fc_val fc_ptr]. destruct (skipn n str) as [|c [|d r]]; reflexivity.
Qed.

Lemma parse_core_main T it : minus_unsigned T it = false -> parse_core T it = classify_core T it.
Proof.
  intros Hd. unfold parse_core, classify_core, from_chars_int, leading_literal.
  destruct it as [|u t].
  { reflexivity. }
  destruct (N.eqb_spec u 45) as [->|Hu].
  - (* begins with '-' *)
    destruct (signed_of T) eqn:Es; cbn [andb].
    + destruct (span_digits t) as [ds rest] eqn:E.
      destruct ds as [|d0 ds']; [reflexivity|].
      destruct (in_rangeb T (- dec_value (d0 :: ds'))); [|reflexivity].
      rewrite validate_ok. cbn [Nat.add skipn]. fold (length (d0 :: ds')).
      replace (skipn (length (d0 :: ds')) t) with rest by (symmetry; apply skipn_span; exact E).
      reflexivity.
    + (* unsigned: outside the defect class no digit follows *)
      unfold minus_unsigned in Hd. rewrite Es in Hd. cbn [negb andb] in Hd.
      destruct t as [|d t'].
      * reflexivity.
      * cbn [N.eqb Pos.eqb andb] in Hd.
        cbn [span_digits is_digit]. change (is_digit 45) with false. cbn iota.
        cbn [span_digits]. rewrite Hd. reflexivity.
  - cbn [andb].
    destruct (span_digits (u :: t)) as [ds rest] eqn:E.
    destruct ds as [|d0 ds']; [reflexivity|].
    destruct (in_rangeb T (dec_value (d0 :: ds'))); [|reflexivity].
    rewrite validate_ok. cbn [Nat.add].
    rewrite (skipn_span _ _ _ E). reflexivity.
Qed.

Lemma parse_core_inside T it : minus_unsigned T it = true -> parse_core T it = CInvalidArgument.
Proof.
  intros Hd. unfold minus_unsigned in Hd. apply andb_true_iff in Hd. destruct Hd as [Hs Hd].
  destruct it as [|c [|d t]]; try discriminate. apply andb_true_iff in Hd. destruct Hd as [Hc _].
  apply N.eqb_eq in Hc. subst c.
  unfold parse_core, from_chars_int. destruct (signed_of T); [discriminate|]. cbn [andb].
  cbn [span_digits]. change (is_digit 45) with false. reflexivity.
Qed.

(* ---------- narrowing wide input through Utf8::Encode ---------- *)

Lemma mark8_stops : stops mark8 /\ mark8 <> [].
Proof. split; [cbn; lia | discriminate]. Qed.

Lemma scalar_ascii c : (c < 0x80)%N -> scalar c.
Proof. intros H. unfold scalar, scalarb. lia. Qed.

Lemma skip_spec_sim src mark inp o n : stops mark -> mark <> [] ->
  skip_spec src W8 mark inp o n -> sim inp o.
Proof.
  intros Hm Hne H. induction H as [|c r o n Hc _ IH|chunk r o n Hlen Hnp _ IH].
  - apply sim_stop; exact I.
  - destruct (N.ltb_spec c 0x80) as [Ha|Ha].
    + rewrite !enc_ascii by exact Ha. cbn. apply sim_cons; assumption.
    + destruct (enc_nonascii src c Ha), (enc_nonascii W8 c Ha). apply sim_stop; apply stops_app; assumption.
  - apply sim_stop; [|apply stops_app; assumption].
    destruct chunk as [|x ch]; [cbn in Hlen; lia|]. cbn [app stops].
    destruct (N.ltb_spec x 0x80) as [Ha|Ha]; [exfalso | exact Ha].
    apply (Hnp x (scalar_ascii x Ha)). rewrite enc_ascii by exact Ha. exists (ch ++ r). reflexivity.
Qed.

Lemma narrow_sim w it : w <> W8 -> units w it -> sim it (r_out (transcode w W8 Skip mark8 it [])).
Proof.
  intros Hw Hu.
  assert (E : width_eqb w W8 = false) by (destruct w; [congruence | reflexivity | reflexivity]).
  destruct (transcode_skip w W8 mark8 it [] E Hu) as [consumed [rest [o [E1 [E2 [_ [_ Hcase]]]]]]].
  cbv zeta in *. rewrite E2. cbn [app]. destruct mark8_stops as [Hm Hne].
  destruct Hcase as [[_ [-> Hs]]|[_ [Hlen [Hnp [n [Hs _]]]]]].
  - eapply skip_spec_sim; eassumption.
  - rewrite E1. apply sim_app_stop; [eapply skip_spec_sim; eassumption|].
    destruct rest as [|x rest']; [exact I|]. cbn [stops].
    destruct (N.ltb_spec x 0x80) as [Ha|Ha]; [exfalso | exact Ha].
    apply (Hnp x (scalar_ascii x Ha)). rewrite enc_ascii by exact Ha. exists rest'. reflexivity.
Qed.

Lemma sim_classify_core T a b : sim a b -> classify_core T a = classify_core T b.
Proof. intros H. unfold classify_core. rewrite (sim_leading_literal a b H). reflexivity. Qed.

Lemma sim_minus_unsigned T a b : sim a b -> minus_unsigned T a = minus_unsigned T b.
Proof.
  intros H. unfold minus_unsigned. f_equal.
  destruct (sim_cases a b H) as [[Ha Hb]|[c [a' [b' [Hc [-> [-> H']]]]]]].
  - assert (Fa : match a with c :: d :: _ => (c =? 45)%N && is_digit d | _ => false end = false).
    { destruct a as [|x [|y t]]; try reflexivity. cbn in Ha. destruct (N.eqb_spec x 45); [lia | reflexivity]. }
    assert (Fb : match b with c :: d :: _ => (c =? 45)%N && is_digit d | _ => false end = false).
    { destruct b as [|x [|y t]]; try reflexivity. cbn in Hb. destruct (N.eqb_spec x 45); [lia | reflexivity]. }
    congruence.
  - destruct (sim_cases a' b' H') as [[Ha Hb]|[d [a'' [b'' [Hd [-> [-> _]]]]]]]; [|reflexivity].
    assert (Fa : match a' with d :: _ => (c =? 45)%N && is_digit d | _ => false end = false).
    { destruct a' as [|y t]; [reflexivity|]. rewrite (stops_head_not y t is_digit Ha is_digit_ascii). apply andb_false_r. }
    assert (Fb : match b' with d :: _ => (c =? 45)%N && is_digit d | _ => false end = false).
    { destruct b' as [|y t]; [reflexivity|]. rewrite (stops_head_not y t is_digit Hb is_digit_ascii). apply andb_false_r. }
    destruct a', b'; congruence.
Qed.

(* parse_num in terms of parse_core on a string that is sim to the blank-stripped input *)
Lemma parse_num_core T w s : units w s ->
  exists str, sim (skip_blanks s) str /\ parse_num T w s = parse_core T str.
Proof.
  intros Hu. unfold parse_num. cbv zeta. change (m_skip_blanks s) with (skip_blanks s).
  assert (Hu' : units w (skip_blanks s)).
  { clear -Hu. induction s as [|u t IH]; [exact Hu|]. cbn. inversion Hu; subst.
    destruct (is_blank u); [apply IH; assumption | exact Hu]. }
  destruct w.
  - exists (skip_blanks s). split; [apply sim_refl | reflexivity].
  - eexists. split; [apply (narrow_sim W16); [discriminate | exact Hu'] | reflexivity].
  - eexists. split; [apply (narrow_sim W32); [discriminate | exact Hu'] | reflexivity].
Qed.

(* ---------- T_C16_int_classify ---------- *)

Definition defect_minus_unsigned (T : ity) (s : list N) : Prop := minus_unsigned T (skip_blanks s) = true.

Theorem classify_outside T w s : units w s -> ~ defect_minus_unsigned T s ->
  parse_num T w s = classify_spec T s.
Proof.
  intros Hu Hd. destruct (parse_num_core T w s Hu) as [str [Hsim ->]].
  unfold classify_spec. rewrite (sim_classify_core T _ _ Hsim).
  apply parse_core_main. rewrite <- (sim_minus_unsigned T _ _ Hsim).
  unfold defect_minus_unsigned in Hd. destruct (minus_unsigned T (skip_blanks s)); [congruence | reflexivity].
Qed.

Theorem classify_inside T w s : units w s -> defect_minus_unsigned T s ->
  parse_num T w s = CInvalidArgument.
Proof.
  intros Hu Hd. destruct (parse_num_core T w s Hu) as [str [Hsim ->]].
  apply parse_core_inside. rewrite <- (sim_minus_unsigned T _ _ Hsim). exact Hd.
Qed.

Theorem classify_refuted : exists T w s, units w s /\ parse_num T w s <> classify_spec T s.
Proof.
  exists TU8, W8, [45; 48]%N. split.
  - repeat constructor.
  - vm_compute. discriminate.
Qed.

(* never a wrapped / truncated value, in or out of the defect class *)
Theorem parse_never_wraps T w s v : units w s -> parse_num T w s = COk v ->
  in_range T v /\ exists frac, leading_literal (skip_blanks s) = Some (v, frac) /\ frac = false.
Proof.
  intros Hu H.
  destruct (minus_unsigned T (skip_blanks s)) eqn:Ed.
  - rewrite classify_inside in H by assumption. discriminate.
  - rewrite classify_outside in H; [|assumption|unfold defect_minus_unsigned; congruence].
    unfold classify_spec, classify_core in H.
    destruct (leading_literal (skip_blanks s)) as [[z frac]|]; [|discriminate].
    destruct (in_rangeb T z) eqn:Er; [|discriminate]. destruct frac; [discriminate|].
    assert (v = z) by congruence. subst z. split; [apply in_rangeb_spec; exact Er|].
    exists false. split; reflexivity.
Qed.

(* total: one of the three documented outcomes, never UB / other *)
Theorem parse_total T w s : units w s ->
  (exists v, parse_num T w s = COk v) \/ parse_num T w s = COutOfRange \/ parse_num T w s = CInvalidArgument.
Proof.
  intros Hu. destruct (minus_unsigned T (skip_blanks s)) eqn:Ed.
  - right; right. apply classify_inside; assumption.
  - rewrite classify_outside; [|assumption|unfold defect_minus_unsigned; congruence].
    unfold classify_spec, classify_core.
    destruct (leading_literal (skip_blanks s)) as [[z frac]|]; [|right; right; reflexivity].
    destruct (in_rangeb T z); [|right; left; reflexivity].
    destruct frac; [right; right; reflexivity | left; eexists; reflexivity].
Qed.

(* the other reading of the overlap "fractional AND out of range" *)
Definition frac_and_out_of_range (T : ity) (s : list N) : Prop :=
  exists z, leading_literal (skip_blanks s) = Some (z, true) /\ in_rangeb T z = false.

Theorem classify_frac_first_refuted : exists T w s, units w s /\ parse_num T w s <> classify_frac_first T s.
Proof.
  exists TI8, W8, [57; 57; 57; 46; 53]%N. split.
  - repeat constructor.
  - vm_compute. discriminate.
Qed.

Theorem classify_frac_first_outside T w s : units w s -> ~ defect_minus_unsigned T s ->
  ~ frac_and_out_of_range T s -> parse_num T w s = classify_frac_first T s.
Proof.
  intros Hu Hd Hf. rewrite classify_outside by assumption.
  unfold classify_spec, classify_core, classify_frac_first.
  destruct (leading_literal (skip_blanks s)) as [[z frac]|] eqn:E; [|reflexivity].
  destruct frac; [|reflexivity].
  destruct (in_rangeb T z) eqn:Er; [reflexivity|].
  exfalso. apply Hf. exists z. split; [exact E | exact Er].
Qed.

(* ---------- T_C16_int_roundtrip ---------- *)

Lemma digits_ascii l : digits l -> Forall (fun u => (u < 0x80)%N) l.
Proof. induction 1 as [|u l Hu _ IH]; constructor; [apply is_digit_ascii; exact Hu | exact IH]. Qed.

Lemma to_dec_ascii z s : to_dec z = Some s -> Forall (fun u => (u < 0x80)%N) s.
Proof.
  intros H. destruct (Z.ltb_spec z 0) as [Hn|Hp].
  - destruct (to_dec_neg z s Hn H) as [l [-> [_ [D _]]]]. constructor; [lia | apply digits_ascii; exact D].
  - destruct (to_dec_nonneg z s Hp H) as [_ [D _]]. apply digits_ascii; exact D.
Qed.

Lemma ascii_units w l : Forall (fun u => (u < 0x80)%N) l -> units w l.
Proof.
  unfold units. apply Forall_impl. intros u Hu. destruct w; cbn; lia.
Qed.

Lemma ascii_scalars l : Forall (fun u => (u < 0x80)%N) l -> Forall scalar l.
Proof. apply Forall_impl. apply scalar_ascii. Qed.

(* range of every type is inside (-10^19, 10^20) *)
Lemma lo_hi_values T : -9223372036854775808 <= lo T /\ hi T <= 18446744073709551615.
Proof. destruct T; vm_compute; split; discriminate. Qed.

Lemma pow10_19 : 10 ^ 19 = 10000000000000000000.  Proof. reflexivity. Qed.
Lemma pow10_20 : 10 ^ 20 = 100000000000000000000.  Proof. reflexivity. Qed.

Lemma to_dec_length T z s : in_range T z -> to_dec z = Some s -> (length s <= 20)%nat.
Proof.
  intros Hr H. unfold in_range in Hr. pose proof (lo_hi_values T) as Hb.
  destruct (Z.ltb_spec z 0) as [Hn|Hp].
  - destruct (to_dec_neg z s Hn H) as [l [-> [_ [_ [_ L]]]]].
    specialize (L 19 ltac:(lia)). rewrite pow10_19 in L. specialize (L ltac:(lia)). cbn [length]. lia.
  - destruct (to_dec_nonneg z s Hp H) as [_ [_ [_ L]]].
    specialize (L 20 ltac:(lia)). rewrite pow10_20 in L. specialize (L ltac:(lia)). lia.
Qed.

(* the 42-byte buffer always suffices *)
Theorem to_chars_fits T z : in_range T z ->
  exists s, to_dec z = Some s /\ to_chars_int 42 z = Some s /\ (length s <= 20)%nat.
Proof.
  intros Hr. destruct (to_dec z) as [s|] eqn:E; [|exfalso; exact (to_dec_total z E)].
  exists s. pose proof (to_dec_length T z s Hr E) as L. repeat split; [|exact L].
  unfold to_chars_int. rewrite E. destruct (Nat.leb_spec (length s) 42); [reflexivity | lia].
Qed.

Lemma to_text_digits T w z : T <> TBool -> in_range T z ->
  exists s, to_dec z = Some s /\ to_text T w z [] = COk s.
Proof.
  intros HT Hr. destruct (to_chars_fits T z Hr) as [s [E [Ec _]]]. exists s. split; [exact E|].
  unfold to_text. rewrite Ec.
  assert (Ha := to_dec_ascii z s E).
  assert (Hw : forall w', w' <> W8 -> r_out (transcode W8 w' Skip (mark_of w') s []) = s).
  { intros w' Hw'. rewrite <- (encs_ascii W8 s Ha) at 1.
    rewrite transcode_exact' by (apply ascii_scalars; exact Ha). cbn [r_out app]. apply encs_ascii; exact Ha. }
  destruct T; try congruence; destruct w; try reflexivity; rewrite Hw by discriminate; reflexivity.
Qed.

Theorem int_roundtrip T w z : T <> TBool -> in_range T z ->
  exists txt, to_text T w z [] = COk txt /\ to_dec z = Some txt /\ parse_num T w txt = COk z.
Proof.
  intros HT Hr. destruct (to_text_digits T w z HT Hr) as [s [E Et]]. exists s. split; [exact Et|]. split; [exact E|].
  destruct (leading_literal_to_dec z s E) as [HL HS].
  assert (Hu : units w s) by (apply ascii_units; eapply to_dec_ascii; exact E).
  rewrite classify_outside.
  - unfold classify_spec, classify_core. rewrite HS, HL.
    apply in_rangeb_spec in Hr. rewrite Hr. reflexivity.
  - exact Hu.
  - unfold defect_minus_unsigned, minus_unsigned. rewrite HS.
    destruct (signed_of T) eqn:Es; [cbn; congruence|]. cbn [negb andb].
    (* unsigned: z >= 0, so the text starts with a digit *)
    assert (Hz : 0 <= z) by (unfold in_range, lo, int_lo in Hr; rewrite Es in Hr; lia).
    destruct (to_dec_nonneg z s Hz E) as [_ [D [NE _]]].
    destruct s as [|x [|y t]]; try congruence.
    inversion D; subst. rewrite (digit_not_minus x) by assumption. cbn. congruence.
Qed.

(* ---------- T_C16_width_independent ---------- *)

Theorem width_independent_sim T wa wb a b : units wa a -> units wb b -> sim a b ->
  parse_num T wa a = parse_num T wb b.
Proof.
  intros Ha Hb H.
  destruct (parse_num_core T wa a Ha) as [sa [Hsa ->]].
  destruct (parse_num_core T wb b Hb) as [sb [Hsb ->]].
  assert (Hs : sim sa sb).
  { apply (sim_trans sa (skip_blanks a)); [apply sim_sym; exact Hsa|].
    apply (sim_trans _ (skip_blanks b)); [apply sim_skip_blanks; exact H | exact Hsb]. }
  destruct (minus_unsigned T sa) eqn:Ed.
  - rewrite (parse_core_inside T sa Ed). rewrite (sim_minus_unsigned T _ _ Hs) in Ed.
    rewrite (parse_core_inside T sb Ed). reflexivity.
  - rewrite (parse_core_main T sa Ed). rewrite (sim_minus_unsigned T _ _ Hs) in Ed.
    rewrite (parse_core_main T sb Ed). apply sim_classify_core. exact Hs.
Qed.

Theorem width_independent T w1 w2 cps : Forall scalar cps ->
  parse_num T w1 (encs w1 cps) = parse_num T w2 (encs w2 cps).
Proof.
  intros Hs. apply width_independent_sim; [apply encs_units; exact Hs | apply encs_units; exact Hs | apply sim_encs].
Qed.

(* ---------- T_C16_bool ---------- *)

Lemma m_is_true_eq it : m_is_true it = ci_prefix pat_true it.
Proof.
  unfold m_is_true, pat_true, either. destruct it as [|c0 [|c1 [|c2 [|c3 t]]]]; cbn [ci_prefix];
    rewrite ?andb_false_r; try reflexivity.
  rewrite andb_true_r, !andb_assoc. reflexivity.
Qed.

Lemma m_is_false_eq it : m_is_false it = ci_prefix pat_false it.
Proof.
  unfold m_is_false, pat_false, either. destruct it as [|c0 [|c1 [|c2 [|c3 [|c4 t]]]]]; cbn [ci_prefix];
    rewrite ?andb_false_r; try reflexivity.
  rewrite andb_true_r, !andb_assoc. reflexivity.
Qed.

Theorem parse_bool_exact s : parse_bool s = bool_spec s.
Proof.
  unfold parse_bool, bool_spec. rewrite m_skip_blanks_eq.
  destruct (skip_blanks s) as [|c0 t] eqn:E.
  - reflexivity.
  - rewrite m_is_true_eq, m_is_false_eq, !isdigit_c_eq.
    cbn [span_digits]. destruct (is_digit c0) eqn:D0.
    + destruct t as [|c1 t'].
      * cbn [span_digits negb andb]. rewrite !andb_true_r. reflexivity.
      * rewrite isdigit_c_eq. cbn [span_digits]. destruct (is_digit c1) eqn:D1.
        -- destruct (span_digits t') as [d r]. cbn [negb]. rewrite !andb_false_r. reflexivity.
        -- cbn [negb]. rewrite !andb_true_r. reflexivity.
    + reflexivity.
Qed.

Theorem parse_bool_roundtrip (b : bool) w out : to_text TBool w (if b then 1 else 0) [] = COk out ->
  out = bool_text b /\ parse_bool out = COk b.
Proof.
  intros H. unfold to_text in H. cbn [app] in H.
  assert (out = bool_text b) by (destruct b; cbn in H |- *; congruence). subst out.
  split; [reflexivity|]. destruct b; vm_compute; reflexivity.
Qed.

Lemma pat_true_ascii l u : In (l, u) pat_true -> (l < 0x80 /\ u < 0x80)%N.
Proof. unfold pat_true. cbn. intros H. repeat (destruct H as [H|H]; [inversion H; subst; lia|]). destruct H. Qed.
Lemma pat_false_ascii l u : In (l, u) pat_false -> (l < 0x80 /\ u < 0x80)%N.
Proof. unfold pat_false. cbn. intros H. repeat (destruct H as [H|H]; [inversion H; subst; lia|]). destruct H. Qed.

Theorem bool_width_independent_sim a b : sim a b -> parse_bool a = parse_bool b.
Proof.
  intros H. rewrite !parse_bool_exact. unfold bool_spec.
  pose proof (sim_skip_blanks a b H) as Hs.
  destruct (sim_span _ _ Hs) as [E _].
  destruct (span_digits (skip_blanks a)) as [da ra]. destruct (span_digits (skip_blanks b)) as [db rb].
  cbn in E. subst db.
  rewrite (sim_ci_prefix pat_true pat_true_ascii _ _ Hs), (sim_ci_prefix pat_false pat_false_ascii _ _ Hs).
  reflexivity.
Qed.

Theorem bool_width_independent w1 w2 cps : parse_bool (encs w1 cps) = parse_bool (encs w2 cps).
Proof. apply bool_width_independent_sim. apply sim_encs. Qed.

(* ---------- std::isdigit arguments (formal undefined behaviour, not observable with GCC) ---------- *)

Theorem bool_isdigit_domain_refuted :
  exists w s a, units w s /\ In a (parse_bool_isdigit_args w s) /\ isdigit_arg_ok a = false.
Proof.
  exists W32, [0x10031%N], 0x10031. repeat split.
  - repeat constructor.
  - left. reflexivity.
Qed.

Theorem bool_isdigit_domain_outside w s : Forall (fun u => (u < 0x80)%N) s ->
  Forall (fun a => isdigit_arg_ok a = true) (parse_bool_isdigit_args w s).
Proof.
  intros H. unfold parse_bool_isdigit_args. rewrite m_skip_blanks_eq.
  assert (H' : Forall (fun u => (u < 0x80)%N) (skip_blanks s)).
  { induction H as [|u t Hu Ht IH]; [constructor|]. cbn. destruct (is_blank u); [exact IH | constructor; assumption]. }
  assert (Hok : forall u, (u < 0x80)%N -> isdigit_arg_ok (unit_as_int w u) = true).
  { intros u Hu. unfold isdigit_arg_ok, unit_as_int.
    destruct w; [destruct (N.ltb_spec u 128); lia | lia | destruct (N.ltb_spec u 2147483648); lia]. }
  destruct (skip_blanks s) as [|c0 t]; [constructor|].
  inversion H' as [|? ? H0 Ht]; subst. constructor; [apply Hok; exact H0|].
  destruct t as [|c1 t']; [constructor|]. inversion Ht; subst.
  destruct (isdigit_c c0 && ((c0 =? 49) || (c0 =? 48)))%N; constructor; [apply Hok; assumption | constructor].
Qed.

Theorem num_isdigit_domain_refuted :
  exists T w s a, units w s /\ In a (parse_num_isdigit_args T w s) /\ isdigit_arg_ok a = false.
Proof.
  exists TI32, W16, [49; 46; 0xE9]%N, (-61). repeat split.
  - repeat constructor.
  - vm_compute. left. reflexivity.
Qed.

Lemma narrow_ascii w it : Forall (fun u => (u < 0x80)%N) it -> r_out (transcode w W8 Skip mark8 it []) = it.
Proof.
  intros Ha. rewrite <- (encs_ascii w it Ha) at 1.
  rewrite transcode_exact' by (apply ascii_scalars; exact Ha). cbn [r_out app]. apply encs_ascii; exact Ha.
Qed.

Lemma skip_blanks_forall (P : N -> Prop) s : Forall P s -> Forall P (skip_blanks s).
Proof. induction 1 as [|u t Hu Ht IH]; [constructor|]. cbn. destruct (is_blank u); [exact IH | constructor; assumption]. Qed.

Lemma skipn_forall {A} (P : A -> Prop) n l : Forall P l -> Forall P (skipn n l).
Proof. intros H. rewrite <- (firstn_skipn n l) in H. apply Forall_app in H. tauto. Qed.

Theorem num_isdigit_domain_outside T w s : Forall (fun u => (u < 0x80)%N) s ->
  Forall (fun a => isdigit_arg_ok a = true) (parse_num_isdigit_args T w s).
Proof.
  intros H. unfold parse_num_isdigit_args. cbv zeta. change (m_skip_blanks s) with (skip_blanks s).
  pose proof (skip_blanks_forall _ s H) as H'.
  set (str := match w with W8 => skip_blanks s | _ => r_out (transcode w W8 Skip mark8 (skip_blanks s) []) end).
  assert (Hs : Forall (fun u => (u < 0x80)%N) str).
  { subst str. destruct w; [exact H' | rewrite narrow_ascii by exact H'; exact H' | rewrite narrow_ascii by exact H'; exact H']. }
  clearbody str.
  destruct (fc_ec (from_chars_int T str)); try constructor.
  pose proof (skipn_forall _ (fc_ptr (from_chars_int T str)) str Hs) as Hk.
  destruct (skipn (fc_ptr (from_chars_int T str)) str) as [|c [|d r]]; try constructor.
  destruct (c =? 46)%N; constructor; [|constructor].
  inversion Hk as [|? ? _ Hk']; subst. inversion Hk' as [|? ? Hd _]; subst.
  unfold isdigit_arg_ok, unit_as_int. destruct (N.ltb_spec d 128); lia.
Qed.

Lemma classify_examples :
  parse_num TI8 W16 [32; 9; 45; 49; 50; 56; 120]%N = COk (-128) /\
  parse_num TI8 W8 [49; 50; 56]%N = COutOfRange /\
  parse_num TI32 W32 [49; 50; 46; 53]%N = CInvalidArgument /\
  parse_num TU32 W8 [45; 53]%N = CInvalidArgument /\ classify_spec TU32 [45; 53]%N = COutOfRange.
Proof. repeat split; vm_compute; reflexivity. Qed.
