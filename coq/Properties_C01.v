(* Properties_C01.v — C01: save then load reproduces the value (statements only; proofs in the named files).
   What is stated here: the round trip on the MODELS of the library's own codecs, each "loader model applied to what
   the writer model emitted".  The models are tied to /repo by the correspondences of their families (C06/C07 MsgPack,
   C09 CSV, C13/C11 encoded streams and UTF, C16 integer text, C08 JSON/XML adapters).  The generic layer's container
   loading is C18; the end-to-end statement over the real archives (third-party RapidJSON / pugixml included) is
   decided by the exploration in props/C01.py with the property as its own oracle (partial: see DESIGN.md). *)
From BS Require Import Base MpSpec MpModel MpLemmas MpWriter MpReader MpTyped MpRoundtrip MpSaveModel MpSave.
Local Open Scope N_scope.

(* ---- MsgPack, value level: every writer overload, read by every integer target able to hold the value, from any
   position in a document (rest = whatever follows) and under every policy setting ---- *)
Theorem T_C01_mp_u64 : forall o t v rest, v < 18446744073709551616 -> in_range t (Z.of_N v) = true ->
  read_int o t (wr_u64 v ++ rest) = ROk (Z.of_N v) rest.
Proof. exact rt_u64. Qed.
Print Assumptions T_C01_mp_u64.
Theorem T_C01_mp_u32 : forall o t v rest, v < 4294967296 -> in_range t (Z.of_N v) = true ->
  read_int o t (wr_u32 v ++ rest) = ROk (Z.of_N v) rest.
Proof. exact rt_u32. Qed.
Print Assumptions T_C01_mp_u32.
Theorem T_C01_mp_u16 : forall o t v rest, v < 65536 -> in_range t (Z.of_N v) = true ->
  read_int o t (wr_u16 v ++ rest) = ROk (Z.of_N v) rest.
Proof. exact rt_u16. Qed.
Print Assumptions T_C01_mp_u16.
Theorem T_C01_mp_u8 : forall o t v rest, v < 256 -> in_range t (Z.of_N v) = true ->
  read_int o t (wr_u8 v ++ rest) = ROk (Z.of_N v) rest.
Proof. exact rt_u8. Qed.
Print Assumptions T_C01_mp_u8.
Theorem T_C01_mp_i64 : forall o t z rest, (-9223372036854775808 <= z < 9223372036854775808)%Z -> in_range t z = true ->
  read_int o t (wr_i64 z ++ rest) = ROk z rest.
Proof. exact rt_i64. Qed.
Print Assumptions T_C01_mp_i64.
Theorem T_C01_mp_i32 : forall o t z rest, (-2147483648 <= z < 2147483648)%Z -> in_range t z = true ->
  read_int o t (wr_i32 z ++ rest) = ROk z rest.
Proof. exact rt_i32. Qed.
Print Assumptions T_C01_mp_i32.
Theorem T_C01_mp_i16 : forall o t z rest, (-32768 <= z < 32768)%Z -> in_range t z = true ->
  read_int o t (wr_i16 z ++ rest) = ROk z rest.
Proof. exact rt_i16. Qed.
Print Assumptions T_C01_mp_i16.
Theorem T_C01_mp_i8 : forall o t z rest, (-128 <= z < 128)%Z -> in_range t z = true ->
  read_int o t (wr_i8 z ++ rest) = ROk z rest.
Proof. exact rt_i8. Qed.
Print Assumptions T_C01_mp_i8.
Theorem T_C01_mp_bool : forall o b rest,
  read_int o (mkIty false 1) (wr_bool b ++ rest) = ROk (if b then 1 else 0)%Z rest.
Proof. exact rt_bool. Qed.
Print Assumptions T_C01_mp_bool.
Theorem T_C01_mp_nil : forall o rest, read_nil o (wr_nil ++ rest) = ROk tt rest.
Proof. exact rt_nil. Qed.
Print Assumptions T_C01_mp_nil.
Theorem T_C01_mp_str : forall o s rest out, Forall (fun b => b < 256) (out ++ rest) -> wr_str s = Some out ->
  read_str o (out ++ rest) = ROk s rest.
Proof. exact rt_str. Qed.
Print Assumptions T_C01_mp_str.
(* floats and doubles: bit patterns (NaN payloads, signed zeros, infinities included) *)
Theorem T_C01_mp_f32 : forall narrow o bits rest, bits < 2 ^ 32 -> read_f32 narrow o (wr_f32 bits ++ rest) = ROk bits rest.
Proof. exact rt_f32. Qed.
Print Assumptions T_C01_mp_f32.
Theorem T_C01_mp_f64 : forall widen o bits rest, bits < 2 ^ 64 -> read_f64 widen o (wr_f64 bits ++ rest) = ROk bits rest.
Proof. exact rt_f64. Qed.
Print Assumptions T_C01_mp_f64.

(* ---- MsgPack, document level: the archive layer's output for ANY typed value tree (classes, maps with any key kind,
   sequences, byte containers, every scalar kind, any nesting) is exactly one well-formed object which an independent
   decoder maps back to the tree's abstract value - types, values, element order and counts - with nothing left over ---- *)
Theorem T_C01_mp_tree : forall v b, wf_tv v -> save v = Some b -> decode b = Some (abs v, []).
Proof. exact save_decodes. Qed.
Print Assumptions T_C01_mp_tree.

From BS Require Import CsvSpec CsvModel C01Proofs.

(* ---- CSV: for every table (arbitrary byte-string fields: separators, quotes, CR, LF, any UTF-8), every allowed
   separator and every requested key list, loading what was saved returns exactly the requested cells of every row;
   memory, and stream for every chunk size of the stream reader ---- *)
Theorem T_C01_csv : forall sep hdr rows keys,
  allowed sep -> rows <> [] -> hdr <> [] -> NoDup hdr -> uniform hdr rows ->
  exists text, csv_write sep hdr rows = CsvModel.Ok text /\ csv_load sep keys text = CsvModel.Ok (select hdr keys rows).
Proof. exact csv_save_load. Qed.
Print Assumptions T_C01_csv.
Theorem T_C01_csv_stream_bom : forall K sep hdr rows keys,
  (3 <= K)%nat -> allowed sep -> rows <> [] -> hdr <> [] -> NoDup hdr -> uniform hdr rows ->
  exists doc, csv_write_stream true sep hdr rows = CsvModel.Ok doc /\
              csv_load_stream K sep keys doc = CsvModel.Ok (select hdr keys rows).
Proof. exact csv_save_load_stream_bom. Qed.
Print Assumptions T_C01_csv_stream_bom.
(* without BOM: unless the table's own first bytes are EF BB BF (then the reader takes them for a BOM) *)
Theorem T_C01_csv_stream_plain : forall K sep hdr rows keys,
  (0 < K)%nat -> allowed sep -> rows <> [] -> hdr <> [] -> NoDup hdr -> uniform hdr rows ->
  exists doc, csv_write_stream false sep hdr rows = CsvModel.Ok doc /\
    (starts_with_bom (firstn K doc) = false -> csv_load_stream K sep keys doc = CsvModel.Ok (select hdr keys rows)).
Proof. exact csv_save_load_stream_plain. Qed.
Print Assumptions T_C01_csv_stream_plain.

From BS Require Import UtfSpec UtfModel UtfProofs StreamIStream StreamSpec StreamModel StreamLossless.

(* ---- encoded text streams (JSON / CSV / XML-independent part of "each supported UTF encoding with or without BOM"):
   what CEncodedStreamWriter wrote for a text of any source width in any of the five encodings, read back by
   CEncodedStreamReader with any chunk size into any target width, is the text; outside the two detection classes
   of C13 (stream_defect, known findings F06a-c) and for BOM-less streams starting with an ASCII character ---- *)
Theorem T_C01_text_stream : forall K tgt pol polw mark e b w text sk fuel,
  (K mod 4 = 0)%nat -> (32 <= K)%nat -> Forall scalar text -> detectable b text -> stream_defect e b text = false ->
  let written := snd (esw_run e b polw [(w, encs w text)]) in
  (length written < fuel)%nat ->
  exists k, esr_run K tgt pol mark fuel (stream_of written sk) =
              RunDone (repeat ChSuccess k ++ [ChEndFile]) (encs tgt text) e.
Proof. exact stream_write_read. Qed.
Print Assumptions T_C01_text_stream.

(* ---- strings of the four widths: transcoding to the archive's width and back is the identity on every text ---- *)
Theorem T_C01_string_widths : forall src dst pol mark cps, Forall scalar cps ->
  let r1 := transcode src dst pol mark (encs src cps) [] in
  r_code r1 = Success /\
  transcode dst src pol mark (r_out r1) [] = mkR Success (length (encs dst cps)) 0 (encs src cps).
Proof. exact transcode_roundtrip. Qed.
Print Assumptions T_C01_string_widths.
