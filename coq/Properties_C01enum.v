(* Properties_C01enum.v — C01, enum values: converting a registered enum value to text and back (and saving /
   loading it through an archive) reproduces the value.  Statements only; every proof is [exact <lemma>].
   registry = arbitrary list of (value : Z, name : list of bytes) in registration order (EnumSpec.v);
   to_text / from_text / save_enum / load_enum are the model of convert_enum.h and of the enum branch of
   serialization_base_types.h (EnumModel.v); name_of / value_named / registered / named are the independent
   meaning of a registration (EnumSpec.v); W8 W16 W32 WW = char, char16_t, char32_t, wchar_t. *)
From BS Require Import Base EnumSpec EnumModel EnumProofs.
Local Open Scope N_scope.

(* (1) round trip, all four widths: values pairwise distinct, names pairwise distinct up to ASCII case
   (well_formed), name bytes < 256 — and ASCII names for char16_t (rt_ok): every registered value converts
   to a text that converts back to it *)
Theorem T_C01enum_roundtrip : forall w r v, well_formed r = true -> rt_ok w r = true -> registered r v ->
  exists s, to_text w r v = Ok s /\ from_text w r s = Ok v.
Proof. exact roundtrip. Qed.
Print Assumptions T_C01enum_roundtrip.

(* the same without the ASCII hypothesis for char16_t is false ... *)
Theorem T_C01enum_roundtrip_all_refuted : exists w r v,
  ~ (well_formed r = true -> bytes_names r = true -> registered r v ->
     exists s, to_text w r v = Ok s /\ from_text w r s = Ok v).
Proof. exact roundtrip_all_refuted. Qed.
Print Assumptions T_C01enum_roundtrip_all_refuted.

(* ... and true everywhere outside "char16_t and some name has a non-ASCII byte" *)
Theorem T_C01enum_roundtrip_all_outside : forall w r v, ~ (w = W16 /\ ascii_names r = false) ->
  well_formed r = true -> bytes_names r = true -> registered r v ->
  exists s, to_text w r v = Ok s /\ from_text w r s = Ok v.
Proof. exact roundtrip_all_outside. Qed.
Print Assumptions T_C01enum_roundtrip_all_outside.

(* through an archive (the name is saved as a char string, whatever its bytes; both mismatched-types policies) *)
Theorem T_C01enum_archive_roundtrip : forall r v pol, well_formed r = true -> bytes_names r = true -> registered r v ->
  exists n, name_of r v n /\ save_enum r v = Saved n /\ load_enum r pol n = Loaded v.
Proof. exact archive_roundtrip. Qed.
Print Assumptions T_C01enum_archive_roundtrip.

(* what to_text answers: the registered name, unit by unit (ASCII names: the same numbers in every width) *)
Theorem T_C01enum_to_text_name : forall w r v n, distinct_values r = true -> ascii_names r = true -> name_of r v n ->
  to_text w r v = Ok n.
Proof. exact to_text_ascii. Qed.
Print Assumptions T_C01enum_to_text_name.

(* (2) from_text is exactly "the value named s" (case-insensitive over the ASCII letters only), for char with
   any name bytes, for the wide widths with ASCII names; s any string of units of the width *)
Theorem T_C01enum_from_text_spec : forall w r s v, names_ok w r = true -> units_ok w s = true -> distinct_names r = true ->
  (from_text w r s = Ok v <-> value_named r s v).
Proof. exact from_text_spec. Qed.
Print Assumptions T_C01enum_from_text_spec.

(* the other direction of the round trip *)
Theorem T_C01enum_from_then_to : forall w r s v, well_formed r = true -> names_ok w r = true -> units_ok w s = true ->
  from_text w r s = Ok v ->
  exists n, name_of r v n /\ eq_nocase n s /\ to_text w r v = Ok (map (widen w) n).
Proof. exact from_then_to. Qed.
Print Assumptions T_C01enum_from_then_to.

(* for non-ASCII names in a wide width it is false that the accepted texts are one name up to ASCII case *)
Theorem T_C01enum_from_then_to_wide_refuted : exists r s1 s2 v,
  well_formed r = true /\ bytes_names r = true /\ units_ok W32 s1 = true /\ units_ok W32 s2 = true /\
  from_text W32 r s1 = Ok v /\ from_text W32 r s2 = Ok v /\ ~ eq_nocase s1 s2.
Proof. exact from_then_to_wide_refuted. Qed.
Print Assumptions T_C01enum_from_then_to_wide_refuted.

(* (3) totality and error outcomes: no hypothesis on the registry *)
Theorem T_C01enum_to_text_total : forall w r v,
  (exists n, In (v, n) r /\ to_text w r v = Ok (map (widen w) n)) \/
  (~ registered r v /\ to_text w r v = InvalidArgument).
Proof. exact to_text_total. Qed.
Print Assumptions T_C01enum_to_text_total.

Theorem T_C01enum_to_text_error : forall w r v, to_text w r v = InvalidArgument <-> ~ registered r v.
Proof. exact to_text_error. Qed.
Print Assumptions T_C01enum_to_text_error.

Theorem T_C01enum_from_text_error : forall w r s, names_ok w r = true -> units_ok w s = true ->
  (from_text w r s = InvalidArgument <-> ~ named r s).
Proof. exact from_text_error. Qed.
Print Assumptions T_C01enum_from_text_error.

Theorem T_C01enum_save_unregistered : forall r v, save_enum r v = UnregisteredEnum <-> ~ registered r v.
Proof. exact save_unregistered. Qed.
Print Assumptions T_C01enum_save_unregistered.

Theorem T_C01enum_empty_registry : forall w v s, to_text w [] v = InvalidArgument /\ from_text w [] s = InvalidArgument.
Proof. exact empty_registry. Qed.
Print Assumptions T_C01enum_empty_registry.

(* (4) without the hypotheses: the FIRST descriptor wins in both lookups (any registry, any text) *)
Theorem T_C01enum_first_value_wins : forall r v e,
  find_by_value r v = Some e <->
  exists r1 n r2, r = r1 ++ (v, n) :: r2 /\ e = (v, n) /\ ~ In v (map fst r1).
Proof. exact find_by_value_first. Qed.
Print Assumptions T_C01enum_first_value_wins.

Theorem T_C01enum_first_name_wins : forall w r s e,
  find_by_name w r s = Some e <->
  exists r1 r2, r = r1 ++ e :: r2 /\ name_matches w (snd e) s = true /\
                (forall e', In e' r1 -> name_matches w (snd e') s = false).
Proof. exact find_by_name_first. Qed.
Print Assumptions T_C01enum_first_name_wins.

(* the size test of GetEnumMetadata(name) is implied by the comparison loop *)
Theorem T_C01enum_size_test : forall w n s,
  (N.of_nat (length n) =? N.of_nat (length s)) && name_matches w n s = name_matches w n s.
Proof. exact size_test. Qed.
Print Assumptions T_C01enum_size_test.

(* names equal up to case / a value registered twice: the round trip is false (ASCII names, every width) *)
Theorem T_C01enum_roundtrip_duplicates_refuted : exists r v,
  ascii_names r = true /\ registered r v /\
  forall w, exists s, to_text w r v = Ok s /\ from_text w r s <> Ok v.
Proof. exact roundtrip_duplicates_refuted. Qed.
Print Assumptions T_C01enum_roundtrip_duplicates_refuted.

Theorem T_C01enum_name_roundtrip_duplicates_refuted : exists r s v,
  ascii_names r = true /\ from_text W8 r s = Ok v /\ to_text W8 r v <> Ok s /\
  (forall s', to_text W8 r v = Ok s' -> ~ eq_nocase s' s).
Proof. exact name_roundtrip_duplicates_refuted. Qed.
Print Assumptions T_C01enum_name_roundtrip_duplicates_refuted.

(* (5) width independence: an ASCII text converts alike in all four widths (any registry); a value of a
   registry with ASCII names converts to the same units in all four widths *)
Theorem T_C01enum_from_text_width : forall w1 w2 r s, ascii_text s = true -> from_text w1 r s = from_text w2 r s.
Proof. exact from_text_width. Qed.
Print Assumptions T_C01enum_from_text_width.

Theorem T_C01enum_to_text_width : forall w1 w2 r v, ascii_names r = true -> to_text w1 r v = to_text w2 r v.
Proof. exact to_text_width. Qed.
Print Assumptions T_C01enum_to_text_width.

(* ---- the hypotheses are satisfiable, and the witnesses of the refutations evaluated *)
Example E_C01enum_fruit : well_formed reg_fruit = true /\ ascii_names reg_fruit = true /\
  (forall w, names_ok w reg_fruit = true /\ rt_ok w reg_fruit = true) /\ registered reg_fruit 100000%Z /\
  to_text W16 reg_fruit 100000 = Ok [66; 108; 117; 101] /\ from_text W16 reg_fruit [98; 76; 85; 101] = Ok 100000%Z /\
  from_text W8 reg_fruit [97; 96] = Ok 8%Z /\ from_text W8 reg_fruit [65; 64] = Ok 7%Z /\
  from_text WW reg_fruit [66; 108; 117] = InvalidArgument /\ units_ok W16 [98; 76; 85; 101] = true /\ ascii_text [98; 76; 85; 101] = true.
Proof. exact fruit_ok. Qed.
Print Assumptions E_C01enum_fruit.

Example E_C01enum_cafe : well_formed reg_cafe = true /\ bytes_names reg_cafe = true /\ ascii_names reg_cafe = false /\
  rt_ok W8 reg_cafe = true /\ rt_ok W32 reg_cafe = true /\ rt_ok WW reg_cafe = true /\ names_ok W8 reg_cafe = true /\
  from_text W8 reg_cafe [67; 65; 70; 195; 169] = Ok 0%Z /\ from_text W8 reg_cafe [67; 65; 70; 195; 137] = InvalidArgument.
Proof. exact cafe_ok. Qed.
Print Assumptions E_C01enum_cafe.

Example E_C01enum_cafe_u16 : to_text W16 reg_cafe 0 = Ok [99; 97; 102; 65475; 65449] /\
  from_text W16 reg_cafe [99; 97; 102; 65475; 65449] = InvalidArgument /\
  from_text W16 reg_cafe [99; 97; 102; 195; 169] = Ok 0%Z /\
  from_text W32 reg_cafe [99; 97; 102; 4294967235; 4294967209] = Ok 0%Z /\
  from_text W32 reg_cafe [99; 97; 102; 195; 169] = Ok 0%Z.
Proof. exact cafe_u16. Qed.
Print Assumptions E_C01enum_cafe_u16.
