(* Properties_C01jx.v — the JSON/XML half of C01 (save then load reproduces the value); compiled with Properties_C01.v
   as one of its EXTRA_PROPERTIES.  Statements only.  Level: PARTIAL — the theorems are about the adapter model
   (JxModel.v) at the DOM level: what rapidjson_archive.h / pugixml_archive.h build from a value and what they read
   back from a DOM.  RapidJSON and pugixml themselves (DOM <-> text) are not modelled: that the library's write + parse
   reproduces the DOM (for XML up to line-end normalisation, saved_view) is validated on every produced document by
   props/C08.py; the double <-> text conversions enter the XML theorems as an explicit hypothesis (H_dtoa below).

   The round-trip theorems have the form  roundtrip .. = Some r -> ..  (None = the model has no save for this type);
   T_C01_json_roundtrip_defined / T_C01_xml_roundtrip_defined say for which types the Some exists for every well-typed
   value (boolean predicates json_ty, xml_root_ty), and T_C01_*_roundtrip_total state the round trip without the premise.

   NOT PROVED: that EVERY value inside the XML defect class fails to come back (one witness per clause is proved);
   XML round trip of non-finite doubles (observed); float and enum targets (ty_wf excludes them: correspondence only);
   the load-save-load fixed point; the stream / encoding axis (observed only). *)
From BS Require Import Base UtfSpec JxJsonSpec JxXmlSpec JxModel JxProofs JxXmlRoundtrip JxDefined.
Local Open Scope N_scope.

(* full strength: for every well-formed type of the universe (any nesting of vectors, maps, classes with distinct member
   names) and every well-typed value, under both policies, saving and loading into a fresh target gives the value back, or
   the save raises an exception (rt_good); and it raises only for a value that contains a non-finite double.  Holds of the
   model of the current code (the former findings F26, F28, F42 are repaired in /repo).  ty_wf: class member names are
   distinct, an optional / smart pointer does not hold another optional or a nullptr_t; float and enum targets are outside
   (correspondence only) *)
Theorem T_C01_json_roundtrip_adapter : forall i2d o t v,
  ty_wf t = true -> has_type t v = true ->
  forall r, roundtrip_json i2d o t v = Some r ->
  rt_good v r /\ (val_nonfinite v = false -> r = LoadedBack (Ok v)).
Proof. exact json_roundtrip. Qed.
Print Assumptions T_C01_json_roundtrip_adapter.

(* when the premise holds: the model's JSON save is defined for every well-typed value of every type without an attribute
   member at any depth (json_ty; the JSON archive has no attributes - a static_assert in C++), float and enum included;
   a class with an attribute has none (second conjunct: ty_attr) *)
Theorem T_C01_json_roundtrip_defined :
  (forall i2d o t v, json_ty t = true -> has_type t v = true -> exists r, roundtrip_json i2d o t v = Some r) /\
  (save_json ty_attr (VObj [([97], VInt 1); ([115], VStr []); ([98], VBool false); ([117], VInt 0); ([118], VInt 0); ([116], VStr [])]) = None /\
   has_type ty_attr (VObj [([97], VInt 1); ([115], VStr []); ([98], VBool false); ([117], VInt 0); ([118], VInt 0); ([116], VStr [])]) = true).
Proof. split; [exact roundtrip_json_defined | exact json_attr_unsupported]. Qed.
Print Assumptions T_C01_json_roundtrip_defined.

(* the round trip without the premise *)
Theorem T_C01_json_roundtrip_total : forall i2d o t v, ty_wf t = true -> json_ty t = true -> has_type t v = true ->
  exists r, roundtrip_json i2d o t v = Some r /\ rt_good v r /\ (val_nonfinite v = false -> r = LoadedBack (Ok v)).
Proof. exact json_roundtrip_total. Qed.
Print Assumptions T_C01_json_roundtrip_total.

(* regression cases of the repaired finding F42 / F42c: map keys with an embedded U+0000 *)
Example T_C01_json_roundtrip_nul_key : forall i2d,
  roundtrip_json i2d mkT (TyMap TyStr) (VObj [([97; 0], VStr [120]); ([98], VStr [121])]) =
    Some (LoadedBack (Ok (VObj [([97; 0], VStr [120]); ([98], VStr [121])]))) /\
  roundtrip_json i2d mkT (TyMap (TyMap TyStr)) (VObj [([97; 0], VObj [])]) = Some (LoadedBack (Ok (VObj [([97; 0], VObj [])]))).
Proof. exact json_roundtrip_nul_key. Qed.
Print Assumptions T_C01_json_roundtrip_nul_key.

(* every integer type at the root keeps its value (the former finding F28 is repaired in /repo);
   a NaN inside an array makes the save raise (the former finding F26 is repaired) *)
Example T_C01_json_roundtrip_root_ints : forall i2d,
  roundtrip_json i2d mkT (TyInt U32) (VInt 4294967295) = Some (LoadedBack (Ok (VInt 4294967295))) /\
  roundtrip_json i2d mkT (TyInt I32) (VInt (-2147483648)) = Some (LoadedBack (Ok (VInt (-2147483648)))) /\
  roundtrip_json i2d mkT (TyInt U64) (VInt 18446744073709551615) = Some (LoadedBack (Ok (VInt 18446744073709551615))).
Proof. exact json_roundtrip_root_ints. Qed.
Print Assumptions T_C01_json_roundtrip_root_ints.

Example T_C01_json_roundtrip_nan : forall i2d,
  roundtrip_json i2d mkT (TyVec TyDbl) (VArr [VDbl 0x3FF0000000000000; VDbl 0x7FF8000000000000; VDbl 0x4000000000000000]) = Some SaveRaises.
Proof. exact json_roundtrip_nan. Qed.
Print Assumptions T_C01_json_roundtrip_nan.

Example T_C01_json_roundtrip_example : forall i2d,
  roundtrip_json i2d mkT (TyMap (TyVec (TyInt I64))) (VObj [([97], VArr [VInt (-9223372036854775808); VInt 7]); ([98; 233], VArr [])]) =
  Some (LoadedBack (Ok (VObj [([97], VArr [VInt (-9223372036854775808); VInt 7]); ([98; 233], VArr [])]))).
Proof. exact json_roundtrip_mix_example. Qed.
Print Assumptions T_C01_json_roundtrip_example.

(* ---------------------------------------------------------------- XML *)

(* the full statement fails in the model of the current code: a carriage return in a string comes back as a line
   feed (J41: pugixml writes it literally into character data, line ends are normalised on reading) *)
Theorem T_C01_xml_roundtrip_adapter_refuted : forall dtoa17 dtoa9 xstrtod xstrtof,
  roundtrip_xml dtoa17 dtoa9 xstrtod xstrtof mkT None (TyVec TyStr) (VArr [VStr [97; 13; 98]]) = Some (Ok (VArr [VStr [97; 10; 98]])).
Proof. exact xml_roundtrip_refuted. Qed.
Print Assumptions T_C01_xml_roundtrip_adapter_refuted.

(* the former findings F29, F29a, F29w are repaired in /repo: an empty container below the root, a class with attributes
   only inside a container, a white-space-only string all come back *)
Example T_C01_xml_roundtrip_repaired : forall dtoa17 dtoa9 xstrtod xstrtof,
  roundtrip_xml dtoa17 dtoa9 xstrtod xstrtof mkT None (TyVec (TyVec (TyInt I32))) (VArr [VArr [VInt 1]; VArr []]) = Some (Ok (VArr [VArr [VInt 1]; VArr []])) /\
  roundtrip_xml dtoa17 dtoa9 xstrtod xstrtof mkT None (TyVec ty_attronly) (VArr [VObj [([120], VInt 1); ([116; 121; 112; 101], VStr [82])]]) =
    Some (Ok (VArr [VObj [([120], VInt 1); ([116; 121; 112; 101], VStr [82])]])) /\
  roundtrip_xml dtoa17 dtoa9 xstrtod xstrtof mkT None (TyVec TyStr) (VArr [VStr [32]; VStr [97]; VStr []]) = Some (Ok (VArr [VStr [32]; VStr [97]; VStr []])).
Proof. exact xml_roundtrip_repaired. Qed.
Print Assumptions T_C01_xml_roundtrip_repaired.

(* a value outside those classes: nested containers, attributes (markup characters, a line feed), a named root *)
Example T_C01_xml_roundtrip_example : forall dtoa17 dtoa9 xstrtod xstrtof,
  roundtrip_xml dtoa17 dtoa9 xstrtod xstrtof mkT (Some [83]) (TyMap (TyVec ty_attr))
    (VObj [([107], VArr [VObj [([97], VInt (-5)); ([115], VStr [60; 34; 10]); ([98], VBool true); ([117], VInt 18446744073709551615); ([118], VInt 7); ([116], VStr [120; 32])]])]) =
  Some (Ok (VObj [([107], VArr [VObj [([97], VInt (-5)); ([115], VStr [60; 34; 10]); ([98], VBool true); ([117], VInt 18446744073709551615); ([118], VInt 7); ([116], VStr [120; 32])]])])).
Proof. exact xml_roundtrip_example. Qed.
Print Assumptions T_C01_xml_roundtrip_example.

(* outside an exact, decidable defect class the XML round trip is the identity: for every well-formed type of the universe
   (vectors, maps, classes with element and attribute members, optionals / smart pointers; attributes hold fundamental
   values or strings: ty_wfx), every well-typed value without a non-finite double, both policies, with or without a
   root key.  The class (xml_defect, a boolean function of type and value):
     J41   a string written as character data contains a carriage return,
     F29n  an empty optional / unique_ptr / shared_ptr of a vector, map or class,
     F53   an optional / smart pointer holding the empty string.
   H_dtoa is the tested, unproved assumption about pugixml's / libstdc++'s double <-> text conversion. *)
Theorem T_C01_xml_roundtrip_adapter_outside : forall dtoa17 dtoa9 xstrtod xstrtof o,
  (forall b, is_nonfinite b = false ->
     xstrtod (dtoa17 b) = Some (Some b) /\ skip_blanks (dtoa17 b) = dtoa17 b /\ has_cr (dtoa17 b) = false /\ dtoa17 b <> []) ->
  forall key t v, ty_wf t = true -> ty_wfx t = true -> has_type t v = true ->
  xml_defect t v = false -> val_nonfinite v = false ->
  forall r, roundtrip_xml dtoa17 dtoa9 xstrtod xstrtof o key t v = Some r -> r = Ok v.
Proof. exact xml_roundtrip_outside. Qed.
Print Assumptions T_C01_xml_roundtrip_adapter_outside.

(* when the premise holds: the model's XML save is defined for every well-typed value of a sequence, map or class at the
   root whose attribute members (at any depth) hold scalars (xml_root_ty = is_container && xml_ty); for anything else at
   the root (a scalar, an optional) there is no save: the XML root scope serialises arrays and objects only *)
Theorem T_C01_xml_roundtrip_defined : forall dtoa17 dtoa9,
  (forall xstrtod xstrtof o key t v, xml_root_ty t = true -> has_type t v = true ->
     exists r, roundtrip_xml dtoa17 dtoa9 xstrtod xstrtof o key t v = Some r) /\
  (forall key t v, is_container t = false -> save_xml dtoa17 dtoa9 key t v = None).
Proof. intros dtoa17 dtoa9. split; [exact (roundtrip_xml_defined dtoa17 dtoa9) | exact (save_xml_scalar_root dtoa17 dtoa9)]. Qed.
Print Assumptions T_C01_xml_roundtrip_defined.

(* the round trip without the premise (ty_wfx implies xml_ty) *)
Theorem T_C01_xml_roundtrip_total : forall dtoa17 dtoa9 xstrtod xstrtof o,
  (forall b, is_nonfinite b = false ->
     xstrtod (dtoa17 b) = Some (Some b) /\ skip_blanks (dtoa17 b) = dtoa17 b /\ has_cr (dtoa17 b) = false /\ dtoa17 b <> []) ->
  forall key t v, is_container t = true -> ty_wf t = true -> ty_wfx t = true -> has_type t v = true ->
  xml_defect t v = false -> val_nonfinite v = false ->
  roundtrip_xml dtoa17 dtoa9 xstrtod xstrtof o key t v = Some (Ok v).
Proof. exact xml_roundtrip_total. Qed.
Print Assumptions T_C01_xml_roundtrip_total.

(* inside the class: one witness per clause (the value that comes back is shown) *)
Theorem T_C01_xml_roundtrip_defect_witnesses : forall dtoa17 dtoa9 xstrtod xstrtof,
  (xml_defect (TyVec TyStr) (VArr [VStr [97; 13; 98]]) = true /\
   roundtrip_xml dtoa17 dtoa9 xstrtod xstrtof mkT None (TyVec TyStr) (VArr [VStr [97; 13; 98]]) = Some (Ok (VArr [VStr [97; 10; 98]]))) /\
  (xml_defect (TyVec (TyOpt (TyVec (TyInt I32)))) (VArr [VOpt None]) = true /\
   roundtrip_xml dtoa17 dtoa9 xstrtod xstrtof mkT None (TyVec (TyOpt (TyVec (TyInt I32)))) (VArr [VOpt None]) = Some (Ok (VArr [VOpt (Some (VArr []))]))) /\
  (xml_defect (TyVec (TyOpt ty_inner)) (VArr [VOpt None]) = true /\
   roundtrip_xml dtoa17 dtoa9 xstrtod xstrtof mkT None (TyVec (TyOpt ty_inner)) (VArr [VOpt None]) =
     Some (Ok (VArr [VOpt (Some (VObj [([120], VInt 0); ([110; 97; 109; 101], VStr [])]))]))) /\
  (xml_defect (TyVec (TyOpt TyStr)) (VArr [VOpt (Some (VStr []))]) = true /\
   roundtrip_xml dtoa17 dtoa9 xstrtod xstrtof mkT None (TyVec (TyOpt TyStr)) (VArr [VOpt (Some (VStr []))]) = Some (Ok (VArr [VOpt None]))).
Proof. exact xml_defect_witnesses. Qed.
Print Assumptions T_C01_xml_roundtrip_defect_witnesses.

Example T_C01_xml_roundtrip_optionals : forall dtoa17 dtoa9 xstrtod xstrtof,
  roundtrip_xml dtoa17 dtoa9 xstrtod xstrtof mkT None (TyVec (TyOpt TyStr)) (VArr [VOpt None; VOpt (Some (VStr [32])); VOpt (Some (VStr [97]))]) =
    Some (Ok (VArr [VOpt None; VOpt (Some (VStr [32])); VOpt (Some (VStr [97]))])) /\
  roundtrip_xml dtoa17 dtoa9 xstrtod xstrtof mkT None (TyMap (TyOpt (TyVec (TyInt I32)))) (VObj [([97], VOpt (Some (VArr []))); ([98], VOpt (Some (VArr [VInt 5])))]) =
    Some (Ok (VObj [([97], VOpt (Some (VArr []))); ([98], VOpt (Some (VArr [VInt 5])))])).
Proof. exact xml_roundtrip_optionals. Qed.
Print Assumptions T_C01_xml_roundtrip_optionals.
