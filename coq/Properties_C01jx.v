(* Properties_C01jx.v — the JSON/XML half of C01 (save then load reproduces the value), to be merged into
   Properties_C01.v by the coordinator.  Statements only.  Level: PARTIAL — the theorems are about the adapter
   model (JxModel.v) at the DOM level; RapidJSON / pugixml (DOM <-> text) enter as the tested, unproved assumption
   that a DOM the writer accepts is reproduced by write + parse (H_rj; see props/C08.py: it is FALSE on the current
   tree for doubles — finding F40 — and for non-UTF-8 streams — finding F27).

   NOT PROVED: T_C01_xml_roundtrip_adapter_outside (the XML model's round trip outside its defect classes): only the
   refutations are proved for XML; the load-save-load fixed point; the stream / encoding axis (observed only). *)
From BS Require Import Base UtfSpec JxJsonSpec JxXmlSpec JxModel JxProofs.
Local Open Scope N_scope.

(* full strength: for every well-typed value of every well-formed type, saving and loading into a fresh target gives
   the value back.  The model of the current code falsifies it in three ways: a root-level uint32_t above INT32_MAX
   (F28: Overflow on load), a NaN inside an array (F26: the truncated text does not parse), a map key with an embedded
   U+0000 (F42: truncated key, value lost) *)
Theorem T_C01_json_roundtrip_adapter_refuted : forall i2d,
  (exists t v, ty_wf t = true /\ has_type t v = true /\ roundtrip_json i2d mkT t v = Some (Err EOverflow)) /\
  (exists t v, ty_wf t = true /\ has_type t v = true /\ roundtrip_json i2d mkT t v = Some (Err EParse)) /\
  (exists t v v', ty_wf t = true /\ has_type t v = true /\ roundtrip_json i2d mkT t v = Some (Ok v') /\ v' <> v).
Proof. exact json_roundtrip_refuted. Qed.
Print Assumptions T_C01_json_roundtrip_adapter_refuted.

(* outside these three classes the round trip is exact: every type of the universe (any nesting of vectors, maps,
   classes with distinct member names), every well-typed value, both policies *)
Theorem T_C01_json_roundtrip_adapter_outside : forall i2d o t v,
  ty_wf t = true -> has_type t v = true -> json_defect t v = false ->
  forall r, roundtrip_json i2d o t v = Some r -> r = Ok v.
Proof. exact json_roundtrip_outside. Qed.
Print Assumptions T_C01_json_roundtrip_adapter_outside.

Example T_C01_json_roundtrip_example : forall i2d,
  roundtrip_json i2d mkT (TyMap (TyVec (TyInt I64))) (VObj [([97], VArr [VInt (-9223372036854775808); VInt 7]); ([98; 233], VArr [])]) =
  Some (Ok (VObj [([97], VArr [VInt (-9223372036854775808); VInt 7]); ([98; 233], VArr [])])).
Proof. exact json_roundtrip_mix_example. Qed.
Print Assumptions T_C01_json_roundtrip_example.
