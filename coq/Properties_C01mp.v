(* Properties_C01mp.v — the MsgPack half of C01 at the typed level: a value tree saved through the
   archive loads back to the same tree.  Statements only.

   tv / save / abs / wf_tv: the typed save model (MpSaveModel.v; save_decodes: MpSave.v).
   shape, has_shape, load_spec / load_tr / load_toks, load_bytes, elem_prog / member_prog / class_prog /
   vec_prog, read_off: MpLoadModel.v — the generic serialization layer driving the read scopes for a
   target of a static shape (scalars, string, byte container, sequence containers, classes with string-named
   members loaded in declaration order, std::map<K, V> with K = std::string or an integer type: SMap ks e,
   std::array<T, N> / T[N]: SArr n e, std::vector<bool>: SVecBool, std::tuple<T...>: STuple ss; std::pair is the
   class with the members "key" and "value").
   has_shape (TObj kvs) (SMap ks e): the keys are of the key type ks and STRICTLY INCREASING (std::less<K>:
   integers by value, strings bytewise as unsigned char, a proper prefix first) — a std::map value.
   map_free s: the shape has no std::map.
   load_tr s v = (the scopes' answers as tokens, the loaded value)
   at the association-list level; elem_prog / member_prog = the request program issued on that document;
   spec_reqs / spec_areqs: the association-list semantics of request programs (MpScopeSpec.v);
   run_obj_root / run_arr_root / load_obj / load_arr: the scope MODEL on the bytes (MpScopeModel.v).
   doc_ok (abs v): the keys of every class in v are pairwise different (key_eq; for string names: different
   byte strings) — "keys_ok".  bytes b: all < 256.  narrow / widen: the C++ float conversions (any).
   NOT covered (see the end): MapLoadMode other than Clean, key conversions between text and number. *)
From BS Require Import Base MpSpec MpModel MpLemmas MpReader MpTyped MpSaveModel MpSave
  MpScopeSpec MpScopeModel MpScopeLemmas MpScopeTyped MpScopeProofs MpScopeRefine MpLoadModel MpLoadProofs.
Local Open Scope N_scope.

(* ---- save then load ---- *)
(* load = reference decoder, then load_spec: for every value tree of the target's shape, whatever the
   policies, the bytes SaveObject produces load back to exactly that tree.  This covers classes (TObj with string
   names against SClass), std::map<std::string, ...> and std::map<integer type, ...> (TObj with TStr / TInt keys
   against SMap) at any depth.  Key conditions, all inside the hypotheses: has_shape gives keys of the map's key
   type in strictly increasing order (hence pairwise different), wf_tv gives integer keys in the range of their
   type, doc_ok (abs v) gives pairwise different member names in every class *)
Theorem T_C01_mp_load_save : forall narrow widen o v s b,
  has_shape v s = true -> wf_tv v -> doc_ok (abs v) = true -> save v = Some b ->
  load_bytes narrow widen o s b = LOk v.
Proof. exact load_save. Qed.
Print Assumptions T_C01_mp_load_save.

(* the same with the shape computed from the value (has_shape v (shape_of v) says: arrays are homogeneous,
   class member names are strings) *)
Theorem T_C01_mp_load_save_shape_of : forall narrow widen o v b,
  has_shape v (shape_of v) = true -> wf_tv v -> doc_ok (abs v) = true -> save v = Some b ->
  load_bytes narrow widen o (shape_of v) b = LOk v.
Proof. exact (fun narrow widen o v => load_save narrow widen o v (shape_of v)). Qed.
Print Assumptions T_C01_mp_load_save_shape_of.

(* at the association-list level, with the answers consumed *)
Theorem T_C01_mp_load_save_spec : forall narrow widen o v s,
  has_shape v s = true -> wf_tv v -> doc_ok (abs v) = true ->
  exists toks, load_tr narrow widen o s (abs v) = (toks, LOk v).
Proof. exact load_save_spec. Qed.
Print Assumptions T_C01_mp_load_save_spec.

(* ---- the link to the scopes: programs, answers, read-off ---- *)
(* the association-list SPEC evaluates the program issued for an element of shape s on the document value
   v to exactly the tokens load_tr consumes (error-free loads; an element is consumed) ... *)
Theorem T_C01_mp_elem_program : forall narrow widen o s v vs toks r,
  (map_free s = true \/ doc_ok v = true) ->
  load_tr narrow widen o s v = (toks, r) -> no_err r ->
  exists c, spec_areqs narrow widen o (v :: vs) (mk_areqs (elem_prog o s v)) = ((toks, None, c), vs).
Proof. exact (fun narrow widen o s => proj1 (progs_ok narrow widen o s)). Qed.
Print Assumptions T_C01_mp_elem_program.

(* ... and the program issued for a class member named q (present or absent in the document) *)
Theorem T_C01_mp_member_program : forall narrow widen o s q kvs toks r,
  (forall x, lookup (key_of_q q) kvs = Some x -> map_free s = true \/ doc_ok x = true) ->
  member_tr narrow widen o s (lookup (key_of_q q) kvs) = (toks, r) -> no_err r ->
  exists c, spec_reqs narrow widen o kvs (mk_reqs (member_prog o s q (lookup (key_of_q q) kvs))) = (toks, None, c).
Proof. exact (fun narrow widen o s => proj1 (proj2 (progs_ok narrow widen o s))). Qed.
Print Assumptions T_C01_mp_member_program.

(* ... and the keyed load SerializeMapImpl makes from inside the VisitKeys callback for a mapped value of shape s,
   under a key q that finds x *)
Theorem T_C01_mp_mapped_program : forall narrow widen o s q kvs x toks r,
  lookup (key_of_q q) kvs = Some x -> (map_free s = true \/ doc_ok x = true) ->
  load_tr narrow widen o s x = (toks, r) -> no_err r ->
  exists c, spec_vact narrow widen o kvs q (vact_prog o s x) = (toks, None, c).
Proof. exact (fun narrow widen o s => proj2 (proj2 (progs_ok narrow widen o s))). Qed.
Print Assumptions T_C01_mp_mapped_program.

(* the whole callback sequence of a std::map on a well-formed object document: key conversion, keys that do not
   fit passed over (Skip policy), one keyed load per remaining member in document order *)
Theorem T_C01_mp_map_program : forall narrow widen o ks e kvs toks es,
  doc_ok (MMap kvs) = true ->
  entries_tr o ks e (load_tr narrow widen o e) kvs = (toks, es, None) ->
  exists c, spec_vacts narrow widen o kvs kvs (mk_vacts (map_acts o ks (vact_prog o e) kvs)) = (toks, None, c).
Proof.
  intros narrow widen o ks e kvs toks es Hok H.
  exact (entries_loop narrow widen o ks e kvs (proj2 (proj2 (progs_ok narrow widen o e))) Hok kvs [] eq_refl toks es H).
Qed.
Print Assumptions T_C01_mp_map_program.

(* the loaded value is determined by those tokens alone: read_off re-reads it (shapes without std::map: the keys
   a map is built from are handed to the callback, they are not among the tokens) *)
Theorem T_C01_mp_read_off : forall narrow widen o s v,
  map_free s = true -> no_err (load_spec narrow widen o s v) ->
  read_off s (load_toks narrow widen o s v) = Some (load_spec narrow widen o s v, []).
Proof. exact read_off_load. Qed.
Print Assumptions T_C01_mp_read_off.

(* ---- transport to the scope model on the bytes (through T_C03_mp_refines) ---- *)
(* any well-formed object document, any class shape, error-free load: the scope MODEL run on the bytes
   with the class's request program answers exactly load_tr's tokens, ends right behind the document,
   no scope failed to close (flag clear), Finalize() passes *)
Theorem T_C01_mp_load_class_on_model : forall narrow widen o data kvs rest ms toks r,
  bytes data -> decode data = Some (MMap kvs, rest) -> doc_ok (MMap kvs) = true ->
  load_tr narrow widen o (SClass ms) (MMap kvs) = (toks, r) -> no_err r ->
  run_obj_root narrow widen o data (class_prog o ms kvs) = Done toks rest false /\
  load_obj narrow widen o data (class_prog o ms kvs) = MpScopeModel.LOk toks rest.
Proof. exact load_class_on_model. Qed.
Print Assumptions T_C01_mp_load_class_on_model.

Theorem T_C01_mp_load_vec_on_model : forall narrow widen o data vs rest e toks r,
  bytes data -> decode data = Some (MArr vs, rest) -> doc_ok (MArr vs) = true ->
  load_tr narrow widen o (SVec e) (MArr vs) = (toks, r) -> no_err r ->
  run_arr_root narrow widen o data (vec_prog o e vs) = Done toks rest false /\
  load_arr narrow widen o data (vec_prog o e vs) = MpScopeModel.LOk toks rest.
Proof. exact load_vec_on_model. Qed.
Print Assumptions T_C01_mp_load_vec_on_model.

(* a fixed-size array (std::array<e, n>, e[n]) at the root: an error-free load — the document has exactly n
   elements — issues the program of a sequence container and consumes the same answers; any other count ends in
   OutOfRange (load_tr; see T_C01_mp_fixed_example) *)
Theorem T_C01_mp_load_fixed_on_model : forall narrow widen o data vs rest n e toks r,
  bytes data -> decode data = Some (MArr vs, rest) -> doc_ok (MArr vs) = true ->
  load_tr narrow widen o (SArr n e) (MArr vs) = (toks, r) -> no_err r ->
  run_arr_root narrow widen o data (vec_prog o e vs) = Done toks rest false /\
  load_arr narrow widen o data (vec_prog o e vs) = MpScopeModel.LOk toks rest.
Proof. exact load_fixed_on_model. Qed.
Print Assumptions T_C01_mp_load_fixed_on_model.

(* a std::tuple at the root (loader of 9e55af6): IsEnd() and one load per component while the array has elements; a
   shorter document array (Skip policy) leaves the remaining components as they are; the end check; elements left over
   are passed by the scope's destructor.  An error raised inside a component propagates (M02, fixed) *)
Theorem T_C01_mp_load_tuple_on_model : forall narrow widen o data vs rest ss toks r,
  bytes data -> decode data = Some (MArr vs, rest) -> doc_ok (MArr vs) = true ->
  load_tr narrow widen o (STuple ss) (MArr vs) = (toks, r) -> no_err r ->
  run_arr_root narrow widen o data (tuple_prog o ss vs) = Done toks rest false /\
  load_arr narrow widen o data (tuple_prog o ss vs) = MpScopeModel.LOk toks rest.
Proof. exact load_tuple_on_model. Qed.
Print Assumptions T_C01_mp_load_tuple_on_model.

(* std::vector<bool> at the root: the program and the answers of a sequence container of bool (the loaded value
   differs: an element that does not load repeats the previous one) *)
Theorem T_C01_mp_load_vector_bool_on_model : forall narrow widen o data vs rest toks r,
  bytes data -> decode data = Some (MArr vs, rest) -> doc_ok (MArr vs) = true ->
  load_tr narrow widen o SVecBool (MArr vs) = (toks, r) -> no_err r ->
  run_arr_root narrow widen o data (mk_areqs (vec_body bool_prog vs)) = Done toks rest false /\
  load_arr narrow widen o data (mk_areqs (vec_body bool_prog vs)) = MpScopeModel.LOk toks rest.
Proof. exact load_vb_on_model. Qed.
Print Assumptions T_C01_mp_load_vector_bool_on_model.

(* a std::map at the root: the program is VisitKeys with one keyed load per member from inside the callback *)
Theorem T_C01_mp_load_map_on_model : forall narrow widen o data kvs rest ks e toks r,
  bytes data -> decode data = Some (MMap kvs, rest) -> doc_ok (MMap kvs) = true ->
  load_tr narrow widen o (SMap ks e) (MMap kvs) = (toks, r) -> no_err r ->
  run_obj_root narrow widen o data (map_prog o ks e kvs) = Done toks rest false /\
  load_obj narrow widen o data (map_prog o ks e kvs) = MpScopeModel.LOk toks rest.
Proof. exact load_map_on_model. Qed.
Print Assumptions T_C01_mp_load_map_on_model.

(* save then load, scope-model form: the history run on the saved bytes b with the MODEL gives the tokens from
   which the saved tree is read off, ends at the end of b, close flag clear *)
Theorem T_C01_mp_load_save_on_model : forall narrow widen o kvs ms b,
  has_shape (TObj kvs) (SClass ms) = true -> wf_tv (TObj kvs) -> doc_ok (abs (TObj kvs)) = true ->
  save (TObj kvs) = Some b -> bytes b ->
  exists toks, load_tr narrow widen o (SClass ms) (abs (TObj kvs)) = (toks, LOk (TObj kvs)) /\
    run_obj_root narrow widen o b (class_prog o ms (map absp kvs)) = Done toks [] false /\
    load_obj narrow widen o b (class_prog o ms (map absp kvs)) = MpScopeModel.LOk toks [].
Proof. exact load_save_class_on_model. Qed.
Print Assumptions T_C01_mp_load_save_on_model.

Theorem T_C01_mp_load_save_map_on_model : forall narrow widen o kvs ks e b,
  has_shape (TObj kvs) (SMap ks e) = true -> wf_tv (TObj kvs) -> doc_ok (abs (TObj kvs)) = true ->
  save (TObj kvs) = Some b -> bytes b ->
  exists toks, load_tr narrow widen o (SMap ks e) (abs (TObj kvs)) = (toks, LOk (TObj kvs)) /\
    run_obj_root narrow widen o b (map_prog o ks e (map absp kvs)) = Done toks [] false /\
    load_obj narrow widen o b (map_prog o ks e (map absp kvs)) = MpScopeModel.LOk toks [].
Proof. exact load_save_map_on_model. Qed.
Print Assumptions T_C01_mp_load_save_map_on_model.

Theorem T_C01_mp_load_save_vec_on_model : forall narrow widen o l e b,
  has_shape (TArr l) (SVec e) = true -> wf_tv (TArr l) -> doc_ok (abs (TArr l)) = true ->
  save (TArr l) = Some b -> bytes b ->
  exists toks, load_tr narrow widen o (SVec e) (abs (TArr l)) = (toks, LOk (TArr l)) /\
    run_arr_root narrow widen o b (vec_prog o e (map abs l)) = Done toks [] false /\
    load_arr narrow widen o b (vec_prog o e (map abs l)) = MpScopeModel.LOk toks [].
Proof. exact load_save_vec_on_model. Qed.
Print Assumptions T_C01_mp_load_save_vec_on_model.

(* ---- members the class does not declare; order of the members ---- *)
(* the result depends on the document only through what is stored under the declared member names *)
Theorem T_C01_mp_load_class_ext : forall narrow widen o kvs kvs' ms,
  (forall name s', In (name, s') ms -> lookup (KStr name) kvs = lookup (KStr name) kvs') ->
  load_tr narrow widen o (SClass ms) (MMap kvs) = load_tr narrow widen o (SClass ms) (MMap kvs').
Proof. exact load_class_ext. Qed.
Print Assumptions T_C01_mp_load_class_ext.

(* extra members (anywhere in the document) under names the class does not declare change nothing *)
Theorem T_C01_mp_load_ignores_extra : forall narrow widen o ms pre extra post,
  (forall name s', In (name, s') ms -> lookup (KStr name) extra = None) ->
  load_tr narrow widen o (SClass ms) (MMap (pre ++ extra ++ post)) = load_tr narrow widen o (SClass ms) (MMap (pre ++ post)).
Proof. exact load_ignores_extra. Qed.
Print Assumptions T_C01_mp_load_ignores_extra.

(* two well-formed documents with the same members in any order load to the same value (tokens included) *)
Theorem T_C01_mp_load_order_free : forall narrow widen o ms kvs kvs',
  doc_ok (MMap kvs) = true -> doc_ok (MMap kvs') = true -> (forall kv, In kv kvs <-> In kv kvs') ->
  load_tr narrow widen o (SClass ms) (MMap kvs) = load_tr narrow widen o (SClass ms) (MMap kvs').
Proof. exact load_order_free. Qed.
Print Assumptions T_C01_mp_load_order_free.

(* ---- non-vacuity: class { id:int32; t:vector<string>; p:vector<class{n:uint8; r:bytes}>; g:vector<vector<int16>>; z:nullptr } ---- *)
Example T_C01_mp_example :
  has_shape ex_tree ex_shape = true /\ wf_tv ex_tree /\ doc_ok (abs ex_tree) = true /\ save ex_tree = Some ex_bytes /\
  bytes ex_bytes /\ load_bytes no_narrow id_widen skip_all ex_shape ex_bytes = LOk ex_tree.
Proof. exact (conj ex_tree_shape (conj ex_tree_wf (conj ex_tree_keys (conj ex_tree_save (conj ex_tree_bytes ex_tree_loads))))). Qed.
Print Assumptions T_C01_mp_example.

(* members in another order, some missing (they keep their value-initialised value), undeclared ones present *)
Example T_C01_mp_example_other_document :
  load_bytes no_narrow id_widen skip_all ex_shape ex_bytes2 =
  LOk (TObj [(TStr [0x69; 0x64], TInt IS32 5); (TStr [0x74], TArr []); (TStr [0x70], TArr []); (TStr [0x67], TArr []); (TStr [0x7A], TNil)]).
Proof. exact ex_tree_loads2. Qed.
Print Assumptions T_C01_mp_example_other_document.

(* ---- std::map: class { m : map<int8_t, vector<string>>; n : map<string, int32_t> } ---- *)
Example T_C01_mp_map_example :
  has_shape ex_map_tree ex_map_shape = true /\ wf_tv ex_map_tree /\ doc_ok (abs ex_map_tree) = true /\
  save ex_map_tree = Some ex_map_bytes /\ load_bytes no_narrow id_widen skip_all ex_map_shape ex_map_bytes = LOk ex_map_tree.
Proof. exact (conj ex_map_shape_ok (conj ex_map_wf (conj ex_map_keys (conj ex_map_save ex_map_loads)))). Qed.
Print Assumptions T_C01_mp_map_example.

(* { "n": {"ab":3, "":1}, "m": {5:[], 300:["x"], -3:["a"]} }: keys in another order are sorted by the maps; 300 does
   not fit int8_t: passed over under Skip, Overflow under Throw *)
Example T_C01_mp_map_example_other_document :
  load_bytes no_narrow id_widen skip_all ex_map_shape ex_map_bytes2 =
    LOk (TObj [(TStr [0x6D], TObj [(TInt IS8 (-3), TArr [TStr [0x61]]); (TInt IS8 5, TArr [])]);
               (TStr [0x6E], TObj [(TStr [], TInt IS32 1); (TStr [0x61; 0x62], TInt IS32 3)])]) /\
  load_bytes no_narrow id_widen (mkOpts PThrow PThrow) ex_map_shape ex_map_bytes2 = LErr (SE EOverflow).
Proof. exact ex_map_loads2. Qed.
Print Assumptions T_C01_mp_map_example_other_document.

(* ---- fixed-size array and vector<bool>: class { a : std::array<int16_t, 3>; b : std::vector<bool> } ---- *)
(* { "a": [1, "x", 3], "b": [true, "x", false, nil] } under Skip: the array element that does not load keeps its
   value, the vector<bool> element that does not load REPEATS THE PREVIOUS ONE ([true, true, false, false]);
   { "a": [1, 2] }: OutOfRange, whatever the policy *)
Example T_C01_mp_fixed_example :
  load_bytes no_narrow id_widen skip_all ex_fix_shape ex_fix_bytes =
    LOk (TObj [(TStr [0x61], TArr [TInt IS16 1; TInt IS16 0; TInt IS16 3]); (TStr [0x62], TArr [TBool true; TBool true; TBool false; TBool false])]) /\
  load_bytes no_narrow id_widen skip_all ex_fix_shape ex_fix_bytes2 = LErr SERange.
Proof. exact ex_fix_loads. Qed.
Print Assumptions T_C01_mp_fixed_example.

(* ---- std::tuple<int32_t, std::string, std::array<uint8_t, 2>> ---- *)
Example T_C01_mp_tuple_example :
  (exists b, save ex_tup_tree = Some b /\ load_bytes no_narrow id_widen skip_all ex_tup_shape b = LOk ex_tup_tree) /\
  load_bytes no_narrow id_widen skip_all ex_tup_shape [0x91; 0x07] = LOk (TArr [TInt IS32 7; TStr []; TArr [TInt IU8 0; TInt IU8 0]]) /\
  load_bytes no_narrow id_widen (mkOpts PThrow PThrow) ex_tup_shape [0x91; 0x07] = LErr (SE EMismatch) /\
  load_bytes no_narrow id_widen skip_all ex_tup_shape [0x94; 0x07; 0xA1; 0x61; 0x92; 0x01; 0x02; 0x09] =
    LOk (TArr [TInt IS32 7; TStr [0x61]; TArr [TInt IU8 1; TInt IU8 2]]) /\
  load_bytes no_narrow id_widen (mkOpts PThrow PThrow) ex_tup_shape [0x94; 0x07; 0xA1; 0x61; 0x92; 0x01; 0x02; 0x09] = LErr (SE EMismatch) /\
  load_bytes no_narrow id_widen skip_all ex_tup_shape [0x93; 0x07; 0xA1; 0x61; 0x91; 0x01] = LErr SERange.
Proof. exact (conj ex_tup_roundtrip ex_tup_loads). Qed.
Print Assumptions T_C01_mp_tuple_example.

(* NOT PROVED / NOT MODELLED:
   - std::map: MapLoadMode::OnlyExistKeys / UpdateKeys (load_tr has no initial target content; into a
     value-initialised map UpdateKeys = Clean and OnlyExistKeys loads nothing); archive keys of another class
     than the map's key type (text <-> number conversions, float / double / timestamp keys) and archive keys that
     convert to the same K (the load into the element try_emplace found): load_tr is total but claims nothing
     there, `modelled` (MpLoadModel.v) delimits it and the correspondence check skips those documents;
     read_off for maps (the keys are not among the tokens); std::unordered_map (iteration order), multimap;
   - enums, validation;
   - loads that end in an exception: load_tr carries the policies and the error, but the program / transport
     theorems assume an error-free load (as T_C03_mp_refines does);
   - a scalar / string / byte container at the ROOT of the document on the scope model (the root scope's own
     SerializeValue is one typed read: T_C03_typed_read; not restated here);
   - the program elem_prog / member_prog itself is hand-written from serialization_base_types.h and
     generic_container.h and depends on the document (loop while !IsEnd(), child programs only when the
     scope was opened, binary -> array fallback): its tie to /repo is the correspondence of C01mp
     (drv_mpload: LoadObject through the public API against load_bytes). *)
