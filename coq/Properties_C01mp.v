(* Properties_C01mp.v — the MsgPack half of C01 at the typed level: a value tree saved through the
   archive loads back to the same tree, into a target that holds anything; and loading into a populated
   target (C18) at the MsgPack document level.  Statements only.

   tv / save / abs / wf_tv: the typed save model (MpSaveModel.v; save_decodes: MpSave.v).
   shape, has_shape, load_spec / load_tr / load_toks, load_bytes / load_bytes_into, elem_prog / member_prog /
   vact_prog / class_prog / map_prog / vec_prog / tuple_prog, read_off: MpLoadModel.v — the generic serialization
   layer driving the read scopes for a target of a static shape (scalars, string, byte container, sequence
   containers, classes with string-named members loaded in declaration order, std::map<K, V> with K = std::string
   or an integer type loaded in mode m: SMap m ks e, std::array<T, N> / T[N]: SArr n e, std::vector<bool>: SVecBool,
   std::tuple<T...>: STuple ss; std::optional<T> / std::unique_ptr<T> / std::shared_ptr<T>: SOpt e (content TNil =
   empty; ownership is not modelled); std::multimap<K, V>: SMMap ks e (content = what is saved: the array of
   { "key", "value" } objects, ordered by key, equal keys in saved order); std::set<K> / std::multiset<K>: SSet multi ks
   (content = the ordered array of the elements); std::pair is the class with the members "key" and "value").
   THE TARGET HOLDS A CONTENT i WHEN THE LOAD STARTS: load_tr s i v = (the scopes' answers as tokens, the result:
   LOk x = loaded, the target holds x; LNot = not loaded, the target still holds i; LReset x = Serialize returned
   false but the target now holds x (a wrapper that was reset to empty); LErr = exception; keep i r = what the target
   holds afterwards) at the
   association-list level; load_bytes_into s i b = reference decoder, then that; load_bytes = into default_of s.
   mmode = MapLoadMode: MClean | MOnlyExist | MUpdate.
   has_shape (TObj kvs) (SMap m ks e): the keys are of the key type ks and STRICTLY INCREASING (std::less<K>:
   integers by value, strings bytewise as unsigned char, a proper prefix first) — a std::map value.
   map_free s: the shape has no std::map.  clean_maps s: every std::map of the shape is loaded with Clean.
   overwritten s: the target keeps nothing of its content when loaded (no class, fixed-size array, tuple, no map in
   another mode than Clean inside).
   elem_prog / member_prog / vact_prog = the request program issued on that document for a target holding i;
   spec_reqs / spec_areqs / spec_vact(s): the association-list semantics of request programs (MpScopeSpec.v);
   run_obj_root / run_arr_root / load_obj / load_arr: the scope MODEL on the bytes (MpScopeModel.v).
   doc_ok (abs v): the keys of every class in v are pairwise different (key_eq; for string names: different
   byte strings) — "keys_ok".  bytes b: all < 256; wf_bytes v: the strings and byte containers of the value tree
   v hold bytes (MpLoadBytes.v).  narrow / widen: the C++ float conversions (any). *)
From BS Require Import Base MpSpec MpModel MpLemmas MpReader MpTyped MpSaveModel MpSave
  MpScopeSpec MpScopeModel MpScopeLemmas MpScopeTyped MpScopeProofs MpScopeRefine MpLoadModel MpLoadBytes MpLoadProofs.
Local Open Scope N_scope.

(* ---- save then load ---- *)
(* for every value tree of the target's shape, whatever the policies AND WHATEVER THE TARGET HOLDS, the bytes
   SaveObject produces load back to exactly that tree (std::map targets loaded with Clean): afterwards the target
   holds the saved value, and no exception was raised.  This covers classes, std::map<std::string, ...> /
   std::map<integer type, ...>, fixed-size arrays, tuples, vector<bool>, optional / unique_ptr / shared_ptr (empty or
   not) at any depth.  Key conditions, all inside the hypotheses: has_shape gives keys of the map's key type in strictly
   increasing order (hence pairwise different) and wrapped values that are never nil themselves, wf_tv gives integer
   keys in the range of their type, doc_ok (abs v) gives pairwise different member names in every class *)
Theorem T_C01_mp_load_save_holds : forall narrow widen o v s i b,
  has_shape v s = true -> clean_maps s = true -> wf_tv v -> doc_ok (abs v) = true -> save v = Some b ->
  keep i (load_bytes_into narrow widen o s i b) = v /\ no_err (load_bytes_into narrow widen o s i b).
Proof. exact load_save_holds. Qed.
Print Assumptions T_C01_mp_load_save_holds.

(* the result itself: LOk v — except for an EMPTY wrapper at the root, saved as nil, which is reset to empty
   (Serialize returns false) *)
Theorem T_C01_mp_load_save_into : forall narrow widen o v s i b,
  not_opt s -> has_shape v s = true -> clean_maps s = true -> wf_tv v -> doc_ok (abs v) = true -> save v = Some b ->
  load_bytes_into narrow widen o s i b = LOk v.
Proof. exact load_save_into. Qed.
Print Assumptions T_C01_mp_load_save_into.

(* ... into a value-initialised target (LoadObject into a fresh object) *)
Theorem T_C01_mp_load_save : forall narrow widen o v s b,
  not_opt s -> has_shape v s = true -> clean_maps s = true -> wf_tv v -> doc_ok (abs v) = true -> save v = Some b ->
  load_bytes narrow widen o s b = LOk v.
Proof. exact load_save. Qed.
Print Assumptions T_C01_mp_load_save.

(* the same with the shape computed from the value (has_shape v (shape_of v) says: arrays are homogeneous,
   class member names are strings) *)
Theorem T_C01_mp_load_save_shape_of : forall narrow widen o v b,
  has_shape v (shape_of v) = true -> wf_tv v -> doc_ok (abs v) = true -> save v = Some b ->
  load_bytes narrow widen o (shape_of v) b = LOk v.
Proof.
  intros narrow widen o v b Hs. apply load_save; [|exact Hs | exact (shape_of_clean v)].
  destruct v; exact I.
Qed.
Print Assumptions T_C01_mp_load_save_shape_of.

(* at the association-list level, with the answers consumed *)
Theorem T_C01_mp_load_save_spec : forall narrow widen o v s i,
  has_shape v s = true -> clean_maps s = true -> wf_tv v -> doc_ok (abs v) = true ->
  exists toks r, load_tr narrow widen o s i (abs v) = (toks, r) /\
    (r = LOk v \/ (r = LReset TNil /\ v = TNil /\ is_opt s)).
Proof. exact load_save_spec. Qed.
Print Assumptions T_C01_mp_load_save_spec.

(* ---- loading into a populated target (C18 at the MsgPack document level) ---- *)
(* a target that keeps nothing (values, strings, byte containers, vector<bool>, sequence containers and Clean maps of
   such): whatever it holds, EVERY document is loaded with the same answers and the same result as into a fresh one *)
Theorem T_C18_mp_populated_is_fresh : forall narrow widen o s, overwritten s = true ->
  forall i v, load_tr narrow widen o s i v = load_tr narrow widen o s (default_of s) v.
Proof. intros narrow widen o s H i v. exact (overwritten_indep narrow widen o s H i (default_of s) v). Qed.
Print Assumptions T_C18_mp_populated_is_fresh.

(* MapLoadMode::Clean, whatever the mapped values are (classes included) and whatever the map holds: as into an
   empty map — nothing of the old content survives, neither keys nor mapped values *)
Theorem T_C18_mp_clean_is_fresh : forall narrow widen o ks e i v,
  load_tr narrow widen o (SMap MClean ks e) i v = load_tr narrow widen o (SMap MClean ks e) (TObj []) v.
Proof. intros. reflexivity. Qed.
Print Assumptions T_C18_mp_clean_is_fresh.

(* OnlyExistKeys never adds a key (nor removes one), whatever the document: the keys after the load are the keys before *)
Theorem T_C18_mp_only_exist_keeps_keys : forall narrow widen o ks e m0 v toks x,
  load_tr narrow widen o (SMap MOnlyExist ks e) (TObj m0) v = (toks, LOk x) ->
  exists m', x = TObj m' /\ map fst m' = map fst m0.
Proof. exact only_exist_keeps_keys. Qed.
Print Assumptions T_C18_mp_only_exist_keeps_keys.

(* UpdateKeys (and OnlyExistKeys) never removes a key, whatever the document *)
Theorem T_C18_mp_update_keeps_keys : forall narrow widen o m ks e m0 v toks x, m <> MClean ->
  load_tr narrow widen o (SMap m ks e) (TObj m0) v = (toks, LOk x) ->
  exists m', x = TObj m' /\ forall k, In k (map fst m0) -> In k (map fst m').
Proof. exact update_keeps_keys. Qed.
Print Assumptions T_C18_mp_update_keeps_keys.

(* UpdateKeys into an empty map is Clean *)
Theorem T_C18_mp_update_empty_is_clean : forall narrow widen o ks e i v,
  load_tr narrow widen o (SMap MUpdate ks e) (TObj []) v = load_tr narrow widen o (SMap MClean ks e) i v.
Proof. intros. reflexivity. Qed.
Print Assumptions T_C18_mp_update_empty_is_clean.

(* std::map<string, int32> holding { a:1, c:3 }, document { b:20, c:30 }: Clean { b:20, c:30 }; OnlyExistKeys
   { a:1, c:30 }; UpdateKeys { a:1, b:20, c:30 }.  And what is NOT overwritten (known finding F36 of C18, by design):
   { "a": 5 } into a class { a; b } holding { 1; 2 } gives { 5; 2 } *)
Example T_C18_mp_modes_example :
  load_bytes_into no_narrow id_widen skip_all (pop_map MClean) pop_prior pop_doc = LOk (TObj [(TStr [0x62], TInt IS32 20); (TStr [0x63], TInt IS32 30)]) /\
  load_bytes_into no_narrow id_widen skip_all (pop_map MOnlyExist) pop_prior pop_doc = LOk (TObj [(TStr [0x61], TInt IS32 1); (TStr [0x63], TInt IS32 30)]) /\
  load_bytes_into no_narrow id_widen skip_all (pop_map MUpdate) pop_prior pop_doc =
    LOk (TObj [(TStr [0x61], TInt IS32 1); (TStr [0x62], TInt IS32 20); (TStr [0x63], TInt IS32 30)]).
Proof. exact pop_map_modes. Qed.
Print Assumptions T_C18_mp_modes_example.

Example T_C18_mp_class_keeps_example :
  load_bytes_into no_narrow id_widen skip_all pop_shape (TObj [(TStr [0x61], TInt IS32 1); (TStr [0x62], TInt IS32 2)]) [0x81; 0xA1; 0x61; 0x05] =
    LOk (TObj [(TStr [0x61], TInt IS32 5); (TStr [0x62], TInt IS32 2)]).
Proof. exact pop_class_keeps. Qed.
Print Assumptions T_C18_mp_class_keeps_example.

(* ---- the link to the scopes: programs, answers, read-off ---- *)
(* the association-list SPEC evaluates the program issued for an element of shape s holding i on the document value
   v to exactly the tokens load_tr consumes (error-free loads; an element is consumed) ... *)
Theorem T_C01_mp_elem_program : forall narrow widen o s i v vs toks r,
  (map_free s = true \/ doc_ok v = true) ->
  load_tr narrow widen o s i v = (toks, r) -> no_err r ->
  exists c, spec_areqs narrow widen o (v :: vs) (mk_areqs (elem_prog o s i v)) = ((toks, None, c), vs).
Proof. exact (fun narrow widen o s => proj1 (progs_ok narrow widen o s)). Qed.
Print Assumptions T_C01_mp_elem_program.

(* ... and the program issued for a class member named q (present or absent in the document) *)
Theorem T_C01_mp_member_program : forall narrow widen o s i q kvs toks r,
  (forall x, lookup (key_of_q q) kvs = Some x -> map_free s = true \/ doc_ok x = true) ->
  member_tr narrow widen o s i (lookup (key_of_q q) kvs) = (toks, r) -> no_err r ->
  exists c, spec_reqs narrow widen o kvs (mk_reqs (member_prog o s i q (lookup (key_of_q q) kvs))) = (toks, None, c).
Proof. exact (fun narrow widen o s => proj1 (proj2 (progs_ok narrow widen o s))). Qed.
Print Assumptions T_C01_mp_member_program.

(* ... and the keyed load SerializeMapImpl makes from inside the VisitKeys callback for a mapped value of shape s,
   under a key q that finds x *)
Theorem T_C01_mp_mapped_program : forall narrow widen o s i q kvs x toks r,
  lookup (key_of_q q) kvs = Some x -> (map_free s = true \/ doc_ok x = true) ->
  load_tr narrow widen o s i x = (toks, r) -> no_err r ->
  exists c, spec_vact narrow widen o kvs q (vact_prog o s i x) = (toks, None, c).
Proof. exact (fun narrow widen o s => proj2 (proj2 (progs_ok narrow widen o s))). Qed.
Print Assumptions T_C01_mp_mapped_program.

(* the whole callback sequence of a std::map holding m0 on a well-formed object document, in any mode (only = the
   mode is OnlyExistKeys): key conversion, keys that do not fit passed over (Skip policy), keys the map does not
   have passed over (OnlyExistKeys), one keyed load per remaining member in document order *)
Theorem T_C01_mp_map_program : forall narrow widen o only ks e m0 kvs toks es,
  doc_ok (MMap kvs) = true ->
  entries_tr o only ks e (load_tr narrow widen o e) m0 kvs = (toks, es, None) ->
  exists c, spec_vacts narrow widen o kvs kvs (mk_vacts (map_acts o only ks (default_of e) (vact_prog o e) m0 kvs)) = (toks, None, c).
Proof.
  intros narrow widen o only ks e m0 kvs toks es Hok H.
  exact (entries_loop narrow widen o only ks e m0 kvs (proj2 (proj2 (progs_ok narrow widen o e))) Hok kvs [] eq_refl toks es H).
Qed.
Print Assumptions T_C01_mp_map_program.

(* the loaded value is determined by those tokens and the content of the target alone: read_off re-reads it (shapes
   without std::map: the keys a map is built from are handed to the callback, they are not among the tokens) *)
Theorem T_C01_mp_read_off : forall narrow widen o s i v,
  map_free s = true -> no_err (load_spec narrow widen o s i v) ->
  read_off s i (load_toks narrow widen o s i v) = Some (load_spec narrow widen o s i v, []).
Proof. exact read_off_load. Qed.
Print Assumptions T_C01_mp_read_off.

(* ---- transport to the scope model on the bytes (through T_C03_mp_refines) ---- *)
(* any well-formed object document, any class shape, any content of the target, error-free load: the scope MODEL run
   on the bytes with the class's request program answers exactly load_tr's tokens, ends right behind the document,
   no scope failed to close (flag clear), Finalize() passes *)
Theorem T_C01_mp_load_class_on_model : forall narrow widen o data kvs rest ms i toks r,
  bytes data -> decode data = Some (MMap kvs, rest) -> doc_ok (MMap kvs) = true ->
  load_tr narrow widen o (SClass ms) i (MMap kvs) = (toks, r) -> no_err r ->
  run_obj_root narrow widen o data (class_prog o ms i kvs) = Done toks rest false /\
  load_obj narrow widen o data (class_prog o ms i kvs) = MpScopeModel.LOk toks rest.
Proof. exact load_class_on_model. Qed.
Print Assumptions T_C01_mp_load_class_on_model.

Theorem T_C01_mp_load_vec_on_model : forall narrow widen o data vs rest e i toks r,
  bytes data -> decode data = Some (MArr vs, rest) -> doc_ok (MArr vs) = true ->
  load_tr narrow widen o (SVec e) i (MArr vs) = (toks, r) -> no_err r ->
  run_arr_root narrow widen o data (vec_prog o e i vs) = Done toks rest false /\
  load_arr narrow widen o data (vec_prog o e i vs) = MpScopeModel.LOk toks rest.
Proof. exact load_vec_on_model. Qed.
Print Assumptions T_C01_mp_load_vec_on_model.

(* a fixed-size array (std::array<e, n>, e[n]) at the root: an error-free load — the document has exactly n
   elements — issues the program of a sequence container and consumes the same answers (an element that is not
   loaded keeps its content); any other count ends in OutOfRange (load_tr; see T_C01_mp_fixed_example) *)
Theorem T_C01_mp_load_fixed_on_model : forall narrow widen o data vs rest n e i toks r,
  bytes data -> decode data = Some (MArr vs, rest) -> doc_ok (MArr vs) = true ->
  load_tr narrow widen o (SArr n e) i (MArr vs) = (toks, r) -> no_err r ->
  run_arr_root narrow widen o data (vec_prog o e i vs) = Done toks rest false /\
  load_arr narrow widen o data (vec_prog o e i vs) = MpScopeModel.LOk toks rest.
Proof. exact load_fixed_on_model. Qed.
Print Assumptions T_C01_mp_load_fixed_on_model.

(* a std::tuple at the root (loader of 9e55af6): IsEnd() and one load per component while the array has elements; a
   shorter document array (Skip policy) leaves the remaining components as they are; the end check; elements left over
   are passed by the scope's destructor.  An error raised inside a component propagates (M02, fixed) *)
Theorem T_C01_mp_load_tuple_on_model : forall narrow widen o data vs rest ss i toks r,
  bytes data -> decode data = Some (MArr vs, rest) -> doc_ok (MArr vs) = true ->
  load_tr narrow widen o (STuple ss) i (MArr vs) = (toks, r) -> no_err r ->
  run_arr_root narrow widen o data (tuple_prog o ss i vs) = Done toks rest false /\
  load_arr narrow widen o data (tuple_prog o ss i vs) = MpScopeModel.LOk toks rest.
Proof. exact load_tuple_on_model. Qed.
Print Assumptions T_C01_mp_load_tuple_on_model.

(* std::vector<bool> at the root: the program and the answers of a sequence container of bool (the loaded value
   differs: an element that does not load repeats the previous one) *)
Theorem T_C01_mp_load_vector_bool_on_model : forall narrow widen o data vs rest i toks r,
  bytes data -> decode data = Some (MArr vs, rest) -> doc_ok (MArr vs) = true ->
  load_tr narrow widen o SVecBool i (MArr vs) = (toks, r) -> no_err r ->
  run_arr_root narrow widen o data (mk_areqs (vec_body bool_prog (TBool false) [] vs)) = Done toks rest false /\
  load_arr narrow widen o data (mk_areqs (vec_body bool_prog (TBool false) [] vs)) = MpScopeModel.LOk toks rest.
Proof. exact load_vb_on_model. Qed.
Print Assumptions T_C01_mp_load_vector_bool_on_model.

(* a std::map at the root, in ANY load mode, holding anything: the program is VisitKeys with one keyed load per member
   (that the mode lets through) from inside the callback *)
Theorem T_C01_mp_load_map_on_model : forall narrow widen o data kvs rest m ks e i toks r,
  bytes data -> decode data = Some (MMap kvs, rest) -> doc_ok (MMap kvs) = true ->
  load_tr narrow widen o (SMap m ks e) i (MMap kvs) = (toks, r) -> no_err r ->
  run_obj_root narrow widen o data (map_prog o m ks e i kvs) = Done toks rest false /\
  load_obj narrow widen o data (map_prog o m ks e i kvs) = MpScopeModel.LOk toks rest.
Proof. exact load_map_on_model. Qed.
Print Assumptions T_C01_mp_load_map_on_model.

(* what SaveObject writes consists of bytes — the only condition is on the VALUE: wf_bytes v = its strings and byte
   containers hold bytes (C++ char: all < 256), at every depth; integers in the range of their type (wf_tv) *)
Theorem T_C01_mp_save_writes_bytes : forall v b, wf_tv v -> wf_bytes v = true -> save v = Some b -> bytes b.
Proof. exact save_bytes. Qed.
Print Assumptions T_C01_mp_save_writes_bytes.

(* save then load, scope-model form: the history run on the saved bytes b with the MODEL gives the tokens from
   which the saved tree is read off, ends at the end of b, close flag clear — whatever the target holds *)
Theorem T_C01_mp_load_save_on_model : forall narrow widen o kvs ms i b,
  has_shape (TObj kvs) (SClass ms) = true -> clean_maps (SClass ms) = true -> wf_tv (TObj kvs) -> doc_ok (abs (TObj kvs)) = true ->
  wf_bytes (TObj kvs) = true -> save (TObj kvs) = Some b ->
  exists toks, load_tr narrow widen o (SClass ms) i (abs (TObj kvs)) = (toks, LOk (TObj kvs)) /\
    run_obj_root narrow widen o b (class_prog o ms i (map absp kvs)) = Done toks [] false /\
    load_obj narrow widen o b (class_prog o ms i (map absp kvs)) = MpScopeModel.LOk toks [].
Proof. exact load_save_class_on_model. Qed.
Print Assumptions T_C01_mp_load_save_on_model.

Theorem T_C01_mp_load_save_map_on_model : forall narrow widen o kvs ks e i b,
  has_shape (TObj kvs) (SMap MClean ks e) = true -> clean_maps e = true -> wf_tv (TObj kvs) -> doc_ok (abs (TObj kvs)) = true ->
  wf_bytes (TObj kvs) = true -> save (TObj kvs) = Some b ->
  exists toks, load_tr narrow widen o (SMap MClean ks e) i (abs (TObj kvs)) = (toks, LOk (TObj kvs)) /\
    run_obj_root narrow widen o b (map_prog o MClean ks e i (map absp kvs)) = Done toks [] false /\
    load_obj narrow widen o b (map_prog o MClean ks e i (map absp kvs)) = MpScopeModel.LOk toks [].
Proof. exact load_save_map_on_model. Qed.
Print Assumptions T_C01_mp_load_save_map_on_model.

Theorem T_C01_mp_load_save_vec_on_model : forall narrow widen o l e i b,
  has_shape (TArr l) (SVec e) = true -> clean_maps e = true -> wf_tv (TArr l) -> doc_ok (abs (TArr l)) = true ->
  wf_bytes (TArr l) = true -> save (TArr l) = Some b ->
  exists toks, load_tr narrow widen o (SVec e) i (abs (TArr l)) = (toks, LOk (TArr l)) /\
    run_arr_root narrow widen o b (vec_prog o e i (map abs l)) = Done toks [] false /\
    load_arr narrow widen o b (vec_prog o e i (map abs l)) = MpScopeModel.LOk toks [].
Proof. exact load_save_vec_on_model. Qed.
Print Assumptions T_C01_mp_load_save_vec_on_model.

(* ---- members the class does not declare; order of the members ---- *)
(* the result depends on the document only through what is stored under the declared member names *)
Theorem T_C01_mp_load_class_ext : forall narrow widen o kvs kvs' ms i,
  (forall name s', In (name, s') ms -> lookup (KStr name) kvs = lookup (KStr name) kvs') ->
  load_tr narrow widen o (SClass ms) i (MMap kvs) = load_tr narrow widen o (SClass ms) i (MMap kvs').
Proof. exact load_class_ext. Qed.
Print Assumptions T_C01_mp_load_class_ext.

(* extra members (anywhere in the document) under names the class does not declare change nothing *)
Theorem T_C01_mp_load_ignores_extra : forall narrow widen o ms i pre extra post,
  (forall name s', In (name, s') ms -> lookup (KStr name) extra = None) ->
  load_tr narrow widen o (SClass ms) i (MMap (pre ++ extra ++ post)) = load_tr narrow widen o (SClass ms) i (MMap (pre ++ post)).
Proof. exact load_ignores_extra. Qed.
Print Assumptions T_C01_mp_load_ignores_extra.

(* two well-formed documents with the same members in any order load to the same value (tokens included) *)
Theorem T_C01_mp_load_order_free : forall narrow widen o ms i kvs kvs',
  doc_ok (MMap kvs) = true -> doc_ok (MMap kvs') = true -> (forall kv, In kv kvs <-> In kv kvs') ->
  load_tr narrow widen o (SClass ms) i (MMap kvs) = load_tr narrow widen o (SClass ms) i (MMap kvs').
Proof. exact load_order_free. Qed.
Print Assumptions T_C01_mp_load_order_free.

(* ---- non-vacuity: class { id:int32; t:vector<string>; p:vector<class{n:uint8; r:bytes}>; g:vector<vector<int16>>; z:nullptr } ---- *)
Example T_C01_mp_example :
  has_shape ex_tree ex_shape = true /\ wf_tv ex_tree /\ doc_ok (abs ex_tree) = true /\ save ex_tree = Some ex_bytes /\
  bytes ex_bytes /\ load_bytes no_narrow id_widen skip_all ex_shape ex_bytes = LOk ex_tree.
Proof. exact (conj ex_tree_shape (conj ex_tree_wf (conj ex_tree_keys (conj ex_tree_save (conj ex_tree_bytes ex_tree_loads))))). Qed.
Print Assumptions T_C01_mp_example.

(* members in another order, some missing (they keep their value-initialised value), undeclared ones present *)
Example T_C01_mp_example_other_document :
  load_bytes no_narrow id_widen skip_all ex_shape ex_bytes2 =
  LOk (TObj [(TStr [0x69; 0x64], TInt IS32 5); (TStr [0x74], TArr []); (TStr [0x70], TArr []); (TStr [0x67], TArr []); (TStr [0x7A], TNil)]).
Proof. exact ex_tree_loads2. Qed.
Print Assumptions T_C01_mp_example_other_document.

(* ---- std::map: class { m : map<int8_t, vector<string>>; n : map<string, int32_t> } ---- *)
Example T_C01_mp_map_example :
  has_shape ex_map_tree ex_map_shape = true /\ wf_tv ex_map_tree /\ doc_ok (abs ex_map_tree) = true /\
  save ex_map_tree = Some ex_map_bytes /\ load_bytes no_narrow id_widen skip_all ex_map_shape ex_map_bytes = LOk ex_map_tree.
Proof. exact (conj ex_map_shape_ok (conj ex_map_wf (conj ex_map_keys (conj ex_map_save ex_map_loads)))). Qed.
Print Assumptions T_C01_mp_map_example.

(* { "n": {"ab":3, "":1}, "m": {5:[], 300:["x"], -3:["a"]} }: keys in another order are sorted by the maps; 300 does
   not fit int8_t: passed over under Skip, Overflow under Throw *)
Example T_C01_mp_map_example_other_document :
  load_bytes no_narrow id_widen skip_all ex_map_shape ex_map_bytes2 =
    LOk (TObj [(TStr [0x6D], TObj [(TInt IS8 (-3), TArr [TStr [0x61]]); (TInt IS8 5, TArr [])]);
               (TStr [0x6E], TObj [(TStr [], TInt IS32 1); (TStr [0x61; 0x62], TInt IS32 3)])]) /\
  load_bytes no_narrow id_widen (mkOpts PThrow PThrow) ex_map_shape ex_map_bytes2 = LErr (SE EOverflow).
Proof. exact ex_map_loads2. Qed.
Print Assumptions T_C01_mp_map_example_other_document.

(* ---- fixed-size array and vector<bool>: class { a : std::array<int16_t, 3>; b : std::vector<bool> } ---- *)
(* { "a": [1, "x", 3], "b": [true, "x", false, nil] } under Skip: the array element that does not load keeps its
   value, the vector<bool> element that does not load REPEATS THE PREVIOUS ONE ([true, true, false, false]);
   { "a": [1, 2] }: OutOfRange, whatever the policy *)
Example T_C01_mp_fixed_example :
  load_bytes no_narrow id_widen skip_all ex_fix_shape ex_fix_bytes =
    LOk (TObj [(TStr [0x61], TArr [TInt IS16 1; TInt IS16 0; TInt IS16 3]); (TStr [0x62], TArr [TBool true; TBool true; TBool false; TBool false])]) /\
  load_bytes no_narrow id_widen skip_all ex_fix_shape ex_fix_bytes2 = LErr SERange.
Proof. exact ex_fix_loads. Qed.
Print Assumptions T_C01_mp_fixed_example.

(* ---- optional / unique_ptr / shared_ptr: class { o : optional<int32_t>; p : unique_ptr<class { a : int32_t }>; v : vector<optional<string>> } ---- *)
(* round trip with empty and non-empty wrappers; and into a target holding { o = 5; p = { a = 1 }; v = [] }:
   {} — the ABSENT members are reset to empty; { "o": "x", "p": nil } — a value of another kind under Skip and nil reset
   as well; { "p": {} } — the pointee exists, is loaded into and keeps the member the document does not have; nil into
   a root optional holding 5: LReset TNil *)
Example T_C01_mp_wrapper_example :
  (has_shape ex_opt_tree ex_opt_shape = true /\
   exists b, save ex_opt_tree = Some b /\ load_bytes no_narrow id_widen skip_all ex_opt_shape b = LOk ex_opt_tree) /\
  load_bytes_into no_narrow id_widen skip_all ex_opt_shape ex_opt_prior [0x80] =
    LOk (TObj [(TStr [0x6F], TNil); (TStr [0x70], TNil); (TStr [0x76], TArr [])]) /\
  load_bytes_into no_narrow id_widen skip_all ex_opt_shape ex_opt_prior [0x82; 0xA1; 0x6F; 0xA1; 0x78; 0xA1; 0x70; 0xC0] =
    LOk (TObj [(TStr [0x6F], TNil); (TStr [0x70], TNil); (TStr [0x76], TArr [])]) /\
  load_bytes_into no_narrow id_widen skip_all ex_opt_shape ex_opt_prior [0x81; 0xA1; 0x70; 0x80] =
    LOk (TObj [(TStr [0x6F], TNil); (TStr [0x70], TObj [(TStr [0x61], TInt IS32 1)]); (TStr [0x76], TArr [])]) /\
  load_bytes_into no_narrow id_widen skip_all (SOpt (SInt IS32)) (TInt IS32 5) [0xC0] = LReset TNil.
Proof. exact (conj ex_opt_roundtrip ex_opt_loads). Qed.
Print Assumptions T_C01_mp_wrapper_example.

(* ---- std::multimap<int8_t, string>, std::set<string>, std::multiset<string> ---- *)
(* the multimap { 1:"a", 1:"b", 2:"c" } round trips; from [ {2,"c"}, {1,"a"}, nil, {1,"b"} ] it is ordered by key, equal
   keys keep the order of the document (571471d), the element that is not an object is not inserted.  A set from
   [ "b", "a", "b", 5 ] under Skip: the element that does not load INSERTS the value-initialised string; the set drops the
   second "b", the multiset keeps it *)
Example T_C01_mp_multimap_set_example :
  (has_shape ex_mm_tree ex_mm_shape = true /\
   (exists b, save ex_mm_tree = Some b /\ load_bytes no_narrow id_widen skip_all ex_mm_shape b = LOk ex_mm_tree) /\
   load_bytes no_narrow id_widen skip_all ex_mm_shape ex_mm_doc = LOk ex_mm_tree) /\
  load_bytes no_narrow id_widen skip_all (SSet false KSStr) ex_set_doc = LOk (TArr [TStr []; TStr [0x61]; TStr [0x62]]) /\
  load_bytes no_narrow id_widen skip_all (SSet true KSStr) ex_set_doc = LOk (TArr [TStr []; TStr [0x61]; TStr [0x62]; TStr [0x62]]).
Proof. exact (conj ex_mm_loads ex_set_loads). Qed.
Print Assumptions T_C01_mp_multimap_set_example.

(* ---- std::tuple<int32_t, std::string, std::array<uint8_t, 2>> ---- *)
Example T_C01_mp_tuple_example :
  (exists b, save ex_tup_tree = Some b /\ load_bytes no_narrow id_widen skip_all ex_tup_shape b = LOk ex_tup_tree) /\
  load_bytes no_narrow id_widen skip_all ex_tup_shape [0x91; 0x07] = LOk (TArr [TInt IS32 7; TStr []; TArr [TInt IU8 0; TInt IU8 0]]) /\
  load_bytes no_narrow id_widen (mkOpts PThrow PThrow) ex_tup_shape [0x91; 0x07] = LErr (SE EMismatch) /\
  load_bytes no_narrow id_widen skip_all ex_tup_shape [0x94; 0x07; 0xA1; 0x61; 0x92; 0x01; 0x02; 0x09] =
    LOk (TArr [TInt IS32 7; TStr [0x61]; TArr [TInt IU8 1; TInt IU8 2]]) /\
  load_bytes no_narrow id_widen (mkOpts PThrow PThrow) ex_tup_shape [0x94; 0x07; 0xA1; 0x61; 0x92; 0x01; 0x02; 0x09] = LErr (SE EMismatch) /\
  load_bytes no_narrow id_widen skip_all ex_tup_shape [0x93; 0x07; 0xA1; 0x61; 0x91; 0x01] = LErr SERange.
Proof. exact (conj ex_tup_roundtrip ex_tup_loads). Qed.
Print Assumptions T_C01_mp_tuple_example.

(* NOT PROVED / NOT MODELLED:
   - std::map: archive keys of another class than the map's key type (text <-> number conversions, float / double /
     timestamp keys) and archive keys that convert to the same K: load_tr is total but claims nothing there,
     `modelled` (MpLoadModel.v) delimits it and the correspondence check skips those documents; read_off for maps
     (the keys are not among the tokens) and for multimap / set (not done); std::unordered_map / unordered_set /
     unordered_multimap (iteration order); sets and multimaps of other key types than std::string / integers (ordering);
   - targets that are NOT overwritten (classes, fixed-size arrays, tuples, maps in OnlyExistKeys / UpdateKeys): what a
     member / element / component / mapped value that is not loaded holds afterwards is its content before (load_tr
     says so; known finding F36 of C18, by design): no "populated = fresh" theorem there, T_C01_mp_load_save_into
     covers the documents that load everything;
   - optional<nullptr_t> and wrappers of wrappers (an empty inner wrapper and an empty outer one are the same nil);
     ownership (which object a shared_ptr shares, what a load that throws leaves allocated: C20); enums, validation;
   - loads that end in an exception: load_tr carries the policies and the error, but the program / transport
     theorems assume an error-free load (as T_C03_mp_refines does);
   - a scalar / string / byte container at the ROOT of the document on the scope model (the root scope's own
     SerializeValue is one typed read: T_C03_typed_read; not restated here);
   - the program elem_prog / member_prog itself is hand-written from serialization_base_types.h and
     generic_container.h and depends on the document and on the content of the target (loop while !IsEnd(), child
     programs only when the scope was opened, binary -> array fallback, find(key) for OnlyExistKeys): its tie to /repo is
     the correspondence of C01mp (drv_mpload: LoadObject through the public API against load_bytes_into). *)
