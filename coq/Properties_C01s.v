(* Properties_C01s.v — C01, MsgPack, typed level, OVER A STREAM: T_C01_mp_load_save (Properties_C01mp.v) transported
   to CMsgPackStreamReader over the chunked reader, through the scope classes re-expressed as a client of the reader
   interface (MpScopeClient.v, Properties_C03s.v) and the mpstream family's T_C10mp_adaptive_stream_equals_memory.
   Statements only.

   tv / save / abs / absp / wf_tv, shape / has_shape / clean_maps / map_free, load_tr, class_prog / map_prog / vec_prog,
   read_off, doc_ok: as in Properties_C01mp.v.  client / mps_client_bsr / str_client_run / stream_of / fits_streamoff /
   bytes_ok (= bytes: all < 256): as in Properties_C10mp.v.  scope_client n h / scope_client_arr n h: the reader
   operations the scope classes issue for the history h on a root object / a root array (MpScopeClient.v; n bounds the
   loops).  frag_reqs / frag_areqs / frag_vact: the fragment of the history language that is re-expressed as a client
   (everything but the guarded request ATry).
   THE SHAPES THAT QUALIFY: ALL OF THEM (the request programs of every shape lie in the fragment,
   T_C01_mp_programs_in_fragment: byte containers included since the binary scope is part of the client). *)
From BS Require Import Base MpSpec MpModel StreamIStream StreamSpec StreamModel StreamBsrProofs MpStreamModel MpStreamProofs.
From BS Require Import MpLemmas MpReader MpTyped MpSaveModel MpSave
  MpScopeSpec MpScopeModel MpScopeLemmas MpScopeTyped MpScopeProofs MpScopeRefine MpLoadModel MpLoadBytes MpLoadProofs MpScopeClient MpLoadStream.
Local Open Scope N_scope.

(* the request programs of EVERY shape lie in the fragment — for EVERY document value, every
   content of the target and every policy (the caller's own throws — tuple size mismatch, a map key that does not
   convert — are requests at which the client stops; an error-free load never reaches one): the program of an array
   element, of a class member under any name, of a mapped value under the visited key *)
Theorem T_C01_mp_programs_in_fragment : forall o s,
  (forall i v, frag_areqs (mk_areqs (elem_prog o s i v)) = true) /\
  (forall i q ov, frag_reqs (mk_reqs (member_prog o s i q ov)) = true) /\
  (forall i v, frag_vact (vact_prog o s i v) = true).
Proof. exact progs_in_fragment. Qed.
Print Assumptions T_C01_mp_programs_in_fragment.

(* ... hence the root histories *)
Theorem T_C01_mp_root_programs_in_fragment : forall o,
  (forall ms i kvs, frag_reqs (class_prog o ms i kvs) = true) /\
  (forall m ks e i kvs, frag_reqs (map_prog o m ks e i kvs) = true) /\
  (forall e i vs, frag_areqs (vec_prog o e i vs) = true) /\
  (forall ss i vs, frag_areqs (tuple_prog o ss i vs) = true).
Proof.
  intros o. split; [exact (class_prog_frag o)|]. split; [exact (map_prog_frag o)|]. split; [exact (vec_prog_frag o) | exact (tuple_prog_frag o)].
Qed.
Print Assumptions T_C01_mp_root_programs_in_fragment.

(* whatever an object-rooted history of the fragment returns on the scope model in memory (normally, flag clear), the
   scope classes driving the STREAM reader over the chunked reader return, with the transcript of the memory run *)
Theorem T_C01_mp_object_history_over_stream : forall narrow widen o K data fuel h toks rest,
  (8 <= K)%nat -> fits_streamoff data -> bytes_ok data -> (length data < fuel)%nat -> frag_reqs h = true ->
  run_obj_root narrow widen o data h = Done toks rest false ->
  mps_client_bsr narrow widen K (stream_of data true) fuel o (scope_client (S (length data)) h) =
    Ok (fst (str_client_run narrow widen data o (scope_client (S (length data)) h)),
        Some (Some (toks, N.of_nat (length data - length rest), false))).
Proof. intros narrow widen o K data fuel h toks rest HK. exact (obj_run_over_stream narrow widen o K HK data fuel h toks rest). Qed.
Print Assumptions T_C01_mp_object_history_over_stream.

Theorem T_C01_mp_array_history_over_stream : forall narrow widen o K data fuel h toks rest,
  (8 <= K)%nat -> fits_streamoff data -> bytes_ok data -> (length data < fuel)%nat -> frag_areqs h = true ->
  run_arr_root narrow widen o data h = Done toks rest false ->
  mps_client_bsr narrow widen K (stream_of data true) fuel o (scope_client_arr (S (length data)) h) =
    Ok (fst (str_client_run narrow widen data o (scope_client_arr (S (length data)) h)),
        Some (Some (toks, N.of_nat (length data - length rest), false))).
Proof. intros narrow widen o K data fuel h toks rest HK. exact (arr_run_over_stream narrow widen o K HK data fuel h toks rest). Qed.
Print Assumptions T_C01_mp_array_history_over_stream.

(* SAVE, THEN LOAD FROM A STREAM — a class at the root: for every value tree of a class shape (byte containers included),
   whatever the policies, whatever the target holds, every chunk size K >= 8: the load program of the shape, run as
   scope_client against the MsgPack stream reader over the chunked reader on a seekable stream holding the saved
   bytes b, returns exactly the tokens load_tr consumes to produce LOk v (T_C01_mp_load_save at the token level), with
   the reader at the end of b, the close flag clear, and the transcript of the run in memory; where read_off is defined
   (no std::map inside: map keys are not among the tokens) the tokens alone give back the saved tree.
   Conditions on the VALUE only: wf_tv (integers in range), wf_bytes (strings hold bytes), has_shape, pairwise
   different member names; that b consists of bytes follows (T_C01_mp_save_writes_bytes).  ONE length bound:
   fits_streamoff b = the saved bytes are fewer than 2^63 (std::streamoff); fuel, the recursion bound of the stream
   reader's model, is anything above the number of bytes *)
Theorem T_C01_mp_load_save_stream : forall narrow widen o K kvs ms i b,
  (8 <= K)%nat -> fits_streamoff b ->
  has_shape (TObj kvs) (SClass ms) = true -> clean_maps (SClass ms) = true -> wf_tv (TObj kvs) -> doc_ok (abs (TObj kvs)) = true ->
  wf_bytes (TObj kvs) = true -> save (TObj kvs) = Some b ->
  exists toks,
    load_tr narrow widen o (SClass ms) i (abs (TObj kvs)) = (toks, LOk (TObj kvs)) /\
    (forall fuel, (length b < fuel)%nat ->
     mps_client_bsr narrow widen K (stream_of b true) fuel o (scope_client (S (length b)) (class_prog o ms i (map absp kvs))) =
       Ok (fst (str_client_run narrow widen b o (scope_client (S (length b)) (class_prog o ms i (map absp kvs)))),
           Some (Some (toks, N.of_nat (length b), false)))) /\
    (map_free (SClass ms) = true -> read_off (SClass ms) i toks = Some (LOk (TObj kvs), [])).
Proof.
  intros narrow widen o K kvs ms i b HK Hf Hs Hc Hw Hd Hwb Hsv.
  destruct (load_save_class_stream narrow widen o K HK kvs ms i b Hf Hs Hc Hw Hd Hwb Hsv) as [toks [E R]].
  exists toks. split; [exact E|]. split; [exact R|].
  intros Hmf. pose proof (read_off_load narrow widen o (SClass ms) i (abs (TObj kvs)) Hmf) as RO.
  unfold load_spec, load_toks in RO. rewrite E in RO. cbn [fst snd] in RO. exact (RO I).
Qed.
Print Assumptions T_C01_mp_load_save_stream.

(* ... a std::map (loaded with Clean) at the root: the program is VisitKeys with one keyed load per member from
   inside the callback *)
Theorem T_C01_mp_load_save_map_stream : forall narrow widen o K kvs ks e i b,
  (8 <= K)%nat -> fits_streamoff b ->
  has_shape (TObj kvs) (SMap MClean ks e) = true -> clean_maps e = true -> wf_tv (TObj kvs) -> doc_ok (abs (TObj kvs)) = true ->
  wf_bytes (TObj kvs) = true -> save (TObj kvs) = Some b ->
  exists toks,
    load_tr narrow widen o (SMap MClean ks e) i (abs (TObj kvs)) = (toks, LOk (TObj kvs)) /\
    forall fuel, (length b < fuel)%nat ->
    mps_client_bsr narrow widen K (stream_of b true) fuel o (scope_client (S (length b)) (map_prog o MClean ks e i (map absp kvs))) =
      Ok (fst (str_client_run narrow widen b o (scope_client (S (length b)) (map_prog o MClean ks e i (map absp kvs)))),
          Some (Some (toks, N.of_nat (length b), false))).
Proof. intros narrow widen o K kvs ks e i b HK. exact (load_save_map_stream narrow widen o K HK kvs ks e i b). Qed.
Print Assumptions T_C01_mp_load_save_map_stream.

(* ... a sequence container at the root (root array scope) *)
Theorem T_C01_mp_load_save_vec_stream : forall narrow widen o K l e i b,
  (8 <= K)%nat -> fits_streamoff b ->
  has_shape (TArr l) (SVec e) = true -> clean_maps e = true -> wf_tv (TArr l) -> doc_ok (abs (TArr l)) = true ->
  wf_bytes (TArr l) = true -> save (TArr l) = Some b ->
  exists toks,
    load_tr narrow widen o (SVec e) i (abs (TArr l)) = (toks, LOk (TArr l)) /\
    (forall fuel, (length b < fuel)%nat ->
     mps_client_bsr narrow widen K (stream_of b true) fuel o (scope_client_arr (S (length b)) (vec_prog o e i (map abs l))) =
       Ok (fst (str_client_run narrow widen b o (scope_client_arr (S (length b)) (vec_prog o e i (map abs l)))),
           Some (Some (toks, N.of_nat (length b), false)))) /\
    (map_free (SVec e) = true -> read_off (SVec e) i toks = Some (LOk (TArr l), [])).
Proof.
  intros narrow widen o K l e i b HK Hf Hs Hc Hw Hd Hwb Hsv.
  destruct (load_save_vec_stream narrow widen o K HK l e i b Hf Hs Hc Hw Hd Hwb Hsv) as [toks [E R]].
  exists toks. split; [exact E|]. split; [exact R|].
  intros Hmf. pose proof (read_off_load narrow widen o (SVec e) i (abs (TArr l)) Hmf) as RO.
  unfold load_spec, load_toks in RO. rewrite E in RO. cbn [fst snd] in RO. exact (RO I).
Qed.
Print Assumptions T_C01_mp_load_save_vec_stream.

(* ... ANY array-rooted target at the root: arr_rooted s = sequence container, fixed-size array (std::array / T[N]),
   std::tuple, std::vector<bool>; root_arr_prog o s i vs = its history on the root array scope (vec_prog for the first
   two, tuple_prog, the sequence program of bool) *)
Theorem T_C01_mp_load_save_array_stream : forall narrow widen o K l s i b,
  (8 <= K)%nat -> fits_streamoff b ->
  arr_rooted s = true ->
  has_shape (TArr l) s = true -> clean_maps s = true -> wf_tv (TArr l) -> doc_ok (abs (TArr l)) = true ->
  wf_bytes (TArr l) = true -> save (TArr l) = Some b ->
  exists toks,
    load_tr narrow widen o s i (abs (TArr l)) = (toks, LOk (TArr l)) /\
    (forall fuel, (length b < fuel)%nat ->
     mps_client_bsr narrow widen K (stream_of b true) fuel o (scope_client_arr (S (length b)) (root_arr_prog o s i (map abs l))) =
       Ok (fst (str_client_run narrow widen b o (scope_client_arr (S (length b)) (root_arr_prog o s i (map abs l)))),
           Some (Some (toks, N.of_nat (length b), false)))) /\
    (map_free s = true -> read_off s i toks = Some (LOk (TArr l), [])).
Proof.
  intros narrow widen o K l s i b HK Hf Ha Hs Hc Hw Hd Hwb Hsv.
  destruct (load_save_array_stream narrow widen o K HK l s i b Hf Ha Hs Hc Hw Hd Hwb Hsv) as [toks [E R]].
  exists toks. split; [exact E|]. split; [exact R|].
  intros Hmf. pose proof (read_off_load narrow widen o s i (abs (TArr l)) Hmf) as RO.
  unfold load_spec, load_toks in RO. rewrite E in RO. cbn [fst snd] in RO. exact (RO I).
Qed.
Print Assumptions T_C01_mp_load_save_array_stream.

(* LOADS THAT END IN AN EXCEPTION, over a stream: the load program of ANY class / std::map target on ANY bytes: when the
   scope model's run in memory ends in the exception se with no scope having failed to close (obj_root_res .. =
   (toks, Raise se u p, false), see Properties_C03s.v), the scopes over the stream reader make the same reader calls
   with the same answers and end the same way: the reader's exception of the same class at the same call, or the
   scopes' own exception (client result Some None).  (That load_tr's LErr e IS the model's Raise (SE e) on the bytes
   is the memory-side statement that is not proved: T_C03_mp_refines and the *_on_model theorems assume an
   error-free load.) *)
Theorem T_C01_mp_load_error_stream : forall narrow widen o K data fuel ms i kvs toks se u p,
  (8 <= K)%nat -> fits_streamoff data -> bytes_ok data -> (length data < fuel)%nat ->
  obj_root_res narrow widen o data (class_prog o ms i kvs) = (toks, Raise se u p, false) ->
  run_obj_root narrow widen o data (class_prog o ms i kvs) = Failed toks se /\
  mps_client_bsr narrow widen K (stream_of data true) fuel o (scope_client (S (length data)) (class_prog o ms i kvs)) =
    Ok (str_client_run narrow widen data o (scope_client (S (length data)) (class_prog o ms i kvs))) /\
  (snd (str_client_run narrow widen data o (scope_client (S (length data)) (class_prog o ms i kvs))) = Some None \/
   exists e tr op, se = SE e /\
     str_client_run narrow widen data o (scope_client (S (length data)) (class_prog o ms i kvs)) = (tr ++ [(op, AErrOf e)], None)).
Proof.
  intros narrow widen o K data fuel ms i kvs toks se u p HK Hf Hb Hfuel H.
  split; [rewrite obj_root_res_final, H; reflexivity|]. split.
  - apply client_on_chunked_stream; try assumption. apply scope_client_seeks_ok.
  - exact (EC_run narrow widen o data se _
      (scope_client_fail narrow widen o data K HK Hf Hb (S (length data)) _ toks se u p (Nat.lt_succ_diag_r _) (class_prog_frag o ms i kvs) H)).
Qed.
Print Assumptions T_C01_mp_load_error_stream.

Theorem T_C01_mp_load_error_map_stream : forall narrow widen o K data fuel m ks e i kvs toks se u p,
  (8 <= K)%nat -> fits_streamoff data -> bytes_ok data -> (length data < fuel)%nat ->
  obj_root_res narrow widen o data (map_prog o m ks e i kvs) = (toks, Raise se u p, false) ->
  run_obj_root narrow widen o data (map_prog o m ks e i kvs) = Failed toks se /\
  mps_client_bsr narrow widen K (stream_of data true) fuel o (scope_client (S (length data)) (map_prog o m ks e i kvs)) =
    Ok (str_client_run narrow widen data o (scope_client (S (length data)) (map_prog o m ks e i kvs))) /\
  (snd (str_client_run narrow widen data o (scope_client (S (length data)) (map_prog o m ks e i kvs))) = Some None \/
   exists e0 tr op, se = SE e0 /\
     str_client_run narrow widen data o (scope_client (S (length data)) (map_prog o m ks e i kvs)) = (tr ++ [(op, AErrOf e0)], None)).
Proof.
  intros narrow widen o K data fuel m ks e i kvs toks se u p HK Hf Hb Hfuel H.
  split; [rewrite obj_root_res_final, H; reflexivity|]. split.
  - apply client_on_chunked_stream; try assumption. apply scope_client_seeks_ok.
  - exact (EC_run narrow widen o data se _
      (scope_client_fail narrow widen o data K HK Hf Hb (S (length data)) _ toks se u p (Nat.lt_succ_diag_r _) (map_prog_frag o m ks e i kvs) H)).
Qed.
Print Assumptions T_C01_mp_load_error_map_stream.

(* not vacuous: class { m : std::map<int8_t, vector<string>>; n : std::map<std::string, int32_t> } (ex_map_tree of
   T_C01_mp_map_example), 22 saved bytes on a seekable stream read in chunks of 8: the scopes over the stream reader
   return the tokens load_tr consumes, the reader ends at byte 22 *)
Example T_C01_mp_stream_example :
  match ex_map_tree with
  | TObj kvs =>
    match mps_client_bsr no_narrow id_widen 8 (stream_of ex_map_bytes true) 100 skip_all
            (scope_client 23 (class_prog skip_all [([0x6D], SMap MClean (KSInt IS8) (SVec SStr)); ([0x6E], SMap MClean KSStr (SInt IS32))]
                                (default_of ex_map_shape) (map absp kvs))) with
    | Ok (tr, res) =>
      res = Some (Some (fst (load_tr no_narrow id_widen skip_all ex_map_shape (default_of ex_map_shape) (abs ex_map_tree)), 22, false)) /\
      snd (load_tr no_narrow id_widen skip_all ex_map_shape (default_of ex_map_shape) (abs ex_map_tree)) = LOk ex_map_tree
    | Fault => False
    end
  | _ => False
  end.
Proof.
  vm_compute. split; reflexivity.
Qed.
Print Assumptions T_C01_mp_stream_example.

(* ... and with byte containers: ex_tree / ex_shape of T_C01_mp_example (a class with an int, vector<string>, a vector of
   classes each holding a byte container, vector<vector<int16>>, nullptr_t), 48 saved bytes, chunk size 8 *)
Example T_C01_mp_stream_example_bytes :
  match ex_shape, ex_tree with
  | SClass ms, TObj kvs =>
    match mps_client_bsr no_narrow id_widen 8 (stream_of ex_bytes true) 100 skip_all
            (scope_client 49 (class_prog skip_all ms (default_of ex_shape) (map absp kvs))) with
    | Ok (tr, res) =>
      res = Some (Some (fst (load_tr no_narrow id_widen skip_all ex_shape (default_of ex_shape) (abs ex_tree)), 48, false)) /\
      snd (load_tr no_narrow id_widen skip_all ex_shape (default_of ex_shape) (abs ex_tree)) = LOk ex_tree
    | Fault => False
    end
  | _, _ => False
  end.
Proof. vm_compute. split; reflexivity. Qed.
Print Assumptions T_C01_mp_stream_example_bytes.

(* NOT stated here:
   - multimaps and sets AT THE ROOT as save-then-load statements (inside a class, a map or a sequence container they are
     covered; at the root T_C01_mp_array_history_over_stream applies to every error-free run of the scope model);
   - that load_tr's LErr is the scope model's Raise on the bytes (memory side, error-ending loads); error-ending loads in
     which a scope failed to close; non-seekable streams: see Properties_C03s.v. *)
