(* Properties_C02.v — C02: no input can crash, hang or exhaust the loaders / converters.
   What a proof can carry here is the deciding LOGIC on the executable models: every modelled decoder
   terminates within a fuel that is linear in the input, never reads outside its input, and ends in an
   ordinary outcome (value, policy outcome, or error) on EVERY input.  C++ memory safety of the real
   code, stack depth and allocation are runtime behaviour: they are observed by the sanitizer-built
   robustness driver (harness/drv_fuzz.cpp) on every run — this property is PARTIAL.  Statements only. *)
From BS Require Import Base UtfSpec UtfModel UtfLemmas UtfProofs MpSpec MpModel MpLemmas MpReader MpTyped MpTotal.
Local Open Scope N_scope.

(* UTF transcoders: any code-unit sequence, any policy: terminates (fuel never exhausted), position inside
   the input, prior output only appended to *)
Theorem T_C02_utf_total_in_bounds : forall src dst pol mark inp out0, units src inp ->
  let r := transcode src dst pol mark inp out0 in
  (r_pos r <= length inp)%nat /\ r_code r <> OutOfFuel /\ exists o, r_out r = out0 ++ o.
Proof. exact transcode_in_bounds. Qed.
Print Assumptions T_C02_utf_total_in_bounds.

(* MsgPack SkipValue on any byte string: terminates (fuel = input length + 1 suffices), and when it
   succeeds the new position is inside the input *)
Theorem T_C02_mp_skip_total : forall d, skip_value d <> SFuel.
Proof. exact skip_value_never_out_of_fuel. Qed.
Print Assumptions T_C02_mp_skip_total.
Theorem T_C02_mp_skip_in_bounds : forall d r, skip_value d = SOk r -> (length r <= length d)%nat.
Proof. exact skip_in_bounds. Qed.
Print Assumptions T_C02_mp_skip_in_bounds.

(* the reference decoder (and with it every agreement theorem of C07) consumes at least one byte per
   value: loops over declared counts of up to 2^32-1 elements stop at the end of the input *)
Theorem T_C02_mp_progress : forall f d v r, decode_ref f d = Some (v, r) -> (length r < length d)%nat.
Proof. exact decode_progress. Qed.
Print Assumptions T_C02_mp_progress.

(* typed MsgPack reads on any byte string: an ordinary outcome, never fuel exhaustion *)
Theorem T_C02_mp_read_int_total : forall o t d, rres_total (read_int o t d).
Proof. exact read_int_total. Qed.
Print Assumptions T_C02_mp_read_int_total.
Theorem T_C02_mp_read_nil_total : forall o d, rres_total (read_nil o d).
Proof. exact read_nil_total. Qed.
Print Assumptions T_C02_mp_read_nil_total.
Theorem T_C02_mp_read_str_total : forall o d, Forall (fun b => b < 256) d -> rres_total (read_str o d).
Proof. exact read_str_total. Qed.
Print Assumptions T_C02_mp_read_str_total.

(* NOT PROVED / outside any Gallina model: C++ object lifetime and memory safety, recursion depth
   (finding F19: SkipValueImpl recurses once per nesting level, a 200 kB document of nested arrays
   overflows the stack), allocation proportional to the input (finding F20: resize(declared count)
   from a 5-byte header), exceptions escaping destructors (finding F17, property C20).  The CSV,
   chrono, numeric and stream-reader families state their own totality theorems in their property
   files (C09, C15, C16, C10, C13). *)
