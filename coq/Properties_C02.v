(* Properties_C02.v — C02: no input can crash, hang or exhaust the loaders / converters.
   What a proof can carry here is the deciding LOGIC on the executable models: every modelled decoder
   terminates within a fuel that is linear in the input, never reads outside its input, and ends in an
   ordinary outcome (value, policy outcome, or error) on EVERY input.  C++ memory safety of the real
   code, stack depth and allocation are runtime behaviour: they are observed by the sanitizer-built
   robustness driver (harness/drv_fuzz.cpp) on every run — this property is PARTIAL.  Statements only. *)
From BS Require Import Base UtfSpec UtfModel UtfLemmas UtfProofs MpSpec MpModel MpLemmas MpReader MpTyped MpTotal.
Local Open Scope N_scope.

(* UTF transcoders: any code-unit sequence, any policy: terminates (fuel never exhausted), position inside
   the input, prior output only appended to *)
Theorem T_C02_utf_total_in_bounds : forall src dst pol mark inp out0, units src inp ->
  let r := transcode src dst pol mark inp out0 in
  (r_pos r <= length inp)%nat /\ r_code r <> OutOfFuel /\ exists o, r_out r = out0 ++ o.
Proof. exact transcode_in_bounds. Qed.
Print Assumptions T_C02_utf_total_in_bounds.

(* MsgPack SkipValue on any byte string: terminates (fuel = input length + 1 suffices), and when it
   succeeds the new position is inside the input *)
Theorem T_C02_mp_skip_total : forall d, skip_value d <> SFuel.
Proof. exact skip_value_never_out_of_fuel. Qed.
Print Assumptions T_C02_mp_skip_total.
Theorem T_C02_mp_skip_in_bounds : forall d r, skip_value d = SOk r -> (length r <= length d)%nat.
Proof. exact skip_in_bounds. Qed.
Print Assumptions T_C02_mp_skip_in_bounds.

(* the reference decoder (and with it every agreement theorem of C07) consumes at least one byte per
   value: loops over declared counts of up to 2^32-1 elements stop at the end of the input *)
Theorem T_C02_mp_progress : forall f d v r, decode_ref f d = Some (v, r) -> (length r < length d)%nat.
Proof. exact decode_progress. Qed.
Print Assumptions T_C02_mp_progress.

(* typed MsgPack reads on any byte string: an ordinary outcome, never fuel exhaustion *)
Theorem T_C02_mp_read_int_total : forall o t d, rres_total (read_int o t d).
Proof. exact read_int_total. Qed.
Print Assumptions T_C02_mp_read_int_total.
Theorem T_C02_mp_read_nil_total : forall o d, rres_total (read_nil o d).
Proof. exact read_nil_total. Qed.
Print Assumptions T_C02_mp_read_nil_total.
Theorem T_C02_mp_read_str_total : forall o d, Forall (fun b => b < 256) d -> rres_total (read_str o d).
Proof. exact read_str_total. Qed.
Print Assumptions T_C02_mp_read_str_total.

(* ---- the other text loaders: the same statement on their models (proved in their families, restated here
   because C02 quantifies over every loader) ---- *)
From BS Require Import CsvSpec CsvModel CsvTotalProofs CsvStreamTotal.

(* CSV, memory and stream reader with any chunk size, on ARBITRARY text: rows or a catchable error; never out of
   fuel (every line consumes at least one byte), never the model's UB outcome (no access outside the decoded
   buffer during in-place unescaping), never a foreign exception *)
Theorem T_C02_csv_load_total : forall sep keys text, clean (csv_load sep keys text).
Proof. exact csv_load_total. Qed.
Print Assumptions T_C02_csv_load_total.
Theorem T_C02_csv_load_stream_total : forall K sep keys text, (0 < K)%nat -> clean (csv_load_stream K sep keys text).
Proof. exact csv_load_stream_total. Qed.
Print Assumptions T_C02_csv_load_stream_total.

From BS Require Import NumSpec NumModel NumTextLemmas NumTextProofs.

(* number text (Convert::To<integer> of any string width, the path every text archive uses for numbers): a value,
   out_of_range or invalid_argument on EVERY unit string *)
Theorem T_C02_number_parse_total : forall T w s, units w s ->
  (exists v, parse_num T w s = COk v) \/ parse_num T w s = COutOfRange \/ parse_num T w s = CInvalidArgument.
Proof. exact parse_total. Qed.
Print Assumptions T_C02_number_parse_total.

From BS Require Import StreamIStream StreamSpec StreamModel StreamEsrProofs.

(* encoded stream reader (CSV / text streams in any UTF encoding) on EVERY byte stream and chunk size: the read loop
   ends with EndFile or DecodeError after at most length-many chunks: no hang *)
Theorem T_C02_encoded_stream_progress : forall K tgt pol mark data sk fuel,
  (K mod 4 = 0)%nat -> (32 <= K)%nat -> bytes data -> (length data < fuel)%nat ->
  exists k c out ty,
    esr_run K tgt pol mark fuel (stream_of data sk) = RunDone (repeat ChSuccess k ++ [c]) out ty /\
    (c = ChEndFile \/ c = ChDecodeError) /\ (k <= length data)%nat.
Proof.
  intros K tgt pol mark data sk fuel H4 H32 Hb Hf.
  exact (esr_run_total K H4 H32 tgt pol mark data Hb sk fuel Hf).
Qed.
Print Assumptions T_C02_encoded_stream_progress.

(* NOT PROVED / outside any Gallina model: C++ object lifetime and memory safety, recursion depth
   (finding F19: SkipValueImpl recurses once per nesting level, a 200 kB document of nested arrays
   overflows the stack), allocation proportional to the input (finding F20: resize(declared count)
   from a 5-byte header), exceptions escaping destructors (findings F17 F18, repaired; property C20).  Further totality theorems
   live with their families: the MsgPack scope destructors (T_C03_close_*_total), the ISO-8601 parsers (C15), the
   chunked binary stream reader (C10), the reference JSON / XML parsers (C08). *)
