(* Properties_C03.v — C03: named fields load correctly in any request order, with absent and unread
   fields (MsgPack archive), and the scope-level half of C05 (the array / object scopes keep their
   element counters in step with the reader).  Statements only.

   decode / mpv: the reference decoder and value universe of MpSpec.v.  spec_req(s) / spec_areq(s):
   the association-list semantics of a request history (MpScopeSpec.v): the observations (tokens),
   the error that ended the history if any, and an informational flag "no array / byte-array child
   was left with elements unread" (a hypothesis before 49f9936, none now).  run_req(s) / run_areq(s) / run_obj_root / run_arr_root, find_value_by_key,
   close_obj: the mirror of the C++ scopes (MpScopeModel.v).  REach acts (a request): VisitKeys with a callback
   that runs the i-th action of acts under the i-th key while that key is current (the callback gets a COPY of
   the visited key since d346324, so its keyed requests are the ordinary ones).  doc_ok: maps at every depth have keys of
   the supported kinds, pairwise different under the library's key equality.  bytes: all < 256.
   olayout body kvs rend: the members kvs lie one after the other from position body to position rend
   (each key and value delimited by the reference decoder).
   cursor body kvs rend st p (MpScopeProofs.v) is THE INVARIANT: the scope state st has
   mStartPos = body, mSize = |kvs|, and either mCurrentKey is empty and the reader position p is the
   start of member mIndex (mIndex <= mSize; p = rend when mIndex = mSize), or mCurrentKey holds the
   key of member mIndex and p is the start of that member's value.
   narrow / widen: the C++ double -> float and float -> double conversions (any functions). *)
From BS Require Import Base MpSpec MpModel MpLemmas MpReader MpTyped MpScopeSpec MpScopeModel MpScopeLemmas MpScopeTyped MpScopeProofs MpScopeRefine.
Local Open Scope N_scope.

(* ---- the cursor invariant ---- *)
(* FindValueByKey from any state satisfying the invariant: returns (never throws, never runs out of
   fuel), finds exactly the keys the association list has, and leaves the invariant in place *)
Theorem T_C03_find_invariant : forall narrow widen o body kvs rend q st p,
  bytes body -> olayout body kvs rend -> supported kvs -> keys_distinct (keys_of kvs) = true ->
  cursor body kvs rend st p ->
  exists b st' p', find_value_by_key narrow widen o q st p = Go (b, st') p' /\
    cursor body kvs rend st' p' /\ o_index st' <= o_size st' /\
    (b = true <-> lookup (key_of_q q) kvs <> None).
Proof. exact find_keeps_cursor. Qed.
Print Assumptions T_C03_find_invariant.

Theorem T_C03_cursor_bounds : forall body kvs rend st p, cursor body kvs rend st p ->
  o_index st <= o_size st /\ o_start st = body /\ o_size st = N.of_nat (length kvs).
Proof. exact cursor_bounds. Qed.
Print Assumptions T_C03_cursor_bounds.

(* one full unsuccessful cycle (absent key, no current key) returns to the member it started from;
   started at member 0 it ends at the end of the object, i.e. at "member mSize" *)
Theorem T_C03_find_absent_cycle : forall narrow widen o body kvs rend q kvs1 kvs2 p,
  bytes body -> olayout body kvs rend -> supported kvs -> keys_distinct (keys_of kvs) = true ->
  kvs = kvs1 ++ kvs2 -> olayout body kvs1 p -> olayout p kvs2 rend ->
  lookup (key_of_q q) kvs = None ->
  let st := mkO body (N.of_nat (length kvs)) (N.of_nat (length kvs1)) None in
  find_value_by_key narrow widen o q st p =
    match kvs1 with
    | [] => Go (false, mkO body (N.of_nat (length kvs)) (N.of_nat (length kvs)) None) rend
    | _ => Go (false, st) p
    end.
Proof. exact find_absent_cycle. Qed.
Print Assumptions T_C03_find_absent_cycle.

(* every operation (SerializeValue, OpenObjectScope / OpenArrayScope / OpenBinaryScope with the child
   driven by any sub-history — partly read or not — and destroyed, VisitKeys) whose specification answer
   is error-free: answers as the association list does and keeps the invariant *)
Theorem T_C03_requests_keep_cursor : forall narrow widen o r body kvs rend,
  bytes body -> olayout body kvs rend -> doc_ok (MMap kvs) = true ->
  forall st p, cursor body kvs rend st p ->
  forall toks c, spec_req narrow widen o kvs r = (toks, None, c) ->
  exists st' p', run_req narrow widen o r st p = (toks, Go st' p', false) /\ cursor body kvs rend st' p'.
Proof. exact requests_keep_cursor. Qed.
Print Assumptions T_C03_requests_keep_cursor.

(* ---- the destructors (after 0863f96 / 49f9936 / 3580349) ---- *)
(* whatever is unread is skipped: from any state satisfying the invariant the object scope's destructor
   leaves the reader exactly behind the object *)
Theorem T_C03_close_skips_rest : forall (narrow : N -> option N) (widen : N -> N) body kvs rend st p,
  cursor body kvs rend st p -> close_obj st p = CDone rend false.
Proof. exact close_spec. Qed.
Print Assumptions T_C03_close_skips_rest.

(* ~CMsgPackReadArrayScope / ~CMsgPackReadBinaryScope: on EVERY state and EVERY input (ill-formed
   included) they return — no exception escapes, fuel is not exhausted *)
Theorem T_C03_close_array_total : forall st rest, exists r f, close_arr st rest = CDone r f.
Proof. exact close_arr_total. Qed.
Print Assumptions T_C03_close_array_total.
Theorem T_C03_close_binary_total : forall st rest, exists r f, close_bin st rest = CDone r f.
Proof. exact close_bin_total. Qed.
Print Assumptions T_C03_close_binary_total.

(* ~CMsgPackReadObjectScope (ResetKey() inside the try block since 3580349) on EVERY state and EVERY
   input, ill-formed included: it returns a reader position.  The model has no terminate outcome any
   more (cres = CDone | CFuel: every throwing call of the three destructors stands inside
   try { } catch (...) { }); what this theorem adds is that the fuel of the loops is never exhausted.
   That the real destructors do not terminate is what the correspondence run checks: an implementation
   answer TERMINATE can no longer agree with any model answer *)
Theorem T_C03_close_object_total : forall st rest, exists r f, close_obj st rest = CDone r f.
Proof. exact close_obj_total. Qed.
Print Assumptions T_C03_close_object_total.

(* no history on no well-formed input ends otherwise than with the association list's answers (see
   T_C03_mp_refines); on ill-formed input the former terminate witnesses now end in an exception /
   in a completed load whose next read reports the truncation *)
Example T_C03_close_terminate_repaired :
  run_obj_root no_narrow id_widen skip_all term_doc term_prog = Failed [KOpen] (SE EParse) /\
  run_obj_root no_narrow id_widen skip_all term_doc2 term_prog2 = Done [KOpen; KNone; KClose] [0x05; 0x01] true.
Proof. exact (conj term_repaired term_repaired2). Qed.
Print Assumptions T_C03_close_terminate_repaired.

(* the former witness of F17 (document 81, no request): the scope is destroyed, the truncation is left
   to the next read *)
Example T_C03_close_truncated_repaired : run_obj_root no_narrow id_widen skip_all [0x81] RNil = Done [KOpen; KClose] [] true.
Proof. exact f17_repaired. Qed.
Print Assumptions T_C03_close_truncated_repaired.

(* ---- refinement to the association list: FULL STRENGTH (holds since 49f9936; with callback requests since d346324) ---- *)
(* EVERY error-free history on EVERY well-formed object document, any trailing data: all key kinds and wire
   formats, any request order, repeats, absent keys, members never requested, nested objects, arrays and byte
   arrays opened and left partly read, VisitKeys, and keyed requests made from inside the VisitKeys callback
   under the visited key (what SerializeMapImpl does; NaN keys included: nothing is found under a key that does
   not equal itself and the enumeration goes on) — the answers are those of the association list and after the
   scope is destroyed the reader stands exactly at the trailing data *)
Theorem T_C03_mp_refines : forall narrow widen o data kvs rest h toks c,
  bytes data -> decode data = Some (MMap kvs, rest) -> doc_ok (MMap kvs) = true ->
  spec_reqs narrow widen o kvs h = (toks, None, c) ->
  run_obj_root narrow widen o data h = Done (KOpen :: toks ++ [KClose]) rest false.
Proof. exact obj_root_refines. Qed.
Print Assumptions T_C03_mp_refines.

(* the former witness of M01 (the callback's key was a reference to the scope's key slot: a keyed request under a NaN
   key searched on, the slot was overwritten, the value of ANOTHER member was loaded under the NaN key):
   { NaN(float):1, 1.0f:2 }, VisitKeys, an int32 loaded under each key *)
Example T_C03_mp_refines_visitkeys_repaired :
  decode nan_doc = Some (MMap nan_kvs, []) /\ doc_ok (MMap nan_kvs) = true /\
  spec_reqs no_narrow id_widen skip_all nan_kvs nan_prog = ([KFalse; KVal (VInt 2)], None, true) /\
  run_obj_root no_narrow id_widen skip_all nan_doc nan_prog = Done (KOpen :: [KFalse; KVal (VInt 2)] ++ [KClose]) [] false.
Proof. exact (conj nan_decodes (conj nan_doc_ok (conj nan_spec nan_run))). Qed.
Print Assumptions T_C03_mp_refines_visitkeys_repaired.

(* the former witness of F14: {"a":[1,2],"b":5} 7, one element of "a" read, then "b" requested *)
Example T_C03_mp_refines_f14_repaired :
  decode f14_doc = Some (MMap [(MStr [0x61], MArr [MInt 1; MInt 2]); (MStr [0x62], MInt 5)], [0x07]) /\
  spec_reqs no_narrow id_widen skip_all [(MStr [0x61], MArr [MInt 1; MInt 2]); (MStr [0x62], MInt 5)] f14_prog =
    ([KOpen; KVal (VInt 1); KClose; KVal (VInt 5)], None, false) /\
  run_obj_root no_narrow id_widen skip_all f14_doc f14_prog =
    Done (KOpen :: [KOpen; KVal (VInt 1); KClose; KVal (VInt 5)] ++ [KClose]) [0x07] false.
Proof. exact (conj f14_decodes (conj f14_spec f14_repaired)). Qed.
Print Assumptions T_C03_mp_refines_f14_repaired.

(* a history with reverse order, a byte array and an array left partly read, an absent key, VisitKeys
   in a nested object, a repeated key *)
Example T_C03_mp_refines_example :
  decode ex_doc = Some (MMap ex_kvs, [0x2A]) /\ doc_ok (MMap ex_kvs) = true /\
  spec_reqs no_narrow id_widen skip_all ex_kvs ex_prog =
    ([KOpen; KByte 1; KClose; KOpen; KVal (VInt 1); KIsEnd false; KClose; KFalse;
      KOpen; KKeys [KStr [0x78]]; KClose; KVal (VInt 5); KFalse], None, false) /\
  run_obj_root no_narrow id_widen skip_all ex_doc ex_prog =
    Done (KOpen :: [KOpen; KByte 1; KClose; KOpen; KVal (VInt 1); KIsEnd false; KClose; KFalse;
      KOpen; KKeys [KStr [0x78]]; KClose; KVal (VInt 5); KFalse] ++ [KClose]) [0x2A] false.
Proof. exact (conj ex_decodes (conj ex_doc_ok (conj ex_spec ex_run))). Qed.
Print Assumptions T_C03_mp_refines_example.

(* ---- Finalize() (8d03f7f): a scope that could not skip its rest fails the load ---- *)
(* CDone r f / Done toks rest f / (toks, outcome, f): f = the reader's mCloseScopeFailed flag, set by the
   catch (...) block of a scope destructor.  load_obj = the history, then MsgPackReadRootScope::Finalize()
   if it returned normally (what LoadObject does).
   If any scope closed on the way failed to skip its rest, the load ends with ParsingError whatever the
   program observed and even when nothing is read after the damaged part *)
Theorem T_C03_close_failure_reported : forall narrow widen o data h toks rest,
  run_obj_root narrow widen o data h = Done toks rest true ->
  load_obj narrow widen o data h = LErr toks (SE EParse).
Proof. exact close_failure_reported_obj. Qed.
Print Assumptions T_C03_close_failure_reported.

Theorem T_C03_close_failure_reported_array : forall narrow widen o data h toks rest,
  run_arr_root narrow widen o data h = Done toks rest true ->
  load_arr narrow widen o data h = LErr toks (SE EParse).
Proof. exact close_failure_reported_arr. Qed.
Print Assumptions T_C03_close_failure_reported_array.

(* the flag of a child scope is the one its destructor returns, or-ed to what was set before: never lost *)
Theorem T_C03_close_failure_propagates : forall (C P : Type) (close : C -> list N -> cres) (notify : P -> P) (pst : P) t cst cp f1 r f2,
  close cst cp = CDone r f2 ->
  with_child (after_child close notify pst) (t, Go cst cp, f1) = (KOpen :: t ++ [KClose], Go (notify pst) r, f1 || f2).
Proof. exact @with_child_flag. Qed.
Print Assumptions T_C03_close_failure_propagates.

(* on well-formed documents the flag is never set: every error-free history loads (corollary of T_C03_mp_refines) *)
Theorem T_C03_load_wellformed : forall narrow widen o data kvs rest h toks c,
  bytes data -> decode data = Some (MMap kvs, rest) -> doc_ok (MMap kvs) = true ->
  spec_reqs narrow widen o kvs h = (toks, None, c) ->
  load_obj narrow widen o data h = LOk (KOpen :: toks ++ [KClose]) rest.
Proof. exact load_obj_refines. Qed.
Print Assumptions T_C03_load_wellformed.

(* 82 a1 78 05 into a class with member x: x = 5 is loaded, the announced second member cannot be skipped, ParsingError *)
Example T_C03_close_failure_example :
  run_obj_root no_narrow id_widen skip_all trunc_doc trunc_prog = Done [KOpen; KVal (VInt 5); KClose] [] true /\
  load_obj no_narrow id_widen skip_all trunc_doc trunc_prog = LErr [KOpen; KVal (VInt 5); KClose] (SE EParse).
Proof. exact (conj trunc_run trunc_load). Qed.
Print Assumptions T_C03_close_failure_example.

(* the same for a root array, read to the end or not (vs' = what the history left unread) *)
Theorem T_C03_array_root_refines : forall narrow widen o data vs rest h toks c vs',
  bytes data -> decode data = Some (MArr vs, rest) -> doc_ok (MArr vs) = true ->
  spec_areqs narrow widen o vs h = ((toks, None, c), vs') ->
  run_arr_root narrow widen o data h = Done (KOpen :: toks ++ [KClose]) rest false.
Proof. exact arr_root_refines. Qed.
Print Assumptions T_C03_array_root_refines.

(* ---- C05, scope level: the array scope's element counter ---- *)
(* for every array document and every error-free sequence of element reads and child scopes (any
   target kinds, any policies): mIndex = number of elements consumed, the reader stands at the start
   of element mIndex (vs' = the elements not yet consumed, laid out from the reader position p), and
   the destructor passes exactly those *)
Theorem T_C05_array_scope_counts : forall narrow widen o data vs rest l toks c vs',
  bytes data -> decode data = Some (MArr vs, rest) -> doc_ok (MArr vs) = true ->
  spec_areqs narrow widen o vs l = ((toks, None, c), vs') ->
  exists body idx p,
    read_array_size o data = ROk (N.of_nat (length vs)) body /\
    run_areqs narrow widen o l (mkA (N.of_nat (length vs)) 0) body = (toks, Go (mkA (N.of_nat (length vs)) idx) p, false) /\
    idx + N.of_nat (length vs') = N.of_nat (length vs) /\ alayout p vs' rest /\
    close_arr (mkA (N.of_nat (length vs)) idx) p = CDone rest false.
Proof. exact arr_scope_counts. Qed.
Print Assumptions T_C05_array_scope_counts.

(* under the Skip policies every sequence of at most |vs| element reads of ANY target kinds is
   error-free (bad_ts: a timestamp target on a timestamp extension of an invalid size is a parsing
   error whatever the policy): element i is delivered (or skipped) from its own bytes, mIndex = number
   of reads, the reader stands at the start of element mIndex *)
Theorem T_C05_array_scope_counts_skip : forall narrow widen o data vs rest ts,
  o_mismatch o = PSkip -> o_overflow o = PSkip ->
  bytes data -> decode data = Some (MArr vs, rest) -> doc_ok (MArr vs) = true ->
  (length ts <= length vs)%nat ->
  forallb (fun tv => negb (bad_ts (fst tv) (snd tv))) (combine ts vs) = true ->
  exists body p,
    read_array_size o data = ROk (N.of_nat (length vs)) body /\
    run_areqs narrow widen o (gets ts) (mkA (N.of_nat (length vs)) 0) body =
      (map (fun tv => tok_of_tres (typed_spec narrow widen o (fst tv) (snd tv))) (combine ts vs),
       Go (mkA (N.of_nat (length vs)) (N.of_nat (length ts))) p, false) /\
    alayout p (skipn (length ts) vs) rest /\
    close_arr (mkA (N.of_nat (length vs)) (N.of_nat (length ts))) p = CDone rest false.
Proof. exact arr_scope_counts_skip. Qed.
Print Assumptions T_C05_array_scope_counts_skip.

(* ["x", 2, 3] into two int32 targets under Skip: skipped, loaded from its own bytes, third one passed *)
Example T_C05_array_scope_example :
  run_arr_root no_narrow id_widen skip_all [0x93; 0xA1; 0x78; 0x02; 0x03; 0x07] (gets [TgInt s32; TgInt s32]) =
  Done [KOpen; KFalse; KVal (VInt 2); KClose] [0x07] false.
Proof. exact ex_array. Qed.
Print Assumptions T_C05_array_scope_example.

(* SkipValue with the position at the throw (used by the guarded destructors) is SkipValue *)
Theorem T_C03_skip_at_is_skip : forall d, forget (skip_at d) = skip_value d.
Proof. exact skip_at_value. Qed.
Print Assumptions T_C03_skip_at_is_skip.

(* ---- the building blocks, as used above ---- *)
(* the reference decoder does not depend on its fuel (so member positions are well defined) *)
Theorem T_C03_decode_fuel_independent : forall f f' d, (length d < f)%nat -> (length d < f')%nat ->
  decode_ref f d = decode_ref f' d.
Proof. exact decode_fuel_indep. Qed.
Print Assumptions T_C03_decode_fuel_independent.

(* ReadKey on a key of a supported kind delivers that key (every wire format) and stops at the value *)
Theorem T_C03_read_key : forall narrow widen o d k r kk, bytes d -> decode d = Some (k, r) -> keyden k = Some kk ->
  exists sk, read_key narrow widen o d = KOk sk r /\ key_of_skey sk = kk /\ skey_ok sk.
Proof. exact read_key_on. Qed.
Print Assumptions T_C03_read_key.

(* CVariableKey::operator== is the library's key equality (integers compared as numbers whatever
   the C++ type of the request and the wire format of the stored key) *)
Theorem T_C03_key_equality : forall sk q, skey_ok sk -> skey_eq sk q = key_eq (key_of_skey sk) (key_of_q q).
Proof. exact skey_eq_spec. Qed.
Print Assumptions T_C03_key_equality.

(* every typed read of a member / element value is the specification's typed reading of that value *)
Theorem T_C03_typed_read : forall narrow widen o t d v r, bytes d -> decode d = Some (v, r) ->
  read_target narrow widen o t d = rres_of_tres (typed_spec narrow widen o t v) r.
Proof. exact read_target_on. Qed.
Print Assumptions T_C03_typed_read.

(* ReadValue(CBinTimestamp&) against the reference decoder (left open by C07) *)
Theorem T_C03_read_timestamp : forall o d v r, bytes d -> decode d = Some (v, r) -> read_ts o d = ts_result o v r.
Proof. exact read_ts_on. Qed.
Print Assumptions T_C03_read_timestamp.

(* NOT PROVED (covered by the correspondence and by the spec-vs-model comparison of the check only):
   - histories that END IN AN ERROR (a mismatching target under the Throw policy, an overflow under
     Throw, "No more items to load", an unsupported key kind): that the model then reports exactly the
     specification's tokens and error and that the unwinding destructors do not terminate
     (T_C03_mp_refines assumes an error-free history; terminate itself is excluded by the totality
     theorems of the destructors);
   - fuel sufficiency of find_loop / visit_loop on ILL-FORMED input (proved here for every document
     the reference decoder accepts: the outcomes above are Go / Done, never NoFuel; for the three
     destructors on every input: T_C03_close_*_total), and that the Stale outcome of ReadKey
     is unreachable on arbitrary input;
   - the stream reader (CMsgPackStreamReader) under the same scopes: tied to this model by the
     correspondence runs (kinds s, S) only. *)
