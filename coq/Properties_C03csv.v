(* Properties_C03csv.v — C03 on the CSV archive: named fields load correctly in any request order, with absent and
   unread fields.  Statements only.
   A CSV document is a table: a header of column names and rows; the object of row i is read by a request program,
   the list of names its Serialize asks for, in that order (CCsvReadObjectScope::SerializeValue -> ICsvReader::
   ReadValue(key, out)).  csv_load_hist sep progs text (CsvModel.v) = LoadObject<CsvArchive>(std::vector<Row>) from a
   string where the i-th row object runs the i-th program (no program left: asks for nothing); answer per row: for
   each request Some field (loaded) or None (not loaded).  csv_load_stream_hist K = the same from a UTF-8 stream
   through CEncodedStreamReader<char, K>, csv_load_chunks_hist early = the same fed an arbitrary list of non-empty
   chunks (what the encoded reader delivers for UTF-16/32 sources, T_C09_any_encoding).
   The reader keeps a column cursor per row (mValueIndex: ++ before looking, std::find over the header as fallback);
   the stream reader unescapes a quoted field in place in its buffer and remembers that in the row's meta.
   hist_rows = the answers through that cursor (read_spec, CsvReaderProofs.v); hist_named = the answers by name:
   cell hdr row key = the field under the first column called key, None when there is none (CsvSpec.v).
   Tables: any header (also the empty name, names that are prefixes of each other: names are compared as byte strings),
   any fields (separators, quotes, CR, LF inside), any RFC 4180 rendering (which fields are quoted, LF or CRLF, final
   line break), the five separators. *)
From BS Require Import Base CsvSpec CsvSpecProofs CsvModel CsvWriterProofs CsvReaderProofs CsvStreamProofs CsvTotalProofs CsvChunks CsvHistProofs.
Local Open Scope N_scope.

(* ---- full strength: every header, the first column of the requested name.  False when names repeat: header a,a, row 1,2,
   request a answers 2 (the cursor is stepped to column 1 before looking) ---- *)
Theorem T_C03csv_named_refuted :
  ~ (forall sep chs final hdr rows text progs, allowed sep -> uniform hdr rows ->
       render sep chs final (hdr :: rows) = Some text ->
       csv_load_hist sep progs text = Ok (hist_named hdr progs rows)).
Proof. exact hist_first_match_refuted. Qed.
Print Assumptions T_C03csv_named_refuted.

(* ---- distinct header names (the excluded class = exactly "some name occurs twice"): every request of every program of
   every row is answered by the field under the column of that name, None for an absent name - whatever was requested
   before in the row (any order, repeats, absent names), whatever was left unread in the rows before; memory reader,
   stream reader for every chunk size, every chunking ---- *)
Theorem T_C03csv_named_outside : forall sep chs final hdr rows text progs,
  allowed sep -> NoDup hdr -> uniform hdr rows ->
  render sep chs final (hdr :: rows) = Some text ->
  csv_load_hist sep progs text = Ok (hist_named hdr progs rows) /\
  (forall K stext, (0 < K)%nat -> stream_payload K stext = text ->
     csv_load_stream_hist K sep progs stext = Ok (hist_named hdr progs rows)) /\
  (forall early chunks, Forall (fun c => c <> []) chunks -> concat chunks = text ->
     csv_load_chunks_hist early sep progs chunks = Ok (hist_named hdr progs rows)).
Proof. exact hist_named_all. Qed.
Print Assumptions T_C03csv_named_outside.

(* what "the field under the column of that name" is *)
Theorem T_C03csv_absent : forall hdr row key, ~ In key hdr -> cell hdr row key = None.
Proof. exact cell_absent. Qed.
Print Assumptions T_C03csv_absent.

Theorem T_C03csv_present : forall hdr row key j, NoDup hdr -> length row = length hdr -> nth_error hdr j = Some key ->
  cell hdr row key = nth_error row j.
Proof. exact cell_present. Qed.
Print Assumptions T_C03csv_present.

(* ---- every header, names that repeat included: the answers are those of the column cursor (hist_rows), the same for
   the memory reader, the stream reader of every chunk size and every chunking ---- *)
Theorem T_C03csv_history_mem : forall sep chs final hdr rows text progs, allowed sep -> uniform hdr rows ->
  render sep chs final (hdr :: rows) = Some text ->
  csv_load_hist sep progs text = Ok (hist_rows hdr progs rows).
Proof. exact hist_mem. Qed.
Print Assumptions T_C03csv_history_mem.

Theorem T_C03csv_history_stream : forall K sep chs final hdr rows text progs, (0 < K)%nat -> allowed sep -> uniform hdr rows ->
  render sep chs final (hdr :: rows) = Some (stream_payload K text) ->
  csv_load_stream_hist K sep progs text = Ok (hist_rows hdr progs rows).
Proof. exact hist_stream. Qed.
Print Assumptions T_C03csv_history_stream.

Theorem T_C03csv_history_chunks : forall early sep chs final hdr rows progs chunks, allowed sep -> uniform hdr rows ->
  Forall (fun c => c <> []) chunks -> render sep chs final (hdr :: rows) = Some (concat chunks) ->
  csv_load_chunks_hist early sep progs chunks = Ok (hist_rows hdr progs rows).
Proof. exact hist_chunks. Qed.
Print Assumptions T_C03csv_history_chunks.

(* which column a request picks when names repeat (v = the column selected by the previous request of the row, 0 at the
   start of a row): column v+1 if it bears the name, else the first column of that name; an absent name still steps
   the cursor to v+1 *)
Theorem T_C03csv_duplicate_names_pick : forall hdr v key,
  select_column hdr v key =
    if match nth_error hdr (S v) with Some h => list_eqb h key | None => false end then (S v, true)
    else match find_header hdr key 0 with Some i => (i, true) | None => (S v, false) end.
Proof. exact select_column_spec. Qed.
Print Assumptions T_C03csv_duplicate_names_pick.

(* a record whose width differs from the header: ParsingError whatever is requested (no partial rows) *)
Theorem T_C03csv_width_rejected : forall sep chs final hdr recs text progs, allowed sep ->
  render sep chs final (hdr :: recs) = Some text -> Exists (fun r => length r <> length hdr) recs ->
  csv_load_hist sep progs text = Err ParsingError /\
  (forall K stext, (0 < K)%nat -> stream_payload K stext = text -> csv_load_stream_hist K sep progs stext = Err ParsingError).
Proof. exact hist_width. Qed.
Print Assumptions T_C03csv_width_rejected.

(* ---- ARBITRARY text (not only RFC 4180 renderings), every request program, every chunk size and chunking: the load
   answers with rows or with a catchable ParsingError / InvalidOptions (clean, CsvTotalProofs.v); never out of fuel (no
   hang), never a read outside the decoded buffer during in-place unescaping (the model's UB outcome), never
   std::out_of_range from the meta vector, never std::terminate ---- *)
Theorem T_C03csv_history_total : forall sep progs text,
  clean (csv_load_hist sep progs text) /\
  (forall K, (0 < K)%nat -> clean (csv_load_stream_hist K sep progs text)) /\
  (forall early chunks, Forall (fun c => c <> []) chunks -> clean (csv_load_chunks_hist early sep progs chunks)).
Proof. exact hist_total. Qed.
Print Assumptions T_C03csv_history_total.

(* ---- the hypotheses are satisfiable, the functions compute: header  <empty>;ab;a;"a""b" , a quoted last column asked
   for first and again, an absent name, the empty name, a name that is a prefix of another; a row nothing is asked of;
   the third program is never run (two rows) ---- *)
Example T_C03csv_example :
  let text := [59; 97; 98; 59; 97; 59; 34; 97; 34; 34; 98; 34; 10;
               49; 59; 50; 59; 51; 59; 34; 120; 59; 34; 34; 121; 34; 13; 10;
               53; 59; 54; 59; 55; 59; 56] in
  csv_load_hist 59 [[[97; 34; 98]; [97]; [97; 34; 98]; [122]; []; [97; 98]]; []; [[97]]] text =
    Ok [[Some [120; 59; 34; 121]; Some [51]; Some [120; 59; 34; 121]; None; Some [49]; Some [50]]; []] /\
  csv_load_stream_hist 32 59 [[[97; 34; 98]; [97]; [97; 34; 98]; [122]; []; [97; 98]]; []; [[97]]] text =
    Ok [[Some [120; 59; 34; 121]; Some [51]; Some [120; 59; 34; 121]; None; Some [49]; Some [50]]; []] /\
  csv_load_chunks_hist false 59 [[[97]]; [[97; 98]; [97]]] [firstn 20 text; skipn 20 text] =
    Ok [[Some [51]]; [Some [54]; Some [55]]].
Proof. exact hist_example. Qed.
Print Assumptions T_C03csv_example.

Example T_C03csv_duplicate_example :
  render 44 [mkChoice [false; false] EolLF; mkChoice [false; false] EolLF] true [[[97]; [97]]; [[49]; [50]]] =
    Some [97; 44; 97; 10; 49; 44; 50; 10] /\
  csv_load_hist 44 [[[97]]] [97; 44; 97; 10; 49; 44; 50; 10] = Ok [[Some [50]]] /\
  csv_load_stream_hist 32 44 [[[97]]] [97; 44; 97; 10; 49; 44; 50; 10] = Ok [[Some [50]]] /\
  hist_named [[97]; [97]] [[[97]]] [[[49]; [50]]] = [[Some [49]]].
Proof. exact hist_dup_witness. Qed.
Print Assumptions T_C03csv_duplicate_example.
