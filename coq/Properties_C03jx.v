(* Properties_C03jx.v — C03 (named fields load correctly in any request order, with absent and unread fields) for the JSON
   and XML adapters.  Statements only; the proofs are in JxHistProofs.v, the model in JxHistModel.v.

   The model: the low-level scopes of rapidjson_archive.h / pugixml_archive.h with exactly the state the C++ objects
   have.  An object scope (JO m / XO attrs children) holds its node and nothing else: every request by name searches from
   the start (RapidJSON FindMember, xml_node::child(name), xml_node::attribute(name)), so with duplicate names the FIRST
   member / child element of that name answers and later ones are never reached by name.  An array scope (JA / XA) holds
   its node and the cursor mValueIt.  A history is a list of requests (req): QGet t key = SerializeValue(key, value) with
   a target of scalar type t; QAttr (XML: through OpenAttributeScope()); QObj / QArr key sub = OpenObjectScope /
   OpenArrayScope(key) and, if it opens, the nested history sub (which may read any part of the nested scope), after which
   the nested scope is left; QKeys = VisitKeys; in an array scope the key is None and QEnd = IsEnd().  Scalars are
   converted by load_inner / load_xml_inner / load_xml_attr of JxModel.v (JSON null = not loaded; policies).
   jrun / xrun execute a history request by request, threading the scope; the result is the answers (ALoaded v | ANot |
   AOpen b | AKeys | AIsEnd) and the exception that ended the history, if any.

   'Not loaded leaves the target unchanged' is not a statement about this model (ANot carries no value): the history
   driver gives every target a sentinel value and reports a target that changed although the request returned false
   (N!..): none on any run.  The model is tied to the implementation by props/C03jx.py (jx.hist vs m.hist on generated
   documents and histories, also every root-object history with its requests shuffled). *)
From BS Require Import Base UtfSpec JxJsonSpec JxXmlSpec JxModel JxHistModel JxHistProofs.
Local Open Scope N_scope.

(* ---------------------------------------------------------------- JSON *)

(* full strength, every history: the object scope is as before (no cursor, nothing a request could disturb - also not a
   nested scope opened from a member and left partly read), and the answers are the answers of the requests taken one by
   one (jsingle m r: the request alone on a fresh scope), in history order up to the first exception.  Hence any order,
   any repetition: what a request answers depends on the document and on the request only *)
Theorem T_C03jx_json_object_history : forall i2d o h m,
  jrun i2d o h (JO m) = (JO m, seq_res (map (jsingle i2d o m) h)).
Proof. exact jobj_history. Qed.
Print Assumptions T_C03jx_json_object_history.

Theorem T_C03jx_json_order_free : forall i2d o h1 h2 m,
  snd (jrun i2d o (h1 ++ h2) (JO m)) = res_seq (snd (jrun i2d o h1 (JO m))) (fun _ => snd (jrun i2d o h2 (JO m))).
Proof. exact jobj_order_free. Qed.
Print Assumptions T_C03jx_json_order_free.

(* each request returns exactly the value stored under that key: the first member of that name (find_member; with
   duplicates the first: find_member_first), converted into the target type; an absent key: not loaded; a nested
   object: the nested history answered in the same way; an absent nested scope does not open *)
Theorem T_C03jx_json_request_answers : forall i2d o m,
  (forall k x t, find_member m k = Some x -> jsingle i2d o m (QGet t (Some k)) = res_of_lout (load_inner i2d o t x)) /\
  (forall k t, find_member m k = None -> jsingle i2d o m (QGet t (Some k)) = ([ANot], None)) /\
  (forall k m' sub, find_member m k = Some (RObj m') ->
     jsingle i2d o m (QObj (Some k) sub) = (AOpen true :: fst (seq_res (map (jsingle i2d o m') sub)), snd (seq_res (map (jsingle i2d o m') sub)))) /\
  (forall k sub, find_member m k = None ->
     jsingle i2d o m (QObj (Some k) sub) = ([AOpen false], None) /\ jsingle i2d o m (QArr (Some k) sub) = ([AOpen false], None)) /\
  (forall m1 k x m2, find_member m1 k = None -> find_member (m1 ++ (k, x) :: m2) k = Some x).
Proof.
  intros i2d o m. split; [intros; apply jget_present; assumption|]. split; [intros; apply jget_absent; assumption|].
  split; [intros; apply jobj_present; assumption|]. split; [intros; apply jscope_absent; assumption | exact find_member_first].
Qed.
Print Assumptions T_C03jx_json_request_answers.

(* an array scope is positional by nature: it does have a cursor; a request answers the item under the cursor and moves
   the cursor by one whether the item could be loaded or not; past the end it raises OutOfRange *)
Theorem T_C03jx_json_array_cursor : forall i2d o items c t,
  jexec i2d o (QGet t None) (JA items c) =
    match nth_error items c with
    | Some x => (JA items (S c), res_of_lout (load_inner i2d o t x))
    | None => (JA items c, ([], Some EOutOfRange))
    end.
Proof. exact jarr_get. Qed.
Print Assumptions T_C03jx_json_array_cursor.

(* {"a":1,"b":"x","c":{"d":true,"e":[1,2,3]},"a":2,"n":null}: b, a, zz (absent), c opened and its array e read in part,
   a again, the keys, n (null: not loaded), then a as an array (mismatch, policy Skip) *)
Example T_C03jx_json_example : forall i2d,
  let m := [([97], RInt 1); ([98], RStr [120]); ([99], RObj [([100], RBool true); ([101], RArr [RInt 1; RInt 2; RInt 3])]); ([97], RInt 2); ([110], RNull)] in
  snd (jrun i2d (mkOpts false false)
         [QGet TyStr (Some [98]); QGet (TyInt I32) (Some [97]); QGet (TyInt I32) (Some [122; 122]);
          QObj (Some [99]) [QGet TyBool (Some [100]); QArr (Some [101]) [QGet (TyInt I32) None; QEnd]];
          QGet (TyInt I32) (Some [97]); QKeys; QGet (TyInt I32) (Some [110]); QArr (Some [97]) [QGet (TyInt I32) None]] (JO m)) =
  ([ALoaded (VStr [120]); ALoaded (VInt 1); ANot; AOpen true; ALoaded (VBool true); AOpen true; ALoaded (VInt 1); AIsEnd false;
    ALoaded (VInt 1); AKeys [[97]; [98]; [99]; [97]; [110]]; ANot; AOpen false], None).
Proof. reflexivity. Qed.
Print Assumptions T_C03jx_json_example.

(* ---------------------------------------------------------------- XML *)

Theorem T_C03jx_xml_object_history : forall xstrtod xstrtof o h a ch,
  xrun xstrtod xstrtof o h (XO a ch) = (XO a ch, seq_res (map (xsingle xstrtod xstrtof o a ch) h)).
Proof. exact xobj_history. Qed.
Print Assumptions T_C03jx_xml_object_history.

Theorem T_C03jx_xml_order_free : forall xstrtod xstrtof o h1 h2 a ch,
  snd (xrun xstrtod xstrtof o (h1 ++ h2) (XO a ch)) =
  res_seq (snd (xrun xstrtod xstrtof o h1 (XO a ch))) (fun _ => snd (xrun xstrtod xstrtof o h2 (XO a ch))).
Proof. exact xobj_order_free. Qed.
Print Assumptions T_C03jx_xml_order_free.

(* by name: the first child ELEMENT of that name (find_child; text nodes have no name), an attribute through the attribute
   scope (find_attr); attributes and child elements of the same name do not see each other *)
Theorem T_C03jx_xml_request_answers : forall xstrtod xstrtof o a ch,
  (forall k x t, find_child ch k = Some x -> xsingle xstrtod xstrtof o a ch (QGet t (Some k)) = res_of_lout (load_xml_inner xstrtod xstrtof o false t x)) /\
  (forall k t, find_child ch k = None -> xsingle xstrtod xstrtof o a ch (QGet t (Some k)) = ([ANot], None)) /\
  (forall k t, xsingle xstrtod xstrtof o a ch (QAttr t k) =
     match find_attr a k with Some s => res_of_lout (load_xml_attr xstrtod xstrtof o t s) | None => ([ANot], None) end).
Proof.
  intros. split; [intros; apply xget_present; assumption|]. split; [intros; apply xget_absent; assumption | intros; apply xattr_get].
Qed.
Print Assumptions T_C03jx_xml_request_answers.

Theorem T_C03jx_xml_array_cursor : forall xstrtod xstrtof o ch c t,
  xexec xstrtod xstrtof o (QGet t None) (XA ch c) =
    match nth_error ch c with
    | Some x => (XA ch (S c), res_of_lout (load_xml_inner xstrtod xstrtof o false t x))
    | None => (XA ch c, ([], Some EOutOfRange))
    end.
Proof. exact xarr_get. Qed.
Print Assumptions T_C03jx_xml_array_cursor.

(* <root a="1"><a>x</a><b><value>t</value></b><a>y</a></root>: child a (the first of the two), attribute a, an absent
   child, the array b read one item too far *)
Example T_C03jx_xml_example : forall xstrtod xstrtof,
  snd (xrun xstrtod xstrtof (mkOpts false false)
         [QGet TyStr (Some [97]); QAttr TyStr [97]; QGet TyStr (Some [122]); QKeys; QArr (Some [98]) [QGet TyStr None; QEnd; QGet TyStr None]]
         (XO [([97], [49])] [XElem [97] [] [XText [120]]; XElem [98] [] [XElem [118; 97; 108; 117; 101] [] [XText [116]]]; XElem [97] [] [XText [121]]])) =
  ([ALoaded (VStr [120]); ALoaded (VStr [49]); ANot; AKeys [[97]; [98]; [97]]; AOpen true; ALoaded (VStr [116]); AIsEnd true], Some EOutOfRange).
Proof. reflexivity. Qed.
Print Assumptions T_C03jx_xml_example.
