(* Properties_C03s.v — C03 over a STREAM: the MsgPack archive scopes (MpScopeModel.v) re-expressed as an
   adaptive client of the IMsgPackReader interface (MpScopeClient.v), composed with the mpstream family's
   theorem T_C10mp_adaptive_stream_equals_memory (Properties_C10mp.v): loading named fields from a stream =
   loading them from memory, at the scope level.  Statements only.

   client A / CCall op k / CRet a, str_client_run, mps_client_bsr, client_seeks_ok, stream_of, fits_streamoff,
   bytes_ok: as in Properties_C10mp.v (bytes_ok = bytes of Properties_C03.v: all < 256).
   scope_client n h : client (option (list tok * N * bool)) = the reader operations the scope classes issue for the
   history h on a root object, each decided from the answers seen so far:
     OpenObjectScope           RdMap (the child's mStartPos := GetPosition() after it)
     FindValueByKey            [SetPosition(mStartPos) when mIndex = mSize]; ReadKey = RdType, then the typed read of
                               that kind (RdStr / RdInt u64 / RdInt s64 / RdF64 / RdF32 / RdTs); compare; RdSkip of the
                               value when it is another key; at most mSize rounds
     ResetKey                  RdSkip when a key is current
     SerializeValue(key, T&)   the typed read of T (RdInt t / RdNil / RdF32 / RdF64 / RdStr / RdTs)
     the destructors           ResetKey, then two RdSkip per remaining member
   and returns (tokens, GetPosition() at the end, IsCloseScopeFailed() = false); n bounds the loops (the member
   counts come from the document; n = number of bytes + 1 suffices).  The run ends at the first exception of
   the reader (result None of the run), or with Some None where the scope classes throw an exception of their own
   (unsupported key type).
   FRAGMENT (frag_reqs h = true): THE WHOLE HISTORY LANGUAGE, the guarded request only around an element load: RGet (any key kind, any
   target), RObj, RArr with element requests AGet / AObj / AArr / ABin / AEnd, RBin (byte array: the binary scope and n
   byte loads), RVisit (VisitKeys without a callback), REach (VisitKeys with a callback that, under the visited key,
   does nothing / loads a value / opens an object / an array / a byte array / a byte array with the array fallback:
   VSkip / VGet / VObj / VArr / VBin / VBinArr — what SerializeMapImpl does), all nested to any depth and in any
   order — repeated keys, absent keys, keys requested out of order (the wrap-around with its rewind), arrays and byte
   arrays left partly read included.  AThrow / VThrow (the caller's own code throws) are admitted: the client stops
   there with Some None; an error-free history never executes one.
   THE GUARDED REQUEST ATry a (try { a } catch (OutOfRange) { }, written by the CALLER of the array scope; no library
   code does since 9e55af6) is in the fragment for a = AGet t: "No more items to load" is raised by the scope's own
   CheckEnd BEFORE any reader call, so the client catches it by not issuing the read (token KCaught, nothing moved)
   — exactly the exhaustion of the array the request is made on, what the specification's ATry catches.  Around a
   request that opens a child scope (AObj / AArr / ABin) the C++ catch also catches an OutOfRange raised INSIDE the
   child after the child's destructors have run during stack unwinding (the scope model's ATry does that too, the
   specification's does not: such histories end in the error there and are outside T_C03_mp_refines): a client of the
   reader interface in continuation-passing form has no unwinding, so those guarded requests stay outside frag_areq.
   scope_client_arr n h: the same for a history h on a root ARRAY (OpenArrayScope at the root).
   Further operations of the client:
     OpenArrayScope            RdArr
     array element requests    CheckEnd (no reader call), then the typed read / RdMap / RdArr
     ~CMsgPackReadArrayScope   one RdSkip per remaining element
     VisitKeys                 ResetKey, SetPosition(mStartPos), then per member ReadKey, the callback's keyed request
                               (the key is current: no search), ResetKey (= RdSkip when the value was not consumed)
     OpenBinaryScope           RdType; a binary: RdBin, then per byte load CheckEnd (no reader call) and RdByte;
                               anything else: declined, nothing consumed
     ~CMsgPackReadBinaryScope  one RdByte per remaining byte *)
From BS Require Import Base MpSpec MpModel StreamIStream StreamSpec StreamModel StreamBsrProofs MpStreamModel MpStreamProofs.
From BS Require Import MpLemmas MpReader MpTyped MpScopeSpec MpScopeModel MpScopeLemmas MpScopeTyped MpScopeProofs MpScopeRefine MpScopeClient.
Local Open Scope N_scope.

(* (2) the client form and the direct model coincide: whenever the scope model, run on the bytes in memory, returns
   normally with the flag clear (any bytes: no well-formedness assumed here), the client driving the STRING reader
   returns the same tokens, the position of the model's rest, and the flag *)
Theorem T_C03s_client_is_scope_model : forall K narrow widen o data n h toks rest,
  (8 <= K)%nat -> fits_streamoff data -> bytes_ok data -> (length data < n)%nat -> frag_reqs h = true ->
  run_obj_root narrow widen o data h = Done toks rest false ->
  snd (str_client_run narrow widen data o (scope_client n h)) = Some (Some (toks, N.of_nat (length data - length rest), false)).
Proof. intros K narrow widen o data n h toks rest HK Hf Hb. exact (scope_client_run narrow widen o data K HK Hf Hb n h toks rest). Qed.
Print Assumptions T_C03s_client_is_scope_model.

(* (3) every SetPosition the client issues goes to an mStartPos, i.e. to a GetPosition() answer: inside the data,
   for EVERY history (outside the fragment the client stops at once), every input and wherever it is started *)
Theorem T_C03s_client_seeks_ok : forall narrow widen o data n h d,
  client_seeks_ok narrow widen data o (scope_client n h) d = true.
Proof. exact scope_client_seeks_ok. Qed.
Print Assumptions T_C03s_client_seeks_ok.

(* the client over the stream reader on the chunked reader = the client over the string reader: transcript and result *)
Theorem T_C03s_client_stream_equals_memory : forall K narrow widen o data fuel n h,
  (8 <= K)%nat -> fits_streamoff data -> bytes_ok data -> (length data < fuel)%nat ->
  mps_client_bsr narrow widen K (stream_of data true) fuel o (scope_client n h) =
  Ok (str_client_run narrow widen data o (scope_client n h)).
Proof.
  intros K narrow widen o data fuel n h HK Hf Hb Hfuel.
  apply client_on_chunked_stream; try assumption. apply scope_client_seeks_ok.
Qed.
Print Assumptions T_C03s_client_stream_equals_memory.

(* whatever the scope model returns normally in memory (flag clear), the scopes over the stream return *)
Theorem T_C03s_stream_run_is_scope_model : forall K narrow widen o data fuel n h toks rest,
  (8 <= K)%nat -> fits_streamoff data -> bytes_ok data -> (length data < fuel)%nat -> (length data < n)%nat ->
  frag_reqs h = true ->
  run_obj_root narrow widen o data h = Done toks rest false ->
  exists tr,
    mps_client_bsr narrow widen K (stream_of data true) fuel o (scope_client n h) =
    Ok (tr, Some (Some (toks, N.of_nat (length data - length rest), false))).
Proof.
  intros K narrow widen o data fuel n h toks rest HK Hf Hb Hfuel Hn Hfr Hrun.
  rewrite (T_C03s_client_stream_equals_memory K narrow widen o data fuel n h HK Hf Hb Hfuel).
  pose proof (T_C03s_client_is_scope_model K narrow widen o data n h toks rest HK Hf Hb Hn Hfr Hrun) as E.
  destruct (str_client_run narrow widen data o (scope_client n h)) as [tr res]. cbn [snd] in E. subst res.
  exists tr. reflexivity.
Qed.
Print Assumptions T_C03s_stream_run_is_scope_model.

(* (4) C03 OVER A STREAM: for every chunk size K >= 8, every well-formed object document on a seekable stream (any
   trailing data), every error-free history of the fragment: the scope classes driving CMsgPackStreamReader over
   the chunked reader observe exactly the answers of the association list (the tokens of T_C03_mp_refines), end
   with the reader at the trailing data and the close flag clear — and issue exactly the reader operations, with
   exactly the answers, they issue over the string reader (the transcript) *)
Theorem T_C03_stream_equals_memory : forall K narrow widen o data kvs rest h toks c fuel,
  (8 <= K)%nat -> fits_streamoff data -> bytes_ok data -> (length data < fuel)%nat ->
  decode data = Some (MMap kvs, rest) -> doc_ok (MMap kvs) = true ->
  frag_reqs h = true ->
  spec_reqs narrow widen o kvs h = (toks, None, c) ->
  mps_client_bsr narrow widen K (stream_of data true) fuel o (scope_client (S (length data)) h) =
    Ok (fst (str_client_run narrow widen data o (scope_client (S (length data)) h)),
        Some (Some (KOpen :: toks ++ [KClose], N.of_nat (length data - length rest), false))) /\
  run_obj_root narrow widen o data h = Done (KOpen :: toks ++ [KClose]) rest false.
Proof.
  intros K narrow widen o data kvs rest h toks c fuel HK Hf Hb Hfuel Hd Hok Hfr Hs.
  pose proof (obj_root_refines narrow widen o data kvs rest h toks c Hb Hd Hok Hs) as Hrun.
  split; [|exact Hrun].
  rewrite (T_C03s_client_stream_equals_memory K narrow widen o data fuel _ h HK Hf Hb Hfuel).
  pose proof (T_C03s_client_is_scope_model K narrow widen o data (S (length data)) h _ rest HK Hf Hb (Nat.lt_succ_diag_r _) Hfr Hrun) as E.
  destruct (str_client_run narrow widen data o (scope_client (S (length data)) h)) as [tr res]. cbn [snd fst] in *. subst res.
  reflexivity.
Qed.
Print Assumptions T_C03_stream_equals_memory.

(* the same for a ROOT ARRAY (a sequence container / tuple at the root), read to the end or not *)
Theorem T_C03_stream_equals_memory_arr : forall K narrow widen o data vs rest h toks c vs' fuel,
  (8 <= K)%nat -> fits_streamoff data -> bytes_ok data -> (length data < fuel)%nat ->
  decode data = Some (MArr vs, rest) -> doc_ok (MArr vs) = true ->
  frag_areqs h = true ->
  spec_areqs narrow widen o vs h = ((toks, None, c), vs') ->
  mps_client_bsr narrow widen K (stream_of data true) fuel o (scope_client_arr (S (length data)) h) =
    Ok (fst (str_client_run narrow widen data o (scope_client_arr (S (length data)) h)),
        Some (Some (KOpen :: toks ++ [KClose], N.of_nat (length data - length rest), false))) /\
  run_arr_root narrow widen o data h = Done (KOpen :: toks ++ [KClose]) rest false.
Proof.
  intros K narrow widen o data vs rest h toks c vs' fuel HK Hf Hb Hfuel Hd Hok Hfr Hs.
  pose proof (arr_root_refines narrow widen o data vs rest h toks c vs' Hb Hd Hok Hs) as Hrun.
  split; [|exact Hrun].
  rewrite (client_on_chunked_stream K data narrow widen fuel o _ (scope_client_arr (S (length data)) h) HK Hf Hb Hfuel
             (scope_client_arr_seeks_ok narrow widen o data _ h data)).
  pose proof (scope_client_arr_run narrow widen o data K HK Hf Hb (S (length data)) h _ rest (Nat.lt_succ_diag_r _) Hfr Hrun) as E.
  destruct (str_client_run narrow widen data o (scope_client_arr (S (length data)) h)) as [tr res]. cbn [snd fst] in *. subst res.
  reflexivity.
Qed.
Print Assumptions T_C03_stream_equals_memory_arr.

(* ---------------------------------------------------------------- histories that END IN AN EXCEPTION *)
(* obj_root_res / arr_root_res .. data h = the root scope's run before finish_root: (tokens, outcome, flag);
   run_obj_root = finish_root of it.  Outcome Raise se u p = the history ended in the exception se: SE e = a
   SerializationException / ParsingException of class e (mismatch or overflow under the Throw policy, a malformed or
   truncated value, an unsupported key type), SERange = "No more items to load".  Flag false = no scope failed to
   close, neither before the exception nor while it propagated (a destructor that cannot skip its rest swallows that
   error and goes on: the client has no counterpart of that; on a document the reference decoder accepts no destructor
   fails).  THEN, for every chunk size K >= 8 on a seekable stream, the scope classes over the stream reader issue
   exactly the reader operations, with exactly the answers, they issue over the string reader (the transcript), and the
   run ends the same way: in the READER's exception of the same class e at the same call (the transcript ends with
   (op, AErrOf e)), or — when the exception is one the scope classes or their caller raise themselves without a
   reader call ("No more items to load", "Unsupported key type", the caller's own throw) — with the client stopping
   (result Some None) after the same calls *)
Theorem T_C03_stream_error_equals_memory : forall K narrow widen o data fuel n h toks se u p,
  (8 <= K)%nat -> fits_streamoff data -> bytes_ok data -> (length data < fuel)%nat -> (length data < n)%nat ->
  frag_reqs h = true ->
  obj_root_res narrow widen o data h = (toks, Raise se u p, false) ->
  run_obj_root narrow widen o data h = Failed toks se /\
  mps_client_bsr narrow widen K (stream_of data true) fuel o (scope_client n h) =
    Ok (str_client_run narrow widen data o (scope_client n h)) /\
  (snd (str_client_run narrow widen data o (scope_client n h)) = Some None \/
   exists e tr op, se = SE e /\ str_client_run narrow widen data o (scope_client n h) = (tr ++ [(op, AErrOf e)], None)).
Proof.
  intros K narrow widen o data fuel n h toks se u p HK Hf Hb Hfuel Hn Hfr H.
  split; [rewrite obj_root_res_final, H; reflexivity|]. split.
  - apply client_on_chunked_stream; try assumption. apply scope_client_seeks_ok.
  - exact (EC_run narrow widen o data se _ (scope_client_fail narrow widen o data K HK Hf Hb n h toks se u p Hn Hfr H)).
Qed.
Print Assumptions T_C03_stream_error_equals_memory.

Theorem T_C03_stream_error_equals_memory_arr : forall K narrow widen o data fuel n h toks se u p,
  (8 <= K)%nat -> fits_streamoff data -> bytes_ok data -> (length data < fuel)%nat -> (length data < n)%nat ->
  frag_areqs h = true ->
  arr_root_res narrow widen o data h = (toks, Raise se u p, false) ->
  run_arr_root narrow widen o data h = Failed toks se /\
  mps_client_bsr narrow widen K (stream_of data true) fuel o (scope_client_arr n h) =
    Ok (str_client_run narrow widen data o (scope_client_arr n h)) /\
  (snd (str_client_run narrow widen data o (scope_client_arr n h)) = Some None \/
   exists e tr op, se = SE e /\ str_client_run narrow widen data o (scope_client_arr n h) = (tr ++ [(op, AErrOf e)], None)).
Proof.
  intros K narrow widen o data fuel n h toks se u p HK Hf Hb Hfuel Hn Hfr H.
  split; [rewrite arr_root_res_final, H; reflexivity|]. split.
  - apply client_on_chunked_stream; try assumption. apply scope_client_arr_seeks_ok.
  - exact (EC_run narrow widen o data se _ (scope_client_arr_fail narrow widen o data K HK Hf Hb n h toks se u p Hn Hfr H)).
Qed.
Print Assumptions T_C03_stream_error_equals_memory_arr.

(* not vacuous: ex_doc under the Throw policies, the byte array "b" requested as a string: the model ends in
   MismatchedTypes after [KOpen] with the flag clear; over the chunk-size-8 stream the run makes 13 reader calls, the
   last one the string read that throws *)
Definition sx_err_prog : reqs :=
  RCons (RGet (QStr [0x62]) TgStr) (RCons (RObj (QU 7) (RCons (RGet (QStr [0x78]) (TgInt s32)) RNil)) RNil).
Example T_C03s_stream_error_example :
  frag_reqs sx_err_prog = true /\
  obj_root_res no_narrow id_widen (mkOpts PThrow PThrow) ex_doc sx_err_prog =
    ([KOpen], Raise (SE EMismatch) tt (Some [0xC4; 0x02; 0x01; 0x02; 0x2A]), false) /\
  match mps_client_bsr no_narrow id_widen 8 (stream_of ex_doc true) 100 (mkOpts PThrow PThrow) (scope_client 25 sx_err_prog) with
  | Ok (tr, res) => res = None /\ length tr = 13%nat /\ last tr (RdNil, AFuelOut) = (RdStr, AErrOf EMismatch)
  | Fault => False
  end.
Proof.
  split; [vm_compute; reflexivity|]. split; [vm_compute; reflexivity|].
  vm_compute. split; [reflexivity|]. split; reflexivity.
Qed.
Print Assumptions T_C03s_stream_error_example.

(* not vacuous: { "k":5, 7:{ "x":nil }, "arr":[1,"s"], "b":bin(1,2) } followed by 0x2A, chunk size 8; the array first
   (one of its two elements read, IsEnd asked, the rest passed by the destructor), then the nested object (found only
   after a wrap-around: rewind to 1; in it VisitKeys: rewind to the child's mStartPos = 6, then a key found after a
   rewind to 6, then an absent one: a whole round and a rewind to 6), an absent key (rewind to 1), VisitKeys with a
   callback (rewind to 1) that loads an int under the first key, opens the object under the second, the array under
   the third and skips the fourth, then the first member (rewind to 1) and the same key again into a mismatching
   target under the Skip policy; 88 reader calls, 8 of them SetPosition; the reader ends at byte 23 *)
Definition sx_prog : reqs :=
  RCons (RArr (QStr [0x61; 0x72; 0x72]) (ACons (AGet (TgInt s32)) (ACons AEnd ANil)))
 (RCons (RObj (QU 7) (RCons RVisit (RCons (RGet (QStr [0x78]) TgNil) (RCons (RGet (QStr [0x79]) TgStr) RNil))))
 (RCons (RGet (QStr [0x7A]) TgStr)
 (RCons (REach (VACons (VGet (TgInt s32)) (VACons (VObj (RCons (RGet (QStr [0x78]) TgNil) RNil))
               (VACons (VArr (ACons (AGet (TgInt s32)) ANil)) VANil))))
 (RCons (RGet (QStr [0x6B]) (TgInt s32))
 (RCons (RGet (QStr [0x6B]) TgStr) RNil))))).

Definition seeks_of (t : transcript) : list N :=
  flat_map (fun x => match fst x with RdSetPos p => [p] | _ => [] end) t.

Example T_C03s_stream_example :
  frag_reqs sx_prog = true /\
  spec_reqs no_narrow id_widen skip_all ex_kvs sx_prog =
    ([KOpen; KVal (MpScopeSpec.VInt 1); KIsEnd false; KClose; KOpen; KKeys [KStr [0x78]]; KVal VNil; KFalse; KClose;
      KFalse; KVal (MpScopeSpec.VInt 5); KOpen; KVal VNil; KClose; KOpen; KVal (MpScopeSpec.VInt 1); KClose;
      KVal (MpScopeSpec.VInt 5); KFalse], None, false) /\
  match mps_client_bsr no_narrow id_widen 8 (stream_of ex_doc true) 100 skip_all (scope_client 25 sx_prog) with
  | Ok (tr, res) =>
    res = Some (Some ([KOpen; KOpen; KVal (MpScopeSpec.VInt 1); KIsEnd false; KClose; KOpen; KKeys [KStr [0x78]]; KVal VNil; KFalse; KClose;
                       KFalse; KVal (MpScopeSpec.VInt 5); KOpen; KVal VNil; KClose; KOpen; KVal (MpScopeSpec.VInt 1); KClose;
                       KVal (MpScopeSpec.VInt 5); KFalse; KClose], 23, false)) /\
    length tr = 88%nat /\ seeks_of tr = [1; 6; 6; 6; 1; 1; 1; 1]
  | Fault => False
  end.
Proof.
  split; [vm_compute; reflexivity|]. split; [vm_compute; reflexivity|].
  vm_compute. split; [reflexivity|]. split; reflexivity.
Qed.
Print Assumptions T_C03s_stream_example.

(* ... and with a byte array: ex_prog of Properties_C03.v (T_C03 example: a byte array left partly read first, an array
   left partly read, an absent key, VisitKeys in a child, a repeated key) over the same stream: 84 reader calls *)
Example T_C03s_stream_example_bytes :
  frag_reqs ex_prog = true /\
  match mps_client_bsr no_narrow id_widen 8 (stream_of ex_doc true) 100 skip_all (scope_client 25 ex_prog) with
  | Ok (tr, res) =>
    res = Some (Some (KOpen :: [KOpen; KByte 1; KClose; KOpen; KVal (MpScopeSpec.VInt 1); KIsEnd false; KClose; KFalse;
                                KOpen; KKeys [KStr [0x78]]; KClose; KVal (MpScopeSpec.VInt 5); KFalse] ++ [KClose], 23, false)) /\
    length tr = 84%nat
  | Fault => False
  end.
Proof. split; [vm_compute; reflexivity|]. vm_compute. split; reflexivity. Qed.
Print Assumptions T_C03s_stream_example_bytes.

(* NOT stated here:
   - the guarded request around a request that opens a child scope (ATry (AObj / AArr / ABin ..)) as a client;
   - error-ending histories in which a scope FAILED TO CLOSE (flag set: ill-formed or truncated documents where a
     destructor could not skip its rest): the C++ destructor swallows that error and the program goes on, the client's
     run ends there; and what the unwinding destructors do over a stream after the exception (MpStreamModel.v: the
     run ends at the first exception);
   - non-seekable streams: FindValueByKey's rewind is refused there (the T_C10mp_nonseekable theorems). *)
