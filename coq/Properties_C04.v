(* Properties_C04.v — C04: numbers load exactly or are reported per policy, never silently altered.
   Statements only.  NumSpec.v: types, ranges, conv_spec.  NumModel.v: conv (the cast-and-compare-back
   of Convert::Detail::To with explicit two's-complement wrap), convert_by_policy, load_int.
   The floating-point half (NumFloatModel.v / NumFloatProofs.v, over Flocq's IEEE754.Binary) follows the
   integer theorems; those theorems depend on the standard-library real-number axioms
   (ClassicalDedekindReals.sig_forall_dec, sig_not_dec, FunctionalExtensionality.functional_extensionality_dep,
   Classical_Prop.classic), the integer ones are closed under the global context. *)
From Coq Require Import ZArith Reals.
From Flocq Require Import Core Binary Bits.
From BS Require Import Base NumSpec NumModel NumLemmas NumProofs NumFloatModel NumFloatProofs.
Local Open Scope Z_scope.

(* every (source type, target type) pair among bool, char, (u)int8/16/32/64 and every source value:
   the conversion returns the same mathematical value when the target can represent it and reports
   out_of_range otherwise.  The model computes with explicit wrap-around casts (wrap), the
   compare-back and the sign test; the theorem says these tests are exact. *)
Theorem T_C04_int_conv : forall S T z, in_range S z ->
  conv S T z = if in_rangeb T z then COk z else COutOfRange.
Proof. exact conv_exact. Qed.
Print Assumptions T_C04_int_conv.

(* the arithmetic core for SYMBOLIC widths: any two two's-complement / binary types with half-ranges
   Hs, Ht >= 1 (Hs = 2^(bits-1)), not only the ten concrete types *)
Theorem T_C04_int_conv_any_width : forall Hs ss Ht ts z,
  1 <= Hs -> 1 <= Ht -> (Hs <= Ht \/ Ht <= Hs) -> glo Hs ss <= z <= ghi Hs ss ->
  let v := wrapg Ht ts z in
  let back := wrapg Hs ss v in
  ((back =? z) && negb (((0 <? v) && (z <? 0)) || ((v <? 0) && (0 <? z))))
    = ((glo Ht ts <=? z) && (z <=? ghi Ht ts))
  /\ (glo Ht ts <= z <= ghi Ht ts -> v = z).
Proof. exact core_exact. Qed.
Print Assumptions T_C04_int_conv_any_width.

(* no value is ever truncated, wrapped or sign-changed *)
Theorem T_C04_int_never_altered : forall S T z v, in_range S z -> conv S T z = COk v -> v = z /\ in_range T z.
Proof. exact conv_never_alters. Qed.
Print Assumptions T_C04_int_never_altered.

(* ConvertByPolicy, convertible pair: out_of_range -> Overflow error or "not loaded, target
   unchanged" per OverflowNumberPolicy; invalid_argument -> MismatchedTypes error or not loaded per
   MismatchedTypesPolicy; anything else -> ParsingError; success -> the value *)
Theorem T_C04_policy : forall (r : cres Z) old mism ovf,
  convert_by_policy true r old mism ovf =
    match r with
    | COk v => Loaded v
    | COutOfRange => match ovf with PThrow => Raised EOverflow | PSkip => NotLoaded old end
    | CInvalidArgument => match mism with PThrow => Raised EMismatchedTypes | PSkip => NotLoaded old end
    | COther => Raised EParsingError
    | CUB => LoadUB
    end.
Proof. exact (@policy_exact Z). Qed.
Print Assumptions T_C04_policy.

(* "a value of another kind is handled by the mismatched-types policy": for a pair of types without
   any conversion, MismatchedTypes error or not loaded (was refuted before fix 76c37b6: the trailing
   catch (...) re-labelled the exception as ParsingError) *)
Theorem T_C04_policy_other_kind : forall (r : cres Z) old mism ovf,
  convert_by_policy false r old mism ovf =
    match mism with PThrow => Raised EMismatchedTypes | PSkip => NotLoaded old end.
Proof. exact (@policy_other_kind_exact Z). Qed.
Print Assumptions T_C04_policy_other_kind.

(* composition: an integer of type S arriving at a target of type T that holds old *)
Theorem T_C04_load_int : forall S T z old mism ovf, in_range S z ->
  load_int S T z old mism ovf =
    if in_rangeb T z then Loaded z
    else match ovf with PThrow => Raised EOverflow | PSkip => NotLoaded old end.
Proof. exact load_int_exact. Qed.
Print Assumptions T_C04_load_int.

Example T_C04_example_wrap_detected : conv TI32 TU8 300 = COutOfRange /\ wrap 8 false 300 = 44.
Proof. exact conv_example_wrap_detected. Qed.
Print Assumptions T_C04_example_wrap_detected.

Example T_C04_example_sign_test_needed :
  cast TU32 (-1) = 4294967295 /\ cast TI32 4294967295 = -1 /\ conv TI32 TU32 (-1) = COutOfRange.
Proof. exact conv_example_sign_test_needed. Qed.
Print Assumptions T_C04_example_sign_test_needed.

Example T_C04_example_skip : load_int TI64 TI8 (-129) 5 PThrow PSkip = NotLoaded 5.
Proof. exact load_example_skip. Qed.
Print Assumptions T_C04_example_skip.

(* ================= floating-point half (Flocq) =================
   Model: static_cast<float/double>(integer) = round to nearest even, static_cast<integer>(float) =
   truncation, UNDEFINED outside the type ([conv.fpint]; proved unreachable), double -> float = round to nearest even inside
   [lowest, max], float -> double exact. *)

(* integer -> float / double: whatever the conversion returns is EXACTLY the source value
   (the code accepts no rounding at all: stricter than C04 needs, never weaker) *)
Theorem T_C04_int_to_f32_exact : forall S z v, in_range S z -> conv_int_f32 S z = COk v ->
  Binary.B2R 24 128 v = IZR z /\ Binary.is_finite 24 128 v = true.
Proof. exact int_to_f32_exact. Qed.
Print Assumptions T_C04_int_to_f32_exact.

Theorem T_C04_int_to_f64_exact : forall S z v, in_range S z -> conv_int_f64 S z = COk v ->
  Binary.B2R 53 1024 v = IZR z /\ Binary.is_finite 53 1024 v = true.
Proof. exact int_to_f64_exact. Qed.
Print Assumptions T_C04_int_to_f64_exact.

(* every exactly representable integer is accepted (no refusal, no undefined behaviour) *)
Theorem T_C04_int_to_f32_complete : forall S z, in_range S z ->
  generic_format radix2 (SpecFloat.fexp 24 128) (IZR z) ->
  conv_int_f32 S z = COk (of_int32 z).
Proof. exact int_to_f32_complete. Qed.
Print Assumptions T_C04_int_to_f32_complete.

Theorem T_C04_int_to_f64_complete : forall S z, in_range S z ->
  generic_format radix2 (SpecFloat.fexp 53 1024) (IZR z) ->
  conv_int_f64 S z = COk (of_int64 z).
Proof. exact int_to_f64_complete. Qed.
Print Assumptions T_C04_int_to_f64_complete.

(* an integer that is not exactly representable is reported as out_of_range — for every source value,
   including the top of the 32/64-bit types where the rounded value is 2^31 / 2^32 / 2^63 / 2^64
   (undefined behaviour in the compare-back before fix 30e94fb) *)
Theorem T_C04_int_to_f32_reject : forall S z, in_range S z ->
  ~ generic_format radix2 (SpecFloat.fexp 24 128) (IZR z) -> conv_int_f32 S z = COutOfRange.
Proof. exact int_to_f32_reject. Qed.
Print Assumptions T_C04_int_to_f32_reject.

Theorem T_C04_int_to_f64_reject : forall S z, in_range S z ->
  ~ generic_format radix2 (SpecFloat.fexp 53 1024) (IZR z) -> conv_int_f64 S z = COutOfRange.
Proof. exact int_to_f64_reject. Qed.
Print Assumptions T_C04_int_to_f64_reject.

(* no undefined behaviour: the outcome is always the rounded value or out_of_range *)
Theorem T_C04_int_to_f32_total : forall S z, in_range S z ->
  conv_int_f32 S z = COk (of_int32 z) \/ conv_int_f32 S z = COutOfRange.
Proof. exact int_to_f32_total. Qed.
Print Assumptions T_C04_int_to_f32_total.

Theorem T_C04_int_to_f64_total : forall S z, in_range S z ->
  conv_int_f64 S z = COk (of_int64 z) \/ conv_int_f64 S z = COutOfRange.
Proof. exact int_to_f64_total. Qed.
Print Assumptions T_C04_int_to_f64_total.

(* double -> float: accepted exactly when finite and inside [lowest, max] of float; the result is
   the nearest float (ties to even); everything else — larger magnitudes, infinities, NaN — is
   out_of_range; never undefined, never another number *)
Theorem T_C04_f64_to_f32_accept : forall x y, conv_f64_f32 x = COk y ->
  in_float_range x /\
  Binary.B2R 24 128 y = round radix2 (SpecFloat.fexp 24 128) ZnearestE (Binary.B2R 53 1024 x) /\
  Binary.is_finite 24 128 y = true.
Proof. exact f64_to_f32_accept. Qed.
Print Assumptions T_C04_f64_to_f32_accept.

Theorem T_C04_f64_to_f32_total : forall x,
  (exists y, conv_f64_f32 x = COk y /\ in_float_range x) \/ (conv_f64_f32 x = COutOfRange /\ ~ in_float_range x).
Proof. exact f64_to_f32_total. Qed.
Print Assumptions T_C04_f64_to_f32_total.

(* float -> double: always accepted, exact on finite values, infinities and NaN stay what they are *)
Theorem T_C04_f32_to_f64 : forall x, exists y, conv_f32_f64 x = COk y /\
  (Binary.is_finite 24 128 x = true -> Binary.B2R 53 1024 y = Binary.B2R 24 128 x /\ Binary.is_finite 53 1024 y = true) /\
  (Binary.is_nan 24 128 x = true -> Binary.is_nan 53 1024 y = true) /\
  (forall s, x = Binary.B754_infinity 24 128 s -> y = Binary.B754_infinity 53 1024 s).
Proof. exact f32_to_f64. Qed.
Print Assumptions T_C04_f32_to_f64.

(* floating source, integer / bool target: invalid_argument by construction *)
Theorem T_C04_fp_to_int : forall (x : binary64) T, conv_fp_int x T = CInvalidArgument.
Proof. exact fp_to_int_invalid. Qed.
Print Assumptions T_C04_fp_to_int.

Example T_C04_example_flt_limits :
  bits_of_b64 (widen flt_max) = 0x47efffffe0000000 /\ bits_of_b64 (widen flt_lowest) = 0xc7efffffe0000000.
Proof. exact flt_max_bits. Qed.
Print Assumptions T_C04_example_flt_limits.

Example T_C04_example_top_values_refused :
  conv_int_f32 TU64 (2 ^ 64 - 1) = COutOfRange /\ conv_int_f64 TU64 (2 ^ 64 - 1) = COutOfRange /\
  conv_int_f32 TI64 (2 ^ 63 - 1) = COutOfRange /\ conv_int_f64 TI64 (2 ^ 63 - 1) = COutOfRange /\
  conv_int_f32 TU32 (2 ^ 32 - 1) = COutOfRange /\ conv_int_f32 TI32 (2 ^ 31 - 1) = COutOfRange.
Proof. exact top_values_refused. Qed.
Print Assumptions T_C04_example_top_values_refused.

Example T_C04_example_top_values_accepted :
  option_map bits_of_b32 (match conv_int_f32 TU64 (2 ^ 64 - 2 ^ 40) with COk v => Some v | _ => None end) = Some 0x5f7fffff /\
  option_map bits_of_b64 (match conv_int_f64 TI64 (- 2 ^ 63) with COk v => Some v | _ => None end) = Some 0xc3e0000000000000.
Proof. exact top_values_accepted. Qed.
Print Assumptions T_C04_example_top_values_accepted.
