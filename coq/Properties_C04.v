(* Properties_C04.v — C04: numbers load exactly or are reported per policy, never silently altered.
   Statements only.  NumSpec.v: types, ranges, conv_spec.  NumModel.v: conv (the cast-and-compare-back
   of Convert::Detail::To with explicit two's-complement wrap), convert_by_policy, load_int.
   The floating-point half is in Properties_C04 below the integer theorems (see NumFloat*.v). *)
From BS Require Import Base NumSpec NumModel NumLemmas NumProofs.
Local Open Scope Z_scope.

(* every (source type, target type) pair among bool, char, (u)int8/16/32/64 and every source value:
   the conversion returns the same mathematical value when the target can represent it and reports
   out_of_range otherwise.  The model computes with explicit wrap-around casts (wrap), the
   compare-back and the sign test; the theorem says these tests are exact. *)
Theorem T_C04_int_conv : forall S T z, in_range S z ->
  conv S T z = if in_rangeb T z then COk z else COutOfRange.
Proof. exact conv_exact. Qed.
Print Assumptions T_C04_int_conv.

(* the arithmetic core for SYMBOLIC widths: any two two's-complement / binary types with half-ranges
   Hs, Ht >= 1 (Hs = 2^(bits-1)), not only the ten concrete types *)
Theorem T_C04_int_conv_any_width : forall Hs ss Ht ts z,
  1 <= Hs -> 1 <= Ht -> (Hs <= Ht \/ Ht <= Hs) -> glo Hs ss <= z <= ghi Hs ss ->
  let v := wrapg Ht ts z in
  let back := wrapg Hs ss v in
  ((back =? z) && negb (((0 <? v) && (z <? 0)) || ((v <? 0) && (0 <? z))))
    = ((glo Ht ts <=? z) && (z <=? ghi Ht ts))
  /\ (glo Ht ts <= z <= ghi Ht ts -> v = z).
Proof. exact core_exact. Qed.
Print Assumptions T_C04_int_conv_any_width.

(* no value is ever truncated, wrapped or sign-changed *)
Theorem T_C04_int_never_altered : forall S T z v, in_range S z -> conv S T z = COk v -> v = z /\ in_range T z.
Proof. exact conv_never_alters. Qed.
Print Assumptions T_C04_int_never_altered.

(* ConvertByPolicy, convertible pair: out_of_range -> Overflow error or "not loaded, target
   unchanged" per OverflowNumberPolicy; invalid_argument -> MismatchedTypes error or not loaded per
   MismatchedTypesPolicy; anything else -> ParsingError; success -> the value *)
Theorem T_C04_policy : forall (r : cres Z) old mism ovf,
  convert_by_policy true r old mism ovf =
    match r with
    | COk v => Loaded v
    | COutOfRange => match ovf with PThrow => Raised EOverflow | PSkip => NotLoaded old end
    | CInvalidArgument => match mism with PThrow => Raised EMismatchedTypes | PSkip => NotLoaded old end
    | COther => Raised EParsingError
    | CUB => LoadUB
    end.
Proof. exact (@policy_exact Z). Qed.
Print Assumptions T_C04_policy.

(* "a value of another kind is handled by the mismatched-types policy": full strength for a pair of
   types without any conversion: MismatchedTypes error or not loaded.  Refuted by the current code:
   the exception is thrown inside the try block and the trailing catch (...) re-labels it. *)
Theorem T_C04_policy_other_kind_refuted : exists (old : Z) mism ovf,
  convert_by_policy false (COk 0) old mism ovf <>
    match mism with PThrow => Raised EMismatchedTypes | PSkip => NotLoaded old end.
Proof. exact policy_other_kind_refuted. Qed.
Print Assumptions T_C04_policy_other_kind_refuted.

Theorem T_C04_policy_other_kind_outside : forall (r : cres Z) old mism ovf, mism <> PThrow ->
  convert_by_policy false r old mism ovf =
    match mism with PThrow => Raised EMismatchedTypes | PSkip => NotLoaded old end.
Proof. exact (@policy_other_kind_outside Z). Qed.
Print Assumptions T_C04_policy_other_kind_outside.

(* ... and inside the defect class the observable is exactly ParsingError *)
Theorem T_C04_policy_other_kind_inside : forall (r : cres Z) old ovf,
  convert_by_policy false r old PThrow ovf = Raised EParsingError.
Proof. exact (@policy_other_kind_inside Z). Qed.
Print Assumptions T_C04_policy_other_kind_inside.

(* composition: an integer of type S arriving at a target of type T that holds old *)
Theorem T_C04_load_int : forall S T z old mism ovf, in_range S z ->
  load_int S T z old mism ovf =
    if in_rangeb T z then Loaded z
    else match ovf with PThrow => Raised EOverflow | PSkip => NotLoaded old end.
Proof. exact load_int_exact. Qed.
Print Assumptions T_C04_load_int.

Example T_C04_example_wrap_detected : conv TI32 TU8 300 = COutOfRange /\ wrap 8 false 300 = 44.
Proof. exact conv_example_wrap_detected. Qed.
Print Assumptions T_C04_example_wrap_detected.

Example T_C04_example_sign_test_needed :
  cast TU32 (-1) = 4294967295 /\ cast TI32 4294967295 = -1 /\ conv TI32 TU32 (-1) = COutOfRange.
Proof. exact conv_example_sign_test_needed. Qed.
Print Assumptions T_C04_example_sign_test_needed.

Example T_C04_example_skip : load_int TI64 TI8 (-129) 5 PThrow PSkip = NotLoaded 5.
Proof. exact load_example_skip. Qed.
Print Assumptions T_C04_example_skip.
