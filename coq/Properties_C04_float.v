(* Properties_C04_float.v — merged into Properties_C04.v (the floating-point theorems T_C04_int_to_f32_* ,
   T_C04_f64_to_f32_*, T_C04_f32_to_f64, T_C04_fp_to_int now live there).  This file is kept only because it
   is listed in _CoqProject. *)
From BS Require Import Base.
