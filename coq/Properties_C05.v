(* Properties_C05.v — C05: a skipped value never disturbs the loading of its neighbours.
   Value level: whenever a ReadValue overload skips (mismatched type under the Skip policy, or a nil),
   it consumes exactly the bytes that the reference decoder assigns to that one value — whatever its
   kind, format width or nesting — so the next read starts at the next value; a value that is out of
   range for the target is consumed exactly as well.  Statements only. *)
From BS Require Import Base MpSpec MpModel MpLemmas MpReader MpTyped.
Local Open Scope N_scope.

Theorem T_C05_skip_exact : forall d v r, decode d = Some (v, r) -> skip_value d = SOk r.
Proof. exact skip_exact. Qed.
Print Assumptions T_C05_skip_exact.

Theorem T_C05_skip_total : forall d, skip_value d <> SFuel.
Proof. exact skip_value_never_out_of_fuel. Qed.
Print Assumptions T_C05_skip_total.

(* HandleMismatchedTypesPolicy: throw, or exactly one value skipped *)
Theorem T_C05_mismatch_consumes_one : forall (A : Type) o data,
  match decode data with
  | Some (v, r) => @mismatch_via_type A o data = if is_nil v then RNot r else mismatch_outcome o r
  | None => exists e, @mismatch_via_type A o data = RErr e
  end.
Proof. exact mismatch_consumes_one. Qed.
Print Assumptions T_C05_mismatch_consumes_one.

(* an integer that does not fit the target under the Skip overflow policy: reported as not loaded,
   position after exactly that integer *)
Theorem T_C05_overflow_consumes_one : forall o t data z r,
  decode data = Some (MInt z, r) -> in_range t z = false -> o_overflow o = PSkip ->
  read_int o t data = RNot r.
Proof. exact overflow_consumes_one. Qed.
Print Assumptions T_C05_overflow_consumes_one.

Example T_C05_example :
  read_int (mkOpts PSkip PSkip) (mkIty true 32) [0x92; 0xA1; 0x78; 0x02; 0x03] = RNot [0x03].
Proof. exact skip_example. Qed.
Print Assumptions T_C05_example.

(* NOT PROVED here (archive layer, see DESIGN.md): that the array/object scopes advance their element
   counter on a skipped element (finding F12-F14) — this file is about the reader's byte positions. *)
