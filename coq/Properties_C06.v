(* Properties_C06.v — C06: MsgPack output is spec-conformant, compact and readable by any decoder.
   Value level: each WriteValue / Begin* overload of the writer model (MpModel.v), read back by the
   reference decoder of MpSpec.v.  dec1 bytes rest = the reference decoder applied to bytes ++ rest.
   Statements only. *)
From BS Require Import Base UtfModel MpSpec MpModel MpLemmas MpWriter MpOrder.
Local Open Scope N_scope.

(* unsigned integer types: value recovered, most compact format of all integer formats *)
Theorem T_C06_u8 : forall v rest, v < 256 ->
  dec1 (wr_u8 v) rest = Some (MInt (Z.of_N v), rest) /\ length (wr_u8 v) = shortest_int_len (Z.of_N v).
Proof. exact wr_u8_ok. Qed.
Print Assumptions T_C06_u8.
Theorem T_C06_u16 : forall v rest, v < 65536 ->
  dec1 (wr_u16 v) rest = Some (MInt (Z.of_N v), rest) /\ length (wr_u16 v) = shortest_int_len (Z.of_N v).
Proof. exact wr_u16_ok. Qed.
Print Assumptions T_C06_u16.
Theorem T_C06_u32 : forall v rest, v < 4294967296 ->
  dec1 (wr_u32 v) rest = Some (MInt (Z.of_N v), rest) /\ length (wr_u32 v) = shortest_int_len (Z.of_N v).
Proof. exact wr_u32_ok. Qed.
Print Assumptions T_C06_u32.
Theorem T_C06_u64 : forall v rest, v < 18446744073709551616 ->
  dec1 (wr_u64 v) rest = Some (MInt (Z.of_N v), rest) /\ length (wr_u64 v) = shortest_int_len (Z.of_N v).
Proof. exact wr_u64_ok. Qed.
Print Assumptions T_C06_u64.

(* signed integer types: value recovered for every value; FULL STATEMENT (most compact format for
   every value) is refuted: the signed overloads never use the uint family (finding F09) *)
Theorem T_C06_i8 : forall z rest, (-128 <= z < 128)%Z ->
  dec1 (wr_i8 z) rest = Some (MInt z, rest) /\ length (wr_i8 z) = shortest_int_len z.
Proof. exact wr_i8_ok. Qed.
Print Assumptions T_C06_i8.
Theorem T_C06_i16 : forall z rest, (-32768 <= z < 32768)%Z ->
  dec1 (wr_i16 z) rest = Some (MInt z, rest) /\
  (signed_not_shortest z = false -> length (wr_i16 z) = shortest_int_len z).
Proof. exact wr_i16_ok. Qed.
Print Assumptions T_C06_i16.
Theorem T_C06_i32 : forall z rest, (-2147483648 <= z < 2147483648)%Z ->
  dec1 (wr_i32 z) rest = Some (MInt z, rest) /\
  (signed_not_shortest z = false -> length (wr_i32 z) = shortest_int_len z).
Proof. exact wr_i32_ok. Qed.
Print Assumptions T_C06_i32.
Theorem T_C06_i64_outside : forall z rest, (-9223372036854775808 <= z < 9223372036854775808)%Z ->
  dec1 (wr_i64 z) rest = Some (MInt z, rest) /\
  (signed_not_shortest z = false -> length (wr_i64 z) = shortest_int_len z).
Proof. exact wr_i64_ok. Qed.
Print Assumptions T_C06_i64_outside.
Theorem T_C06_int_shortest_signed_refuted : forall z, (-9223372036854775808 <= z < 9223372036854775808)%Z ->
  signed_not_shortest z = true -> (shortest_int_len z < length (wr_i64 z))%nat.
Proof. exact wr_i64_not_shortest. Qed.
Print Assumptions T_C06_int_shortest_signed_refuted.
Example T_C06_int_shortest_witness : wr_i16 200 = [0xD1; 0x00; 0xC8] /\ shortest_int_len 200 = 2%nat.
Proof. exact wr_i16_200. Qed.
Print Assumptions T_C06_int_shortest_witness.

(* float / double: CA / CB + big-endian IEEE bits for every bit pattern (NaN payloads included) *)
Theorem T_C06_f32 : forall bits rest, bits < 2 ^ 32 -> dec1 (wr_f32 bits) rest = Some (MF32 bits, rest).
Proof. exact wr_f32_ok. Qed.
Print Assumptions T_C06_f32.
Theorem T_C06_f64 : forall bits rest, bits < 2 ^ 64 -> dec1 (wr_f64 bits) rest = Some (MF64 bits, rest).
Proof. exact wr_f64_ok. Qed.
Print Assumptions T_C06_f64.
Theorem T_C06_nil : forall rest, dec1 wr_nil rest = Some (MNil, rest).
Proof. exact wr_nil_ok. Qed.
Print Assumptions T_C06_nil.
Theorem T_C06_bool : forall b rest, dec1 (wr_bool b) rest = Some (MBool b, rest).
Proof. exact wr_bool_ok. Qed.
Print Assumptions T_C06_bool.

(* strings: recovered byte-for-byte, shortest header (thresholds 31/32, 255/256, 65535/65536),
   lengths >= 2^32 refused with an error *)
Theorem T_C06_str : forall s rest,
  match wr_str s with
  | Some out => dec1 out rest = Some (MStr s, rest) /\
                length out = (shortest_str_header (N.of_nat (length s)) + length s)%nat
  | None => 2 ^ 32 <= N.of_nat (length s)
  end.
Proof. exact wr_str_ok. Qed.
Print Assumptions T_C06_str.

(* bin / array / map headers: the reference decoder reads the header as "n units/elements/pairs follow"
   (header = number of entries declared), shortest header form, >= 2^32 refused *)
Theorem T_C06_bin_header : forall n,
  match wr_bin_header n with
  | Some h => n < 2 ^ 32 /\ length h = shortest_bin_header n /\
              forall f d, decode_ref (S f) (h ++ d) = bin_body n d
  | None => 2 ^ 32 <= n
  end.
Proof. exact wr_bin_header_ok. Qed.
Print Assumptions T_C06_bin_header.
Theorem T_C06_array_header : forall n,
  match wr_array_header n with
  | Some h => n < 2 ^ 32 /\ length h = shortest_arr_header n /\
              forall f d, decode_ref (S f) (h ++ d) = arr_body f n d
  | None => 2 ^ 32 <= n
  end.
Proof. exact wr_array_header_ok. Qed.
Print Assumptions T_C06_array_header.
Theorem T_C06_map_header : forall n,
  match wr_map_header n with
  | Some h => n < 2 ^ 32 /\ length h = shortest_arr_header n /\
              forall f d, decode_ref (S f) (h ++ d) = map_body f n d
  | None => 2 ^ 32 <= n
  end.
Proof. exact wr_map_header_ok. Qed.
Print Assumptions T_C06_map_header.

(* Timestamp extension (type -1): what is written, as seen by the reference decoder.
   FULL STATEMENT (payload = the spec's 32/64/96-bit layout for every in-range timestamp) is refuted
   for the 96-bit layout (finding F08: seconds written before nanoseconds); it holds exactly for
   0 <= seconds < 2^34 *)
Theorem T_C06_timestamp : forall secs nanos rest, ts_in_range secs nanos ->
  dec1 (wr_ts secs nanos) rest = Some (MExt 255 (wr_ts_payload secs nanos), rest).
Proof. exact wr_ts_ok. Qed.
Print Assumptions T_C06_timestamp.
Theorem T_C06_timestamp_layout_outside : forall secs nanos, (0 <= secs < 2 ^ 34)%Z ->
  wr_ts_payload secs nanos = ts_payload secs (Z.to_N nanos).
Proof. exact wr_ts_spec_outside. Qed.
Print Assumptions T_C06_timestamp_layout_outside.
Example T_C06_timestamp_layout_refuted :
  ts_in_range (-1) 5 /\ wr_ts_payload (-1) 5 <> ts_payload (-1) 5 /\
  ts_of_payload (wr_ts_payload (-1) 5) <> Some ((-1)%Z, 5).
Proof. exact wr_ts_96_refuted. Qed.
Print Assumptions T_C06_timestamp_layout_refuted.

(* ---- typed level: the write scopes (root / array / object / binary) driven by the generic layer ---- *)
From BS Require Import MpSaveModel MpSave.

(* every saved value tree (scalars of every C++ integer type, floats, strings, byte containers, nested
   sequences, classes / maps) is exactly ONE well-formed MessagePack object from which the reference
   decoder recovers the denoted data: types, values, element order, array/map headers equal to the number
   of entries written, bin for byte containers; nothing is left over *)
Theorem T_C06_one_wellformed_object : forall v b, wf_tv v -> save v = Some b -> decode b = Some (abs v, []).
Proof. exact save_decodes. Qed.
Print Assumptions T_C06_one_wellformed_object.

(* the same inside any buffer and for any sufficient fuel (compositionality) *)
Theorem T_C06_saved_value_in_context : forall v, wf_tv v -> forall b, save v = Some b ->
  forall rest f, (length b <= f)%nat -> decode_ref (S f) (b ++ rest) = Some (abs v, rest).
Proof. exact save_decodes_fuel. Qed.
Print Assumptions T_C06_saved_value_in_context.

Example T_C06_bytes_in_array_are_bin :
  save (TArr [TBytes [1; 2]; TBytes [0x90]]) = Some [0x92; 0xC4; 2; 1; 2; 0xC4; 1; 0x90].
Proof. exact save_bytes_in_array. Qed.
Print Assumptions T_C06_bytes_in_array_are_bin.

(* ---------------------------------------------------------------- byte order (MpOrder.v) *)

(* Memory::Reverse on an 8-byte integer, as written in memory_utils.h (three mask-and-shift steps on a uint64_t),
   is the byte swap: the four 16-bit quarters in opposite order, each with its two bytes exchanged *)
Theorem T_C06_reverse64_is_byte_swap : forall v, v < 18446744073709551616 -> rev64 v = swap64 v.
Proof. exact rev64_spec. Qed.
Print Assumptions T_C06_reverse64_is_byte_swap.

(* NativeToBigEndian (= Reverse on the little-endian host) followed by a raw copy of the object representation
   emits exactly the big-endian bytes the writer model (be_bytes in wr_u16 ... wr_u64, wr_f32/f64, wr_ts and the
   length headers) and the reference decoder use; le_bytes k v = the k bytes of v in memory order on this host *)
Theorem T_C06_big_endian_64 : forall v, v < 18446744073709551616 -> le_bytes 8 (rev64 v) = be_bytes 8 v.
Proof. exact rev64_big_endian. Qed.
Print Assumptions T_C06_big_endian_64.
Theorem T_C06_big_endian_32 : forall v, v < 4294967296 -> le_bytes 4 (rev32 v) = be_bytes 4 v.
Proof. exact rev32_big_endian. Qed.
Print Assumptions T_C06_big_endian_32.
Theorem T_C06_big_endian_16 : forall v, v < 65536 -> le_bytes 2 (rev16 v) = be_bytes 2 v.
Proof. exact rev16_big_endian. Qed.
Print Assumptions T_C06_big_endian_16.

(* BigEndianToNative is the same function, so the reader undoes what the writer did *)
Theorem T_C06_reverse64_involutive : forall v, v < 18446744073709551616 -> rev64 (rev64 v) = v.
Proof. exact rev64_involutive. Qed.
Print Assumptions T_C06_reverse64_involutive.

Example T_C06_big_endian_example : le_bytes 8 (rev64 0x0102030405060708) = [1; 2; 3; 4; 5; 6; 7; 8].
Proof. vm_compute. reflexivity. Qed.
Print Assumptions T_C06_big_endian_example.
