(* Properties_C07.v — C07: the MsgPack reader accepts every valid encoding and matches a reference
   decoder.  For every byte string, what each ReadValue overload of the (string) reader model delivers
   is what the reference decoder decode (MpSpec.v, every legal format of every type) reads from the
   same bytes; inputs the reference decoder rejects (truncated, 0xC1, ...) are rejected with an error.
   mismatch_outcome o r = MismatchedTypes error or "not loaded, value skipped, position r" per policy.
   Statements only. *)
From BS Require Import Base MpSpec MpModel MpLemmas MpReader MpTyped MpTs.
Local Open Scope N_scope.

(* SkipValue: consumes exactly one value as delimited by the reference decoder, errors otherwise *)
Theorem T_C07_skip_matches_reference : forall d, agrees (decode d) (skip_value d).
Proof. exact skip_value_agrees. Qed.
Print Assumptions T_C07_skip_matches_reference.

(* integer / bool / char targets: every integer format (fixint, uint8..64, int8..64) and bool carries its
   mathematical value into the range check convert_int (exact or reported per overflow policy) *)
Theorem T_C07_read_int : forall o t data, int_spec o t data (read_int o t data).
Proof. exact read_int_agrees. Qed.
Print Assumptions T_C07_read_int.

Theorem T_C07_read_nil : forall o data, nil_spec o data (read_nil o data).
Proof. exact read_nil_agrees. Qed.
Print Assumptions T_C07_read_nil.

Theorem T_C07_read_str : forall o data, Forall (fun b => b < 256) data -> str_spec o data (read_str o data).
Proof. exact read_str_agrees. Qed.
Print Assumptions T_C07_read_str.

Theorem T_C07_read_array_size : forall o data, Forall (fun b => b < 256) data ->
  array_spec o data (read_array_size o data).
Proof. exact read_array_size_agrees. Qed.
Print Assumptions T_C07_read_array_size.

Theorem T_C07_read_map_size : forall o data, Forall (fun b => b < 256) data ->
  map_spec o data (read_map_size o data).
Proof. exact read_map_size_agrees. Qed.
Print Assumptions T_C07_read_map_size.

Theorem T_C07_read_bin_size : forall o data, bin_spec o data (read_bin_size o data).
Proof. exact read_bin_size_agrees. Qed.
Print Assumptions T_C07_read_bin_size.

(* float / double targets accept both float widths; narrowing double -> float is the C++ conversion
   (a parameter here), reported per overflow policy when it is out of float range *)
Theorem T_C07_read_f32 : forall narrow o data, f32_spec narrow o data (read_f32 narrow o data).
Proof. exact read_f32_agrees. Qed.
Print Assumptions T_C07_read_f32.
Theorem T_C07_read_f64 : forall widen o data, f64_spec widen o data (read_f64 widen o data).
Proof. exact read_f64_agrees. Qed.
Print Assumptions T_C07_read_f64.

(* timestamps (ext type -1): every ext format width carrying a 4/8/12-byte payload is accepted, other
   payload sizes are a parsing error, other ext types follow the mismatch policy.  ts_read_value is the
   spec's reading for timestamp 32 and 64; for timestamp 96 it mirrors the writer (finding F08: seconds
   taken from the first eight payload bytes) — the full-strength statement (= ts_of_payload of MpSpec.v)
   is refuted exactly there, see T_C07_ts96_refuted *)
Theorem T_C07_read_ts : forall o data, ts_spec o data (read_ts o data).
Proof. exact read_ts_agrees. Qed.
Print Assumptions T_C07_read_ts.

Theorem T_C07_ts_32_64_per_spec : forall p, Forall (fun b => b < 256) p -> (length p = 4 \/ length p = 8)%nat ->
  match ts_read_value p, ts_of_payload p with
  | Some (s, n), Some (s', n') => s = s' /\ n = Z.of_N n'
  | _, _ => False
  end.
Proof. exact ts_read_32_64_spec. Qed.
Print Assumptions T_C07_ts_32_64_per_spec.

Example T_C07_ts96_refuted :
  let p := [0; 0; 0; 5; 255; 255; 255; 255; 255; 255; 255; 255] in   (* nanoseconds = 5, seconds = -1 per spec *)
  ts_of_payload p = Some ((-1)%Z, 5) /\ ts_read_value p = Some (25769803775%Z, (-1)%Z).
Proof. exact ts96_refuted. Qed.
Print Assumptions T_C07_ts96_refuted.

(* ReadValueType classifies a decodable value without error, nil exactly as nil *)
Theorem T_C07_value_type : forall b r1,
  match decode (b :: r1) with
  | Some (v, r) => exists t, read_value_type (b :: r1) = inl t /\ vtype_eqb t TNil = is_nil v
  | None => True
  end.
Proof. exact read_value_type_ok. Qed.
Print Assumptions T_C07_value_type.

(* the reference decoder always makes progress: a value occupies at least one byte *)
Theorem T_C07_decode_progress : forall f d v r, decode_ref f d = Some (v, r) -> (length r < length d)%nat.
Proof. exact decode_progress. Qed.
Print Assumptions T_C07_decode_progress.

(* non-vacuity: a nested document with every format width is accepted by the reference decoder *)
Example T_C07_example :
  decode [0x93; 0xCD; 0x01; 0x00; 0xA2; 0x61; 0x62; 0x81; 0xD9; 0x01; 0x6B; 0xC0; 0x07] =
    Some (MArr [MInt 256; MStr [0x61; 0x62]; MMap [(MStr [0x6B], MNil)]], [0x07]).
Proof. exact decode_example. Qed.
Print Assumptions T_C07_example.

(* NOT PROVED (covered by the correspondence only): the stream-reader copy of these functions is tied to
   the same model functions by correspondence (ops of kind 's', read sequences across the 256-byte
   chunk boundary), not by a separate model; loading into classes / containers / maps goes through the
   scope classes (C03, C18). *)
