(* Properties_C08.v — C08: JSON/XML output is standard-conformant; standard renderings load identically.
   Statements only.  Level: PARTIAL.  What is proved here is (1) the reference syntax used on every run as the
   independent standard parser (JxJsonSpec.v from RFC 8259, JxXmlSpec.v from XML 1.0) and (2) facts about a
   hand-written model of the adapter logic of rapidjson_archive.h / pugixml_archive.h (JxModel.v).  RapidJSON and
   pugixml are neither modelled nor proved: their behaviour is validated document by document by props/C08.py.

   NOT PROVED (checked by the run only, or not at all):
   - soundness of the reference XML parser in the other direction (every accepted text is an XML 1.0 text of the
     subset): cross-checked on every run against xml.etree (expat) on produced, re-rendered and mutated texts.  For
     JSON both directions are theorems (T_C08_json_accepts_exactly); the run still compares with Python's json;
   - T_C08_load_invariant as ONE statement over all free choices of a rendering (proved separately: member order at
     every depth for every target type, T_C08_load_member_order_any; numeric spelling per number; white space and
     string spellings do not reach the DOM by T_C08_json_accepts_exactly, for the reference parser, not for RapidJSON);
   - anything about white space / escapes / character references / encodings at load time (third-party parsers):
     validated by the re-rendering loop; T_C08_options_passed covers the JSON string / stream paths of the model (the
     XML flags and the layout the writers produce from the indent options are observed: every pretty document is checked
     for the configured padding character and count per nesting level);
   - the XML adapter model has no theorems of its own in this file (see Properties_C01jx.v for its defects). *)
From BS Require Import Base UtfSpec UtfModel JxJsonSpec JxJsonProofs JxJsonSound JxXmlSpec JxXmlProofs JxModel JxProofs JxMemberOrder.
From Coq Require Import Permutation.
Local Open Scope N_scope.

(* ---------------------------------------------------------------- reference syntax: JSON *)

(* the parser reads back exactly the DOM that was printed: every well-formed DOM (scalar-valued strings and names,
   number lexemes of the RFC grammar), any nesting; byte level = UTF-8 *)
Theorem T_C08_json_parse_print : forall d, jwf d -> json_parse (json_print d) = JOk d.
Proof. exact json_parse_print. Qed.
Print Assumptions T_C08_json_parse_print.

(* any RFC 8259 white space (space, tab, LF, CR) before, between and after the tokens of a document does not change
   what is parsed *)
Theorem T_C08_json_ws_invariance : forall d ws0 tws, jwf d -> map fst tws = tokens_of d ->
  forallb is_ws ws0 = true -> forallb (fun tw => forallb is_ws (snd tw)) tws = true ->
  json_parse (encs W8 (render_ws ws0 tws)) = JOk d /\ json_parse (json_print d) = JOk d.
Proof. exact json_ws_invariance. Qed.
Print Assumptions T_C08_json_ws_invariance.

(* the parser is total: it never runs out of fuel, on any input *)
Theorem T_C08_json_parser_total : (forall s, json_parse_cps s <> JFuel) /\
  (forall bytes, Forall (fun b => b < 256) bytes -> json_parse bytes <> JFuel).
Proof. split; [exact json_parse_cps_total | exact json_parse_total]. Qed.
Print Assumptions T_C08_json_parser_total.

(* The parser accepts exactly the RFC 8259 texts, and returns the DOM they denote.  `renders s d` (JxJsonSound.v) is
   the generative description, with no reference to the parser: s is the token sequence of d (structural characters,
   the three literal names, strings, numbers; tokens_of), where
     - any number of the four white space characters may stand before, between and after the tokens (jt_ws);
     - a string is a quotation mark, for every code point of the value one of its spellings, a quotation mark; the
       spellings (cp_spells) are: itself when it is a Unicode scalar value >= U+0020 other than the quotation mark and
       the reverse solidus; a two-character escape (the eight of section 7, the solidus among them); \uXXXX with four
       hex digits of either case for a non-surrogate value; a \uD8xx\uDCxx pair for a supplementary code point;
     - a number is its own lexeme (the DOM carries it) and the lexeme is of the RFC number grammar (num_ok);
     - the literal names and structural characters have one spelling each.
   Both directions, at the code point level and for bytes (strict UTF-8: utf8_decode is the decoder of the UTF family).
   Consequently nothing else is accepted: no trailing comma, no leading zero, no lone surrogate escape, no raw control
   character, no second value (every such text has no `renders` derivation). *)
Theorem T_C08_json_accepts_exactly :
  (forall s d, json_parse_cps s = JOk d <-> renders s d) /\
  (forall bytes d, json_parse bytes = JOk d <-> exists cps, utf8_decode bytes = Some (Some cps) /\ renders cps d).
Proof. split; [exact json_cps_exact | exact json_parse_exact]. Qed.
Print Assumptions T_C08_json_accepts_exactly.

(* every DOM that has a rendering (hence every DOM the parser returns) is well-formed: strings and names consist of
   Unicode scalar values, numbers are RFC lexemes; and every well-formed DOM has one (its compact print) *)
Theorem T_C08_json_renderings_wf : (forall s d, renders s d -> jwf d) /\ (forall d, jwf d -> renders (json_print_cps d) d).
Proof. split; [exact renders_wf | intros d H; apply json_cps_sound, json_cps_parse_print; exact H]. Qed.
Print Assumptions T_C08_json_renderings_wf.

(* one rendering using every free choice: white space in each position, the four spellings, hex digits of both cases *)
Example T_C08_json_renders_example :
  renders ([32; 123; 10; 34; 97; 92; 47; 92; 117; 48; 48; 69; 57; 92; 117; 100; 56; 51; 68; 92; 117; 68; 69; 48; 48; 34; 9; 58; 13; 91;
            49; 46; 48; 101; 43; 50; 32; 44; 116; 114; 117; 101; 93; 32; 125; 10])
          (JObj [([97; 47; 233; 128512], JArr [JNum [49; 46; 48; 101; 43; 50]; JBool true])]).
Proof. exact renders_example. Qed.
Print Assumptions T_C08_json_renders_example.

Example T_C08_json_example :
  json_parse_cps [32; 123; 34; 97; 34; 32; 58; 91; 49; 46; 53; 101; 51; 44; 34; 92; 117; 100; 56; 51; 100; 92; 117; 100; 101; 48; 48; 92; 110; 34; 93; 125; 10] =
    JOk (JObj [([97], JArr [JNum [49; 46; 53; 101; 51]; JStr [128512; 10]])]) /\
  json_parse_cps [34; 92; 117; 100; 56; 51; 100; 34] = JErr /\ json_parse_cps [48; 49] = JErr /\ json_parse_cps [91; 49; 44; 93] = JErr /\
  num_same_value [49; 48; 48] [49; 101; 50] = true /\ num_same_value [49; 46; 48] [49; 46; 49] = false.
Proof. repeat split; reflexivity. Qed.
Print Assumptions T_C08_json_example.

(* ---------------------------------------------------------------- reference syntax: XML *)

Theorem T_C08_xml_parse_print : forall x, xwf x -> xml_parse (xml_print x) = XOk x.
Proof. exact xml_parse_print. Qed.
Print Assumptions T_C08_xml_parse_print.

Theorem T_C08_xml_parser_total : (forall s, xml_parse_cps s <> XFuel) /\
  (forall bytes, Forall (fun b => b < 256) bytes -> xml_parse bytes <> XFuel).
Proof. split; [exact xml_parse_cps_total | exact xml_parse_total]. Qed.
Print Assumptions T_C08_xml_parser_total.

Example T_C08_xml_example :
  xml_parse_cps (xml_print_cps (XElem [97] [([98], [34; 60; 10; 38])] [XText [60; 38; 62; 13; 93; 93; 62]; XElem [99] [] []; XText [32]])) =
    XOk (XElem [97] [([98], [34; 60; 10; 38])] [XText [60; 38; 62; 13; 93; 93; 62]; XElem [99] [] []; XText [32]]) /\
  xml_parse_cps [60; 97; 62; 60; 98; 62; 60; 47; 97; 62] = XErr.
Proof. split; reflexivity. Qed.
Print Assumptions T_C08_xml_example.

(* ---------------------------------------------------------------- the adapter: Finalize() and a failing writer *)

(* full strength: whenever the RapidJSON writer fails on the DOM, Finalize() reports it (an exception) instead of handing
   out what was written so far.  Holds of the model of the current code (CheckWriterResult, commit e6b2746) *)
Theorem T_C08_finalize_checks_writer : forall d, finalize_reports finalize_json d.
Proof. exact finalize_checked_reports. Qed.
Print Assumptions T_C08_finalize_checks_writer.

(* for the record, the code before that repair (finding F26, fixed): the statement was false, exactly through
   non-finite doubles *)
Theorem T_C08_finalize_unchecked_refuted : exists d, ~ finalize_reports finalize_json_unchecked d.
Proof. exact finalize_unchecked_refuted. Qed.
Print Assumptions T_C08_finalize_unchecked_refuted.

Theorem T_C08_finalize_unchecked_outside : forall d, has_nonfinite d = false -> finalize_reports finalize_json_unchecked d.
Proof. exact finalize_unchecked_outside. Qed.
Print Assumptions T_C08_finalize_unchecked_outside.

(* vector<double>{1, NaN, 2}: an exception now; the three tokens "[", 1.0, "," were handed out before *)
Example T_C08_finalize_example : finalize_json f26_witness = FError /\
  finalize_json_unchecked f26_witness = FDoc [WTok TLBrack; WDbl 0x3FF0000000000000; WTok TComma].
Proof. exact f26_document. Qed.
Print Assumptions T_C08_finalize_example.

(* ---------------------------------------------------------------- loading depends on the data model only *)

(* full strength would be: two documents that differ in numeric spelling of equal value load identically.  Refuted for
   every behaviour of the library's strtod: 1 and 1.0 into an int32 *)
Theorem T_C08_load_invariant_refuted : forall strtod i2d,
  exists l l' t, num_same_value l l' = true /\ load_number strtod i2d mkT t l <> load_number strtod i2d mkT t l'.
Proof. exact spelling_refuted. Qed.
Print Assumptions T_C08_load_invariant_refuted.

(* outside the defect class (the two spellings are typed alike by the reader: both integer spellings in 64-bit range,
   or both doubles on which the library's strtod agrees) they load identically into every target *)
Theorem T_C08_load_invariant_outside : forall strtod i2d o t l l',
  classify_num strtod l = classify_num strtod l' -> load_number strtod i2d o t l = load_number strtod i2d o t l'.
Proof. exact spelling_outside. Qed.
Print Assumptions T_C08_load_invariant_outside.

(* member order: exchanging two neighbouring members with different names (hence, by repetition, any reordering of
   members with distinct names) does not change what a class loads *)
Theorem T_C08_load_member_order : forall i2d o fields m1 a b m2, key_eqb (fst a) (fst b) = false ->
  load_json i2d o (TyObj fields) (RObj (m1 ++ a :: b :: m2)) = load_json i2d o (TyObj fields) (RObj (m1 ++ b :: a :: m2)).
Proof. exact load_class_member_order. Qed.
Print Assumptions T_C08_load_member_order.

(* Member order, in general.  `reordered d d'` (JxMemberOrder.v): d' is d with the members of any of its objects, at
   any depth, permuted (ro_obj: the member values reordered inside, then any Permutation of the members; ro_arr: item
   by item).  `members_distinct d`: no object of d has two members of the same name (with two, FindMember takes the
   first and the order does matter).  Then every target type of the model - classes, std::map, sequences, optionals and
   smart pointers, scalars, nested in any way - loads d and d' alike: the same value, or both raise; and when the
   target type contains no std::map (map_free) the outcomes are equal, error included.  For a std::map target the error
   may differ: the map is filled in document order (VisitKeys), so which of two failing members is met first depends on
   the order (second conjunct: a witness). *)
Theorem T_C08_load_member_order_any : forall i2d o t d d', reordered d d' -> members_distinct d = true ->
  osimb (map_free t) (load_json i2d o t d) (load_json i2d o t d') /\
  (map_free t = true -> load_json i2d o t d = load_json i2d o t d').
Proof.
  intros i2d o t d d' H Hd. split; [apply load_json_member_order; assumption | intros Hm; apply load_json_member_order_eq; assumption].
Qed.
Print Assumptions T_C08_load_member_order_any.

(* the reorderings include every permutation of the members of an object, and a reordering inside a member followed by
   a permutation; the old statement (two neighbours) is the instance reordered_swap *)
Theorem T_C08_reordered_permutations :
  (forall m m', Permutation m m' -> reordered (RObj m) (RObj m')) /\
  (forall m1 k x x' m2 m', reordered x x' -> Permutation (m1 ++ (k, x') :: m2) m' -> reordered (RObj (m1 ++ (k, x) :: m2)) (RObj m')) /\
  (forall l l', Forall2 reordered l l' -> reordered (RArr l) (RArr l')).
Proof. split; [exact reordered_perm | split; [exact reordered_inside | exact ro_arr]]. Qed.
Print Assumptions T_C08_reordered_permutations.

Example T_C08_load_member_order_example : forall i2d,
  (load_json i2d mkT (TyMap (TyInt U8)) (RObj [([97], RStr [120]); ([98], RInt 300)]) = Err EMismatch /\
   load_json i2d mkT (TyMap (TyInt U8)) (RObj [([98], RInt 300); ([97], RStr [120])]) = Err EOverflow) /\
  (let t := TyObj [([109], FElem, TyMap (TyObj [([120], FElem, TyInt I32); ([121], FElem, TyStr)])); ([110], FElem, TyBool)] in
   let d  := RObj [([109], RObj [([97], RObj [([120], RInt 1); ([121], RStr [117])]); ([98], RObj [([120], RInt 2); ([121], RStr [118])])]); ([110], RBool true)] in
   let d' := RObj [([110], RBool true); ([109], RObj [([98], RObj [([121], RStr [118]); ([120], RInt 2)]); ([97], RObj [([120], RInt 1); ([121], RStr [117])])])] in
   load_json i2d mkT t d = load_json i2d mkT t d' /\
   load_json i2d mkT t d = Ok (VObj [([109], VObj [([97], VObj [([120], VInt 1); ([121], VStr [117])]); ([98], VObj [([120], VInt 2); ([121], VStr [118])])]); ([110], VBool true)])).
Proof. intros i2d. split; [exact (map_error_depends_on_order i2d) | exact (member_order_example i2d)]. Qed.
Print Assumptions T_C08_load_member_order_example.

(* ---------------------------------------------------------------- the output options reach the writer *)

(* what the JSON archive configures from the options (json_writer: Writer / PrettyWriter + SetIndent, the UTF type and BOM flag
   of the AutoUTFOutputStream) yields, for every text, exactly what the options mean (spec_bytes: a string is UTF-8 without BOM
   whatever the stream options say; a stream is the text in the encoding scheme named by streamOptions.encoding, preceded by
   U+FEFF in that scheme iff writeBom), and paddingChar / paddingCharNum reach SetIndent unchanged iff enableFormat.
   rj_put is the (third-party, validated per document) behaviour of an AutoUTFOutputStream of a given UTF type *)
Theorem T_C08_options_passed : forall o cps,
  rj_put (json_writer o) cps = spec_bytes o cps /\ w_indent (json_writer o) = spec_indent o.
Proof. exact options_passed. Qed.
Print Assumptions T_C08_options_passed.

(* different encodings are never mapped to the same RapidJSON type *)
Theorem T_C08_options_utf_injective : forall a b, to_rapid_utf a = to_rapid_utf b -> a = b.
Proof. exact to_rapid_utf_injective. Qed.
Print Assumptions T_C08_options_utf_injective.

Example T_C08_options_example :
  rj_put (json_writer (mkSopts true Utf16be true true 32 2)) [91; 233; 0x1F600] = [0xFE; 0xFF; 0; 91; 0; 233; 0xD8; 0x3D; 0xDE; 0] /\
  rj_put (json_writer (mkSopts false Utf16be true false 9 1)) [91; 233] = [91; 0xC3; 0xA9] /\
  w_indent (json_writer (mkSopts true Utf8 false true 9 3)) = Some (9, 3).
Proof. exact options_example. Qed.
Print Assumptions T_C08_options_example.
