(* Properties_C08.v — C08: JSON/XML output is standard-conformant; standard renderings load identically.
   Statements only.  Level: PARTIAL.  What is proved here is (1) the reference syntax used on every run as the
   independent standard parser (JxJsonSpec.v from RFC 8259, JxXmlSpec.v from XML 1.0) and (2) facts about a
   hand-written model of the adapter logic of rapidjson_archive.h / pugixml_archive.h (JxModel.v).  RapidJSON and
   pugixml are neither modelled nor proved: their behaviour is validated document by document by props/C08.py.

   NOT PROVED (checked by the run only, or not at all):
   - soundness of the reference parsers in the other direction (every accepted text is an RFC 8259 / XML 1.0 text):
     cross-checked on every run against Python's json and xml.etree (expat) on produced, re-rendered and mutated texts;
   - T_C08_load_invariant for std::map targets under member reordering, and for nested documents as one statement
     (proved: the member lookup of classes is independent of member positions; numeric spelling per number);
   - anything about white space / escapes / character references / encodings at load time (third-party parsers):
     validated by the re-rendering loop; T_C08_options_passed covers the JSON string / stream paths of the model (the
     XML flags and the layout the writers produce from the indent options are observed: every pretty document is checked
     for the configured padding character and count per nesting level);
   - the XML adapter model has no theorems of its own in this file (see Properties_C01jx.v for its defects). *)
From BS Require Import Base UtfSpec UtfModel JxJsonSpec JxJsonProofs JxXmlSpec JxXmlProofs JxModel JxProofs.
Local Open Scope N_scope.

(* ---------------------------------------------------------------- reference syntax: JSON *)

(* the parser reads back exactly the DOM that was printed: every well-formed DOM (scalar-valued strings and names,
   number lexemes of the RFC grammar), any nesting; byte level = UTF-8 *)
Theorem T_C08_json_parse_print : forall d, jwf d -> json_parse (json_print d) = JOk d.
Proof. exact json_parse_print. Qed.
Print Assumptions T_C08_json_parse_print.

(* any RFC 8259 white space (space, tab, LF, CR) before, between and after the tokens of a document does not change
   what is parsed *)
Theorem T_C08_json_ws_invariance : forall d ws0 tws, jwf d -> map fst tws = tokens_of d ->
  forallb is_ws ws0 = true -> forallb (fun tw => forallb is_ws (snd tw)) tws = true ->
  json_parse (encs W8 (render_ws ws0 tws)) = JOk d /\ json_parse (json_print d) = JOk d.
Proof. exact json_ws_invariance. Qed.
Print Assumptions T_C08_json_ws_invariance.

(* the parser is total: it never runs out of fuel, on any input *)
Theorem T_C08_json_parser_total : (forall s, json_parse_cps s <> JFuel) /\
  (forall bytes, Forall (fun b => b < 256) bytes -> json_parse bytes <> JFuel).
Proof. split; [exact json_parse_cps_total | exact json_parse_total]. Qed.
Print Assumptions T_C08_json_parser_total.

Example T_C08_json_example :
  json_parse_cps [32; 123; 34; 97; 34; 32; 58; 91; 49; 46; 53; 101; 51; 44; 34; 92; 117; 100; 56; 51; 100; 92; 117; 100; 101; 48; 48; 92; 110; 34; 93; 125; 10] =
    JOk (JObj [([97], JArr [JNum [49; 46; 53; 101; 51]; JStr [128512; 10]])]) /\
  json_parse_cps [34; 92; 117; 100; 56; 51; 100; 34] = JErr /\ json_parse_cps [48; 49] = JErr /\ json_parse_cps [91; 49; 44; 93] = JErr /\
  num_same_value [49; 48; 48] [49; 101; 50] = true /\ num_same_value [49; 46; 48] [49; 46; 49] = false.
Proof. repeat split; reflexivity. Qed.
Print Assumptions T_C08_json_example.

(* ---------------------------------------------------------------- reference syntax: XML *)

Theorem T_C08_xml_parse_print : forall x, xwf x -> xml_parse (xml_print x) = XOk x.
Proof. exact xml_parse_print. Qed.
Print Assumptions T_C08_xml_parse_print.

Theorem T_C08_xml_parser_total : (forall s, xml_parse_cps s <> XFuel) /\
  (forall bytes, Forall (fun b => b < 256) bytes -> xml_parse bytes <> XFuel).
Proof. split; [exact xml_parse_cps_total | exact xml_parse_total]. Qed.
Print Assumptions T_C08_xml_parser_total.

Example T_C08_xml_example :
  xml_parse_cps (xml_print_cps (XElem [97] [([98], [34; 60; 10; 38])] [XText [60; 38; 62; 13; 93; 93; 62]; XElem [99] [] []; XText [32]])) =
    XOk (XElem [97] [([98], [34; 60; 10; 38])] [XText [60; 38; 62; 13; 93; 93; 62]; XElem [99] [] []; XText [32]]) /\
  xml_parse_cps [60; 97; 62; 60; 98; 62; 60; 47; 97; 62] = XErr.
Proof. split; reflexivity. Qed.
Print Assumptions T_C08_xml_example.

(* ---------------------------------------------------------------- the adapter: Finalize() and a failing writer *)

(* full strength: whenever the RapidJSON writer fails on the DOM, Finalize() reports it (an exception) instead of handing
   out what was written so far.  Holds of the model of the current code (CheckWriterResult, commit e6b2746) *)
Theorem T_C08_finalize_checks_writer : forall d, finalize_reports finalize_json d.
Proof. exact finalize_checked_reports. Qed.
Print Assumptions T_C08_finalize_checks_writer.

(* for the record, the code before that repair (finding F26, fixed): the statement was false, exactly through
   non-finite doubles *)
Theorem T_C08_finalize_unchecked_refuted : exists d, ~ finalize_reports finalize_json_unchecked d.
Proof. exact finalize_unchecked_refuted. Qed.
Print Assumptions T_C08_finalize_unchecked_refuted.

Theorem T_C08_finalize_unchecked_outside : forall d, has_nonfinite d = false -> finalize_reports finalize_json_unchecked d.
Proof. exact finalize_unchecked_outside. Qed.
Print Assumptions T_C08_finalize_unchecked_outside.

(* vector<double>{1, NaN, 2}: an exception now; the three tokens "[", 1.0, "," were handed out before *)
Example T_C08_finalize_example : finalize_json f26_witness = FError /\
  finalize_json_unchecked f26_witness = FDoc [WTok TLBrack; WDbl 0x3FF0000000000000; WTok TComma].
Proof. exact f26_document. Qed.
Print Assumptions T_C08_finalize_example.

(* ---------------------------------------------------------------- loading depends on the data model only *)

(* full strength would be: two documents that differ in numeric spelling of equal value load identically.  Refuted for
   every behaviour of the library's strtod: 1 and 1.0 into an int32 *)
Theorem T_C08_load_invariant_refuted : forall strtod i2d,
  exists l l' t, num_same_value l l' = true /\ load_number strtod i2d mkT t l <> load_number strtod i2d mkT t l'.
Proof. exact spelling_refuted. Qed.
Print Assumptions T_C08_load_invariant_refuted.

(* outside the defect class (the two spellings are typed alike by the reader: both integer spellings in 64-bit range,
   or both doubles on which the library's strtod agrees) they load identically into every target *)
Theorem T_C08_load_invariant_outside : forall strtod i2d o t l l',
  classify_num strtod l = classify_num strtod l' -> load_number strtod i2d o t l = load_number strtod i2d o t l'.
Proof. exact spelling_outside. Qed.
Print Assumptions T_C08_load_invariant_outside.

(* member order: exchanging two neighbouring members with different names (hence, by repetition, any reordering of
   members with distinct names) does not change what a class loads *)
Theorem T_C08_load_member_order : forall i2d o fields m1 a b m2, key_eqb (fst a) (fst b) = false ->
  load_json i2d o (TyObj fields) (RObj (m1 ++ a :: b :: m2)) = load_json i2d o (TyObj fields) (RObj (m1 ++ b :: a :: m2)).
Proof. exact load_class_member_order. Qed.
Print Assumptions T_C08_load_member_order.

(* ---------------------------------------------------------------- the output options reach the writer *)

(* what the JSON archive configures from the options (json_writer: Writer / PrettyWriter + SetIndent, the UTF type and BOM flag
   of the AutoUTFOutputStream) yields, for every text, exactly what the options mean (spec_bytes: a string is UTF-8 without BOM
   whatever the stream options say; a stream is the text in the encoding scheme named by streamOptions.encoding, preceded by
   U+FEFF in that scheme iff writeBom), and paddingChar / paddingCharNum reach SetIndent unchanged iff enableFormat.
   rj_put is the (third-party, validated per document) behaviour of an AutoUTFOutputStream of a given UTF type *)
Theorem T_C08_options_passed : forall o cps,
  rj_put (json_writer o) cps = spec_bytes o cps /\ w_indent (json_writer o) = spec_indent o.
Proof. exact options_passed. Qed.
Print Assumptions T_C08_options_passed.

(* different encodings are never mapped to the same RapidJSON type *)
Theorem T_C08_options_utf_injective : forall a b, to_rapid_utf a = to_rapid_utf b -> a = b.
Proof. exact to_rapid_utf_injective. Qed.
Print Assumptions T_C08_options_utf_injective.

Example T_C08_options_example :
  rj_put (json_writer (mkSopts true Utf16be true true 32 2)) [91; 233; 0x1F600] = [0xFE; 0xFF; 0; 91; 0; 233; 0xD8; 0x3D; 0xDE; 0] /\
  rj_put (json_writer (mkSopts false Utf16be true false 9 1)) [91; 233] = [91; 0xC3; 0xA9] /\
  w_indent (json_writer (mkSopts true Utf8 false true 9 3)) = Some (9, 3).
Proof. exact options_example. Qed.
Print Assumptions T_C08_options_example.
